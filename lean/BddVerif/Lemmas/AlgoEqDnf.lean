import BddVerif.Lemmas.AlgoEqDnfCnf
import BddVerif.Props.C08
/-!
Translated `Bdd::to_dnf` (`B.Gen.Algo.Bdd_to_dnf`, generated from src/_impl_bdd/_impl_dnf.rs:143) = hand-written
`B.Iter.toDnf` (same fuel: one unit per iteration of the `while let Some(..) = stack.pop()` loop) and
`B.NF.toDnf`; explicit fuel bound `5 · (#paths · size) + 1`; chained with `Props.C08.to_dnf_eq_paths` and
`Props.C10.to_dnf_sem`.

Representation: the stack `Vec<(BddPointer, Option<bool>)>` ↦ `stkArr` (model list, head = top), `path` ↦ `.toArray`,
`results` ↦ `clArr` (`List PV ↦ Array (Array (Option Bool))`).
-/
namespace B.AlgoEqIt
open B B.Gen B.Gen.Algo B.Iter
attribute [local instance 10000] Rust.monadOutcomeInline

/-- loop state of `to_dnf`: `results`, `path`, `stack` -/
abbrev DnfSt := Array (Array (Option Bool)) × Array (Option Bool) × Array (Nat × Option Bool)

/-- one iteration of the loop of `to_dnf` (hand-written; tied to the generated body in `to_dnf_desugar`) -/
def dnfStep (A : Arr) (s : DnfSt) : Outcome (ForInStep DnfSt) :=
  match s.2.2.back? with
  | none => .ok (.done s)
  | some (node, go) =>
    if node = 0 then .ok (.yield (s.1, s.2.1, s.2.2.pop))
    else if node = 1 then .ok (.yield (s.1.push s.2.1, s.2.1, s.2.2.pop))
    else
      match A[node]? with
      | none => .panic "index out of bounds"
      | some nd =>
        match go with
        | some true =>
          .ok (.yield (s.1, Rust.pvalSet s.2.1 nd.var (some false), (s.2.2.pop.push (node, some false)).push (nd.low, some true)))
        | some false =>
          .ok (.yield (s.1, Rust.pvalSet s.2.1 nd.var (some true), (s.2.2.pop.push (node, none)).push (nd.high, some true)))
        | none => .ok (.yield (s.1, Rust.pvalSet s.2.1 nd.var none, s.2.2.pop))

/-- after the loop: fuel exhaustion if the stack is not empty -/
def dnfPost (s : DnfSt) : Outcome (Array (Array (Option Bool))) :=
  match s.2.2.back? with
  | some _ => .panic "fuel"
  | none => .ok s.1

theorem to_dnf_desugar (fuel : Nat) (A : Arr) :
    Bdd_to_dnf fuel A =
      Bdd_root_pointer A >>= fun r =>
        loopI (fun _ s => dnfStep A s) 0 fuel (#[], BddPartialValuation_empty, #[(r, some true)]) >>= dnfPost := by
  unfold Bdd_to_dnf
  simp only [forIn_range_eq_loopI, Nat.sub_zero]
  apply bind_congr; intro r
  rw [loopI_congr _ (fun _ s => dnfStep A s)]
  · apply bind_congr
    intro s
    unfold dnfPost
    cases hb : s.2.2.back? with
    | none => simp
    | some x => simp
  · intro i s
    unfold dnfStep
    cases hb : s.2.2.back? with
    | none => simp
    | some x =>
      obtain ⟨node, go⟩ := x
      simp only [is_zero_eq, is_one_eq, var_of_eq, low_link_of_eq, high_link_of_eq, decide_eq_true_eq]
      by_cases h0 : node = 0
      · simp [h0]
      · by_cases h1 : node = 1
        · simp [h1]
        · simp only [h0, h1, if_false]
          cases hA : A[node]? with
          | none => simp
          | some nd =>
            cases go with
            | none => simp [Rust.pvalUnsetValue]
            | some b => cases b <;> simp

theorem dnfPost_nil (r : Array (Array (Option Bool))) (p : Array (Option Bool)) : dnfPost (r, p, stkArr []) = .ok r := rfl
theorem dnfPost_cons (r : Array (Array (Option Bool))) (p : Array (Option Bool)) (x : Nat × Option Bool) (stk) :
    dnfPost (r, p, stkArr (x :: stk)) = .panic "fuel" := by
  unfold dnfPost
  simp only [stkArr_back?, List.head?_cons]

/-- the loop of the translated `to_dnf` IS the model loop `dnfLoop` (same fuel, all inputs, same messages) -/
theorem dnfLoop_eq (A : Arr) : ∀ (fuel : Nat) (stk : List (Nat × Option Bool)) (path : PV) (res : List PV),
    loopI (fun _ s => dnfStep A s) 0 fuel (clArr res, path.toArray, stkArr stk) >>= dnfPost =
      (dnfLoop A fuel stk path res).map clArr := by
  intro fuel
  induction fuel with
  | zero =>
    intro stk path res
    rw [loopI_zero, ok_bind]
    cases stk with
    | nil => rw [dnfPost_nil]; simp [dnfLoop, Outcome.map]
    | cons x stk => rw [dnfPost_cons]; simp [dnfLoop, Outcome.map]
  | succ f ih =>
    intro stk path res
    rw [loopI_succ]
    cases stk with
    | nil => simp [dnfStep, Array.back?, dnfPost, dnfLoop, Outcome.map]
    | cons x stk =>
      obtain ⟨node, go⟩ := x
      unfold dnfStep
      simp only [stkArr_back?, List.head?_cons, stkArr_pop, List.tail_cons, stkArr_push]
      rw [dnfLoop]
      by_cases h0 : node = 0
      · simp only [h0, if_true]
        rw [loopI_shift _ (0 + 1) 0]; exact ih _ _ _
      · by_cases h1 : node = 1
        · simp only [h1, if_true, if_false, Nat.succ_ne_zero, clArr_push]
          rw [loopI_shift _ (0 + 1) 0]; exact ih _ _ _
        · simp only [h0, h1, if_false]
          cases hA : A[node]? with
          | none => simp [Outcome.map]
          | some nd =>
            cases go with
            | none =>
              simp only [pvalSet_toArray]
              rw [loopI_shift _ (0 + 1) 0]; exact ih _ _ _
            | some b =>
              cases b with
              | true =>
                simp only [pvalSet_toArray]
                rw [loopI_shift _ (0 + 1) 0]; exact ih _ _ _
              | false =>
                simp only [pvalSet_toArray]
                rw [loopI_shift _ (0 + 1) 0]; exact ih _ _ _

/-- **`Bdd::to_dnf` = `Iter.toDnf`**: for every non-empty array with at most `2^32` nodes and EVERY fuel the
    translated function returns exactly what the hand model returns with the same fuel — including
    `panic "fuel"` and `panic "index out of bounds"` -/
theorem to_dnf_eq_toDnf (A : Arr) (h1 : 1 ≤ A.size) (h32 : A.size ≤ 4294967296) (fuel : Nat) :
    Bdd_to_dnf fuel A = (Iter.toDnf A fuel).map clArr := by
  rw [to_dnf_desugar, root_pointer_eq A h1 h32, ok_bind]
  exact dnfLoop_eq A fuel [(root A, some true)] [] []

theorem to_dnf_empty (A : Arr) (h : A.size = 0) (fuel : Nat) : ∃ m, Bdd_to_dnf fuel A = .panic m := by
  rw [to_dnf_desugar]
  obtain ⟨m, hm⟩ := root_pointer_empty A h
  exact ⟨m, by rw [hm]; rfl⟩

/-! ## the fuel: number of iterations of the loop -/

/-- the model loop is monotone in its fuel -/
theorem dnfLoop_mono (A : Arr) : ∀ (f : Nat) stk (path : PV) (res R : List PV),
    dnfLoop A f stk path res = .ok R → dnfLoop A (f + 1) stk path res = .ok R := by
  intro f
  induction f with
  | zero =>
    intro stk path res R h
    cases stk with
    | nil => simpa [dnfLoop] using h
    | cons x stk => simp [dnfLoop] at h
  | succ f ih =>
    intro stk path res R h
    cases stk with
    | nil => simpa [dnfLoop] using h
    | cons x stk =>
      obtain ⟨node, go⟩ := x
      rw [dnfLoop] at h ⊢
      by_cases h0 : node = 0
      · simp only [h0, if_true] at h ⊢; exact ih _ _ _ _ h
      · by_cases h1 : node = 1
        · simp only [h1, if_true, if_false, Nat.succ_ne_zero] at h ⊢; exact ih _ _ _ _ h
        · simp only [h0, h1, if_false] at h ⊢
          cases hA : A[node]? with
          | none => simp [hA] at h
          | some nd =>
            simp only [hA] at h ⊢
            cases go with
            | none => exact ih _ _ _ _ h
            | some b => cases b <;> exact ih _ _ _ _ h

theorem dnfLoop_mono_le (A : Arr) (f f' : Nat) (hf : f ≤ f') stk (path : PV) (res R : List PV)
    (h : dnfLoop A f stk path res = .ok R) : dnfLoop A f' stk path res = .ok R := by
  induction hf with
  | refl => exact h
  | step _ ih => exact dnfLoop_mono A _ _ _ _ _ ih

/-- the number of clauses below a pointer does not depend on the literals chosen above -/
theorem paths_length_indep {A : Arr} {n : Nat} (h : Red A n) : ∀ p, p < A.size → ∀ acc acc' : PV,
    (paths A p acc).length = (paths A p acc').length := by
  intro p
  induction p using Nat.strongRecOn with
  | _ p ih =>
    intro hp acc acc'
    by_cases h0 : p = 0
    · subst h0; simp [paths_zero]
    by_cases h1 : p = 1
    · subst h1; simp [paths_one]
    have hp2 : 2 ≤ p := by omega
    have hnd : A[p]? = some A[p] := by simp [hp]
    obtain ⟨_, hl, hh, _, _, _⟩ := h.inner p A[p] hp2 hnd
    rw [paths_node h p acc hp2 _ hnd, paths_node h p acc' hp2 _ hnd, List.length_append, List.length_append,
      ih _ hl (by omega) _ (pvSet acc' A[p].var (some false)), ih _ hh (by omega) _ (pvSet acc' A[p].var (some true))]

/-- processing the entry `(p, Some(true))` takes `k ≤ 5 · (#paths below p · p) + 1` iterations (a terminal 1,
    a decision node 3 plus its two sub-diagrams; every decision node met lies on a path to `one` because a
    reduced node never has two zero children) and appends as many clauses as there are paths below `p` -/
theorem dnfLoop_count {A : Arr} {n : Nat} (h : Red A n) :
    ∀ p, p < A.size → ∀ stk (path : PV) (res : List PV),
      ∃ k path' R, (∀ fuel, dnfLoop A (fuel + k) ((p, some true) :: stk) path res =
            dnfLoop A fuel stk path' (res ++ R)) ∧
        R.length = (paths A p path).length ∧ k ≤ 5 * (R.length * p) + 1 := by
  intro p
  induction p using Nat.strongRecOn with
  | _ p ih =>
    intro hp stk path res
    by_cases h0 : p = 0
    · subst h0
      exact ⟨1, path, [], fun fuel => by rw [dnfLoop_zero]; simp, by simp [paths_zero], by simp⟩
    by_cases h1 : p = 1
    · subst h1
      exact ⟨1, path, [path], fun fuel => by rw [dnfLoop_one], by simp [paths_one], by simp⟩
    have hp2 : 2 ≤ p := by omega
    have hnd : A[p]? = some A[p] := by simp [hp]
    obtain ⟨_, hl, hh, _, _, _⟩ := h.inner p A[p] hp2 hnd
    obtain ⟨kl, path1, Rl, hrunl, hRl, hkl⟩ :=
      ih _ hl (by omega) ((p, some false) :: stk) (pvSet path A[p].var (some false)) res
    obtain ⟨kh, path2, Rh, hrunh, hRh, hkh⟩ :=
      ih _ hh (by omega) ((p, none) :: stk) (pvSet path1 A[p].var (some true)) (res ++ Rl)
    have hlen : (Rl ++ Rh).length = (paths A p path).length := by
      rw [paths_node h p path hp2 _ hnd, List.length_append, List.length_append, hRl, hRh,
        paths_length_indep h A[p].high (by omega) (pvSet path1 A[p].var (some true)) (pvSet path A[p].var (some true))]
    refine ⟨kl + kh + 3, pvSet path2 A[p].var none, Rl ++ Rh, ?_, hlen, ?_⟩
    · intro fuel
      have e : fuel + (kl + kh + 3) = (fuel + 1 + kh + 1 + kl) + 1 := by omega
      rw [e, dnfLoop_low A _ p stk path res hp2 _ hnd, hrunl,
        dnfLoop_high A _ p stk path1 _ hp2 _ hnd, hrunh, dnfLoop_done A _ p stk path2 _ hp2 _ hnd,
        List.append_assoc]
    · have hne : 1 ≤ (Rl ++ Rh).length := by
        rw [hlen]
        have := paths_ne_nil h p hp (by omega) path
        exact List.length_pos_iff.mpr this
      obtain ⟨p', rfl⟩ : ∃ p', p = p' + 1 := ⟨p - 1, by omega⟩
      have e1 : Rl.length * A[p' + 1].low ≤ Rl.length * p' := Nat.mul_le_mul_left _ (by omega)
      have e2 : Rh.length * A[p' + 1].high ≤ Rh.length * p' := Nat.mul_le_mul_left _ (by omega)
      rw [List.length_append] at hne ⊢
      rw [Nat.mul_succ, Nat.add_mul]
      omega

/-- explicit fuel of `to_dnf` on a reduced array -/
def dnfFuelBound (A : Arr) : Nat := 5 * ((pathsOf A).length * A.size) + 1

/-- the hand model `Iter.toDnf` succeeds within `dnfFuelBound A` -/
theorem toDnf_fuel {A : Arr} {n : Nat} (h : Red A n) (fuel : Nat) (hfuel : dnfFuelBound A ≤ fuel) :
    ∃ R, Iter.toDnf A fuel = .ok R := by
  have h2 := h.size2
  have hr : root A < A.size := by unfold root; omega
  obtain ⟨k, path', R, hrun, hlen, hk⟩ := dnfLoop_count h (root A) hr [] [] []
  have hk' : k ≤ fuel := by
    refine Nat.le_trans hk (Nat.le_trans ?_ hfuel)
    unfold dnfFuelBound pathsOf
    rw [hlen, paths_length_indep h _ hr [] (List.replicate (numVars A) none)]
    have : (paths A (root A) (List.replicate (numVars A) none)).length * root A ≤
        (paths A (root A) (List.replicate (numVars A) none)).length * A.size := Nat.mul_le_mul_left _ (by omega)
    omega
  obtain ⟨f, rfl⟩ : ∃ f, fuel = f + k := ⟨fuel - k, by omega⟩
  exact ⟨R, by unfold Iter.toDnf; rw [hrun f, dnfLoop_nil]; simp⟩

/-- … and whenever it succeeds, with whatever fuel, the result is the same -/
theorem toDnf_unique (A : Arr) (f f' : Nat) (R R' : List PV) (h : Iter.toDnf A f = .ok R) (h' : Iter.toDnf A f' = .ok R') :
    R = R' := by
  unfold Iter.toDnf at h h'
  have a := dnfLoop_mono_le A f (max f f') (Nat.le_max_left _ _) _ _ _ _ h
  have b := dnfLoop_mono_le A f' (max f f') (Nat.le_max_right _ _) _ _ _ _ h'
  rw [a] at b
  exact Outcome.ok.inj b

/-! ## chained with the hand-level theorems: statements about the TRANSLATED `to_dnf` -/

/-- **`to_dnf`, translated code, enumerates exactly the paths**: on a reduced array over `n` variables with at most
    `2^32` nodes and fuel `≥ 5 · (#paths · size) + 1` the translated `Bdd::to_dnf` terminates without panic and
    its clauses, seen over the `n` variables, are exactly `pathsOf A` in the same order (hence, by
    `Props.C08.paths_partition_root`, pairwise disjoint and covering exactly the satisfying valuations). -/
theorem to_dnf_translated_eq_paths {A : Arr} {n : Nat} (h : Red A n) (hn : numVars A = n)
    (h32 : A.size ≤ 4294967296) (fuel : Nat) (hfuel : dnfFuelBound A ≤ fuel) :
    ∃ R, Bdd_to_dnf fuel A = .ok R ∧ R.toList.map (fun c => pvNorm n c.toList) = pathsOf A := by
  have h2 := h.size2
  obtain ⟨R, hR⟩ := toDnf_fuel h fuel hfuel
  obtain ⟨R', hR', hnorm⟩ := Props.C08.to_dnf_eq_paths h hn (4 * 2 ^ A.size) (Nat.le_refl _)
  have := toDnf_unique A _ _ _ _ hR hR'
  subst this
  refine ⟨clArr R, ?_, ?_⟩
  · rw [to_dnf_eq_toDnf A (by omega) h32, hR]; rfl
  · rw [← hnorm]
    conv => rhs; rw [← clArr_toList R, List.map_map]
    rfl

/-- **translated `to_dnf` = `NF.toDnf`** (the model of property C10) on reduced arrays, for every fuel
    `≥ dnfFuelBound A` -/
theorem nf_dnfLoop_eq (A : Arr) (hc : Closed A) : ∀ (f : Nat) (stk : List (Nat × Option Bool)) (path : PV) (res : List PV),
    (∀ x ∈ stk, x.1 < A.size) → NF.dnfLoop A f stk path res = Iter.dnfLoop A f stk path res := by
  intro f
  induction f with
  | zero => intro stk path res _; cases stk <;> simp [NF.dnfLoop, Iter.dnfLoop]
  | succ f ih =>
    intro stk path res hs
    cases stk with
    | nil => simp [NF.dnfLoop, Iter.dnfLoop]
    | cons x stk =>
      obtain ⟨node, go⟩ := x
      have hnode : node < A.size := hs (node, go) (by simp)
      have hstk : ∀ x ∈ stk, x.1 < A.size := fun x hx => hs x (by simp [hx])
      rw [NF.dnfLoop, Iter.dnfLoop]
      by_cases h0 : node = 0
      · simp only [h0, if_true]; exact ih _ _ _ hstk
      · by_cases h1 : node = 1
        · simp only [h1, if_true, if_false, Nat.succ_ne_zero]; exact ih _ _ _ hstk
        · simp only [h0, h1, if_false]
          have hA := getElem?_nodeAt A node hnode
          obtain ⟨hl, hh⟩ := hc node _ (by omega) hA
          simp only [hA]
          cases go with
          | none => exact ih _ _ _ hstk
          | some b =>
            cases b with
            | true =>
              exact ih _ _ _ (by
                intro x hx
                simp only [List.mem_cons] at hx
                rcases hx with rfl | rfl | hx
                · exact hl
                · exact hnode
                · exact hstk x hx)
            | false =>
              exact ih _ _ _ (by
                intro x hx
                simp only [List.mem_cons] at hx
                rcases hx with rfl | rfl | hx
                · exact hh
                · exact hnode
                · exact hstk x hx)

theorem nf_toDnf_eq (A : Arr) (hc : Closed A) (h1 : 1 ≤ A.size) :
    NF.toDnf A = Iter.toDnf A (NF.dnfFuel (numVars A)) := by
  unfold NF.toDnf Iter.toDnf
  exact nf_dnfLoop_eq A hc _ _ _ _ (by
    intro x hx
    simp only [List.mem_singleton] at hx
    subst hx
    show root A < A.size
    unfold root; omega)

/-- where the hand model `NF.toDnf` (fuel `4 · 2^numVars`) succeeds, the translated `to_dnf` returns the same
    clause list for every fuel `≥ dnfFuelBound A` -/
theorem to_dnf_eq_model {A : Arr} {n : Nat} (h : Red A n) (h32 : A.size ≤ 4294967296) (cs : List PVal)
    (hm : NF.toDnf A = .ok cs) (fuel : Nat) (hfuel : dnfFuelBound A ≤ fuel) :
    Bdd_to_dnf fuel A = .ok (clArr cs) := by
  have h2 := h.size2
  rw [nf_toDnf_eq A (Closed.of_red h) (by omega)] at hm
  obtain ⟨R, hR⟩ := toDnf_fuel h fuel hfuel
  have := toDnf_unique A _ _ _ _ hR hm
  subst this
  rw [to_dnf_eq_toDnf A (by omega) h32, hR]; rfl

/-- **`to_dnf`, translated code, denotes the function of the diagram** (chained with `Props.C10.to_dnf_sem`) -/
theorem to_dnf_sem_translated {A : Arr} {n : Nat} (h : Red A n) (hn : numVars A = n)
    (h32 : A.size ≤ 4294967296) (fuel : Nat) (hfuel : dnfFuelBound A ≤ fuel) :
    ∃ cs, Bdd_to_dnf fuel A = .ok cs ∧ (∀ c ∈ cs.toList, NF.InRange n c.toList) ∧
      ∀ v, NF.dnfFn (cs.toList.map Array.toList) v = den A v := by
  obtain ⟨cs, hcs, hr, hsem⟩ := Props.C10.to_dnf_sem A n h hn
  refine ⟨clArr cs, to_dnf_eq_model h h32 cs hcs fuel hfuel, ?_, ?_⟩
  · intro c hc; exact hr _ (mem_clArr hc)
  · intro v; rw [clArr_toList]; exact hsem v

/-- the constant false (one-node array): one iteration, no clause -/
theorem to_dnf_translated_false (A : Arr) (h1 : A.size = 1) (fuel : Nat) :
    Bdd_to_dnf (fuel + 1) A = .ok #[] := by
  rw [to_dnf_eq_toDnf A (by omega) (by omega), (Props.C08.false_constant A h1 fuel).2.2.1]; rfl

/-! ## Non-vacuity: `exA` of `Props/C08.lean` (5 nodes, 2 paths: 3 decision nodes × 3 + 4 terminals = 13 iterations) -/

open B.Props.C08

/-- the GENERATED function, run by the kernel (through the desugaring lemma) -/
example : Bdd_to_dnf 13 exA = .ok #[#[some false, some true], #[some true, none, some false]] := by
  rw [to_dnf_desugar]; rfl
example : Bdd_to_dnf 12 exA = .panic "fuel" := by rw [to_dnf_desugar]; rfl
/-- … and through the theorem, `rfl` on the model side -/
example : Bdd_to_dnf 13 exA = .ok #[#[some false, some true], #[some true, none, some false]] := by
  rw [to_dnf_eq_toDnf exA (by decide) (by decide)]; rfl
example : dnfFuelBound exA = 51 := by decide
example := to_dnf_translated_eq_paths exA_red rfl (by decide) 51 (by decide)
example := to_dnf_sem_translated exA_red rfl (by decide) 51 (by decide)
example : NF.toDnf exA = .ok [[some false, some true], [some true, none, some false]] := by rfl
example : Bdd_to_dnf 51 exA = .ok #[#[some false, some true], #[some true, none, some false]] :=
  to_dnf_eq_model exA_red (by decide) [[some false, some true], [some true, none, some false]] (by rfl) 51 (by decide)

end B.AlgoEqIt
