import BddVerif.Model.Parser
/-!
Totality of the parser model: no input makes `tokGroup`, the eight parsing functions or `parse`
return the `panic` outcome. In particular the two modelling artefacts of `tokGroup` (the progress
checks that make its recursion well-founded) never fire, and the middle slice of `cond()` is never
taken with its start after its end.
-/
namespace B.Parser

/-- the result of tokenizing `data`: not a panic, and the unread rest is no longer than the input -/
def Good (data : List Char) : TokRes → Prop
  | .ok (_, rest) => rest.length ≤ data.length
  | .err _ => True
  | .panic _ => False

theorem Good.push {tl data : List Char} {r : TokRes} (t : Tok) (h : Good tl r) (hl : tl.length ≤ data.length) :
    Good data (push t r) := by
  cases r with
  | ok p => obtain ⟨ts, rest⟩ := p; simp only [Good, Parser.push] at *; omega
  | err m => trivial
  | panic m => exact h

theorem Good.mono {tl data : List Char} {r : TokRes} (h : Good tl r) (hl : tl.length ≤ data.length) :
    Good data r := by
  cases r with
  | ok p => obtain ⟨ts, rest⟩ := p; simp only [Good] at *; omega
  | err m => trivial
  | panic m => exact h

theorem tokGroup_good (data : List Char) (top : Bool) : Good data (tokGroup data top) := by
  fun_induction tokGroup data top <;> try (first | trivial | (simp only [Good]; done))
  case case1 => simp [Good]
  case case3 ih => exact Good.mono ih (by simp)
  case case4 ih => exact Good.push _ ih (by simp)
  case case5 ih => exact Good.push _ ih (by simp)
  case case6 ih => exact Good.push _ ih (by simp)
  case case7 ih => exact Good.push _ ih (by simp)
  case case8 ih => exact Good.push _ ih (by simp)
  case case9 ih => exact Good.push _ ih (by simp)
  case case10 ih => exact Good.push _ ih (by simp only [List.length_cons]; omega)
  case case13 ih => exact Good.push _ ih (by simp only [List.length_cons]; omega)
  case case19 => simp [Good]
  case case21 =>
    rename_i x _ _ _ _ _ _ _ _ _ _ _ h ih2 ih1
    rw [x] at ih2
    exact Good.push _ ih1 (by simp only [Good, List.length_cons] at *; omega)
  case case22 =>
    rename_i x _ _ _ _ _ _ _ _ _ _ _ h ih
    rw [x] at ih
    simp only [Good, List.length_cons] at *; omega
  case case24 => rename_i x _ _ _ _ _ _ _ _ _ _ _ ih; rw [x] at ih; exact ih
  case case25 h ih => exact Good.push _ ih (by simp only [List.length_cons] at *; omega)
  case case26 =>
    rename_i h
    have := nameRest_le ‹List Char›
    simp only [List.length_cons] at h; omega

/-- the tokenizer never panics -/
theorem tokGroup_no_panic (data : List Char) (top : Bool) : (tokGroup data top).isPanic = false := by
  have := tokGroup_good data top
  cases h : tokGroup data top <;> simp_all [Good, Outcome.isPanic]

/-! ### the eight parsing functions -/

theorem bind_no_panic {α β} {x : Outcome α} {f : α → Outcome β} (hx : x.isPanic = false)
    (hf : ∀ a, (f a).isPanic = false) : (x.bind f).isPanic = false := by
  cases x with
  | ok a => exact hf a
  | err m => rfl
  | panic m => simp [Outcome.isPanic] at hx

theorem indexOfFirst_get {l : List Tok} {k : Tok} {i : Nat} (h : indexOfFirst l k = some i) :
    ∃ t, l[i]? = some t ∧ Tok.eqK t k = true := by
  induction l generalizing i with
  | nil => simp [indexOfFirst] at h
  | cons t ts ih =>
    unfold indexOfFirst at h
    split at h
    · cases h; exact ⟨t, by simp, by assumption⟩
    · cases hi : indexOfFirst ts k with
      | none => simp [hi] at h
      | some j =>
        simp only [hi, Option.map_some, Option.some.injEq] at h
        subst h
        obtain ⟨t', h1, h2⟩ := ih hi
        exact ⟨t', by simpa using h1, h2⟩

/-- the first `?` and the first `:` are at different positions -/
theorem qmark_ne_colon {l : List Tok} {q c : Nat} (hq : indexOfFirst l .qmark = some q)
    (hc : indexOfFirst l .colon = some c) : q ≠ c := by
  intro e
  subst e
  obtain ⟨t, h1, h2⟩ := indexOfFirst_get hq
  obtain ⟨t', h1', h2'⟩ := indexOfFirst_get hc
  rw [h1] at h1'
  cases h1'
  cases t <;> simp [Tok.eqK, Tok.tag] at h2 h2'

/-! non-dependent unfolding equations of the parsing functions -/

theorem parseFormula_eq (data : List Tok) :
    parseFormula data = if isSingleGroup data then terminalP data else iffP data := by
  rw [parseFormula]

theorem iffP_eq (data : List Tok) : iffP data =
    match indexOfFirst data .iff with
    | some i => (impP (data.take i)).bind fun l => (iffP (data.drop (i + 1))).bind fun r => .ok (.iff l r)
    | none => impP data := by
  rw [iffP]; split <;> rename_i h <;> simp only [h]

theorem impP_eq (data : List Tok) : impP data =
    match indexOfFirst data .imp with
    | some i => (condP (data.take i)).bind fun l => (impP (data.drop (i + 1))).bind fun r => .ok (.imp l r)
    | none => condP data := by
  rw [impP]; split <;> rename_i h <;> simp only [h]

theorem condP_eq (data : List Tok) : condP data =
    match indexOfFirst data .qmark, indexOfFirst data .colon with
    | none, none => orP data
    | some q, some c =>
      if c < q then .err "Expected `?` before `:`."
      else
        (orP (data.take q)).bind fun a =>
        if q + 1 > c then .panic "slice index starts after its end" else
        (orP ((data.take c).drop (q + 1))).bind fun b =>
        (orP (data.drop (c + 1))).bind fun d => .ok (.cond a b d)
    | none, some _ => .err "Expected `?` but only found `:`."
    | some _, none => .err "Expected `:` but only found `?`." := by
  rw [condP]
  split <;> rename_i hq hc <;> simp only [hq, hc]

theorem orP_eq (data : List Tok) : orP data =
    match indexOfFirst data .or with
    | some i => (andP (data.take i)).bind fun l => (orP (data.drop (i + 1))).bind fun r => .ok (.or l r)
    | none => andP data := by
  rw [orP]; split <;> rename_i h <;> simp only [h]

theorem andP_eq (data : List Tok) : andP data =
    match indexOfFirst data .and with
    | some i => (xorP (data.take i)).bind fun l => (andP (data.drop (i + 1))).bind fun r => .ok (.and l r)
    | none => xorP data := by
  rw [andP]; split <;> rename_i h <;> simp only [h]

theorem xorP_eq (data : List Tok) : xorP data =
    match indexOfFirst data .xor with
    | some i => (terminalP (data.take i)).bind fun l => (xorP (data.drop (i + 1))).bind fun r => .ok (.xor l r)
    | none => terminalP data := by
  rw [xorP]; split <;> rename_i h <;> simp only [h]

theorem parsers_no_panic :
    (∀ data, (parseFormula data).isPanic = false) ∧ (∀ data, (iffP data).isPanic = false) ∧
    (∀ data, (impP data).isPanic = false) ∧ (∀ data, (condP data).isPanic = false) ∧
    (∀ data, (orP data).isPanic = false) ∧ (∀ data, (andP data).isPanic = false) ∧
    (∀ data, (xorP data).isPanic = false) ∧ (∀ data, (terminalP data).isPanic = false) := by
  apply parseFormula.mutual_induct
    (motive1 := fun data => (parseFormula data).isPanic = false)
    (motive2 := fun data => (iffP data).isPanic = false)
    (motive3 := fun data => (impP data).isPanic = false)
    (motive4 := fun data => (condP data).isPanic = false)
    (motive5 := fun data => (orP data).isPanic = false)
    (motive6 := fun data => (andP data).isPanic = false)
    (motive7 := fun data => (xorP data).isPanic = false)
    (motive8 := fun data => (terminalP data).isPanic = false)
  -- parseFormula
  · intro data h ih; rw [parseFormula_eq]; simp only [h, if_true]; exact ih
  · intro data h ih; rw [parseFormula_eq]; simp only [h]; exact ih
  · intro data i h ih1 ih2; rw [iffP_eq, h]
    exact bind_no_panic ih1 (fun _ => bind_no_panic ih2 (fun _ => rfl))
  · intro data h ih; rw [iffP_eq, h]; exact ih
  · intro data i h ih1 ih2; rw [impP_eq, h]
    exact bind_no_panic ih1 (fun _ => bind_no_panic ih2 (fun _ => rfl))
  · intro data h ih; rw [impP_eq, h]; exact ih
  -- condP
  · intro data hq hc ih; rw [condP_eq, hq, hc]; exact ih
  · intro data q c hq hc hlt; rw [condP_eq, hq, hc]; simp only [hlt, if_true]; rfl
  · intro data q c hq hc hlt ih1 ih2 ih3; rw [condP_eq, hq, hc]
    have hne := qmark_ne_colon hq hc
    have hle : ¬ (q + 1 > c) := by omega
    simp only [hlt, if_false, hle]
    exact bind_no_panic ih1 (fun _ => bind_no_panic ih2 (fun _ => bind_no_panic ih3 (fun _ => rfl)))
  · intro data c hq hc; rw [condP_eq, hq, hc]; rfl
  · intro data q hq hc; rw [condP_eq, hq, hc]; rfl
  · intro data i h ih1 ih2; rw [orP_eq, h]
    exact bind_no_panic ih1 (fun _ => bind_no_panic ih2 (fun _ => rfl))
  · intro data h ih; rw [orP_eq, h]; exact ih
  · intro data i h ih1 ih2; rw [andP_eq, h]
    exact bind_no_panic ih1 (fun _ => bind_no_panic ih2 (fun _ => rfl))
  · intro data h ih; rw [andP_eq, h]; exact ih
  · intro data i h ih1 ih2; rw [xorP_eq, h]
    exact bind_no_panic ih1 (fun _ => bind_no_panic ih2 (fun _ => rfl))
  · intro data h ih; rw [xorP_eq, h]; exact ih
  -- terminalP
  · rw [terminalP]; rfl
  · intro rest ih; rw [terminalP]; exact bind_no_panic ih (fun _ => rfl)
  · intro a b tl hne; rw [terminalP.eq_def]; split <;> simp_all [Outcome.isPanic]
  · rw [terminalP]; simp [Outcome.isPanic]
  · intro h; rw [terminalP]; simp [Outcome.isPanic, h]
  · intro name h1 h2; rw [terminalP]; simp [Outcome.isPanic, h1, h2]
  · intro inner ih; rw [terminalP]; exact ih
  · intro hd h1 h2 h3; rw [terminalP.eq_def]; split <;> simp_all [Outcome.isPanic]

/-- `BooleanExpression::try_from` never panics (model) -/
theorem parse_no_panic (s : List Char) : (parse s).isPanic = false := by
  unfold parse
  have h := tokGroup_no_panic s true
  cases ht : tokGroup s true with
  | ok p => obtain ⟨ts, r⟩ := p; exact parsers_no_panic.1 ts
  | err m => rfl
  | panic m => rw [ht] at h; simp [Outcome.isPanic] at h

end B.Parser
