import BddVerif.Lemmas.SerialBytes
import BddVerif.Lemmas.SerialText
import BddVerif.Lemmas.SerialUtf8
/-! Scripted readers and writers (C12): a script without hard error and without a zero-length transfer is
invisible; a consumed hard error is returned as `err`. -/
namespace B.Serial

/-- no hard error and no zero-length transfer (a `give 0` is a reader that lies about the end of input, or a
    writer that accepts nothing) -/
def ScriptOk (s : List Ev) : Prop := ∀ e ∈ s, e ≠ .fail ∧ e ≠ .give 0

theorem ScriptOk.suffix {s s' : List Ev} (h : ScriptOk s) (hs : s' <:+ s) : ScriptOk s' :=
  fun e he => h e (List.IsSuffix.mem he hs)

theorem ScriptOk.tail {e : Ev} {s : List Ev} (h : ScriptOk (e :: s)) : ScriptOk s :=
  h.suffix (List.suffix_cons e s)

/-! ### `read` -/

theorem read_cases (r : Reader) (want : Nat) :
    (r.script = [] ∧ r.read want = (.bytes (r.data.take want), ⟨r.data.drop want, []⟩)) ∨
    (∃ k s, r.script = .give k :: s ∧ r.read want = (.bytes (r.data.take (min k want)), ⟨r.data.drop (min k want), s⟩)) ∨
    (∃ s, r.script = .interrupted :: s ∧ r.read want = (.interrupted, ⟨r.data, s⟩)) ∨
    (∃ s, r.script = .fail :: s ∧ r.read want = (.failed, ⟨r.data, s⟩)) := by
  unfold Reader.read
  cases h : r.script with
  | nil => simp
  | cons e s => cases e <;> simp

/-- under a good script a `read` call either transfers `min m remaining` bytes for some `1 ≤ m ≤ want` or is
    interrupted -/
theorem read_ok {r : Reader} {want : Nat} (h : ScriptOk r.script) (hw : 0 < want) :
    (∃ m s', 0 < m ∧ m ≤ want ∧ s' <:+ r.script ∧ r.read want = (.bytes (r.data.take m), ⟨r.data.drop m, s'⟩)) ∨
    (∃ s', s' <:+ r.script ∧ r.read want = (.interrupted, ⟨r.data, s'⟩)) := by
  rcases read_cases r want with ⟨hs, hr⟩ | ⟨k, s, hs, hr⟩ | ⟨s, hs, hr⟩ | ⟨s, hs, hr⟩
  · exact .inl ⟨want, [], hw, Nat.le_refl _, by simp [hs], hr⟩
  · have hk : k ≠ 0 := by
      intro hk; subst hk
      exact (h (.give 0) (by simp [hs])).2 rfl
    exact .inl ⟨min k want, s, by omega, Nat.min_le_right _ _, by rw [hs]; exact List.suffix_cons _ _, hr⟩
  · exact .inr ⟨s, by rw [hs]; exact List.suffix_cons _ _, hr⟩
  · exact absurd rfl (h .fail (by simp [hs])).1

/-! ### `read_exact` -/

theorem readExact_ok : ∀ (r : Reader) (need : Nat) (acc : List UInt8), ScriptOk r.script →
    (need ≤ r.data.length → ∃ s', s' <:+ r.script ∧
      readExact r need acc = (.ok (acc ++ r.data.take need), ⟨r.data.drop need, s'⟩)) ∧
    (r.data.length < need → ∃ r', readExact r need acc = (.eof, r')) := by
  intro r need acc
  fun_induction readExact r need acc with
  | case1 r acc =>
    intro _
    refine ⟨fun _ => ⟨r.script, List.suffix_refl _, ?_⟩, fun h => by omega⟩
    simp
  | case2 r need acc hn bs r' hr hz =>
    intro hok
    rcases read_ok hok (Nat.pos_of_ne_zero hn) with ⟨m, s', hm, hmw, hs', hr'⟩ | ⟨s', _, hr'⟩
    · rw [hr] at hr'
      simp only [Prod.mk.injEq, ReadRes.bytes.injEq] at hr'
      obtain ⟨rfl, rfl⟩ := hr'
      have : r.data.length = 0 := by
        simp only [List.length_take] at hz; omega
      exact ⟨fun h => by omega, fun _ => ⟨_, rfl⟩⟩
    · rw [hr] at hr'; simp at hr'
  | case3 r need acc hn bs r' hr hz ih =>
    intro hok
    rcases read_ok hok (Nat.pos_of_ne_zero hn) with ⟨m, s', hm, hmw, hs', hr'⟩ | ⟨s', _, hr'⟩
    · rw [hr] at hr'
      simp only [Prod.mk.injEq, ReadRes.bytes.injEq] at hr'
      obtain ⟨rfl, rfl⟩ := hr'
      obtain ⟨ih1, ih2⟩ := ih (hok.suffix hs')
      simp only [List.length_take, List.length_drop] at ih1 ih2 ⊢
      refine ⟨fun h => ?_, fun h => ?_⟩
      · have hmin : min m r.data.length = m := by omega
        obtain ⟨s'', hs'', e⟩ := ih1 (by omega)
        refine ⟨s'', hs''.trans hs', ?_⟩
        rw [e, hmin]
        have hneed : need = m + (need - m) := by omega
        congr 2
        · rw [List.append_assoc]; congr 1
          conv => rhs; rw [hneed, List.take_add]
        · rw [List.drop_drop]; congr 1; omega
      · exact ih2 (by omega)
    · rw [hr] at hr'; simp at hr'
  | case4 r need acc hn r' hr ih =>
    intro hok
    rcases read_ok hok (Nat.pos_of_ne_zero hn) with ⟨m, s', hm, hmw, hs', hr'⟩ | ⟨s', hs', hr'⟩
    · rw [hr] at hr'; simp at hr'
    · rw [hr] at hr'
      simp only [Prod.mk.injEq, true_and] at hr'
      subst hr'
      obtain ⟨ih1, ih2⟩ := ih (hok.suffix hs')
      refine ⟨fun h => ?_, ih2⟩
      obtain ⟨s'', hs'', e⟩ := ih1 h
      exact ⟨s'', hs''.trans hs', e⟩
  | case5 r need acc hn r' hr =>
    intro hok
    rcases read_ok hok (Nat.pos_of_ne_zero hn) with ⟨m, s', hm, hmw, hs', hr'⟩ | ⟨s', _, hr'⟩
    · rw [hr] at hr'; simp at hr'
    · rw [hr] at hr'; simp at hr'

/-! ### `read_as_bytes` -/

theorem readBytesIO_ok : ∀ (n : Nat) (data : List UInt8) (script : List Ev) (acc : Arr), data.length ≤ n →
    ScriptOk script → (readBytesIO ⟨data, script⟩ acc).1 = .ok (decodeRecs data acc) := by
  intro n
  induction n with
  | zero =>
    intro data script acc hn hok
    have hlt : data.length < Gen.recordLen := by have := recordLen_pos; omega
    obtain ⟨r', e⟩ := (readExact_ok ⟨data, script⟩ Gen.recordLen [] hok).2 hlt
    rw [readBytesIO]
    split
    · rename_i heq; rw [e] at heq; simp at heq
    · rw [decodeRecs_short hlt]
    · rename_i heq; rw [e] at heq; simp at heq
  | succ n ih =>
    intro data script acc hn hok
    rcases Nat.lt_or_ge data.length Gen.recordLen with hlt | hge
    · obtain ⟨r', e⟩ := (readExact_ok ⟨data, script⟩ Gen.recordLen [] hok).2 hlt
      rw [readBytesIO]
      split
      · rename_i heq; rw [e] at heq; simp at heq
      · rw [decodeRecs_short hlt]
      · rename_i heq; rw [e] at heq; simp at heq
    · obtain ⟨s', hs', e⟩ := (readExact_ok ⟨data, script⟩ Gen.recordLen [] hok).1 hge
      rw [readBytesIO]
      split
      · rename_i buf r' heq
        rw [e] at heq
        simp only [List.nil_append, Prod.mk.injEq, ExactRes.ok.injEq] at heq
        obtain ⟨rfl, rfl⟩ := heq
        rw [decodeRecs_long hge]
        have := recordLen_pos
        exact ih _ _ _ (by simp only [List.length_drop]; omega) (hok.suffix hs')
      · rename_i heq; rw [e] at heq; simp at heq
      · rename_i heq; rw [e] at heq; simp at heq

/-! ### `read_to_end` / `read_as_string` -/

/-- std never offers an empty buffer -/
def WantsOk (wants : List Nat) : Prop := ∀ w ∈ wants, 0 < w

theorem WantsOk.head {wants : List Nat} (h : WantsOk wants) : 0 < wants.headD 32 := by
  cases wants with
  | nil => simp
  | cons w ws => exact h w (by simp)

theorem WantsOk.tail {wants : List Nat} (h : WantsOk wants) : WantsOk wants.tail := by
  cases wants with
  | nil => exact h
  | cons w ws => exact fun x hx => h x (by simp only [List.tail_cons] at hx; simp [hx])

theorem readToEnd_ok : ∀ (r : Reader) (wants : List Nat) (acc : List UInt8), ScriptOk r.script → WantsOk wants →
    (readToEnd r wants acc).1 = some (acc ++ r.data) := by
  intro r wants acc
  fun_induction readToEnd r wants acc with
  | case1 r wants acc bs r' hr hz =>
    intro hok hw
    rcases read_ok hok hw.head with ⟨m, s', hm, hmw, hs', hr'⟩ | ⟨s', _, hr'⟩
    · rw [hr] at hr'
      simp only [Prod.mk.injEq, ReadRes.bytes.injEq] at hr'
      obtain ⟨rfl, rfl⟩ := hr'
      have : r.data.length = 0 := by simp only [List.length_take] at hz; omega
      have : r.data = [] := List.eq_nil_of_length_eq_zero this
      simp [this]
    · rw [hr] at hr'; simp at hr'
  | case2 r wants acc bs r' hr hz ih =>
    intro hok hw
    rcases read_ok hok hw.head with ⟨m, s', hm, hmw, hs', hr'⟩ | ⟨s', _, hr'⟩
    · rw [hr] at hr'
      simp only [Prod.mk.injEq, ReadRes.bytes.injEq] at hr'
      obtain ⟨rfl, rfl⟩ := hr'
      rw [ih (hok.suffix hs') hw.tail]
      simp [List.append_assoc, List.take_append_drop]
    · rw [hr] at hr'; simp at hr'
  | case3 r wants acc r' hr ih =>
    intro hok hw
    rcases read_ok hok hw.head with ⟨m, s', hm, hmw, hs', hr'⟩ | ⟨s', hs', hr'⟩
    · rw [hr] at hr'; simp at hr'
    · rw [hr] at hr'
      simp only [Prod.mk.injEq, true_and] at hr'
      subst hr'
      exact ih (hok.suffix hs') hw.tail
  | case4 r wants acc r' hr =>
    intro hok hw
    rcases read_ok hok hw.head with ⟨m, s', hm, hmw, hs', hr'⟩ | ⟨s', _, hr'⟩
    · rw [hr] at hr'; simp at hr'
    · rw [hr] at hr'; simp at hr'

theorem readTextIO_ok {data : List UInt8} {script : List Ev} {wants : List Nat} (h : ScriptOk script)
    (hw : WantsOk wants) : (readTextIO ⟨data, script⟩ wants).1 = readText data := by
  have := readToEnd_ok ⟨data, script⟩ wants [] h hw
  unfold readTextIO
  split
  · rename_i heq; rw [heq] at this; simp at this
  · rename_i bytes r' heq
    rw [heq] at this
    simp only [List.nil_append, Option.some.injEq] at this
    simp [this]

/-! ### writers -/

theorem writeAll_ok : ∀ (script : List Ev) (buf : List UInt8), ScriptOk script →
    ∃ s', s' <:+ script ∧ writeAll script buf = (true, buf, s') := by
  intro script buf
  fun_induction writeAll script buf with
  | case1 script buf hz =>
    intro _
    exact ⟨script, List.suffix_refl _, by simp [List.eq_nil_of_length_eq_zero hz]⟩
  | case2 buf hz => intro _; exact ⟨[], List.suffix_refl _, rfl⟩
  | case3 buf hz k s hm =>
    intro hok
    have hk : k ≠ 0 := by
      intro hk; subst hk; exact (hok (.give 0) (by simp)).2 rfl
    omega
  | case4 buf hz k s hm ok out s' hrec ih =>
    intro hok
    obtain ⟨s'', hs'', e⟩ := ih hok.tail
    rw [hrec] at e
    simp only [Prod.mk.injEq] at e
    obtain ⟨rfl, rfl, rfl⟩ := e
    exact ⟨s', hs''.trans (List.suffix_cons _ _), by simp [List.take_append_drop]⟩
  | case5 buf hz s ih =>
    intro hok
    obtain ⟨s'', hs'', e⟩ := ih hok.tail
    exact ⟨s'', hs''.trans (List.suffix_cons _ _), e⟩
  | case6 buf hz s =>
    intro hok
    exact absurd rfl (hok .fail (by simp)).1

theorem writePieces_ok : ∀ (ps : List (List UInt8)) (script : List Ev), ScriptOk script →
    ∃ s', s' <:+ script ∧ writePieces script ps = (true, ps.flatten, s') := by
  intro ps
  induction ps with
  | nil => intro script _; exact ⟨script, List.suffix_refl _, rfl⟩
  | cons p ps ih =>
    intro script hok
    obtain ⟨s1, hs1, e1⟩ := writeAll_ok script p hok
    obtain ⟨s2, hs2, e2⟩ := ih s1 (hok.suffix hs1)
    refine ⟨s2, hs2.trans hs1, ?_⟩
    simp only [writePieces, e1, e2, List.flatten_cons]


/-! ### arbitrary scripts: which events were consumed, and what a consumed hard error does -/

def ExactRes.isFailed : ExactRes → Bool
  | .failed => true
  | _ => false

def ReadRes.isFailed : ReadRes → Bool
  | .failed => true
  | _ => false

theorem read_consumed (r : Reader) (want : Nat) : ∃ pre, r.script = pre ++ (r.read want).2.script ∧
    ((r.read want).1.isFailed = true ↔ Ev.fail ∈ pre) := by
  rcases read_cases r want with ⟨hs, hr⟩ | ⟨k, s, hs, hr⟩ | ⟨s, hs, hr⟩ | ⟨s, hs, hr⟩
  · exact ⟨[], by simp [hr, hs], by simp [hr, ReadRes.isFailed]⟩
  · exact ⟨[.give k], by simp [hr, hs], by simp [hr, ReadRes.isFailed]⟩
  · exact ⟨[.interrupted], by simp [hr, hs], by simp [hr, ReadRes.isFailed]⟩
  · exact ⟨[.fail], by simp [hr, hs], by simp [hr, ReadRes.isFailed]⟩

theorem readExact_consumed : ∀ (r : Reader) (need : Nat) (acc : List UInt8),
    ∃ pre, r.script = pre ++ (readExact r need acc).2.script ∧
      ((readExact r need acc).1.isFailed = true ↔ Ev.fail ∈ pre) := by
  intro r need acc
  fun_induction readExact r need acc with
  | case1 r acc => exact ⟨[], by simp, by simp [ExactRes.isFailed]⟩
  | case2 r need acc hn bs r' hr hz =>
    obtain ⟨pre, h1, h2⟩ := read_consumed r need
    rw [hr] at h1 h2
    exact ⟨pre, h1, by simpa [ExactRes.isFailed, ReadRes.isFailed] using h2⟩
  | case3 r need acc hn bs r' hr hz ih =>
    obtain ⟨pre, h1, h2⟩ := read_consumed r need
    rw [hr] at h1 h2
    obtain ⟨pre2, h3, h4⟩ := ih
    simp only [ReadRes.isFailed, Bool.false_eq_true, false_iff] at h2
    refine ⟨pre ++ pre2, by rw [List.append_assoc, ← h3, ← h1], ?_⟩
    rw [h4]; simp [h2]
  | case4 r need acc hn r' hr ih =>
    obtain ⟨pre, h1, h2⟩ := read_consumed r need
    rw [hr] at h1 h2
    obtain ⟨pre2, h3, h4⟩ := ih
    simp only [ReadRes.isFailed, Bool.false_eq_true, false_iff] at h2
    refine ⟨pre ++ pre2, by rw [List.append_assoc, ← h3, ← h1], ?_⟩
    rw [h4]; simp [h2]
  | case5 r need acc hn r' hr =>
    obtain ⟨pre, h1, h2⟩ := read_consumed r need
    rw [hr] at h1 h2
    exact ⟨pre, h1, by simpa [ExactRes.isFailed, ReadRes.isFailed] using h2⟩

/-- `read_as_bytes` through any script: the outcome is `err` exactly when one of the events consumed was a hard
    error; it is never a panic -/
theorem readBytesIO_consumed : ∀ (r : Reader) (acc : Arr),
    ∃ pre, r.script = pre ++ (readBytesIO r acc).2.script ∧
      ((readBytesIO r acc).1.isErr = true ↔ Ev.fail ∈ pre) ∧ (readBytesIO r acc).1.isPanic = false := by
  intro r acc
  fun_induction readBytesIO r acc with
  | case1 r acc buf r' hr ih =>
    obtain ⟨pre, h1, h2⟩ := readExact_consumed r Gen.recordLen []
    rw [hr] at h1 h2
    obtain ⟨pre2, h3, h4, h5⟩ := ih
    simp only [ExactRes.isFailed, Bool.false_eq_true, false_iff] at h2
    refine ⟨pre ++ pre2, by rw [List.append_assoc, ← h3, ← h1], ?_, h5⟩
    rw [h4]; simp [h2]
  | case2 r acc r' hr =>
    obtain ⟨pre, h1, h2⟩ := readExact_consumed r Gen.recordLen []
    rw [hr] at h1 h2
    exact ⟨pre, h1, by simpa [ExactRes.isFailed, Outcome.isErr] using h2, rfl⟩
  | case3 r acc r' hr =>
    obtain ⟨pre, h1, h2⟩ := readExact_consumed r Gen.recordLen []
    rw [hr] at h1 h2
    exact ⟨pre, h1, by simpa [ExactRes.isFailed, Outcome.isErr] using h2, rfl⟩

theorem readToEnd_consumed : ∀ (r : Reader) (wants : List Nat) (acc : List UInt8),
    ∃ pre, r.script = pre ++ (readToEnd r wants acc).2.script ∧
      ((readToEnd r wants acc).1 = none ↔ Ev.fail ∈ pre) := by
  intro r wants acc
  fun_induction readToEnd r wants acc with
  | case1 r wants acc bs r' hr hz =>
    obtain ⟨pre, h1, h2⟩ := read_consumed r (wants.headD 32)
    rw [hr] at h1 h2
    exact ⟨pre, h1, by simpa [ReadRes.isFailed] using h2⟩
  | case2 r wants acc bs r' hr hz ih =>
    obtain ⟨pre, h1, h2⟩ := read_consumed r (wants.headD 32)
    rw [hr] at h1 h2
    obtain ⟨pre2, h3, h4⟩ := ih
    simp only [ReadRes.isFailed, Bool.false_eq_true, false_iff] at h2
    refine ⟨pre ++ pre2, by rw [List.append_assoc, ← h3, ← h1], ?_⟩
    rw [h4]; simp [h2]
  | case3 r wants acc r' hr ih =>
    obtain ⟨pre, h1, h2⟩ := read_consumed r (wants.headD 32)
    rw [hr] at h1 h2
    obtain ⟨pre2, h3, h4⟩ := ih
    simp only [ReadRes.isFailed, Bool.false_eq_true, false_iff] at h2
    refine ⟨pre ++ pre2, by rw [List.append_assoc, ← h3, ← h1], ?_⟩
    rw [h4]; simp [h2]
  | case4 r wants acc r' hr =>
    obtain ⟨pre, h1, h2⟩ := read_consumed r (wants.headD 32)
    rw [hr] at h1 h2
    exact ⟨pre, h1, by simpa [ReadRes.isFailed] using h2⟩

theorem readText_not_panic (bytes : List UInt8) : (readText bytes).isPanic = false := by
  unfold readText
  split
  · rfl
  · exact parseText_not_panic _

/-- `read_as_string` through any script and any buffer sizes: a consumed hard error gives `err`; never a panic -/
theorem readTextIO_consumed (r : Reader) (wants : List Nat) :
    ∃ pre, r.script = pre ++ (readTextIO r wants).2.script ∧
      (Ev.fail ∈ pre → (readTextIO r wants).1.isErr = true) ∧ (readTextIO r wants).1.isPanic = false := by
  obtain ⟨pre, h1, h2⟩ := readToEnd_consumed r wants []
  unfold readTextIO
  split
  · rename_i r' heq
    rw [heq] at h1 h2
    exact ⟨pre, h1, fun _ => rfl, rfl⟩
  · rename_i bytes r' heq
    rw [heq] at h1 h2
    refine ⟨pre, h1, fun hf => ?_, readText_not_panic _⟩
    have := h2.mpr hf
    simp at this

/-- a fault of a writer: a hard error, or a call that accepts nothing (`WriteZero`) -/
def isFault (e : Ev) : Prop := e = .fail ∨ e = .give 0

theorem fault_cons_iff {e0 : Ev} {pre : List Ev} (h : ¬ isFault e0) :
    (∃ e ∈ e0 :: pre, isFault e) ↔ ∃ e ∈ pre, isFault e := by
  constructor
  · rintro ⟨e, he, hf⟩
    rcases List.mem_cons.mp he with rfl | he
    · exact absurd hf h
    · exact ⟨e, he, hf⟩
  · rintro ⟨e, he, hf⟩; exact ⟨e, List.mem_cons_of_mem _ he, hf⟩

theorem writeAll_consumed : ∀ (script : List Ev) (buf : List UInt8),
    ∃ pre, script = pre ++ (writeAll script buf).2.2 ∧
      ((writeAll script buf).1 = false ↔ ∃ e ∈ pre, isFault e) ∧ (writeAll script buf).2.1 <+: buf := by
  intro script buf
  fun_induction writeAll script buf with
  | case1 script buf hz => exact ⟨[], by simp, by simp, List.nil_prefix⟩
  | case2 buf hz => exact ⟨[], by simp, by simp, List.prefix_refl _⟩
  | case3 buf hz k s hm =>
    refine ⟨[.give k], by simp, ?_, List.nil_prefix⟩
    have : k = 0 := by omega
    simp [isFault, this]
  | case4 buf hz k s hm ok out s' hrec ih =>
    obtain ⟨pre, h1, h2, h3⟩ := ih
    rw [hrec] at h1 h2 h3
    have hk : k ≠ 0 := by omega
    refine ⟨.give k :: pre, by simp [h1], ?_, ?_⟩
    · rw [h2]; exact (fault_cons_iff (by simp [isFault, hk])).symm
    · simp only at h3 ⊢
      conv => rhs; rw [← List.take_append_drop (min k buf.length) buf]
      exact (List.prefix_append_right_inj _).mpr h3
  | case5 buf hz s ih =>
    obtain ⟨pre, h1, h2, h3⟩ := ih
    refine ⟨.interrupted :: pre, by rw [List.cons_append, ← h1], ?_, h3⟩
    rw [h2]; exact (fault_cons_iff (by simp [isFault])).symm
  | case6 buf hz s =>
    exact ⟨[.fail], by simp, by simp [isFault], List.nil_prefix⟩

theorem writeAll_true_out : ∀ (script : List Ev) (buf : List UInt8), (writeAll script buf).1 = true →
    (writeAll script buf).2.1 = buf := by
  intro script buf
  fun_induction writeAll script buf with
  | case1 script buf hz => intro _; simp [List.eq_nil_of_length_eq_zero hz]
  | case2 buf hz => intro _; rfl
  | case3 buf hz k s hm => intro h; simp at h
  | case4 buf hz k s hm ok out s' hrec ih =>
    intro h
    rw [hrec] at ih
    simp only at h ih ⊢
    rw [ih h, List.take_append_drop]
  | case5 buf hz s ih => exact ih
  | case6 buf hz s => intro h; simp at h

/-- a sequence of `write_all` calls through any script: it fails exactly when a fault was consumed, and what
    reached the sink is a prefix of the whole output -/
theorem writePieces_consumed : ∀ (ps : List (List UInt8)) (script : List Ev),
    ∃ pre, script = pre ++ (writePieces script ps).2.2 ∧
      ((writePieces script ps).1 = false ↔ ∃ e ∈ pre, isFault e) ∧ (writePieces script ps).2.1 <+: ps.flatten := by
  intro ps
  induction ps with
  | nil => intro script; exact ⟨[], by simp [writePieces], by simp [writePieces], by simp [writePieces]⟩
  | cons p ps ih =>
    intro script
    obtain ⟨pre, h1, h2, h3⟩ := writeAll_consumed script p
    simp only [writePieces]
    cases hw : writeAll script p with
    | mk ok rest =>
      obtain ⟨out, s'⟩ := rest
      rw [hw] at h1 h2 h3
      simp only at h1 h2 h3
      cases ok with
      | false =>
        simp only
        refine ⟨pre, h1, by simpa using h2, ?_⟩
        simp only [List.flatten_cons]
        exact h3.trans (List.prefix_append _ _)
      | true =>
        simp only
        obtain ⟨pre2, g1, g2, g3⟩ := ih s'
        have hnone : ¬ ∃ e ∈ pre, isFault e := by
          intro hex; have := h2.mpr hex; simp at this
        have hout : out = p := by
          have := writeAll_true_out script p (by rw [hw])
          rw [hw] at this; exact this
        refine ⟨pre ++ pre2, by rw [List.append_assoc, ← g1, ← h1], ?_, ?_⟩
        · rw [g2]
          constructor
          · rintro ⟨e, he, hf⟩; exact ⟨e, by simp [he], hf⟩
          · rintro ⟨e, he, hf⟩
            simp only [List.mem_append] at he
            rcases he with he | he
            · exact absurd ⟨e, he, hf⟩ hnone
            · exact ⟨e, he, hf⟩
        · simp only [List.flatten_cons, hout]
          exact (List.prefix_append_right_inj _).mpr g3

end B.Serial
