import BddVerif.Props.C09F64
/-! Axiom audit of the floating-point clause of C09 (`Props/C09F64.lean`, `Lemmas/F64*.lean`,
`Model/F64.lean`). Expected: a subset of `propext`, `Classical.choice`, `Quot.sound`. -/
#print axioms B.Props.C09.f64_round_rel
#print axioms B.Props.C09.f64_add_rounding
#print axioms B.Props.C09.f64_mulPow2_exact
#print axioms B.Props.C09.f64_bits_roundtrip
#print axioms B.Props.C09.exactCard_is_count
#print axioms B.Props.C09.pathDepth_le
#print axioms B.Props.C09.cardF64_shape
#print axioms B.Props.C09.cardF64_good
#print axioms B.Props.C09.cardinality_f64_total
#print axioms B.Props.C09.cardinality_f64_fin
#print axioms B.Props.C09.cardinality_f64_inf
#print axioms B.Props.C09.cardinality_f64_spec
#print axioms B.Props.C09.cardinality_f64_spec_n
#print axioms B.Props.C09.cardinality_f64_spec_size
#print axioms B.Props.C09.cardinality_f64_overflow
#print axioms B.Props.C09.cardinality_f64_zero_iff
#print axioms B.Props.C09.cardinality_f64_unguarded_defect
#print axioms B.Props.C09.f64_ofNat_small
#print axioms B.Props.C09.cardinality_f64_exact_small
#print axioms B.Props.C09.cardinality_f64_exact_le52
#print axioms B.Count.cardGoF_eq_fast
#print axioms B.Count.cardFF_good
#print axioms B.Count.cardFF_good_depth
#print axioms B.Count.depthF_le_size
#print axioms B.Count.cardFF_exact
#print axioms B.Count.cardCacheF_root
#print axioms B.F64.Good.int
#print axioms B.F64.add_comm
#print axioms B.F64.round53_idem
#print axioms B.F64.round53_lt_Top
#print axioms B.F64.round53_ge_Top
#print axioms B.F64.round53_ulp
