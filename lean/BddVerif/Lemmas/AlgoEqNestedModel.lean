import BddVerif.Lemmas.NestedSim
/-!
Model-side structural facts about `innerRec` / `nestedRec` (hand models of `inner_apply` / `nested_apply`) that the
loop simulation needs on top of the semantic invariants of `NestedSim`: a finished task IS in the task cache, cache
entries persist, a run entered at level `k` touches no key of a lower level, cache sizes only grow.
-/
namespace B
open Std

theorem innerFinish_inner (s : NSt) (l r d lo hi : Nat) :
    (innerFinish s l r d lo hi).1.inner = s.inner.insert (l, r) (innerFinish s l r d lo hi).2 := by
  unfold innerFinish
  split
  · rfl
  · unfold nFindOrPush; split <;> rfl

theorem size_le_insert {κ ν} [BEq κ] [Hashable κ] [EquivBEq κ] [LawfulHashable κ] (m : HashMap κ ν) (k : κ) (v : ν) :
    m.size ≤ (m.insert k v).size := by
  rw [HashMap.size_insert]; split <;> omega

theorem size_insert_new {κ ν} [BEq κ] [Hashable κ] [EquivBEq κ] [LawfulHashable κ] (m : HashMap κ ν) (k : κ) (v : ν)
    (h : m[k]? = none) : (m.insert k v).size = m.size + 1 := by
  rw [HashMap.size_insert]
  have : ¬ k ∈ m := by
    intro hk
    have := HashMap.getElem?_eq_some_getElem (h' := hk)
    rw [h] at this; cases this
  simp [this]

section
variable {Γ : NCtx} {n : Nat} {c dop : Bool → Bool → Bool}

/-- level of an inner task in array `A` -/
def ilvl (A : Arr) (n : Nat) (a b : Nat) : Nat := min (varOf A n a) (varOf A n b)

variable (Γ n) in
/-- structural part of the outcome of an inner (sub-)computation on `(a, b)` entered at level `k` -/
structure IOut2 (s : NSt) (a b k : Nat) (o : NSt × Nat) : Prop where
  cached : Γ.inner (asBool a) (asBool b) = none → o.1.inner[(a, b)]? = some o.2
  mono : ∀ (key : Nat × Nat) (q : Nat), s.inner[key]? = some q → o.1.inner[key]? = some q
  frame : ∀ (a' b' : Nat), a' < s.res.size → b' < s.res.size → ilvl s.res n a' b' < k →
    o.1.inner[(a', b')]? = s.inner[(a', b')]?
  isz : s.inner.size ≤ o.1.inner.size

variable (Γ n c dop) in
def ISpec2 (rec : Nat → Nat → NSt → NSt × Nat) (k : Nat) : Prop :=
  ∀ a b s, NInv Γ n c dop s → a < s.res.size → b < s.res.size →
    k ≤ varOf s.res n a → k ≤ varOf s.res n b → IOut2 Γ n s a b k (rec a b s)

theorem IOut2.refl_of_term (s : NSt) (a b k : Nat) (t : Bool) (h : Γ.inner (asBool a) (asBool b) = some t) :
    IOut2 Γ n s a b k (s, ofBool t) :=
  ⟨fun h' => by rw [h] at h'; exact absurd h' (by simp), fun _ _ h => h, fun _ _ _ _ _ => rfl, Nat.le_refl _⟩

theorem nSolve_inner_out2 (rec : Nat → Nat → NSt → NSt × Nat) (k : Nat)
    (hrec : ISpec2 Γ n c dop rec k) (a b : Nat) (s : NSt) (hs : NInv Γ n c dop s)
    (ha : a < s.res.size) (hb : b < s.res.size) (hka : k ≤ varOf s.res n a) (hkb : k ≤ varOf s.res n b) :
    IOut2 Γ n s a b k (nSolve Γ.inner rec a b s) := by
  unfold nSolve
  cases hop : Γ.inner (asBool a) (asBool b) with
  | none => exact hrec a b s hs ha hb hka hkb
  | some t => exact IOut2.refl_of_term s a b k t hop

/-- `innerFinish` from an intermediate state `s2` reached from `s` by runs at level `d + 1` -/
theorem innerFinish_out2 {s s2 : NSt} (a b d lo hi k : Nat) (ha : a < s.res.size) (hb : b < s.res.size)
    (hd : d = ilvl s.res n a b) (hk : k ≤ d) (hnone : s.inner[(a, b)]? = none)
    (hmono : ∀ (key : Nat × Nat) (q : Nat), s.inner[key]? = some q → s2.inner[key]? = some q)
    (hframe : ∀ (a' b' : Nat), a' < s.res.size → b' < s.res.size → ilvl s.res n a' b' < d + 1 →
      s2.inner[(a', b')]? = s.inner[(a', b')]?)
    (hisz : s.inner.size ≤ s2.inner.size) :
    IOut2 Γ n s a b k (innerFinish s2 a b d lo hi) ∧
      (innerFinish s2 a b d lo hi).1.inner.size = s2.inner.size + 1 := by
  have hn2 : s2.inner[(a, b)]? = none := by rw [hframe a b ha hb (by omega)]; exact hnone
  have hin := innerFinish_inner s2 a b d lo hi
  refine ⟨⟨?_, ?_, ?_, ?_⟩, ?_⟩
  · intro _; rw [hin]; simp
  · intro key q h
    rw [hin, HashMap.getElem?_insert]
    have : ((a, b) == key) = false := by
      simp only [beq_eq_false_iff_ne, ne_eq]
      intro e; subst e; rw [hnone] at h; cases h
    rw [this]; exact hmono key q h
  · intro a' b' ha' hb' hl
    rw [hin, HashMap.getElem?_insert]
    have : ((a, b) == (a', b')) = false := by
      simp only [beq_eq_false_iff_ne, ne_eq]
      intro e; cases e; omega
    rw [this]; exact hframe a' b' ha' hb' (by omega)
  · rw [hin]; exact Nat.le_trans hisz (size_le_insert _ _ _)
  · rw [hin]; exact size_insert_new _ _ _ hn2


theorem innerStep_out2 (ok : NOk Γ n c dop) (rec : Nat → Nat → NSt → NSt × Nat) (k : Nat)
    (hrec : ∀ k', k < k' → k' ≤ n → ISpec Γ n c dop rec k')
    (hrec2 : ∀ k', k < k' → k' ≤ n → ISpec2 Γ n c dop rec k') : ISpec2 Γ n c dop (innerStep Γ.inner rec) k := by
  intro a b s hs ha hb hka hkb
  have hW := hs.rt.wfo
  unfold innerStep
  cases hfin : s.inner[(a, b)]? with
  | some p =>
    simp only
    exact ⟨fun _ => hfin, fun _ _ h => h, fun _ _ _ _ _ => rfl, Nat.le_refl _⟩
  | none =>
    simp only
    rw [nodeAt_var hW a ha, nodeAt_var hW b hb]
    generalize hd : min (varOf s.res n a) (varOf s.res n b) = d
    have hd' : d = ilvl s.res n a b := hd.symm
    by_cases hdn : d < n
    · have v0 : Nat → Bool := fun _ => false
      have ka1 := ev_kids hs.rt a ha d (by omega) hdn true v0
      have ka2 := ev_kids hs.rt a ha d (by omega) hdn false v0
      have kb1 := ev_kids hs.rt b hb d (by omega) hdn true v0
      have kb2 := ev_kids hs.rt b hb d (by omega) hdn false v0
      simp only [sel_true, sel_false] at ka1 ka2 kb1 kb2
      generalize (kids s.res a d none).1 = a2 at *
      generalize (kids s.res a d none).2 = a1 at *
      generalize (kids s.res b d none).1 = b2 at *
      generalize (kids s.res b d none).2 = b1 at *
      have S1 := nSolve_inner_out ok rec (d+1) (hrec (d+1) (by omega) (by omega)) a1 b1 s hs ka1.2.1 kb1.2.1
        ka1.2.2 kb1.2.2
      have T1 := nSolve_inner_out2 rec (d+1) (hrec2 (d+1) (by omega) (by omega)) a1 b1 s hs ka1.2.1 kb1.2.1
        ka1.2.2 kb1.2.2
      generalize nSolve Γ.inner rec a1 b1 s = o1 at S1 T1 ⊢
      have hsz1 := S1.pre.1
      have T2 := nSolve_inner_out2 rec (d+1) (hrec2 (d+1) (by omega) (by omega)) a2 b2 o1.1 S1.inv
        (by have := ka2.2.1; omega) (by have := kb2.2.1; omega)
        (by rw [varOf_prefix S1.pre _ ka2.2.1]; exact ka2.2.2) (by rw [varOf_prefix S1.pre _ kb2.2.1]; exact kb2.2.2)
      generalize nSolve Γ.inner rec a2 b2 o1.1 = o2 at T2 ⊢
      refine (innerFinish_out2 a b d o2.2 o1.2 k ha hb hd' (by omega) hfin ?_ ?_ ?_).1
      · intro key q h; exact T2.mono key q (T1.mono key q h)
      · intro a' b' ha' hb' hl
        rw [T2.frame a' b' (by omega) (by omega)
          (by unfold ilvl; rw [varOf_prefix S1.pre _ ha', varOf_prefix S1.pre _ hb']; exact hl)]
        exact T1.frame a' b' ha' hb' hl
      · exact Nat.le_trans T1.isz T2.isz
    · have hva := varOf_le hs.rt.red a
      have hvb := varOf_le hs.rt.red b
      have hde : d = n := by omega
      subst hde
      have ha2 := hW.terminal_of_varOf a ha (by omega)
      have hb2 := hW.terminal_of_varOf b hb (by omega)
      rw [kids_terminal hW a ha ha2, kids_terminal hW b hb hb2]
      obtain ⟨x, hx, _⟩ := asBool_terminal a ha2
      obtain ⟨y, hy, _⟩ := asBool_terminal b hb2
      have ht : nSolve Γ.inner rec a b s = (s, ofBool (dop x y)) := by
        unfold nSolve; rw [hx, hy, ok.consI.total]
      simp only [ht]
      exact (innerFinish_out2 a b _ _ _ k ha hb hd' (by omega) hfin (fun _ _ h => h)
        (fun _ _ _ _ _ => rfl) (Nat.le_refl _)).1

theorem innerRec_spec2 (ok : NOk Γ n c dop) :
    ∀ fuel k, n - k < fuel → ISpec2 Γ n c dop (innerRec Γ.inner fuel) k := by
  intro fuel
  induction fuel with
  | zero => intro k hk; omega
  | succ fuel ih =>
    intro k hk
    show ISpec2 Γ n c dop (innerStep Γ.inner (innerRec Γ.inner fuel)) k
    apply innerStep_out2 ok
    · intro k' h1 h2; exact innerRec_spec ok fuel k' (by omega)
    · intro k' h1 h2; exact ih k' (by omega)

end
/-! ### the outer pass -/

theorem innerFinish_outer (s : NSt) (l r d lo hi : Nat) : (innerFinish s l r d lo hi).1.outer = s.outer := by
  unfold innerFinish
  split
  · rfl
  · unfold nFindOrPush; split <;> rfl

theorem innerRec_outer (op : Op2) : ∀ (f a b : Nat) (s : NSt), (innerRec op f a b s).1.outer = s.outer := by
  intro f
  induction f with
  | zero => intro a b s; rfl
  | succ f ih =>
    intro a b s
    show (innerStep op (innerRec op f) a b s).1.outer = s.outer
    have hsolve : ∀ x y s', (nSolve op (innerRec op f) x y s').1.outer = s'.outer := by
      intro x y s'; unfold nSolve; split
      · rfl
      · exact ih x y s'
    unfold innerStep
    split
    · rfl
    · simp only []
      rw [innerFinish_outer, hsolve, hsolve]

theorem innerRec_isz (op : Op2) : ∀ (f a b : Nat) (s : NSt), s.inner.size ≤ (innerRec op f a b s).1.inner.size := by
  intro f
  induction f with
  | zero => intro a b s; exact Nat.le_refl _
  | succ f ih =>
    intro a b s
    show s.inner.size ≤ (innerStep op (innerRec op f) a b s).1.inner.size
    have hsolve : ∀ x y s', s'.inner.size ≤ (nSolve op (innerRec op f) x y s').1.inner.size := by
      intro x y s'; unfold nSolve; split
      · exact Nat.le_refl _
      · exact ih x y s'
    unfold innerStep
    split
    · exact Nat.le_refl _
    · simp only []
      rw [innerFinish_inner]
      exact Nat.le_trans (Nat.le_trans (hsolve _ _ _) (hsolve _ _ _)) (size_le_insert _ _ _)

theorem nestedFinish_outer (Γ : NCtx) (s : NSt) (l r d lo hi : Nat) :
    (nestedFinish Γ s l r d lo hi).1.outer = s.outer.insert (l, r) (nestedFinish Γ s l r d lo hi).2 := by
  unfold nestedFinish
  split
  · rfl
  · split
    · simp only []
      unfold innerApply
      rw [innerRec_outer]
    · unfold nFindOrPush; split <;> rfl

theorem nestedFinish_isz (Γ : NCtx) (s : NSt) (l r d lo hi : Nat) :
    s.inner.size ≤ (nestedFinish Γ s l r d lo hi).1.inner.size := by
  unfold nestedFinish
  split
  · exact Nat.le_refl _
  · split
    · simp only []
      unfold innerApply
      exact innerRec_isz _ _ _ _ _
    · unfold nFindOrPush; split <;> exact Nat.le_refl _

section
variable {Γ : NCtx} {n : Nat} {c dop : Bool → Bool → Bool}

/-- level of an outer task -/
def olvl (Γ : NCtx) (n : Nat) (l r : Nat) : Nat := min (varOf Γ.L n l) (varOf Γ.R n r)

variable (Γ n) in
structure OOut2 (s : NSt) (l r k : Nat) (o : NSt × Nat) : Prop where
  cached : Γ.outer (asBool l) (asBool r) = none → o.1.outer[(l, r)]? = some o.2
  mono : ∀ (key : Nat × Nat) (q : Nat), s.outer[key]? = some q → o.1.outer[key]? = some q
  frame : ∀ (l' r' : Nat), olvl Γ n l' r' < k → o.1.outer[(l', r')]? = s.outer[(l', r')]?
  osz : s.outer.size ≤ o.1.outer.size
  isz : s.inner.size ≤ o.1.inner.size

variable (Γ n c dop) in
def OSpec2 (rec : Nat → Nat → NSt → NSt × Nat) (k : Nat) : Prop :=
  ∀ l r s, NInv Γ n c dop s → l < Γ.L.size → r < Γ.R.size →
    k ≤ varOf Γ.L n l → k ≤ varOf Γ.R n r → OOut2 Γ n s l r k (rec l r s)

theorem OOut2.refl_of_term (s : NSt) (l r k : Nat) (t : Bool) (h : Γ.outer (asBool l) (asBool r) = some t) :
    OOut2 Γ n s l r k (s, ofBool t) :=
  ⟨fun h' => by rw [h] at h'; exact absurd h' (by simp), fun _ _ h => h, fun _ _ _ => rfl, Nat.le_refl _, Nat.le_refl _⟩

theorem nSolve_outer_out2 (rec : Nat → Nat → NSt → NSt × Nat) (k : Nat)
    (hrec : OSpec2 Γ n c dop rec k) (l r : Nat) (s : NSt) (hs : NInv Γ n c dop s)
    (hl : l < Γ.L.size) (hr : r < Γ.R.size) (hkl : k ≤ varOf Γ.L n l) (hkr : k ≤ varOf Γ.R n r) :
    OOut2 Γ n s l r k (nSolve Γ.outer rec l r s) := by
  unfold nSolve
  cases hop : Γ.outer (asBool l) (asBool r) with
  | none => exact hrec l r s hs hl hr hkl hkr
  | some t => exact OOut2.refl_of_term s l r k t hop

theorem nestedFinish_out2 {s s2 : NSt} (l r d lo hi k : Nat)
    (hd : d = olvl Γ n l r) (hk : k ≤ d) (hnone : s.outer[(l, r)]? = none)
    (hmono : ∀ (key : Nat × Nat) (q : Nat), s.outer[key]? = some q → s2.outer[key]? = some q)
    (hframe : ∀ (l' r' : Nat), olvl Γ n l' r' < d + 1 → s2.outer[(l', r')]? = s.outer[(l', r')]?)
    (hosz : s.outer.size ≤ s2.outer.size) (hisz : s.inner.size ≤ s2.inner.size) :
    OOut2 Γ n s l r k (nestedFinish Γ s2 l r d lo hi) ∧
      (nestedFinish Γ s2 l r d lo hi).1.outer.size = s2.outer.size + 1 := by
  have hn2 : s2.outer[(l, r)]? = none := by rw [hframe l r (by omega)]; exact hnone
  have hin := nestedFinish_outer Γ s2 l r d lo hi
  refine ⟨⟨?_, ?_, ?_, ?_, ?_⟩, ?_⟩
  · intro _; rw [hin]; simp
  · intro key q h
    rw [hin, HashMap.getElem?_insert]
    have : ((l, r) == key) = false := by
      simp only [beq_eq_false_iff_ne, ne_eq]
      intro e; subst e; rw [hnone] at h; cases h
    rw [this]; exact hmono key q h
  · intro l' r' hl
    rw [hin, HashMap.getElem?_insert]
    have : ((l, r) == (l', r')) = false := by
      simp only [beq_eq_false_iff_ne, ne_eq]
      intro e; cases e; omega
    rw [this]; exact hframe l' r' (by omega)
  · rw [hin]; exact Nat.le_trans hosz (size_le_insert _ _ _)
  · exact Nat.le_trans hisz (nestedFinish_isz Γ s2 l r d lo hi)
  · rw [hin]; exact size_insert_new _ _ _ hn2

theorem nestedStep_out2 (ok : NOk Γ n c dop) (rec : Nat → Nat → NSt → NSt × Nat) (k : Nat)
    (hrec : ∀ k', k < k' → k' ≤ n → OSpec Γ n c dop rec k')
    (hrec2 : ∀ k', k < k' → k' ≤ n → OSpec2 Γ n c dop rec k') : OSpec2 Γ n c dop (nestedStep Γ rec) k := by
  intro l r s hs hl hr hkl hkr
  unfold nestedStep
  cases hfin : s.outer[(l, r)]? with
  | some p =>
    simp only
    exact ⟨fun _ => hfin, fun _ _ h => h, fun _ _ _ => rfl, Nat.le_refl _, Nat.le_refl _⟩
  | none =>
    simp only
    rw [nodeAt_var ok.wfL l hl, nodeAt_var ok.wfR r hr]
    generalize hd : min (varOf Γ.L n l) (varOf Γ.R n r) = d
    have hd' : d = olvl Γ n l r := hd.symm
    by_cases hdn : d < n
    · have hdl : d ≤ varOf Γ.L n l := by omega
      have hdr : d ≤ varOf Γ.R n r := by omega
      have KL := fun b => evW_kids ok.wfL l hl d hdl hdn none (fun _ => false) b
      have KR := fun b => evW_kids ok.wfR r hr d hdr hdn none (fun _ => false) b
      have kl1 := KL true; have kl2 := KL false; have kr1 := KR true; have kr2 := KR false
      simp only [sel_true, sel_false] at kl1 kl2 kr1 kr2
      generalize (kids Γ.L l d none).1 = l2 at *
      generalize (kids Γ.L l d none).2 = l1 at *
      generalize (kids Γ.R r d none).1 = r2 at *
      generalize (kids Γ.R r d none).2 = r1 at *
      have S1 := nSolve_outer_out ok rec (d+1) (hrec (d+1) (by omega) (by omega)) l1 r1 s hs kl1.2.1 kr1.2.1
        kl1.2.2 kr1.2.2
      have T1 := nSolve_outer_out2 rec (d+1) (hrec2 (d+1) (by omega) (by omega)) l1 r1 s hs kl1.2.1 kr1.2.1
        kl1.2.2 kr1.2.2
      generalize nSolve Γ.outer rec l1 r1 s = o1 at S1 T1 ⊢
      have T2 := nSolve_outer_out2 rec (d+1) (hrec2 (d+1) (by omega) (by omega)) l2 r2 o1.1 S1.inv kl2.2.1 kr2.2.1
        kl2.2.2 kr2.2.2
      generalize nSolve Γ.outer rec l2 r2 o1.1 = o2 at T2 ⊢
      refine (nestedFinish_out2 l r d o2.2 o1.2 k hd' (by omega) hfin ?_ ?_ ?_ ?_).1
      · intro key q h; exact T2.mono key q (T1.mono key q h)
      · intro l' r' hl'
        rw [T2.frame l' r' hl']
        exact T1.frame l' r' hl'
      · exact Nat.le_trans T1.osz T2.osz
      · exact Nat.le_trans T1.isz T2.isz
    · have hvl := ok.wfL.varOf_le l
      have hvr := ok.wfR.varOf_le r
      have hde : d = n := by omega
      subst hde
      have hl2 := ok.wfL.terminal_of_varOf l hl (by omega)
      have hr2 := ok.wfR.terminal_of_varOf r hr (by omega)
      rw [kids_terminal ok.wfL l hl hl2, kids_terminal ok.wfR r hr hr2]
      obtain ⟨x, hx, _⟩ := asBool_terminal l hl2
      obtain ⟨y, hy, _⟩ := asBool_terminal r hr2
      have ht : nSolve Γ.outer rec l r s = (s, ofBool (c x y)) := by
        unfold nSolve; rw [hx, hy, ok.consO.total]
      simp only [ht]
      exact (nestedFinish_out2 l r _ _ _ k hd' (by omega) hfin (fun _ _ h => h)
        (fun _ _ _ => rfl) (Nat.le_refl _) (Nat.le_refl _)).1

theorem nestedRec_spec2 (ok : NOk Γ n c dop) :
    ∀ fuel k, n - k < fuel → OSpec2 Γ n c dop (nestedRec Γ fuel) k := by
  intro fuel
  induction fuel with
  | zero => intro k hk; omega
  | succ fuel ih =>
    intro k hk
    show OSpec2 Γ n c dop (nestedStep Γ (nestedRec Γ fuel)) k
    apply nestedStep_out2 ok
    · intro k' h1 h2; exact nestedRec_spec ok fuel k' (by omega)
    · intro k' h1 h2; exact ih k' (by omega)

end

end B
