import BddVerif.Lemmas.TernaryCanon
namespace B
open Std

/-! `Bdd::not` (`bddNot`): flipping the links into terminals negates the function, keeps the array
    reduced, and commutes with the canonical builder. -/

def negNode (nd : Node) : Node := ⟨nd.var, flipIfTerminal nd.low, flipIfTerminal nd.high⟩
/-- the third branch of `bddNot`, for an arbitrary array -/
def negArr (A : Arr) : Arr := A.mapIdx fun i nd => if i < 2 then nd else negNode nd

theorem bddNot_eq_negArr (A : Arr) (h : 3 ≤ A.size) : bddNot A = negArr A := by
  unfold bddNot
  rw [if_neg (by omega), if_neg (by omega)]
  rfl

theorem flip_ge2 {p : Nat} (h : 2 ≤ p) : flipIfTerminal p = p := by
  unfold flipIfTerminal; rw [if_neg (by omega), if_neg (by omega)]
theorem flip_zero : flipIfTerminal 0 = 1 := rfl
theorem flip_one : flipIfTerminal 1 = 0 := rfl
theorem flip_lt2 {p : Nat} (h : p < 2) : flipIfTerminal p < 2 := by
  have : p = 0 ∨ p = 1 := by omega
  rcases this with rfl | rfl <;> simp [flipIfTerminal]
theorem flip_flip (p : Nat) : flipIfTerminal (flipIfTerminal p) = p := by
  rcases Nat.lt_or_ge p 2 with h | h
  · have : p = 0 ∨ p = 1 := by omega
    rcases this with rfl | rfl <;> simp [flipIfTerminal]
  · rw [flip_ge2 h, flip_ge2 h]
theorem flip_inj {p q : Nat} : flipIfTerminal p = flipIfTerminal q ↔ p = q :=
  ⟨fun h => by rw [← flip_flip p, h, flip_flip], fun h => by rw [h]⟩
theorem flip_lt {p m : Nat} (hm : 2 ≤ m) (h : p < m) : flipIfTerminal p < m := by
  rcases Nat.lt_or_ge p 2 with h2 | h2
  · have := flip_lt2 h2; omega
  · rw [flip_ge2 h2]; exact h

theorem negNode_inj {a b : Node} : negNode a = negNode b ↔ a = b := by
  constructor
  · intro h
    cases a; cases b
    simp only [negNode, Node.mk.injEq, flip_inj] at h
    simp [h]
  · intro h; rw [h]

theorem negArr_size (A : Arr) : (negArr A).size = A.size := by simp [negArr]

theorem negArr_get (A : Arr) (i : Nat) :
    (negArr A)[i]? = (A[i]?).map (fun nd => if i < 2 then nd else negNode nd) := by
  simp [negArr]

theorem negArr_get_ge2 (A : Arr) (i : Nat) (hi : 2 ≤ i) : (negArr A)[i]? = (A[i]?).map negNode := by
  rw [negArr_get]; congr 1; funext nd; rw [if_neg (by omega)]

theorem negArr_get_lt2 (A : Arr) (i : Nat) (hi : i < 2) : (negArr A)[i]? = A[i]? := by
  rw [negArr_get]; simp [hi]

theorem negArr_get_some {A : Arr} {i : Nat} (hi : 2 ≤ i) {nd' : Node} (h : (negArr A)[i]? = some nd') :
    ∃ nd, A[i]? = some nd ∧ nd' = negNode nd := by
  rw [negArr_get_ge2 A i hi] at h
  cases hA : A[i]? with
  | none => rw [hA] at h; cases h
  | some nd => rw [hA] at h; simp at h; exact ⟨nd, rfl, h.symm⟩

theorem negArr_push (A : Arr) (nd : Node) (h : 2 ≤ A.size) :
    negArr (A.push nd) = (negArr A).push (negNode nd) := by
  apply Array.ext_getElem?
  intro i
  rw [negArr_get, Array.getElem?_push, Array.getElem?_push, negArr_size, negArr_get]
  by_cases hi : i = A.size
  · subst hi; simp; omega
  · simp [hi]

theorem negArr_mkTrue (n : Nat) : negArr (mkTrue n) = mkTrue n := by
  apply Array.ext_getElem?
  intro i
  rw [negArr_get]
  rcases Nat.lt_or_ge i 2 with h | h
  · simp [h]
  · have : (mkTrue n)[i]? = none := Array.getElem?_eq_none (by rw [mkTrue_size]; exact h)
    rw [this]; rfl

theorem varOf_negArr (A : Arr) (n p : Nat) : varOf (negArr A) n (flipIfTerminal p) = varOf A n p := by
  rcases Nat.lt_or_ge p 2 with h | h
  · have := flip_lt2 h; simp [varOf, h, this]
  · rw [flip_ge2 h]
    unfold varOf
    rw [if_neg (by omega), if_neg (by omega), negArr_get_ge2 A p h]
    cases A[p]? <;> rfl

theorem findNode_negArr (A : Arr) (nd : Node) : findNode (negArr A) (negNode nd) = findNode A nd := by
  unfold findNode
  rw [negArr_size]
  congr 1
  funext i
  rcases Nat.lt_or_ge i 2 with h | h
  · have : ¬ 2 ≤ i := by omega
    simp [this]
  · rw [negArr_get_ge2 A i h]
    congr 1
    cases hA : A[i]? with
    | none => simp
    | some x =>
      simp only [Option.map_some]
      rw [Bool.eq_iff_iff]
      simp [negNode_inj]

theorem ins_size_ge (n : Nat) : ∀ fuel k f (A : Arr), A.size ≤ (ins n fuel k f A).1.size := by
  intro fuel
  induction fuel with
  | zero => intro k f A; simp [ins]
  | succ fuel ih =>
    intro k f A
    have h1 := ih (k+1) (fun v => f (upd v k true)) A
    have h2 := ih (k+1) (fun v => f (upd v k false)) (ins n fuel (k+1) (fun v => f (upd v k true)) A).1
    simp only [ins]
    split
    · exact Nat.le_trans h1 h2
    · split
      · exact Nat.le_trans h1 h2
      · simp only [Array.size_push]; omega

/-- the builder run on the negated function over the flipped array produces the flipped result:
    the same nodes are found or pushed in the same order -/
theorem ins_neg (n : Nat) : ∀ fuel k (f : (Nat → Bool) → Bool) (A : Arr), 2 ≤ A.size →
    ins n fuel k (fun v => !f v) (negArr A) =
      (negArr (ins n fuel k f A).1, flipIfTerminal (ins n fuel k f A).2) := by
  intro fuel
  induction fuel with
  | zero =>
    intro k f A _
    simp only [ins]
    by_cases h : f (fun _ => false) = true <;> simp [h, flipIfTerminal]
  | succ fuel ih =>
    intro k f A hA
    have e1 := ih (k+1) (fun v => f (upd v k true)) A hA
    generalize hr1 : ins n fuel (k+1) (fun v => f (upd v k true)) A = r1 at e1
    have hs1 : 2 ≤ r1.1.size := by
      have := ins_size_ge n fuel (k+1) (fun v => f (upd v k true)) A; rw [hr1] at this; omega
    have e2 := ih (k+1) (fun v => f (upd v k false)) r1.1 hs1
    generalize hr2 : ins n fuel (k+1) (fun v => f (upd v k false)) r1.1 = r2 at e2
    have hs2 : 2 ≤ r2.1.size := by
      have := ins_size_ge n fuel (k+1) (fun v => f (upd v k false)) r1.1; rw [hr2] at this; omega
    obtain ⟨A1, p1⟩ := r1
    obtain ⟨A2, p2⟩ := r2
    simp only at e1 e2 hs1 hs2
    rw [ins_succ' (f := fun v => !f v) e1 e2, ins_succ' hr1 hr2]
    by_cases hp : p2 = p1
    · simp [hp]
    · have hp' : ¬ flipIfTerminal p2 = flipIfTerminal p1 := fun e => hp (flip_inj.1 e)
      simp only [hp, hp', if_false]
      have hfn := findNode_negArr A2 ⟨k, p2, p1⟩
      simp only [negNode] at hfn
      rw [hfn]
      cases hf : findNode A2 ⟨k, p2, p1⟩ with
      | some i =>
        simp only
        rw [flip_ge2 (findNode_some hf).1]
      | none =>
        simp only
        rw [negArr_push A2 _ hs2, negArr_size, flip_ge2 hs2]
        rfl

/-- the flipped array of a reduced array is reduced -/
theorem red_negArr {A : Arr} {n : Nat} (h : Red A n) : Red (negArr A) n := by
  have hs := h.size2
  refine ⟨by rw [negArr_size]; exact hs, ?_, ?_⟩
  · intro p nd' hp hnd'
    obtain ⟨nd, hnd, rfl⟩ := negArr_get_some hp hnd'
    obtain ⟨a, b, c, d, e, f⟩ := h.inner p nd hp hnd
    refine ⟨a, flip_lt hp b, flip_lt hp c, fun e' => d (flip_inj.1 e'), ?_, ?_⟩
    · show nd.var < varOf (negArr A) n (flipIfTerminal nd.low)
      rw [varOf_negArr]; exact e
    · show nd.var < varOf (negArr A) n (flipIfTerminal nd.high)
      rw [varOf_negArr]; exact f
  · intro p q nd' hp hq hp' hq'
    obtain ⟨x, hx, ex⟩ := negArr_get_some hp hp'
    obtain ⟨y, hy, ey⟩ := negArr_get_some hq hq'
    have : x = y := negNode_inj.1 (ex.symm.trans ey)
    subst this
    exact h.nodup p q x hp hq hx hy

/-- semantics of the flipped array: every pointer denotes the negated function -/
theorem ev_negArr {A : Arr} {n : Nat} (h : Red A n) (v : Nat → Bool) :
    ∀ p, p < A.size → ev (negArr A) v (flipIfTerminal p) = !(ev A v p) := by
  intro p
  induction p using Nat.strongRecOn with
  | _ p ih =>
    intro hps
    by_cases h0 : p = 0
    · subst h0; simp [flip_zero, ev_zero, ev_one]
    by_cases h1 : p = 1
    · subst h1; simp [flip_one, ev_zero, ev_one]
    have hp2 : 2 ≤ p := by omega
    have hnd : A[p]? = some A[p] := by simp [hps]
    have hnd' : (negArr A)[p]? = some (negNode A[p]) := by rw [negArr_get_ge2 A p hp2, hnd]; rfl
    obtain ⟨_, hl, hh, _, _, _⟩ := h.inner p A[p] hp2 hnd
    rw [flip_ge2 hp2, ev_node (red_negArr h) v p hp2 _ hnd', ev_node h v p hp2 _ hnd]
    simp only [negNode]
    rw [ih _ hl (by omega), ih _ hh (by omega)]
    by_cases hv : v A[p].var = true <;> simp [hv]

theorem bddNot_red {A : Arr} {n : Nat} (h : Red A n) (h3 : 3 ≤ A.size) : Red (bddNot A) n := by
  rw [bddNot_eq_negArr A h3]; exact red_negArr h

theorem bddNot_ev {A : Arr} {n : Nat} (h : Red A n) (h3 : 3 ≤ A.size) (v : Nat → Bool) (p : Nat)
    (hp2 : 2 ≤ p) (hp : p < A.size) : ev (bddNot A) v p = !(ev A v p) := by
  rw [bddNot_eq_negArr A h3, ← ev_negArr h v p hp, flip_ge2 hp2]

theorem bddNot_size (A : Arr) : (bddNot A).size = if A.size = 2 then 1 else if A.size = 1 then 2 else A.size := by
  unfold bddNot
  split
  · rfl
  · split
    · rfl
    · simp

/-- `not` negates the denotation of a whole array: the one-node false array, the two-node true array, or
    any reduced array -/
theorem bddNot_den {A : Arr} {n : Nat} (h : A.size = 1 ∨ Red A n) (v : Nat → Bool) :
    den (bddNot A) v = !(den A v) := by
  rcases h with h | h
  · unfold bddNot den root
    rw [if_neg (by omega), if_pos h, h]
    simp [mkTrue, ev_zero, ev_one]
  · have hs := h.size2
    by_cases h2 : A.size = 2
    · unfold bddNot den root
      rw [if_pos h2, h2]
      simp [mkFalse, ev_zero, ev_one]
    · have h3 : 3 ≤ A.size := by omega
      unfold den
      have hr : root (bddNot A) = root A := by
        unfold root; rw [bddNot_eq_negArr A h3, negArr_size]
      rw [hr]
      exact bddNot_ev h h3 v (root A) (by unfold root; omega) (by unfold root; omega)

/-- `not` maps the canonical array of `f` to the canonical array of `¬f` -/
theorem bddNot_canon (n : Nat) (f : (Nat → Bool) → Bool)
    (hdep : ∀ v w : Nat → Bool, (∀ i, i < n → v i = w i) → f v = f w) :
    bddNot (canon n f) = canon n (fun v => !f v) := by
  have hdep' : ∀ v w : Nat → Bool, (∀ i, 0 ≤ i → i < n → v i = w i) → f v = f w :=
    fun v w h => hdep v w (fun i hi => h i (Nat.zero_le _) hi)
  obtain ⟨hred, hpre, hlt, _, hev⟩ := ins_spec n 0 f (mkTrue n) (red_mkTrue n) (by omega) hdep'
  have hneg := ins_neg n n 0 f (mkTrue n) (by rw [mkTrue_size]; omega)
  rw [negArr_mkTrue] at hneg
  have hnot : canon n (fun v => !f v) =
      if flipIfTerminal (ins n n 0 f (mkTrue n)).2 = 0 then mkFalse n else negArr (ins n n 0 f (mkTrue n)).1 := by
    unfold canon; rw [hneg]
  rw [hnot]
  unfold canon
  by_cases hc : ∀ v, f v = false
  · rw [ins_false (red_mkTrue n) n 0 f (by omega) hc]
    simp [bddNot, mkFalse, mkTrue, numVars, zeroN, flipIfTerminal, negArr]
  by_cases ht : ∀ v, f v = true
  · have := ins_found (red_mkTrue n) n 0 f 1 (by omega) (by rw [mkTrue_size]; omega) (Nat.zero_le _)
      (fun v => by rw [ht, ev_one])
    rw [this]
    simp [bddNot, mkFalse, mkTrue, numVars, zeroN, flipIfTerminal]
  generalize ins n n 0 f (mkTrue n) = r at hred hpre hlt hev
  have hr2 : 2 ≤ r.2 := by
    rcases Nat.lt_or_ge r.2 2 with h | h
    · exfalso
      have : r.2 = 0 ∨ r.2 = 1 := by omega
      rcases this with e | e
      · exact hc (fun v => by rw [← hev v, e, ev_zero])
      · exact ht (fun v => by rw [← hev v, e, ev_one])
    · exact h
  simp only
  rw [if_neg (by omega), flip_ge2 hr2, if_neg (by omega)]
  exact bddNot_eq_negArr r.1 (by omega)

theorem bddNot_canonical (n : Nat) (f g : (Nat → Bool) → Bool)
    (hf : ∀ v w : Nat → Bool, (∀ i, i < n → v i = w i) → f v = f w)
    (hfg : ∀ v, g v = !f v) : bddNot (canon n f) = canon n g := by
  rw [bddNot_canon n f hf]; exact canon_congr (fun v => (hfg v).symm)

/-- double negation is the identity on canonical arrays -/
theorem bddNot_bddNot_canon (n : Nat) (f : (Nat → Bool) → Bool)
    (hdep : ∀ v w : Nat → Bool, (∀ i, i < n → v i = w i) → f v = f w) :
    bddNot (bddNot (canon n f)) = canon n f := by
  rw [bddNot_canon n f hdep, bddNot_canon n (fun v => !f v) (fun v w h => by show (!f v) = (!f w); rw [hdep v w h])]
  exact canon_congr (fun v => by simp)

/-- non-vacuity: `¬(if x1 then x0 ∧ x2 else x2)` -/
example : bddNot (canon 3 (fun v => if evW exX1 3 v (root exX1) then evW exX0X2 3 v (root exX0X2)
      else evW exX2 3 v (root exX2))) =
    #[⟨3, 0, 0⟩, ⟨3, 1, 1⟩, ⟨2, 1, 0⟩, ⟨1, 2, 1⟩, ⟨0, 3, 2⟩] :=
  (bddNot_canon 3 _ (specFn3_dep exX1 exX0X2 exX2 3 (fun a b c => if a then b else c) none none none none
    exX1_wf exX0X2_wf exX2_wf)).trans (by decide)

example : Red (bddNot exX0X2) 3 ∧ ∀ v, den (bddNot exX0X2) v = !(den exX0X2 v) := by
  have h : Red exX0X2 3 := by
    have e : exX0X2 = canon 3 (fun v => v 0 && v 2) := by decide
    rw [e]
    exact red_canon 3 _ (fun v w h => by show (v 0 && v 2) = (w 0 && w 2); rw [h 0 (by omega), h 2 (by omega)]) (by decide)
  exact ⟨bddNot_red h (by decide), fun v => bddNot_den (Or.inr h) v⟩

end B
