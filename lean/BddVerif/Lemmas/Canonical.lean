import BddVerif.Core.ApplyCanon
/-!
The library-wide notion of canonical form and its basic theory.

`Canonical A` says that the array `A` is literally the output of the reference builder `canon`
(Shannon expansion, high cofactor first, find-or-push on the two-terminal array; the constant false
is the one-node array) run on `A`'s own variable count and `A`'s own denotation.

* `canonical_unique`  — two canonical arrays over the same number of variables with the same
  denotation are equal (as arrays: same nodes at the same indices).
* `canon_canonical`   — the reference builder produces canonical arrays.
* `applyWithFlip_is_canonical` — the model of `apply_with_flip` produces canonical arrays.
-/
namespace B

/-- a function of valuations that depends only on the variables below `n` -/
def DepBelow (n : Nat) (f : (Nat → Bool) → Bool) : Prop :=
  ∀ v w : Nat → Bool, (∀ i, i < n → v i = w i) → f v = f w

/-- the library-wide canonical form: the array is exactly what the reference builder produces for
    its own function -/
def Canonical (A : Arr) : Prop := A = canon (numVars A) (den A)

theorem canonical_unique {a b : Arr} (ha : Canonical a) (hb : Canonical b)
    (hn : numVars a = numVars b) (hd : ∀ v, den a v = den b v) : a = b := by
  rw [ha, hb, hn]; exact canon_congr hd

theorem numVars_mkFalse (n : Nat) : numVars (mkFalse n) = n := rfl
theorem numVars_mkTrue (n : Nat) : numVars (mkTrue n) = n := rfl

theorem numVars_of_prefix_mkTrue {A : Arr} {n : Nat} (h : Prefix (mkTrue n) A) : numVars A = n := by
  have := h.2 0 (by rw [mkTrue_size]; omega)
  unfold numVars
  rw [this]
  rfl

/-- the reference builder records the variable count in the zero terminal -/
theorem numVars_canon (n : Nat) (f : (Nat → Bool) → Bool) (hdep : DepBelow n f) :
    numVars (canon n f) = n := by
  rcases canon_spec n f hdep with ⟨e, _⟩ | ⟨_, e, _, _⟩
  · rw [e]; rfl
  · rw [e]
    have hdep' : ∀ v w : Nat → Bool, (∀ i, 0 ≤ i → i < n → v i = w i) → f v = f w :=
      fun v w h => hdep v w (fun i hi => h i (Nat.zero_le _) hi)
    obtain ⟨_, hpre, _, _, _⟩ := ins_spec n 0 f (mkTrue n) (red_mkTrue n) (by omega) hdep'
    exact numVars_of_prefix_mkTrue hpre

/-- the reference builder produces canonical arrays -/
theorem canon_canonical (n : Nat) (f : (Nat → Bool) → Bool) (hdep : DepBelow n f) :
    Canonical (canon n f) := by
  unfold Canonical
  rw [numVars_canon n f hdep]
  exact (canon_congr (fun v => den_canon n f hdep v)).symm

/-- the model of `apply_with_flip` returns a canonical array (well-formed operands, a table consistent
    with some connective, flips in range) -/
theorem applyWithFlip_is_canonical (L R : Arr) (n : Nat) (op : Op2) (c : Bool → Bool → Bool)
    (fl fr fo : Option Nat) (hL : WFo L n) (hR : WFo R n) (hc : Consistent op c)
    (hfl : ∀ x, fl = some x → x < n) (hfr : ∀ x, fr = some x → x < n) (hfo : ∀ x, fo = some x → x < n) :
    Canonical (applyWithFlip L R op fl fr fo) := by
  rw [applyWithFlip_eq_canon L R n op c fl fr fo hL hR (numVars_of_wf hL) hc hfl hfr hfo]
  exact canon_canonical n (specFn L R n c fl fr fo) (specFn_dep L R n c fl fr fo hL hR)

/-- hence: two results of `apply_with_flip` with the same denotation are the same array -/
theorem applyWithFlip_unique (L R L' R' : Arr) (n : Nat) (op op' : Op2) (c c' : Bool → Bool → Bool)
    (fl fr fo fl' fr' fo' : Option Nat)
    (hL : WFo L n) (hR : WFo R n) (hL' : WFo L' n) (hR' : WFo R' n)
    (hc : Consistent op c) (hc' : Consistent op' c')
    (hfl : ∀ x, fl = some x → x < n) (hfr : ∀ x, fr = some x → x < n) (hfo : ∀ x, fo = some x → x < n)
    (hfl' : ∀ x, fl' = some x → x < n) (hfr' : ∀ x, fr' = some x → x < n) (hfo' : ∀ x, fo' = some x → x < n)
    (hd : ∀ v, den (applyWithFlip L R op fl fr fo) v = den (applyWithFlip L' R' op' fl' fr' fo') v) :
    applyWithFlip L R op fl fr fo = applyWithFlip L' R' op' fl' fr' fo' := by
  apply canonical_unique
    (applyWithFlip_is_canonical L R n op c fl fr fo hL hR hc hfl hfr hfo)
    (applyWithFlip_is_canonical L' R' n op' c' fl' fr' fo' hL' hR' hc' hfl' hfr' hfo') _ hd
  rw [applyWithFlip_eq_canon L R n op c fl fr fo hL hR (numVars_of_wf hL) hc hfl hfr hfo,
    applyWithFlip_eq_canon L' R' n op' c' fl' fr' fo' hL' hR' (numVars_of_wf hL') hc' hfl' hfr' hfo']
  exact (numVars_canon n _ (specFn_dep L R n c fl fr fo hL hR)).trans
    (numVars_canon n _ (specFn_dep L' R' n c' fl' fr' fo' hL' hR')).symm

/-- non-vacuity: a concrete canonical array (`x0 ∧ x1 ∧ x2`) -/
example : Canonical (applyWithFlip exX0X2 exX1 andLazy none none none) :=
  applyWithFlip_is_canonical exX0X2 exX1 3 andLazy (fun x y => x && y) none none none
    exX0X2_wf exX1_wf andLazy_consistent (by simp) (by simp) (by simp)

end B
