import BddVerif.Gen.Algo4
import BddVerif.Lemmas.AlgoEq3ExprFmt
/-!
# Translated `BooleanExpression::support_set` (`Gen/Algo4.lean`) = the names occurring in the expression (`ExprM.names`)

`support_set` walks the tree with the nested function `_rec(e, &mut set)` inserting every variable name into a
`HashSet<String>`. The hand model has `B.ExprM.names : Expr → List Name` (names in left-to-right order, with
repetitions). Proved, for every expression and every `fuel ≥ depth e` (the bound of the translated printer; sharp):

* `support_set_rec_eq` — `_rec fuel e set = .ok (set with the names of e inserted one by one, left to right)`, an
  equality of hash sets (the same insertions in the same order), hence
* `BooleanExpression_support_set_eq` — `support_set fuel e = .ok S` with `S = insertAll (∅ with capacity 8) (gnames e)`;
* `BooleanExpression_support_set_mem` — `x ∈ S ↔ x.toList ∈ ExprM.names (toE e)`: the result is exactly the set of
  names occurring in the expression (`BooleanExpression_support_set_ofE` for the model's own expressions);
* `BooleanExpression_support_set_fuel_panic` — with `fuel < depth e` the translated function ends in `panic "fuel"`.
-/
namespace B.AlgoEq4
open B B.Gen B.Gen.Algo3 B.Gen.Algo4 B.Parser B.AlgoEq3Expr B.AlgoEqUtil
attribute [local instance 10000] Rust.monadOutcomeInline

/-- the names of a generated expression, as `String`s, left to right with repetitions -/
def gnames (e : GE) : List String := (ExprM.names (toE e)).map String.ofList

/-- `set.insert(x)` for every `x` of the list, in order -/
def insertAll (s : Std.HashSet String) (l : List String) : Std.HashSet String := l.foldl (fun s x => s.insert x) s

theorem insertAll_append (s : Std.HashSet String) (l1 l2 : List String) :
    insertAll s (l1 ++ l2) = insertAll (insertAll s l1) l2 := List.foldl_append

theorem mem_insertAll (l : List String) : ∀ (s : Std.HashSet String) (x : String),
    x ∈ insertAll s l ↔ x ∈ s ∨ x ∈ l := by
  induction l with
  | nil => intro s x; simp [insertAll]
  | cons a l ih =>
    intro s x
    show x ∈ insertAll (s.insert a) l ↔ _
    rw [ih, Std.HashSet.mem_insert]
    simp only [beq_iff_eq, List.mem_cons]
    constructor
    · rintro ((h | h) | h)
      · exact Or.inr (Or.inl h.symm)
      · exact Or.inl h
      · exact Or.inr (Or.inr h)
    · rintro (h | h | h)
      · exact Or.inl (Or.inr h)
      · exact Or.inl (Or.inl h.symm)
      · exact Or.inr h

theorem gnames_var (s : String) : gnames (.Variable s) = [s] := by
  simp [gnames, toE, ExprM.names, String.ofList_toList]

theorem gnames_not (e : GE) : gnames (.Not e) = gnames e := rfl
theorem gnames_const (b : Bool) : gnames (.Const b) = [] := rfl
theorem gnames_and (l r : GE) : gnames (.And l r) = gnames l ++ gnames r := by simp [gnames, toE, ExprM.names]
theorem gnames_or (l r : GE) : gnames (.Or l r) = gnames l ++ gnames r := by simp [gnames, toE, ExprM.names]
theorem gnames_xor (l r : GE) : gnames (.Xor l r) = gnames l ++ gnames r := by simp [gnames, toE, ExprM.names]
theorem gnames_imp (l r : GE) : gnames (.Imp l r) = gnames l ++ gnames r := by simp [gnames, toE, ExprM.names]
theorem gnames_iff (l r : GE) : gnames (.Iff l r) = gnames l ++ gnames r := by simp [gnames, toE, ExprM.names]
theorem gnames_cond (c t e : GE) : gnames (.Cond c t e) = gnames c ++ gnames t ++ gnames e := by
  simp [gnames, toE, ExprM.names]

/-- **`support_set::_rec`, translated code**: the names of `e` are inserted into `set` one by one, left to right -/
theorem support_set_rec_eq (e : GE) : ∀ (fuel : Nat) (set : Std.HashSet String), depth e ≤ fuel →
    BooleanExpression_support_set___rec fuel e set = .ok (insertAll set (gnames e)) := by
  induction e with
  | Const b =>
    intro fuel set h
    cases fuel with
    | zero => simp [depth] at h
    | succ fuel => unfold BooleanExpression_support_set___rec; rfl
  | Variable s =>
    intro fuel set h
    cases fuel with
    | zero => simp [depth] at h
    | succ fuel => unfold BooleanExpression_support_set___rec; rw [gnames_var]; rfl
  | Not e ih =>
    intro fuel set h
    cases fuel with
    | zero => simp [depth] at h
    | succ fuel =>
      unfold BooleanExpression_support_set___rec
      simp only [depth, Nat.add_le_add_iff_right] at h
      simp only [ih fuel _ h, bind_ok, pure_eq, gnames_not]
  | And l r ihl ihr =>
    intro fuel set h
    cases fuel with
    | zero => simp [depth] at h
    | succ fuel =>
      unfold BooleanExpression_support_set___rec
      simp only [depth, Nat.add_le_add_iff_right, Nat.max_le] at h
      simp only [ihl fuel _ h.1, ihr fuel _ h.2, bind_ok, pure_eq, gnames_and, insertAll_append]
  | Or l r ihl ihr =>
    intro fuel set h
    cases fuel with
    | zero => simp [depth] at h
    | succ fuel =>
      unfold BooleanExpression_support_set___rec
      simp only [depth, Nat.add_le_add_iff_right, Nat.max_le] at h
      simp only [ihl fuel _ h.1, ihr fuel _ h.2, bind_ok, pure_eq, gnames_or, insertAll_append]
  | Xor l r ihl ihr =>
    intro fuel set h
    cases fuel with
    | zero => simp [depth] at h
    | succ fuel =>
      unfold BooleanExpression_support_set___rec
      simp only [depth, Nat.add_le_add_iff_right, Nat.max_le] at h
      simp only [ihl fuel _ h.1, ihr fuel _ h.2, bind_ok, pure_eq, gnames_xor, insertAll_append]
  | Imp l r ihl ihr =>
    intro fuel set h
    cases fuel with
    | zero => simp [depth] at h
    | succ fuel =>
      unfold BooleanExpression_support_set___rec
      simp only [depth, Nat.add_le_add_iff_right, Nat.max_le] at h
      simp only [ihl fuel _ h.1, ihr fuel _ h.2, bind_ok, pure_eq, gnames_imp, insertAll_append]
  | Iff l r ihl ihr =>
    intro fuel set h
    cases fuel with
    | zero => simp [depth] at h
    | succ fuel =>
      unfold BooleanExpression_support_set___rec
      simp only [depth, Nat.add_le_add_iff_right, Nat.max_le] at h
      simp only [ihl fuel _ h.1, ihr fuel _ h.2, bind_ok, pure_eq, gnames_iff, insertAll_append]
  | Cond c t e ihc iht ihe =>
    intro fuel set h
    cases fuel with
    | zero => simp [depth] at h
    | succ fuel =>
      unfold BooleanExpression_support_set___rec
      simp only [depth, Nat.add_le_add_iff_right, Nat.max_le] at h
      simp only [ihc fuel _ h.1, iht fuel _ h.2.1, ihe fuel _ h.2.2, bind_ok, pure_eq, gnames_cond, insertAll_append]

/-- with less fuel than the depth the translated `_rec` ends in `panic "fuel"` (the bound is sharp) -/
theorem support_set_rec_fuel_panic (e : GE) : ∀ (fuel : Nat) (set : Std.HashSet String), fuel < depth e →
    BooleanExpression_support_set___rec fuel e set = .panic "fuel" := by
  have two : ∀ (l r : GE) (fuel : Nat), fuel < max (depth l) (depth r) → fuel < depth l ∨ (depth l ≤ fuel ∧ fuel < depth r) := by
    intro l r fuel h; omega
  induction e with
  | Const b =>
    intro fuel set h
    cases fuel with
    | zero => rfl
    | succ fuel => simp [depth] at h
  | Variable s =>
    intro fuel set h
    cases fuel with
    | zero => rfl
    | succ fuel => simp [depth] at h
  | Not e ih =>
    intro fuel set h
    cases fuel with
    | zero => rfl
    | succ fuel =>
      unfold BooleanExpression_support_set___rec
      simp only [depth, Nat.add_lt_add_iff_right] at h
      simp only [ih fuel _ h]; rfl
  | And l r ihl ihr =>
    intro fuel set h
    cases fuel with
    | zero => rfl
    | succ fuel =>
      unfold BooleanExpression_support_set___rec
      simp only [depth, Nat.add_lt_add_iff_right] at h
      rcases two l r fuel h with h1 | ⟨h1, h2⟩
      · simp only [ihl fuel _ h1]; rfl
      · simp only [support_set_rec_eq l fuel _ h1, bind_ok, ihr fuel _ h2]; rfl
  | Or l r ihl ihr =>
    intro fuel set h
    cases fuel with
    | zero => rfl
    | succ fuel =>
      unfold BooleanExpression_support_set___rec
      simp only [depth, Nat.add_lt_add_iff_right] at h
      rcases two l r fuel h with h1 | ⟨h1, h2⟩
      · simp only [ihl fuel _ h1]; rfl
      · simp only [support_set_rec_eq l fuel _ h1, bind_ok, ihr fuel _ h2]; rfl
  | Xor l r ihl ihr =>
    intro fuel set h
    cases fuel with
    | zero => rfl
    | succ fuel =>
      unfold BooleanExpression_support_set___rec
      simp only [depth, Nat.add_lt_add_iff_right] at h
      rcases two l r fuel h with h1 | ⟨h1, h2⟩
      · simp only [ihl fuel _ h1]; rfl
      · simp only [support_set_rec_eq l fuel _ h1, bind_ok, ihr fuel _ h2]; rfl
  | Imp l r ihl ihr =>
    intro fuel set h
    cases fuel with
    | zero => rfl
    | succ fuel =>
      unfold BooleanExpression_support_set___rec
      simp only [depth, Nat.add_lt_add_iff_right] at h
      rcases two l r fuel h with h1 | ⟨h1, h2⟩
      · simp only [ihl fuel _ h1]; rfl
      · simp only [support_set_rec_eq l fuel _ h1, bind_ok, ihr fuel _ h2]; rfl
  | Iff l r ihl ihr =>
    intro fuel set h
    cases fuel with
    | zero => rfl
    | succ fuel =>
      unfold BooleanExpression_support_set___rec
      simp only [depth, Nat.add_lt_add_iff_right] at h
      rcases two l r fuel h with h1 | ⟨h1, h2⟩
      · simp only [ihl fuel _ h1]; rfl
      · simp only [support_set_rec_eq l fuel _ h1, bind_ok, ihr fuel _ h2]; rfl
  | Cond c t e ihc iht ihe =>
    intro fuel set h
    cases fuel with
    | zero => rfl
    | succ fuel =>
      unfold BooleanExpression_support_set___rec
      simp only [depth, Nat.add_lt_add_iff_right] at h
      have three : fuel < depth c ∨ (depth c ≤ fuel ∧ fuel < depth t) ∨ (depth c ≤ fuel ∧ depth t ≤ fuel ∧ fuel < depth e) := by
        omega
      rcases three with h1 | ⟨h1, h2⟩ | ⟨h1, h2, h3⟩
      · simp only [ihc fuel _ h1]; rfl
      · simp only [support_set_rec_eq c fuel _ h1, bind_ok, iht fuel _ h2]; rfl
      · simp only [support_set_rec_eq c fuel _ h1, support_set_rec_eq t fuel _ h2, bind_ok, ihe fuel _ h3]; rfl

/-- **`BooleanExpression::support_set`, translated code = the names of the expression inserted into an empty set**,
    for every expression and every `fuel ≥ depth e` -/
theorem BooleanExpression_support_set_eq (e : GE) (fuel : Nat) (h : depth e ≤ fuel) :
    BooleanExpression_support_set fuel e = .ok (insertAll (Rust.hashSetWithCapacity 8) (gnames e)) := by
  unfold BooleanExpression_support_set
  simp only [support_set_rec_eq e fuel _ h, bind_ok, pure_eq]

theorem BooleanExpression_support_set_fuel_panic (e : GE) (fuel : Nat) (h : fuel < depth e) :
    BooleanExpression_support_set fuel e = .panic "fuel" := by
  unfold BooleanExpression_support_set
  simp only [support_set_rec_fuel_panic e fuel _ h]; rfl

/-- **the result is exactly the set of names occurring in the expression** (`ExprM.names` of the hand model) -/
theorem BooleanExpression_support_set_mem (e : GE) (fuel : Nat) (h : depth e ≤ fuel) :
    ∃ S, BooleanExpression_support_set fuel e = .ok S ∧ ∀ x : String, x ∈ S ↔ x.toList ∈ ExprM.names (toE e) := by
  refine ⟨_, BooleanExpression_support_set_eq e fuel h, ?_⟩
  intro x
  rw [mem_insertAll]
  have hempty : ¬ x ∈ (Rust.hashSetWithCapacity 8 : Std.HashSet String) := by
    unfold Rust.hashSetWithCapacity; exact Std.HashSet.not_mem_emptyWithCapacity
  simp only [hempty, false_or, gnames, List.mem_map]
  constructor
  · rintro ⟨n, hn, rfl⟩
    rw [String.toList_ofList]; exact hn
  · intro hx
    exact ⟨x.toList, hx, String.ofList_toList⟩

/-- for the model's expressions: `support_set(ofE e)` holds exactly `ExprM.names e` -/
theorem BooleanExpression_support_set_ofE (e : Expr) (fuel : Nat) (h : depth (ofE e) ≤ fuel) :
    ∃ S, BooleanExpression_support_set fuel (ofE e) = .ok S ∧
      ∀ x : String, x ∈ S ↔ x.toList ∈ ExprM.names e := by
  obtain ⟨S, hS, hm⟩ := BooleanExpression_support_set_mem (ofE e) fuel h
  exact ⟨S, hS, by intro x; rw [hm x, toE_ofE]⟩

/-! ### non-vacuity -/

/-- `(a & !b) => (a ? c : true)`: depth 4, names a, b, a, c -/
def exE : GE := .Imp (.And (.Variable "a") (.Not (.Variable "b"))) (.Cond (.Variable "a") (.Variable "c") (.Const true))

example : depth exE = 4 := by decide
example : gnames exE = ["a", "b", "a", "c"] := by decide
example : ∃ S, BooleanExpression_support_set 4 exE = .ok S ∧ "b" ∈ S ∧ ¬ "d" ∈ S := by
  obtain ⟨S, hS, hm⟩ := BooleanExpression_support_set_mem exE 4 (by decide)
  refine ⟨S, hS, (hm "b").2 (by decide), fun h => ?_⟩
  have := (hm "d").1 h
  revert this; decide
example : BooleanExpression_support_set 3 exE = .panic "fuel" :=
  BooleanExpression_support_set_fuel_panic exE 3 (by decide)

end B.AlgoEq4
