import BddVerif.Lemmas.Ternary1
namespace B
open Std

/-! Ternary simulation, part 2: normal form of `finish3`, `findOrPush3` is the find-or-push of `ins`. -/

/-- normalised form of `finish3`: p1 = result of the sub-task computed first (the result's high child),
    p2 = result of the sub-task computed second (the result's low child) -/
def finishN3 (s : St3) (t : Nat × Nat × Nat) (d p1 p2 : Nat) : St3 × Nat :=
  let s1 : St3 := if p1 = 1 ∨ p2 = 1 then { s with nonEmpty := true } else s
  if p2 = p1 then ({ s1 with finished := s1.finished.insert t p2 }, p2)
  else
    let fp := findOrPush3 s1 ⟨d, p2, p1⟩
    ({ fp.1 with finished := fp.1.finished.insert t fp.2 }, fp.2)

theorem finish3_flip (s : St3) (t : Nat × Nat × Nat) (d p1 p2 : Nat) :
    finish3 s t d p1 p2 true = finishN3 s t d p1 p2 := by
  unfold finish3 finishN3
  by_cases h : p1 = p2
  · subst h; simp
  · have h' : ¬ p2 = p1 := fun e => h e.symm
    simp [h, h']

theorem finish3_noflip (s : St3) (t : Nat × Nat × Nat) (d p1 p2 : Nat) :
    finish3 s t d p2 p1 false = finishN3 s t d p1 p2 := by
  unfold finish3 finishN3
  by_cases h : p2 = p1
  · subst h; simp
  · simp [h, Or.comm]

/-- the find-or-push of the model is the find-or-push of the reference builder -/
theorem findOrPush3_spec (Γ : Ctx3) (c : Bool → Bool → Bool → Bool) (s : St3) (hs : Inv3 Γ c s) (nd : Node)
    (hv : nd.var < Γ.n) :
    ((findOrPush3 s nd).1.res, (findOrPush3 s nd).2) =
      (match findNode s.res nd with
       | some i => (s.res, i)
       | none => (s.res.push nd, s.res.size)) ∧
    (∀ (nd' : Node) (i : Nat), nd'.var < Γ.n →
      ((findOrPush3 s nd).1.existing[nd']? = some i ↔ 2 ≤ i ∧ (findOrPush3 s nd).1.res[i]? = some nd')) ∧
    (findOrPush3 s nd).1.finished = s.finished ∧ (findOrPush3 s nd).1.nonEmpty = s.nonEmpty := by
  unfold findOrPush3
  cases hex : s.existing[nd]? with
  | some i =>
    obtain ⟨hi2, hind⟩ := (hs.ex nd i hv).1 hex
    have := findNode_of_mem hs.red i nd hi2 hind
    simp only [this]
    exact ⟨trivial, hs.ex, trivial, trivial⟩
  | none =>
    have hfn : findNode s.res nd = none := by
      cases hf : findNode s.res nd with
      | none => rfl
      | some i =>
        obtain ⟨hi2, hind⟩ := findNode_some hf
        have := (hs.ex nd i hv).2 ⟨hi2, hind⟩
        rw [hex] at this; cases this
    simp only [hfn]
    refine ⟨trivial, ?_, trivial, trivial⟩
    intro nd' i hv'
    simp only [HashMap.getElem?_insert]
    by_cases hnn : nd = nd'
    · subst hnn
      simp only [beq_self_eq_true, if_true, Option.some.injEq]
      constructor
      · intro h; subst h
        have := hs.red.size2
        exact ⟨by omega, by simp⟩
      · intro ⟨hi2, hind⟩
        rcases Nat.lt_or_ge i s.res.size with hlt | hge
        · have : s.res[i]? = some nd := by
            rw [← (Prefix.push s.res nd).2 i hlt]; exact hind
          have := (hs.ex nd i hv).2 ⟨hi2, this⟩
          rw [hex] at this; cases this
        · rcases Nat.lt_or_ge i (s.res.push nd).size with hlt' | hge'
          · simp at hlt'; omega
          · simp [Array.getElem?_eq_none hge'] at hind
    · have hbeq : (nd == nd') = false := by simpa using hnn
      simp only [hbeq, Bool.false_eq_true, if_false]
      rw [hs.ex nd' i hv']
      constructor
      · intro ⟨hi2, hind⟩
        have hlt : i < s.res.size := by
          rcases Nat.lt_or_ge i s.res.size with h' | h'
          · exact h'
          · simp [Array.getElem?_eq_none h'] at hind
        exact ⟨hi2, by rw [(Prefix.push s.res nd).2 i hlt]; exact hind⟩
      · intro ⟨hi2, hind⟩
        rcases Nat.lt_or_ge i s.res.size with hlt | hge
        · exact ⟨hi2, by rw [← (Prefix.push s.res nd).2 i hlt]; exact hind⟩
        · exfalso
          have : i = s.res.size := by
            rcases Nat.lt_or_ge i (s.res.push nd).size with hlt' | hge'
            · simp at hlt'; omega
            · simp [Array.getElem?_eq_none hge'] at hind
          subst this
          simp at hind
          exact hnn hind

end B
