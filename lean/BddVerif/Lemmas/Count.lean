import BddVerif.Model.Count
import BddVerif.Core.Opnd
import BddVerif.Lemmas.CountCnt
/-!
`exact_cardinality` / `exact_clause_cardinality`: the cached depth-first traversal writes, for every
pointer it visits, the value of the plain recursion `cardF`; for level-well-formed arrays (`WFo`, no
assumption on the numbering of the nodes) the weighted value is the number of satisfying assignments
of the variables from the node's level on, hence `exactCardO A = ok (cnt n (function of A))`.
-/
namespace B.Count

/-! ### the plain recursion the cache entries are compared with -/

/-- value of the cache entry of pointer `p`, without a cache (fuel by depth) -/
def cardF (A : Arr) (w : Bool) : Nat → Nat → Nat
  | _, 0 => 0
  | _, 1 => 1
  | 0, _ => 0
  | f + 1, p =>
    let nd := nodeAt A p
    cardNode A w nd (cardF A w f nd.low) (cardF A w f nd.high)

theorem cardF_zero (A : Arr) (w f) : cardF A w f 0 = 0 := by cases f <;> simp [cardF]
theorem cardF_one (A : Arr) (w f) : cardF A w f 1 = 1 := by cases f <;> simp [cardF]
theorem cardF_succ (A : Arr) (w f p) (hp : 2 ≤ p) :
    cardF A w (f + 1) p = cardNode A w (nodeAt A p) (cardF A w f (nodeAt A p).low) (cardF A w f (nodeAt A p).high) := by
  match p, hp with
  | p + 2, _ => simp [cardF]

theorem nodeAt_eq {A : Arr} {p : Nat} (hp : p < A.size) : nodeAt A p = A[p] := by
  simp [nodeAt, hp]

theorem varOf_le_wfo {A : Arr} {n : Nat} (h : WFo A n) (p : Nat) : varOf A n p ≤ n := by
  unfold varOf
  split
  · exact Nat.le_refl _
  · split
    · rename_i nd hnd
      exact Nat.le_of_lt (h.inner p nd (by omega) hnd).1
    · exact Nat.le_refl _

/-- the stored variable read by the Rust code is the level used in the proofs -/
theorem varAt_eq_varOf {A : Arr} {n : Nat} (h : WFo A n) (p : Nat) (hp : p < A.size) :
    varAt A p = varOf A n p := by
  unfold varAt
  by_cases h0 : p = 0
  · subst h0; simp [nodeAt, h.zero, varOf]
  by_cases h1 : p = 1
  · subst h1; simp [nodeAt, h.one (by omega), varOf]
  have hnd : A[p]? = some A[p] := by simp [hp]
  rw [varOf_node p _ (by omega) hnd, nodeAt_eq hp]

theorem cardF_level {A : Arr} {n : Nat} (h : WFo A n) (w : Bool) :
    ∀ f1 p f2, p < A.size → n - varOf A n p < f1 → n - varOf A n p < f2 →
      cardF A w f1 p = cardF A w f2 p := by
  intro f1
  induction f1 with
  | zero => intro p f2 _ h1; omega
  | succ f1 ih =>
    intro p f2 hp h1 h2
    by_cases h0 : p = 0
    · subst h0; simp [cardF_zero]
    by_cases h1' : p = 1
    · subst h1'; simp [cardF_one]
    have hp2 : 2 ≤ p := by omega
    have hnd : A[p]? = some A[p] := by simp [hp]
    obtain ⟨hv, hl, hh, hvl, hvh⟩ := h.inner p A[p] hp2 hnd
    have hvar : varOf A n p = A[p].var := varOf_node p _ hp2 hnd
    obtain ⟨f2', rfl⟩ : ∃ f2', f2 = f2' + 1 := ⟨f2 - 1, by omega⟩
    rw [cardF_succ A w f1 p hp2, cardF_succ A w f2' p hp2, nodeAt_eq hp]
    rw [ih _ f2' hl (by omega) (by omega), ih _ f2' hh (by omega) (by omega)]

theorem pow_split (a k : Nat) (h : k < a) : 2 ^ (a - k) = 2 * 2 ^ (a - (k + 1)) := by
  have : a - k = (a - (k + 1)) + 1 := by omega
  rw [this, Nat.pow_succ]; omega

/-- the weighted entry of `p` is the number of satisfying assignments of the variables from the level
    of `p` on; counted from an earlier level `k` every skipped level doubles it -/
theorem cardF_cnt {A : Arr} {n : Nat} (h : WFo A n) :
    ∀ m k p fuel (v : Nat → Bool), k + m = n → p < A.size → k ≤ varOf A n p → n - varOf A n p < fuel →
      cntV (fun w => evW A n w p) m k v = 2 ^ (varOf A n p - k) * cardF A true fuel p := by
  intro m
  induction m with
  | zero =>
    intro k p fuel v hk hp hkv hfuel
    have hle := varOf_le_wfo h p
    have hvn : varOf A n p = n := by omega
    have hp2 : p < 2 := by
      rcases Nat.lt_or_ge p 2 with h2 | h2
      · exact h2
      · have hnd : A[p]? = some A[p] := by simp [hp]
        have := (h.inner p A[p] h2 hnd).1
        rw [varOf_node p _ h2 hnd] at hvn; omega
    have : p = 0 ∨ p = 1 := by omega
    rcases this with rfl | rfl
    · simp [cntV, evW_zero, cardF_zero]
    · have hz : n - k = 0 := by omega
      simp [cntV, evW_one, cardF_one, hvn, hz]
  | succ m ih =>
    intro k p fuel v hk hp hkv hfuel
    by_cases hlt : k < varOf A n p
    · -- level `k` is skipped by `p`
      rw [cntV_skip _ m k v (fun w b => evW_upd h p hp w k b hlt)]
      rw [ih (k + 1) p fuel v (by omega) hp (by omega) hfuel, pow_split _ _ hlt]
      rw [Nat.mul_assoc]
    · -- `p` is a decision node on variable `k`
      have hvk : varOf A n p = k := by omega
      have hle := varOf_le_wfo h p
      have hp2 : 2 ≤ p := by
        rcases Nat.lt_or_ge p 2 with h2 | h2
        · simp [varOf, h2] at hvk; omega
        · exact h2
      have hnd : A[p]? = some A[p] := by simp [hp]
      obtain ⟨hv, hl, hh, hvl, hvh⟩ := h.inner p A[p] hp2 hnd
      have hvar : A[p].var = k := by rw [varOf_node p _ hp2 hnd] at hvk; exact hvk
      obtain ⟨fuel', rfl⟩ : ∃ f', fuel = f' + 1 := ⟨fuel - 1, by omega⟩
      have e0 : cntV (fun w => evW A n w p) m (k + 1) (upd v k false) =
          cntV (fun w => evW A n w A[p].low) m (k + 1) (upd v k false) := by
        apply cntV_congr
        intro w hw
        have hwk : w k = false := by rw [hw k (by omega)]; simp [upd]
        show evW A n w p = evW A n w A[p].low
        rw [evW_node h w p hp2 _ hnd, hvar, hwk]; simp
      have e1 : cntV (fun w => evW A n w p) m (k + 1) (upd v k true) =
          cntV (fun w => evW A n w A[p].high) m (k + 1) (upd v k true) := by
        apply cntV_congr
        intro w hw
        have hwk : w k = true := by rw [hw k (by omega)]; simp [upd]
        show evW A n w p = evW A n w A[p].high
        rw [evW_node h w p hp2 _ hnd, hvar, hwk]; simp
      have i0 := ih (k + 1) A[p].low fuel' (upd v k false) (by omega) hl (by omega) (by omega)
      have i1 := ih (k + 1) A[p].high fuel' (upd v k true) (by omega) hh (by omega) (by omega)
      show cntV _ m (k + 1) (upd v k false) + cntV _ m (k + 1) (upd v k true) = _
      rw [e0, e1, i0, i1, hvk, Nat.sub_self, Nat.pow_zero, Nat.one_mul, cardF_succ A true fuel' p hp2, nodeAt_eq hp]
      unfold cardNode
      simp only [if_true]
      rw [varAt_eq_varOf h _ hl, varAt_eq_varOf h _ hh, hvar]
      rw [Nat.mul_comm (2 ^ _), Nat.mul_comm (2 ^ _)]
      rfl

/-! ### the cache -/

theorem getD_set (c : Cache) (p q : Nat) (x : Option Nat) :
    (c.setIfInBounds p x).getD q none = if p = q ∧ p < c.size then x else c.getD q none := by
  simp only [Array.getD_eq_getD_getElem?, Array.getElem?_setIfInBounds]
  by_cases hpq : p = q
  · subst hpq
    by_cases h2 : p < c.size
    · simp [h2]
    · simp [h2]
  · simp [hpq]

/-- invariant of the cache during the traversal of `A` (entries are those of `cardF` at fuel `F`) -/
structure CInv (A : Arr) (w : Bool) (F : Nat) (c : Cache) : Prop where
  size : c.size = A.size
  zero : c.getD 0 none = some 0
  one : 2 ≤ A.size → c.getD 1 none = some 1
  sound : ∀ p x, c.getD p none = some x → x = cardF A w F p

theorem cinv_init (A : Arr) (w : Bool) (F : Nat) (hs : 0 < A.size) : CInv A w F (initCache A) := by
  have key : ∀ p, (initCache A).getD p none =
      if p = 1 ∧ 1 < A.size then some 1 else if p = 0 then some 0 else none := by
    intro p
    unfold initCache
    rw [getD_set, getD_set]
    simp only [Array.size_setIfInBounds, Array.size_replicate, Array.getD_eq_getD_getElem?, Array.getElem?_replicate]
    by_cases h1 : p = 1
    · subst h1; by_cases h2 : 1 < A.size <;> simp [h2]
    · by_cases h0 : p = 0
      · subst h0; simp [hs]
      · have a : ¬ (1 = p ∧ 1 < A.size) := fun h => h1 h.1.symm
        have b : ¬ (0 = p ∧ 0 < A.size) := fun h => h0 h.1.symm
        simp only [a, b, if_false, h1, h0, false_and]
        split <;> rfl
  refine ⟨by simp [initCache], ?_, ?_, ?_⟩
  · rw [key]; simp
  · intro h2; rw [key]; simp; omega
  · intro p x hx
    rw [key] at hx
    split at hx
    · rename_i h; cases hx; rw [h.1, cardF_one]
    · split at hx
      · rename_i h; cases hx; rw [h, cardF_zero]
      · cases hx

/-- one visit: the invariant is kept, earlier entries are kept, and `p` is cached afterwards -/
theorem cardGo_spec {A : Arr} {n : Nat} (h : WFo A n) (w : Bool) (F : Nat) (hF : n < F) :
    ∀ fuel p c, p < A.size → n - varOf A n p < fuel → CInv A w F c →
      CInv A w F (cardGo A w fuel p c) ∧
      (cardGo A w fuel p c).getD p none = some (cardF A w F p) ∧
      (∀ q x, c.getD q none = some x → (cardGo A w fuel p c).getD q none = some x) := by
  intro fuel
  induction fuel with
  | zero => intro p c _ hf; omega
  | succ fuel ih =>
    intro p c hp hfuel hc
    unfold cardGo
    rcases hcp : c.getD p none with _ | x
    · -- not cached: `p` is a decision node
      simp only
      have hp2 : 2 ≤ p := by
        rcases Nat.lt_or_ge p 2 with h2 | h2
        · have : p = 0 ∨ p = 1 := by omega
          rcases this with rfl | rfl
          · rw [hc.zero] at hcp; cases hcp
          · rw [hc.one (by omega)] at hcp; cases hcp
        · exact h2
      have hnd : A[p]? = some A[p] := by simp [hp]
      obtain ⟨hv, hl, hh, hvl, hvh⟩ := h.inner p A[p] hp2 hnd
      have hvar : varOf A n p = A[p].var := varOf_node p _ hp2 hnd
      rw [nodeAt_eq hp]
      obtain ⟨i1, g1, m1⟩ := ih A[p].high c hh (by omega) hc
      obtain ⟨i2, g2, m2⟩ := ih A[p].low _ hl (by omega) i1
      have g1' := m2 _ _ g1
      rw [g2, g1']
      simp only
      -- the value written is the specification value
      have hval : cardNode A w A[p] (cardF A w F A[p].low) (cardF A w F A[p].high) = cardF A w F p := by
        obtain ⟨F', rfl⟩ : ∃ F', F = F' + 1 := ⟨F - 1, by omega⟩
        rw [cardF_succ A w F' p hp2, nodeAt_eq hp]
        rw [cardF_level h w (F' + 1) _ F' hl (by omega) (by omega),
          cardF_level h w (F' + 1) _ F' hh (by omega) (by omega)]
      rw [hval]
      have hps : p < (cardGo A w fuel A[p].low (cardGo A w fuel A[p].high c)).size := by rw [i2.size]; exact hp
      refine ⟨⟨by rw [Array.size_setIfInBounds]; exact i2.size, ?_, ?_, ?_⟩, ?_, ?_⟩
      · rw [getD_set, if_neg (by omega)]; exact i2.zero
      · intro h2; rw [getD_set, if_neg (by omega)]; exact i2.one h2
      · intro q x hx
        rw [getD_set] at hx
        split at hx
        · rename_i hq; cases hx; rw [← hq.1]
        · exact i2.sound q x hx
      · rw [getD_set, if_pos ⟨rfl, hps⟩]
      · intro q x hx
        rw [getD_set]
        have hqp : p ≠ q := fun hh => by rw [← hh, hcp] at hx; cases hx
        rw [if_neg (fun hh => hqp hh.1)]
        exact m2 _ _ (m1 _ _ hx)
    · -- cached
      simp only
      refine ⟨hc, ?_, fun _ _ hx => hx⟩
      rw [hcp, hc.sound p x hcp]

/-! ### the reachability test always succeeds on level-well-formed arrays -/

theorem nodeOk_of_wfo {A : Arr} {n : Nat} (h : WFo A n) (p : Nat) (hp2 : 2 ≤ p) (hp : p < A.size) :
    nodeOk A p = true := by
  have hnd : A[p]? = some A[p] := by simp [hp]
  obtain ⟨hv, hl, hh, hvl, hvh⟩ := h.inner p A[p] hp2 hnd
  unfold nodeOk
  simp only [nodeAt_eq hp, Bool.and_eq_true, decide_eq_true_eq]
  rw [varAt_eq_varOf h _ hl, varAt_eq_varOf h _ hh]
  exact ⟨⟨⟨hl, hh⟩, hvl⟩, hvh⟩

theorem cardOk_of_wfo {A : Arr} {n : Nat} (h : WFo A n) : cardOk A = true := by
  unfold cardOk
  simp only [List.all_eq_true, List.mem_range, Bool.or_eq_true, decide_eq_true_eq]
  intro p hp
  rcases Nat.lt_or_ge p 2 with h2 | h2
  · left; left; exact h2
  · right; exact nodeOk_of_wfo h p h2 hp

/-! ### the two public functions -/

theorem root_lt_size {A : Arr} (hs : 0 < A.size) : root A < A.size := by unfold root; omega

theorem cardFuel_gt {A : Arr} {n : Nat} (h : WFo A n) : n + 1 < cardFuel A := by
  unfold cardFuel; rw [numVars_eq h]; omega
where
  numVars_eq {A : Arr} {n : Nat} (h : WFo A n) : numVars A = n := by simp [numVars, h.zero]

theorem wfo_size_pos {A : Arr} {n : Nat} (h : WFo A n) : 0 < A.size := by
  rcases Nat.lt_or_ge 0 A.size with h' | h'
  · exact h'
  · have := h.zero; simp [Array.getElem?_eq_none h'] at this

/-- the root entry of the final cache -/
theorem cardCache_root {A : Arr} {n : Nat} (h : WFo A n) (w : Bool) :
    (cardCache A w).getD (root A) none = some (cardF A w (n + 1) (root A)) := by
  have hs := wfo_size_pos h
  have hle := varOf_le_wfo h (root A)
  have := cardGo_spec h w (n + 1) (by omega) (cardFuel A) (root A) (initCache A) (root_lt_size hs)
    (by have := cardFuel_gt h; omega) (cinv_init A w (n + 1) hs)
  exact this.2.1

/-- `exact_cardinality` of a level-well-formed diagram never panics and returns the number of
    satisfying assignments of the `n` variables -/
theorem exactCardO_wfo {A : Arr} {n : Nat} (h : WFo A n) :
    exactCardO A = .ok (cnt n (fun v => evW A n v (root A))) := by
  have hs := wfo_size_pos h
  unfold exactCardO
  rw [if_neg (by omega)]
  by_cases h1 : A.size = 1
  · rw [if_pos h1]
    have hr : root A = 0 := by unfold root; omega
    rw [hr]
    congr 1
    unfold cnt
    rw [cntV_congr (fun v => evW A n v 0) (fun _ => false) n 0 _ (fun w _ => evW_zero A n w), cntV_false]
  · rw [if_neg h1, cardOk_of_wfo h]
    simp only [Bool.not_true, Bool.false_eq_true, if_false]
    rw [cardCache_root h true]
    simp only
    congr 1
    have hr := root_lt_size hs
    have hle := varOf_le_wfo h (root A)
    have := cardF_cnt h n 0 (root A) (n + 1) (fun _ => false) (by omega) hr (Nat.zero_le _) (by omega)
    unfold cnt
    rw [this, varAt_eq_varOf h _ hr, Nat.sub_zero, Nat.mul_comm]

theorem exactCard_wfo {A : Arr} {n : Nat} (h : WFo A n) :
    exactCard A = cnt n (fun v => evW A n v (root A)) := by
  unfold exactCard; rw [exactCardO_wfo h]

/-- `exact_clause_cardinality` of a level-well-formed diagram never panics and returns the root entry
    of the unweighted recursion -/
theorem clauseCardO_wfo {A : Arr} {n : Nat} (h : WFo A n) :
    clauseCardO A = .ok (cardF A false (n + 1) (root A)) := by
  have hs := wfo_size_pos h
  unfold clauseCardO
  rw [if_neg (by omega)]
  by_cases h1 : A.size = 1
  · rw [if_pos h1]
    have hr : root A = 0 := by unfold root; omega
    rw [hr, cardF_zero]
  · rw [if_neg h1, cardOk_of_wfo h]
    simp only [Bool.not_true, Bool.false_eq_true, if_false]
    rw [cardCache_root h false]

end B.Count
