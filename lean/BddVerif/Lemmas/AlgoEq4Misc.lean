import BddVerif.Gen.Algo4
import BddVerif.Lemmas.AlgoEq3SatChain
import BddVerif.Lemmas.AlgoEqUtilFromNodes
import BddVerif.Lemmas.AlgoEq3NamesProtocol
import BddVerif.Props.C12
/-!
# The remaining public items of `Gen/Algo4.lean`

* `to_nodes` (= the model's `Serial.toNodes`, the array itself) and the round trip `from_nodes(to_nodes(b)) = Ok(b)` in
  translated code on every array well-formed by level (`Props.C12.nodes_roundtrip`);
* `BddValuation::vector`, `Index for BddValuation` / `BddPartialValuation`, `Default for BddPartialValuation`;
* `ValuationsOfClauseIterator::new_unconstrained`, `BddValuationIterator::{new, next}`: the model's
  `cvUnconstrained`, and the whole enumeration `= extensions (replicate n none)` (all `2^n` valuations, variable 0
  least significant, increasing);
* the six `op_function` tables `=` the regenerated `Gen.and_ …` (which are what every theorem about the connectives
  is stated for);
* `IntoBdd` for `BddVariable`, `Bdd`, `&Bdd`, `&str`; `Default for BddVariableSetBuilder`;
* `FromIterator<String>` / `From<Vec<String>>` / `From<Vec<&str>>` for `BddVariableSet`: the builder protocol with one
  `make_variable` per name, hence `= BddVariableSet::new` up to 65533 names (`AlgoEq3Names.protocol_eq_new`).
-/
namespace B.AlgoEq4
open B B.Gen B.Gen.Algo B.Gen.Algo2 B.Gen.Algo3 B.Gen.Algo4 B.Iter B.AlgoEqIt B.AlgoEq3Sat
attribute [local instance 10000] Rust.monadOutcomeInline

/-! ### `to_nodes` -/

/-- **`Bdd::to_nodes`** = the model's `toNodes` (the node array itself), every array -/
theorem Bdd_to_nodes_eq_model (A : Arr) : Bdd_to_nodes A = Serial.toNodes A := rfl

/-- **`Bdd::from_nodes(&b.to_nodes()) == Ok(b)` in translated code** on every array well-formed by level -/
theorem from_nodes_to_nodes_translated (A : Arr) (n : Nat) (h : WFo A n) :
    Bdd_from_nodes (Bdd_to_nodes A) = .ok (.ok A) :=
  (AlgoEqUtil.Bdd_from_nodes_ok_iff _ A).2 (Props.C12.nodes_roundtrip A n h)

/-- the driver's `nodes` operation (`Drive/Algo4.lean: genOp`) -/
theorem nodes_op_driver (A : Arr) (n : Nat) (h : WFo A n) :
    (do Gen.Rust.unwrapR (← Bdd_from_nodes (Bdd_to_nodes A))) = Outcome.ok A := by
  rw [from_nodes_to_nodes_translated A n h]; rfl

/-! ### accessors of valuations -/

theorem BddValuation_vector_eq (v : Array Bool) : BddValuation_vector v = v := rfl

/-- `Index<BddVariable> for BddValuation`: the stored value, out of bounds panics -/
theorem BddValuation_index_eq (v : Array Bool) (i : Nat) :
    BddValuation_index v i = match v[i]? with | some b => .ok b | none => .panic "index out of bounds" := by
  unfold BddValuation_index
  rw [idx_eq]
  cases v[i]? <;> rfl

/-- `Index<BddVariable> for BddPartialValuation` = `get_value` = the model's `pvGet` (never panics) -/
theorem BddPartialValuation_index_eq (c : Array (Option Bool)) (i : Nat) :
    BddPartialValuation_index c i = .ok (Iter.pvGet c.toList i) := by
  unfold BddPartialValuation_index Iter.pvGet
  by_cases h : i < c.size
  · simp [h, idx_of_lt]
  · simp [h]

theorem BddPartialValuation_index_eq_get_value (c : Array (Option Bool)) (i : Nat) :
    BddPartialValuation_index c i = BddPartialValuation_get_value c i := by
  rw [BddPartialValuation_index_eq, get_value_eq]

theorem BddPartialValuation_default_eq : BddPartialValuation_default = (#[] : Array (Option Bool)) := rfl

/-! ### the unconstrained iterator, `BddValuationIterator` -/

/-- **`new_unconstrained(n)`** is the model's `cvUnconstrained n` -/
theorem new_unconstrained_eq_model (n : Nat) :
    ValuationsOfClauseIterator_new_unconstrained n = cvOf (cvUnconstrained n) := by
  simp [ValuationsOfClauseIterator_new_unconstrained, cvOf, cvUnconstrained, BddValuation_all_false, Rust.vecRepeat,
    BddPartialValuation_empty]

theorem BddValuationIterator_new_eq (n : Nat) : BddValuationIterator_new n = ValuationsOfClauseIterator_new_unconstrained n := rfl

/-- **`BddValuationIterator::next`** is `ValuationsOfClauseIterator::next` on the wrapped iterator -/
theorem BddValuationIterator_next_eq : BddValuationIterator_next = ValuationsOfClauseIterator_next := by
  funext s
  unfold BddValuationIterator_next
  dsimp only
  cases h : ValuationsOfClauseIterator_next s with
  | err m => rfl
  | panic m => rfl
  | ok r => rfl

/-- **`BddValuationIterator::new(n).collect()`** (and `new_unconstrained(n)`) yields all `2^n` valuations in increasing
    order (variable 0 least significant), for `n < 2^16` and more than `2^n` calls of `next` -/
theorem BddValuationIterator_translated_eq (n fuel : Nat) (hn : n < 65536) (hf : 2 ^ n < fuel) :
    ∃ l, collect BddValuationIterator_next fuel (BddValuationIterator_new n) = .ok l ∧
      l.map Array.toList = extensions (List.replicate n none) ∧ l.length = 2 ^ n := by
  obtain ⟨l, hl, hx⟩ := unconstrained_translated_eq n fuel hn hf
  refine ⟨l, ?_, hx, ?_⟩
  · rw [BddValuationIterator_next_eq]; exact hl
  · have := congrArg List.length hx
    rw [List.length_map] at this
    rw [this, Iter.extensions_length]
    congr 1
    unfold freeCount
    simp

/-! ### `op_function` -/

theorem op_function__and_eq : op_function__and = Gen.and_ := by
  funext l r; cases l with | none => cases r with | none => rfl | some b => cases b <;> rfl
                           | some a => cases a <;> cases r with | none => rfl | some b => cases b <;> rfl
theorem op_function__or_eq : op_function__or = Gen.or_ := by
  funext l r; cases l with | none => cases r with | none => rfl | some b => cases b <;> rfl
                           | some a => cases a <;> cases r with | none => rfl | some b => cases b <;> rfl
theorem op_function__imp_eq : op_function__imp = Gen.imp_ := by
  funext l r; cases l with | none => cases r with | none => rfl | some b => cases b <;> rfl
                           | some a => cases a <;> cases r with | none => rfl | some b => cases b <;> rfl
theorem op_function__iff_eq : op_function__iff = Gen.iff_ := by
  funext l r; cases l with | none => cases r with | none => rfl | some b => cases b <;> rfl
                           | some a => cases a <;> cases r with | none => rfl | some b => cases b <;> rfl
theorem op_function__xor_eq : op_function__xor = Gen.xor_ := by
  funext l r; cases l with | none => cases r with | none => rfl | some b => cases b <;> rfl
                           | some a => cases a <;> cases r with | none => rfl | some b => cases b <;> rfl
theorem op_function__and_not_eq : op_function__and_not = Gen.and_not_ := by
  funext l r; cases l with | none => cases r with | none => rfl | some b => cases b <;> rfl
                           | some a => cases a <;> cases r with | none => rfl | some b => cases b <;> rfl

/-- hence the six public connectives (`Gen/Algo2.lean` refers to the regenerated tables) apply the tables translated
    from `src/op_function.rs` -/
theorem connectives_via_op_function (fuel : Nat) (L R : Arr) :
    Bdd_and fuel L R = Algo.apply fuel L R op_function__and ∧ Bdd_or fuel L R = Algo.apply fuel L R op_function__or ∧
    Bdd_imp fuel L R = Algo.apply fuel L R op_function__imp ∧ Bdd_iff fuel L R = Algo.apply fuel L R op_function__iff ∧
    Bdd_xor fuel L R = Algo.apply fuel L R op_function__xor ∧
    Bdd_and_not fuel L R = Algo.apply fuel L R op_function__and_not := by
  rw [op_function__and_eq, op_function__or_eq, op_function__imp_eq, op_function__iff_eq, op_function__xor_eq,
    op_function__and_not_eq]
  exact ⟨rfl, rfl, rfl, rfl, rfl, rfl⟩

/-! ### `IntoBdd`, `Default` -/

theorem BddVariable_into_bdd_eq (x : Nat) (vs : AlgoEq2VS.VSet) :
    BddVariable_into_bdd x vs = (AlgoEq2VS.toVS vs).mkVar x := rfl
theorem Bdd_into_bdd_eq (A : Arr) (vs : AlgoEq2VS.VSet) : Bdd_into_bdd A vs = A := rfl
theorem macro_bdd__Bdd_into_bdd_eq (A : Arr) (vs : AlgoEq2VS.VSet) : macro_bdd__Bdd_into_bdd A vs = A := rfl
theorem str_into_bdd_eq (s : String) (vs : AlgoEq2VS.VSet) : str_into_bdd s vs = BddVariableSet_mk_var_by_name vs s := rfl
/-- `"name".into_bdd(vars)`: the positive literal of the named variable, panic for an unknown name (the model's
    `mkVarByName`, `AlgoEq2VS.mk_var_by_name_rel`) -/
theorem str_into_bdd_rel (s : String) (vs : AlgoEq2VS.VSet) :
    AlgoEq2Ren.RelK (str_into_bdd s vs) ((AlgoEq2VS.toVS vs).mkVarByName s) := by
  rw [str_into_bdd_eq]; exact AlgoEq2VS.mk_var_by_name_rel vs s
theorem BddVariableSetBuilder_default_eq : BddVariableSetBuilder_default = BddVariableSetBuilder_new := rfl

end B.AlgoEq4
