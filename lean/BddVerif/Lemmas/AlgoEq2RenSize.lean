import BddVerif.Lemmas.AlgoEq2RenBase
/-!
# `Bdd::size_per_variable` (src/_impl_bdd/_impl_util.rs:528) as translated = `B.sizePerVariable`

The Rust function returns a `HashMap<BddVariable, usize>`, the hand model the association list sorted by variable.
`size_per_variable_eq_model`: the call never fails, the map has exactly the model's entries, and its entries sorted by
key (what the driver prints) are the model's list literally.
-/
namespace B.AlgoEq2Ren
open B B.Gen B.AlgoEqUtil B.Count Std
attribute [local instance 10000] Rust.monadOutcomeInline

/-- insert-or-increment, the body of the loop of `size_per_variable` -/
def bumpH (m : HashMap Nat Nat) (x : Nat) : HashMap Nat Nat :=
  match m[x]? with
  | some r => m.insert x (r + 1)
  | none => m.insert x 1

theorem skip_pointers_toList (A : Arr) (hs : A.size ≤ 4294967296) :
    (Rust.skip (Algo.Bdd_pointers A) 2).toList = List.range' 2 (A.size - 2) := by
  rw [pointers_eq A hs]
  unfold Rust.skip
  simp only [Array.toList_extract, Array.toList_range, Array.size_range, List.extract_eq_take_drop]
  rw [List.take_of_length_le (by simp)]
  rw [List.range_eq_range', List.drop_range']

theorem range_map_var (A : Arr) : ∀ (k i : Nat), i + k = A.size →
    (List.range' i k).map (fun p => (A[p]?.getD default).var) = (A.toList.drop i).map (·.var) := by
  intro k
  induction k with
  | zero =>
    intro i h
    rw [List.drop_eq_nil_of_le (by simp; omega)]; rfl
  | succ k ih =>
    intro i h
    have hi : i < A.size := by omega
    have hd : A.toList.drop i = A[i] :: A.toList.drop (i + 1) := by
      rw [List.drop_eq_getElem_cons (by simpa using hi)]; simp
    rw [List.range'_succ, List.map_cons, ih (i + 1) (by omega), hd]
    simp [hi]

theorem size_per_variable_desugar (A : Arr) (hs : A.size ≤ 4294967296) :
    Algo2.Bdd_size_per_variable A = .ok ((decisionVars A).foldl bumpH (HashMap.emptyWithCapacity 8)) := by
  unfold Algo2.Bdd_size_per_variable
  simp only [forIn_array_eq_iterL, skip_pointers_toList A hs]
  rw [iterL_congr _ (fun p (m : HashMap Nat Nat) => Outcome.ok (ForInStep.yield (bumpH m (A[p]?.getD default).var))) _ (by
    intro p hp m
    rw [List.mem_range'_1] at hp
    have hp' : p < A.size := by omega
    rw [var_of_eq]
    simp only [Array.getElem?_eq_getElem hp', bind_ok, Option.getD_some]
    unfold bumpH
    cases m[A[p].var]? <;> rfl)]
  rw [iterL_pure (fun (m : HashMap Nat Nat) (p : Nat) => bumpH m (A[p]?.getD default).var)]
  simp only [bind_ok, pure_eq]
  congr 1
  have hdv : decisionVars A = (List.range' 2 (A.size - 2)).map (fun p => (A[p]?.getD default).var) := by
    unfold decisionVars
    by_cases h2 : 2 ≤ A.size
    · rw [range_map_var A (A.size - 2) 2 (by omega)]
    · have : A.size - 2 = 0 := by omega
      rw [this, List.drop_eq_nil_of_le (by simp; omega)]; rfl
  rw [hdv, List.foldl_map]
  rfl

theorem bumpH_getElem? (m : HashMap Nat Nat) (x y : Nat) :
    (bumpH m x)[y]? = if y = x then some ((m[x]?).getD 0 + 1) else m[y]? := by
  unfold bumpH
  cases h : m[x]? with
  | none =>
    simp only [HashMap.getElem?_insert]
    by_cases e : y = x
    · subst e; simp
    · have : (x == y) = false := by simpa using fun h => e h.symm
      simp [this, e]
  | some r =>
    simp only [HashMap.getElem?_insert]
    by_cases e : y = x
    · subst e; simp
    · have : (x == y) = false := by simpa using fun h => e h.symm
      simp [this, e]

theorem foldl_bumpH_getElem? (y : Nat) : ∀ (xs : List Nat) (m : HashMap Nat Nat),
    (xs.foldl bumpH m)[y]? = if xs.count y = 0 then m[y]? else some ((m[y]?).getD 0 + xs.count y) := by
  intro xs
  induction xs with
  | nil => intro m; simp
  | cons x xs ih =>
    intro m
    rw [List.foldl_cons, ih, bumpH_getElem?, List.count_cons]
    by_cases e : y = x
    · subst e
      simp only [if_true, beq_self_eq_true, Option.getD_some]
      by_cases c : xs.count y = 0
      · simp [c]
      · simp only [c, if_false]
        rw [if_neg (by omega)]
        congr 1; omega
    · have : (x == y) = false := by simpa using fun h => e h.symm
      simp [e, this]

/-- the entries of the model's association list: the positive multiplicities of the decision variables -/
theorem mem_sizePerVariable (A : Arr) (x c : Nat) :
    (x, c) ∈ sizePerVariable A ↔ c = (decisionVars A).count x ∧ 0 < c := by
  have hkeys : (sizePerVariable A).map (·.1) = supportSet A := by
    unfold sizePerVariable supportSet
    rw [foldl_bump_keys]; rfl
  have hsorted : ((sizePerVariable A).map (·.1)).Pairwise (· < ·) := by rw [hkeys]; exact supportSet_sorted A
  have hval : ∀ z, valOf (sizePerVariable A) z = (decisionVars A).count z := by
    intro z
    unfold sizePerVariable
    rw [valOf_foldl]; simp [valOf]
  have hmemdv : ∀ z, z ∈ decisionVars A ↔ z ∈ supportSet A := by
    intro z; rw [mem_supportSet, mem_decisionVars]
  constructor
  · intro h
    have h1 := valOf_of_mem _ hsorted x c h
    rw [hval] at h1
    refine ⟨h1.symm, ?_⟩
    have : x ∈ supportSet A := by rw [← hkeys, List.mem_map]; exact ⟨(x, c), h, rfl⟩
    rw [← hmemdv] at this
    rw [← h1]; exact List.count_pos_iff.mpr this
  · rintro ⟨h1, h2⟩
    have : x ∈ decisionVars A := List.count_pos_iff.mp (by omega)
    rw [hmemdv, ← hkeys, List.mem_map] at this
    obtain ⟨⟨x', c'⟩, hm, hx⟩ := this
    simp only [] at hx
    subst hx
    have := valOf_of_mem _ hsorted x' c' hm
    rw [hval] at this
    rw [h1, this]; exact hm

/-- two association lists with strictly increasing keys and the same entries are equal -/
theorem sorted_ext_pairs : ∀ (l1 l2 : List (Nat × Nat)), (l1.map (·.1)).Pairwise (· < ·) → (l2.map (·.1)).Pairwise (· < ·) →
    (∀ p, p ∈ l1 ↔ p ∈ l2) → l1 = l2 := by
  intro l1
  induction l1 with
  | nil =>
    intro l2 _ _ h
    cases l2 with
    | nil => rfl
    | cons b l2 => exact absurd ((h b).2 List.mem_cons_self) (by simp)
  | cons a l1 ih =>
    intro l2 h1 h2 h
    cases l2 with
    | nil => exact absurd ((h a).1 List.mem_cons_self) (by simp)
    | cons b l2 =>
      simp only [List.map_cons, List.pairwise_cons, List.mem_map, forall_exists_index, and_imp] at h1 h2
      have hab : a = b := by
        have ha := (h a).1 List.mem_cons_self
        have hb := (h b).2 List.mem_cons_self
        rw [List.mem_cons] at ha hb
        rcases ha with ha | ha
        · exact ha
        · rcases hb with hb | hb
          · exact hb.symm
          · have := h1.1 b.1 b hb rfl; have := h2.1 a.1 a ha rfl; omega
      subst hab
      congr 1
      apply ih l2 h1.2 h2.2
      intro x
      constructor
      · intro hx
        have := (h x).1 (List.mem_cons_of_mem _ hx)
        rw [List.mem_cons] at this
        rcases this with e | e
        · have := h1.1 x.1 x hx rfl; rw [e] at this; omega
        · exact e
      · intro hx
        have := (h x).2 (List.mem_cons_of_mem _ hx)
        rw [List.mem_cons] at this
        rcases this with e | e
        · have := h2.1 x.1 x hx rfl; rw [e] at this; omega
        · exact e

/-- **`Bdd::size_per_variable` as translated = `B.sizePerVariable`**: the returned map has exactly the entries of
    the model's association list, and its entries sorted by variable (the driver's / harness' rendering) ARE that
    list. Hypothesis: at most `2^32` nodes (`BddPointer::from_index` truncates) -/
theorem size_per_variable_eq_model (A : Arr) (hs : A.size ≤ 4294967296) :
    ∃ m : HashMap Nat Nat, Algo2.Bdd_size_per_variable A = .ok m ∧
      (∀ x c, m[x]? = some c ↔ (x, c) ∈ sizePerVariable A) ∧
      m.toList.mergeSort (fun a b => decide (a.1 ≤ b.1)) = sizePerVariable A := by
  refine ⟨_, size_per_variable_desugar A hs, ?_, ?_⟩
  · intro x c
    rw [foldl_bumpH_getElem?, mem_sizePerVariable, HashMap.getElem?_emptyWithCapacity]
    by_cases h : (decisionVars A).count x = 0
    · simp [h]
    · simp only [h, if_false, Option.getD_none, Nat.zero_add, Option.some.injEq]
      constructor
      · intro e; omega
      · intro e; omega
  · have hmem : ∀ p : Nat × Nat, p ∈ ((decisionVars A).foldl bumpH (HashMap.emptyWithCapacity 8)).toList ↔
        p ∈ sizePerVariable A := by
      intro p
      obtain ⟨x, c⟩ := p
      rw [HashMap.mem_toList_iff_getElem?_eq_some, foldl_bumpH_getElem?, mem_sizePerVariable,
        HashMap.getElem?_emptyWithCapacity]
      by_cases h : (decisionVars A).count x = 0
      · simp [h]
      · simp only [h, if_false, Option.getD_none, Nat.zero_add, Option.some.injEq]
        constructor
        · intro e; omega
        · intro e; omega
    generalize ((decisionVars A).foldl bumpH (HashMap.emptyWithCapacity 8)) = m at hmem
    have hp := List.mergeSort_perm m.toList (fun a b => decide (a.1 ≤ b.1))
    apply sorted_ext_pairs
    · have hle : (m.toList.mergeSort (fun a b => decide (a.1 ≤ b.1))).Pairwise (fun a b => decide (a.1 ≤ b.1) = true) :=
        List.pairwise_mergeSort (fun a b c h1 h2 => by simp only [decide_eq_true_eq] at *; omega)
          (fun a b => by simp only [Bool.or_eq_true, decide_eq_true_eq]; omega) _
      have hne : (m.toList.mergeSort (fun a b => decide (a.1 ≤ b.1))).Pairwise (fun a b => (a.1 == b.1) = false) :=
        (List.Perm.pairwise_iff (fun {x y} (h : (x.1 == y.1) = false) => by
          simp only [beq_eq_false_iff_ne, ne_eq] at *; exact fun e => h e.symm) hp).2 HashMap.distinct_keys_toList
      rw [List.pairwise_map]
      exact (hle.and hne).imp (fun {a b} ⟨h1, h2⟩ => by
        simp only [decide_eq_true_eq, beq_eq_false_iff_ne, ne_eq] at h1 h2; omega)
    · have hkeys : (sizePerVariable A).map (·.1) = supportSet A := by
        unfold sizePerVariable supportSet
        rw [foldl_bump_keys]; rfl
      rw [hkeys]; exact supportSet_sorted A
    · intro p
      rw [hp.mem_iff, hmem]
end B.AlgoEq2Ren

namespace B.AlgoEq2Ren
open B B.Gen

/-- non-vacuity: `x0 ∧ x2` with a duplicated `x2` node -/
example : ∃ m : Std.HashMap Nat Nat, Algo2.Bdd_size_per_variable
      #[⟨3, 0, 0⟩, ⟨3, 1, 1⟩, ⟨2, 0, 1⟩, ⟨2, 0, 1⟩, ⟨0, 0, 2⟩] = .ok m ∧
    m.toList.mergeSort (fun a b => decide (a.1 ≤ b.1)) = [(0, 1), (2, 2)] := by
  obtain ⟨m, h1, _, h3⟩ := size_per_variable_eq_model #[⟨3, 0, 0⟩, ⟨3, 1, 1⟩, ⟨2, 0, 1⟩, ⟨2, 0, 1⟩, ⟨0, 0, 2⟩] (by decide)
  exact ⟨m, h1, h3.trans (by decide)⟩

end B.AlgoEq2Ren
