import BddVerif.Gen.Algo3
import BddVerif.Model.Expr
import BddVerif.Lemmas.AlgoEqUtilBase
/-!
# Equivalence "translated Rust = hand-written model", third generated file: expressions, part 1

* the structural conversion between the GENERATED `inductive B.Gen.Algo3.BooleanExpression` (translated from
  `src/boolean_expression/mod.rs:21`) and the hand model's `B.Parser.Expr`: `toE`/`ofE`, mutually inverse
  (`toE_ofE`, `ofE_toE`); a name is a `String` on the generated side and a `List Char` on the model side;
* `impl Display for BooleanExpression` (`_impl_boolean_expression.rs:18`, generated `BooleanExpression_fmt`, recursion
  on fuel, the `Formatter` is the string written so far) `=` the hand-written printer `B.Parser.display`:
  `BooleanExpression_fmt_eq_model` for every expression, every accumulator and every `fuel ≥ depth e`; the bound is
  sharp (`BooleanExpression_fmt_fuel_panic`: with less fuel the translated code reports `panic "fuel"`);
* `BooleanExpression::try_from(&str)` is `parse_boolean_expression` (`BooleanExpression_try_from_eq`; the parser
  itself is the subject of `AlgoEq3Parser*`, it is NOT unfolded here).

Every statement refers to the generated definitions by name (`B.Gen.Algo3.<fn>`) and unfolds them.
-/
namespace B.AlgoEq3Expr
open B B.Gen B.Gen.Algo3 B.Parser B.AlgoEqUtil
attribute [local instance 10000] Rust.monadOutcomeInline

/-- the generated expression type -/
abbrev GE := Gen.Algo3.BooleanExpression

/-- generated `BooleanExpression` ↦ the hand model's `Expr` -/
def toE : GE → Expr
  | .Const b => .const b
  | .Variable s => .var s.toList
  | .Not e => .not (toE e)
  | .And l r => .and (toE l) (toE r)
  | .Or l r => .or (toE l) (toE r)
  | .Xor l r => .xor (toE l) (toE r)
  | .Imp l r => .imp (toE l) (toE r)
  | .Iff l r => .iff (toE l) (toE r)
  | .Cond c t e => .cond (toE c) (toE t) (toE e)

/-- the hand model's `Expr` ↦ generated `BooleanExpression` -/
def ofE : Expr → GE
  | .const b => .Const b
  | .var s => .Variable (String.ofList s)
  | .not e => .Not (ofE e)
  | .and l r => .And (ofE l) (ofE r)
  | .or l r => .Or (ofE l) (ofE r)
  | .xor l r => .Xor (ofE l) (ofE r)
  | .imp l r => .Imp (ofE l) (ofE r)
  | .iff l r => .Iff (ofE l) (ofE r)
  | .cond c t e => .Cond (ofE c) (ofE t) (ofE e)

theorem toE_ofE (e : Expr) : toE (ofE e) = e := by
  induction e with
  | const b => rfl
  | var s => simp only [ofE, toE, String.toList_ofList]
  | not e ih => simp only [ofE, toE, ih]
  | and l r ihl ihr => simp only [ofE, toE, ihl, ihr]
  | or l r ihl ihr => simp only [ofE, toE, ihl, ihr]
  | xor l r ihl ihr => simp only [ofE, toE, ihl, ihr]
  | imp l r ihl ihr => simp only [ofE, toE, ihl, ihr]
  | iff l r ihl ihr => simp only [ofE, toE, ihl, ihr]
  | cond c t e ihc iht ihe => simp only [ofE, toE, ihc, iht, ihe]

theorem ofE_toE (g : GE) : ofE (toE g) = g := by
  induction g with
  | Const b => rfl
  | Variable s => simp only [ofE, toE, String.ofList_toList]
  | Not e ih => simp only [ofE, toE, ih]
  | And l r ihl ihr => simp only [ofE, toE, ihl, ihr]
  | Or l r ihl ihr => simp only [ofE, toE, ihl, ihr]
  | Xor l r ihl ihr => simp only [ofE, toE, ihl, ihr]
  | Imp l r ihl ihr => simp only [ofE, toE, ihl, ihr]
  | Iff l r ihl ihr => simp only [ofE, toE, ihl, ihr]
  | Cond c t e ihc iht ihe => simp only [ofE, toE, ihc, iht, ihe]

theorem toE_injective {a b : GE} (h : toE a = toE b) : a = b := by
  rw [← ofE_toE a, ← ofE_toE b, h]

/-- nesting depth of an expression = the recursion depth of the translated printer / evaluator -/
def depth : GE → Nat
  | .Const _ => 1
  | .Variable _ => 1
  | .Not e => depth e + 1
  | .And l r => max (depth l) (depth r) + 1
  | .Or l r => max (depth l) (depth r) + 1
  | .Xor l r => max (depth l) (depth r) + 1
  | .Imp l r => max (depth l) (depth r) + 1
  | .Iff l r => max (depth l) (depth r) + 1
  | .Cond c t e => max (depth c) (max (depth t) (depth e)) + 1

theorem depth_pos (e : GE) : 1 ≤ depth e := by cases e <;> simp [depth]

/-- number of constructors -/
def size : GE → Nat
  | .Const _ => 1
  | .Variable _ => 1
  | .Not e => size e + 1
  | .And l r => size l + size r + 1
  | .Or l r => size l + size r + 1
  | .Xor l r => size l + size r + 1
  | .Imp l r => size l + size r + 1
  | .Iff l r => size l + size r + 1
  | .Cond c t e => size c + size t + size e + 1

theorem depth_le_size (e : GE) : depth e ≤ size e := by
  induction e with
  | Const b => exact Nat.le_refl _
  | Variable s => exact Nat.le_refl _
  | Not e ih => simp only [depth, size]; omega
  | And l r ihl ihr => simp only [depth, size]; omega
  | Or l r ihl ihr => simp only [depth, size]; omega
  | Xor l r ihl ihr => simp only [depth, size]; omega
  | Imp l r ihl ihr => simp only [depth, size]; omega
  | Iff l r ihl ihr => simp only [depth, size]; omega
  | Cond c t e ihc iht ihe => simp only [depth, size]; omega

/-! ## `Display` -/

private theorem out_congr {a b : String} (h : a.toList = b.toList) :
    (Outcome.ok ((Except.ok () : Except Unit Unit), a)) = .ok (.ok (), b) := by
  rw [String.toList_inj.mp h]

/-- **`impl Display for BooleanExpression` as translated = `B.Parser.display`**: for every expression, every
    formatter content `acc` and every `fuel ≥ depth e` the translated `fmt` returns `Ok(())` and has appended exactly
    the characters the hand-written printer produces. -/
theorem BooleanExpression_fmt_eq_model (e : GE) : ∀ (fuel : Nat) (acc : String), depth e ≤ fuel →
    BooleanExpression_fmt fuel e acc = .ok (.ok (), acc ++ String.ofList (display (toE e))) := by
  induction e with
  | Const b =>
    intro fuel acc h
    cases fuel with
    | zero => simp [depth] at h
    | succ fuel =>
      unfold BooleanExpression_fmt
      cases b <;> (simp only [pure_eq]; apply out_congr; simp [toE, display, kwTrue, kwFalse])
  | Variable s =>
    intro fuel acc h
    cases fuel with
    | zero => simp [depth] at h
    | succ fuel =>
      unfold BooleanExpression_fmt
      simp only [pure_eq]; apply out_congr; simp [toE, display]
  | Not e ih =>
    intro fuel acc h
    cases fuel with
    | zero => simp [depth] at h
    | succ fuel =>
      unfold BooleanExpression_fmt
      simp only [depth, Nat.add_le_add_iff_right] at h
      simp only [ih fuel _ h, bind_ok, pure_eq]
      apply out_congr; simp [toE, display]
  | And l r ihl ihr =>
    intro fuel acc h
    cases fuel with
    | zero => simp [depth] at h
    | succ fuel =>
      unfold BooleanExpression_fmt
      simp only [depth, Nat.add_le_add_iff_right, Nat.max_le] at h
      simp only [ihl fuel _ h.1, ihr fuel _ h.2, bind_ok, pure_eq]
      apply out_congr; simp [toE, display]
  | Or l r ihl ihr =>
    intro fuel acc h
    cases fuel with
    | zero => simp [depth] at h
    | succ fuel =>
      unfold BooleanExpression_fmt
      simp only [depth, Nat.add_le_add_iff_right, Nat.max_le] at h
      simp only [ihl fuel _ h.1, ihr fuel _ h.2, bind_ok, pure_eq]
      apply out_congr; simp [toE, display]
  | Xor l r ihl ihr =>
    intro fuel acc h
    cases fuel with
    | zero => simp [depth] at h
    | succ fuel =>
      unfold BooleanExpression_fmt
      simp only [depth, Nat.add_le_add_iff_right, Nat.max_le] at h
      simp only [ihl fuel _ h.1, ihr fuel _ h.2, bind_ok, pure_eq]
      apply out_congr; simp [toE, display]
  | Imp l r ihl ihr =>
    intro fuel acc h
    cases fuel with
    | zero => simp [depth] at h
    | succ fuel =>
      unfold BooleanExpression_fmt
      simp only [depth, Nat.add_le_add_iff_right, Nat.max_le] at h
      simp only [ihl fuel _ h.1, ihr fuel _ h.2, bind_ok, pure_eq]
      apply out_congr; simp [toE, display]
  | Iff l r ihl ihr =>
    intro fuel acc h
    cases fuel with
    | zero => simp [depth] at h
    | succ fuel =>
      unfold BooleanExpression_fmt
      simp only [depth, Nat.add_le_add_iff_right, Nat.max_le] at h
      simp only [ihl fuel _ h.1, ihr fuel _ h.2, bind_ok, pure_eq]
      apply out_congr; simp [toE, display]
  | Cond c t e ihc iht ihe =>
    intro fuel acc h
    cases fuel with
    | zero => simp [depth] at h
    | succ fuel =>
      unfold BooleanExpression_fmt
      simp only [depth, Nat.add_le_add_iff_right, Nat.max_le] at h
      simp only [ihc fuel _ h.1, iht fuel _ h.2.1, ihe fuel _ h.2.2, bind_ok, pure_eq]
      apply out_congr; simp [toE, display]

/-- `format!("{}", e)`: the printer started on the empty formatter -/
theorem BooleanExpression_to_string_eq_model (e : GE) (fuel : Nat) (h : depth e ≤ fuel) :
    BooleanExpression_fmt fuel e "" = .ok (.ok (), String.ofList (display (toE e))) := by
  rw [BooleanExpression_fmt_eq_model e fuel "" h]
  apply out_congr; simp

/-- in terms of the model's expressions: printing the translation of `e` yields `display e` -/
theorem BooleanExpression_fmt_ofE (e : Expr) (fuel : Nat) (acc : String) (h : depth (ofE e) ≤ fuel) :
    BooleanExpression_fmt fuel (ofE e) acc = .ok (.ok (), acc ++ String.ofList (display e)) := by
  rw [BooleanExpression_fmt_eq_model (ofE e) fuel acc h, toE_ofE]

/-- the fuel bound `depth e` is sharp: with less fuel the translated printer ends in `panic "fuel"` -/
theorem BooleanExpression_fmt_fuel_panic (e : GE) : ∀ (fuel : Nat) (acc : String), fuel < depth e →
    BooleanExpression_fmt fuel e acc = .panic "fuel" := by
  have two : ∀ (l r : GE) (fuel : Nat), fuel < max (depth l) (depth r) → fuel < depth l ∨ (depth l ≤ fuel ∧ fuel < depth r) := by
    intro l r fuel h; omega
  induction e with
  | Const b => intro fuel acc h; cases fuel with
    | zero => rfl
    | succ fuel => simp [depth] at h
  | Variable s => intro fuel acc h; cases fuel with
    | zero => rfl
    | succ fuel => simp [depth] at h
  | Not e ih =>
    intro fuel acc h
    cases fuel with
    | zero => rfl
    | succ fuel =>
      unfold BooleanExpression_fmt
      simp only [depth, Nat.add_lt_add_iff_right] at h
      simp only [ih fuel _ h, bind_panic]
  | And l r ihl ihr =>
    intro fuel acc h
    cases fuel with
    | zero => rfl
    | succ fuel =>
      unfold BooleanExpression_fmt
      simp only [depth, Nat.add_lt_add_iff_right] at h
      rcases two l r fuel h with h1 | ⟨h1, h2⟩
      · simp only [ihl fuel _ h1, bind_panic]
      · simp only [BooleanExpression_fmt_eq_model l fuel _ h1, ihr fuel _ h2, bind_ok, bind_panic]
  | Or l r ihl ihr =>
    intro fuel acc h
    cases fuel with
    | zero => rfl
    | succ fuel =>
      unfold BooleanExpression_fmt
      simp only [depth, Nat.add_lt_add_iff_right] at h
      rcases two l r fuel h with h1 | ⟨h1, h2⟩
      · simp only [ihl fuel _ h1, bind_panic]
      · simp only [BooleanExpression_fmt_eq_model l fuel _ h1, ihr fuel _ h2, bind_ok, bind_panic]
  | Xor l r ihl ihr =>
    intro fuel acc h
    cases fuel with
    | zero => rfl
    | succ fuel =>
      unfold BooleanExpression_fmt
      simp only [depth, Nat.add_lt_add_iff_right] at h
      rcases two l r fuel h with h1 | ⟨h1, h2⟩
      · simp only [ihl fuel _ h1, bind_panic]
      · simp only [BooleanExpression_fmt_eq_model l fuel _ h1, ihr fuel _ h2, bind_ok, bind_panic]
  | Imp l r ihl ihr =>
    intro fuel acc h
    cases fuel with
    | zero => rfl
    | succ fuel =>
      unfold BooleanExpression_fmt
      simp only [depth, Nat.add_lt_add_iff_right] at h
      rcases two l r fuel h with h1 | ⟨h1, h2⟩
      · simp only [ihl fuel _ h1, bind_panic]
      · simp only [BooleanExpression_fmt_eq_model l fuel _ h1, ihr fuel _ h2, bind_ok, bind_panic]
  | Iff l r ihl ihr =>
    intro fuel acc h
    cases fuel with
    | zero => rfl
    | succ fuel =>
      unfold BooleanExpression_fmt
      simp only [depth, Nat.add_lt_add_iff_right] at h
      rcases two l r fuel h with h1 | ⟨h1, h2⟩
      · simp only [ihl fuel _ h1, bind_panic]
      · simp only [BooleanExpression_fmt_eq_model l fuel _ h1, ihr fuel _ h2, bind_ok, bind_panic]
  | Cond c t e ihc iht ihe =>
    intro fuel acc h
    cases fuel with
    | zero => rfl
    | succ fuel =>
      unfold BooleanExpression_fmt
      simp only [depth, Nat.add_lt_add_iff_right] at h
      have three : fuel < depth c ∨ (depth c ≤ fuel ∧ fuel < depth t) ∨
          (depth c ≤ fuel ∧ depth t ≤ fuel ∧ fuel < depth e) := by omega
      rcases three with h1 | ⟨h1, h2⟩ | ⟨h1, h2, h3⟩
      · simp only [ihc fuel _ h1, bind_panic]
      · simp only [BooleanExpression_fmt_eq_model c fuel _ h1, iht fuel _ h2, bind_ok, bind_panic]
      · simp only [BooleanExpression_fmt_eq_model c fuel _ h1, BooleanExpression_fmt_eq_model t fuel _ h2,
          ihe fuel _ h3, bind_ok, bind_panic]

/-! ## `TryFrom<&str>` -/

/-- **`BooleanExpression::try_from(value)` as translated is `parse_boolean_expression(value)`** (same fuel, same
    outcome: `Ok`, `Err(message)` or panic). The parser is not unfolded: composing with the parser equivalence
    (`AlgoEq3Parser*`) gives `= B.Parser.parse`. -/
theorem BooleanExpression_try_from_eq (fuel : Nat) (value : String) :
    BooleanExpression_try_from fuel value = parse_boolean_expression fuel value := by
  unfold BooleanExpression_try_from
  cases parse_boolean_expression fuel value <;> rfl

/-! ## non-vacuity -/

/-- `(a & !b) ? true : (c <=> d)` through the GENERATED printer (depth 4, fuel 4), by the theorem … -/
example : BooleanExpression_fmt 4
    (.Cond (.And (.Variable "a") (.Not (.Variable "b"))) (.Const true) (.Iff (.Variable "c") (.Variable "d"))) "> " =
    .ok (.ok (), "> ((a & !b) ? true : (c <=> d))") :=
  (BooleanExpression_fmt_eq_model _ 4 "> " (by decide)).trans (by apply out_congr; decide)

/-- … and with fuel 3 the translated printer gives up -/
example : BooleanExpression_fmt 3
    (.Cond (.And (.Variable "a") (.Not (.Variable "b"))) (.Const true) (.Iff (.Variable "c") (.Variable "d"))) "> " =
    .panic "fuel" :=
  BooleanExpression_fmt_fuel_panic _ 3 "> " (by decide)

end B.AlgoEq3Expr
