import BddVerif.Lemmas.AlgoEq3TextRead
/-!
# Text serialisation, translated code = hand model: the calls the replay driver makes, the domain boundary, examples

`Drive/Algo3.lean` calls (no fuel is involved: the translated text functions contain no `while`/`loop`)
* `Bdd_write_as_string A { script := script }` (`C12.wtext`) — `Bdd_write_as_string_driver`;
* `Bdd_read_as_string { data := bytes, script := script, plan := plan }` (`C12.rtext`) — `Bdd_read_as_string_driver`;
* `Bdd_read_as_string (Reader.ofSlice bytes)` (`C13.text`) — `Bdd_read_as_string_slice`;
* `Bdd_fmt A ""`, `Bdd_from_string s` (`C12.mem`) — `Bdd_to_string_eq_model`, `Bdd_from_string_eq_model`.
-/
namespace B.AlgoEq3Text
open B B.Gen B.AlgoEqUtil B.AlgoEq2Bytes
attribute [local instance 10000] Rust.monadOutcomeInline

/-- `C12.wtext`: a fresh writer with the given script. `w'.sp` (what the driver prints as "consumed") is the number
    of script entries the model consumed -/
theorem Bdd_write_as_string_driver (A : Arr) (script : List Rust.IoEv) :
    ∃ (res : Except Rust.IoError Unit) (w' : Rust.Writer),
      Algo3.Bdd_write_as_string A { script := script } = .ok (res, w') ∧
      RelWrite res (Serial.writeTextIO A (script.map evOf)).1 ∧
      w'.out = ((Serial.writeTextIO A (script.map evOf)).2.1.map UInt8.toNat).toArray ∧
      w'.sp + (Serial.writeTextIO A (script.map evOf)).2.2.length = script.length := by
  obtain ⟨res, w', h0, h1, h2, h3, h4⟩ := Bdd_write_as_string_eq_model A { script := script }
  refine ⟨res, w', h0, h1, by simpa using h2, ?_⟩
  rw [← h3, List.length_map]
  simpa using h4

/-- `C12.rtext`: a fresh reader over bytes with the given script and plan -/
theorem Bdd_read_as_string_driver (bytes : List Nat) (hb : ∀ b ∈ bytes, b < 256) (script : List Rust.IoEv)
    (plan : List Nat) :
    ∃ (res : Except String Arr) (r' : Rust.Reader),
      Algo3.Bdd_read_as_string { data := bytes, script := script, plan := plan } = .ok (res, r') ∧
      RelText res (Serial.readTextIO ⟨bytes.map byteOf, script.map evOf⟩ plan).1 ∧
      r'.sp + (Serial.readTextIO ⟨bytes.map byteOf, script.map evOf⟩ plan).2.script.length = script.length := by
  obtain ⟨res, r', h0, h1, h2, h3⟩ :=
    Bdd_read_as_string_eq_model { data := bytes, script := script, plan := plan } hb
  refine ⟨res, r', h0, h1, ?_⟩
  have : (rdOf r').script.length = r'.script.length := rdOf_script_length r'
  rw [h2] at this
  change (Serial.readTextIO ⟨bytes.map byteOf, script.map evOf⟩ plan).2.script.length = _ at this
  rw [this]
  simpa using h3

/-- the model's reader over a byte vector without script delivers everything -/
theorem readTextIO_plain (data : List UInt8) : (Serial.readTextIO ⟨data, []⟩ []).1 = Serial.readText data := by
  unfold Serial.readTextIO
  rw [sReadToEnd_plain _ _ [] (Nat.le_refl _)]
  rfl

/-- `C13.text`: `read_as_string(&mut bytes)` on ARBITRARY bytes = `Serial.readText` (the function the C13 theorems
    `read_text_total`, `face_value`, `accepted_fields_fit` are about) -/
theorem Bdd_read_as_string_slice (bytes : Array Nat) (hb : ∀ b ∈ bytes.toList, b < 256) :
    ∃ (res : Except String Arr) (r' : Rust.Reader),
      Algo3.Bdd_read_as_string (Rust.Reader.ofSlice bytes) = .ok (res, r') ∧
      RelText res (Serial.readText (bytes.toList.map byteOf)) := by
  obtain ⟨res, r', h0, h1, _, _⟩ := Bdd_read_as_string_eq_model (Rust.Reader.ofSlice bytes) hb
  refine ⟨res, r', h0, ?_⟩
  have : (Serial.readTextIO (rdOf (Rust.Reader.ofSlice bytes)) (Rust.Reader.ofSlice bytes).plan).1 =
      Serial.readText (bytes.toList.map byteOf) := readTextIO_plain _
  rw [this] at h1; exact h1

/-! ### the boundary of the domain: "bytes" that are not bytes

The shim represents a byte by a `Nat`, the model by a `UInt8`; the representation map `rdOf` reduces modulo 256.
On a reader that holds the "byte" 380 = 256 + '|' the shim's UTF-8 decoder rejects the input, while the model sees
`|` (an empty Bdd). No Rust `Read` can produce such a value; the hypothesis `∀ b ∈ r.data, b < 256` of
`Bdd_read_as_string_eq_model` excludes exactly this. (The byte codecs of `AlgoEq2Bytes` need no such hypothesis because
`from_le_bytes` of the shim reduces modulo 256 itself.) -/
theorem nat_byte_artifact :
    (∃ r', Algo3.Bdd_read_as_string { data := [380], script := [] } = .ok (.error "io error", r')) ∧
    (Serial.readTextIO (rdOf { data := [380], script := [] }) []).1 = .ok #[] := by
  constructor
  · rw [read_as_string_desugar]; exact ⟨_, rfl⟩
  · have : rdOf { data := [380], script := [] } = ⟨[124], []⟩ := rfl
    rw [this, readTextIO_plain]
    unfold Serial.readText Serial.utf8Decode
    rw [← utf8Dec_eq]; rfl

/-! ### non-vacuity: concrete runs of the GENERATED functions (through the theorems; `rfl` on the model side) -/

def exT : Arr := #[⟨3, 0, 0⟩, ⟨3, 1, 1⟩, ⟨1, 0, 1⟩]

theorem exT_text : Serial.writeText exT = "|3,0,0|3,1,1|1,0,1|".toList := by
  simp [exT, Serial.writeText, Serial.textPieces, Serial.nodePieces, Serial.showNat_lt, Serial.digitChar]

example : Algo3.Bdd_fmt exT "x" = .ok (.ok (), "x|3,0,0|3,1,1|1,0,1|") := by
  rw [Bdd_fmt_eq_model, exT_text, String.ofList_toList]; rfl

example : Algo3.Bdd_from_string "| 3,0,0|3,1,1|\n+1,0,1|" = .ok exT := Bdd_from_string_ok _ _ rfl
/-- non-numeric field, overflowing `u16`, wrong field count, a sign without digits: the panic of `expect` -/
example : ∃ m, Algo3.Bdd_from_string "|3,0,0|3,1,1|1,x,1|" = .panic m := Bdd_from_string_panics _ _ rfl
example : ∃ m, Algo3.Bdd_from_string "|3,0,0|3,1,1|65536,0,1|" = .panic m := Bdd_from_string_panics _ _ rfl
example : ∃ m, Algo3.Bdd_from_string "|3,0,0|3,1|" = .panic m := Bdd_from_string_panics _ _ rfl
example : ∃ m, Algo3.Bdd_from_string "|3,0,0|3,1,1|-,0,1|" = .panic m := Bdd_from_string_panics _ _ rfl
example : Algo3.Bdd_from_string "" = .ok #[] := Bdd_from_string_ok _ _ rfl
example : Algo3.Bdd_from_string "|65535,4294967295,0|" = .ok #[⟨65535, 4294967295, 0⟩] := Bdd_from_string_ok _ _ rfl

/-- invalid UTF-8 (a lone continuation byte) is an `Err`, not a panic -/
example : ∃ r', Algo3.Bdd_read_as_string (Rust.Reader.ofSlice #[0x80]) = .ok (.error "io error", r') := by
  obtain ⟨res, r', h0, h1⟩ := Bdd_read_as_string_slice #[0x80] (by decide)
  have : Serial.readText ([0x80].map byteOf) = .err "stream did not contain valid UTF-8" := by
    unfold Serial.readText
    have : Serial.utf8Decode ([0x80].map byteOf) = none := by
      unfold Serial.utf8Decode; rw [← utf8Dec_eq]; rfl
    rw [this]
  rw [show (#[0x80] : Array Nat).toList = [0x80] from rfl] at h1
  have key : ∀ m, RelText res m → m = .err "stream did not contain valid UTF-8" → res = .error "io error" := by
    intro m h hm
    cases h <;> first | rfl | (simp at hm)
  rw [key _ h1 this] at h0
  exact ⟨r', h0⟩

/-- a scripted hard error while writing: `Err`, and the sink holds a prefix -/
example : ∃ (e : Rust.IoError) (w' : Rust.Writer),
    Algo3.Bdd_write_as_string exT { script := [.give 3, .fail] } = .ok (.error e, w') := by
  rw [write_as_string_desugar]; exact ⟨_, _, rfl⟩

example : ∃ w' : Rust.Writer, Algo3.Bdd_write_as_string exT { script := [.give 3, .interrupted, .give 1] } = .ok (.ok (), w') ∧
    w'.out = (textCodes exT).toArray := by
  obtain ⟨w', h1, h2⟩ := Bdd_write_as_string_accepting exT { script := [.give 3, .interrupted, .give 1] } (by
    intro e he
    simp only [List.map_cons, List.map_nil, evOf, List.mem_cons, List.not_mem_nil, or_false] at he
    rcases he with rfl | rfl | rfl <;> simp)
  exact ⟨w', h1, by simpa using h2⟩

end B.AlgoEq3Text
