import BddVerif.Lemmas.SelectWalk
/-!
C11, `necessary_clause`, part one: what each of the three passes and the final assembly compute
(loop invariants over the model's `foldlM` loops).
-/
namespace B.Select
open B

/-! ### generic loop lemma -/

/-- invariant `Q` indexed by the processed prefix -/
theorem foldlM_prefix {σ α : Type} (f : σ → α → Option σ) (Q : List α → σ → Prop) :
    ∀ (l pre : List α) (s : σ), Q pre s →
      (∀ pre' a s, a ∈ l → Q pre' s → ∃ s', f s a = some s' ∧ Q (pre' ++ [a]) s') →
      ∃ s', l.foldlM f s = some s' ∧ Q (pre ++ l) s' := by
  intro l
  induction l with
  | nil => intro pre s h0 _; exact ⟨s, rfl, by simpa using h0⟩
  | cons a l ih =>
    intro pre s h0 hstep
    obtain ⟨s1, hs1, hq1⟩ := hstep pre a s (List.mem_cons_self ..) h0
    obtain ⟨s', hs', hq'⟩ := ih (pre ++ [a]) s1 hq1 (fun pre' b s hb hq => hstep pre' b s (List.mem_cons_of_mem _ hb) hq)
    refine ⟨s', ?_, by simpa using hq'⟩
    rw [List.foldlM_cons, hs1]
    exact hs'

/-! ### marking -/

/-- position `k` of the Boolean array is set -/
def mk (s : Array Bool) (k : Nat) : Prop := s[k]? = some true

instance (s : Array Bool) (k : Nat) : Decidable (mk s k) := by unfold mk; infer_instance

theorem mk_lt {s : Array Bool} {k : Nat} (h : mk s k) : k < s.size := by
  unfold mk at h
  rcases Nat.lt_or_ge k s.size with h' | h'
  · exact h'
  · simp [Array.getElem?_eq_none h'] at h

theorem not_mk_iff {s : Array Bool} {k : Nat} (hk : k < s.size) : ¬ mk s k ↔ s[k]? = some false := by
  unfold mk
  have : s[k]? = some s[k] := by simp [hk]
  rw [this]
  cases s[k] <;> simp

theorem setTrue_spec {s : Array Bool} {i : Nat} (hi : i < s.size) :
    ∃ s', setTrue s i = some s' ∧ s'.size = s.size ∧ ∀ k, mk s' k ↔ (mk s k ∨ k = i) := by
  refine ⟨s.setIfInBounds i true, by simp [setTrue, hi], by simp, ?_⟩
  intro k
  unfold mk
  rw [Array.getElem?_setIfInBounds]
  by_cases hk : i = k
  · subst hk; simp [hi]
  · have : ¬ k = i := fun e => hk e.symm
    simp [hk, this]

theorem markLoop_spec : ∀ (cnt lo : Nat) (s : Array Bool), lo + cnt ≤ s.size →
    ∃ s', (List.range' lo cnt).foldlM setTrue s = some s' ∧ s'.size = s.size ∧
      ∀ k, mk s' k ↔ (mk s k ∨ (lo ≤ k ∧ k < lo + cnt)) := by
  intro cnt
  induction cnt with
  | zero =>
    intro lo s _
    refine ⟨s, rfl, rfl, ?_⟩
    intro k; constructor
    · intro h; exact Or.inl h
    · rintro (h | h)
      · exact h
      · omega
  | succ cnt ih =>
    intro lo s hle
    obtain ⟨s1, hs1, hsz1, hm1⟩ := setTrue_spec (s := s) (i := lo) (by omega)
    obtain ⟨s', hs', hsz', hm'⟩ := ih (lo + 1) s1 (by omega)
    refine ⟨s', ?_, by omega, ?_⟩
    · rw [List.range'_succ, List.foldlM_cons, hs1]; exact hs'
    · intro k
      rw [hm', hm1]
      constructor
      · rintro ((h | h) | h)
        · exact Or.inl h
        · exact Or.inr (by omega)
        · exact Or.inr (by omega)
      · rintro (h | h)
        · exact Or.inl (Or.inl h)
        · by_cases hk : k = lo
          · exact Or.inl (Or.inr hk)
          · exact Or.inr (by omega)

theorem markRange_spec {s : Array Bool} {lo hi : Nat} (h : hi ≤ s.size) :
    ∃ s', markRange s lo hi = some s' ∧ s'.size = s.size ∧ ∀ k, mk s' k ↔ (mk s k ∨ (lo ≤ k ∧ k < hi)) := by
  by_cases hlh : lo ≤ hi
  · obtain ⟨s', hs', hsz, hm⟩ := markLoop_spec (hi - lo) lo s (by omega)
    refine ⟨s', hs', hsz, ?_⟩
    intro k; rw [hm k]
    have : lo + (hi - lo) = hi := by omega
    rw [this]
  · refine ⟨s, ?_, rfl, ?_⟩
    · have : hi - lo = 0 := by omega
      simp [markRange, this]
    · intro k; constructor
      · intro h; exact Or.inl h
      · rintro (h | h)
        · exact h
        · omega

/-! ### the three passes -/

theorem mem_ids {A : Arr} {q : Nat} : q ∈ ids A ↔ 2 ≤ q ∧ q < A.size := by
  unfold ids
  rw [List.mem_range'_1]
  omega

/-- both links of the node are non-zero -/
def BothNZ (nd : Node) : Prop := nd.low ≠ 0 ∧ nd.high ≠ 0

theorem pass1_spec {A : Arr} {n : Nat} (h : Can A n) (any0 : Array Bool) (hsz : any0.size = n) :
    ∃ any1, pass1 A any0 = some any1 ∧ any1.size = n ∧
      ∀ k, mk any1 k ↔ (mk any0 k ∨ ∃ q nd, 2 ≤ q ∧ A[q]? = some nd ∧ BothNZ nd ∧ nd.var = k) := by
  have := foldlM_prefix
    (fun (s : Array Bool) id => (A[id]?).bind fun nd =>
      if !(nd.low == 0 || nd.high == 0) then setTrue s nd.var else some s)
    (fun pre s => s.size = n ∧ ∀ k, mk s k ↔ (mk any0 k ∨ ∃ q ∈ pre, ∃ nd, A[q]? = some nd ∧ BothNZ nd ∧ nd.var = k))
    (ids A) [] any0 ⟨hsz, by intro k; simp⟩
    (by
      intro pre q s hq ⟨hs, hm⟩
      obtain ⟨hq2, hqs⟩ := mem_ids.mp hq
      obtain ⟨nd, hnd⟩ : ∃ nd, A[q]? = some nd := ⟨A[q], by simp [hqs]⟩
      obtain ⟨hv, _⟩ := h.node hq2 hnd
      by_cases hb : BothNZ nd
      · obtain ⟨s', hs', hsz', hm'⟩ := setTrue_spec (s := s) (i := nd.var) (by omega)
        refine ⟨s', by simp [hnd, hb.1, hb.2, hs'], by omega, ?_⟩
        intro k
        rw [hm' k, hm k]
        constructor
        · rintro ((h1 | ⟨q', hq', nd', h2⟩) | h1)
          · exact Or.inl h1
          · exact Or.inr ⟨q', by simp [hq'], nd', h2⟩
          · exact Or.inr ⟨q, by simp, nd, hnd, hb, h1.symm⟩
        · rintro (h1 | ⟨q', hq', nd', h2, h3, h4⟩)
          · exact Or.inl (Or.inl h1)
          · rcases List.mem_append.mp hq' with h5 | h5
            · exact Or.inl (Or.inr ⟨q', h5, nd', h2, h3, h4⟩)
            · simp at h5; subst h5
              rw [hnd] at h2; cases h2
              exact Or.inr h4.symm
      · refine ⟨s, ?_, hs, ?_⟩
        · have : (!(nd.low == 0 || nd.high == 0)) = false := by
            unfold BothNZ at hb
            by_cases h1 : nd.low = 0 <;> by_cases h2 : nd.high = 0 <;> simp_all
          simp only [hnd, Option.bind_some, this]
          rfl
        · intro k
          rw [hm k]
          constructor
          · rintro (h1 | ⟨q', hq', nd', h2⟩)
            · exact Or.inl h1
            · exact Or.inr ⟨q', by simp [hq'], nd', h2⟩
          · rintro (h1 | ⟨q', hq', nd', h2, h3, h4⟩)
            · exact Or.inl h1
            · rcases List.mem_append.mp hq' with h5 | h5
              · exact Or.inr ⟨q', h5, nd', h2, h3, h4⟩
              · simp at h5; subst h5
                rw [hnd] at h2; cases h2
                exact absurd h3 hb)
  obtain ⟨any1, h1, h2, h3⟩ := this
  refine ⟨any1, h1, h2, ?_⟩
  intro k
  rw [h3 k]
  constructor
  · rintro (h4 | ⟨q, hq, nd, h5⟩)
    · exact Or.inl h4
    · exact Or.inr ⟨q, nd, (mem_ids.mp (by simpa using hq)).1, h5⟩
  · rintro (h4 | ⟨q, nd, hq2, hnd, h5⟩)
    · exact Or.inl h4
    · exact Or.inr ⟨q, by simpa using mem_ids.mpr ⟨hq2, getElem?_lt hnd⟩, nd, hnd, h5⟩

/-- the range of variables that pass two marks for a node -/
def rangeOf (A : Arr) (n : Nat) (nd : Node) : Nat × Nat :=
  if nd.high = 0 then (nd.var + 1, varOf A n nd.low)
  else if nd.low = 0 then (nd.var + 1, varOf A n nd.high)
  else (nd.var, max (varOf A n nd.high) (varOf A n nd.low))

def InRange (k : Nat) (r : Nat × Nat) : Prop := r.1 ≤ k ∧ k < r.2

/-- some decision node's range contains `k` -/
def InSome (A : Arr) (n : Nat) (k : Nat) : Prop :=
  ∃ q nd, 2 ≤ q ∧ A[q]? = some nd ∧ InRange k (rangeOf A n nd)

theorem rangeOf_le {A : Arr} {n : Nat} (h : Can A n) (nd : Node) : (rangeOf A n nd).2 ≤ n := by
  have h1 := varOf_le h.red nd.low
  have h2 := varOf_le h.red nd.high
  unfold rangeOf
  split
  · exact h1
  · split
    · exact h2
    · simp only; omega

/-- one unfolding of the inner loop of pass two at a decision node -/
theorem pass2Inner_cons {A : Arr} {n : Nat} (h : Can A n) (x id : Nat) (rest : List Nat) (s : Array Bool)
    {nd : Node} (hid2 : 2 ≤ id) (hnd : A[id]? = some nd) :
    pass2Inner A x (id :: rest) s =
      if nd.high = 0 then
        (if nd.var + 1 ≤ x ∧ x < varOf A n nd.low then markRange s (nd.var + 1) (varOf A n nd.low)
         else pass2Inner A x rest s)
      else if nd.low = 0 then
        (if nd.var + 1 ≤ x ∧ x < varOf A n nd.high then markRange s (nd.var + 1) (varOf A n nd.high)
         else pass2Inner A x rest s)
      else
        (setTrue s nd.var).bind fun s1 =>
          if nd.var ≤ x ∧ x < max (varOf A n nd.high) (varOf A n nd.low) then
            markRange s1 nd.var (max (varOf A n nd.high) (varOf A n nd.low))
          else pass2Inner A x rest s1 := by
  obtain ⟨hv, hlo, hhi, hne, hvl, hvh, _⟩ := h.node hid2 hnd
  obtain ⟨hn, hhn⟩ : ∃ hn, A[nd.high]? = some hn := ⟨A[nd.high]'(by omega), by simp⟩
  obtain ⟨ln, hln⟩ : ∃ ln, A[nd.low]? = some ln := ⟨A[nd.low]'(by omega), by simp⟩
  have ehn : hn.var = varOf A n nd.high := h.var_eq hhn
  have eln : ln.var = varOf A n nd.low := h.var_eq hln
  simp only [pass2Inner, hnd, hhn, hln, ehn, eln]
  by_cases hh0 : nd.high = 0
  · simp only [hh0, if_true]
  · by_cases hl0 : nd.low = 0
    · simp only [hh0, hl0, if_true, if_false]
    · simp only [hh0, hl0, if_false]
      cases setTrue s nd.var <;> rfl

theorem pass2Inner_spec {A : Arr} {n : Nat} (h : Can A n) (x : Nat) :
    ∀ (l : List Nat) (s : Array Bool), (∀ id ∈ l, 2 ≤ id ∧ id < A.size) → s.size = n →
      ∃ s', pass2Inner A x l s = some s' ∧ s'.size = n ∧ (∀ k, mk s k → mk s' k) ∧
        (∀ k, mk s' k → mk s k ∨ InSome A n k) ∧
        ((∃ id ∈ l, ∃ nd, A[id]? = some nd ∧ InRange x (rangeOf A n nd)) → mk s' x) := by
  intro l
  induction l with
  | nil =>
    intro s _ hs
    exact ⟨s, rfl, hs, fun _ hk => hk, fun _ hk => Or.inl hk, by rintro ⟨id, hid, _⟩; cases hid⟩
  | cons id rest ih =>
    intro s hl hs
    obtain ⟨hid2, hids⟩ := hl id (List.mem_cons_self ..)
    have hl' : ∀ id' ∈ rest, 2 ≤ id' ∧ id' < A.size := fun id' hm => hl id' (List.mem_cons_of_mem _ hm)
    obtain ⟨nd, hnd⟩ : ∃ nd, A[id]? = some nd := ⟨A[id], by simp [hids]⟩
    obtain ⟨hv, hlo, hhi, hne, hvl, hvh, _⟩ := h.node hid2 hnd
    obtain ⟨hn, hhn⟩ : ∃ hn, A[nd.high]? = some hn := ⟨A[nd.high]'(by omega), by simp⟩
    obtain ⟨ln, hln⟩ : ∃ ln, A[nd.low]? = some ln := ⟨A[nd.low]'(by omega), by simp⟩
    have ehn : hn.var = varOf A n nd.high := h.var_eq hhn
    have eln : ln.var = varOf A n nd.low := h.var_eq hln
    have hrle := rangeOf_le h nd
    -- common tail: the node's range does not contain `x`, continue with the rest
    have cont : ∀ s1 : Array Bool, s1.size = n → (∀ k, mk s k → mk s1 k) → (∀ k, mk s1 k → mk s k ∨ InSome A n k) →
        ¬ InRange x (rangeOf A n nd) →
        ∃ s', pass2Inner A x rest s1 = some s' ∧ s'.size = n ∧ (∀ k, mk s k → mk s' k) ∧
          (∀ k, mk s' k → mk s k ∨ InSome A n k) ∧
          ((∃ id' ∈ id :: rest, ∃ nd', A[id']? = some nd' ∧ InRange x (rangeOf A n nd')) → mk s' x) := by
      intro s1 hs1 hmono hsrc hnot
      obtain ⟨s', h1, h2, h3, h4, h5⟩ := ih s1 hl' hs1
      refine ⟨s', h1, h2, fun k hk => h3 k (hmono k hk), ?_, ?_⟩
      · intro k hk
        rcases h4 k hk with h6 | h6
        · exact hsrc k h6
        · exact Or.inr h6
      · rintro ⟨id', hm, nd', hnd', hin⟩
        rcases List.mem_cons.mp hm with rfl | hm'
        · rw [hnd] at hnd'; cases hnd'; exact absurd hin hnot
        · exact h5 ⟨id', hm', nd', hnd', hin⟩
    -- common head: the node's range contains `x`, mark it and stop
    have stop : ∀ s1 : Array Bool, s1.size = n → (∀ k, mk s k → mk s1 k) → (∀ k, mk s1 k → mk s k ∨ InSome A n k) →
        InRange x (rangeOf A n nd) →
        ∃ s', markRange s1 (rangeOf A n nd).1 (rangeOf A n nd).2 = some s' ∧ s'.size = n ∧ (∀ k, mk s k → mk s' k) ∧
          (∀ k, mk s' k → mk s k ∨ InSome A n k) ∧
          ((∃ id' ∈ id :: rest, ∃ nd', A[id']? = some nd' ∧ InRange x (rangeOf A n nd')) → mk s' x) := by
      intro s1 hs1 hmono hsrc hin
      obtain ⟨s', h1, h2, h3⟩ := markRange_spec (s := s1) (lo := (rangeOf A n nd).1) (hi := (rangeOf A n nd).2) (by omega)
      refine ⟨s', h1, by omega, fun k hk => (h3 k).mpr (Or.inl (hmono k hk)), ?_, fun _ => (h3 x).mpr (Or.inr hin)⟩
      intro k hk
      rcases (h3 k).mp hk with h6 | h6
      · exact hsrc k h6
      · exact Or.inr ⟨id, nd, hid2, hnd, h6⟩
    rw [pass2Inner_cons h x id rest s hid2 hnd]
    by_cases hh0 : nd.high = 0
    · have hr : rangeOf A n nd = (nd.var + 1, varOf A n nd.low) := by simp [rangeOf, hh0]
      rw [if_pos hh0]
      by_cases hin : InRange x (rangeOf A n nd)
      · obtain ⟨s', h1, rest'⟩ := stop s hs (fun _ hk => hk) (fun _ hk => Or.inl hk) hin
        refine ⟨s', ?_, rest'⟩
        rw [hr] at h1 hin
        have hin' : nd.var + 1 ≤ x ∧ x < varOf A n nd.low := hin
        rw [if_pos hin']; exact h1
      · obtain ⟨s', h1, rest'⟩ := cont s hs (fun _ hk => hk) (fun _ hk => Or.inl hk) hin
        refine ⟨s', ?_, rest'⟩
        rw [hr] at hin
        have hin' : ¬ (nd.var + 1 ≤ x ∧ x < varOf A n nd.low) := hin
        rw [if_neg hin']; exact h1
    · rw [if_neg hh0]
      by_cases hl0 : nd.low = 0
      · have hr : rangeOf A n nd = (nd.var + 1, varOf A n nd.high) := by simp [rangeOf, hh0, hl0]
        rw [if_pos hl0]
        by_cases hin : InRange x (rangeOf A n nd)
        · obtain ⟨s', h1, rest'⟩ := stop s hs (fun _ hk => hk) (fun _ hk => Or.inl hk) hin
          refine ⟨s', ?_, rest'⟩
          rw [hr] at h1 hin
          have hin' : nd.var + 1 ≤ x ∧ x < varOf A n nd.high := hin
          rw [if_pos hin']; exact h1
        · obtain ⟨s', h1, rest'⟩ := cont s hs (fun _ hk => hk) (fun _ hk => Or.inl hk) hin
          refine ⟨s', ?_, rest'⟩
          rw [hr] at hin
          have hin' : ¬ (nd.var + 1 ≤ x ∧ x < varOf A n nd.high) := hin
          rw [if_neg hin']; exact h1
      · have hr : rangeOf A n nd = (nd.var, max (varOf A n nd.high) (varOf A n nd.low)) := by
          simp [rangeOf, hh0, hl0]
        rw [if_neg hl0]
        obtain ⟨s1, hs1, hsz1, hm1⟩ := setTrue_spec (s := s) (i := nd.var) (by omega)
        have hself : InSome A n nd.var := ⟨id, nd, hid2, hnd, by rw [hr]; constructor <;> simp <;> omega⟩
        have hmono : ∀ k, mk s k → mk s1 k := fun k hk => (hm1 k).mpr (Or.inl hk)
        have hsrc : ∀ k, mk s1 k → mk s k ∨ InSome A n k := by
          intro k hk
          rcases (hm1 k).mp hk with h6 | h6
          · exact Or.inl h6
          · rw [h6]; exact Or.inr hself
        rw [hs1]
        simp only [Option.bind_some]
        by_cases hin : InRange x (rangeOf A n nd)
        · obtain ⟨s', h1, rest'⟩ := stop s1 (by omega) hmono hsrc hin
          refine ⟨s', ?_, rest'⟩
          rw [hr] at h1 hin
          have hin' : nd.var ≤ x ∧ x < max (varOf A n nd.high) (varOf A n nd.low) := hin
          rw [if_pos hin']; exact h1
        · obtain ⟨s', h1, rest'⟩ := cont s1 (by omega) hmono hsrc hin
          refine ⟨s', ?_, rest'⟩
          rw [hr] at hin
          have hin' : ¬ (nd.var ≤ x ∧ x < max (varOf A n nd.high) (varOf A n nd.low)) := hin
          rw [if_neg hin']; exact h1

theorem pass2_spec {A : Arr} {n : Nat} (h : Can A n) (any1 : Array Bool) (hsz : any1.size = n) :
    ∃ any2, pass2 A n any1 = some any2 ∧ any2.size = n ∧
      ∀ k, k < n → (mk any2 k ↔ (mk any1 k ∨ InSome A n k)) := by
  have := foldlM_prefix
    (fun (s : Array Bool) x =>
      match s[x]? with
      | none => none
      | some true => some s
      | some false => pass2Inner A x (ids A) s)
    (fun pre s => s.size = n ∧ (∀ k, mk any1 k → mk s k) ∧ (∀ k, mk s k → mk any1 k ∨ InSome A n k) ∧
      ∀ x ∈ pre, InSome A n x → mk s x)
    (List.range n) [] any1 ⟨hsz, fun _ hk => hk, fun _ hk => Or.inl hk, by intro x hx; cases hx⟩
    (by
      intro pre x s hx ⟨hs, hmono, hsrc, hdone⟩
      have hxn : x < n := List.mem_range.mp hx
      by_cases hmx : mk s x
      · refine ⟨s, ?_, hs, hmono, hsrc, ?_⟩
        · unfold mk at hmx; simp [hmx]
        · intro y hy hin
          rcases List.mem_append.mp hy with h5 | h5
          · exact hdone y h5 hin
          · simp at h5; subst h5; exact hmx
      · have hf : s[x]? = some false := (not_mk_iff (by omega)).mp hmx
        obtain ⟨s', h1, h2, h3, h4, h5⟩ := pass2Inner_spec h x (ids A) s (fun id hid => mem_ids.mp hid) hs
        refine ⟨s', by simp [hf, h1], h2, fun k hk => h3 k (hmono k hk), ?_, ?_⟩
        · intro k hk
          rcases h4 k hk with h6 | h6
          · exact hsrc k h6
          · exact Or.inr h6
        · intro y hy hin
          rcases List.mem_append.mp hy with h6 | h6
          · exact h3 y (hdone y h6 hin)
          · simp at h6; subst h6
            obtain ⟨q, nd, hq2, hnd, hr⟩ := hin
            exact h5 ⟨q, mem_ids.mpr ⟨hq2, getElem?_lt hnd⟩, nd, hnd, hr⟩)
  obtain ⟨any2, h1, h2, h3, h4, h5⟩ := this
  refine ⟨any2, h1, h2, ?_⟩
  intro k hk
  constructor
  · exact h4 k
  · rintro (h6 | h6)
    · exact h3 k h6
    · exact h5 k (by simpa using hk) h6

theorem pass3_spec {A : Arr} {n : Nat} (h : Can A n) (any2 : Array Bool) (hsz : any2.size = n)
    (z0 o0 : Array Bool) (hz0 : z0.size = n) (ho0 : o0.size = n) (hzf : ∀ k, ¬ mk z0 k) (hof : ∀ k, ¬ mk o0 k) :
    ∃ zo, pass3 A any2 z0 o0 = some zo ∧ zo.1.size = n ∧ zo.2.size = n ∧
      (∀ k, mk zo.1 k ↔ ∃ q nd, 2 ≤ q ∧ A[q]? = some nd ∧ nd.var = k ∧ ¬ mk any2 k ∧ nd.high = 0) ∧
      (∀ k, mk zo.2 k ↔ ∃ q nd, 2 ≤ q ∧ A[q]? = some nd ∧ nd.var = k ∧ ¬ mk any2 k ∧ nd.high ≠ 0 ∧ nd.low = 0) := by
  have := foldlM_prefix
    (fun (st : Array Bool × Array Bool) id => (A[id]?).bind fun nd =>
      match any2[nd.var]? with
      | none => none
      | some true => some st
      | some false =>
        if nd.high = 0 then (setTrue st.1 nd.var).map fun z' => (z', st.2)
        else if nd.low = 0 then (setTrue st.2 nd.var).map fun o' => (st.1, o')
        else some st)
    (fun pre st => st.1.size = n ∧ st.2.size = n ∧
      (∀ k, mk st.1 k ↔ ∃ q ∈ pre, ∃ nd, A[q]? = some nd ∧ nd.var = k ∧ ¬ mk any2 k ∧ nd.high = 0) ∧
      (∀ k, mk st.2 k ↔ ∃ q ∈ pre, ∃ nd, A[q]? = some nd ∧ nd.var = k ∧ ¬ mk any2 k ∧ nd.high ≠ 0 ∧ nd.low = 0))
    (ids A) [] (z0, o0)
    ⟨hz0, ho0, by intro k; simp [hzf k], by intro k; simp [hof k]⟩
    (by
      intro pre q st hq ⟨hs1, hs2, hmz, hmo⟩
      obtain ⟨hq2, hqs⟩ := mem_ids.mp hq
      obtain ⟨nd, hnd⟩ : ∃ nd, A[q]? = some nd := ⟨A[q], by simp [hqs]⟩
      obtain ⟨hv, _⟩ := h.node hq2 hnd
      -- extending the prefix by a node that contributes nothing
      have keepZ : (¬ (¬ mk any2 nd.var ∧ nd.high = 0)) → ∀ k,
          (∃ q' ∈ pre ++ [q], ∃ nd', A[q']? = some nd' ∧ nd'.var = k ∧ ¬ mk any2 k ∧ nd'.high = 0) ↔
          (∃ q' ∈ pre, ∃ nd', A[q']? = some nd' ∧ nd'.var = k ∧ ¬ mk any2 k ∧ nd'.high = 0) := by
        intro hno k
        constructor
        · rintro ⟨q', hq', nd', h2, h3, h4, h5⟩
          rcases List.mem_append.mp hq' with h6 | h6
          · exact ⟨q', h6, nd', h2, h3, h4, h5⟩
          · simp at h6; subst h6
            rw [hnd] at h2; cases h2; subst h3
            exact absurd ⟨h4, h5⟩ hno
        · rintro ⟨q', hq', rest'⟩
          exact ⟨q', by simp [hq'], rest'⟩
      have keepO : (¬ (¬ mk any2 nd.var ∧ nd.high ≠ 0 ∧ nd.low = 0)) → ∀ k,
          (∃ q' ∈ pre ++ [q], ∃ nd', A[q']? = some nd' ∧ nd'.var = k ∧ ¬ mk any2 k ∧ nd'.high ≠ 0 ∧ nd'.low = 0) ↔
          (∃ q' ∈ pre, ∃ nd', A[q']? = some nd' ∧ nd'.var = k ∧ ¬ mk any2 k ∧ nd'.high ≠ 0 ∧ nd'.low = 0) := by
        intro hno k
        constructor
        · rintro ⟨q', hq', nd', h2, h3, h4, h5⟩
          rcases List.mem_append.mp hq' with h6 | h6
          · exact ⟨q', h6, nd', h2, h3, h4, h5⟩
          · simp at h6; subst h6
            rw [hnd] at h2; cases h2; subst h3
            exact absurd ⟨h4, h5⟩ hno
        · rintro ⟨q', hq', rest'⟩
          exact ⟨q', by simp [hq'], rest'⟩
      by_cases hmx : mk any2 nd.var
      · refine ⟨st, ?_, hs1, hs2, ?_, ?_⟩
        · unfold mk at hmx; simp [hnd, hmx]
        · intro k; rw [hmz k, keepZ (by simp [hmx]) k]
        · intro k; rw [hmo k, keepO (by simp [hmx]) k]
      · have hf : any2[nd.var]? = some false := (not_mk_iff (by omega)).mp hmx
        by_cases hh0 : nd.high = 0
        · obtain ⟨z', hz', hzs, hzm⟩ := setTrue_spec (s := st.1) (i := nd.var) (by omega)
          refine ⟨(z', st.2), by simp [hnd, hf, hh0, hz'], by simpa using (by omega : z'.size = n), hs2, ?_, ?_⟩
          · intro k
            simp only
            rw [hzm k, hmz k]
            constructor
            · rintro (⟨q', hq', rest'⟩ | h1)
              · exact ⟨q', by simp [hq'], rest'⟩
              · exact ⟨q, by simp, nd, hnd, h1.symm, by rw [h1]; exact hmx, hh0⟩
            · rintro ⟨q', hq', nd', h2, h3, h4, h5⟩
              rcases List.mem_append.mp hq' with h6 | h6
              · exact Or.inl ⟨q', h6, nd', h2, h3, h4, h5⟩
              · simp at h6; subst h6
                rw [hnd] at h2; cases h2
                exact Or.inr h3.symm
          · intro k; simp only; rw [hmo k, keepO (by simp [hh0]) k]
        · by_cases hl0 : nd.low = 0
          · obtain ⟨o', ho', hos, hom⟩ := setTrue_spec (s := st.2) (i := nd.var) (by omega)
            refine ⟨(st.1, o'), by simp [hnd, hf, hh0, hl0, ho'], hs1, by simpa using (by omega : o'.size = n), ?_, ?_⟩
            · intro k; simp only; rw [hmz k, keepZ (by simp [hh0]) k]
            · intro k
              simp only
              rw [hom k, hmo k]
              constructor
              · rintro (⟨q', hq', rest'⟩ | h1)
                · exact ⟨q', by simp [hq'], rest'⟩
                · exact ⟨q, by simp, nd, hnd, h1.symm, by rw [h1]; exact hmx, hh0, hl0⟩
              · rintro ⟨q', hq', nd', h2, h3, h4, h5⟩
                rcases List.mem_append.mp hq' with h6 | h6
                · exact Or.inl ⟨q', h6, nd', h2, h3, h4, h5⟩
                · simp at h6; subst h6
                  rw [hnd] at h2; cases h2
                  exact Or.inr h3.symm
          · refine ⟨st, by simp [hnd, hf, hh0, hl0], hs1, hs2, ?_, ?_⟩
            · intro k; rw [hmz k, keepZ (by simp [hh0]) k]
            · intro k; rw [hmo k, keepO (by simp [hl0]) k])
  obtain ⟨zo, h1, h2, h3, h4, h5⟩ := this
  refine ⟨zo, h1, h2, h3, ?_, ?_⟩
  · intro k
    rw [h4 k]
    constructor
    · rintro ⟨q, hq, nd, h6⟩
      exact ⟨q, nd, (mem_ids.mp (by simpa using hq)).1, h6⟩
    · rintro ⟨q, nd, hq2, hnd, h6⟩
      exact ⟨q, by simpa using mem_ids.mpr ⟨hq2, getElem?_lt hnd⟩, nd, hnd, h6⟩
  · intro k
    rw [h5 k]
    constructor
    · rintro ⟨q, hq, nd, h6⟩
      exact ⟨q, nd, (mem_ids.mp (by simpa using hq)).1, h6⟩
    · rintro ⟨q, nd, hq2, hnd, h6⟩
      exact ⟨q, by simpa using mem_ids.mpr ⟨hq2, getElem?_lt hnd⟩, nd, hnd, h6⟩

end B.Select
