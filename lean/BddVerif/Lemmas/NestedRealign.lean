import BddVerif.Lemmas.NestedBasic
/-!
L5 `realign_sim`: the model of `fix_bdd_alignment` run on a reduced post-order array (with any amount
of unreachable garbage) from a pointer `r` returns exactly the canonical array of the function
denoted by `r`.
-/
namespace B
open Std

/-- `ev_indep` with the variable bound (a `Red` array tests only variables below `n`) -/
theorem ev_indep' {A : Arr} {n : Nat} (h : Red A n) :
    ∀ p, p < A.size → ∀ v w : Nat → Bool, (∀ i, varOf A n p ≤ i → i < n → v i = w i) →
      ev A v p = ev A w p := by
  intro p
  induction p using Nat.strongRecOn with
  | _ p ih =>
    intro hp v w hvw
    by_cases h0 : p = 0
    · subst h0; simp [ev_zero]
    by_cases h1 : p = 1
    · subst h1; simp [ev_one]
    have hp2 : 2 ≤ p := by omega
    have hnd : A[p]? = some A[p] := by simp [hp]
    obtain ⟨hvn, hl, hh, _, hvl, hvh⟩ := h.inner p A[p] hp2 hnd
    have hvar : varOf A n p = A[p].var := varOf_node p _ hp2 hnd
    rw [ev_node h v p hp2 _ hnd, ev_node h w p hp2 _ hnd]
    have : v A[p].var = w A[p].var := hvw _ (by omega) hvn
    rw [this]
    split
    · exact ih _ hh (by omega) v w (fun i hi hin => hvw i (by omega) hin)
    · exact ih _ hl (by omega) v w (fun i hi hin => hvw i (by omega) hin)

/-- Shannon step of a decision node of a `Red` array -/
theorem ev_cofactor {A : Arr} {n : Nat} (h : Red A n) (p : Nat) (hp2 : 2 ≤ p) (nd : Node)
    (hnd : A[p]? = some nd) (b : Bool) (v : Nat → Bool) :
    ev A (upd v nd.var b) p = ev A v (if b then nd.high else nd.low) := by
  have hps : p < A.size := by
    rcases Nat.lt_or_ge p A.size with h' | h'
    · exact h'
    · simp [Array.getElem?_eq_none h'] at hnd
  obtain ⟨_, hl, hh, _, hvl, hvh⟩ := h.inner p nd hp2 hnd
  rw [ev_node h _ p hp2 _ hnd]
  have : upd v nd.var b nd.var = b := by simp [upd]
  rw [this]
  cases b
  · simp only [Bool.false_eq_true, if_false]; exact ev_upd h _ (by omega) v _ false hvl
  · simp only [if_true]; exact ev_upd h _ (by omega) v _ true hvh

/-- invariant of the re-alignment DFS -/
structure RInv (A : Arr) (n : Nat) (s : RSt) : Prop where
  red : Red s.out n
  mp : ∀ (p q : Nat), s.map[p]? = some q →
      p < A.size ∧ q < s.out.size ∧ varOf A n p ≤ varOf s.out n q ∧ ∀ v, ev s.out v q = ev A v p
  t0 : s.map[(0 : Nat)]? = some 0
  t1 : s.map[(1 : Nat)]? = some 1
  surj : ∀ (i : Nat), 2 ≤ i → i < s.out.size → ∃ p : Nat, s.map[p]? = some i

/-- what processing pointer `p`, entered at level `k`, delivers -/
structure ROut (A : Arr) (n : Nat) (s : RSt) (p k : Nat) (o : RSt) : Prop where
  inv : RInv A n o
  res : ∃ q : Nat, o.map[p]? = some q ∧ (o.out, q) = ins n (n - k) k (fun v => ev A v p) s.out
  mono : ∀ (p' q' : Nat), s.map[p']? = some q' → o.map[p']? = some q'
  frame : ∀ (p' : Nat), p < p' → o.map[p']? = s.map[p']?

def RSpec (A : Arr) (n : Nat) (rec : Nat → RSt → RSt) (k : Nat) : Prop :=
  ∀ p s, RInv A n s → p < A.size → k ≤ varOf A n p → ROut A n s p k (rec p s)

theorem realignStep_out {A : Arr} {n : Nat} (hA : Red A n) (rec : Nat → RSt → RSt) (k : Nat)
    (hrec : ∀ k', k < k' → k' ≤ n → RSpec A n rec k') : RSpec A n (realignStep A rec) k := by
  intro p s hs hp hk
  have hkn : k ≤ n := by have := varOf_le hA p; omega
  have hdepP : ∀ m, m ≤ varOf A n p → ∀ v w : Nat → Bool, (∀ i, m ≤ i → i < n → v i = w i) →
      ev A v p = ev A w p :=
    fun m hm v w hvw => ev_indep' hA p hp v w (fun i hi hin => hvw i (by omega) hin)
  unfold realignStep
  cases hm : s.map[p]? with
  | some q =>
    simp only
    obtain ⟨_, hq, hv, he⟩ := hs.mp p q hm
    have := ins_found hs.red (n - k) k (fun v => ev A v p) q (by omega) hq (by omega) (fun v => (he v).symm)
    exact ⟨hs, ⟨q, hm, this.symm⟩, fun _ _ h => h, fun _ _ => rfl⟩
  | none =>
    simp only
    have hp2 : 2 ≤ p := by
      rcases Nat.lt_or_ge p 2 with h2 | h2
      · have : p = 0 ∨ p = 1 := by omega
        rcases this with rfl | rfl
        · rw [hs.t0] at hm; cases hm
        · rw [hs.t1] at hm; cases hm
      · exact h2
    have hnd : A[p]? = some A[p] := by simp [hp]
    have hna : nodeAt A p = A[p] := by simp [nodeAt, hnd]
    rw [hna]
    obtain ⟨hdn, hl, hh, hne, hvl, hvh⟩ := hA.inner p A[p] hp2 hnd
    have hvar : varOf A n p = A[p].var := varOf_node p _ hp2 hnd
    generalize hd : A[p].var = d at *
    -- high child first
    have O1 := hrec (d+1) (by omega) (by omega) A[p].high s hs (by omega) (by omega)
    generalize rec A[p].high s = s1 at O1 ⊢
    obtain ⟨q1, hm1, e1⟩ := O1.res
    have O2 := hrec (d+1) (by omega) (by omega) A[p].low s1 O1.inv (by omega) (by omega)
    generalize rec A[p].low s1 = s2 at O2 ⊢
    obtain ⟨q2, hm2, e2⟩ := O2.res
    have hm1' : s2.map[A[p].high]? = some q1 := O2.mono _ _ hm1
    simp only [hm2, hm1']
    have hnone2 : s2.map[p]? = none := by
      rw [O2.frame p (by omega), O1.frame p (by omega)]; exact hm
    obtain ⟨_, hq1, _, hev1⟩ := O2.inv.mp _ _ hm1'
    obtain ⟨_, hq2, _, hev2⟩ := O2.inv.mp _ _ hm2
    -- the Shannon expansion of the function of p
    have f1 : (fun v => ev A (upd v d true) p) = (fun v => ev A v A[p].high) := by
      funext v; have := ev_cofactor hA p hp2 _ hnd true v; rw [hd] at this; simpa using this
    have f2 : (fun v => ev A (upd v d false) p) = (fun v => ev A v A[p].low) := by
      funext v; have := ev_cofactor hA p hp2 _ hnd false v; rw [hd] at this; simpa using this
    have hq21 : ¬ q2 = q1 := by
      intro e
      apply hne
      apply ev_inj hA _ _ _ rfl (by omega) (by omega)
      intro v; rw [← hev2 v, ← hev1 v, e]
    have hfn : findNode s2.out ⟨d, q2, q1⟩ = none := by
      cases hf : findNode s2.out ⟨d, q2, q1⟩ with
      | none => rfl
      | some i =>
        exfalso
        obtain ⟨hi2, hind⟩ := findNode_some hf
        have his : i < s2.out.size := by
          rcases Nat.lt_or_ge i s2.out.size with h' | h'
          · exact h'
          · simp [Array.getElem?_eq_none h'] at hind
        obtain ⟨p', hp'⟩ := O2.inv.surj i hi2 his
        obtain ⟨hp'A, _, _, hev'⟩ := O2.inv.mp _ _ hp'
        have : p' = p := by
          apply ev_inj hA _ _ _ rfl hp'A hp
          intro v
          rw [← hev' v, ev_node O2.inv.red v i hi2 _ hind, ev_node hA v p hp2 _ hnd, hd]
          simp only
          rw [hev1, hev2]
        subst this
        rw [hnone2] at hp'; cases hp'
    have htarget : ins n (n - d) d (fun v => ev A v p) s.out =
        (s2.out.push ⟨d, q2, q1⟩, s2.out.size) := by
      have h1 : ins n (n - (d+1)) (d+1) (fun v => ev A (upd v d true) p) s.out = (s1.out, q1) := by
        rw [f1]; exact e1.symm
      have h2 : ins n (n - (d+1)) (d+1) (fun v => ev A (upd v d false) p) s1.out = (s2.out, q2) := by
        rw [f2]; exact e2.symm
      have : n - d = (n - (d+1)) + 1 := by omega
      rw [this, ins_succ' h1 h2]
      simp only [hq21, if_false, hfn]
    have hlower : ins n (n - k) k (fun v => ev A v p) s.out = ins n (n - d) d (fun v => ev A v p) s.out :=
      ins_skip_many hs.red (fun v => ev A v p) (d - k) k d (by omega) (by omega) (hdepP d (by omega))
    obtain ⟨tred, tpre, tlt, tvar, tev⟩ := ins_spec (n - d) d (fun v => ev A v p) s.out hs.red (by omega)
      (hdepP d (by omega))
    rw [htarget] at tred tpre tlt tvar tev
    simp only at tred tpre tlt tvar tev
    have hpre2 := Prefix.push s2.out ⟨d, q2, q1⟩
    refine ⟨⟨tred, ?_, ?_, ?_, ?_⟩, ⟨s2.out.size, ?_, ?_⟩, ?_, ?_⟩
    · intro p' q' h
      simp only [HashMap.getElem?_insert] at h
      split at h
      · rename_i hpp
        have hpp' : p = p' := by simpa using hpp
        subst hpp'
        cases h
        exact ⟨hp, tlt, (by rw [hvar]; exact tvar), tev⟩
      · obtain ⟨a, b, c, e⟩ := O2.inv.mp p' q' h
        refine ⟨a, Nat.lt_of_lt_of_le b hpre2.1, ?_, ?_⟩
        · rw [varOf_prefix hpre2 _ b]; exact c
        · intro v; rw [ev_prefix O2.inv.red tred hpre2 v _ b]; exact e v
    · simp only [HashMap.getElem?_insert]
      have : (p == 0) = false := by simp; omega
      rw [this]; exact O2.inv.t0
    · simp only [HashMap.getElem?_insert]
      have : (p == 1) = false := by simp; omega
      rw [this]; exact O2.inv.t1
    · intro i hi2 his
      by_cases hie : i = s2.out.size
      · exact ⟨p, by simp [hie]⟩
      · have his' : i < s2.out.size := by simp at his; omega
        obtain ⟨p'', hp''⟩ := O2.inv.surj i hi2 his'
        refine ⟨p'', ?_⟩
        simp only [HashMap.getElem?_insert]
        have : (p == p'') = false := by
          simp only [beq_eq_false_iff_ne, ne_eq]
          intro e; subst e; rw [hnone2] at hp''; cases hp''
        rw [this]; exact hp''
    · simp
    · rw [hlower, htarget]
    · intro p' q' h
      simp only [HashMap.getElem?_insert]
      have : (p == p') = false := by
        simp only [beq_eq_false_iff_ne, ne_eq]
        intro e; subst e; rw [hm] at h; cases h
      rw [this]; exact O2.mono _ _ (O1.mono _ _ h)
    · intro p' hpp
      simp only [HashMap.getElem?_insert]
      have : (p == p') = false := by simp; omega
      rw [this, O2.frame p' (by omega), O1.frame p' (by omega)]; simp

theorem realignRec_spec {A : Arr} {n : Nat} (hA : Red A n) :
    ∀ fuel k, n - k < fuel → RSpec A n (realignRec A fuel) k := by
  intro fuel
  induction fuel with
  | zero => intro k hk; omega
  | succ fuel ih =>
    intro k hk
    show RSpec A n (realignStep A (realignRec A fuel)) k
    apply realignStep_out hA
    intro k' h1 h2
    exact ih k' (by omega)

theorem rinv_init {A : Arr} {n : Nat} (hA : Red A n) : RInv A n (realignInit n) := by
  have hs := hA.size2
  have key : ∀ (p q : Nat), (realignInit n).map[p]? = some q → (p = 0 ∧ q = 0) ∨ (p = 1 ∧ q = 1) := by
    intro p q h
    simp only [realignInit, HashMap.getElem?_insert] at h
    split at h
    · rename_i hp; right; simp at hp; cases h; exact ⟨hp.symm, rfl⟩
    · split at h
      · rename_i hp; left; simp at hp; cases h; exact ⟨hp.symm, rfl⟩
      · rw [HashMap.getElem?_emptyWithCapacity] at h; cases h
  refine ⟨red_mkTrue n, ?_, ?_, ?_, ?_⟩
  · intro p q h
    rcases key p q h with ⟨rfl, rfl⟩ | ⟨rfl, rfl⟩
    · refine ⟨by omega, by simp [realignInit, mkTrue_size], by simp [varOf], ?_⟩
      intro v; rw [ev_zero, ev_zero]
    · refine ⟨by omega, by simp [realignInit, mkTrue_size], by simp [varOf], ?_⟩
      intro v; rw [ev_one, ev_one]
  · simp only [realignInit, HashMap.getElem?_insert]; simp
  · simp only [realignInit, HashMap.getElem?_insert]; simp
  · intro i hi his
    simp [realignInit, mkTrue_size] at his; omega

/-- **L5**: re-alignment of a reduced array from pointer `r` is the canonical array of `r`'s function -/
theorem realign_sim {A : Arr} {n : Nat} (hA : Red A n) (hn : numVars A = n) (r : Nat) (hr : r < A.size) :
    realign A r = canon n (fun v => ev A v r) := by
  unfold realign
  simp only [hn]
  by_cases h0 : r = 0
  · subst h0
    simp only [if_true]
    unfold canon
    rw [ins_false (red_mkTrue n) n 0 _ (by omega) (fun v => ev_zero A v)]
    simp
  by_cases h1 : r = 1
  · subst h1
    simp only [if_neg h0, if_true]
    unfold canon
    rw [ins_found (red_mkTrue n) n 0 (fun v => ev A v 1) 1 (by omega) (by rw [mkTrue_size]; omega)
      (Nat.zero_le _) (fun v => by rw [ev_one, ev_one])]
    simp
  simp only [if_neg h0, if_neg h1]
  have O := realignRec_spec hA (n + 2) 0 (by omega) r (realignInit n) (rinv_init hA) hr (Nat.zero_le _)
  obtain ⟨q, hq, e⟩ := O.res
  have e' : ins n n 0 (fun v => ev A v r) (mkTrue n) = ((realignRec A (n + 2) r (realignInit n)).out, q) := by
    rw [e]; rfl
  obtain ⟨_, _, _, hevq⟩ := O.inv.mp r q hq
  have hq0 : q ≠ 0 := by
    intro e0
    apply h0
    apply ev_inj hA _ _ _ rfl hr (by have := hA.size2; omega)
    intro v; rw [← hevq v, e0, ev_zero, ev_zero]
  unfold canon
  rw [e']
  simp [hq0]

end B
