import BddVerif.Gen.Algo3
import BddVerif.Lemmas.AlgoEq2VarSet
/-!
# Translated `BddVariableSet::new`, `variables`, `variable_names` (`Gen/Algo3.lean`) = hand model `Model/VarSet.lean`

`BddVariableSet_new_eq_model`: for EVERY vector of names the translated constructor and `VS.new` have the same kind of
outcome — `ok` with the same `num_vars`, the same `var_names` and EQUIVALENT index maps (`Std.HashMap.Equiv`: the
translated code allocates `with_capacity(n)`, the model starts from `{}`; maps of different capacity are different
values with the same entries), or a panic in both. The three panics of the Rust code (too many variables, invalid
character, duplicate name) are listed with their messages and their exact conditions, in the order the code tests them.
No fuel (the translated function has none).
-/
namespace B.AlgoEq3Names
open B B.Gen B.AlgoEqUtil B.AlgoEq2Ren B.AlgoEq2VS Std
attribute [local instance 10000] Rust.monadOutcomeInline

/-- same kind of outcome; `R` relates the `ok` values (messages are never compared) -/
inductive RelBy {α β : Type} (R : α → β → Prop) : Outcome α → Outcome β → Prop
  | ok (a : α) (b : β) (h : R a b) : RelBy R (.ok a) (.ok b)
  | err (m m' : String) : RelBy R (.err m) (.err m')
  | panic (m m' : String) : RelBy R (.panic m) (.panic m')

theorem RelBy.kind_eq {α β} {R : α → β → Prop} {x : Outcome α} {y : Outcome β} (h : RelBy R x y) :
    x.kind = y.kind := by cases h <;> rfl

theorem RelBy.of_ok {α β} {R : α → β → Prop} {x : Outcome α} {y : Outcome β} (h : RelBy R x y) {b : β}
    (hy : y = .ok b) : ∃ a, x = .ok a ∧ R a b := by
  cases h with
  | ok a b' h => cases hy; exact ⟨a, rfl, h⟩
  | err m m' => cases hy
  | panic m m' => cases hy

theorem RelBy.of_ok_left {α β} {R : α → β → Prop} {x : Outcome α} {y : Outcome β} (h : RelBy R x y) {a : α}
    (hx : x = .ok a) : ∃ b, y = .ok b ∧ R a b := by
  cases h with
  | ok a' b h => cases hx; exact ⟨b, rfl, h⟩
  | err m m' => cases hx
  | panic m m' => cases hx

theorem RelBy.panic_iff {α β} {R : α → β → Prop} {x : Outcome α} {y : Outcome β} (h : RelBy R x y) :
    (∃ m, x = .panic m) ↔ (∃ m, y = .panic m) := by
  cases h <;> simp

theorem RelBy.of_panic {α β} {R : α → β → Prop} {x : Outcome α} {y : Outcome β} (h : RelBy R x y) {m : String}
    (hy : y = .panic m) : ∃ m', x = .panic m' := h.panic_iff.2 ⟨m, hy⟩

theorem RelBy.mono {α β} {R S : α → β → Prop} (hRS : ∀ a b, R a b → S a b) {x : Outcome α} {y : Outcome β}
    (h : RelBy R x y) : RelBy S x y := by
  cases h with
  | ok a b h => exact .ok a b (hRS a b h)
  | err m m' => exact .err m m'
  | panic m m' => exact .panic m m'

/-- the translated triple and the model's structure: same count, same names, equivalent index maps -/
def SameVS (T : VSet) (vs : VS.VarSet) : Prop :=
  T.1 = vs.numVars ∧ T.2.1 = vs.names ∧ T.2.2.Equiv vs.index

theorem SameVS.get {T : VSet} {vs : VS.VarSet} (h : SameVS T vs) (s : String) : T.2.2[s]? = vs.index[s]? :=
  h.2.2.getElem?_eq

theorem SameVS.varByName {T : VSet} {vs : VS.VarSet} (h : SameVS T vs) (s : String) :
    Algo2.BddVariableSet_var_by_name T s = vs.varByName s := by
  rw [var_by_name_eq]; exact h.get s

/-! ### the forbidden characters -/

/-- `name.chars().any(|c| NOT_IN_VAR_NAME.contains(&c))` -/
def invalid (s : String) : Bool := s.toList.any fun c => Algo3.NOT_IN_VAR_NAME.contains c

theorem notIn_eq : Algo3.NOT_IN_VAR_NAME.toList = Gen.notInVarName := rfl

theorem invalid_eq (s : String) : invalid s = !VS.validName s := by
  unfold invalid VS.validName
  rw [Bool.not_not]
  congr 1
  funext c
  rw [← notIn_eq]
  simp

/-! ### the loop that copies (and checks) the names -/

theorem names_loop (msg : String) : ∀ (l : List String) (acc : Array String),
    iterL (fun name (s : Array String) =>
        if invalid name = true then (Outcome.panic msg : Outcome (ForInStep (Array String)))
        else .ok (.yield (s.push name))) l acc =
      if l.any invalid = true then .panic msg else .ok (acc ++ l.toArray) := by
  intro l
  induction l with
  | nil => intro acc; simp [iterL_nil]
  | cons a l ih =>
    intro acc
    rw [iterL_cons, List.any_cons]
    by_cases ha : invalid a = true
    · simp [ha]
    · simp only [ha, if_false, Bool.false_or, Bool.false_eq_true]
      rw [ih]
      split
      · rfl
      · congr 1
        apply Array.ext'
        simp

/-! ### the index map -/

theorem asU16_of_lt {x : Nat} (h : x < 65536) : Rust.asU16 x = x := Nat.mod_eq_of_lt h

theorem empty_equiv (c : Nat) : (HashMap.emptyWithCapacity c : HashMap String Nat).Equiv {} :=
  HashMap.equiv_empty_iff_isEmpty.2 HashMap.isEmpty_emptyWithCapacity

theorem buildIndex_equiv : ∀ (l : List String) (i : Nat) (m m' : HashMap String Nat), m.Equiv m' →
    (VS.buildIndex l i m).Equiv (VS.buildIndex l i m') := by
  intro l
  induction l with
  | nil => intro i m m' h; exact h
  | cons a l ih => intro i m m' h; exact ih (i + 1) _ _ (h.insert a i)

/-- the pairs `(name, id as u16)` in order -/
theorem enum_pairs (vars : Array String) (h : vars.size ≤ 65536) :
    (Array.map (fun x : Nat × String => (x.snd, Rust.asU16 x.fst)) (Rust.enumerate vars)).toList =
      vars.toList.zipIdx 0 := by
  unfold Rust.enumerate
  apply List.ext_getElem
  · simp
  · intro i h1 h2
    have hi : i < vars.size := by simpa using h2
    simp only [Array.toList_map, Array.toList_mapIdx, List.getElem_map, List.getElem_mapIdx, List.getElem_zipIdx,
      Nat.zero_add]
    rw [asU16_of_lt (by omega)]

/-- `vars.iter().enumerate().map(|(id, name)| (name.clone(), id as u16)).collect::<HashMap<_, _>>()` is the model's
    `buildIndex` started from an empty map of some capacity -/
theorem index_eq (vars : Array String) (h : vars.size ≤ 65536) :
    Rust.hashMapFromArr (Array.map (fun x : Nat × String => (x.snd, Rust.asU16 x.fst)) (Rust.enumerate vars)) =
      VS.buildIndex vars.toList 0
        (HashMap.emptyWithCapacity (Array.map (fun x : Nat × String => (x.snd, Rust.asU16 x.fst)) (Rust.enumerate vars)).size) := by
  unfold Rust.hashMapFromArr
  rw [← Array.foldl_toList, enum_pairs vars h, foldl_zipIdx_eq_buildIndex]

theorem index_equiv (vars : Array String) (h : vars.size ≤ 65536) :
    (Rust.hashMapFromArr (Array.map (fun x : Nat × String => (x.snd, Rust.asU16 x.fst)) (Rust.enumerate vars))).Equiv
      (VS.buildIndex vars.toList 0 {}) := by
  rw [index_eq vars h]
  exact buildIndex_equiv _ _ _ _ (empty_equiv _)

/-! ### `BddVariableSet::new` -/

/-- desugaring: the three tests of the Rust function in order -/
theorem BddVariableSet_new_desugar (vars : Array String) :
    Algo3.BddVariableSet_new vars =
      if vars.size ≥ 65534 then .panic "Too many BDD variables. There can be at most {} variables."
      else if vars.toList.any invalid = true then .panic "Variable name {} is invalid. Cannot use {:?}"
      else if (Rust.hashMapFromArr (Array.map (fun x : Nat × String => (x.snd, Rust.asU16 x.fst))
          (Rust.enumerate vars))).size ≠ vars.size then .panic "Existing duplicated BDD variable."
      else .ok (vars.size, vars,
        Rust.hashMapFromArr (Array.map (fun x : Nat × String => (x.snd, Rust.asU16 x.fst)) (Rust.enumerate vars))) := by
  unfold Algo3.BddVariableSet_new
  simp only [forIn_array_eq_iterL, sub_of_le 65535 1 (by omega), bind_ok, bind_panic, pure_eq]
  by_cases h1 : vars.size ≥ 65534
  · simp only [show (65535 - 1 : Nat) = 65534 from rfl, h1, decide_true, if_true]
  · simp only [show (65535 - 1 : Nat) = 65534 from rfl, h1, decide_false, Bool.false_eq_true, if_false]
    rw [iterL_congr _ (fun name (s : Array String) =>
        if invalid name = true then
          (Outcome.panic "Variable name {} is invalid. Cannot use {:?}" : Outcome (ForInStep (Array String)))
        else .ok (.yield (s.push name))) _ (by
      intro x _ b
      show (if invalid x = true then _ else _) = _
      split <;> rfl), names_loop]
    by_cases h2 : vars.toList.any invalid = true
    · simp only [h2, if_true, bind_panic]
    · simp only [h2, if_false, bind_ok, Bool.false_eq_true]
      have e : #[] ++ vars.toList.toArray = vars := by simp
      rw [e, asU16_of_lt (by omega)]
      by_cases h3 : (Rust.hashMapFromArr (Array.map (fun x : Nat × String => (x.snd, Rust.asU16 x.fst))
          (Rust.enumerate vars))).size = vars.size
      · simp [h3]
      · simp [h3]

/-- **`BddVariableSet::new`, translated code = hand model, every input** -/
theorem BddVariableSet_new_eq_model (vars : Array String) :
    RelBy SameVS (Algo3.BddVariableSet_new vars) (VS.new vars.toList) := by
  rw [BddVariableSet_new_desugar]
  unfold VS.new VS.limit
  simp only [Array.length_toList]
  by_cases h1 : vars.size ≥ 65534
  · rw [if_pos h1, if_pos h1]; exact .panic _ _
  rw [if_neg h1, if_neg h1]
  have hany : (vars.toList.any fun s => !VS.validName s) = vars.toList.any invalid := by
    congr 1; funext s; rw [invalid_eq]
  rw [hany]
  by_cases h2 : vars.toList.any invalid = true
  · rw [if_pos h2, if_pos h2]; exact .panic _ _
  rw [if_neg h2, if_neg h2]
  have heq := index_equiv vars (by omega)
  rw [heq.size_eq]
  by_cases h3 : (VS.buildIndex vars.toList 0 {}).size ≠ vars.size
  · rw [if_pos h3, if_pos h3]; exact .panic _ _
  · rw [if_neg h3, if_neg h3]
    exact .ok _ _ ⟨rfl, by simp, heq⟩

/-! ### the outcome by cases, in terms of the names -/

/-- accepted: at most 65533 names, no forbidden character, pairwise distinct ⇒ the set of these names in declaration
    order (`SetOf`: `num_vars`, `var_names`, and `var_index_mapping[name] = position`) -/
theorem BddVariableSet_new_ok (vars : Array String) (h : VS.Acceptable 65533 vars.toList) :
    ∃ T, Algo3.BddVariableSet_new vars = .ok T ∧ SetOf T vars.toList ∧ VS.Faithful (toVS T) vars.toList := by
  obtain ⟨vs, h1, _⟩ := VS.new_ok vars.toList h
  obtain ⟨T, hT, hs⟩ := (BddVariableSet_new_eq_model vars).of_ok h1
  have hvs : vs = ⟨vars.toList.length, vars.toList.toArray, VS.buildIndex vars.toList 0 {}⟩ := by
    unfold VS.new at h1
    split at h1
    · cases h1
    · split at h1
      · cases h1
      · dsimp only at h1
        split at h1
        · cases h1
        · cases h1; rfl
  subst hvs
  have hset : SetOf T vars.toList := by
    refine ⟨hs.1, hs.2.1, ?_⟩
    intro s
    rw [hs.get s]
    exact buildIndex_idxOf _ h.2.2 _ (fun s => HashMap.getElem?_empty) s
  exact ⟨T, hT, hset, hset.faithful h.2.2⟩

theorem BddVariableSet_new_panic_too_many (vars : Array String) (h : 65534 ≤ vars.size) :
    Algo3.BddVariableSet_new vars = .panic "Too many BDD variables. There can be at most {} variables." := by
  rw [BddVariableSet_new_desugar, if_pos h]

theorem BddVariableSet_new_panic_invalid (vars : Array String) (h : vars.size < 65534)
    (hi : ∃ s ∈ vars.toList, VS.validName s = false) :
    Algo3.BddVariableSet_new vars = .panic "Variable name {} is invalid. Cannot use {:?}" := by
  rw [BddVariableSet_new_desugar, if_neg (by omega), if_pos]
  rw [List.any_eq_true]
  obtain ⟨s, hs, hv⟩ := hi
  exact ⟨s, hs, by rw [invalid_eq, hv]; rfl⟩

theorem BddVariableSet_new_panic_duplicate (vars : Array String) (h : vars.size < 65534)
    (hv : ∀ s ∈ vars.toList, VS.validName s = true) (hd : ¬ vars.toList.Nodup) :
    Algo3.BddVariableSet_new vars = .panic "Existing duplicated BDD variable." := by
  rw [BddVariableSet_new_desugar, if_neg (by omega), if_neg, if_pos]
  · rw [(index_equiv vars (by omega)).size_eq]
    intro hsz
    apply hd
    have := (VS.buildIndex_size_eq vars.toList 0 {}).1 (by rw [VS.empty_size]; simpa using hsz)
    exact this.1
  · rw [List.any_eq_true]
    rintro ⟨s, hs, hi⟩
    rw [invalid_eq, hv s hs] at hi
    cases hi

/-- the translated constructor panics exactly on the unacceptable vectors -/
theorem BddVariableSet_new_panic_iff (vars : Array String) :
    (∃ m, Algo3.BddVariableSet_new vars = .panic m) ↔ ¬ VS.Acceptable 65533 vars.toList := by
  constructor
  · rintro ⟨m, hm⟩ hacc
    obtain ⟨T, hT, _⟩ := BddVariableSet_new_ok vars hacc
    rw [hT] at hm; cases hm
  · intro h
    obtain ⟨m, hm⟩ := VS.new_panic vars.toList h
    exact (BddVariableSet_new_eq_model vars).of_panic hm

/-! ### `variables`, `variable_names` -/

theorem BddVariableSet_variables_eq (T : VSet) :
    (Algo3.BddVariableSet_variables T).toList = (toVS T).variables := by
  unfold Algo3.BddVariableSet_variables VS.VarSet.variables toVS
  simp

theorem BddVariableSet_variable_names_eq (T : VSet) :
    (Algo3.BddVariableSet_variable_names T).toList = (toVS T).variableNames := rfl

/-- on the set built by the translated `new`: the variables `0 … n-1` and the names in declaration order -/
theorem new_variables (vars : Array String) (h : VS.Acceptable 65533 vars.toList) :
    ∃ T, Algo3.BddVariableSet_new vars = .ok T ∧
      (Algo3.BddVariableSet_variables T).toList = List.range vars.size ∧
      Algo3.BddVariableSet_variable_names T = vars := by
  obtain ⟨T, hT, hs, hf⟩ := BddVariableSet_new_ok vars h
  refine ⟨T, hT, ?_, ?_⟩
  · rw [BddVariableSet_variables_eq, hf.variables]; simp
  · show T.2.1 = vars
    rw [hs.arr]

/-! ### non-vacuity -/

example : VS.Acceptable 65533 (#["a", "b_1", "é", ""] : Array String).toList := by
  refine ⟨by decide, ?_, by decide⟩
  intro s hs
  simp at hs
  rcases hs with rfl | rfl | rfl | rfl <;> decide

example : ∃ m, Algo3.BddVariableSet_new #["a", "b", "a"] = .panic m :=
  ⟨_, BddVariableSet_new_panic_duplicate _ (by decide) (by
    intro s hs; simp at hs; rcases hs with rfl | rfl | rfl <;> decide) (by decide)⟩

example : ∃ m, Algo3.BddVariableSet_new #["a", "b&c"] = .panic m :=
  ⟨_, BddVariableSet_new_panic_invalid _ (by decide) ⟨"b&c", by simp, by decide⟩⟩

/-- the GENERATED constructor on four names (one of them empty, one non-ASCII): look-ups by name -/
example : ∃ T, Algo3.BddVariableSet_new #["a", "b_1", "é", ""] = .ok T ∧ T.1 = 4 ∧
    Algo2.BddVariableSet_var_by_name T "é" = some 2 ∧ Algo2.BddVariableSet_var_by_name T "zz" = none := by
  obtain ⟨T, hT, hs, _⟩ := BddVariableSet_new_ok #["a", "b_1", "é", ""] (by
    refine ⟨by decide, ?_, by decide⟩
    intro s hs
    simp at hs
    rcases hs with rfl | rfl | rfl | rfl <;> decide)
  refine ⟨T, hT, hs.count, ?_, ?_⟩
  · rw [var_by_name_eq]; show T.2.2["é"]? = _; rw [hs.index]; decide
  · rw [var_by_name_eq]; show T.2.2["zz"]? = _; rw [hs.index]; decide

end B.AlgoEq3Names
