import BddVerif.Gen.Algo2
import BddVerif.Lemmas.AlgoEqApply
import BddVerif.Lemmas.AlgoEqRestrictThm
import BddVerif.Props.C06
import BddVerif.Props.C03
import BddVerif.Drive.Algo2
/-!
Equivalence "translated Rust = hand-written model", second generated file (`Gen/Algo2.lean`), part 1:
the thin wrappers over `apply_with_flip`

* `Bdd::and`, `or`, `imp`, `iff`, `xor`, `and_not` (src/_impl_bdd/_impl_boolean_ops.rs:30-61),
* `Bdd::var_exists`, `var_for_all`, `var_project` (src/_impl_bdd/_impl_relation_ops.rs:11-39),
* `Bdd::var_select`, `select`, `sorted` (src/_impl_bdd/_impl_relation_ops.rs:141-176).

Every statement is about the GENERATED definition `B.Gen.Algo2.<fn>` (referred to by name and unfolded — a change of the
Rust text changes the generated wrapper and breaks the proof) and composes the engine theorem
`B.apply_with_flip_eq_model` (Lemmas/AlgoEqApply.lean). The fuel a wrapper receives is handed to the engine unchanged,
so the bounds are the engine's: `3·|L|·|R| ≤ fuel` and `|L|·|R| + 2 ≤ 2^32`.
The `…_eq_canon` statements chain with the hand-level specification theorems (`Props/C06.lean`, `Lemmas/RelBasic.lean`):
they say that THE TRANSLATED CODE returns the canonical array of the specified Boolean function.
-/
namespace B.AlgoEq2Rel
open B B.Gen Std
attribute [local instance 10000] Rust.monadOutcomeInline

/-! ### the remaining regenerated tables -/

theorem iff_consistent : Consistent Gen.iff_ (fun a b => a == b) := by constructor <;> decide
theorem xor_consistent : Consistent Gen.xor_ (fun a b => a != b) := by constructor <;> decide
theorem imp_consistent : Consistent Gen.imp_ (fun a b => !a || b) := by constructor <;> decide

/-! ### `apply` (the private helper all six connectives call) -/

/-- `apply(left, right, table)` = `apply_with_flip` without flips -/
theorem apply_eq_model (L R : Arr) (n : Nat) (op : Op2) (c : Bool → Bool → Bool)
    (hL : WFo L n) (hR : WFo R n) (hc : Consistent op c) (hsz : L.size * R.size + 2 ≤ 2 ^ 32)
    (fuel : Nat) (hfuel : 3 * (L.size * R.size) ≤ fuel) :
    Algo.apply fuel L R op = .ok (applyWithFlip L R op none none none) := by
  unfold Algo.apply
  rw [apply_with_flip_eq_model L R n op c none none none hL hR hc (by simp) (by simp) (by simp) hsz fuel hfuel]

/-- … and its result is the canonical array of the pointwise connective -/
theorem apply_eq_canon (L R : Arr) (n : Nat) (op : Op2) (c : Bool → Bool → Bool)
    (hL : WFo L n) (hR : WFo R n) (hc : Consistent op c) (hsz : L.size * R.size + 2 ≤ 2 ^ 32)
    (fuel : Nat) (hfuel : 3 * (L.size * R.size) ≤ fuel) :
    Algo.apply fuel L R op = .ok (canon n (fun v => c (Rel.sem L v) (Rel.sem R v))) := by
  rw [apply_eq_model L R n op c hL hR hc hsz fuel hfuel,
    Rel.apply_canon hL hR hc (by simp) (by simp) (by simp)]
  rfl

/-- variable-count mismatch: every connective panics, whatever the fuel -/
theorem apply_panics_mismatch (L R : Arr) (n m : Nat) (op : Op2) (hL : WFo L n) (hR : WFo R m) (hnm : m ≠ n)
    (fuel : Nat) :
    Algo.apply fuel L R op = .panic "Var count mismatch: BDDs are not compatible. {} != {}" := by
  unfold Algo.apply
  rw [apply_with_flip_panics_mismatch L R n m op none none none hL hR hnm fuel]

/-! ### the six connectives -/

section connectives
variable (L R : Arr) (n : Nat) (hL : WFo L n) (hR : WFo R n) (hsz : L.size * R.size + 2 ≤ 2 ^ 32)
  (fuel : Nat) (hfuel : 3 * (L.size * R.size) ≤ fuel)
include hL hR hsz hfuel

/-- **`Bdd::and` as translated = `B.bddAnd`** -/
theorem Bdd_and_eq_model : Algo2.Bdd_and fuel L R = .ok (bddAnd L R) := by
  unfold Algo2.Bdd_and
  rw [apply_eq_model L R n _ _ hL hR Rel.and_consistent hsz fuel hfuel]; rfl

theorem Bdd_and_eq_canon : Algo2.Bdd_and fuel L R = .ok (canon n (fun v => Rel.sem L v && Rel.sem R v)) := by
  unfold Algo2.Bdd_and
  rw [apply_eq_canon L R n _ _ hL hR Rel.and_consistent hsz fuel hfuel]

/-- **`Bdd::or`** -/
theorem Bdd_or_eq_model : Algo2.Bdd_or fuel L R = .ok (applyWithFlip L R Gen.or_ none none none) := by
  unfold Algo2.Bdd_or
  rw [apply_eq_model L R n _ _ hL hR Rel.or_consistent hsz fuel hfuel]

theorem Bdd_or_eq_canon : Algo2.Bdd_or fuel L R = .ok (canon n (fun v => Rel.sem L v || Rel.sem R v)) := by
  unfold Algo2.Bdd_or
  rw [apply_eq_canon L R n _ _ hL hR Rel.or_consistent hsz fuel hfuel]

/-- **`Bdd::imp`** -/
theorem Bdd_imp_eq_model : Algo2.Bdd_imp fuel L R = .ok (applyWithFlip L R Gen.imp_ none none none) := by
  unfold Algo2.Bdd_imp
  rw [apply_eq_model L R n _ _ hL hR imp_consistent hsz fuel hfuel]

theorem Bdd_imp_eq_canon : Algo2.Bdd_imp fuel L R = .ok (canon n (fun v => !Rel.sem L v || Rel.sem R v)) := by
  unfold Algo2.Bdd_imp
  rw [apply_eq_canon L R n _ _ hL hR imp_consistent hsz fuel hfuel]

/-- **`Bdd::iff`** -/
theorem Bdd_iff_eq_model : Algo2.Bdd_iff fuel L R = .ok (applyWithFlip L R Gen.iff_ none none none) := by
  unfold Algo2.Bdd_iff
  rw [apply_eq_model L R n _ _ hL hR iff_consistent hsz fuel hfuel]

theorem Bdd_iff_eq_canon : Algo2.Bdd_iff fuel L R = .ok (canon n (fun v => Rel.sem L v == Rel.sem R v)) := by
  unfold Algo2.Bdd_iff
  rw [apply_eq_canon L R n _ _ hL hR iff_consistent hsz fuel hfuel]

/-- **`Bdd::xor`** -/
theorem Bdd_xor_eq_model : Algo2.Bdd_xor fuel L R = .ok (applyWithFlip L R Gen.xor_ none none none) := by
  unfold Algo2.Bdd_xor
  rw [apply_eq_model L R n _ _ hL hR xor_consistent hsz fuel hfuel]

theorem Bdd_xor_eq_canon : Algo2.Bdd_xor fuel L R = .ok (canon n (fun v => Rel.sem L v != Rel.sem R v)) := by
  unfold Algo2.Bdd_xor
  rw [apply_eq_canon L R n _ _ hL hR xor_consistent hsz fuel hfuel]

/-- **`Bdd::and_not`** -/
theorem Bdd_and_not_eq_model : Algo2.Bdd_and_not fuel L R = .ok (applyWithFlip L R Gen.and_not_ none none none) := by
  unfold Algo2.Bdd_and_not
  rw [apply_eq_model L R n _ _ hL hR Rel.and_not_consistent hsz fuel hfuel]

theorem Bdd_and_not_eq_canon :
    Algo2.Bdd_and_not fuel L R = .ok (canon n (fun v => Rel.sem L v && !Rel.sem R v)) := by
  unfold Algo2.Bdd_and_not
  rw [apply_eq_canon L R n _ _ hL hR Rel.and_not_consistent hsz fuel hfuel]

end connectives

/-- the fuel `Drive.Algo.fuel2 L R` (what the drivers pass to one binary operation) covers the bound -/
theorem fuel2_ok (L R : Arr) : 3 * (L.size * R.size) ≤ Drive.Algo.fuel2 L R := by
  unfold Drive.Algo.fuel2; omega

/-- all six connectives panic on operands over different variable counts (any fuel) -/
theorem connectives_panic_mismatch (L R : Arr) (n m : Nat) (hL : WFo L n) (hR : WFo R m) (hnm : m ≠ n) (fuel : Nat) :
    Algo2.Bdd_and fuel L R = .panic "Var count mismatch: BDDs are not compatible. {} != {}" ∧
    Algo2.Bdd_or fuel L R = .panic "Var count mismatch: BDDs are not compatible. {} != {}" ∧
    Algo2.Bdd_imp fuel L R = .panic "Var count mismatch: BDDs are not compatible. {} != {}" ∧
    Algo2.Bdd_iff fuel L R = .panic "Var count mismatch: BDDs are not compatible. {} != {}" ∧
    Algo2.Bdd_xor fuel L R = .panic "Var count mismatch: BDDs are not compatible. {} != {}" ∧
    Algo2.Bdd_and_not fuel L R = .panic "Var count mismatch: BDDs are not compatible. {} != {}" := by
  unfold Algo2.Bdd_and Algo2.Bdd_or Algo2.Bdd_imp Algo2.Bdd_iff Algo2.Bdd_xor Algo2.Bdd_and_not
  simp only [apply_panics_mismatch L R n m _ hL hR hnm fuel]
  exact ⟨trivial, trivial, trivial, trivial, trivial, trivial⟩

/-! ### `var_exists`, `var_for_all`, `var_project` -/

section varq
variable (A : Arr) (n x : Nat) (hA : WFo A n) (hx : x < n) (hsz : A.size * A.size + 2 ≤ 2 ^ 32)
  (fuel : Nat) (hfuel : 3 * (A.size * A.size) ≤ fuel)
include hA hx hsz hfuel

/-- **`Bdd::var_exists` as translated = `B.varExists`** (`= B.Rel.varExists`, the same definition) -/
theorem Bdd_var_exists_eq_model : Algo2.Bdd_var_exists fuel A x = .ok (varExists A x) := by
  unfold Algo2.Bdd_var_exists Algo.Bdd_fused_binary_flip_op
  simp only
  rw [apply_with_flip_eq_model A A n _ _ none (some x) none hA hA Rel.or_consistent (by simp)
    (by intro y h; cases h; exact hx) (by simp) hsz fuel hfuel]
  rfl

/-- chained with `Props.C03.var_exists_canon`: the translated code returns the canonical array of
    `v ↦ A(v[x:=1]) ∨ A(v[x:=0])` -/
theorem Bdd_var_exists_eq_canon :
    Algo2.Bdd_var_exists fuel A x =
      .ok (canon n (fun v => evW A n (upd v x true) (root A) || evW A n (upd v x false) (root A))) := by
  rw [Bdd_var_exists_eq_model A n x hA hx hsz fuel hfuel, Props.C03.var_exists_canon A n x hA hx]

/-- **`Bdd::var_for_all` as translated = `B.varForAll`** -/
theorem Bdd_var_for_all_eq_model : Algo2.Bdd_var_for_all fuel A x = .ok (varForAll A x) := by
  unfold Algo2.Bdd_var_for_all Algo.Bdd_fused_binary_flip_op
  simp only
  rw [apply_with_flip_eq_model A A n _ _ none (some x) none hA hA Rel.and_consistent (by simp)
    (by intro y h; cases h; exact hx) (by simp) hsz fuel hfuel]
  rfl

theorem Bdd_var_for_all_eq_canon :
    Algo2.Bdd_var_for_all fuel A x =
      .ok (canon n (fun v => evW A n (upd v x true) (root A) && evW A n (upd v x false) (root A))) := by
  rw [Bdd_var_for_all_eq_model A n x hA hx hsz fuel hfuel, Props.C03.var_for_all_canon A n x hA hx]

/-- **`Bdd::var_project`** (deprecated alias) -/
theorem Bdd_var_project_eq_model : Algo2.Bdd_var_project fuel A x = .ok (varExists A x) := by
  unfold Algo2.Bdd_var_project
  rw [Bdd_var_exists_eq_model A n x hA hx hsz fuel hfuel]

end varq

/-- the two `varExists` of the hand models (Model/Nested.lean and Model/Relation.lean) are the same function -/
theorem varExists_eq_rel (A : Arr) (x : Nat) : varExists A x = Rel.varExists A x := rfl
theorem varForAll_eq_rel (A : Arr) (x : Nat) : varForAll A x = Rel.varForAll A x := rfl

/-- the general refusal of `apply_with_flip` when the RIGHT flip is out of range: whatever the right operand is (even an
    ill-formed array), the call does not return -/
theorem awf_right_flip_panics (L R : Arr) (zl : Node) (hL : L[0]? = some zl) (x : Nat) (hx : zl.var ≤ x)
    (fl fo : Option Nat) (op : Op2) (fuel : Nat) :
    ∃ m, Algo.apply_with_flip fuel L R fl (some x) fo op = .panic m := by
  cases hR : R[0]? with
  | none =>
    refine ⟨"index out of bounds", ?_⟩
    rw [AlgoEqA.desugar fuel L R zl.var]
    unfold AlgoEqA.skel
    simp only [AlgoEqA.num_vars_eq, hL, hR, AlgoEqA.bind_ok]
    rfl
  | some zr =>
    by_cases hv : zr.var = zl.var
    · exact ⟨_, AlgoEqA.desugar_flip_panic fuel L R fl (some x) fo op zl zr hL hR hv ⟨x, Or.inr (Or.inl rfl), hx⟩⟩
    · exact ⟨_, AlgoEqA.desugar_mismatch fuel L R fl (some x) fo op zl zr hL hR hv⟩

/-- **panic case**: `var_exists` / `var_for_all` / `var_project` on a variable `≥ num_vars` panic (`check_flip_bounds`), for
    every fuel; the hand models `varExistsO`, `Rel.varExistsO` … are `none` / `panic` exactly then -/
theorem Bdd_var_exists_panics (A : Arr) (n x : Nat) (hA : WFo A n) (hx : n ≤ x) (fuel : Nat) :
    Algo2.Bdd_var_exists fuel A x = .panic "Cannot flip variable {} in Bdd with {} variables." ∧
    Algo2.Bdd_var_for_all fuel A x = .panic "Cannot flip variable {} in Bdd with {} variables." ∧
    Algo2.Bdd_var_project fuel A x = .panic "Cannot flip variable {} in Bdd with {} variables." ∧
    varExistsO A x = none ∧ varForAllO A x = none ∧
    (Rel.varExistsO A x).isPanic = true ∧ (Rel.varForAllO A x).isPanic = true := by
  have h1 : ∀ op, Algo.apply_with_flip fuel A A none (some x) none op =
      .panic "Cannot flip variable {} in Bdd with {} variables." := fun op =>
    apply_with_flip_panics_flip A A n op none (some x) none hA hA x (Or.inr (Or.inl rfl)) hx fuel
  have hn : ¬ x < numVars A := by rw [numVars_of_wf hA]; omega
  refine ⟨?_, ?_, ?_, ?_, ?_, ?_, ?_⟩
  · unfold Algo2.Bdd_var_exists Algo.Bdd_fused_binary_flip_op; simp only; rw [h1]
  · unfold Algo2.Bdd_var_for_all Algo.Bdd_fused_binary_flip_op; simp only; rw [h1]
  · unfold Algo2.Bdd_var_project Algo2.Bdd_var_exists Algo.Bdd_fused_binary_flip_op; simp only; rw [h1]
  · simp [varExistsO, hn]
  · simp [varForAllO, hn]
  · simp [Rel.varExistsO, hn, Outcome.isPanic]
  · simp [Rel.varForAllO, hn, Outcome.isPanic]

/-- both cases at once, against the hand model with the explicit panic -/
theorem Bdd_var_exists_eq_modelO (A : Arr) (n x : Nat) (hA : WFo A n) (hsz : A.size * A.size + 2 ≤ 2 ^ 32)
    (fuel : Nat) (hfuel : 3 * (A.size * A.size) ≤ fuel) :
    (Algo2.Bdd_var_exists fuel A x).toOption = varExistsO A x ∧
    (Algo2.Bdd_var_for_all fuel A x).toOption = varForAllO A x := by
  by_cases hx : x < n
  · rw [Bdd_var_exists_eq_model A n x hA hx hsz fuel hfuel, Bdd_var_for_all_eq_model A n x hA hx hsz fuel hfuel]
    simp [varExistsO, varForAllO, numVars_of_wf hA, hx, Outcome.toOption]
  · obtain ⟨h1, h2, _, h4, h5, _⟩ := Bdd_var_exists_panics A n x hA (by omega) fuel
    rw [h1, h2, h4, h5]; exact ⟨rfl, rfl⟩

/-- with the fuel the driver passes (`fuel2 A A`) -/
theorem Bdd_var_exists_eq_model_driver (A : Arr) (n x : Nat) (hA : WFo A n) (hx : x < n)
    (hsz : A.size * A.size + 2 ≤ 2 ^ 32) :
    Algo2.Bdd_var_exists (Drive.Algo.fuel2 A A) A x = .ok (varExists A x) ∧
    Algo2.Bdd_var_for_all (Drive.Algo.fuel2 A A) A x = .ok (varForAll A x) ∧
    Algo2.Bdd_var_project (Drive.Algo.fuel2 A A) A x = .ok (varExists A x) :=
  ⟨Bdd_var_exists_eq_model A n x hA hx hsz _ (fuel2_ok A A), Bdd_var_for_all_eq_model A n x hA hx hsz _ (fuel2_ok A A),
   Bdd_var_project_eq_model A n x hA hx hsz _ (fuel2_ok A A)⟩

/-! ### `var_select`, `select` -/

theorem num_vars_ok {A : Arr} {n : Nat} (hA : WFo A n) : Algo.Bdd_num_vars A = .ok n := by
  rw [AlgoEqA.num_vars_eq, hA.zero]

theorem mk_literal_eq (n x : Nat) (b : Bool) : Algo.Bdd_mk_literal n x b = mkLiteral n x b := by
  cases b <;> rfl

theorem mkLiteral_size (n x : Nat) (b : Bool) : (mkLiteral n x b).size = 3 := by
  cases b <;> rfl

/-- **`Bdd::var_select` as translated = `B.varSelect`**; the literal has 3 nodes, so the bounds are `9·|A| ≤ fuel` and
    `3·|A| + 2 ≤ 2^32` -/
theorem Bdd_var_select_eq_model (A : Arr) (n x : Nat) (b : Bool) (hA : WFo A n) (hx : x < n)
    (hsz : A.size * 3 + 2 ≤ 2 ^ 32) (fuel : Nat) (hfuel : 3 * (A.size * 3) ≤ fuel) :
    Algo2.Bdd_var_select fuel A x b = .ok (varSelect A x b) := by
  obtain ⟨hw, _⟩ := Rel.mkLiteral_spec n x b hx
  unfold Algo2.Bdd_var_select
  rw [num_vars_ok hA]
  simp only [AlgoEqA.bind_ok, mk_literal_eq]
  rw [Bdd_and_eq_model A (mkLiteral n x b) n hA hw (by rw [mkLiteral_size]; exact hsz) fuel
    (by rw [mkLiteral_size]; exact hfuel)]
  unfold varSelect
  rw [numVars_of_wf hA]

/-- chained with `Props.C06.var_select_canon` -/
theorem Bdd_var_select_eq_canon (A : Arr) (n x : Nat) (b : Bool) (hA : WFo A n) (hx : x < n)
    (hsz : A.size * 3 + 2 ≤ 2 ^ 32) (fuel : Nat) (hfuel : 3 * (A.size * 3) ≤ fuel) :
    Algo2.Bdd_var_select fuel A x b = .ok (canon n (fun v => Rel.sem A v && (v x == b))) := by
  rw [Bdd_var_select_eq_model A n x b hA hx hsz fuel hfuel, Props.C06.var_select_canon hA x b hx]

/-- the driver calls `var_select` with `fuel2 A A` -/
theorem Bdd_var_select_eq_model_driver (A : Arr) (n x : Nat) (b : Bool) (hA : WFo A n) (hx : x < n)
    (hsz : A.size * 3 + 2 ≤ 2 ^ 32) :
    Algo2.Bdd_var_select (Drive.Algo.fuel2 A A) A x b = .ok (varSelect A x b) := by
  refine Bdd_var_select_eq_model A n x b hA hx hsz _ ?_
  unfold Drive.Algo.fuel2
  rcases Nat.lt_or_ge A.size 2 with h | h
  · have : A.size * A.size ≥ 0 := Nat.zero_le _
    omega
  · have : 2 * A.size ≤ A.size * A.size := Nat.mul_le_mul_right _ h
    omega

/-- **`Bdd::select` as translated = `B.select`** for literals over the variable set. The clause Bdd has at most `n + 2`
    nodes, so `3·|A|·(n+2) ≤ fuel` and `|A|·(n+2) + 2 ≤ 2^32` suffice (and `n ≤ 2^16`, the range of `BddVariable`). -/
theorem Bdd_select_eq_model (A : Arr) (n : Nat) (lits : Array (Nat × Bool)) (hA : WFo A n)
    (hl : ∀ l ∈ lits.toList, l.1 < n) (hn : n ≤ 65536)
    (hsz : A.size * (mkPartialValuation n (fromValues lits.toList)).size + 2 ≤ 2 ^ 32)
    (fuel : Nat) (hfuel : 3 * (A.size * (mkPartialValuation n (fromValues lits.toList)).size) ≤ fuel) :
    Algo2.Bdd_select fuel A lits = .ok (select A lits.toList) := by
  have hlen := Rel.length_fromValues lits.toList n hl
  obtain ⟨hw, _⟩ := Rel.mkPartialValuation_spec n (fromValues lits.toList) hlen
  unfold Algo2.Bdd_select
  rw [AlgoEqR.from_values_eq_model, num_vars_ok hA]
  simp only [AlgoEqA.bind_ok]
  rw [AlgoEqR.mk_partial_valuation_eq_model n _ (by simp only [List.size_toArray]; omega)]
  simp only [AlgoEqA.bind_ok]
  rw [Bdd_and_eq_model A _ n hA hw hsz fuel hfuel]
  unfold select
  rw [numVars_of_wf hA]

/-! closed-form bounds for `select` -/

theorem clauseArr_size (n : Nat) : ∀ l : List (Nat × Bool), (clauseArr n l).size = l.length + 2
  | [] => rfl
  | (x, b) :: t => by
    simp only [clauseArr, Array.size_push, clauseArr_size n t, List.length_cons]

theorem toValuesFrom_length_le : ∀ (pv : PVal) (i : Nat), (PVal.toValuesFrom i pv).length ≤ pv.length
  | [], _ => Nat.le_refl _
  | none :: t, i => by
    simp only [PVal.toValuesFrom, List.length_cons]
    exact Nat.le_succ_of_le (toValuesFrom_length_le t (i + 1))
  | some b :: t, i => by
    simp only [PVal.toValuesFrom, List.length_cons]
    exact Nat.succ_le_succ (toValuesFrom_length_le t (i + 1))

/-- the clause Bdd of a partial valuation: at most one node per position, plus the terminals -/
theorem mkPartialValuation_size_le (n : Nat) (pv : PVal) : (mkPartialValuation n pv).size ≤ pv.length + 2 := by
  unfold mkPartialValuation PVal.toValues
  rw [clauseArr_size]
  have := toValuesFrom_length_le pv 0
  omega

/-- `select` with bounds in `|A|` and `n` only -/
theorem Bdd_select_eq_model' (A : Arr) (n : Nat) (lits : Array (Nat × Bool)) (hA : WFo A n)
    (hl : ∀ l ∈ lits.toList, l.1 < n) (hn : n ≤ 65536) (hsz : A.size * (n + 2) + 2 ≤ 2 ^ 32)
    (fuel : Nat) (hfuel : 3 * (A.size * (n + 2)) ≤ fuel) :
    Algo2.Bdd_select fuel A lits = .ok (select A lits.toList) := by
  have h1 := mkPartialValuation_size_le n (fromValues lits.toList)
  have h2 := Rel.length_fromValues lits.toList n hl
  have h3 : A.size * (mkPartialValuation n (fromValues lits.toList)).size ≤ A.size * (n + 2) :=
    Nat.mul_le_mul_left _ (by omega)
  exact Bdd_select_eq_model A n lits hA hl hn (by omega) fuel (by omega)

/-- chained with `Props.C06.select_canon`: the translated `select` returns the canonical array of
    "operand ∧ agrees with the literals (last literal of a variable wins)" -/
theorem Bdd_select_eq_canon (A : Arr) (n : Nat) (lits : Array (Nat × Bool)) (hA : WFo A n)
    (hl : ∀ l ∈ lits.toList, l.1 < n) (hn : n ≤ 65536) (hsz : A.size * (n + 2) + 2 ≤ 2 ^ 32)
    (fuel : Nat) (hfuel : 3 * (A.size * (n + 2)) ≤ fuel) :
    Algo2.Bdd_select fuel A lits =
      .ok (canon n (fun v => Rel.sem A v && Rel.agrees (fromValues lits.toList) v)) := by
  rw [Bdd_select_eq_model' A n lits hA hl hn hsz fuel hfuel, Props.C06.select_canon hA lits.toList hl]

/-- the driver calls `select` with `fuelBig A = 64·(|A|²·(n+2) + 64)·(n+2)` -/
theorem Bdd_select_eq_model_driver (A : Arr) (n : Nat) (lits : Array (Nat × Bool)) (hA : WFo A n)
    (hl : ∀ l ∈ lits.toList, l.1 < n) (hn : n ≤ 65536) (hsz : A.size * (n + 2) + 2 ≤ 2 ^ 32) :
    Algo2.Bdd_select (Drive.Algo2.fuelBig A) A lits = .ok (select A lits.toList) := by
  refine Bdd_select_eq_model' A n lits hA hl hn hsz _ ?_
  unfold Drive.Algo2.fuelBig
  rw [numVars_of_wf hA]
  have h1 : A.size ≤ A.size * A.size := Nat.le_mul_of_pos_right _ hA.size_pos
  have h2 : A.size * (n + 2) ≤ A.size * A.size * (n + 2) := Nat.mul_le_mul_right _ h1
  have h3 : A.size * A.size * (n + 2) + 64 ≤ (A.size * A.size * (n + 2) + 64) * (n + 2) :=
    Nat.le_mul_of_pos_right _ (by omega)
  have h4 : 64 * (A.size * A.size * (n + 2) + 64) * (n + 2) = 64 * ((A.size * A.size * (n + 2) + 64) * (n + 2)) :=
    Nat.mul_assoc _ _ _
  omega

/-! ### non-vacuity: concrete runs of the GENERATED functions, pinned through the theorems
(`Std.HashMap` does not reduce in the kernel; the specification side `canon …` is evaluated by `decide`) -/

/-- `(x0 ∧ x2) ∧ x1` over 3 variables with the minimal admissible fuel `3·4·3 = 36` -/
example : Algo2.Bdd_and 36 exX0X2 exX1 = .ok #[⟨3, 0, 0⟩, ⟨3, 1, 1⟩, ⟨2, 0, 1⟩, ⟨1, 0, 2⟩, ⟨0, 0, 3⟩] :=
  (Bdd_and_eq_canon exX0X2 exX1 3 exX0X2_wf exX1_wf (by decide) 36 (by decide)).trans
    (congrArg Outcome.ok (by decide))

/-- `(x0 ∧ x2) xor x1` -/
example : Algo2.Bdd_xor 36 exX0X2 exX1 =
    .ok (canon 3 (fun v => Rel.sem exX0X2 v != Rel.sem exX1 v)) :=
  Bdd_xor_eq_canon exX0X2 exX1 3 exX0X2_wf exX1_wf (by decide) 36 (by decide)

/-- `∃ x0. (x0 ∧ x2)` is literally the array of `x2`; `∀ x0. (x0 ∧ x2)` the one-node `false` -/
example : Algo2.Bdd_var_exists (Drive.Algo.fuel2 exX0X2 exX0X2) exX0X2 0 = .ok #[⟨3, 0, 0⟩, ⟨3, 1, 1⟩, ⟨2, 0, 1⟩] :=
  (Bdd_var_exists_eq_canon exX0X2 3 0 exX0X2_wf (by decide) (by decide) _ (fuel2_ok _ _)).trans
    (congrArg Outcome.ok (by decide))
example : Algo2.Bdd_var_for_all 48 exX0X2 0 = .ok #[⟨3, 0, 0⟩] :=
  (Bdd_var_for_all_eq_canon exX0X2 3 0 exX0X2_wf (by decide) (by decide) 48 (by decide)).trans
    (congrArg Outcome.ok (by decide))

/-- variable 3 of a 3-variable Bdd: panic for every fuel -/
example (fuel : Nat) : Algo2.Bdd_var_exists fuel exX0X2 3 = .panic "Cannot flip variable {} in Bdd with {} variables." :=
  (Bdd_var_exists_panics exX0X2 3 3 exX0X2_wf (Nat.le_refl _) fuel).1

/-- `select` with a repeated variable: `[(2,false),(1,true),(2,true)]` means `x1 ∧ x2`; result `x0 ∧ x1 ∧ x2` -/
example : Algo2.Bdd_select (Drive.Algo2.fuelBig exX0X2) exX0X2 #[(2, false), (1, true), (2, true)] =
    .ok #[⟨3, 0, 0⟩, ⟨3, 1, 1⟩, ⟨2, 0, 1⟩, ⟨1, 0, 2⟩, ⟨0, 0, 3⟩] :=
  (Bdd_select_eq_model_driver exX0X2 3 _ exX0X2_wf (by decide) (by decide) (by decide)).trans
    (congrArg Outcome.ok ((Props.C06.select_canon exX0X2_wf _ (by decide)).trans (by decide)))

/-- `var_select x1 := true` of `x0 ∧ x2`, fuel `9·|A| = 36` -/
example : Algo2.Bdd_var_select 36 exX0X2 1 true =
    .ok #[⟨3, 0, 0⟩, ⟨3, 1, 1⟩, ⟨2, 0, 1⟩, ⟨1, 0, 2⟩, ⟨0, 0, 3⟩] :=
  (Bdd_var_select_eq_canon exX0X2 3 1 true exX0X2_wf (by decide) (by decide) 36 (by decide)).trans
    (congrArg Outcome.ok (by decide))

end B.AlgoEq2Rel
