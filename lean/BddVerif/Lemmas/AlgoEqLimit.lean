import BddVerif.Lemmas.AlgoEqLimitSim
import BddVerif.Lemmas.AlgoEqLimitCongr
import BddVerif.Drive.Algo
import BddVerif.Lemmas.AlgoEqDry
/-!
**`Gen.Algo.apply_with_flip_and_limit` (regenerated from the Rust text on every run) = `Lim.applyLimit` (hand model).**

* `apply_with_flip_and_limit_eq_model` — `WFo` operands, table total on terminals, flips `< n`, operand sizes `≤ 2^32`,
  `limit ≤ 2^32` or `|L|·|R| + 2 ≤ 2^32`, any limit (including 0), any `fuel ≥ 4·|L|·|R| + 2·n + 8`;
  `…_driver` for the fuel `Drive.Algo.fuel2` passes; `…_spec`: through `Lim.applyLimit_eq` (= `limit_spec` of C05) the
  translated function returns `Some` of the unlimited model result iff that has at most `limit` nodes;
* `apply_with_flip_and_limit_panic_vars` / `_panic_flip` — the two intended panics, for arbitrary operands and fuel;
* `Bdd_fused_binary_flip_op_with_limit_eq_model`, `Bdd_binary_op_with_limit_eq_model`,
  `Bdd_fused_binary_flip_op_with_limit_panic` — the public entry points against `Lim.fusedBinaryFlipOpWithLimit`.

Only the four initialisations before the loop (`loopInit`) are restated here; the loop body is reached by `unfold` +
`forIn_range_eq_loopN` and compared with the hand-written step function `limStep` (AlgoEqLimitStep.lean).
-/
namespace B.AlgoDL
open B B.Gen B.Lim Std

/-- final loop state, depending on the answer of the model -/
def LimFinal (res : Option (St × Nat)) (σ : LS) : Prop :=
  match res with
  | some out => σ = mkL out.1 #[]
  | none => σ.1 = some none

/-- the whole loop, from an initial state with an empty `finished` map -/
theorem lim_loop (Γ : Ctx) (ok : LOk Γ) (lim : Nat) (hB : lim ≤ u32Range ∨ Γ.L.size * Γ.R.size + 2 ≤ u32Range)
    (step : LS → Outcome (ForInStep LS)) (hstep : LimStepSpec Γ lim step)
    (l r : Nat) (hl : l < Γ.L.size) (hr : r < Γ.R.size) (s0 : St) (hg0 : Good Γ s0) (hF0 : s0.finished.size = 0)
    (st0 : Array (Nat × Nat)) (hst : st0 = #[].push (l, r))
    (fuel : Nat) (hfuel : 4 * (Γ.L.size * Γ.R.size) + 2 * Γ.n + 8 ≤ fuel) :
    ∃ σ', LimFinal (applyRecLim Γ lim (Γ.n + 2) l r s0) σ' ∧ loopN step fuel (mkL s0 st0) = .ok σ' := by
  subst hst
  have hN : ∀ F, InRM Γ F → F.size ≤ Γ.L.size * Γ.R.size := fun F h => hashMap_size_le _ _ F h
  have h := lim_sim Γ ok lim _ hN hB step hstep (Γ.n + 2) l r s0 #[] hl hr (by omega) hg0
  cases e : applyRecLim Γ lim (Γ.n + 2) l r s0 with
  | none =>
    rw [e] at h
    obtain ⟨k, σ', hσ, hk, hrun⟩ := h
    refine ⟨σ', hσ, ?_⟩
    have := hrun (fuel - k)
    rw [Nat.sub_add_cancel (by omega)] at this
    exact this
  | some out =>
    rw [e] at h
    obtain ⟨hg', _, _, k, hk, hrun⟩ := h
    have hsz := hN _ hg'.inr
    simp only [hF0] at hk
    have := hrun (fuel - k)
    rw [Nat.sub_add_cancel (by omega)] at this
    refine ⟨_, rfl, ?_⟩
    rw [this]
    obtain ⟨j, hj⟩ : ∃ j, fuel - k = j + 1 := ⟨fuel - k - 1, by omega⟩
    rw [hj]
    have hlast := hstep (mkL out.1 #[]) (by intro t ht; simp [mkL] at ht)
    exact loopN_done (s' := mkL out.1 #[]) (by rw [hlast]; rfl) j

theorem emptyMap_equiv {κ ν : Type} [BEq κ] [Hashable κ] [LawfulBEq κ] (a b : Nat) :
    (HashMap.emptyWithCapacity a : HashMap κ ν).Equiv (HashMap.emptyWithCapacity b) :=
  HashMap.Equiv.of_forall_getElem?_eq (fun k => by simp)

/-- lines 540-559: the state of the loop variables `result`, `existing`, `finished`, `is_not_empty` before the loop -/
def loopInit (L R : Arr) (n : Nat) : St :=
  ⟨Algo.Bdd_mk_true n,
    ((Rust.hashMapWithCapacity (max (Algo.Bdd_size L) (Algo.Bdd_size R))).insert (Algo.BddNode_mk_zero n)
      Algo.BddPointer_zero).insert (Algo.BddNode_mk_one n) Algo.BddPointer_one,
    Rust.hashMapWithCapacity (max (Algo.Bdd_size L) (Algo.Bdd_size R)), false⟩

/-- **`apply_with_flip_and_limit` (translated from the Rust text) = `Lim.applyLimit` (hand-written model)**, for operands
    that are well-formed by level, a table that is total on terminals, flips in range, any limit, and any fuel
    `≥ 4·|L|·|R| + 2·n + 8`. Pointers are `u32` in the Rust code (`root_pointer` truncates): the operands have at most
    `2^32` nodes and either the limit or the number of tasks keeps the result below `2^32` nodes. -/
theorem apply_with_flip_and_limit_eq_model (fuel lim : Nat) (L R : Arr) (fl fr fo : Option Nat) (op : Op2) (n : Nat)
    (hL : WFo L n) (hR : WFo R n) (htot : ∀ a b, (op (some a) (some b)).isSome = true)
    (hfl : flipOk n fl = true) (hfr : flipOk n fr = true) (hfo : flipOk n fo = true)
    (h32L : L.size ≤ u32Range) (h32R : R.size ≤ u32Range)
    (hB : lim ≤ u32Range ∨ L.size * R.size + 2 ≤ u32Range)
    (hfuel : 4 * (L.size * R.size) + 2 * n + 8 ≤ fuel) :
    Gen.Algo.apply_with_flip_and_limit fuel lim L R fl fr fo op = .ok (applyLimit lim L R op fl fr fo) := by
  have ok : LOk ⟨L, R, n, op, fl, fr, fo⟩ := ⟨hL, hR, htot⟩
  have hl : root L < L.size := by have := WFo.size_pos hL; unfold root; omega
  have hr : root R < R.size := by have := WFo.size_pos hR; unfold root; omega
  unfold Gen.Algo.apply_with_flip_and_limit
  simp only [forIn_range_eq_loopN]
  rw [num_vars_eq L (WFo.size_pos hL), num_vars_eq R (WFo.size_pos hR), WFo.numVars_eq hL, WFo.numVars_eq hR]
  simp only [bind_ok, bne_self_eq_false, Bool.false_eq_true, if_false]
  rw [check_flip_ok n fl hfl, check_flip_ok n fr hfr, check_flip_ok n fo hfo,
    root_pointer_eq L (WFo.size_pos hL) h32L, root_pointer_eq R (WFo.size_pos hR) h32R]
  simp only [bind_ok]
  by_cases hlim : lim = 0
  · subst hlim
    simp [applyLimit, pure_eq]
  have hl0 : (lim == 0) = false := by simpa using hlim
  simp only [hl0, Bool.false_eq_true, if_false]
  have hg0 : Good ⟨L, R, n, op, fl, fr, fo⟩ (loopInit L R n) := by
    refine ⟨?_, ?_⟩
    · intro p hp; simp [loopInit, Rust.hashMapWithCapacity] at hp
    · simp [loopInit, Algo.Bdd_mk_true]
  have hF0 : (loopInit L R n).finished.size = 0 := by simp [loopInit, Rust.hashMapWithCapacity]
  have heq0 : StEq (loopInit L R n) (initSt n) := by
    refine ⟨rfl, rfl, ?_, ?_⟩
    · exact ((emptyMap_equiv _ _).insert _ _).insert _ _
    · exact emptyMap_equiv _ _
  refine bind_loop_eq _ _ _ _ _ _ (lim_loop ⟨L, R, n, op, fl, fr, fo⟩ ok lim hB _ ?_ (root L) (root R) hl hr
    (loopInit L R n) hg0 hF0 _ rfl fuel hfuel) ?_
  · -- the generated loop body is `limStep`
    intro σ htop
    obtain ⟨ret, res, ne, ex, st, fin⟩ := σ
    simp only [limStep, limFinish, limPush]
    simp only [] at htop
    cases hb : st.back? with
    | none => rfl
    | some t =>
      obtain ⟨htl, htr⟩ := htop t hb
      simp only []
      by_cases h1 : fin.contains t = true
      · simp only [h1, if_true]; rfl
      simp only [h1, if_false, Bool.false_eq_true]
      -- merge the branches of the two `if`s that compute the children into `kids`
      simp only [pure_P]
      simp only [var_of_eq _ _ htl, var_of_eq _ _ htr, low_link_of_eq _ _ htl, low_link_of_eq _ _ htr,
        high_link_of_eq _ _ htl, high_link_of_eq _ _ htr, bind_ok]
      simp only [ite_P_bind, kids_ite]
      generalize min (nodeAt L t.1).var (nodeAt R t.2).var = d
      generalize kids L t.1 d fl = kl
      generalize kids R t.2 d fr = kr
      simp only [P_bind]
      simp only [as_bool_eq, from_bool_fun, is_one_eq, Algo.Bdd_size, Algo.Bdd_push_node, Algo.BddNode_mk_node,
        push_root, bind_ok, lookupT_def]
      generalize lookupT op fin kl.1 kr.1 = nl
      generalize lookupT op fin kl.2 kr.2 = nh
      have efo : (fo == some d) = decide (fo = some d) := by
        by_cases h : fo = some d <;> simp [h]
      rw [efo]
      cases nl with
      | none => by_cases hfo : fo = some d <;> cases nh <;> simp [hfo, P]
      | some lo =>
        cases nh with
        | none => by_cases hfo : fo = some d <;> simp [hfo, P]
        | some hi =>
          simp only []
          by_cases hlh : lo = hi
          · subst hlh
            by_cases hone : lo = 1 <;> simp [hone, P]
          have hn : ∀ nd : Node, (∀ i : Nat, ex[nd]? = some i → False) → ex[nd]? = none := fun nd h => by
            cases h' : ex[nd]? with
            | none => rfl
            | some i => exact (h i h').elim
          by_cases hfo : fo = some d <;> by_cases hone : lo = 1 ∨ hi = 1 <;>
            simp only [hfo, hone, hlh, P, if_true, if_false, decide_true, decide_false, Bool.false_eq_true, beq_iff_eq,
              decide_eq_true_eq, Bool.or_eq_true]
          all_goals (
            split
            · rename_i i hi'
              simp only [hi']
            · rename_i hno
              simp only [hn _ hno]
              split <;> rfl)
  · -- after the loop
    intro σ' hfin
    have hc := applyRecLim_congr ⟨L, R, n, op, fl, fr, fo⟩ lim (n + 2) (root L) (root R) _ _ heq0
    simp only [applyLimit, WFo.numVars_eq hL, hlim, if_false]
    revert hfin hc
    cases applyRecLim ⟨L, R, n, op, fl, fr, fo⟩ lim (n + 2) (root L) (root R) (loopInit L R n) <;>
    cases applyRecLim ⟨L, R, n, op, fl, fr, fo⟩ lim (n + 2) (root L) (root R) (initSt n) <;> intro hfin hc
    · obtain ⟨a, b, c, d, e, g⟩ := σ'
      simp only [LimFinal] at hfin
      subst hfin
      rfl
    · exact hc.elim
    · exact hc.elim
    · rename_i o1 o2
      simp only [LimFinal] at hfin
      subst hfin
      obtain ⟨⟨hres, hne, _, _⟩, _⟩ := hc
      simp only [mkL, Array.back?_empty, pure_eq, Algo.Bdd_size, ← hres, ← hne]
      have hmf : Algo.Bdd_mk_false n = mkFalse n := rfl
      rw [hmf]
      by_cases hq : o1.fst.nonEmpty = true
      · by_cases hz : Array.size o1.fst.res > lim <;> simp [hq, hz]
      · simp [hq]

/-- the fuel passed by the driver (`Drive/Algo.lean`, `fuel2`) is sufficient -/
theorem apply_with_flip_and_limit_eq_model_driver (lim : Nat) (L R : Arr) (fl fr fo : Option Nat) (op : Op2) (n : Nat)
    (hL : WFo L n) (hR : WFo R n) (htot : ∀ a b, (op (some a) (some b)).isSome = true)
    (hfl : flipOk n fl = true) (hfr : flipOk n fr = true) (hfo : flipOk n fo = true)
    (h32L : L.size ≤ u32Range) (h32R : R.size ≤ u32Range)
    (hB : lim ≤ u32Range ∨ L.size * R.size + 2 ≤ u32Range) :
    Gen.Algo.apply_with_flip_and_limit (Drive.Algo.fuel2 L R) lim L R fl fr fo op =
      .ok (applyLimit lim L R op fl fr fo) :=
  apply_with_flip_and_limit_eq_model _ lim L R fl fr fo op n hL hR htot hfl hfr hfo h32L h32R hB
    (by unfold Drive.Algo.fuel2; rw [WFo.numVars_eq hL]; omega)

/-- with the array-level specification of the model (`Lim.applyLimit_eq`, property C05 `limit_spec`): the translated
    function answers `Some r` iff the unlimited model result `r` has at most `limit` nodes -/
theorem apply_with_flip_and_limit_spec (fuel lim : Nat) (L R : Arr) (fl fr fo : Option Nat) (op : Op2) (n : Nat)
    (hL : WFo L n) (hR : WFo R n) (htot : ∀ a b, (op (some a) (some b)).isSome = true)
    (hfl : flipOk n fl = true) (hfr : flipOk n fr = true) (hfo : flipOk n fo = true)
    (h32L : L.size ≤ u32Range) (h32R : R.size ≤ u32Range)
    (hB : lim ≤ u32Range ∨ L.size * R.size + 2 ≤ u32Range)
    (hfuel : 4 * (L.size * R.size) + 2 * n + 8 ≤ fuel) :
    Gen.Algo.apply_with_flip_and_limit fuel lim L R fl fr fo op =
      .ok (if (applyWithFlip L R op fl fr fo).size ≤ lim then some (applyWithFlip L R op fl fr fo) else none) := by
  rw [apply_with_flip_and_limit_eq_model fuel lim L R fl fr fo op n hL hR htot hfl hfr hfo h32L h32R hB hfuel,
    applyLimit_eq]

/-! ### the panics of the entry checks (any fuel, any operands) -/

theorem apply_with_flip_and_limit_panic_vars (fuel lim : Nat) (L R : Arr) (fl fr fo : Option Nat) (op : Op2)
    (h : numVars R ≠ numVars L) : ∃ m, Gen.Algo.apply_with_flip_and_limit fuel lim L R fl fr fo op = .panic m := by
  unfold Gen.Algo.apply_with_flip_and_limit
  rcases Nat.eq_zero_or_pos L.size with h0 | h0
  · obtain ⟨m, hm⟩ := num_vars_panic L h0
    exact ⟨m, by rw [hm]; rfl⟩
  rw [num_vars_eq L h0, bind_ok]
  rcases Nat.eq_zero_or_pos R.size with h1 | h1
  · obtain ⟨m, hm⟩ := num_vars_panic R h1
    exact ⟨m, by rw [hm]; rfl⟩
  rw [num_vars_eq R h1, bind_ok]
  have : (numVars R != numVars L) = true := by simpa using h
  simp only [this, if_true]
  exact ⟨_, rfl⟩

theorem apply_with_flip_and_limit_panic_flip (fuel lim : Nat) (L R : Arr) (fl fr fo : Option Nat) (op : Op2)
    (h : (flipOk (numVars L) fl && flipOk (numVars L) fr && flipOk (numVars L) fo) = false) :
    ∃ m, Gen.Algo.apply_with_flip_and_limit fuel lim L R fl fr fo op = .panic m := by
  by_cases hv : numVars R ≠ numVars L
  · exact apply_with_flip_and_limit_panic_vars fuel lim L R fl fr fo op hv
  have hv' : numVars R = numVars L := by omega
  unfold Gen.Algo.apply_with_flip_and_limit
  rcases Nat.eq_zero_or_pos L.size with h0 | h0
  · obtain ⟨m, hm⟩ := num_vars_panic L h0
    exact ⟨m, by rw [hm]; rfl⟩
  rw [num_vars_eq L h0, bind_ok]
  rcases Nat.eq_zero_or_pos R.size with h1 | h1
  · obtain ⟨m, hm⟩ := num_vars_panic R h1
    exact ⟨m, by rw [hm]; rfl⟩
  rw [num_vars_eq R h1, bind_ok]
  simp only [hv', bne_self_eq_false, Bool.false_eq_true, if_false]
  cases h1 : flipOk (numVars L) fl with
  | false =>
    obtain ⟨m, hm⟩ := check_flip_panic _ _ h1
    exact ⟨m, by rw [hm]; rfl⟩
  | true =>
    rw [check_flip_ok _ _ h1, bind_ok]
    cases h2 : flipOk (numVars L) fr with
    | false =>
      obtain ⟨m, hm⟩ := check_flip_panic _ _ h2
      exact ⟨m, by rw [hm]; rfl⟩
    | true =>
      rw [check_flip_ok _ _ h2, bind_ok]
      cases h3 : flipOk (numVars L) fo with
      | false =>
        obtain ⟨m, hm⟩ := check_flip_panic _ _ h3
        exact ⟨m, by rw [hm]; rfl⟩
      | true => simp [h1, h2, h3] at h

/-! ### the public entry points -/

theorem Bdd_fused_binary_flip_op_with_limit_eq_model (fuel lim : Nat) (L R : Arr) (fl fr fo : Option Nat) (op : Op2)
    (n : Nat) (hL : WFo L n) (hR : WFo R n) (htot : ∀ a b, (op (some a) (some b)).isSome = true)
    (hfl : flipOk n fl = true) (hfr : flipOk n fr = true) (hfo : flipOk n fo = true)
    (h32L : L.size ≤ u32Range) (h32R : R.size ≤ u32Range)
    (hB : lim ≤ u32Range ∨ L.size * R.size + 2 ≤ u32Range)
    (hfuel : 4 * (L.size * R.size) + 2 * n + 8 ≤ fuel) :
    Gen.Algo.Bdd_fused_binary_flip_op_with_limit fuel lim (L, fl) (R, fr) fo op =
      fusedBinaryFlipOpWithLimit lim L R op fl fr fo := by
  unfold Gen.Algo.Bdd_fused_binary_flip_op_with_limit fusedBinaryFlipOpWithLimit
  rw [apply_with_flip_and_limit_eq_model fuel lim L R fl fr fo op n hL hR htot hfl hfr hfo h32L h32R hB hfuel]
  simp [WFo.numVars_eq hL, WFo.numVars_eq hR, hfl, hfr, hfo]

theorem Bdd_binary_op_with_limit_eq_model (fuel lim : Nat) (L R : Arr) (op : Op2) (n : Nat)
    (hL : WFo L n) (hR : WFo R n) (htot : ∀ a b, (op (some a) (some b)).isSome = true)
    (h32L : L.size ≤ u32Range) (h32R : R.size ≤ u32Range)
    (hB : lim ≤ u32Range ∨ L.size * R.size + 2 ≤ u32Range)
    (hfuel : 4 * (L.size * R.size) + 2 * n + 8 ≤ fuel) :
    Gen.Algo.Bdd_binary_op_with_limit fuel lim L R op = fusedBinaryFlipOpWithLimit lim L R op none none none := by
  unfold Gen.Algo.Bdd_binary_op_with_limit fusedBinaryFlipOpWithLimit
  rw [apply_with_flip_and_limit_eq_model fuel lim L R none none none op n hL hR htot rfl rfl rfl h32L h32R hB hfuel]
  simp [WFo.numVars_eq hL, WFo.numVars_eq hR, flipOk]

/-- both sides panic together -/
theorem Bdd_fused_binary_flip_op_with_limit_panic (fuel lim : Nat) (L R : Arr) (fl fr fo : Option Nat) (op : Op2)
    (h : numVars R ≠ numVars L ∨ (flipOk (numVars L) fl && flipOk (numVars L) fr && flipOk (numVars L) fo) = false) :
    (Gen.Algo.Bdd_fused_binary_flip_op_with_limit fuel lim (L, fl) (R, fr) fo op).isPanic = true ∧
      (fusedBinaryFlipOpWithLimit lim L R op fl fr fo).isPanic = true := by
  constructor
  · unfold Gen.Algo.Bdd_fused_binary_flip_op_with_limit
    rcases h with h | h
    · obtain ⟨m, hm⟩ := apply_with_flip_and_limit_panic_vars fuel lim L R fl fr fo op h
      simp only [hm]; rfl
    · obtain ⟨m, hm⟩ := apply_with_flip_and_limit_panic_flip fuel lim L R fl fr fo op h
      simp only [hm]; rfl
  · unfold fusedBinaryFlipOpWithLimit
    rcases h with h | h
    · simp [h, Outcome.isPanic]
    · by_cases hv : numVars R ≠ numVars L
      · simp [hv, Outcome.isPanic]
      · simp only [hv, if_false, h]; rfl

/-! ### non-vacuity -/

/-- all hypotheses are satisfiable: all three flips, limit 3 -/
example (fuel : Nat) (h : 62 ≤ fuel) :
    Gen.Algo.apply_with_flip_and_limit fuel 3 exA exB (some 2) (some 1) (some 0) Gen.and_ =
      .ok (applyLimit 3 exA exB Gen.and_ (some 2) (some 1) (some 0)) :=
  apply_with_flip_and_limit_eq_model fuel 3 exA exB (some 2) (some 1) (some 0) Gen.and_ 3 exA_wf exB_wf and_total
    (by decide) (by decide) (by decide) (by decide) (by decide) (Or.inl (by decide)) h

/-- limit 0 and the driver's fuel -/
example : Gen.Algo.apply_with_flip_and_limit (Drive.Algo.fuel2 exA exB) 0 exA exB none none none Gen.and_ = .ok none := by
  rw [apply_with_flip_and_limit_eq_model_driver 0 exA exB none none none Gen.and_ 3 exA_wf exB_wf and_total
    rfl rfl rfl (by decide) (by decide) (Or.inl (by decide))]
  rfl

/-- a limit beyond `2^32`: the bound on the number of tasks takes over -/
example : Gen.Algo.apply_with_flip_and_limit (Drive.Algo.fuel2 exA exB) 18446744073709551615 exA exB none none none Gen.and_ =
    .ok (applyLimit 18446744073709551615 exA exB Gen.and_ none none none) :=
  apply_with_flip_and_limit_eq_model_driver _ exA exB none none none Gen.and_ 3 exA_wf exB_wf and_total
    rfl rfl rfl (by decide) (by decide) (Or.inr (by decide))

/-- flip variable out of range: panic -/
example (fuel : Nat) : ∃ m, Gen.Algo.apply_with_flip_and_limit fuel 5 exA exB none none (some 7) Gen.and_ = .panic m :=
  apply_with_flip_and_limit_panic_flip fuel 5 exA exB none none (some 7) Gen.and_ (by decide)

/-- variable counts differ: panic -/
example (fuel : Nat) : ∃ m, Gen.Algo.apply_with_flip_and_limit fuel 5 exA (mkTrue 2) none none none Gen.and_ = .panic m :=
  apply_with_flip_and_limit_panic_vars fuel 5 exA (mkTrue 2) none none none Gen.and_ (by decide)

end B.AlgoDL
