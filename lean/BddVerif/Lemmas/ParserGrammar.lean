import BddVerif.Lemmas.ParserTotal
/-!
The documented grammar as a derivation relation over token trees, and the proof that the model of the
parser (split at the FIRST top-level occurrence of the loosest operator) accepts exactly its
derivations with exactly its trees:

  iff ::= imp '<=>' iff | imp      imp ::= cond '=>' imp | cond     cond ::= or '?' or ':' or | or
  or ::= and '|' or | and          and ::= xor '&' and | xor        xor ::= term '^' xor | term
  term ::= '!' term | id | true | false | '(' iff ')'

Levels: 0 term, 1 xor, 2 and, 3 or, 4 cond, 5 imp, 6 iff.
-/
namespace B.Parser

inductive Der : Nat → List Tok → Expr → Prop
  | ident (s : Name) : s ≠ kwTrue → s ≠ kwFalse → Der 0 [.id s] (.var s)
  | tt : Der 0 [.id kwTrue] (.const true)
  | ff : Der 0 [.id kwFalse] (.const false)
  | neg {ts e} : Der 0 ts e → Der 0 (.not :: ts) (.not e)
  | grp {ts e} : Der 6 ts e → Der 0 [.group ts] e
  | xorS {a b l r} : Der 0 a l → Der 1 b r → Der 1 (a ++ .xor :: b) (.xor l r)
  | andS {a b l r} : Der 1 a l → Der 2 b r → Der 2 (a ++ .and :: b) (.and l r)
  | orS {a b l r} : Der 2 a l → Der 3 b r → Der 3 (a ++ .or :: b) (.or l r)
  | condS {a b d c t e} : Der 3 a c → Der 3 b t → Der 3 d e →
      Der 4 (a ++ .qmark :: (b ++ .colon :: d)) (.cond c t e)
  | impS {a b l r} : Der 4 a l → Der 5 b r → Der 5 (a ++ .imp :: b) (.imp l r)
  | iffS {a b l r} : Der 5 a l → Der 6 b r → Der 6 (a ++ .iff :: b) (.iff l r)
  /-- the alternative without an operator: `iff ::= imp`, `imp ::= cond`, … -/
  | up {n ts e} : n < 6 → Der n ts e → Der (n + 1) ts e

/-- the parsing function of a level -/
def parseAt : Nat → List Tok → Outcome Expr
  | 0 => terminalP | 1 => xorP | 2 => andP | 3 => orP | 4 => condP | 5 => impP | _ => iffP

/-- payload-free operator tokens and the level at which they are split -/
def opLevel : Tok → Option Nat
  | .xor => some 1 | .and => some 2 | .or => some 3 | .qmark => some 4 | .colon => some 4
  | .imp => some 5 | .iff => some 6 | _ => none

/-! ### `indexOfFirst` -/

theorem indexOfFirst_none_iff {l : List Tok} {k : Tok} :
    indexOfFirst l k = none ↔ ∀ t ∈ l, Tok.eqK t k = false := by
  induction l with
  | nil => simp [indexOfFirst]
  | cons t ts ih =>
    unfold indexOfFirst
    by_cases h : Tok.eqK t k = true
    · simp [h]
    · simp only [h, Bool.false_eq_true, if_false, Option.map_eq_none_iff, ih, List.mem_cons, forall_eq_or_imp]
      simp at h; simp

theorem indexOfFirst_append {a b : List Tok} {x k : Tok} (ha : indexOfFirst a k = none)
    (hx : Tok.eqK x k = true) : indexOfFirst (a ++ x :: b) k = some a.length := by
  induction a with
  | nil => simp [indexOfFirst, hx]
  | cons t ts ih =>
    have h1 := indexOfFirst_none_iff.mp ha
    have ht : Tok.eqK t k = false := h1 t (by simp)
    have hts : indexOfFirst ts k = none := indexOfFirst_none_iff.mpr (fun u hu => h1 u (by simp [hu]))
    simp only [List.cons_append, indexOfFirst, ht, Bool.false_eq_true, if_false, ih hts, Option.map_some,
      List.length_cons]

theorem indexOfFirst_append_none {a b : List Tok} {x k : Tok} :
    indexOfFirst (a ++ x :: b) k = none ↔
      indexOfFirst a k = none ∧ Tok.eqK x k = false ∧ indexOfFirst b k = none := by
  simp only [indexOfFirst_none_iff, List.mem_append, List.mem_cons]
  constructor
  · intro h; exact ⟨fun t ht => h t (Or.inl ht), h x (Or.inr (Or.inl rfl)), fun t ht => h t (Or.inr (Or.inr ht))⟩
  · rintro ⟨h1, h2, h3⟩ t (ht | rfl | ht)
    · exact h1 t ht
    · exact h2
    · exact h3 t ht

/-- for a payload-free token `k`, `t == k` means `t = k` -/
theorem eqK_simple {t k : Tok} (hk : (opLevel k).isSome) (h : Tok.eqK t k = true) : t = k := by
  cases k <;> simp [opLevel] at hk <;> cases t <;> simp [Tok.eqK, Tok.tag] at h <;> rfl

theorem indexOfFirst_split {l : List Tok} {k : Tok} {i : Nat} (hk : (opLevel k).isSome)
    (h : indexOfFirst l k = some i) :
    l = l.take i ++ k :: l.drop (i + 1) ∧ indexOfFirst (l.take i) k = none := by
  induction l generalizing i with
  | nil => simp [indexOfFirst] at h
  | cons t ts ih =>
    unfold indexOfFirst at h
    split at h
    · cases h
      rename_i ht
      rw [eqK_simple hk ht]
      simp [indexOfFirst]
    · rename_i ht
      cases hi : indexOfFirst ts k with
      | none => simp [hi] at h
      | some j =>
        simp only [hi, Option.map_some, Option.some.injEq] at h
        subst h
        obtain ⟨h1, h2⟩ := ih hi
        refine ⟨?_, ?_⟩
        · simp only [List.take_succ_cons, List.drop_succ_cons, List.cons_append]
          rw [← h1]
        · simp only [List.take_succ_cons, indexOfFirst, ht, Bool.false_eq_true, if_false, h2, Option.map_none]

theorem take_append_len {α} (a b : List α) (x : α) : (a ++ x :: b).take a.length = a := by
  simp

theorem drop_append_len {α} (a b : List α) (x : α) : (a ++ x :: b).drop (a.length + 1) = b := by
  induction a with
  | nil => simp
  | cons t ts ih => simp

/-! ### strings of a level contain no looser operator at top level -/

theorem Der.noTop {n : Nat} {ts : List Tok} {e : Expr} (h : Der n ts e) :
    ∀ k m, opLevel k = some m → n < m → indexOfFirst ts k = none := by
  induction h with
  | ident s _ _ => intro k m hk _; cases k <;> simp [opLevel] at hk <;> simp [indexOfFirst, Tok.eqK, Tok.tag]
  | tt => intro k m hk _; cases k <;> simp [opLevel] at hk <;> simp [indexOfFirst, Tok.eqK, Tok.tag]
  | ff => intro k m hk _; cases k <;> simp [opLevel] at hk <;> simp [indexOfFirst, Tok.eqK, Tok.tag]
  | neg _ ih =>
    intro k m hk hm
    have := ih k m hk hm
    cases k <;> simp [opLevel] at hk <;> simp [indexOfFirst, Tok.eqK, Tok.tag, this]
  | grp _ _ => intro k m hk _; cases k <;> simp [opLevel] at hk <;> simp [indexOfFirst, Tok.eqK, Tok.tag]
  | xorS _ _ iha ihb =>
    intro k m hk hm
    refine indexOfFirst_append_none.mpr ⟨iha k m hk (by omega), ?_, ihb k m hk hm⟩
    cases k <;> simp [opLevel] at hk <;> first | rfl | omega
  | andS _ _ iha ihb =>
    intro k m hk hm
    refine indexOfFirst_append_none.mpr ⟨iha k m hk (by omega), ?_, ihb k m hk hm⟩
    cases k <;> simp [opLevel] at hk <;> first | rfl | omega
  | orS _ _ iha ihb =>
    intro k m hk hm
    refine indexOfFirst_append_none.mpr ⟨iha k m hk (by omega), ?_, ihb k m hk hm⟩
    cases k <;> simp [opLevel] at hk <;> first | rfl | omega
  | condS _ _ _ iha ihb ihd =>
    intro k m hk hm
    refine indexOfFirst_append_none.mpr ⟨iha k m hk (by omega), ?_,
      indexOfFirst_append_none.mpr ⟨ihb k m hk (by omega), ?_, ihd k m hk (by omega)⟩⟩
    · cases k <;> simp [opLevel] at hk <;> first | rfl | omega
    · cases k <;> simp [opLevel] at hk <;> first | rfl | omega
  | impS _ _ iha ihb =>
    intro k m hk hm
    refine indexOfFirst_append_none.mpr ⟨iha k m hk (by omega), ?_, ihb k m hk hm⟩
    cases k <;> simp [opLevel] at hk <;> first | rfl | omega
  | iffS _ _ iha ihb =>
    intro k m hk hm
    refine indexOfFirst_append_none.mpr ⟨iha k m hk (by omega), ?_, ihb k m hk hm⟩
    cases k <;> simp [opLevel] at hk <;> first | rfl | omega
  | up _ _ ih => intro k m hk hm; exact ih k m hk (by omega)

/-! ### completeness: every derivation is found by the parser -/

theorem iffP_single (x : List Tok) : iffP [.group x] = terminalP [.group x] := by
  rw [iffP_eq, impP_eq, condP_eq, orP_eq, andP_eq, xorP_eq]
  simp [indexOfFirst, Tok.eqK, Tok.tag]

theorem parseFormula_of_iffP {ts : List Tok} {e : Expr} (h : iffP ts = .ok e) : parseFormula ts = .ok e := by
  rw [parseFormula_eq]
  split
  · rename_i hs
    match ts, hs with
    | [.group x], _ => rw [← iffP_single]; exact h
  · exact h

theorem bin_complete {a b : List Tok} {k : Tok} (ha : indexOfFirst a k = none) (hk : Tok.eqK k k = true) :
    indexOfFirst (a ++ k :: b) k = some a.length ∧ (a ++ k :: b).take a.length = a ∧
      (a ++ k :: b).drop (a.length + 1) = b :=
  ⟨indexOfFirst_append ha hk, take_append_len a b k, drop_append_len a b k⟩

theorem Der.complete {n : Nat} {ts : List Tok} {e : Expr} (h : Der n ts e) : parseAt n ts = .ok e := by
  induction h with
  | ident s h1 h2 => simp [parseAt, terminalP, h1, h2]
  | tt => simp [parseAt, terminalP]
  | ff => simp [parseAt, terminalP, kwFalse, kwTrue]
  | neg _ ih => simp only [parseAt] at ih ⊢; rw [terminalP, ih]; rfl
  | grp _ ih => simp only [parseAt] at ih ⊢; rw [terminalP]; exact parseFormula_of_iffP ih
  | xorS ha _ iha ihb =>
    simp only [parseAt] at iha ihb ⊢
    obtain ⟨h1, h2, h3⟩ := bin_complete (b := _) (ha.noTop .xor 1 rfl (by omega)) (k := .xor) rfl
    rw [xorP_eq, h1]; simp only [h2, h3, iha, ihb]; rfl
  | andS ha _ iha ihb =>
    simp only [parseAt] at iha ihb ⊢
    obtain ⟨h1, h2, h3⟩ := bin_complete (b := _) (ha.noTop .and 2 rfl (by omega)) (k := .and) rfl
    rw [andP_eq, h1]; simp only [h2, h3, iha, ihb]; rfl
  | orS ha _ iha ihb =>
    simp only [parseAt] at iha ihb ⊢
    obtain ⟨h1, h2, h3⟩ := bin_complete (b := _) (ha.noTop .or 3 rfl (by omega)) (k := .or) rfl
    rw [orP_eq, h1]; simp only [h2, h3, iha, ihb]; rfl
  | @condS a b d c t e ha hb hd iha ihb ihd =>
    simp only [parseAt] at iha ihb ihd ⊢
    have hq : indexOfFirst (a ++ .qmark :: (b ++ .colon :: d)) .qmark = some a.length :=
      indexOfFirst_append (ha.noTop .qmark 4 rfl (by omega)) rfl
    have hc : indexOfFirst (a ++ .qmark :: (b ++ .colon :: d)) .colon = some (a.length + 1 + b.length) := by
      have : a ++ Tok.qmark :: (b ++ Tok.colon :: d) = (a ++ Tok.qmark :: b) ++ Tok.colon :: d := by simp
      rw [this]
      have hn : indexOfFirst (a ++ Tok.qmark :: b) .colon = none :=
        indexOfFirst_append_none.mpr ⟨ha.noTop .colon 4 rfl (by omega), rfl, hb.noTop .colon 4 rfl (by omega)⟩
      rw [indexOfFirst_append hn rfl]; simp; omega
    rw [condP_eq, hq, hc]
    have hlt : ¬ (a.length + 1 + b.length < a.length) := by omega
    have hle : ¬ (a.length + 1 > a.length + 1 + b.length) := by omega
    have t1 : (a ++ Tok.qmark :: (b ++ Tok.colon :: d)).take a.length = a := take_append_len _ _ _
    have t2 : ((a ++ Tok.qmark :: (b ++ Tok.colon :: d)).take (a.length + 1 + b.length)).drop (a.length + 1) = b := by
      have : a ++ Tok.qmark :: (b ++ Tok.colon :: d) = (a ++ Tok.qmark :: b) ++ Tok.colon :: d := by simp
      rw [this]
      have hl : a.length + 1 + b.length = (a ++ Tok.qmark :: b).length := by simp; omega
      rw [hl, take_append_len, drop_append_len]
    have t3 : (a ++ Tok.qmark :: (b ++ Tok.colon :: d)).drop (a.length + 1 + b.length + 1) = d := by
      have : a ++ Tok.qmark :: (b ++ Tok.colon :: d) = (a ++ Tok.qmark :: b) ++ Tok.colon :: d := by simp
      rw [this]
      have hl : a.length + 1 + b.length = (a ++ Tok.qmark :: b).length := by simp; omega
      rw [hl, drop_append_len]
    simp only [hlt, if_false, hle, t1, t2, t3, iha, ihb, ihd]; rfl
  | impS ha _ iha ihb =>
    simp only [parseAt] at iha ihb ⊢
    obtain ⟨h1, h2, h3⟩ := bin_complete (b := _) (ha.noTop .imp 5 rfl (by omega)) (k := .imp) rfl
    rw [impP_eq, h1]; simp only [h2, h3, iha, ihb]; rfl
  | iffS ha _ iha ihb =>
    simp only [parseAt] at iha ihb ⊢
    obtain ⟨h1, h2, h3⟩ := bin_complete (b := _) (ha.noTop .iff 6 rfl (by omega)) (k := .iff) rfl
    rw [iffP_eq, h1]; simp only [h2, h3, iha, ihb]; rfl
  | @up n ts e hn h ih =>
    have h1 : n = 0 ∨ n = 1 ∨ n = 2 ∨ n = 3 ∨ n = 4 ∨ n = 5 := by omega
    rcases h1 with rfl | rfl | rfl | rfl | rfl | rfl <;> simp only [parseAt] at ih ⊢
    · rw [xorP_eq, h.noTop .xor 1 rfl (by omega)]; exact ih
    · rw [andP_eq, h.noTop .and 2 rfl (by omega)]; exact ih
    · rw [orP_eq, h.noTop .or 3 rfl (by omega)]; exact ih
    · rw [condP_eq, h.noTop .qmark 4 rfl (by omega), h.noTop .colon 4 rfl (by omega)]; exact ih
    · rw [impP_eq, h.noTop .imp 5 rfl (by omega)]; exact ih
    · rw [iffP_eq, h.noTop .iff 6 rfl (by omega)]; exact ih

/-! ### soundness: whatever the parser returns is a derivation -/

theorem bind_ok {α β} {x : Outcome α} {f : α → Outcome β} {b : β} (h : x.bind f = .ok b) :
    ∃ a, x = .ok a ∧ f a = .ok b := by
  cases x with
  | ok a => exact ⟨a, rfl, h⟩
  | err m => cases h
  | panic m => cases h

theorem parsers_sound :
    (∀ data e, parseFormula data = .ok e → Der 6 data e) ∧ (∀ data e, iffP data = .ok e → Der 6 data e) ∧
    (∀ data e, impP data = .ok e → Der 5 data e) ∧ (∀ data e, condP data = .ok e → Der 4 data e) ∧
    (∀ data e, orP data = .ok e → Der 3 data e) ∧ (∀ data e, andP data = .ok e → Der 2 data e) ∧
    (∀ data e, xorP data = .ok e → Der 1 data e) ∧ (∀ data e, terminalP data = .ok e → Der 0 data e) := by
  apply parseFormula.mutual_induct
    (motive1 := fun data => ∀ e, parseFormula data = .ok e → Der 6 data e)
    (motive2 := fun data => ∀ e, iffP data = .ok e → Der 6 data e)
    (motive3 := fun data => ∀ e, impP data = .ok e → Der 5 data e)
    (motive4 := fun data => ∀ e, condP data = .ok e → Der 4 data e)
    (motive5 := fun data => ∀ e, orP data = .ok e → Der 3 data e)
    (motive6 := fun data => ∀ e, andP data = .ok e → Der 2 data e)
    (motive7 := fun data => ∀ e, xorP data = .ok e → Der 1 data e)
    (motive8 := fun data => ∀ e, terminalP data = .ok e → Der 0 data e)
  -- parseFormula
  · intro data h ih e he
    rw [parseFormula_eq] at he; simp only [h, if_true] at he
    have := ih e he
    exact Der.up (by omega) (Der.up (by omega) (Der.up (by omega) (Der.up (by omega) (Der.up (by omega) (Der.up (by omega) this)))))
  · intro data h ih e he
    rw [parseFormula_eq] at he; simp only [h] at he
    exact ih e he
  · intro data i h ih1 ih2 e he
    rw [iffP_eq, h] at he
    obtain ⟨l, hl, he⟩ := bind_ok he
    obtain ⟨r, hr, he⟩ := bind_ok he
    cases he
    obtain ⟨hs, _⟩ := indexOfFirst_split (k := .iff) rfl h
    rw [hs]
    exact Der.iffS (ih1 l hl) (ih2 r hr)
  · intro data h ih e he
    rw [iffP_eq, h] at he
    exact Der.up (by omega) (ih e he)
  · intro data i h ih1 ih2 e he
    rw [impP_eq, h] at he
    obtain ⟨l, hl, he⟩ := bind_ok he
    obtain ⟨r, hr, he⟩ := bind_ok he
    cases he
    obtain ⟨hs, _⟩ := indexOfFirst_split (k := .imp) rfl h
    rw [hs]
    exact Der.impS (ih1 l hl) (ih2 r hr)
  · intro data h ih e he
    rw [impP_eq, h] at he
    exact Der.up (by omega) (ih e he)
  -- condP
  · intro data hq hc ih e he
    rw [condP_eq, hq, hc] at he
    exact Der.up (by omega) (ih e he)
  · intro data q c hq hc hlt e he
    rw [condP_eq, hq, hc] at he; simp only [hlt, if_true] at he; cases he
  · intro data q c hq hc hlt ih1 ih2 ih3 e he
    rw [condP_eq, hq, hc] at he
    have hne := qmark_ne_colon hq hc
    have hle : ¬ (q + 1 > c) := by omega
    simp only [hlt, if_false] at he
    obtain ⟨a, ha, he⟩ := bind_ok he
    simp only [hle, if_false] at he
    obtain ⟨b, hb, he⟩ := bind_ok he
    obtain ⟨d, hd, he⟩ := bind_ok he
    cases he
    -- data = take q ++ ? :: (drop (q+1) (take c)) ++ : :: drop (c+1)
    obtain ⟨hsc, _⟩ := indexOfFirst_split (k := .colon) rfl hc
    have hq' : indexOfFirst (data.take c) .qmark = some q := by
      obtain ⟨hsq, hnq⟩ := indexOfFirst_split (k := .qmark) rfl hq
      have hqc : q < c := by omega
      have : data.take c = data.take q ++ Tok.qmark :: (data.drop (q + 1)).take (c - (q + 1)) := by
        conv => lhs; rw [hsq]
        have hlen : (data.take q).length = q := by
          have := indexOfFirst_get hq
          obtain ⟨t, ht, _⟩ := this
          have : q < data.length := by
            rcases Nat.lt_or_ge q data.length with h' | h'
            · exact h'
            · simp [List.getElem?_eq_none h'] at ht
          simp; omega
        rw [List.take_append]
        simp only [hlen]
        have h1 : List.take c (List.take q data) = List.take q data := by
          rw [List.take_take]; congr 1; omega
        rw [h1]
        have h2 : c - q = (c - (q + 1)) + 1 := by omega
        rw [h2, List.take_succ_cons]
      rw [this]
      have := indexOfFirst_append (b := (data.drop (q + 1)).take (c - (q + 1))) hnq (x := .qmark) rfl
      rw [this]
      congr 1
      have := indexOfFirst_get hq
      obtain ⟨t, ht, _⟩ := this
      have : q < data.length := by
        rcases Nat.lt_or_ge q data.length with h' | h'
        · exact h'
        · simp [List.getElem?_eq_none h'] at ht
      simp; omega
    obtain ⟨hsq, _⟩ := indexOfFirst_split (k := .qmark) rfl hq'
    have htt : (data.take c).take q = data.take q := by
      rw [List.take_take]; congr 1; omega
    rw [htt] at hsq
    rw [hsc, hsq]
    simp only [List.append_assoc, List.cons_append]
    exact Der.condS (ih1 a ha) (ih2 b hb) (ih3 d hd)
  · intro data c hq hc e he; rw [condP_eq, hq, hc] at he; cases he
  · intro data q hq hc e he; rw [condP_eq, hq, hc] at he; cases he
  · intro data i h ih1 ih2 e he
    rw [orP_eq, h] at he
    obtain ⟨l, hl, he⟩ := bind_ok he
    obtain ⟨r, hr, he⟩ := bind_ok he
    cases he
    obtain ⟨hs, _⟩ := indexOfFirst_split (k := .or) rfl h
    rw [hs]
    exact Der.orS (ih1 l hl) (ih2 r hr)
  · intro data h ih e he
    rw [orP_eq, h] at he
    exact Der.up (by omega) (ih e he)
  · intro data i h ih1 ih2 e he
    rw [andP_eq, h] at he
    obtain ⟨l, hl, he⟩ := bind_ok he
    obtain ⟨r, hr, he⟩ := bind_ok he
    cases he
    obtain ⟨hs, _⟩ := indexOfFirst_split (k := .and) rfl h
    rw [hs]
    exact Der.andS (ih1 l hl) (ih2 r hr)
  · intro data h ih e he
    rw [andP_eq, h] at he
    exact Der.up (by omega) (ih e he)
  · intro data i h ih1 ih2 e he
    rw [xorP_eq, h] at he
    obtain ⟨l, hl, he⟩ := bind_ok he
    obtain ⟨r, hr, he⟩ := bind_ok he
    cases he
    obtain ⟨hs, _⟩ := indexOfFirst_split (k := .xor) rfl h
    rw [hs]
    exact Der.xorS (ih1 l hl) (ih2 r hr)
  · intro data h ih e he
    rw [xorP_eq, h] at he
    exact Der.up (by omega) (ih e he)
  -- terminalP
  · intro e he; rw [terminalP] at he; cases he
  · intro rest ih e he
    rw [terminalP] at he
    obtain ⟨a, ha, he⟩ := bind_ok he
    cases he
    exact Der.neg (ih a ha)
  · intro a b tl hne e he
    rw [terminalP.eq_def] at he
    split at he <;> first | cases he | simp_all
  · intro e he; rw [terminalP] at he; simp at he; cases he; exact Der.tt
  · intro h e he; rw [terminalP] at he; simp [h] at he; cases he; exact Der.ff
  · intro name h1 h2 e he; rw [terminalP] at he; simp [h1, h2] at he; cases he; exact Der.ident name h1 h2
  · intro inner ih e he; rw [terminalP] at he; exact Der.grp (ih e he)
  · intro hd h1 h2 h3 e he
    rw [terminalP.eq_def] at he
    split at he <;> first | cases he | simp_all

/-- the parser model accepts exactly the derivations of the documented grammar, with exactly their trees -/
theorem parseFormula_iff_der (ts : List Tok) (e : Expr) : parseFormula ts = .ok e ↔ Der 6 ts e :=
  ⟨parsers_sound.1 ts e, fun h => parseFormula_of_iffP h.complete⟩

end B.Parser
