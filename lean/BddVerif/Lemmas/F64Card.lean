import BddVerif.Lemmas.F64Near
import BddVerif.Lemmas.Count
/-!
`cardinality()` (binary64): the cached traversal `Count.cardGoF` writes, for every pointer it visits, the
value of the plain recursion `cardFF`; that value is related to the exact natural-number recursion
`Count.cardF A true` (the cache entries of `exact_cardinality`) by the invariant `Good d c x`:

* `x = fin s`: `s` is a binary64 value, an integer (`2^1074 ∣ s`: never subnormal, never fractional), and
  `c·(1−2^-53)^d ≤ s/2^1074 ≤ c·(1+2^-53)^d`;
* `x = inf`: `c·(1+2^-53)^d ≥ 2^1024 − 2^970`;
* `x` is never NaN,

where `d` is the number of levels from the node's level to the terminals (`n − var`): one rounding per
decision node on a path, the scalings being exact.
-/
set_option exponentiation.threshold 2200
namespace B.F64

theorem Thr_eq_U : Thr = (2 ^ 1024 - 2 ^ 970) * U := by decide
theorem Top_eq_U : Top = 2 ^ 1024 * U := by decide
theorem U_pos : 0 < U := Nat.two_pow_pos _
theorem Thr_le_Top : Thr ≤ Top := Nat.le_of_lt Thr_lt_Top

/-- the invariant linking a computed binary64 value `x` with the exact natural `c` after at most `d`
    roundings -/
def Good (d c : Nat) : F64 → Prop
  | fin s => Rep s ∧ U ∣ s ∧ Near d (c * U) s
  | inf => Thr * P ^ d ≤ c * U * (P + 1) ^ d
  | nan => False

theorem Good.ne_nan {d c : Nat} {x : F64} (h : Good d c x) : x ≠ nan := by
  intro e; subst e; exact h

theorem Good.valid {d c : Nat} {x : F64} (h : Good d c x) : Valid x := by
  cases x with
  | fin s => exact h.1
  | inf => trivial
  | nan => trivial

/-- the values met are integers: in particular never subnormal (`0` or `≥ 1`) -/
theorem Good.int {d c s : Nat} (h : Good d c (fin s)) : ∃ v, s = v * U := by
  obtain ⟨v, hv⟩ := h.2.1
  exact ⟨v, by rw [hv, Nat.mul_comm]⟩

theorem good_zero (d : Nat) : Good d 0 zero := by
  refine ⟨rep_zero, Nat.dvd_zero _, ?_⟩
  rw [Nat.zero_mul]; exact Near.zero d

theorem good_one (d : Nat) : Good d 1 one := by
  refine ⟨rep_U, Nat.dvd_refl _, ?_⟩
  rw [Nat.one_mul]; exact (Near.refl U).mono (Nat.zero_le _)

theorem Good.mono {d d' c : Nat} {x : F64} (h : Good d c x) (hd : d ≤ d') : Good d' c x := by
  cases x with
  | fin s => exact ⟨h.1, h.2.1, h.2.2.mono hd⟩
  | nan => exact h
  | inf =>
    -- Thr·P^d' = Thr·P^d·P^j ≤ cU·(P+1)^d·P^j ≤ cU·(P+1)^d·(P+1)^j
    obtain ⟨j, rfl⟩ : ∃ j, d' = d + j := ⟨d' - d, by omega⟩
    show Thr * P ^ (d + j) ≤ c * U * (P + 1) ^ (d + j)
    rw [Nat.pow_add, Nat.pow_add, ← Nat.mul_assoc, ← Nat.mul_assoc]
    exact Nat.mul_le_mul h (Nat.pow_le_pow_left P_le _)

/-- a non-zero approximation of `c` means `c ≥ 1` -/
theorem Good.pos {d c s : Nat} (h : Good d c (fin s)) (hs : s ≠ 0) : 1 ≤ c := by
  rcases Nat.eq_zero_or_pos c with h0 | h0
  · have := (h.2.2.eq_zero_iff).2 (by rw [h0, Nat.zero_mul])
    exact absurd this hs
  · exact h0

/-- `inf` stands for a count beyond the threshold, a fortiori when the count grows -/
theorem good_inf_of_le {d c c' : Nat} (h : Good d c inf) (hc : c ≤ c') : Good d c' inf := by
  show Thr * P ^ d ≤ c' * U * (P + 1) ^ d
  exact Nat.le_trans h (Nat.mul_le_mul_right _ (Nat.mul_le_mul_right _ hc))

/-- a count of at least `2^1024` justifies `inf` -/
theorem good_inf_of_big (d c : Nat) (hc : 2 ^ 1024 ≤ c) : Good d c inf := by
  show Thr * P ^ d ≤ c * U * (P + 1) ^ d
  have h1 : Thr ≤ c * U :=
    Nat.le_trans Thr_le_Top (by rw [Top_eq_U]; exact Nat.mul_le_mul_right _ hc)
  exact Nat.mul_le_mul h1 (Nat.pow_le_pow_left P_le _)

theorem two_pow_ge_one (g : Nat) : 1 ≤ 2 ^ g := Nat.two_pow_pos g

/-- `scale` multiplies the approximated count by `2^g` without any rounding -/
theorem good_scale {d c : Nat} {x : F64} (h : Good d c x) (g : Nat) : Good d (c * 2 ^ g) (scale x g) := by
  cases x with
  | nan => exact h.elim
  | inf =>
    rw [scale_inf]
    exact good_inf_of_le h (Nat.le_mul_of_pos_right _ (Nat.two_pow_pos g))
  | fin s =>
    by_cases hs : s = 0
    · subst hs
      have hc : c = 0 := by
        have := (h.2.2.eq_zero_iff).1 rfl
        rcases Nat.mul_eq_zero.1 this with h' | h'
        · exact h'
        · exact absurd h' (Nat.ne_of_gt U_pos)
      subst hc
      rw [Nat.zero_mul]
      exact good_zero d
    · rw [scale_fin_pos s g hs]
      have hpos := h.pos hs
      by_cases hg : g < 1024
      · by_cases hlt : s * 2 ^ g < Top
        · rw [(mulPow2_fin s g).1 hg hlt]
          refine ⟨mulPow2_rep s g h.1 hlt, Nat.dvd_trans h.2.1 (Nat.dvd_mul_right _ _), ?_⟩
          have := h.2.2.mul (2 ^ g)
          rw [Nat.mul_right_comm c U (2 ^ g)] at this
          exact this
        · rw [(mulPow2_fin s g).2.1 hg (by omega)]
          -- Top ≤ s·2^g and s·2^g·P^d ≤ c·2^g·U·(P+1)^d
          have h2 := (h.2.2.mul (2 ^ g)).2
          rw [Nat.mul_right_comm c U (2 ^ g)] at h2
          show Thr * P ^ d ≤ c * 2 ^ g * U * (P + 1) ^ d
          exact Nat.le_trans (Nat.mul_le_mul_right _ (Nat.le_trans Thr_le_Top (by omega))) h2
      · rw [(mulPow2_fin s g).2.2.1 (by omega) hs]
        apply good_inf_of_big
        calc 2 ^ 1024 ≤ 2 ^ g := Nat.pow_le_pow_right (by decide) (by omega)
          _ = 1 * 2 ^ g := (Nat.one_mul _).symm
          _ ≤ c * 2 ^ g := Nat.mul_le_mul_right _ hpos

/-- the addition rounds once -/
theorem good_add {d c1 c2 : Nat} {x1 x2 : F64} (h1 : Good d c1 x1) (h2 : Good d c2 x2) :
    Good (d + 1) (c1 + c2) (add x1 x2) := by
  cases x1 with
  | nan => exact h1.elim
  | inf =>
    rw [add_inf_left x2 h2.ne_nan]
    exact (good_inf_of_le h1 (Nat.le_add_right _ _)).mono (Nat.le_succ _)
  | fin a =>
    cases x2 with
    | nan => exact h2.elim
    | inf =>
      rw [add_inf_right (fin a) (by simp)]
      exact (good_inf_of_le h2 (Nat.le_add_left _ _)).mono (Nat.le_succ _)
    | fin b =>
      have hn : Near d ((c1 + c2) * U) (a + b) := by
        rw [Nat.add_mul]; exact h1.2.2.add h2.2.2
      by_cases hlt : a + b < Thr
      · have hr : add (fin a) (fin b) = fin (round53 (a + b)) := by
          show ofExact (a + b) = _
          unfold ofExact; simp only; rw [if_pos (round53_lt_Top _ hlt)]
        rw [hr]
        refine ⟨⟨round53_lt_Top _ hlt, round53_sig _⟩, ?_, ?_⟩
        · exact round53_dvd (a + b) 1074 (Nat.dvd_add h1.2.1 h2.2.1)
        · exact hn.round (round53_near _).1 (round53_near _).2
      · rw [(add_fin a b).2 (by omega)]
        -- Thr ≤ a + b ≤ (c1+c2)·U·(P+1)^d / P^d
        show Thr * P ^ (d + 1) ≤ (c1 + c2) * U * (P + 1) ^ (d + 1)
        rw [Nat.pow_succ, Nat.pow_succ, ← Nat.mul_assoc, ← Nat.mul_assoc]
        exact Nat.mul_le_mul (Nat.le_trans (Nat.mul_le_mul_right _ (by omega)) hn.2) P_le

/-- the guarded end of `cardinality` is `scale` by the root variable: the invariant is kept for the count
    `c·2^v`, and the `NaN ↦ INFINITY` test never fires -/
theorem good_finalF {d c : Nat} {x : F64} (h : Good d c x) (v : Nat) :
    B.Count.finalF x v = scale x v ∧ Good d (c * 2 ^ v) (B.Count.finalF x v) := by
  have hg := good_scale h v
  have e : B.Count.finalF x v = scale x v := by
    unfold B.Count.finalF
    by_cases hz : x.isZero = true
    · rw [if_pos hz]; unfold scale; rw [if_pos hz]
    · rw [if_neg hz]
      have hs : scale x v = mulPow2 x v := by unfold scale; rw [if_neg hz]
      rw [hs] at hg
      simp only
      have hne := hg.ne_nan
      rw [hs]
      generalize mulPow2 x v = r at *
      cases r with
      | nan => exact absurd rfl hne
      | inf => rfl
      | fin s => rfl
  exact ⟨e, by rw [e]; exact hg⟩

/-- the unguarded end of the function before commit 316b6bb: either the same as the guarded one, or the
    entry is `0.0`, the power overflowed (`v ≥ 1024`) and `0·inf = NaN ↦ INFINITY` -/
theorem good_finalUnguarded {d c : Nat} {x : F64} (h : Good d c x) (v : Nat) :
    (x = fin 0 ∧ 1024 ≤ v ∧ c = 0 ∧ B.Count.finalUnguarded x v = inf) ∨
    (B.Count.finalUnguarded x v = B.Count.finalF x v) := by
  cases x with
  | nan => exact h.elim
  | inf => right; unfold B.Count.finalUnguarded B.Count.finalF; simp [isZero]
  | fin s =>
    by_cases hs : s = 0
    · subst hs
      have hc : c = 0 := by
        have := (h.2.2.eq_zero_iff).1 rfl
        rcases Nat.mul_eq_zero.1 this with h' | h'
        · exact h'
        · exact absurd h' (Nat.ne_of_gt U_pos)
      by_cases hv : v < 1024
      · right
        have := (mulPow2_fin 0 v).1 hv (by rw [Nat.zero_mul]; exact Nat.two_pow_pos _)
        rw [Nat.zero_mul] at this
        unfold B.Count.finalUnguarded B.Count.finalF
        rw [this]; rfl
      · left
        refine ⟨rfl, by omega, hc, ?_⟩
        unfold B.Count.finalUnguarded
        rw [(mulPow2_fin 0 v).2.2.2 (by omega)]; rfl
    · right
      unfold B.Count.finalUnguarded B.Count.finalF
      have : (fin s).isZero = false := by
        cases s with
        | zero => exact absurd rfl hs
        | succ s => rfl
      rw [this]; simp

end B.F64

namespace B.Count
open B.F64

/-! ### the plain recursion the cache entries are compared with -/

/-- value of the cache entry of pointer `p`, without a cache (fuel by depth; `nan` when the fuel runs
    out, which never happens for level-well-formed arrays) -/
def cardFF (A : Arr) : Nat → Nat → F64
  | _, 0 => F64.zero
  | _, 1 => F64.one
  | 0, _ => F64.nan
  | f + 1, p =>
    let nd := nodeAt A p
    cardNodeF A nd (cardFF A f nd.low) (cardFF A f nd.high)

theorem cardFF_zero (A : Arr) (f) : cardFF A f 0 = F64.zero := by cases f <;> simp [cardFF]
theorem cardFF_one (A : Arr) (f) : cardFF A f 1 = F64.one := by cases f <;> simp [cardFF]
theorem cardFF_succ (A : Arr) (f p) (hp : 2 ≤ p) :
    cardFF A (f + 1) p = cardNodeF A (nodeAt A p) (cardFF A f (nodeAt A p).low) (cardFF A f (nodeAt A p).high) := by
  match p, hp with
  | p + 2, _ => simp [cardFF]

theorem cardFF_level {A : Arr} {n : Nat} (h : WFo A n) :
    ∀ f1 p f2, p < A.size → n - varOf A n p < f1 → n - varOf A n p < f2 →
      cardFF A f1 p = cardFF A f2 p := by
  intro f1
  induction f1 with
  | zero => intro p f2 _ h1; omega
  | succ f1 ih =>
    intro p f2 hp h1 h2
    by_cases h0 : p = 0
    · subst h0; simp [cardFF_zero]
    by_cases h1' : p = 1
    · subst h1'; simp [cardFF_one]
    have hp2 : 2 ≤ p := by omega
    have hnd : A[p]? = some A[p] := by simp [hp]
    obtain ⟨hv, hl, hh, hvl, hvh⟩ := h.inner p A[p] hp2 hnd
    have hvar : varOf A n p = A[p].var := varOf_node p _ hp2 hnd
    obtain ⟨f2', rfl⟩ : ∃ f2', f2 = f2' + 1 := ⟨f2 - 1, by omega⟩
    rw [cardFF_succ A f1 p hp2, cardFF_succ A f2' p hp2, nodeAt_eq hp]
    rw [ih _ f2' hl (by omega) (by omega), ih _ f2' hh (by omega) (by omega)]

/-! ### the cache -/

theorem getD_setF (c : CacheF) (p q : Nat) (x : Option F64) :
    (c.setIfInBounds p x).getD q none = if p = q ∧ p < c.size then x else c.getD q none := by
  simp only [Array.getD_eq_getD_getElem?, Array.getElem?_setIfInBounds]
  by_cases hpq : p = q
  · subst hpq
    by_cases h2 : p < c.size
    · simp [h2]
    · simp [h2]
  · simp [hpq]

/-- invariant of the cache during the traversal of `A` (entries are those of `cardFF` at fuel `F`) -/
structure CInvF (A : Arr) (F : Nat) (c : CacheF) : Prop where
  size : c.size = A.size
  zero : c.getD 0 none = some F64.zero
  one : 2 ≤ A.size → c.getD 1 none = some F64.one
  sound : ∀ p x, c.getD p none = some x → x = cardFF A F p

theorem cinvF_init (A : Arr) (F : Nat) (hs : 0 < A.size) : CInvF A F (initCacheF A) := by
  have key : ∀ p, (initCacheF A).getD p none =
      if p = 1 ∧ 1 < A.size then some F64.one else if p = 0 then some F64.zero else none := by
    intro p
    unfold initCacheF
    rw [getD_setF, getD_setF]
    simp only [Array.size_setIfInBounds, Array.size_replicate, Array.getD_eq_getD_getElem?, Array.getElem?_replicate]
    by_cases h1 : p = 1
    · subst h1; by_cases h2 : 1 < A.size <;> simp [h2]
    · by_cases h0 : p = 0
      · subst h0; simp [hs]
      · have a : ¬ (1 = p ∧ 1 < A.size) := fun h => h1 h.1.symm
        have b : ¬ (0 = p ∧ 0 < A.size) := fun h => h0 h.1.symm
        simp only [a, b, if_false, h1, h0, false_and]
        split <;> rfl
  refine ⟨by simp [initCacheF], ?_, ?_, ?_⟩
  · rw [key]; simp
  · intro h2; rw [key]; simp; omega
  · intro p x hx
    rw [key] at hx
    split at hx
    · rename_i h; cases hx; rw [h.1, cardFF_one]
    · split at hx
      · rename_i h; cases hx; rw [h, cardFF_zero]
      · cases hx

/-- one visit: the invariant is kept, earlier entries are kept, and `p` is cached afterwards -/
theorem cardGoF_spec {A : Arr} {n : Nat} (h : WFo A n) (F : Nat) (hF : n < F) :
    ∀ fuel p c, p < A.size → n - varOf A n p < fuel → CInvF A F c →
      CInvF A F (cardGoF A fuel p c) ∧
      (cardGoF A fuel p c).getD p none = some (cardFF A F p) ∧
      (∀ q x, c.getD q none = some x → (cardGoF A fuel p c).getD q none = some x) := by
  intro fuel
  induction fuel with
  | zero => intro p c _ hf; omega
  | succ fuel ih =>
    intro p c hp hfuel hc
    unfold cardGoF
    rcases hcp : c.getD p none with _ | x
    · simp only
      have hp2 : 2 ≤ p := by
        rcases Nat.lt_or_ge p 2 with h2 | h2
        · have : p = 0 ∨ p = 1 := by omega
          rcases this with rfl | rfl
          · rw [hc.zero] at hcp; cases hcp
          · rw [hc.one (by omega)] at hcp; cases hcp
        · exact h2
      have hnd : A[p]? = some A[p] := by simp [hp]
      obtain ⟨hv, hl, hh, hvl, hvh⟩ := h.inner p A[p] hp2 hnd
      have hvar : varOf A n p = A[p].var := varOf_node p _ hp2 hnd
      rw [nodeAt_eq hp]
      obtain ⟨i1, g1, m1⟩ := ih A[p].high c hh (by omega) hc
      obtain ⟨i2, g2, m2⟩ := ih A[p].low _ hl (by omega) i1
      have g1' := m2 _ _ g1
      rw [g2, g1']
      simp only
      have hval : cardNodeF A A[p] (cardFF A F A[p].low) (cardFF A F A[p].high) = cardFF A F p := by
        obtain ⟨F', rfl⟩ : ∃ F', F = F' + 1 := ⟨F - 1, by omega⟩
        rw [cardFF_succ A F' p hp2, nodeAt_eq hp]
        rw [cardFF_level h (F' + 1) _ F' hl (by omega) (by omega),
          cardFF_level h (F' + 1) _ F' hh (by omega) (by omega)]
      rw [hval]
      have hps : p < (cardGoF A fuel A[p].low (cardGoF A fuel A[p].high c)).size := by rw [i2.size]; exact hp
      refine ⟨⟨by rw [Array.size_setIfInBounds]; exact i2.size, ?_, ?_, ?_⟩, ?_, ?_⟩
      · rw [getD_setF, if_neg (by omega)]; exact i2.zero
      · intro h2; rw [getD_setF, if_neg (by omega)]; exact i2.one h2
      · intro q x hx
        rw [getD_setF] at hx
        split at hx
        · rename_i hq; cases hx; rw [← hq.1]
        · exact i2.sound q x hx
      · rw [getD_setF, if_pos ⟨rfl, hps⟩]
      · intro q x hx
        rw [getD_setF]
        have hqp : p ≠ q := fun hh => by rw [← hh, hcp] at hx; cases hx
        rw [if_neg (fun hh => hqp hh.1)]
        exact m2 _ _ (m1 _ _ hx)
    · simp only
      refine ⟨hc, ?_, fun _ _ hx => hx⟩
      rw [hcp, hc.sound p x hcp]

/-- the root entry of the final cache -/
theorem cardCacheF_root {A : Arr} {n : Nat} (h : WFo A n) :
    (cardCacheF A).getD (root A) none = some (cardFF A (n + 1) (root A)) := by
  have hs := wfo_size_pos h
  have hle := varOf_le_wfo h (root A)
  have := cardGoF_spec h (n + 1) (by omega) (cardFuel A) (root A) (initCacheF A) (root_lt_size hs)
    (by have := cardFuel_gt h; omega) (cinvF_init A (n + 1) hs)
  exact this.2.1

/-! ### the floating-point recursion against the exact recursion -/

/-- every cache entry approximates the exact entry with one rounding per level below it, or is `inf`
    with the exact entry (inflated by the same factor) beyond the overflow threshold -/
theorem cardFF_good {A : Arr} {n : Nat} (h : WFo A n) :
    ∀ f p, p < A.size → n - varOf A n p < f →
      Good (n - varOf A n p) (cardF A true f p) (cardFF A f p) := by
  intro f
  induction f with
  | zero => intro p _ hf; omega
  | succ f ih =>
    intro p hp hf
    by_cases h0 : p = 0
    · subst h0; rw [cardF_zero, cardFF_zero]; exact good_zero _
    by_cases h1 : p = 1
    · subst h1; rw [cardF_one, cardFF_one]; exact good_one _
    have hp2 : 2 ≤ p := by omega
    have hnd : A[p]? = some A[p] := by simp [hp]
    obtain ⟨hv, hl, hh, hvl, hvh⟩ := h.inner p A[p] hp2 hnd
    have hvar : varOf A n p = A[p].var := varOf_node p _ hp2 hnd
    rw [cardF_succ A true f p hp2, cardFF_succ A f p hp2, nodeAt_eq hp]
    have il := (ih A[p].low hl (by omega)).mono (show n - varOf A n A[p].low ≤ n - A[p].var - 1 by omega)
    have ih' := (ih A[p].high hh (by omega)).mono (show n - varOf A n A[p].high ≤ n - A[p].var - 1 by omega)
    have hd : n - varOf A n p = (n - A[p].var - 1) + 1 := by omega
    rw [hd]
    unfold cardNode cardNodeF
    simp only [if_true]
    exact good_add (good_scale il _) (good_scale ih' _)

/-- number of decision nodes on the longest path from `p` to a terminal (fuel by depth) -/
def depthF (A : Arr) : Nat → Nat → Nat
  | _, 0 => 0
  | _, 1 => 0
  | 0, _ => 0
  | f + 1, p => 1 + max (depthF A f (nodeAt A p).low) (depthF A f (nodeAt A p).high)

theorem depthF_zero (A : Arr) (f) : depthF A f 0 = 0 := by cases f <;> simp [depthF]
theorem depthF_one (A : Arr) (f) : depthF A f 1 = 0 := by cases f <;> simp [depthF]
theorem depthF_succ (A : Arr) (f p) (hp : 2 ≤ p) :
    depthF A (f + 1) p = 1 + max (depthF A f (nodeAt A p).low) (depthF A f (nodeAt A p).high) := by
  match p, hp with
  | p + 2, _ => simp [depthF]

/-- a path has at most one decision node per level -/
theorem depthF_le {A : Arr} {n : Nat} (h : WFo A n) :
    ∀ f p, p < A.size → depthF A f p ≤ n - varOf A n p := by
  intro f
  induction f with
  | zero => intro p _; cases p with
    | zero => simp [depthF]
    | succ p => cases p <;> simp [depthF]
  | succ f ih =>
    intro p hp
    by_cases h0 : p = 0
    · subst h0; rw [depthF_zero]; exact Nat.zero_le _
    by_cases h1 : p = 1
    · subst h1; rw [depthF_one]; exact Nat.zero_le _
    have hp2 : 2 ≤ p := by omega
    have hnd : A[p]? = some A[p] := by simp [hp]
    obtain ⟨hv, hl, hh, hvl, hvh⟩ := h.inner p A[p] hp2 hnd
    have hvar : varOf A n p = A[p].var := varOf_node p _ hp2 hnd
    rw [depthF_succ A f p hp2, nodeAt_eq hp]
    have i1 := ih A[p].low hl
    have i2 := ih A[p].high hh
    have := varOf_le_wfo h A[p].low
    have := varOf_le_wfo h A[p].high
    omega

/-! a path visits every decision node at most once: `depthF ≤ size − 2` -/

/-- number of decision nodes stored in `A` whose variable is at least `k` -/
def cntGe (A : Arr) (k : Nat) : Nat :=
  (List.range A.size).countP (fun q => decide (2 ≤ q) && decide (k ≤ (nodeAt A q).var))

theorem countP_lt_of_witness {α : Type} (P Q : α → Bool) (l : List α) (a : α) (ha : a ∈ l)
    (hPQ : ∀ x, P x = true → Q x = true) (hQa : Q a = true) (hPa : P a = false) :
    l.countP P + 1 ≤ l.countP Q := by
  induction l with
  | nil => cases ha
  | cons b l ih =>
    rw [List.countP_cons, List.countP_cons]
    rcases List.mem_cons.1 ha with hab | hal
    · subst hab
      have := List.countP_mono_left (l := l) (p := P) (q := Q) (fun x _ hx => hPQ x hx)
      simp only [hQa, hPa, if_true]
      simp
      exact this
    · have := ih hal
      by_cases hb : P b = true
      · simp only [hb, hPQ b hb, if_true]; omega
      · have hb' : P b = false := by cases h : P b <;> simp_all
        simp only [hb', Bool.false_eq_true, if_false]
        omega

theorem cntGe_step (A : Arr) (p k : Nat) (hp2 : 2 ≤ p) (hp : p < A.size) (hk : (nodeAt A p).var = k) :
    cntGe A (k + 1) + 1 ≤ cntGe A k := by
  unfold cntGe
  apply countP_lt_of_witness _ _ _ p (List.mem_range.2 hp)
  · intro x hx
    simp only [Bool.and_eq_true, decide_eq_true_eq] at hx ⊢
    exact ⟨hx.1, by omega⟩
  · simp only [Bool.and_eq_true, decide_eq_true_eq]; exact ⟨hp2, by omega⟩
  · simp only [Bool.and_eq_false_imp, decide_eq_true_eq, decide_eq_false_iff_not]; intro _; omega

theorem cntGe_mono (A : Arr) {k k' : Nat} (h : k ≤ k') : cntGe A k' ≤ cntGe A k := by
  unfold cntGe
  apply List.countP_mono_left
  intro x _ hx
  simp only [Bool.and_eq_true, decide_eq_true_eq] at hx ⊢
  exact ⟨hx.1, by omega⟩

theorem countP_ge_two_range (m : Nat) (Q : Nat → Bool) (hQ : ∀ q, Q q = true → 2 ≤ q) :
    (List.range m).countP Q ≤ m - 2 := by
  induction m with
  | zero => simp
  | succ m ih =>
    rw [List.range_succ, List.countP_append, List.countP_singleton]
    by_cases hm : Q m = true
    · have := hQ m hm
      simp only [hm, if_true]; omega
    · simp only [hm]; simp; omega

theorem cntGe_le_size (A : Arr) (k : Nat) : cntGe A k ≤ A.size - 2 := by
  unfold cntGe
  apply countP_ge_two_range
  intro q hq
  simp only [Bool.and_eq_true, decide_eq_true_eq] at hq
  exact hq.1

/-- the longest path below `p` has at most as many decision nodes as `A` stores at the levels from that
    of `p` on -/
theorem depthF_le_cntGe {A : Arr} {n : Nat} (h : WFo A n) :
    ∀ f p, p < A.size → depthF A f p ≤ cntGe A (varOf A n p) := by
  intro f
  induction f with
  | zero => intro p _; cases p with
    | zero => simp [depthF]
    | succ p => cases p <;> simp [depthF]
  | succ f ih =>
    intro p hp
    by_cases h0 : p = 0
    · subst h0; rw [depthF_zero]; exact Nat.zero_le _
    by_cases h1 : p = 1
    · subst h1; rw [depthF_one]; exact Nat.zero_le _
    have hp2 : 2 ≤ p := by omega
    have hnd : A[p]? = some A[p] := by simp [hp]
    obtain ⟨hv, hl, hh, hvl, hvh⟩ := h.inner p A[p] hp2 hnd
    have hvar : varOf A n p = A[p].var := varOf_node p _ hp2 hnd
    rw [depthF_succ A f p hp2, nodeAt_eq hp, hvar]
    have i1 := Nat.le_trans (ih A[p].low hl) (cntGe_mono A (show A[p].var + 1 ≤ varOf A n A[p].low by omega))
    have i2 := Nat.le_trans (ih A[p].high hh) (cntGe_mono A (show A[p].var + 1 ≤ varOf A n A[p].high by omega))
    have := cntGe_step A p A[p].var hp2 hp (by rw [nodeAt_eq hp])
    omega

theorem depthF_le_size {A : Arr} {n : Nat} (h : WFo A n) (f p : Nat) (hp : p < A.size) :
    depthF A f p ≤ A.size - 2 :=
  Nat.le_trans (depthF_le_cntGe h f p hp) (cntGe_le_size A _)

/-- the sharper form of `cardFF_good`: one rounding per decision node on the longest path below `p` -/
theorem cardFF_good_depth {A : Arr} {n : Nat} (h : WFo A n) :
    ∀ f p, p < A.size → n - varOf A n p < f →
      Good (depthF A f p) (cardF A true f p) (cardFF A f p) := by
  intro f
  induction f with
  | zero => intro p _ hf; omega
  | succ f ih =>
    intro p hp hf
    by_cases h0 : p = 0
    · subst h0; rw [cardF_zero, cardFF_zero]; exact good_zero _
    by_cases h1 : p = 1
    · subst h1; rw [cardF_one, cardFF_one]; exact good_one _
    have hp2 : 2 ≤ p := by omega
    have hnd : A[p]? = some A[p] := by simp [hp]
    obtain ⟨hv, hl, hh, hvl, hvh⟩ := h.inner p A[p] hp2 hnd
    have hvar : varOf A n p = A[p].var := varOf_node p _ hp2 hnd
    rw [cardF_succ A true f p hp2, cardFF_succ A f p hp2, depthF_succ A f p hp2, nodeAt_eq hp]
    have il := (ih A[p].low hl (by omega)).mono (Nat.le_max_left _ (depthF A f A[p].high))
    have ih' := (ih A[p].high hh (by omega)).mono (Nat.le_max_right (depthF A f A[p].low) _)
    rw [Nat.add_comm 1]
    unfold cardNode cardNodeF
    simp only [if_true]
    exact good_add (good_scale il _) (good_scale ih' _)

/-- while the exact entry is below `2^53` nothing is ever rounded -/
theorem cardFF_exact {A : Arr} {n : Nat} (h : WFo A n) :
    ∀ f p, p < A.size → n - varOf A n p < f → cardF A true f p < 2 ^ 53 →
      cardFF A f p = fin (cardF A true f p * U) := by
  intro f
  induction f with
  | zero => intro p _ hf; omega
  | succ f ih =>
    intro p hp hf hc
    by_cases h0 : p = 0
    · subst h0; rw [cardF_zero, cardFF_zero, Nat.zero_mul]; rfl
    by_cases h1 : p = 1
    · subst h1; rw [cardF_one, cardFF_one, Nat.one_mul]; rfl
    have hp2 : 2 ≤ p := by omega
    have hnd : A[p]? = some A[p] := by simp [hp]
    obtain ⟨hv, hl, hh, hvl, hvh⟩ := h.inner p A[p] hp2 hnd
    have hvar : varOf A n p = A[p].var := varOf_node p _ hp2 hnd
    rw [cardF_succ A true f p hp2, nodeAt_eq hp] at hc ⊢
    rw [cardFF_succ A f p hp2, nodeAt_eq hp]
    unfold cardNode at hc ⊢
    unfold cardNodeF
    simp only [if_true] at hc ⊢
    generalize hgl : varAt A A[p].low - A[p].var - 1 = gl at *
    generalize hgh : varAt A A[p].high - A[p].var - 1 = gh at *
    have key : ∀ (c g : Nat), c * 2 ^ g < 2 ^ 53 → scale (fin (c * U)) g = fin (c * 2 ^ g * U) := by
      intro c g hcg
      by_cases hc0 : c = 0
      · subst hc0; simp [scale, isZero, zero]
      · have hcpos : 1 ≤ c := by omega
        have hne : c * U ≠ 0 := Nat.mul_ne_zero hc0 (Nat.ne_of_gt U_pos)
        rw [scale_fin_pos _ _ hne]
        have hg : g < 1024 := by
          rcases Nat.lt_or_ge g 53 with hg | hg
          · omega
          · exfalso
            have : (2 : Nat) ^ 53 ≤ 2 ^ g := Nat.pow_le_pow_right (by decide) hg
            have : 1 * 2 ^ g ≤ c * 2 ^ g := Nat.mul_le_mul_right _ hcpos
            omega
        have hlt : c * U * 2 ^ g < Top := by
          rw [Nat.mul_right_comm, Top_eq_U]
          exact (Nat.mul_lt_mul_right U_pos).2 (Nat.lt_trans hcg (by decide))
        rw [(mulPow2_fin _ _).1 hg hlt, Nat.mul_right_comm]
    have hcl : cardF A true f A[p].low * 2 ^ gl < 2 ^ 53 := by omega
    have hch : cardF A true f A[p].high * 2 ^ gh < 2 ^ 53 := by omega
    have hcl' : cardF A true f A[p].low < 2 ^ 53 :=
      Nat.lt_of_le_of_lt (Nat.le_mul_of_pos_right _ (Nat.two_pow_pos gl)) hcl
    have hch' : cardF A true f A[p].high < 2 ^ 53 :=
      Nat.lt_of_le_of_lt (Nat.le_mul_of_pos_right _ (Nat.two_pow_pos gh)) hch
    rw [ih A[p].low hl (by omega) hcl', ih A[p].high hh (by omega) hch', key _ _ hcl, key _ _ hch]
    show ofExact _ = _
    rw [← Nat.add_mul]
    generalize cardF A true f A[p].low * 2 ^ gl + cardF A true f A[p].high * 2 ^ gh = c at *
    unfold ofExact
    simp only
    have hr : round53 (c * U) = c * U := round53_int c 1074 hc
    rw [hr, if_pos]
    rw [Top_eq_U]
    exact (Nat.mul_lt_mul_right U_pos).2 (Nat.lt_trans hc (by decide))

/-! ### the public function -/

/-- `exact_cardinality` in terms of the plain recursion -/
theorem exactCard_eq_cardF {A : Arr} {n : Nat} (h : WFo A n) (h2 : 2 ≤ A.size) :
    exactCard A = cardF A true (n + 1) (root A) * 2 ^ varAt A (root A) := by
  have hs := wfo_size_pos h
  unfold exactCard exactCardO
  rw [if_neg (by omega), if_neg (by omega), cardOk_of_wfo h]
  simp only [Bool.not_true, Bool.false_eq_true, if_false]
  rw [cardCache_root h true]

theorem exactCard_size_one {A : Arr} (h1 : A.size = 1) : exactCard A = 0 := by
  unfold exactCard exactCardO
  rw [if_neg (by omega), if_pos h1]

/-- `cardinality` in terms of the plain recursion -/
theorem cardF64With_eq {A : Arr} {n : Nat} (h : WFo A n) (h2 : 2 ≤ A.size) (fin : F64 → Nat → F64) :
    cardF64With fin A = .ok (fin (cardFF A (n + 1) (root A)) (varAt A (root A))) := by
  unfold cardF64With
  rw [if_neg (by omega), if_neg (by omega), cardOk_of_wfo h]
  simp only [Bool.not_true, Bool.false_eq_true, if_false]
  rw [cardCacheF_root h]

theorem cardF64O_eq {A : Arr} {n : Nat} (h : WFo A n) (h2 : 2 ≤ A.size) :
    cardF64O A = .ok (finalF (cardFF A (n + 1) (root A)) (varAt A (root A))) := cardF64With_eq h h2 _

theorem cardF64With_size_one {A : Arr} (h1 : A.size = 1) (fin : F64 → Nat → F64) :
    cardF64With fin A = .ok F64.zero := by
  unfold cardF64With
  rw [if_neg (by omega), if_pos h1]

theorem cardF64O_size_one {A : Arr} (h1 : A.size = 1) : cardF64O A = .ok F64.zero :=
  cardF64With_size_one h1 _

theorem varAt_root_le {A : Arr} {n : Nat} (h : WFo A n) : varAt A (root A) ≤ n := by
  rw [varAt_eq_varOf h _ (root_lt_size (wfo_size_pos h))]
  exact varOf_le_wfo h _

end B.Count
