import BddVerif.Lemmas.AlgoEq2NFOptOps
/-!
# `to_optimized_dnf` (hand model): the clause vectors it emits have at most `num_vars` cells

Needed to feed the output of the translated `to_optimized_dnf` into the translated `mk_dnf` (whose equivalence theorem
asks for vectors of at most `2^16` cells): `partial_clause` starts empty and is only written at indices of the support
of a canonical array over `n` variables, which are `< n`.
-/
namespace B.AlgoEq2NF
open B B.NF

def LenOK (n : Nat) (pc : PVal) (res : List PVal) : Prop := pc.length ≤ n ∧ ∀ c ∈ res, c.length ≤ n

theorem length_set {n : Nat} {pv : PVal} {x : Nat} (b : Bool) (h : pv.length ≤ n) (hx : x < n) :
    (PVal.set pv x b).length ≤ n := by
  unfold PVal.set
  simp only [List.length_set, List.length_append, List.length_replicate]
  omega

theorem length_unset {n : Nat} {pv : PVal} {x : Nat} (h : pv.length ≤ n) (hx : x < n) : (pvUnset pv x).length ≤ n := by
  unfold pvUnset
  simp only [List.length_set, List.length_append, List.length_replicate]
  omega

theorem can_prune {n : Nat} {bdd core : Arr} : ∀ (l : List Nat), (∀ x ∈ l, x < n) → ∀ (rem : Arr), Can n rem →
    Can n (pruneRemaining bdd core rem l) := by
  intro l
  induction l with
  | nil => intro _ rem hr; exact hr
  | cons x t ih =>
    intro hl rem hr
    have hx : x < n := hl x (List.mem_cons_self ..)
    have hp : pruneRemaining bdd core rem (x :: t) = pruneRemaining bdd core
        (if (NF.bddOr (NF.varExists rem x) core == bdd) = true then NF.varExists rem x else rem) t := rfl
    rw [hp]
    refine ih (fun y hy => hl y (List.mem_cons_of_mem _ hy)) _ ?_
    split
    · exact can_varExists hr hx
    · exact hr

def RecLen (n : Nat) (rec : Arr → PVal → List PVal → Outcome (PVal × List PVal)) : Prop :=
  ∀ bdd pc res r, Can n bdd → rec bdd pc res = .ok r → LenOK n pc res → LenOK n r.1 r.2

theorem optBranch_len {n : Nat} {rec : Arr → PVal → List PVal → Outcome (PVal × List PVal)} (hrec : RecLen n rec)
    {rest : Arr} (hrest : Can n rest) (support : List Nat) (s0 : Nat) (h0 : s0 ∈ support) (hlt : ∀ y ∈ support, y < n)
    (pc : PVal) (res : List PVal) (r : PVal × List PVal) (hm : optBranch rec rest pc res support s0 = .ok r)
    (hl : LenOK n pc res) : LenOK n r.1 r.2 := by
  unfold optBranch at hm
  have hx := hlt _ (bestBranch_mem rest support s0 h0)
  generalize (bestBranch rest support s0).1 = x at hm hx
  simp only at hm
  rcases e1 : rec (varRestrict rest x true) (PVal.set pc x true) res with r1 | m1 | m1
  · rw [e1] at hm
    simp only at hm
    have l1 := hrec _ _ _ r1 (can_varRestrict hrest x true) e1 ⟨length_set true hl.1 hx, hl.2⟩
    rcases e2 : rec (varRestrict rest x false) (PVal.set r1.1 x false) r1.2 with r2 | m2 | m2
    · rw [e2] at hm
      simp only [Outcome.ok.injEq] at hm
      have l2 := hrec _ _ _ r2 (can_varRestrict hrest x false) e2 ⟨length_set false l1.1 hx, l1.2⟩
      rw [← hm]
      exact ⟨length_unset l2.1 hx, l2.2⟩
    · rw [e2] at hm; cases hm
    · rw [e2] at hm; cases hm
  · rw [e1] at hm; cases hm
  · rw [e1] at hm; cases hm

theorem optRec_len {n : Nat} (card : Arr → Nat) : ∀ m, RecLen n (optRec card m) := by
  intro m
  induction m with
  | zero => intro bdd pc res r _ hr; simp [optRec] at hr
  | succ m ih =>
    intro bdd pc res r hcan hr hl
    simp only [optRec] at hr
    by_cases h1 : bdd.size = 1
    · rw [if_pos h1] at hr
      simp only [Outcome.ok.injEq] at hr
      rw [← hr]; exact hl
    rw [if_neg h1] at hr
    by_cases h2 : bdd.size = 2
    · rw [if_pos h2] at hr
      simp only [Outcome.ok.injEq] at hr
      rw [← hr]
      refine ⟨hl.1, ?_⟩
      intro c hc
      rw [List.mem_append, List.mem_singleton] at hc
      rcases hc with hc | rfl
      · exact hl.2 c hc
      · exact hl.1
    rw [if_neg h2] at hr
    rcases hsp : supportSorted bdd with _ | ⟨s0, tl⟩
    · rw [hsp] at hr; cases hr
    rw [hsp] at hr
    simp only at hr
    have hlt : ∀ y ∈ s0 :: tl, y < n := by rw [← hsp]; exact can_support_lt hcan
    have hx : (bestCore card bdd (s0 :: tl) s0).1 < n :=
      hlt _ (bestCore_mem card bdd (s0 :: tl) s0 (List.mem_cons_self ..))
    rcases e0 : optAfterCore card (optRec card m) bdd pc res (s0 :: tl) s0 with ⟨pc1, res1, rest⟩ | m0 | m0
    · rw [e0] at hr
      simp only at hr
      unfold optAfterCore at e0
      by_cases hbest : (bestCore card bdd (s0 :: tl) s0).2 ≠ 0
      · simp only [hbest, ne_eq, not_false_eq_true, if_true] at e0
        generalize (bestCore card bdd (s0 :: tl) s0).1 = x at e0 hx
        have hcore := can_varForAll hcan hx
        rcases ec : optRec card m (NF.varForAll bdd x) pc res with rc | mc | mc
        · rw [ec] at e0
          simp only at e0
          have lc := ih _ _ _ rc hcore ec hl
          by_cases hsz : (NF.bddAndNot bdd (NF.varForAll bdd x)).size = 1
          · rw [if_pos hsz] at e0; cases e0
          · rw [if_neg hsz] at e0
            simp only [Outcome.ok.injEq, Prod.mk.injEq] at e0
            obtain ⟨rfl, rfl, rfl⟩ := e0
            exact optBranch_len ih (can_prune _ (can_support_lt hcore) _ (can_andNot hcan hcore)) (s0 :: tl) s0
              (List.mem_cons_self ..) hlt _ _ r hr lc
        · rw [ec] at e0; cases e0
        · rw [ec] at e0; cases e0
      · simp only [hbest, if_false] at e0
        simp only [Outcome.ok.injEq, Prod.mk.injEq] at e0
        obtain ⟨rfl, rfl, rfl⟩ := e0
        exact optBranch_len ih hcan (s0 :: tl) s0 (List.mem_cons_self ..) hlt _ _ r hr hl
    · rw [e0] at hr; cases hr
    · rw [e0] at hr; cases hr

/-- every clause of `to_optimized_dnf` of a canonical array over `n` variables is a vector of at most `n` cells -/
theorem toOptimizedDnfWith_len {n : Nat} (card : Arr → Nat) {A : Arr} (hA : Can n A) (cs : List PVal)
    (h : toOptimizedDnfWith card A = .ok cs) : ∀ c ∈ cs, c.length ≤ n := by
  unfold toOptimizedDnfWith at h
  by_cases h1 : A.size = 1
  · rw [if_pos h1] at h
    simp only [Outcome.ok.injEq] at h
    rw [← h]; intro c hc; cases hc
  rw [if_neg h1] at h
  by_cases h2 : A.size = 2
  · rw [if_pos h2] at h
    simp only [Outcome.ok.injEq] at h
    rw [← h]; intro c hc
    rw [List.mem_singleton] at hc; subst hc; simp
  rw [if_neg h2] at h
  rcases e : optRec card (numVars A + 2) A [] [] with r | m0 | m0
  · rw [e] at h
    simp only [Outcome.ok.injEq] at h
    rw [← h]
    exact (optRec_len card _ A [] [] r hA e ⟨by simp, fun c hc => by cases hc⟩).2
  · rw [e] at h; cases h
  · rw [e] at h; cases h

end B.AlgoEq2NF
