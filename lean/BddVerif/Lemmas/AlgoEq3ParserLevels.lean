import BddVerif.Lemmas.AlgoEq3ParserConv
/-!
# The eight translated parsing functions = the hand model, level by level

`B.Gen.Algo3.{terminal, parser__xor, parser__and, parser__or, parser__cond, parser__imp, parser__iff, parse_formula}` are a
`mutual` block, structurally recursive on `fuel` (every call costs one unit). The hand model (`Parser.terminalP … parseFormula`)
is well-founded on `(sizeL data, level)`. This file proves one lemma per branch of the model's induction principle: if the
callees agree with the model on the sub-slices (for fuel `≥ 8·sizeL + level`), so does the caller. Slices `&data[..i]`,
`&data[i+1..]`, `&data[q+1..c]` of a converted token list are the model's `take`/`drop`; `index_of_first` is `indexOfFirst`
(`index_of_first_conv`). All proofs start by rewriting with the equation lemma of the GENERATED function.
-/
namespace B.AlgoEq3Parser
open B B.Gen B.Gen.Algo3 B.AlgoEqUtil B.Parser

attribute [local instance 10000] Rust.monadOutcomeInline

/-! ### slices -/

theorem sliceTo_conv (ts : List Tok) (i : Nat) (h : i ≤ ts.length) :
    Rust.sliceTo (convA ts) i = .ok (convA (ts.take i)) := by
  unfold Rust.sliceTo
  rw [if_pos (by simpa using h)]
  simp [convA, convL_eq_map, List.map_take]

theorem sliceFrom_conv (ts : List Tok) (lo : Nat) (h : lo ≤ ts.length) :
    Rust.sliceFrom (convA ts) lo = .ok (convA (ts.drop lo)) := by
  unfold Rust.sliceFrom
  rw [if_pos (by simpa using h)]
  simp only [convA, convL_eq_map, List.extract_toArray, List.extract_eq_take_drop, List.size_toArray, List.length_map,
    List.map_drop]
  rw [List.take_of_length_le (by simp)]

theorem sliceRange_conv (ts : List Tok) (lo hi : Nat) (h1 : lo ≤ hi) (h2 : hi ≤ ts.length) :
    Rust.sliceRange (convA ts) lo hi = .ok (convA ((ts.take hi).drop lo)) := by
  unfold Rust.sliceRange
  rw [if_neg (by omega), if_pos (by simpa using h2)]
  simp [convA, convL_eq_map, List.map_drop, List.map_take, List.drop_take]

theorem indexOfFirst_lt {l : List Tok} {k : Tok} {i : Nat} (h : indexOfFirst l k = some i) : i < l.length := by
  obtain ⟨t, h1, _⟩ := indexOfFirst_get h
  exact (List.getElem?_eq_some_iff.mp h1).1

/-! ### the statements, one per level (fuel bound `8 · sizeL data + level`) -/

def OKterm (ts : List Tok) : Prop :=
  ∀ fuel, 8 * sizeL ts + 1 ≤ fuel → terminal fuel (convA ts) = convO (terminalP ts)
def OKxor (ts : List Tok) : Prop :=
  ∀ fuel, 8 * sizeL ts + 2 ≤ fuel → parser__xor fuel (convA ts) = convO (xorP ts)
def OKand (ts : List Tok) : Prop :=
  ∀ fuel, 8 * sizeL ts + 3 ≤ fuel → parser__and fuel (convA ts) = convO (andP ts)
def OKor (ts : List Tok) : Prop :=
  ∀ fuel, 8 * sizeL ts + 4 ≤ fuel → parser__or fuel (convA ts) = convO (orP ts)
def OKcond (ts : List Tok) : Prop :=
  ∀ fuel, 8 * sizeL ts + 5 ≤ fuel → parser__cond fuel (convA ts) = convO (condP ts)
def OKimp (ts : List Tok) : Prop :=
  ∀ fuel, 8 * sizeL ts + 6 ≤ fuel → parser__imp fuel (convA ts) = convO (impP ts)
def OKiff (ts : List Tok) : Prop :=
  ∀ fuel, 8 * sizeL ts + 7 ≤ fuel → parser__iff fuel (convA ts) = convO (iffP ts)
def OKform (ts : List Tok) : Prop :=
  ∀ fuel, 8 * sizeL ts + 8 ≤ fuel → parse_formula fuel (convA ts) = convO (parseFormula ts)

/-! ### binary operators -/

/-- `xor()`, the operator occurs: `Ok(Box::new(Xor(terminal(&data[..i])?, xor(&data[i+1..])?)))` -/
theorem xor_some {data : List Tok} {i : Nat} (h : indexOfFirst data .xor = some i)
    (ih1 : OKterm (data.take i)) (ih2 : OKxor (data.drop (i + 1))) : OKxor data := by
  intro fuel hf
  obtain ⟨f, rfl⟩ : ∃ f, fuel = f + 1 := ⟨fuel - 1, by omega⟩
  have hlt := indexOfFirst_lt h
  have h1 := sizeL_take_lt h
  have h2 := sizeL_drop_lt h
  rw [parser__xor.eq_2, show ExprToken.Xor = convT .xor from rfl, index_of_first_conv _ _ (by decide), h, xorP_eq, h]
  dsimp only
  rw [sliceTo_conv _ _ (by omega)]
  simp only [bind_ok]
  rw [ih1 f (by omega)]
  cases terminalP (data.take i) with
  | ok a =>
    simp only [convO, Outcome.bind, bind_ok, pure_eq]
    rw [sliceFrom_conv _ _ (by omega)]; simp only [bind_ok]; rw [ih2 f (by omega)]
    cases xorP (data.drop (i + 1)) <;> rfl
  | err m => rfl
  | panic m => rfl

/-- `xor()`, no occurrence: forward to `terminal(data)` -/
theorem xor_none {data : List Tok} (h : indexOfFirst data .xor = none) (ih : OKterm data) : OKxor data := by
  intro fuel hf
  obtain ⟨f, rfl⟩ : ∃ f, fuel = f + 1 := ⟨fuel - 1, by omega⟩
  rw [parser__xor.eq_2, show ExprToken.Xor = convT .xor from rfl, index_of_first_conv _ _ (by decide), h, xorP_eq, h]
  exact ih f (by omega)

/-- `and()`, the operator occurs: `Ok(Box::new(And(xor(&data[..i])?, and(&data[i+1..])?)))` -/
theorem and_some {data : List Tok} {i : Nat} (h : indexOfFirst data .and = some i)
    (ih1 : OKxor (data.take i)) (ih2 : OKand (data.drop (i + 1))) : OKand data := by
  intro fuel hf
  obtain ⟨f, rfl⟩ : ∃ f, fuel = f + 1 := ⟨fuel - 1, by omega⟩
  have hlt := indexOfFirst_lt h
  have h1 := sizeL_take_lt h
  have h2 := sizeL_drop_lt h
  rw [parser__and.eq_2, show ExprToken.And = convT .and from rfl, index_of_first_conv _ _ (by decide), h, andP_eq, h]
  dsimp only
  rw [sliceTo_conv _ _ (by omega)]
  simp only [bind_ok]
  rw [ih1 f (by omega)]
  cases xorP (data.take i) with
  | ok a =>
    simp only [convO, Outcome.bind, bind_ok, pure_eq]
    rw [sliceFrom_conv _ _ (by omega)]; simp only [bind_ok]; rw [ih2 f (by omega)]
    cases andP (data.drop (i + 1)) <;> rfl
  | err m => rfl
  | panic m => rfl

/-- `and()`, no occurrence: forward to `xor(data)` -/
theorem and_none {data : List Tok} (h : indexOfFirst data .and = none) (ih : OKxor data) : OKand data := by
  intro fuel hf
  obtain ⟨f, rfl⟩ : ∃ f, fuel = f + 1 := ⟨fuel - 1, by omega⟩
  rw [parser__and.eq_2, show ExprToken.And = convT .and from rfl, index_of_first_conv _ _ (by decide), h, andP_eq, h]
  exact ih f (by omega)

/-- `or()`, the operator occurs: `Ok(Box::new(Or(and(&data[..i])?, or(&data[i+1..])?)))` -/
theorem or_some {data : List Tok} {i : Nat} (h : indexOfFirst data .or = some i)
    (ih1 : OKand (data.take i)) (ih2 : OKor (data.drop (i + 1))) : OKor data := by
  intro fuel hf
  obtain ⟨f, rfl⟩ : ∃ f, fuel = f + 1 := ⟨fuel - 1, by omega⟩
  have hlt := indexOfFirst_lt h
  have h1 := sizeL_take_lt h
  have h2 := sizeL_drop_lt h
  rw [parser__or.eq_2, show ExprToken.Or = convT .or from rfl, index_of_first_conv _ _ (by decide), h, orP_eq, h]
  dsimp only
  rw [sliceTo_conv _ _ (by omega)]
  simp only [bind_ok]
  rw [ih1 f (by omega)]
  cases andP (data.take i) with
  | ok a =>
    simp only [convO, Outcome.bind, bind_ok, pure_eq]
    rw [sliceFrom_conv _ _ (by omega)]; simp only [bind_ok]; rw [ih2 f (by omega)]
    cases orP (data.drop (i + 1)) <;> rfl
  | err m => rfl
  | panic m => rfl

/-- `or()`, no occurrence: forward to `and(data)` -/
theorem or_none {data : List Tok} (h : indexOfFirst data .or = none) (ih : OKand data) : OKor data := by
  intro fuel hf
  obtain ⟨f, rfl⟩ : ∃ f, fuel = f + 1 := ⟨fuel - 1, by omega⟩
  rw [parser__or.eq_2, show ExprToken.Or = convT .or from rfl, index_of_first_conv _ _ (by decide), h, orP_eq, h]
  exact ih f (by omega)

/-- `imp()`, the operator occurs: `Ok(Box::new(Imp(cond(&data[..i])?, imp(&data[i+1..])?)))` -/
theorem imp_some {data : List Tok} {i : Nat} (h : indexOfFirst data .imp = some i)
    (ih1 : OKcond (data.take i)) (ih2 : OKimp (data.drop (i + 1))) : OKimp data := by
  intro fuel hf
  obtain ⟨f, rfl⟩ : ∃ f, fuel = f + 1 := ⟨fuel - 1, by omega⟩
  have hlt := indexOfFirst_lt h
  have h1 := sizeL_take_lt h
  have h2 := sizeL_drop_lt h
  rw [parser__imp.eq_2, show ExprToken.Imp = convT .imp from rfl, index_of_first_conv _ _ (by decide), h, impP_eq, h]
  dsimp only
  rw [sliceTo_conv _ _ (by omega)]
  simp only [bind_ok]
  rw [ih1 f (by omega)]
  cases condP (data.take i) with
  | ok a =>
    simp only [convO, Outcome.bind, bind_ok, pure_eq]
    rw [sliceFrom_conv _ _ (by omega)]; simp only [bind_ok]; rw [ih2 f (by omega)]
    cases impP (data.drop (i + 1)) <;> rfl
  | err m => rfl
  | panic m => rfl

/-- `imp()`, no occurrence: forward to `cond(data)` -/
theorem imp_none {data : List Tok} (h : indexOfFirst data .imp = none) (ih : OKcond data) : OKimp data := by
  intro fuel hf
  obtain ⟨f, rfl⟩ : ∃ f, fuel = f + 1 := ⟨fuel - 1, by omega⟩
  rw [parser__imp.eq_2, show ExprToken.Imp = convT .imp from rfl, index_of_first_conv _ _ (by decide), h, impP_eq, h]
  exact ih f (by omega)

/-- `iff()`, the operator occurs: `Ok(Box::new(Iff(imp(&data[..i])?, iff(&data[i+1..])?)))` -/
theorem iff_some {data : List Tok} {i : Nat} (h : indexOfFirst data .iff = some i)
    (ih1 : OKimp (data.take i)) (ih2 : OKiff (data.drop (i + 1))) : OKiff data := by
  intro fuel hf
  obtain ⟨f, rfl⟩ : ∃ f, fuel = f + 1 := ⟨fuel - 1, by omega⟩
  have hlt := indexOfFirst_lt h
  have h1 := sizeL_take_lt h
  have h2 := sizeL_drop_lt h
  rw [parser__iff.eq_2, show ExprToken.Iff = convT .iff from rfl, index_of_first_conv _ _ (by decide), h, iffP_eq, h]
  dsimp only
  rw [sliceTo_conv _ _ (by omega)]
  simp only [bind_ok]
  rw [ih1 f (by omega)]
  cases impP (data.take i) with
  | ok a =>
    simp only [convO, Outcome.bind, bind_ok, pure_eq]
    rw [sliceFrom_conv _ _ (by omega)]; simp only [bind_ok]; rw [ih2 f (by omega)]
    cases iffP (data.drop (i + 1)) <;> rfl
  | err m => rfl
  | panic m => rfl

/-- `iff()`, no occurrence: forward to `imp(data)` -/
theorem iff_none {data : List Tok} (h : indexOfFirst data .iff = none) (ih : OKimp data) : OKiff data := by
  intro fuel hf
  obtain ⟨f, rfl⟩ : ∃ f, fuel = f + 1 := ⟨fuel - 1, by omega⟩
  rw [parser__iff.eq_2, show ExprToken.Iff = convT .iff from rfl, index_of_first_conv _ _ (by decide), h, iffP_eq, h]
  exact ih f (by omega)

end B.AlgoEq3Parser
