import BddVerif.Gen.Algo2
import BddVerif.Lemmas.AlgoEqUtilBase
import BddVerif.Lemmas.SerialIO
/-!
# The scripted byte devices of `Gen/RustShimIO.lean` are the I/O model of `Model/Serial.lean`

The translated `write_as_bytes` / `read_as_bytes` (`Gen/Algo2.lean`) run on the shim's `Rust.Reader` / `Rust.Writer`
(bytes are `Nat`s, `read_exact` / `write_all` are std's default loops written with an explicit bound on the number
of `read` / `write` calls, a log of calls is kept for the replay driver). The property theorems C12/C13 are about
`Serial.Reader`, `Serial.readExact`, `Serial.writeAll` (bytes are `UInt8`, well-founded recursion). The two were
written independently; this file relates them:

* `rdOf`, `evOf`, `byteOf` — the representation maps;
* `read_repr` — one `read` call; `readExactGo_repr` / `readExact_repr` — `read_exact` (the shim's bound
  `|buf| + |script| + 2` is never exhausted: `need + |script| + 1` calls suffice);
* `writeAllGo_repr` — `write_all` (`|script| + 2` calls suffice), with the bytes `taken` by the sink;
* in all of them the shim's counter `sp` of consumed script entries satisfies `sp' + |script'| = sp + |script|`.
-/
namespace B.AlgoEq2Bytes
open B B.Gen B.AlgoEqUtil

/-- a byte of the shim (`Nat`, meant to be below 256) as a byte of the Serial model -/
def byteOf (b : Nat) : UInt8 := b.toUInt8

def evOf : Rust.IoEv → Serial.Ev
  | .give k => .give k
  | .interrupted => .interrupted
  | .fail => .fail

/-- the scripted reader of `Gen/RustShimIO.lean` as a reader of `Model/Serial.lean` (the call log is dropped) -/
def rdOf (r : Rust.Reader) : Serial.Reader := ⟨r.data.map byteOf, r.script.map evOf⟩

theorem byteOf_toNat (b : Nat) : (byteOf b).toNat = b % 256 := by
  simp [byteOf, Nat.toUInt8, UInt8.toNat_ofNat']

theorem byteOf_toNat_of_lt {b : Nat} (h : b < 256) : (byteOf b).toNat = b := by
  rw [byteOf_toNat, Nat.mod_eq_of_lt h]

theorem byteOf_of_toNat (u : UInt8) : byteOf u.toNat = u := by
  simp [byteOf]

/-- result of one `read` call -/
inductive RelRead : Except Rust.IoError (List Nat) → Serial.ReadRes → Prop
  | bytes (bs : List Nat) : RelRead (.ok bs) (.bytes (bs.map byteOf))
  | interrupted : RelRead (.error ⟨.interrupted⟩) .interrupted
  | failed : RelRead (.error ⟨.other⟩) .failed

/-- **representation lemma, `Read::read`**: one call on the shim's device is one call on the Serial device; the shim
    additionally logs the call (`wants`) and counts consumed script entries (`sp`) -/
theorem read_repr (r : Rust.Reader) (want : Nat) :
    RelRead (r.read want).1 ((rdOf r).read want).1 ∧ rdOf (r.read want).2 = ((rdOf r).read want).2 ∧
      (r.read want).2.sp + (r.read want).2.script.length = r.sp + r.script.length ∧
      (r.read want).2.wants = r.wants ++ [want] := by
  unfold Rust.Reader.read Serial.Reader.read rdOf
  cases hs : r.script with
  | nil =>
    simp only [List.map_nil, ← List.map_take, ← List.map_drop]
    exact ⟨.bytes _, by trivial, by trivial, by trivial⟩
  | cons e s =>
    cases e with
    | give k =>
      simp only [List.map_cons, evOf, ← List.map_take, ← List.map_drop]
      exact ⟨.bytes _, by trivial, by simp only [List.length_cons]; omega, by trivial⟩
    | interrupted =>
      simp only [List.map_cons, evOf]
      exact ⟨.interrupted, by trivial, by simp only [List.length_cons]; omega, by trivial⟩
    | fail =>
      simp only [List.map_cons, evOf]
      exact ⟨.failed, by trivial, by simp only [List.length_cons]; omega, by trivial⟩
/-! ### equations of the Serial I/O model (defined by well-founded recursion) -/
open Serial in
theorem sReadExact_zero (r : Serial.Reader) (acc) : Serial.readExact r 0 acc = (.ok acc, r) := by
  rw [Serial.readExact]; simp

open Serial in
theorem sReadExact_bytes {r r' : Serial.Reader} {need : Nat} {bs} (acc) (hn : need ≠ 0)
    (h : r.read need = (.bytes bs, r')) :
    Serial.readExact r need acc =
      if bs.length = 0 then (.eof, r') else Serial.readExact r' (need - bs.length) (acc ++ bs) := by
  rw [Serial.readExact]
  simp only [hn, if_false]
  split
  · rename_i bs0 r0 heq
    rw [h] at heq
    simp only [Prod.mk.injEq, ReadRes.bytes.injEq] at heq
    obtain ⟨rfl, rfl⟩ := heq
    split <;> rfl
  · rename_i heq; rw [h] at heq; simp at heq
  · rename_i heq; rw [h] at heq; simp at heq

open Serial in
theorem sReadExact_int {r r' : Serial.Reader} {need : Nat} (acc) (hn : need ≠ 0)
    (h : r.read need = (.interrupted, r')) :
    Serial.readExact r need acc = Serial.readExact r' need acc := by
  rw [Serial.readExact]
  simp only [hn, if_false]
  split
  · rename_i heq; rw [h] at heq; simp at heq
  · rename_i r0 heq
    rw [h] at heq
    simp only [Prod.mk.injEq, true_and] at heq
    subst heq; rfl
  · rename_i heq; rw [h] at heq; simp at heq

open Serial in
theorem sReadExact_fail {r r' : Serial.Reader} {need : Nat} (acc) (hn : need ≠ 0)
    (h : r.read need = (.failed, r')) :
    Serial.readExact r need acc = (.failed, r') := by
  rw [Serial.readExact]
  simp only [hn, if_false]
  split
  · rename_i heq; rw [h] at heq; simp at heq
  · rename_i heq; rw [h] at heq; simp at heq
  · rename_i r0 heq
    rw [h] at heq
    simp only [Prod.mk.injEq, true_and] at heq
    subst heq; rfl

open Serial in
theorem sReadBytesIO_eq (r : Serial.Reader) (acc : Arr) :
    Serial.readBytesIO r acc =
      match Serial.readExact r Gen.recordLen [] with
      | (.ok buf, r') => Serial.readBytesIO r' (acc.push (decodeNode buf))
      | (.eof, r') => (.ok acc, r')
      | (.failed, r') => (.err "io error", r') := by
  rw [Serial.readBytesIO]
  split <;> rename_i heq <;> simp only [heq]

/-! ### `read_exact` -/

inductive RelExact : Except Rust.IoError (List Nat) → Serial.ExactRes → Prop
  | ok (bs : List Nat) : RelExact (.ok bs) (.ok (bs.map byteOf))
  | eof : RelExact (.error ⟨.unexpectedEof⟩) .eof
  | failed : RelExact (.error ⟨.other⟩) .failed

theorem rdOf_script_length (r : Rust.Reader) : (rdOf r).script.length = r.script.length := by simp [rdOf]
theorem rdOf_data_length (r : Rust.Reader) : (rdOf r).data.length = r.data.length := by simp [rdOf]

/-- **representation lemma, `read_exact`**: std's default `read_exact` over the shim's device (bounded recursion
    `readExactGo`) is `Serial.readExact`, as soon as the bound is at least `need + |script| + 1` -/
theorem readExactGo_repr : ∀ (fuel : Nat) (r : Rust.Reader) (need : Nat) (acc : List Nat),
    need + r.script.length + 1 ≤ fuel →
    RelExact (Rust.readExactGo fuel r need acc).1 (Serial.readExact (rdOf r) need (acc.map byteOf)).1 ∧
    rdOf (Rust.readExactGo fuel r need acc).2 = (Serial.readExact (rdOf r) need (acc.map byteOf)).2 ∧
    (Rust.readExactGo fuel r need acc).2.sp + (Rust.readExactGo fuel r need acc).2.script.length =
      r.sp + r.script.length ∧
    (∀ bs, (Rust.readExactGo fuel r need acc).1 = .ok bs → bs.length = acc.length + need) := by
  intro fuel
  induction fuel with
  | zero => intro r need acc h; omega
  | succ fuel ih =>
    intro r need acc hf
    by_cases hn : need = 0
    · subst hn
      simp only [Rust.readExactGo, if_true, sReadExact_zero]
      exact ⟨.ok _, by trivial, by trivial, fun bs h => by injection h with h; rw [← h]; rfl⟩
    · obtain ⟨hrel, hrd, hsp, _⟩ := read_repr r need
      simp only [Rust.readExactGo, hn, if_false]
      rcases h1 : r.read need with ⟨res, r1⟩
      rcases h2 : (rdOf r).read need with ⟨sres, sr1⟩
      rw [h1, h2] at hrel hrd
      rw [h1] at hsp
      simp only at hrel hrd hsp ⊢
      subst hrd
      cases hrel with
      | bytes bs =>
        have hb := Serial.Reader.read_bytes h2
        rw [rdOf_script_length, rdOf_script_length, List.length_map] at hb
        rw [sReadExact_bytes _ hn h2]
        simp only [List.length_map]
        cases bs with
        | nil => simp only [List.isEmpty_nil, if_true, List.length_nil]; exact ⟨.eof, by trivial, hsp, fun bs h => by cases h⟩
        | cons b bs =>
          simp only [List.isEmpty_cons, Bool.false_eq_true, if_false, List.length_cons, Nat.add_one_ne_zero]
          simp only [List.length_cons] at hb
          obtain ⟨i1, i2, i3, i4⟩ := ih r1 (need - (bs.length + 1)) (acc ++ b :: bs) (by omega)
          rw [List.map_append] at i1 i2
          refine ⟨i1, i2, by omega, ?_⟩
          intro bs' h
          have := i4 bs' h
          simp only [List.length_append, List.length_cons] at this
          omega
      | interrupted =>
        have hb := Serial.Reader.read_interrupted h2
        rw [rdOf_script_length, rdOf_script_length] at hb
        rw [sReadExact_int _ hn h2]
        simp only [if_true]
        obtain ⟨i1, i2, i3, i4⟩ := ih r1 need acc (by omega)
        exact ⟨i1, i2, by omega, i4⟩
      | failed =>
        rw [sReadExact_fail _ hn h2]
        simp only [reduceCtorEq, if_false]
        exact ⟨.failed, by trivial, hsp, fun bs h => by cases h⟩

/-- **representation lemma, `input.read_exact(&mut buf)`** (the bound the shim passes, `|buf| + |script| + 2`, is
    never exhausted) -/
theorem readExact_repr (r : Rust.Reader) (buf : Array Nat) :
    rdOf (Rust.readExact r buf).2.1 = (Serial.readExact (rdOf r) buf.size []).2 ∧
    (Rust.readExact r buf).2.1.sp + (Rust.readExact r buf).2.1.script.length = r.sp + r.script.length ∧
    match (Serial.readExact (rdOf r) buf.size []).1 with
    | .ok bs' => (Rust.readExact r buf).1 = .ok () ∧ (Rust.readExact r buf).2.2.toList.map byteOf = bs' ∧
        (Rust.readExact r buf).2.2.size = buf.size
    | .eof => (Rust.readExact r buf).1 = .error ⟨.unexpectedEof⟩ ∧ (Rust.readExact r buf).2.2 = buf
    | .failed => (Rust.readExact r buf).1 = .error ⟨.other⟩ ∧ (Rust.readExact r buf).2.2 = buf := by
  obtain ⟨h1, h2, h3, h4⟩ := readExactGo_repr (buf.size + r.script.length + 2) r buf.size [] (by omega)
  unfold Rust.readExact
  rcases hx : Rust.readExactGo (buf.size + r.script.length + 2) r buf.size [] with ⟨res, r'⟩
  rcases hy : Serial.readExact (rdOf r) buf.size [] with ⟨sres, sr⟩
  rw [hx] at h1 h2 h3 h4
  simp only [List.map_nil, hy] at h1 h2
  simp only at h1 h2 h3 h4
  cases h1 with
  | ok bs =>
    refine ⟨h2, h3, rfl, by simp, ?_⟩
    have := h4 bs rfl
    simp only [List.length_nil, Nat.zero_add] at this
    simpa using this
  | eof => exact ⟨h2, h3, rfl, rfl⟩
  | failed => exact ⟨h2, h3, rfl, rfl⟩

/-! ### `write` / `write_all` -/

inductive RelWrite : Except Rust.IoError Unit → Bool → Prop
  | ok : RelWrite (.ok ()) true
  | zero : RelWrite (.error ⟨.writeZero⟩) false
  | failed : RelWrite (.error ⟨.other⟩) false

theorem sWriteAll_eq (script : List Serial.Ev) (buf : List UInt8) :
    Serial.writeAll script buf =
      if buf.length = 0 then (true, [], script) else
      match script with
      | [] => (true, buf, [])
      | .give k :: s =>
        if min k buf.length = 0 then (false, [], s) else
        ((Serial.writeAll s (buf.drop (min k buf.length))).1,
          buf.take (min k buf.length) ++ (Serial.writeAll s (buf.drop (min k buf.length))).2.1,
          (Serial.writeAll s (buf.drop (min k buf.length))).2.2)
      | .interrupted :: s => Serial.writeAll s buf
      | .fail :: s => (false, [], s) := by
  cases script with
  | nil => rw [Serial.writeAll.eq_def]
  | cons e s => cases e <;> rw [Serial.writeAll.eq_def]

theorem go_empty (f : Nat) (w : Rust.Writer) : Rust.writeAllGo (f + 1) w [] = (.ok (), w) := rfl

theorem go_step (f : Nat) (w : Rust.Writer) (buf : List Nat) (h : buf ≠ []) :
    Rust.writeAllGo (f + 1) w buf =
      match w.write buf with
      | (.ok n, w') => if n = 0 then (.error ⟨.writeZero⟩, w') else Rust.writeAllGo f w' (buf.drop n)
      | (.error e, w') => if e.kind = .interrupted then Rust.writeAllGo f w' buf else (.error e, w') := by
  cases buf with
  | nil => exact absurd rfl h
  | cons b buf => rfl

/-- **representation lemma, `write_all`**: the bound `|script| + 2` suffices; `taken` = the bytes that reached the
    sink during the call -/
theorem writeAllGo_repr : ∀ (fuel : Nat) (w : Rust.Writer) (buf : List Nat), w.script.length + 2 ≤ fuel →
    ∃ taken : List Nat,
      RelWrite (Rust.writeAllGo fuel w buf).1 (Serial.writeAll (w.script.map evOf) (buf.map byteOf)).1 ∧
      (Rust.writeAllGo fuel w buf).2.out = w.out ++ taken.toArray ∧
      (Serial.writeAll (w.script.map evOf) (buf.map byteOf)).2.1 = taken.map byteOf ∧
      (Rust.writeAllGo fuel w buf).2.script.map evOf = (Serial.writeAll (w.script.map evOf) (buf.map byteOf)).2.2 ∧
      (Rust.writeAllGo fuel w buf).2.sp + (Rust.writeAllGo fuel w buf).2.script.length = w.sp + w.script.length ∧
      ((Rust.writeAllGo fuel w buf).1 = .ok () → taken = buf) ∧ taken <+: buf := by
  intro fuel
  induction fuel with
  | zero => intro w buf h; omega
  | succ fuel ih =>
    intro w buf hf
    by_cases hb : buf = []
    · subst hb
      have e2 : Serial.writeAll (w.script.map evOf) ([].map byteOf) = (true, [], w.script.map evOf) := by
        rw [sWriteAll_eq]; rfl
      rw [go_empty, e2]
      exact ⟨[], .ok, by simp, rfl, rfl, rfl, fun _ => rfl, List.prefix_refl _⟩
    · have hlen : buf.length ≠ 0 := fun h => hb (List.eq_nil_of_length_eq_zero h)
      have hlen' : (buf.map byteOf).length ≠ 0 := by rw [List.length_map]; exact hlen
      cases hs : w.script with
      | nil =>
        obtain ⟨f, rfl⟩ : ∃ f, fuel = f + 1 := ⟨fuel - 1, by rw [hs] at hf; simp only [List.length_nil] at hf; omega⟩
        have e1 : Rust.writeAllGo (f + 1 + 1) w buf = (.ok (), { w with out := w.out ++ buf.toArray }) := by
          rw [go_step _ w buf hb]
          simp only [Rust.Writer.write, hs, hlen, if_false, List.drop_length, go_empty]
        have e2 : Serial.writeAll ([].map evOf) (buf.map byteOf) = (true, buf.map byteOf, []) := by
          rw [sWriteAll_eq]; simp only [hlen, List.length_map, if_false, List.map_nil]
        rw [e1, e2]
        exact ⟨buf, .ok, rfl, rfl, by rw [hs]; rfl, by rw [hs], fun _ => rfl, List.prefix_refl _⟩
      | cons e s =>
        cases e with
        | give k =>
          by_cases hm : min k buf.length = 0
          · have e1 : Rust.writeAllGo (fuel + 1) w buf =
                (.error ⟨.writeZero⟩, { w with out := w.out ++ (buf.take 0).toArray, script := s, sp := w.sp + 1 }) := by
              rw [go_step _ w buf hb]
              simp only [Rust.Writer.write, hs, hm, if_true]
            have e2 : Serial.writeAll ((Rust.IoEv.give k :: s).map evOf) (buf.map byteOf) = (false, [], s.map evOf) := by
              rw [sWriteAll_eq]; simp only [hlen, List.length_map, if_false, List.map_cons, evOf, List.length_map, hm, if_true]
            rw [e1, e2]
            exact ⟨[], .zero, by simp, rfl, rfl, by simp only [List.length_cons]; omega, fun h => (by cases h),
              List.nil_prefix⟩
          · obtain ⟨taken, i1, i2, i3, i4, i5, i6, i7⟩ := ih
              { w with out := w.out ++ (buf.take (min k buf.length)).toArray, script := s, sp := w.sp + 1 }
              (buf.drop (min k buf.length)) (by rw [hs] at hf; simp only [List.length_cons] at hf ⊢; omega)
            have e1 : Rust.writeAllGo (fuel + 1) w buf = Rust.writeAllGo fuel
                { w with out := w.out ++ (buf.take (min k buf.length)).toArray, script := s, sp := w.sp + 1 }
                (buf.drop (min k buf.length)) := by
              rw [go_step _ w buf hb]
              simp only [Rust.Writer.write, hs, hm, if_false]
            have e2 : Serial.writeAll ((Rust.IoEv.give k :: s).map evOf) (buf.map byteOf) =
                ((Serial.writeAll (s.map evOf) ((buf.drop (min k buf.length)).map byteOf)).1,
                  (buf.take (min k buf.length)).map byteOf ++
                    (Serial.writeAll (s.map evOf) ((buf.drop (min k buf.length)).map byteOf)).2.1,
                  (Serial.writeAll (s.map evOf) ((buf.drop (min k buf.length)).map byteOf)).2.2) := by
              rw [sWriteAll_eq]
              simp only [hlen, List.length_map, if_false, List.map_cons, evOf, List.length_map, hm, List.map_drop, List.map_take]
            rw [e1, e2]
            refine ⟨buf.take (min k buf.length) ++ taken, i1, ?_, ?_, i4, ?_, ?_, ?_⟩
            · rw [i2]; apply Array.ext'; simp
            · simp only; rw [i3, List.map_append]
            · simp only [List.length_cons] at i5 ⊢; omega
            · intro h; rw [i6 h, List.take_append_drop]
            · conv => rhs; rw [← List.take_append_drop (min k buf.length) buf]
              exact (List.prefix_append_right_inj _).mpr i7
        | interrupted =>
          obtain ⟨taken, i1, i2, i3, i4, i5, i6, i7⟩ := ih { w with script := s, sp := w.sp + 1 } buf
            (by rw [hs] at hf; simp only [List.length_cons] at hf ⊢; omega)
          have e1 : Rust.writeAllGo (fuel + 1) w buf = Rust.writeAllGo fuel { w with script := s, sp := w.sp + 1 } buf := by
            rw [go_step _ w buf hb]
            simp only [Rust.Writer.write, hs, if_true]
          have e2 : Serial.writeAll ((Rust.IoEv.interrupted :: s).map evOf) (buf.map byteOf) =
              Serial.writeAll (s.map evOf) (buf.map byteOf) := by
            rw [sWriteAll_eq]; simp only [hlen, List.length_map, if_false, List.map_cons, evOf]
          rw [e1, e2]
          exact ⟨taken, i1, i2, i3, i4, by simp only [List.length_cons] at i5 ⊢; omega, i6, i7⟩
        | fail =>
          have e1 : Rust.writeAllGo (fuel + 1) w buf = (.error ⟨.other⟩, { w with script := s, sp := w.sp + 1 }) := by
            rw [go_step _ w buf hb]
            simp only [Rust.Writer.write, hs, reduceCtorEq, if_false]
          have e2 : Serial.writeAll ((Rust.IoEv.fail :: s).map evOf) (buf.map byteOf) = (false, [], s.map evOf) := by
            rw [sWriteAll_eq]; simp only [hlen, List.length_map, if_false, List.map_cons, evOf]
          rw [e1, e2]
          exact ⟨[], .failed, by simp, rfl, rfl, by simp only [List.length_cons]; omega, fun h => (by cases h),
            List.nil_prefix⟩
end B.AlgoEq2Bytes


