import BddVerif.Lemmas.AlgoEqUtilBase
import BddVerif.Model.Select
/-!
# `Bdd::is_clause`, `Bdd::is_valuation`, `Bdd::sat_witness` (src/_impl_bdd/_impl_util.rs): translated code = hand model

Hand models: `B.Select.isClauseLoop` / `isClause`, `isValuationLoop` / `isValuation`, `satWitness` (Model/Select.lean).
The two `while` loops are compared AT EVERY FUEL (`RelO`: the translated code returns `ok b` exactly when the hand
loop with the same fuel says `some b`, and panics — index out of bounds or fuel exhausted — exactly when it says `none`);
the hand loops are monotone in the fuel, hence the corollaries for every fuel `≥ len` (what the driver passes).
Hypotheses: the node vector is non-empty (the hand models do not model the `len() - 1` underflow of `root_pointer`
inside the loops; on the empty vector the translated code panics and `isClause`/`isValuation` say `none`, see
`*_empty`) and has at most `2^32` entries (`BddPointer` is a `u32`: `from_index` truncates).
-/
namespace B.AlgoEqUtil
open B B.Gen B.Select

attribute [local instance 10000] Rust.monadOutcomeInline

/-! ## is_clause -/

/-- hand-written loop body of `is_clause`; state = (early-return value, `node`) -/
def clauseStep (A : Arr) (st : Option Bool × Nat) : Outcome (ForInStep (Option Bool × Nat)) :=
  if st.2 = 1 then .ok (.done (none, st.2)) else if st.2 = 0 then .ok (.done (some false, st.2)) else
  match A[st.2]? with
  | none => .panic "index out of bounds"
  | some nd =>
    if nd.low = 0 then .ok (.yield (none, nd.high)) else if nd.high = 0 then .ok (.yield (none, nd.low))
    else .ok (.done (some false, st.2))

/-- what follows the loop: the early-return value, or the fuel check and `true` -/
def clausePost (st : Option Bool × Nat) : Outcome Bool :=
  match st.1 with
  | some r => .ok r
  | none => if st.2 = 1 then .ok true else .panic "fuel"

/-- desugaring lemma (against the generated definition) -/
theorem is_clause_desugar (fuel : Nat) (A : Arr) (h0 : 0 < A.size) (hs : A.size ≤ 4294967296) :
    Algo.Bdd_is_clause fuel A = (iter (clauseStep A) fuel (none, root A)).bind clausePost := by
  unfold Algo.Bdd_is_clause
  simp only [forIn_range_eq_iter, root_pointer_eq A h0 hs, bind_ok]
  rw [iter_congr _ (clauseStep A)]
  · cases iter (clauseStep A) fuel (none, root A) with
    | ok st =>
      obtain ⟨r, p⟩ := st
      cases r <;> simp [Outcome.bind, clausePost, is_one_eq]
    | err m => rfl
    | panic m => rfl
  · intro ⟨r, p⟩
    simp only [clauseStep, is_one_eq, is_zero_eq, low_link_eq, high_link_eq, pure_eq]
    by_cases h1 : p = 1
    · simp [h1]
    by_cases h2 : p = 0
    · simp [h2]
    cases hp : A[p]? with
    | none => simp [h1, h2]
    | some nd => simp [h1, h2]

theorem clause_sem (A : Arr) : ∀ (fuel p : Nat),
    RelO ((iter (clauseStep A) fuel (none, p)).bind clausePost) (isClauseLoop A fuel p) := by
  intro fuel
  induction fuel with
  | zero =>
    intro p
    rw [iter_zero]
    unfold isClauseLoop
    by_cases h1 : p = 1
    · simp only [h1, Outcome.bind, clausePost, if_true]; exact RelO.ok _
    · simp only [h1, Outcome.bind, clausePost, if_false]; exact RelO.panic _
  | succ n ih =>
    intro p
    rw [iter_succ]
    unfold isClauseLoop
    simp only [clauseStep]
    by_cases h1 : p = 1
    · simp only [h1, Outcome.bind, clausePost, if_true]; exact RelO.ok _
    by_cases h2 : p = 0
    · simp only [h2, Outcome.bind, clausePost, if_true, if_false, Nat.zero_ne_one]; exact RelO.ok _
    cases hp : A[p]? with
    | none => simp only [h1, h2, Outcome.bind, if_false]; exact RelO.panic _
    | some nd =>
      by_cases hl : nd.low = 0
      · simp only [h1, h2, hl, if_true, if_false]; exact ih _
      · by_cases hh : nd.high = 0
        · simp only [h1, h2, hl, hh, if_true, if_false]; exact ih _
        · simp only [h1, h2, hl, hh, Outcome.bind, clausePost, if_false]; exact RelO.ok _

/-- **is_clause, every fuel**: the translated code and the hand loop with the SAME fuel agree -/
theorem Bdd_is_clause_eq_loop (fuel : Nat) (A : Arr) (h0 : 0 < A.size) (hs : A.size ≤ 4294967296) :
    RelO (Algo.Bdd_is_clause fuel A) (isClauseLoop A fuel (root A)) := by
  rw [is_clause_desugar fuel A h0 hs]; exact clause_sem A fuel (root A)

theorem isClauseLoop_mono (A : Arr) : ∀ (f f' p : Nat) (b : Bool), f ≤ f' →
    isClauseLoop A f p = some b → isClauseLoop A f' p = some b := by
  intro f
  induction f with
  | zero =>
    intro f' p b _ h
    unfold isClauseLoop at h
    by_cases h1 : p = 1
    · subst h1; cases f' <;> simpa [isClauseLoop] using h
    · simp [h1] at h
  | succ f ih =>
    intro f' p b hle h
    obtain ⟨f'', rfl⟩ : ∃ k, f' = k + 1 := ⟨f' - 1, by omega⟩
    unfold isClauseLoop at h ⊢
    by_cases h1 : p = 1
    · simpa [h1] using h
    by_cases h2 : p = 0
    · simpa [h1, h2] using h
    simp only [h1, h2, if_false] at h ⊢
    cases hp : A[p]? with
    | none => rw [hp] at h; cases h
    | some nd =>
      rw [hp] at h
      simp only at h ⊢
      by_cases hl : nd.low = 0
      · simp only [hl, if_true] at h ⊢; exact ih _ _ _ (by omega) h
      · by_cases hh : nd.high = 0
        · simp only [hl, hh, if_true, if_false] at h ⊢; exact ih _ _ _ (by omega) h
        · simpa [hl, hh] using h

theorem isClause_size_pos {A : Arr} {b : Bool} (h : isClause A = some b) : 0 < A.size := by
  rcases Nat.eq_zero_or_pos A.size with h0 | h0
  · unfold isClause root at h; rw [h0] at h; simp [isClauseLoop] at h
  · exact h0

/-- **is_clause, translated code = hand model**: whenever the hand model answers, the translated code returns the
    same answer for every fuel `≥ len` -/
theorem Bdd_is_clause_eq_model (A : Arr) (b : Bool) (h : isClause A = some b) (hs : A.size ≤ 4294967296)
    (fuel : Nat) (hfuel : A.size ≤ fuel) : Algo.Bdd_is_clause fuel A = .ok b :=
  (Bdd_is_clause_eq_loop fuel A (isClause_size_pos h) hs).of_some (isClauseLoop_mono A _ _ _ _ hfuel h)

/-- where the hand model says `none` (index panic / no termination within `len` steps) the translated code,
    run with the hand model's fuel, panics -/
theorem Bdd_is_clause_none (A : Arr) (h : isClause A = none) (h0 : 0 < A.size) (hs : A.size ≤ 4294967296) :
    ∃ m, Algo.Bdd_is_clause A.size A = .panic m :=
  (Bdd_is_clause_eq_loop A.size A h0 hs).none_iff.1 h

theorem Bdd_is_clause_empty (fuel : Nat) :
    (∃ m, Algo.Bdd_is_clause fuel #[] = .panic m) ∧ isClause #[] = none := by
  refine ⟨⟨"attempt to subtract with overflow", ?_⟩, rfl⟩
  unfold Algo.Bdd_is_clause
  rw [root_pointer_empty #[] rfl]; rfl

/-! ## is_valuation -/

/-- hand-written loop body of `is_valuation`; state = (early-return value, `expected_variable`, `node`) -/
def valStep (A : Arr) (st : Option Bool × Nat × Nat) : Outcome (ForInStep (Option Bool × Nat × Nat)) :=
  if st.2.2 = 1 then .ok (.done (none, st.2.1, st.2.2))
  else if st.2.2 = 0 then .ok (.done (some false, st.2.1, st.2.2)) else
  match A[st.2.2]? with
  | none => .panic "index out of bounds"
  | some nd =>
    if nd.var ≠ st.2.1 then .ok (.done (some false, st.2.1, st.2.2))
    else if nd.low = 0 then .ok (.yield (none, st.2.1 + 1, nd.high))
    else if nd.high = 0 then .ok (.yield (none, st.2.1 + 1, nd.low))
    else .ok (.done (some false, st.2.1 + 1, st.2.2))

def valPost (A : Arr) (st : Option Bool × Nat × Nat) : Outcome Bool :=
  match st.1 with
  | some r => .ok r
  | none =>
    if st.2.2 = 1 then
      match A[1]? with
      | some t => .ok (t.var == st.2.1)
      | none => .panic "index out of bounds"
    else .panic "fuel"

theorem is_valuation_desugar (fuel : Nat) (A : Arr) (h0 : 0 < A.size) (hs : A.size ≤ 4294967296) :
    Algo.Bdd_is_valuation fuel A = (iter (valStep A) fuel (none, 0, root A)).bind (valPost A) := by
  unfold Algo.Bdd_is_valuation
  simp only [forIn_range_eq_iter, root_pointer_eq A h0 hs, bind_ok]
  rw [iter_congr _ (valStep A)]
  · cases iter (valStep A) fuel (none, 0, root A) with
    | ok st =>
      obtain ⟨r, e, p⟩ := st
      cases r with
      | some r => rfl
      | none =>
        simp only [bind_ok, Outcome.bind, valPost, is_one_eq, var_of_eq]
        by_cases h1 : p = 1
        · subst h1
          cases A[1]? <;> simp
        · simp [h1]
    | err m => rfl
    | panic m => rfl
  · intro ⟨r, e, p⟩
    simp only [valStep, is_one_eq, is_zero_eq, low_link_eq, high_link_eq, var_of_eq, pure_eq]
    by_cases h1 : p = 1
    · simp [h1]
    by_cases h2 : p = 0
    · simp [h2]
    cases hp : A[p]? with
    | none => simp [h1, h2]
    | some nd =>
      by_cases hv : nd.var = e
      · simp [h1, h2, hv]
      · simp [h1, h2, hv]

theorem valuation_sem (A : Arr) : ∀ (fuel p e : Nat),
    RelO ((iter (valStep A) fuel (none, e, p)).bind (valPost A)) (isValuationLoop A fuel p e) := by
  have hterm : ∀ e : Nat, RelO (valPost A (none, e, 1)) ((A[1]?).map (fun t => t.var == e)) := by
    intro e
    simp only [valPost, if_true]
    cases A[1]? with
    | none => exact RelO.panic _
    | some t => exact RelO.ok _
  intro fuel
  induction fuel with
  | zero =>
    intro p e
    rw [iter_zero]
    unfold isValuationLoop
    by_cases h1 : p = 1
    · subst h1; simp only [Outcome.bind, if_true]; exact hterm e
    · simp only [h1, Outcome.bind, valPost, if_false]; exact RelO.panic _
  | succ n ih =>
    intro p e
    rw [iter_succ]
    unfold isValuationLoop
    simp only [valStep]
    by_cases h1 : p = 1
    · subst h1; simp only [Outcome.bind, if_true]; exact hterm e
    by_cases h2 : p = 0
    · simp only [h2, Outcome.bind, valPost, if_true, if_false, Nat.zero_ne_one]; exact RelO.ok _
    cases hp : A[p]? with
    | none => simp only [h1, h2, Outcome.bind, if_false]; exact RelO.panic _
    | some nd =>
      by_cases hv : nd.var = e
      · by_cases hl : nd.low = 0
        · simp only [h1, h2, hv, hl, ne_eq, not_true_eq_false, if_true, if_false]; exact ih _ _
        · by_cases hh : nd.high = 0
          · simp only [h1, h2, hv, hl, hh, ne_eq, not_true_eq_false, if_true, if_false]; exact ih _ _
          · simp only [h1, h2, hv, hl, hh, ne_eq, not_true_eq_false, Outcome.bind, valPost, if_false]
            exact RelO.ok _
      · simp only [h1, h2, hv, ne_eq, not_false_eq_true, Outcome.bind, valPost, if_true, if_false]
        exact RelO.ok _

/-- **is_valuation, every fuel** -/
theorem Bdd_is_valuation_eq_loop (fuel : Nat) (A : Arr) (h0 : 0 < A.size) (hs : A.size ≤ 4294967296) :
    RelO (Algo.Bdd_is_valuation fuel A) (isValuationLoop A fuel (root A) 0) := by
  rw [is_valuation_desugar fuel A h0 hs]; exact valuation_sem A fuel (root A) 0

theorem isValuationLoop_mono (A : Arr) : ∀ (f f' p e : Nat) (b : Bool), f ≤ f' →
    isValuationLoop A f p e = some b → isValuationLoop A f' p e = some b := by
  intro f
  induction f with
  | zero =>
    intro f' p e b _ h
    unfold isValuationLoop at h
    by_cases h1 : p = 1
    · subst h1; cases f' <;> simpa [isValuationLoop] using h
    · simp [h1] at h
  | succ f ih =>
    intro f' p e b hle h
    obtain ⟨f'', rfl⟩ : ∃ k, f' = k + 1 := ⟨f' - 1, by omega⟩
    unfold isValuationLoop at h ⊢
    by_cases h1 : p = 1
    · simpa [h1] using h
    by_cases h2 : p = 0
    · simpa [h1, h2] using h
    simp only [h1, h2, if_false] at h ⊢
    cases hp : A[p]? with
    | none => rw [hp] at h; cases h
    | some nd =>
      rw [hp] at h
      simp only at h ⊢
      by_cases hv : nd.var = e
      · by_cases hl : nd.low = 0
        · simp only [hv, hl, ne_eq, not_true_eq_false, if_true, if_false] at h ⊢; exact ih _ _ _ _ (by omega) h
        · by_cases hh : nd.high = 0
          · simp only [hv, hl, hh, ne_eq, not_true_eq_false, if_true, if_false] at h ⊢
            exact ih _ _ _ _ (by omega) h
          · simpa [hv, hl, hh] using h
      · simpa [hv] using h

theorem isValuation_size_pos {A : Arr} {b : Bool} (h : isValuation A = some b) : 0 < A.size := by
  rcases Nat.eq_zero_or_pos A.size with h0 | h0
  · unfold isValuation root at h; rw [h0] at h; simp [isValuationLoop] at h
  · exact h0

/-- **is_valuation, translated code = hand model** -/
theorem Bdd_is_valuation_eq_model (A : Arr) (b : Bool) (h : isValuation A = some b) (hs : A.size ≤ 4294967296)
    (fuel : Nat) (hfuel : A.size ≤ fuel) : Algo.Bdd_is_valuation fuel A = .ok b :=
  (Bdd_is_valuation_eq_loop fuel A (isValuation_size_pos h) hs).of_some
    (isValuationLoop_mono A _ _ _ _ _ hfuel h)

theorem Bdd_is_valuation_none (A : Arr) (h : isValuation A = none) (h0 : 0 < A.size) (hs : A.size ≤ 4294967296) :
    ∃ m, Algo.Bdd_is_valuation A.size A = .panic m :=
  (Bdd_is_valuation_eq_loop A.size A h0 hs).none_iff.1 h

theorem Bdd_is_valuation_empty (fuel : Nat) :
    (∃ m, Algo.Bdd_is_valuation fuel #[] = .panic m) ∧ isValuation #[] = none := by
  refine ⟨⟨"attempt to subtract with overflow", ?_⟩, rfl⟩
  unfold Algo.Bdd_is_valuation
  rw [root_pointer_empty #[] rfl]; rfl

/-! ## sat_witness -/

/-- `if c { valuation[x] = b; find = i }` on the state (`valuation`, `find`) -/
def wset (st : Array Bool × Nat) (c : Bool) (x i : Nat) (b : Bool) : Outcome (Array Bool × Nat) :=
  if c then (if x < st.1.size then .ok (st.1.setIfInBounds x b, i) else .panic "index out of bounds") else .ok st

/-- hand-written loop body of `sat_witness` for the pointer `i`; state = (`valuation`, `find`) -/
def witStepG (A : Arr) (i : Nat) (st : Array Bool × Nat) : Outcome (ForInStep (Array Bool × Nat)) :=
  if i < 2 then .ok (.yield st) else
  match A[i]? with
  | none => .panic "index out of bounds"
  | some nd =>
    (wset st (decide (nd.low = st.2)) nd.var i false).bind fun st1 =>
      (wset st1 (decide (nd.high = st1.2)) nd.var i true).bind fun st2 => .ok (.yield st2)

theorem sat_witness_desugar (A : Arr) (h1 : A.size ≠ 1) (h0 : 0 < A.size) (hs : A.size ≤ 4294967296) :
    Algo.Bdd_sat_witness A =
      (iterL (witStepG A) (List.range A.size) (Array.replicate (numVars A) false, 1)).bind
        fun st => .ok (some st.1) := by
  unfold Algo.Bdd_sat_witness Algo.Bdd_is_false
  simp only [beq_iff_eq, h1, if_false, num_vars_eq A h0, bind_ok, forIn_array_eq_iterL, pointers_eq A hs,
    Array.toList_range]
  rw [iterL_congr _ (witStepG A)]
  · rw [bind_eq]; rfl
  · intro i _ ⟨v, f⟩
    simp only [witStepG, Algo.BddPointer_is_terminal, low_link_eq, high_link_eq, var_of_eq, pure_eq, setIdx_eq]
    by_cases hi : i < 2
    · simp [hi]
    simp only [hi, decide_false, Bool.false_eq_true, if_false]
    cases hp : A[i]? with
    | none => rfl
    | some nd =>
      simp only [bind_ok, wset]
      by_cases hl : nd.low = f
      · by_cases hx : nd.var < v.size
        · by_cases hh : nd.high = i
          · simp [hl, hx, hh, Outcome.bind]
          · simp [hl, hx, hh, Outcome.bind]
        · simp [hl, hx, Outcome.bind]
      · by_cases hh : nd.high = f
        · by_cases hx : nd.var < v.size
          · simp [hl, hx, hh, Outcome.bind]
          · simp [hl, hx, hh, Outcome.bind]
        · simp [hl, hh, Outcome.bind]

/-- the hand model's view of the loop state -/
def wconv (st : Array Bool × Nat) : Nat × Val := (st.2, st.1.toList)

theorem wset_rel (st : Array Bool × Nat) (c : Bool) (x i : Nat) (b : Bool) :
    RelO ((wset st c x i b).map wconv)
      (if c then (setBit st.1.toList x b).map (fun v => (i, v)) else some (wconv st)) := by
  unfold wset setBit
  cases c with
  | false => exact RelO.ok _
  | true =>
    simp only [if_true, Array.length_toList]
    by_cases hx : x < st.1.size
    · simp only [hx, if_true, Outcome.map, Option.map, wconv, Array.toList_setIfInBounds]
      exact RelO.ok _
    · simp only [hx, if_false, Outcome.map, Option.map]
      exact RelO.panic _

theorem witStep_rel (A : Arr) (i : Nat) (hi : 2 ≤ i) (st : Array Bool × Nat) :
    (∃ st', witStepG A i st = .ok (.yield st') ∧ witStep A (wconv st) i = some (wconv st')) ∨
    ((∃ m, witStepG A i st = .panic m) ∧ witStep A (wconv st) i = none) := by
  unfold witStepG witStep
  rw [if_neg (by omega)]
  cases hp : A[i]? with
  | none => right; exact ⟨⟨_, rfl⟩, rfl⟩
  | some nd =>
    simp only [Option.bind]
    have r1 := wset_rel st (decide (nd.low = st.2)) nd.var i false
    simp only [decide_eq_true_eq] at r1
    have e1 : (wconv st).1 = st.2 := rfl
    have e2 : (wconv st).2 = st.1.toList := rfl
    rw [e1, e2]
    generalize hw1 : wset st (decide (nd.low = st.2)) nd.var i false = w1 at r1
    generalize hy1 : (if nd.low = st.2 then Option.map (fun v => (i, v)) (setBit st.1.toList nd.var false)
      else some (wconv st)) = y1 at r1
    cases w1 with
    | err m => cases r1
    | panic m =>
      cases y1 with
      | some _ => cases r1
      | none => right; exact ⟨⟨m, rfl⟩, rfl⟩
    | ok st1 =>
      cases y1 with
      | none => cases r1
      | some c1 =>
        have hc1 : c1 = wconv st1 := by cases r1; rfl
        subst hc1
        simp only [Outcome.bind]
        have r2 := wset_rel st1 (decide (nd.high = st1.2)) nd.var i true
        simp only [decide_eq_true_eq] at r2
        have e3 : (wconv st1).1 = st1.2 := rfl
        have e4 : (wconv st1).2 = st1.1.toList := rfl
        rw [e3, e4]
        generalize hw2 : wset st1 (decide (nd.high = st1.2)) nd.var i true = w2 at r2
        generalize hy2 : (if nd.high = st1.2 then Option.map (fun v => (i, v)) (setBit st1.1.toList nd.var true)
          else some (wconv st1)) = y2 at r2
        cases w2 with
        | err m => cases r2
        | panic m =>
          cases y2 with
          | some _ => cases r2
          | none => right; exact ⟨⟨m, rfl⟩, rfl⟩
        | ok st2 =>
          cases y2 with
          | none => cases r2
          | some c2 =>
            have hc2 : c2 = wconv st2 := by cases r2; rfl
            subst hc2
            left; exact ⟨st2, rfl, rfl⟩

theorem witLoop_rel (A : Arr) : ∀ (xs : List Nat) (st : Array Bool × Nat), (∀ i ∈ xs, 2 ≤ i) →
    RelO ((iterL (witStepG A) xs st).map wconv) (xs.foldlM (witStep A) (wconv st)) := by
  intro xs
  induction xs with
  | nil => intro st _; exact RelO.ok _
  | cons i xs ih =>
    intro st hx
    rw [iterL_cons, List.foldlM_cons]
    rcases witStep_rel A i (hx i List.mem_cons_self) st with ⟨st', h1, h2⟩ | ⟨⟨m, h1⟩, h2⟩
    · rw [h1, h2]
      exact ih st' (fun j hj => hx j (List.mem_cons_of_mem _ hj))
    · rw [h1, h2]
      exact RelO.panic _

/-- the result of the translated `sat_witness` in the vocabulary of the hand model -/
def selOf : Outcome (Option (Array Bool)) → Sel Val
  | .ok none => Sel.none
  | .ok (some v) => Sel.some v.toList
  | _ => Sel.panic

theorem range_split (n : Nat) (h : 2 ≤ n) : List.range n = 0 :: 1 :: List.range' 2 (n - 2) := by
  rw [List.range_eq_range']
  obtain ⟨k, rfl⟩ : ∃ k, n = k + 2 := ⟨n - 2, by omega⟩
  rw [List.range'_succ, List.range'_succ]
  simp

/-- **sat_witness, translated code = hand model**, for every non-empty array of at most `2^32` nodes (also the
    malformed ones: index panics of the translated code are exactly the `Sel.panic` of the hand model) -/
theorem Bdd_sat_witness_eq_model (A : Arr) (h0 : 0 < A.size) (hs : A.size ≤ 4294967296) :
    selOf (Algo.Bdd_sat_witness A) = satWitness A := by
  by_cases h1 : A.size = 1
  · unfold Algo.Bdd_sat_witness Algo.Bdd_is_false satWitness Select.isFalse
    simp [h1, selOf]
  rw [sat_witness_desugar A h1 h0 hs]
  unfold satWitness Select.isFalse
  simp only [beq_iff_eq, h1, if_false]
  rw [range_split A.size (by omega), iterL_cons]
  simp only [witStepG, show (0 : Nat) < 2 by omega, if_true]
  rw [iterL_cons]
  simp only [witStepG, show (1 : Nat) < 2 by omega, if_true]
  have hrel := witLoop_rel A (List.range' 2 (A.size - 2)) (Array.replicate (numVars A) false, 1)
    (fun i hi => by rw [List.mem_range'_1] at hi; exact hi.1)
  have hc : wconv (Array.replicate (numVars A) false, 1) = (1, List.replicate (numVars A) false) := by
    simp [wconv]
  rw [hc] at hrel
  generalize iterL (witStepG A) (List.range' 2 (A.size - 2)) (Array.replicate (numVars A) false, 1) = x at hrel
  generalize List.foldlM (witStep A) (1, List.replicate (numVars A) false) (List.range' 2 (A.size - 2)) = y at hrel
  cases x with
  | err m => cases hrel
  | panic m =>
    cases y with
    | some _ => cases hrel
    | none => rfl
  | ok st =>
    cases y with
    | none => cases hrel
    | some c =>
      have : c = wconv st := by cases hrel; rfl
      subst this
      rfl

/-- the empty vector is outside the hand model's domain: the Rust code panics in `num_vars()` (`self.0[0]`),
    the hand model (whose `numVars` defaults) answers the empty valuation -/
theorem Bdd_sat_witness_empty :
    (∃ m, Algo.Bdd_sat_witness #[] = .panic m) ∧ satWitness #[] = Sel.some [] :=
  ⟨⟨"index out of bounds", rfl⟩, rfl⟩

end B.AlgoEqUtil
