import BddVerif.Lemmas.AlgoEq2RenDriver
/-! Axiom audit of the `AlgoEq2Ren*` family (translated Rust = hand model: set_num_vars, rename_variables,
    rename_variable, transfer_from, size_per_variable, substitute). Expected: propext, Classical.choice, Quot.sound only. -/
open B.AlgoEq2Ren
#print axioms set_num_vars_rel
#print axioms rename_variables_rel
#print axioms rename_variables_rel_driver
#print axioms rename_variable_rel
#print axioms Bdd_set_num_vars_safe
#print axioms Bdd_rename_variables_safe
#print axioms Bdd_rename_variable_safe
#print axioms transfer_from_rel
#print axioms transfer_from_rel_setOf
#print axioms transfer_from_rel_driver
#print axioms transfer_from_some_iff
#print axioms size_per_variable_eq_model
#print axioms size_per_variable_driver
#print axioms substitute_absent
#print axioms substitute_safe
#print axioms substitute_clash
#print axioms Bdd_substitute_eq_model
#print axioms Bdd_substitute_spec
#print axioms Bdd_substitute_eq_model_driver
#print axioms ex_stepOK
#print axioms ex_stepOK2
