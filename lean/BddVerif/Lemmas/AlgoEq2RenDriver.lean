import BddVerif.Lemmas.AlgoEq2RenTransfer
import BddVerif.Lemmas.AlgoEq2RenSubst
import BddVerif.Lemmas.AlgoEq2RenSize
import BddVerif.Drive.Algo2
/-!
# The `AlgoEq2Ren*` theorems with the exact arguments of the replay driver (`Drive/Algo2.lean`)
-/
namespace B.AlgoEq2Ren
open B B.Gen B.AlgoEqUtil B.AlgoEq2VS Std

attribute [local instance 10000] Rust.monadOutcomeInline

/-! ## the sets the driver builds (`Drive/Algo2.lean: varSetOfNames`) -/

theorem hashMapFromArr_zipIdx (names : List String) :
    Rust.hashMapFromArr ((names.zipIdx.map fun (x : String × Nat) => (x.1, x.2)).toArray) =
      VS.buildIndex names 0 (HashMap.emptyWithCapacity names.length) := by
  unfold Rust.hashMapFromArr
  rw [← Array.foldl_toList]
  have : (names.zipIdx.map fun (x : String × Nat) => (x.1, x.2)) = names.zipIdx := by simp
  simp only [List.size_toArray, this, List.length_zipIdx]
  exact foldl_zipIdx_eq_buildIndex names 0 _

theorem varSetOfNames_setOf (names : List String) (T : VSet) (h : Drive.Algo2.varSetOfNames names = some T) :
    SetOf T names ∧ names.Nodup := by
  unfold Drive.Algo2.varSetOfNames at h
  simp only [hashMapFromArr_zipIdx] at h
  split at h
  · cases h
  · rename_i hsz
    simp only [Option.some.injEq] at h
    have h0 : (HashMap.emptyWithCapacity names.length : HashMap String Nat).size = 0 := HashMap.size_emptyWithCapacity
    have hsize : (VS.buildIndex names 0 (HashMap.emptyWithCapacity names.length : HashMap String Nat)).size =
        (HashMap.emptyWithCapacity names.length : HashMap String Nat).size + names.length := by
      rw [h0]; simpa using hsz
    have hnd : names.Nodup := ((VS.buildIndex_size_eq names 0 _).mp hsize).1
    subst h
    exact ⟨⟨rfl, rfl, fun s => buildIndex_idxOf names hnd _ (fun s => HashMap.getElem?_emptyWithCapacity) s⟩, hnd⟩

/-- **`C17.transfer` as the driver runs it** -/
theorem transfer_from_rel_driver (A : Arr) (src tgt : List String) (S T : VSet)
    (hS : Drive.Algo2.varSetOfNames src = some S) (hT : Drive.Algo2.varSetOfNames tgt = some T) :
    RelOpt (Algo2.BddVariableSet_transfer_from T A S) (Ren.transferFrom tgt A src) :=
  transfer_from_rel_setOf T S A tgt src (varSetOfNames_setOf tgt T hT).1 (varSetOfNames_setOf src S hS).1.arr


/-! ## `C07.sub`: the driver passes `fuelSub F G` -/

/-- `substitute` with the driver's fuel: equal to the hand model whenever the side conditions hold at that fuel.
    (`fuelSub F G = 64·((4|F||G| + 64)² + numVars F)` is not PROVABLY sufficient: `StepOK` asks for the model-computed
    `nestedFuel`, for which no closed bound in `|F|`, `|G|` is available — same situation as `nested_apply`.) -/
theorem Bdd_substitute_eq_model_driver (F G : Arr) (n x : Nat) (hF : WFo F n) (hG : WFo G n) (hn : n + 1 < 65536)
    (ok : SubstOK (Drive.Algo2.fuelSub F G) F G n x) :
    Algo2.Bdd_substitute (Drive.Algo2.fuelSub F G) F x G = Ren.Subst.substitute F x G :=
  Bdd_substitute_eq_model _ F G n x hF hG hn ok

/-- on the operands of the examples of `AlgoEq2RenSubst.lean` the driver's fuel does satisfy the side conditions -/
example : Algo2.Bdd_substitute (Drive.Algo2.fuelSub Props.C07.exF Props.C07.exG1) Props.C07.exF 0 Props.C07.exG1 =
    Ren.Subst.substitute Props.C07.exF 0 Props.C07.exG1 := by
  apply substitute_safe _ _ _ 3 0 Props.C07.exF_wf Props.C07.exG1_wf (by decide) (by decide)
  have h := ex_stepOK
  exact ⟨h.iffSize, by decide, h.left32, h.mid32, h.res32, Nat.le_trans h.nestFuel (by decide)⟩

/-! ## `C09.cnt`: `size_per_variable` is printed through `showPairsSorted` (sorted by key) -/

/-- the list the driver prints is the hand model's list -/
theorem size_per_variable_driver (A : Arr) (hs : A.size ≤ 4294967296) :
    ∃ m : HashMap Nat Nat, Algo2.Bdd_size_per_variable A = .ok m ∧
      m.toList.mergeSort (fun a b => decide (a.1 ≤ b.1)) = sizePerVariable A := by
  obtain ⟨m, h1, _, h3⟩ := size_per_variable_eq_model A hs
  exact ⟨m, h1, h3⟩

end B.AlgoEq2Ren
