import BddVerif.Lemmas.AlgoEq2RenTransfer
import BddVerif.Drive.Algo2
/-!
# The `AlgoEq2Ren*` theorems with the exact arguments of the replay driver (`Drive/Algo2.lean`)
-/
namespace B.AlgoEq2Ren
open B B.Gen B.AlgoEqUtil B.AlgoEq2VS Std

attribute [local instance 10000] Rust.monadOutcomeInline

/-! ## the sets the driver builds (`Drive/Algo2.lean: varSetOfNames`) -/

theorem hashMapFromArr_zipIdx (names : List String) :
    Rust.hashMapFromArr ((names.zipIdx.map fun (x : String × Nat) => (x.1, x.2)).toArray) =
      VS.buildIndex names 0 (HashMap.emptyWithCapacity names.length) := by
  unfold Rust.hashMapFromArr
  rw [← Array.foldl_toList]
  have : (names.zipIdx.map fun (x : String × Nat) => (x.1, x.2)) = names.zipIdx := by simp
  simp only [List.toList_toArray, List.size_toArray, this, List.length_zipIdx]
  exact foldl_zipIdx_eq_buildIndex names 0 _

theorem varSetOfNames_setOf (names : List String) (T : VSet) (h : Drive.Algo2.varSetOfNames names = some T) :
    SetOf T names ∧ names.Nodup := by
  unfold Drive.Algo2.varSetOfNames at h
  simp only [hashMapFromArr_zipIdx] at h
  split at h
  · cases h
  · rename_i hsz
    simp only [Option.some.injEq] at h
    have h0 : (HashMap.emptyWithCapacity names.length : HashMap String Nat).size = 0 := HashMap.size_emptyWithCapacity
    have hsize : (VS.buildIndex names 0 (HashMap.emptyWithCapacity names.length : HashMap String Nat)).size =
        (HashMap.emptyWithCapacity names.length : HashMap String Nat).size + names.length := by
      rw [h0]; simpa using hsz
    have hnd : names.Nodup := ((VS.buildIndex_size_eq names 0 _).mp hsize).1
    subst h
    exact ⟨⟨rfl, rfl, fun s => buildIndex_idxOf names hnd _ (fun s => HashMap.getElem?_emptyWithCapacity) s⟩, hnd⟩

/-- **`C17.transfer` as the driver runs it** -/
theorem transfer_from_rel_driver (A : Arr) (src tgt : List String) (S T : VSet)
    (hS : Drive.Algo2.varSetOfNames src = some S) (hT : Drive.Algo2.varSetOfNames tgt = some T) :
    RelOpt (Algo2.BddVariableSet_transfer_from T A S) (Ren.transferFrom tgt A src) :=
  transfer_from_rel_setOf T S A tgt src (varSetOfNames_setOf tgt T hT).1 (varSetOfNames_setOf src S hS).1.arr


end B.AlgoEq2Ren
