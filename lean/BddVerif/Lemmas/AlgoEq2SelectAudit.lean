import BddVerif.Lemmas.AlgoEq2SelectSpec
/-! Axiom audit of the equivalence theorems "translated selector of `_impl_valuation_utils.rs` (`B.Gen.Algo2.*`) = hand
model (`B.Select.*`)" and of their chains with the C11 specification theorems (`Lemmas/AlgoEq2Select*.lean`).
Expected: `propext`, `Classical.choice`, `Quot.sound` only. -/
open B.AlgoEq2Sel

-- plumbing
#print axioms walk_sem
#print axioms descend_mono
#print axioms iterL_rel
#print axioms iterL_rel_inv
#print axioms iterL_relB
-- greedy walks
#print axioms first_valuation_desugar
#print axioms Bdd_first_valuation_eq_loop
#print axioms Bdd_first_valuation_eq_model
#print axioms Bdd_first_valuation_some
#print axioms last_valuation_desugar
#print axioms Bdd_last_valuation_eq_loop
#print axioms Bdd_last_valuation_eq_model
#print axioms Bdd_last_valuation_some
#print axioms first_clause_desugar
#print axioms Bdd_first_clause_eq_loop
#print axioms Bdd_first_clause_eq_model
#print axioms Bdd_first_clause_some
#print axioms last_clause_desugar
#print axioms Bdd_last_clause_eq_loop
#print axioms Bdd_last_clause_eq_model
#print axioms Bdd_last_clause_some
#print axioms Bdd_walks_none
#print axioms Bdd_walks_empty
-- bottom-up tables
#print axioms table_phase1
#print axioms Bdd_most_positive_valuation_eq_loop
#print axioms Bdd_most_positive_valuation_eq_model
#print axioms Bdd_most_positive_valuation_some
#print axioms Bdd_most_negative_valuation_eq_loop
#print axioms Bdd_most_negative_valuation_eq_model
#print axioms Bdd_most_negative_valuation_some
#print axioms Bdd_most_fixed_clause_eq_loop
#print axioms Bdd_most_fixed_clause_eq_model
#print axioms Bdd_most_fixed_clause_some
#print axioms Bdd_most_free_clause_eq_loop
#print axioms Bdd_most_free_clause_eq_model
#print axioms Bdd_most_free_clause_some
#print axioms Bdd_tables_none
-- necessary_clause
#print axioms nec_split
#print axioms Bdd_necessary_clause_eq_model
#print axioms Bdd_necessary_clause_some
#print axioms Bdd_necessary_clause_none
#print axioms Bdd_necessary_clause_empty
-- random selectors
#print axioms random_clause_desugar
#print axioms Bdd_random_clause_eq_loop
#print axioms Bdd_random_clause_eq_model
#print axioms Bdd_random_clause_some
#print axioms random_valuation_desugar
#print axioms Bdd_random_valuation_eq_model
#print axioms Bdd_random_valuation_some
#print axioms Bdd_random_none
-- specifications of the translated code
#print axioms Bdd_first_valuation_spec
#print axioms Bdd_last_valuation_spec
#print axioms Bdd_first_clause_spec
#print axioms Bdd_last_clause_spec
#print axioms Bdd_most_positive_valuation_spec
#print axioms Bdd_most_negative_valuation_spec
#print axioms Bdd_most_fixed_clause_spec
#print axioms Bdd_most_free_clause_spec
#print axioms Bdd_necessary_clause_sound
#print axioms Bdd_necessary_clause_exact
#print axioms Bdd_random_valuation_spec
#print axioms Bdd_random_clause_spec
#print axioms Bdd_selectors_none_on_false
-- driver
#print axioms selectors_eq_model_driver
#print axioms randomValuation_pad
#print axioms randomClause_pad
#print axioms random_eq_model_driver
#print axioms necessary_clause_eq_model_driver
-- kernel runs of the generated code
#print axioms run_first_valuation
#print axioms run_most_free_clause
#print axioms run_necessary_clause
#print axioms run_random_clause
#print axioms run_fuel
