import BddVerif.Lemmas.AlgoEq4Owned
/-!
# The translated OWNED iterators (`Gen/Algo4.lean`) = the hand model's owned iterators (`Model/Iter.lean`) = `paths` / `satSpec`

* per step, domain form, on EVERY state (the stored `num_vars` need not be the one of the Bdd):
  `owned_path_new_eq_model`, `owned_path_next_eq_model`, `owned_sat_next_eq_model` — the translated owned functions
  return `ownPathOf` / `ownSatOf` of what the hand model's `ownedPathInit` / `ownedPathNext` / `ownedSatNext` return;
* on reduced arrays (hypotheses of the borrowed theorems `path_iter_translated`, `sat_iter_translated`):
  `owned_sat_init`, `owned_sat_next_step` (by the simulation against the BORROWED translated functions of
  `AlgoEq4Owned.lean` composed with `AlgoEq3SatChain`), and the whole enumerations
  `owned_path_iter_translated` (`= paths A (root A) []`), `owned_sat_iter_translated` (`= satSpec A`), each also
  stating what the hand model's owned iterator does;
* `takeK` forms for "take `k` items, then convert back": `owned_path_take_translated`, `owned_sat_take_translated`.
-/
namespace B.AlgoEq4
open B B.Gen B.Gen.Algo B.Gen.Algo3 B.Gen.Algo4 B.Iter B.AlgoEqIt B.AlgoEq3Sat
attribute [local instance 10000] Rust.monadOutcomeInline

/-- **the conversions**: the hand model's owned states as states of the translated owned iterators -/
def ownPathOf (s : OwnedPath) : OPath := (s.bdd, stkArr s.stack)
def ownSatOf (s : OwnedSat) : OSt := (s.numVars, ownPathOf s.paths, cvOf s.vals)

theorem ownSatOf_eq_ownSt (A : Arr) (s : SatSt) : ownSatOf ⟨numVars A, ⟨A, s.stack⟩, s.vals⟩ = ownSt (satOf A s) := rfl

/-- `Bdd::from` on the converted states is the model's `intoBdd` -/
theorem from_ownPathOf (s : OwnedPath) : bdd_path_iterator__Bdd_from (ownPathOf s) = s.intoBdd := rfl
theorem from_ownSatOf (s : OwnedSat) (f : Nat) :
    bdd_satisfying_valuations__Bdd_from (f + 1) (ownSatOf s) = .ok s.intoBdd := rfl

/-! ## per step, every state -/

/-- **`OwnedBddPathIterator::new`, translated code = hand model** (`ownedPathInit`), fuel `≥ A.size + 2` -/
theorem owned_path_new_eq_model (A : Arr) (h32 : A.size ≤ 4294967296) (s : OwnedPath) (h : ownedPathInit A = .ok s)
    (fuel : Nat) (hfuel : A.size + 2 ≤ fuel) : OwnedBddPathIterator_new fuel A = .ok (ownPathOf s) := by
  unfold ownedPathInit at h
  cases hi : pathInit A with
  | err m => simp [hi] at h
  | panic m => simp [hi] at h
  | ok S =>
    simp only [hi, Outcome.ok.injEq] at h
    subst h
    rw [OwnedBddPathIterator_new_eq_borrowed]
    exact path_new_eq_model A h32 S hi fuel hfuel

/-- **`OwnedBddPathIterator::next`, translated code = hand model** (`ownedPathNext`), per step, wherever the model
    succeeds; fuel `≥` the stack length (pop loop) and `≥ size + 2` (`continue_path`) -/
theorem owned_path_next_eq_model (s : OwnedPath) (r : Option PV × OwnedPath) (h : ownedPathNext s = .ok r)
    (fuel : Nat) (hf1 : s.stack.length ≤ fuel) (hf2 : s.bdd.size + 2 ≤ fuel) :
    OwnedBddPathIterator_next fuel (ownPathOf s) = .ok (r.1.map List.toArray, ownPathOf r.2) := by
  unfold ownedPathNext at h
  cases hp : pathNext s.bdd s.stack with
  | err m => simp [hp] at h
  | panic m => simp [hp] at h
  | ok y =>
    obtain ⟨o, st⟩ := y
    simp only [hp, Outcome.ok.injEq] at h
    subst h
    rw [OwnedBddPathIterator_next_eq_borrowed]
    exact path_next_eq_model s.bdd s.stack _ hp fuel hf1 hf2

/-- side conditions of one step of the owned valuation iterator -/
structure OStepOK (fuel : Nat) (s : OwnedSat) : Prop where
  stack : s.paths.stack.length ≤ fuel
  size : s.paths.bdd.size + 2 ≤ fuel
  small : CvSmall s.vals
  nv : s.numVars < 65536
  clause : ∀ p st', pathNext s.paths.bdd s.paths.stack = .ok (some p, st') → p.length ≤ 65536

/-- **`OwnedBddSatisfyingValuations::next`, translated code = hand model** (`ownedSatNext`), per step, wherever the
    model succeeds, for ANY stored `num_vars < 2^16` (tied to the Bdd or not) -/
theorem owned_sat_next_eq_model (s : OwnedSat) (r : Option Valn × OwnedSat) (h : ownedSatNext s = .ok r)
    (fuel : Nat) (hok : OStepOK fuel s) :
    OwnedBddSatisfyingValuations_next fuel (ownSatOf s) = .ok (r.1.map List.toArray, ownSatOf r.2) ∧
      CvSmall r.2.vals := by
  obtain ⟨n, pth, cv⟩ := s
  unfold ownedSatNext at h
  simp only at h
  cases hcv : cvNext cv with
  | err m => simp [hcv] at h
  | panic m => simp [hcv] at h
  | ok x =>
    obtain ⟨o, cv1⟩ := x
    obtain ⟨g1, s1⟩ := cv_next_eq_model cv _ hcv hok.small
    unfold OwnedBddSatisfyingValuations_next
    simp only [ownSatOf, g1, ok_bind]
    cases o with
    | some v =>
      simp only [hcv, Outcome.ok.injEq] at h
      subst h
      exact ⟨rfl, s1⟩
    | none =>
      simp only [hcv] at h
      simp only [Option.map_none, Option.isSome_none, Bool.false_eq_true, if_false]
      cases hp : ownedPathNext pth with
      | err m => simp [hp] at h
      | panic m => simp [hp] at h
      | ok y =>
        obtain ⟨op, p'⟩ := y
        have g2 := owned_path_next_eq_model pth _ hp fuel hok.stack hok.size
        simp only [g2, ok_bind]
        cases op with
        | none =>
          simp only [hp, Outcome.ok.injEq] at h
          subst h
          exact ⟨rfl, s1⟩
        | some p =>
          simp only [hp] at h
          have hpl : p.length ≤ 65536 := by
            unfold ownedPathNext at hp
            cases hpn : pathNext pth.bdd pth.stack with
            | err m => simp [hpn] at hp
            | panic m => simp [hpn] at hp
            | ok z =>
              obtain ⟨o2, st2⟩ := z
              simp only [hpn, Outcome.ok.injEq, Prod.mk.injEq] at hp
              obtain ⟨rfl, _⟩ := hp
              exact hok.clause p st2 hpn
          cases hnew : cvNew p n with
          | err m => simp [hnew] at h
          | panic m => simp [hnew] at h
          | ok cv2 =>
            simp only [hnew] at h
            obtain ⟨g3, s3⟩ := cv_new_eq_model p n cv2 hnew hpl hok.nv
            cases hcv2 : cvNext cv2 with
            | err m => simp [hcv2] at h
            | panic m => simp [hcv2] at h
            | ok z =>
              obtain ⟨o2, cv3⟩ := z
              simp only [hcv2, Outcome.ok.injEq] at h
              subst h
              obtain ⟨g4, s4⟩ := cv_next_eq_model cv2 _ hcv2 s3
              refine ⟨?_, s4⟩
              simp only [Option.map_some, ok_bind, g3, g4, pure_eq]

/-! ## reduced arrays: constructor, step, whole enumeration -/

/-- the hand model's owned constructor in terms of the borrowed one -/
theorem ownedSatInit_of_satInit (A : Arr) (s : SatSt) (h : satInit A = .ok s) :
    ownedSatInit A = .ok ⟨numVars A, ⟨A, s.stack⟩, s.vals⟩ := by
  unfold satInit at h
  unfold ownedSatInit ownedPathInit
  cases hi : pathInit A with
  | err m => simp [hi] at h
  | panic m => simp [hi] at h
  | ok S =>
    simp only [hi] at h ⊢
    unfold ownedPathNext
    simp only
    cases hp : pathNext A S with
    | err m => simp [hp] at h
    | panic m => simp [hp] at h
    | ok y =>
      obtain ⟨op, st'⟩ := y
      simp only [hp] at h ⊢
      cases op with
      | none =>
        simp only [Outcome.ok.injEq] at h
        subst h; rfl
      | some p =>
        simp only at h ⊢
        cases hnew : cvNew p (numVars A) with
        | err m => simp [hnew] at h
        | panic m => simp [hnew] at h
        | ok cv2 =>
          simp only [hnew, Outcome.ok.injEq] at h ⊢
          subst h; rfl

/-- the hand model's owned step in terms of the borrowed one -/
theorem ownedSatNext_of_satNext (A : Arr) (s : SatSt) (r : Option Valn × SatSt) (h : satNext A s = .ok r) :
    ownedSatNext ⟨numVars A, ⟨A, s.stack⟩, s.vals⟩ = .ok (r.1, ⟨numVars A, ⟨A, r.2.stack⟩, r.2.vals⟩) := by
  obtain ⟨S, cv⟩ := s
  unfold satNext at h
  unfold ownedSatNext ownedPathNext
  simp only at h ⊢
  cases hcv : cvNext cv with
  | err m => simp [hcv] at h
  | panic m => simp [hcv] at h
  | ok x =>
    obtain ⟨o, cv1⟩ := x
    simp only [hcv] at h ⊢
    cases o with
    | some v =>
      simp only [Outcome.ok.injEq] at h
      subst h; rfl
    | none =>
      simp only at h ⊢
      cases hp : pathNext A S with
      | err m => simp [hp] at h
      | panic m => simp [hp] at h
      | ok y =>
        obtain ⟨op, st'⟩ := y
        simp only [hp] at h ⊢
        cases op with
        | none =>
          simp only [Outcome.ok.injEq] at h
          subst h; rfl
        | some p =>
          simp only at h ⊢
          cases hnew : cvNew p (numVars A) with
          | err m => simp [hnew] at h
          | panic m => simp [hnew] at h
          | ok cv2 =>
            simp only [hnew] at h ⊢
            cases hcv2 : cvNext cv2 with
            | err m => simp [hcv2] at h
            | panic m => simp [hcv2] at h
            | ok z =>
              obtain ⟨o2, cv3⟩ := z
              simp only [hcv2, Outcome.ok.injEq] at h ⊢
              subst h; rfl

/-- **each `next` of the translated OWNED valuation iterator yields the model's next valuation**: the owned state
    is `ownSt (satOf A s)` at every moment. By `OwnedBddSatisfyingValuations_next_eq_borrowed` (owned translated =
    borrowed translated) composed with `AlgoEq3Sat.sat_next_step` (borrowed translated = model). -/
theorem owned_sat_next_step {A : Arr} {n : Nat} (h : Red A n) (hn : numVars A = n) (hn16 : n < 65536) (fuel : Nat)
    (hfuel : A.size + 2 ≤ fuel) (s : SatSt) (r : Option Valn × SatSt) (hi : SatInv A s)
    (hr : satNext A s = .ok r) :
    OwnedBddSatisfyingValuations_next fuel (ownSt (satOf A s)) = .ok (r.1.map List.toArray, ownSt (satOf A r.2)) ∧
      SatInv A r.2 := by
  have h2 := h.size2
  obtain ⟨g, hinv⟩ := sat_next_step h hn hn16 fuel hfuel s r hi hr
  refine ⟨?_, hinv⟩
  have e := OwnedBddSatisfyingValuations_next_eq_borrowed fuel A (numVars A) (num_vars_eq A (by omega))
    (A, stkArr s.stack) (cvOf s.vals)
  have e2 : ownSt (satOf A s) = (numVars A, (A, stkArr s.stack), cvOf s.vals) := rfl
  rw [e2, e]
  have e3 : (A, (A, stkArr s.stack), cvOf s.vals) = satOf A s := rfl
  rw [e3, g]
  rfl

/-- **the translated owned constructor returns the model's start state** -/
theorem owned_sat_init {A : Arr} {n : Nat} (h : Red A n) (hn : numVars A = n) (hn16 : n < 65536)
    (h32 : A.size ≤ 4294967296) (fuel : Nat) (hfuel : A.size + 2 ≤ fuel) (s0 : SatSt) (h0 : satInit A = .ok s0) :
    Bdd_into_sat_valuations fuel A = .ok (ownSt (satOf A s0)) ∧ SatInv A s0 := by
  have h2 := h.size2
  obtain ⟨g, hinv⟩ := satInv_init h hn hn16 h32 fuel hfuel s0 h0
  refine ⟨?_, hinv⟩
  rw [Bdd_into_sat_valuations_eq_borrowed fuel A (by omega), g]
  rfl

/-- **The translated OWNED `into_sat_valuations` iterator enumerates exactly `satSpec A`.** Same hypotheses and the
    same fuel bound as the borrowed theorem `AlgoEq3Sat.sat_iter_translated`: `A` reduced over `n < 2^16` variables,
    at most `2^32` nodes, `fuel ≥ A.size + 2`, `k > |satSpec A|` calls of `next`. The start state is `ownSatOf` of the
    hand model's `ownedSatInit A`, the hand model's owned iterator yields the same list, and converting the
    exhausted iterator back gives `A`. -/
theorem owned_sat_iter_translated {A : Arr} {n : Nat} (h : Red A n) (hn : numVars A = n) (hn16 : n < 65536)
    (h32 : A.size ≤ 4294967296) (fuel : Nat) (hfuel : A.size + 2 ≤ fuel) (k : Nat) (hk : (satSpec A).length < k) :
    ∃ s0, ownedSatInit A = .ok s0 ∧ Bdd_into_sat_valuations fuel A = .ok (ownSatOf s0) ∧
      OwnedBddSatisfyingValuations_from fuel A = .ok (ownSatOf s0) ∧
      collect (OwnedBddSatisfyingValuations_next fuel) k (ownSatOf s0) = .ok ((satSpec A).map List.toArray) ∧
      collect ownedSatNext k s0 = .ok (satSpec A) := by
  have hlist := Props.C08.sat_iter_eq h hn k hk
  unfold satList at hlist
  cases h0 : satInit A with
  | err m => simp [h0] at hlist
  | panic m => simp [h0] at hlist
  | ok s0 =>
    simp only [h0] at hlist
    obtain ⟨g, hinv⟩ := owned_sat_init h hn hn16 h32 fuel hfuel s0 h0
    refine ⟨⟨numVars A, ⟨A, s0.stack⟩, s0.vals⟩, ownedSatInit_of_satInit A s0 h0, g, ?_, ?_, ?_⟩
    · rw [OwnedBddSatisfyingValuations_from_eq]; exact g
    · exact collect_eq_model (OwnedBddSatisfyingValuations_next fuel) (satNext A) (fun s => ownSt (satOf A s))
        List.toArray (SatInv A) (fun s r hP hr => owned_sat_next_step h hn hn16 fuel hfuel s r hP hr) k s0 _ hinv hlist
    · rw [Iter.collect_ownedSatNext]; exact hlist

/-- **The translated OWNED path iterator enumerates exactly `paths`** (hypotheses and fuel of the borrowed
    `path_iter_translated`); also through `from` and `into_sat_clauses`; the hand model's owned iterator yields the
    same list -/
theorem owned_path_iter_translated {A : Arr} {n : Nat} (h : Red A n) (hn : numVars A = n) (h32 : A.size ≤ 4294967296)
    (fuel : Nat) (hfuel : A.size + 2 ≤ fuel) (k : Nat) (hk : (pathsOf A).length < k) :
    ∃ s0, ownedPathInit A = .ok s0 ∧ OwnedBddPathIterator_new fuel A = .ok (ownPathOf s0) ∧
      OwnedBddPathIterator_from fuel A = .ok (ownPathOf s0) ∧ Bdd_into_sat_clauses fuel A = .ok (ownPathOf s0) ∧
      collect (OwnedBddPathIterator_next fuel) k (ownPathOf s0) = .ok ((paths A (root A) []).map List.toArray) ∧
      collect ownedPathNext k s0 = .ok (paths A (root A) []) ∧
      (paths A (root A) []).map (pvNorm n) = pathsOf A := by
  obtain ⟨S, hS, _, hcol, hnorm⟩ := sat_clauses_translated h hn h32 fuel hfuel k hk
  have hnew := path_new_eq_model A h32 S hS fuel hfuel
  have hinit : ownedPathInit A = .ok ⟨A, S⟩ := by unfold ownedPathInit; rw [hS]
  have hm := (Props.C08.path_iter_eq h hn k hk).1
  unfold pathList at hm
  rw [hS] at hm
  simp only at hm
  refine ⟨⟨A, S⟩, hinit, ?_, ?_, ?_, ?_, ?_, hnorm⟩
  · rw [OwnedBddPathIterator_new_eq_borrowed]; exact hnew
  · rw [OwnedBddPathIterator_from_eq_borrowed]; exact hnew
  · rw [Bdd_into_sat_clauses_eq_new, OwnedBddPathIterator_new_eq_borrowed]; exact hnew
  · rw [OwnedBddPathIterator_next_eq_borrowed]; exact hcol
  · rw [Iter.collect_ownedPathNext]; exact hm

/-! ## taking `k` items and converting back -/

/-- lifting of a per-step equality to `takeK` (as `collect_eq_model`) -/
theorem takeK_eq_model {σ σ' α α' : Type} (step : σ → Outcome (Option α × σ))
    (step' : σ' → Outcome (Option α' × σ')) (repS : σ' → σ) (repA : α' → α) (P : σ' → Prop)
    (hstep : ∀ s' r, P s' → step' s' = .ok r → step (repS s') = .ok (r.1.map repA, repS r.2) ∧ P r.2) :
    ∀ k s' x, P s' → takeK step' k s' = .ok x → takeK step k (repS s') = .ok (x.1.map repA, repS x.2) ∧ P x.2 := by
  intro k
  induction k with
  | zero => intro s' x hP h; simp only [takeK] at h; cases h; exact ⟨rfl, hP⟩
  | succ f ih =>
    intro s' x hP h
    unfold takeK at h ⊢
    cases hs : step' s' with
    | err m => simp [hs] at h
    | panic m => simp [hs] at h
    | ok r =>
      obtain ⟨o, s2⟩ := r
      obtain ⟨hg, hP2⟩ := hstep s' _ hP hs
      rw [hg]
      simp only [hs] at h
      cases o with
      | none =>
        simp only [Outcome.ok.injEq] at h
        subst h; exact ⟨rfl, hP2⟩
      | some a =>
        simp only [Option.map_some] at h ⊢
        cases hc : takeK step' f s2 with
        | err m => simp [hc] at h
        | panic m => simp [hc] at h
        | ok y =>
          obtain ⟨l2, s3⟩ := y
          simp only [hc, Outcome.ok.injEq] at h
          subst h
          obtain ⟨e, hP3⟩ := ih s2 _ hP2 hc
          rw [e]
          exact ⟨rfl, hP3⟩

/-- an iterator that can be collected can be stopped after any number of items, with the first `k` of them -/
theorem takeK_of_collect {σ α : Type} (step : σ → Outcome (Option α × σ)) :
    ∀ F s L, collect step F s = .ok L → ∀ k, ∃ s', takeK step k s = .ok (L.take k, s') := by
  intro F
  induction F with
  | zero => intro s L h; simp [collect] at h
  | succ F ih =>
    intro s L h k
    cases k with
    | zero => exact ⟨s, by simp [takeK]⟩
    | succ k =>
      unfold collect at h
      unfold takeK
      cases hs : step s with
      | err m => simp [hs] at h
      | panic m => simp [hs] at h
      | ok r =>
        obtain ⟨o, s1⟩ := r
        simp only [hs] at h ⊢
        cases o with
        | none =>
          simp only [Outcome.ok.injEq] at h
          subst h; exact ⟨s1, rfl⟩
        | some a =>
          simp only at h ⊢
          cases hc : collect step F s1 with
          | err m => simp [hc] at h
          | panic m => simp [hc] at h
          | ok L2 =>
            simp only [hc, Outcome.ok.injEq] at h
            subst h
            obtain ⟨s', hs'⟩ := ih s1 L2 hc k
            exact ⟨s', by rw [hs']; rfl⟩

/-- **take `k` valuations from the translated owned iterator, then `Bdd::from`**: the first `k` items of `satSpec A`
    and the Bdd `A` itself, for every `k` -/
theorem owned_sat_take_translated {A : Arr} {n : Nat} (h : Red A n) (hn : numVars A = n) (hn16 : n < 65536)
    (h32 : A.size ≤ 4294967296) (fuel : Nat) (hfuel : A.size + 2 ≤ fuel) (k : Nat) :
    ∃ st st', OwnedBddSatisfyingValuations_from fuel A = .ok st ∧
      takeK (OwnedBddSatisfyingValuations_next fuel) k st = .ok (((satSpec A).take k).map List.toArray, st') ∧
      bdd_satisfying_valuations__Bdd_from fuel st' = .ok A := by
  have hlist := Props.C08.sat_iter_eq h hn ((satSpec A).length + 1) (by omega)
  unfold satList at hlist
  cases h0 : satInit A with
  | err m => simp [h0] at hlist
  | panic m => simp [h0] at hlist
  | ok s0 =>
    simp only [h0] at hlist
    obtain ⟨g, hinv⟩ := owned_sat_init h hn hn16 h32 fuel hfuel s0 h0
    obtain ⟨s', hs'⟩ := takeK_of_collect (satNext A) _ s0 _ hlist k
    obtain ⟨e, _⟩ := takeK_eq_model (OwnedBddSatisfyingValuations_next fuel) (satNext A) (fun s => ownSt (satOf A s))
      List.toArray (SatInv A) (fun s r hP hr => owned_sat_next_step h hn hn16 fuel hfuel s r hP hr) k s0 _ hinv hs'
    refine ⟨_, _, by rw [OwnedBddSatisfyingValuations_from_eq]; exact g, e, ?_⟩
    obtain ⟨f', rfl⟩ : ∃ f', fuel = f' + 1 := ⟨fuel - 1, by omega⟩
    rfl

/-- **take `k` clauses from the translated owned path iterator, then `Bdd::from`** -/
theorem owned_path_take_translated {A : Arr} {n : Nat} (h : Red A n) (hn : numVars A = n)
    (h32 : A.size ≤ 4294967296) (fuel : Nat) (hfuel : A.size + 2 ≤ fuel) (k : Nat) :
    ∃ st st', Bdd_into_sat_clauses fuel A = .ok st ∧
      takeK (OwnedBddPathIterator_next fuel) k st = .ok (((paths A (root A) []).take k).map List.toArray, st') ∧
      bdd_path_iterator__Bdd_from st' = A := by
  obtain ⟨hlist, _, _, _⟩ := Props.C08.path_iter_eq h hn ((pathsOf A).length + 1) (by omega)
  obtain ⟨S, hS, hg, _⟩ := pathInit_spec h
  unfold pathList at hlist
  rw [hS] at hlist
  simp only at hlist
  obtain ⟨S', hS'⟩ := takeK_of_collect (pathNext A) _ S _ hlist k
  obtain ⟨e, _⟩ := takeK_eq_model (BddPathIterator_next fuel) (pathNext A) (fun S => (A, stkArr S)) List.toArray (Good A)
    (fun s' r hP hr => path_next_step h fuel hfuel s' r hP hr) k S _ hg hS'
  refine ⟨(A, stkArr S), (A, stkArr S'), ?_, ?_, rfl⟩
  · rw [Bdd_into_sat_clauses_eq_new, OwnedBddPathIterator_new_eq_borrowed]
    exact path_new_eq_model A h32 S hS fuel hfuel
  · rw [OwnedBddPathIterator_next_eq_borrowed]; exact e

/-- the constant false (one-node array): the owned constructors give exhausted iterators -/
theorem owned_iter_translated_false (A : Arr) (h1 : A.size = 1) (fuel k : Nat) :
    OwnedBddPathIterator_new fuel A = .ok (A, #[]) ∧
    collect (OwnedBddPathIterator_next fuel) (k + 1) (A, #[]) = .ok [] ∧
    Bdd_into_sat_valuations fuel A = .ok (numVars A, (A, #[]), (none, #[])) ∧
    collect (OwnedBddSatisfyingValuations_next fuel) (k + 1) (numVars A, (A, #[]), (none, #[])) = .ok [] := by
  obtain ⟨hnew, hcol⟩ := path_iter_translated_false A h1 fuel k
  obtain ⟨hsv, _, hsc⟩ := sat_iter_translated_false A h1 fuel k
  refine ⟨hnew, hcol, ?_, ?_⟩
  · rw [Bdd_into_sat_valuations_eq_borrowed fuel A (by omega), hsv]; rfl
  · unfold collect
    have e := OwnedBddSatisfyingValuations_next_eq_borrowed fuel A (numVars A) (num_vars_eq A (by omega)) (A, #[]) (none, #[])
    rw [e, sat_next_exhausted]
    rfl

/-! ## Non-vacuity: `exA` of `Props/C08.lean` (5 nodes, 4 variables, 2 paths, 8 valuations) -/

open B.Props.C08

/-- the generated owned `new`/`next`, run through the theorems -/
example : OwnedBddPathIterator_new 7 exA = .ok (exA, #[4, 3, 1]) :=
  owned_path_new_eq_model exA (by decide) ⟨exA, [1, 3, 4]⟩ rfl 7 (by decide)
example : OwnedBddPathIterator_next 7 (exA, #[4, 3, 1]) = .ok (some #[some false, some true], (exA, #[4, 2, 1])) :=
  owned_path_next_eq_model ⟨exA, [1, 3, 4]⟩ (some [some false, some true], ⟨exA, [1, 2, 4]⟩) rfl 7 (by decide) (by decide)

example : ∃ st, OwnedBddPathIterator_new 7 exA = .ok st ∧
    collect (OwnedBddPathIterator_next 7) 3 st = .ok [#[some false, some true], #[some true, none, some false]] :=
  let ⟨s0, _, h1, _, _, h2, _⟩ := owned_path_iter_translated exA_red rfl (by decide) 7 (by decide) 3 (by decide)
  ⟨_, h1, h2⟩

example : ∃ st, Bdd_into_sat_valuations 7 exA = .ok st ∧
    ∃ l, collect (OwnedBddSatisfyingValuations_next 7) 9 st = .ok l ∧ l.length = 8 := by
  have hlen : (satSpec exA).length = 8 := by decide
  obtain ⟨s0, _, h1, _, h2, _⟩ := owned_sat_iter_translated exA_red rfl (by decide) (by decide) 7 (by decide) 9 (by omega)
  exact ⟨_, h1, _, h2, by rw [List.length_map]; exact hlen⟩

/-- the start state, concretely: `num_vars = 4` is stored, the first path is consumed, its first valuation is held -/
example : Bdd_into_sat_valuations 7 exA =
    .ok (4, (exA, #[4, 2, 1]), (some #[false, true, false, false], #[some false, some true])) :=
  (owned_sat_init exA_red rfl (by decide) (by decide) 7 (by decide)
    ⟨[1, 2, 4], ⟨some [false, true, false, false], [some false, some true]⟩⟩ rfl).1

/-- a stored `num_vars` that is NOT the one of the Bdd (5 instead of 4): `owned_sat_next_eq_model` still applies -/
example : OwnedBddSatisfyingValuations_next 7 (5, (exA, #[4, 2, 1]), (none, #[])) =
    .ok (some #[true, false, false, false, false],
      (5, (exA, #[]), (some #[true, true, false, false, false], #[some true, none, some false]))) :=
  (owned_sat_next_eq_model ⟨5, ⟨exA, [1, 2, 4]⟩, ⟨none, []⟩⟩
    (some [true, false, false, false, false],
      ⟨5, ⟨exA, []⟩, ⟨some [true, true, false, false, false], [some true, none, some false]⟩⟩) rfl 7
    ⟨by decide, by decide, by intro v hv; simp at hv, by decide, by
      intro p st' hp
      have : pathNext exA [1, 2, 4] = .ok (some [some true, none, some false], []) := rfl
      rw [this] at hp
      simp only [Outcome.ok.injEq, Prod.mk.injEq, Option.some.injEq] at hp
      rw [← hp.1]; decide⟩).1

example : ∃ st st', OwnedBddSatisfyingValuations_from 7 exA = .ok st ∧
    (∃ l, takeK (OwnedBddSatisfyingValuations_next 7) 3 st = .ok (l, st') ∧ l.length = 3) ∧
    bdd_satisfying_valuations__Bdd_from 7 st' = .ok exA := by
  obtain ⟨st, st', h1, h2, h3⟩ := owned_sat_take_translated exA_red rfl (by decide) (by decide) 7 (by decide) 3
  refine ⟨st, st', h1, ⟨_, h2, ?_⟩, h3⟩
  rw [List.length_map]; decide

end B.AlgoEq4
