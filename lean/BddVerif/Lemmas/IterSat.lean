import BddVerif.Lemmas.IterExt
import BddVerif.Lemmas.IterPathIter
/-!
Lemmas for C08, part 5: `ValuationsOfClauseIterator::new` (first valuation, the panic on a `true`
beyond `num_vars`), the chaining of the path iterator and the clause iterator in
`BddSatisfyingValuations::next`, and the owned variants.
-/
namespace B.Iter
open B

/-! ### `ValuationsOfClauseIterator::new` -/

/-- the first valuation: fixed positions as in the clause, free positions `false` -/
def firstN (n : Nat) (c : PV) : Valn := (pvNorm n c).map (·.getD false)

theorem pvNorm_zero (c : PV) : pvNorm 0 c = [] := by simp [pvNorm]

theorem pvNorm_cons (n : Nat) (x : Option Bool) (cs : PV) : pvNorm (n + 1) (x :: cs) = x :: pvNorm n cs := by
  unfold pvNorm
  rw [List.range_succ_eq_map, List.map_cons, List.map_map, pvGet_cons_zero]
  congr 1

theorem firstN_zero (c : PV) : firstN 0 c = [] := by simp [firstN, pvNorm_zero]
theorem firstN_nil (n : Nat) : firstN n [] = List.replicate n false := by
  simp [firstN, pvNorm_nil]
theorem firstN_cons (n : Nat) (x : Option Bool) (cs : PV) :
    firstN (n + 1) (x :: cs) = x.getD false :: firstN n cs := by
  simp [firstN, pvNorm_cons]

theorem firstN_eq_firstOf (n : Nat) (c : PV) : firstN n c = firstOf (pvGet c) 0 n := by
  simp [firstN, firstOf, pvNorm_eq_range', List.map_map]

/-- no position `≥ n` is set to `true` -/
def NoTrueBeyond (n : Nat) (c : PV) : Prop := ∀ j, n ≤ j → pvGet c j ≠ some true

theorem NoTrueBeyond.tail {n : Nat} {x : Option Bool} {cs : PV} (h : NoTrueBeyond (n + 1) (x :: cs)) :
    NoTrueBeyond n cs := by
  intro j hj
  have := h (j + 1) (by omega)
  rwa [pvGet_cons_succ] at this

theorem NoTrueBeyond.tail0 {x : Option Bool} {cs : PV} (h : NoTrueBeyond 0 (x :: cs)) :
    x ≠ some true ∧ NoTrueBeyond 0 cs := by
  constructor
  · have := h 0 (by omega); rwa [pvGet_cons_zero] at this
  · intro j _
    have := h (j + 1) (by omega)
    rwa [pvGet_cons_succ] at this

theorem flipAll_none (cs : PV) : ∀ i v, NoTrueBeyond 0 cs → flipAll (toValuesFrom i cs) v = .ok v := by
  induction cs with
  | nil => intro i v _; simp [toValuesFrom, flipAll]
  | cons x cs ih =>
    intro i v h
    obtain ⟨hx, hcs⟩ := h.tail0
    cases x with
    | none => simp [toValuesFrom, ih (i + 1) v hcs]
    | some b =>
      cases b with
      | true => exact absurd rfl hx
      | false => simp [toValuesFrom, flipAll, ih (i + 1) v hcs]

theorem flipAll_first (cs : PV) : ∀ (pre : Valn) (m : Nat), NoTrueBeyond m cs →
    flipAll (toValuesFrom pre.length cs) (pre ++ List.replicate m false) = .ok (pre ++ firstN m cs) := by
  induction cs with
  | nil => intro pre m _; simp [toValuesFrom, flipAll, firstN_nil]
  | cons x cs ih =>
    intro pre m h
    cases m with
    | zero => rw [flipAll_none _ _ _ h, firstN_zero]; simp
    | succ m =>
      have hcs := h.tail
      rw [firstN_cons, List.replicate_succ]
      have e : ∀ y : Bool, pre ++ y :: List.replicate m false = (pre ++ [y]) ++ List.replicate m false := by
        intro y; simp
      have e' : ∀ y : Bool, pre ++ y :: firstN m cs = (pre ++ [y]) ++ firstN m cs := by
        intro y; simp
      have hlen : ∀ y : Bool, (pre ++ [y]).length = pre.length + 1 := by intro y; simp
      cases x with
      | none =>
        simp only [toValuesFrom, Option.getD_none]
        rw [e, e', ← hlen false]
        exact ih _ m hcs
      | some b =>
        cases b with
        | false =>
          simp only [toValuesFrom, flipAll, Option.getD_some]
          rw [e, e', ← hlen false]
          simpa using ih (pre ++ [false]) m hcs
        | true =>
          simp only [toValuesFrom, flipAll, Option.getD_some]
          have hlt : pre.length < (pre ++ false :: List.replicate m false).length := by simp
          have hset : (pre ++ false :: List.replicate m false).set pre.length
              (!(pre ++ false :: List.replicate m false).getD pre.length false) =
              (pre ++ [true]) ++ List.replicate m false := by simp
          rw [if_pos hlt, hset, e', ← hlen true]
          simpa using ih (pre ++ [true]) m hcs

/-- `new` on a clause without a `true` beyond `num_vars` (positions set to `false` there are ignored) -/
theorem cvNew_ok (clause : PV) (n : Nat) (h : NoTrueBeyond n clause) :
    cvNew clause n = .ok ⟨some (firstN n clause), clause⟩ := by
  have := flipAll_first clause [] n h
  simp at this
  simp [cvNew, toValues, this]

theorem flipAll_panic0 (cs : PV) : ∀ i (v : Valn), v.length ≤ i → ¬ NoTrueBeyond 0 cs →
    (flipAll (toValuesFrom i cs) v).isPanic = true := by
  induction cs with
  | nil => intro i v _ h; exact absurd (fun j _ => by simp [pvGet_nil]) h
  | cons x cs ih =>
    intro i v hv h
    have hcs : x ≠ some true → ¬ NoTrueBeyond 0 cs := by
      intro hx hc
      apply h
      intro j _
      cases j with
      | zero => rw [pvGet_cons_zero]; exact hx
      | succ j => rw [pvGet_cons_succ]; exact hc j (by omega)
    cases x with
    | none => simp only [toValuesFrom]; exact ih (i + 1) v (by omega) (hcs (by simp))
    | some b =>
      cases b with
      | false => simp only [toValuesFrom, flipAll]; simpa using ih (i + 1) v (by omega) (hcs (by simp))
      | true =>
        have : ¬ i < v.length := by omega
        simp [toValuesFrom, flipAll, this, Outcome.isPanic]

theorem flipAll_panic (cs : PV) : ∀ (pre : Valn) (m : Nat), ¬ NoTrueBeyond m cs →
    (flipAll (toValuesFrom pre.length cs) (pre ++ List.replicate m false)).isPanic = true := by
  induction cs with
  | nil => intro pre m h; exact absurd (fun j _ => by simp [pvGet_nil]) h
  | cons x cs ih =>
    intro pre m h
    cases m with
    | zero => exact flipAll_panic0 _ _ _ (by simp) h
    | succ m =>
      have hcs : ¬ NoTrueBeyond m cs := by
        intro hc
        apply h
        intro j hj
        cases j with
        | zero => omega
        | succ j => rw [pvGet_cons_succ]; exact hc j (by omega)
      rw [List.replicate_succ]
      have e : ∀ y : Bool, pre ++ y :: List.replicate m false = (pre ++ [y]) ++ List.replicate m false := by
        intro y; simp
      have hlen : ∀ y : Bool, (pre ++ [y]).length = pre.length + 1 := by intro y; simp
      cases x with
      | none =>
        simp only [toValuesFrom]
        rw [e, ← hlen false]
        exact ih _ m hcs
      | some b =>
        cases b with
        | false =>
          simp only [toValuesFrom, flipAll]
          rw [e, ← hlen false]
          simpa using ih (pre ++ [false]) m hcs
        | true =>
          simp only [toValuesFrom, flipAll]
          have hlt : pre.length < (pre ++ false :: List.replicate m false).length := by simp
          have hset : (pre ++ false :: List.replicate m false).set pre.length
              (!(pre ++ false :: List.replicate m false).getD pre.length false) =
              (pre ++ [true]) ++ List.replicate m false := by simp
          rw [if_pos hlt, hset, ← hlen true]
          simpa using ih (pre ++ [true]) m hcs

/-- `new` panics (index out of bounds in `flip_value`) iff some position `≥ num_vars` is set to `true` -/
theorem cvNew_panic (clause : PV) (n : Nat) (h : ¬ NoTrueBeyond n clause) :
    (cvNew clause n).isPanic = true := by
  have := flipAll_panic clause [] n h
  simp at this
  unfold cvNew toValues
  revert this
  cases flipAll (toValuesFrom 0 clause) (List.replicate n false) <;> simp [Outcome.isPanic]

/-! ### positions beyond `n` in the clauses of `paths` -/

theorem paths_beyond {A : Arr} {n : Nat} (h : Red A n) :
    ∀ p, p < A.size → ∀ acc c, c ∈ paths A p acc → ∀ j, n ≤ j → pvGet c j = pvGet acc j := by
  intro p
  induction p using Nat.strongRecOn with
  | _ p ih =>
    intro hp acc c hc j hj
    by_cases h0 : p = 0
    · subst h0; simp [paths_zero] at hc
    by_cases h1 : p = 1
    · subst h1; simp [paths_one] at hc; rw [hc]
    have hp2 : 2 ≤ p := by omega
    have hnd : A[p]? = some A[p] := by simp [hp]
    obtain ⟨hv, hl, hh, _, _, _⟩ := h.inner p A[p] hp2 hnd
    rw [paths_node h p acc hp2 _ hnd, List.mem_append] at hc
    rcases hc with hc | hc
    · rw [ih _ hl (by omega) _ _ hc j hj, pvGet_pvSet_ne _ _ _ _ (by omega)]
    · rw [ih _ hh (by omega) _ _ hc j hj, pvGet_pvSet_ne _ _ _ _ (by omega)]

/-! ### chaining -/

/-- what the clause iterator still has to yield -/
def CvRem (cv : CV) (l : List Valn) : Prop :=
  (cv.next = none ∧ l = []) ∨ (∃ v, cv.next = some v ∧ Chain (pvGet cv.clause) 0 v l)

theorem cvNext_rem_cons {cv : CV} {l : List Valn} (h : CvRem cv l) (hl : l ≠ []) :
    ∃ v l' cv', l = v :: l' ∧ cvNext cv = .ok (some v, cv') ∧ CvRem cv' l' := by
  rcases h with ⟨_, rfl⟩ | ⟨v, hv, hc⟩
  · exact absurd rfl hl
  · cases hc with
    | last _ hn =>
      refine ⟨v, [], ⟨none, cv.clause⟩, rfl, ?_, Or.inl ⟨rfl, rfl⟩⟩
      simp [cvNext, hv, valNext, hn]
    | step _ w l' hn hc' =>
      refine ⟨v, l', ⟨some w, cv.clause⟩, rfl, ?_, Or.inr ⟨w, rfl, hc'⟩⟩
      simp [cvNext, hv, valNext, hn]

theorem cvNext_rem_nil {cv : CV} (h : CvRem cv []) : cvNext cv = .ok (none, cv) := by
  rcases h with ⟨hn, _⟩ | ⟨v, _, hc⟩
  · simp [cvNext, hn]
  · have := hc.head; simp at this

theorem extensions_ne_nil (c : PV) : extensions c ≠ [] := by
  apply List.ne_nil_of_length_pos
  rw [extensions_length]
  exact Nat.pos_of_ne_zero (by simp)

/-- a fresh clause iterator has the extensions of the (normalised) clause to yield -/
theorem cvNew_rem (clause : PV) (n : Nat) (h : NoTrueBeyond n clause) :
    ∃ cv, cvNew clause n = .ok cv ∧ CvRem cv (extensions (pvNorm n clause)) := by
  refine ⟨_, cvNew_ok clause n h, Or.inr ⟨_, rfl, ?_⟩⟩
  rw [firstN_eq_firstOf, pvNorm_eq_range']
  exact chain_extensions (pvGet clause) n 0

/-- the valuations a state of `BddSatisfyingValuations` still has to yield -/
def satRemaining (A : Arr) (S : List Nat) (l : List Valn) : List Valn :=
  l ++ (remaining A S).flatMap fun c => extensions (pvNorm (numVars A) c)

theorem collect_satNext {A : Arr} {n : Nat} (h : Red A n) (hn : numVars A = n)
    (hb : ∀ S, Good A S → ∀ c, c ∈ remaining A S → NoTrueBeyond n c) :
    ∀ fuel S cv l, Good A S → CvRem cv l → (satRemaining A S l).length < fuel →
      collect (satNext A) fuel ⟨S, cv⟩ = .ok (satRemaining A S l) := by
  intro fuel
  induction fuel with
  | zero => intro S cv l _ _ hf; omega
  | succ f ih =>
    intro S cv l hg hrem hf
    by_cases hl : l = []
    · subst hl
      have hcv := cvNext_rem_nil hrem
      rcases hg.2 with rfl | ⟨r, rfl⟩
      · simp [collect, satNext, hcv, pathNext_nil, satRemaining, remaining]
      · obtain ⟨S', hnx, hg', hrm⟩ := pathNext_spec h r hg
        have hntb : NoTrueBeyond n (clauseOf A (1 :: r)) :=
          hb _ hg _ (by rw [hrm]; exact List.mem_cons_self)
        obtain ⟨cv', hnew, hrem'⟩ := cvNew_rem (clauseOf A (1 :: r)) n hntb
        obtain ⟨v, l', cv'', hl', hnext, hrem''⟩ := cvNext_rem_cons hrem' (extensions_ne_nil _)
        have htot : satRemaining A (1 :: r) [] = v :: satRemaining A S' l' := by
          simp only [satRemaining, List.nil_append]
          rw [hrm, List.flatMap_cons, hn, hl']
          rfl
        rw [htot] at hf ⊢
        have := ih S' cv'' l' hg' hrem'' (by simp at hf; omega)
        simp [collect, satNext, hcv, hnx, hn, hnew, hnext, this]
    · obtain ⟨v, l', cv', hl', hnext, hrem'⟩ := cvNext_rem_cons hrem hl
      subst hl'
      have htot : satRemaining A S (v :: l') = v :: satRemaining A S l' := rfl
      rw [htot] at hf ⊢
      have := ih S cv' l' hg hrem' (by simp at hf; omega)
      simp [collect, satNext, hnext, this]

/-! ### owned variants: the same steps on a state that carries the Bdd -/

theorem ownedPathNext_bdd (s : OwnedPath) (r : Option PV) (s' : OwnedPath)
    (h : ownedPathNext s = .ok (r, s')) : s'.bdd = s.bdd := by
  unfold ownedPathNext at h
  split at h <;> simp at h
  rw [← h.2]

theorem ownedSatNext_bdd (s : OwnedSat) (r : Option Valn) (s' : OwnedSat)
    (h : ownedSatNext s = .ok (r, s')) : s'.intoBdd = s.intoBdd := by
  unfold ownedSatNext at h
  unfold OwnedSat.intoBdd OwnedPath.intoBdd
  split at h
  · simp at h; rw [← h.2]
  · split at h
    · rename_i hp
      split at h
      · split at h <;> simp at h
        rw [← h.2]; exact ownedPathNext_bdd _ _ _ hp
      all_goals simp at h
    · rename_i hp
      simp at h
      rw [← h.2]; exact ownedPathNext_bdd _ _ _ hp
    all_goals simp at h
  all_goals simp at h

theorem collect_ownedPathNext (A : Arr) : ∀ fuel S,
    collect ownedPathNext fuel ⟨A, S⟩ = collect (pathNext A) fuel S := by
  intro fuel
  induction fuel with
  | zero => intro S; rfl
  | succ f ih =>
    intro S
    simp only [collect, ownedPathNext]
    cases hp : pathNext A S with
    | ok x =>
      obtain ⟨r, S'⟩ := x
      cases r with
      | none => rfl
      | some c => simp [ih S']
    | err m => rfl
    | panic m => rfl

theorem collect_ownedSatNext (A : Arr) : ∀ fuel S cv,
    collect ownedSatNext fuel ⟨numVars A, ⟨A, S⟩, cv⟩ = collect (satNext A) fuel ⟨S, cv⟩ := by
  intro fuel
  induction fuel with
  | zero => intro S cv; rfl
  | succ f ih =>
    intro S cv
    simp only [collect, ownedSatNext, satNext, ownedPathNext]
    cases hc : cvNext cv with
    | ok x =>
      obtain ⟨r, cv1⟩ := x
      cases r with
      | some v => simp [ih S cv1]
      | none =>
        simp only []
        cases hp : pathNext A S with
        | ok y =>
          obtain ⟨r2, S'⟩ := y
          cases r2 with
          | none => rfl
          | some c =>
            simp only []
            cases hn : cvNew c (numVars A) with
            | ok cv2 =>
              simp only []
              cases hc2 : cvNext cv2 with
              | ok z =>
                obtain ⟨r3, cv3⟩ := z
                cases r3 with
                | none => rfl
                | some v => simp [ih S' cv3]
              | err m => rfl
              | panic m => rfl
            | err m => rfl
            | panic m => rfl
        | err m => rfl
        | panic m => rfl
    | err m => rfl
    | panic m => rfl

/-! ### no clause of a reachable state sets a position beyond the variables -/

theorem clauseOf_beyond {A : Arr} {n : Nat} (h : Red A n) :
    ∀ S, PathOK A S → ∀ j, n ≤ j → pvGet (clauseOf A S) j = none := by
  intro S
  induction S with
  | nil => intro _ j _; exact pvGet_nil j
  | cons c S ih =>
    intro hok j hj
    cases S with
    | nil => exact pvGet_nil j
    | cons t rest =>
      obtain ⟨⟨nd, hnd, ht2, _, _⟩, hrest⟩ := hok
      obtain ⟨hv, _, _, _, _, _⟩ := h.inner t nd ht2 hnd
      rw [clauseOf_cons A c t rest nd hnd, pvGet_pvSet_ne _ _ _ _ (by omega)]
      exact ih hrest j hj

theorem after_beyond {A : Arr} {n : Nat} (h : Red A n) :
    ∀ rest child, PathOK A (child :: rest) → ∀ c, c ∈ after A child rest → ∀ j, n ≤ j → pvGet c j = none := by
  intro rest
  induction rest with
  | nil => intro child _ c hc; simp [after] at hc
  | cons t rest ih =>
    intro child hok c hc j hj
    obtain ⟨⟨nd, hnd, ht2, _, _⟩, hrest⟩ := hok
    have hts : t < A.size := by
      rcases Nat.lt_or_ge t A.size with h' | h'
      · exact h'
      · simp [Array.getElem?_eq_none h'] at hnd
    obtain ⟨hv, _, hh, _, _, _⟩ := h.inner t nd ht2 hnd
    rw [after_cons A child t rest nd hnd, List.mem_append] at hc
    rcases hc with hc | hc
    · split at hc
      · rw [paths_beyond h _ (by omega) _ _ hc j hj, clauseOf_cons A _ t rest nd hnd,
          pvGet_pvSet_ne _ _ _ _ (by omega)]
        exact clauseOf_beyond h _ hrest j hj
      · simp at hc
    · exact ih t hrest c hc j hj

theorem remaining_beyond {A : Arr} {n : Nat} (h : Red A n) :
    ∀ S, Good A S → ∀ c, c ∈ remaining A S → NoTrueBeyond n c := by
  intro S hg c hc j hj
  rcases hg.2 with rfl | ⟨r, rfl⟩
  · simp [remaining] at hc
  · simp only [remaining, List.mem_cons] at hc
    rcases hc with rfl | hc
    · rw [clauseOf_beyond h _ hg.1 j hj]; simp
    · rw [after_beyond h r 1 hg.1 c hc j hj]; simp

end B.Iter
