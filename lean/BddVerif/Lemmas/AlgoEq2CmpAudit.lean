import BddVerif.Lemmas.AlgoEq2Cmp
/-! axiom audit: translated Rust (`Gen/Algo2.lean`) = hand model, Cmp part (every theorem of the files AlgoEq2Cmp.lean) -/
#print axioms B.AlgoEq2Cmp.Bdd_cmp_size_eq_model
#print axioms B.AlgoEq2Cmp.go_eq_cmpNodes
#print axioms B.AlgoEq2Cmp.Bdd_cmp_structural_eq_model
#print axioms B.AlgoEq2Cmp.Bdd_cmp_cardinality_eq_model
#print axioms B.AlgoEq2Cmp.Bdd_cmp_cardinality_strict_eq_model
#print axioms B.AlgoEq2Cmp.fuel1_sum
#print axioms B.AlgoEq2Cmp.Bdd_cmp_cardinality_eq_model_driver
#print axioms B.AlgoEq2Cmp.Bdd_cmp_cardinality_strict_eq_model_driver
#print axioms B.AlgoEq2Cmp.imp_total
#print axioms B.AlgoEq2Cmp.implies_test
#print axioms B.AlgoEq2Cmp.chain
#print axioms B.AlgoEq2Cmp.Bdd_cmp_implies_eq_model
#print axioms B.AlgoEq2Cmp.Bdd_cmp_implies_eq_model_driver
#print axioms B.AlgoEq2Cmp.lim_cmpImplies_eq
#print axioms B.AlgoEq2Cmp.Bdd_cmp_implies_eq_lim_model
#print axioms B.AlgoEq2Cmp.Bdd_cmp_implies_panics_empty
#print axioms B.AlgoEq2Cmp.cmp_structural_linear_order
#print axioms B.AlgoEq2Cmp.cmp_structural_le
#print axioms B.AlgoEq2Cmp.cmp_size_spec
#print axioms B.AlgoEq2Cmp.cmp_cardinality_spec
#print axioms B.AlgoEq2Cmp.cmp_cardinality_strict_spec
#print axioms B.AlgoEq2Cmp.cmp_implies_spec
