import BddVerif.Core.Inj
/-!
The specification side of C03: projection of a Boolean function over the triggered variables.

`Qn trig d n f` folds the connective `d` over both values of every variable `k < n` with `trig k`
(variable 0 outermost). For `d = or` it is existential, for `d = and` universal quantification over the
triggered variables (`Qn_or_iff`, `Qn_and_iff`).
-/
namespace B

/-- quantify variable `x` with connective `d` (low value first, as `inner_apply(new_low, new_high)`) -/
def qv (d : Bool → Bool → Bool) (x : Nat) (f : (Nat → Bool) → Bool) : (Nat → Bool) → Bool :=
  fun v => d (f (upd v x false)) (f (upd v x true))

/-- quantify the triggered variables in `[k, k + fuel)` -/
def Qfrom (trig : Nat → Bool) (d : Bool → Bool → Bool) : Nat → Nat → ((Nat → Bool) → Bool) → (Nat → Bool) → Bool
  | 0, _, f => f
  | fuel + 1, k, f =>
    if trig k then qv d k (Qfrom trig d fuel (k + 1) f) else Qfrom trig d fuel (k + 1) f

/-- quantify all triggered variables below `n` -/
def Qn (trig : Nat → Bool) (d : Bool → Bool → Bool) (n : Nat) (f : (Nat → Bool) → Bool) : (Nat → Bool) → Bool :=
  Qfrom trig d n 0 f

/-- `f` depends only on the variables in `[m, n)` -/
def DepOn (m n : Nat) (f : (Nat → Bool) → Bool) : Prop :=
  ∀ v w : Nat → Bool, (∀ i, m ≤ i → i < n → v i = w i) → f v = f w

theorem upd_comm (v : Nat → Bool) (x y : Nat) (a b : Bool) (h : x ≠ y) :
    upd (upd v x a) y b = upd (upd v y b) x a := by
  funext j
  by_cases hx : j = x
  · subst hx; simp [upd, h]
  · by_cases hy : j = y
    · subst hy; simp [upd, hx]
    · simp [upd, hx, hy]

theorem upd_upd (v : Nat → Bool) (x : Nat) (a b : Bool) : upd (upd v x a) x b = upd v x b := by
  funext j; by_cases h : j = x <;> simp [upd, h]

theorem upd_same (v : Nat → Bool) (x : Nat) : upd v x (v x) = v := by
  funext j
  by_cases h : j = x
  · subst h; simp [upd]
  · simp [upd, h]

theorem DepOn.mono {m m' n : Nat} {f} (h : DepOn m n f) (hm : m' ≤ m) : DepOn m' n f :=
  fun v w hvw => h v w (fun i hi hin => hvw i (by omega) hin)

theorem DepOn.upd {m n : Nat} {f} (h : DepOn m n f) (b : Bool) : DepOn (m + 1) n (fun w => f (upd w m b)) := by
  intro v w hvw
  apply h
  intro i hi hin
  by_cases hie : i = m
  · simp [B.upd, hie]
  · simp [B.upd, hie]; exact hvw i (by omega) hin

/-- fixing a variable below the quantified range commutes with the quantifiers -/
theorem Qfrom_upd_low (trig : Nat → Bool) (d : Bool → Bool → Bool) :
    ∀ fuel k (f : (Nat → Bool) → Bool) (v : Nat → Bool) (x : Nat) (b : Bool), x < k →
      Qfrom trig d fuel k f (upd v x b) = Qfrom trig d fuel k (fun w => f (upd w x b)) v := by
  intro fuel
  induction fuel with
  | zero => intro k f v x b _; rfl
  | succ fuel ih =>
    intro k f v x b hx
    simp only [Qfrom]
    split
    · simp only [qv]
      rw [upd_comm v x k b false (by omega), upd_comm v x k b true (by omega),
        ih (k+1) f _ x b (by omega), ih (k+1) f _ x b (by omega)]
    · exact ih (k+1) f v x b (by omega)

theorem Qfrom_dep (trig : Nat → Bool) (d : Bool → Bool → Bool) (m n : Nat) :
    ∀ fuel k (f : (Nat → Bool) → Bool), DepOn m n f → DepOn m n (Qfrom trig d fuel k f) := by
  intro fuel
  induction fuel with
  | zero => intro k f h; exact h
  | succ fuel ih =>
    intro k f h v w hvw
    simp only [Qfrom]
    have key : ∀ b, Qfrom trig d fuel (k+1) f (upd v k b) = Qfrom trig d fuel (k+1) f (upd w k b) := by
      intro b
      apply ih (k+1) f h
      intro i hi hin
      by_cases hie : i = k
      · simp [upd, hie]
      · simp [upd, hie]; exact hvw i hi hin
    split
    · simp only [qv]; rw [key false, key true]
    · exact ih (k+1) f h v w hvw

/-- a level the function does not depend on is skipped (idempotent connective) -/
theorem Qfrom_skip (trig : Nat → Bool) (d : Bool → Bool → Bool) (hid : ∀ a, d a a = a) (n fuel k : Nat)
    (f : (Nat → Bool) → Bool) (h : DepOn (k + 1) n f) :
    Qfrom trig d (fuel + 1) k f = Qfrom trig d fuel (k + 1) f := by
  funext v
  simp only [Qfrom]
  split
  · simp only [qv]
    have hg := Qfrom_dep trig d (k+1) n fuel (k+1) f h
    have key : ∀ b, Qfrom trig d fuel (k+1) f (upd v k b) = Qfrom trig d fuel (k+1) f v := by
      intro b; apply hg; intro i hi _
      have : i ≠ k := by omega
      simp [upd, this]
    rw [key false, key true, hid]
  · rfl

theorem Qfrom_skip_many (trig : Nat → Bool) (d : Bool → Bool → Bool) (hid : ∀ a, d a a = a) (n : Nat)
    (f : (Nat → Bool) → Bool) :
    ∀ m k e, e = k + m → e ≤ n → DepOn e n f → Qfrom trig d (n - k) k f = Qfrom trig d (n - e) e f := by
  intro m
  induction m with
  | zero => intro k e he _ _; simp at he; subst he; rfl
  | succ m ih =>
    intro k e he hen h
    have : n - k = (n - k - 1) + 1 := by omega
    rw [this, Qfrom_skip trig d hid n (n - k - 1) k f (h.mono (by omega))]
    have : n - k - 1 = n - (k + 1) := by omega
    rw [this]
    exact ih (k+1) e (by omega) hen h

/-- a function that depends on no variable below `n` is left alone -/
theorem Qn_const (trig : Nat → Bool) (d : Bool → Bool → Bool) (hid : ∀ a, d a a = a) (n : Nat)
    (f : (Nat → Bool) → Bool) (h : DepOn n n f) : Qn trig d n f = f := by
  unfold Qn
  have := Qfrom_skip_many trig d hid n f n 0 n (by omega) (Nat.le_refl _) h
  simp only [Nat.sub_zero, Nat.sub_self] at this
  rw [this]; rfl

theorem Qn_dep (trig : Nat → Bool) (d : Bool → Bool → Bool) (m n : Nat) (f : (Nat → Bool) → Bool)
    (h : DepOn m n f) : DepOn m n (Qn trig d n f) := Qfrom_dep trig d m n n 0 f h

/-- Shannon step of the projection at the first variable `e` the function depends on -/
theorem Qn_shannon (trig : Nat → Bool) (d : Bool → Bool → Bool) (hid : ∀ a, d a a = a) (n e : Nat)
    (hen : e < n) (f : (Nat → Bool) → Bool) (h : DepOn e n f) (v : Nat → Bool) :
    Qn trig d n f v =
      if trig e then d (Qn trig d n (fun w => f (upd w e false)) v) (Qn trig d n (fun w => f (upd w e true)) v)
      else Qn trig d n (fun w => f (upd w e (v e))) v := by
  have hsub : ∀ b, Qn trig d n (fun w => f (upd w e b)) = Qfrom trig d (n - (e + 1)) (e + 1) (fun w => f (upd w e b)) := by
    intro b
    unfold Qn
    have := Qfrom_skip_many trig d hid n (fun w => f (upd w e b)) (e+1) 0 (e+1) (by omega) (by omega) (h.upd b)
    simpa using this
  have htop : Qn trig d n f = Qfrom trig d (n - e) e f := by
    unfold Qn
    have := Qfrom_skip_many trig d hid n f e 0 e (by omega) (by omega) h
    simpa using this
  rw [htop, hsub false, hsub true, hsub (v e)]
  have : n - e = (n - (e + 1)) + 1 := by omega
  rw [this]
  simp only [Qfrom]
  split
  · simp only [qv]
    rw [Qfrom_upd_low trig d _ _ f v e false (by omega), Qfrom_upd_low trig d _ _ f v e true (by omega)]
  · rw [← Qfrom_upd_low trig d _ _ f v e (v e) (by omega), upd_same]

/-- the projection does not depend on a triggered variable of the quantified range -/
theorem Qfrom_indep (trig : Nat → Bool) (d : Bool → Bool → Bool) (x : Nat) (hx : trig x = true) :
    ∀ fuel k (f : (Nat → Bool) → Bool) (v : Nat → Bool) (b : Bool), k ≤ x → x < k + fuel →
      Qfrom trig d fuel k f (upd v x b) = Qfrom trig d fuel k f v := by
  intro fuel
  induction fuel with
  | zero => intro k f v b h1 h2; omega
  | succ fuel ih =>
    intro k f v b h1 h2
    simp only [Qfrom]
    by_cases hkx : k = x
    · subst hkx
      simp only [hx, if_true, qv, upd_upd]
    · split
      · simp only [qv]
        rw [upd_comm v x k b false (by omega), upd_comm v x k b true (by omega),
          ih (k+1) f _ b (by omega) (by omega), ih (k+1) f _ b (by omega) (by omega)]
      · exact ih (k+1) f v b (by omega) (by omega)

theorem Qn_indep (trig : Nat → Bool) (d : Bool → Bool → Bool) (n x : Nat) (hx : trig x = true) (hxn : x < n)
    (f : (Nat → Bool) → Bool) (v : Nat → Bool) (b : Bool) :
    Qn trig d n f (upd v x b) = Qn trig d n f v :=
  Qfrom_indep trig d x hx n 0 f v b (Nat.zero_le _) (by omega)

/-- quantifying a single variable -/
theorem Qn_single (d : Bool → Bool → Bool) (n x : Nat) (hxn : x < n)
    (trig : Nat → Bool) (ht : ∀ i, trig i = true ↔ i = x)
    (f : (Nat → Bool) → Bool) (hf : DepOn 0 n f) (v : Nat → Bool) :
    Qn trig d n f v = d (f (upd v x false)) (f (upd v x true)) := by
  have key : ∀ fuel k (g : (Nat → Bool) → Bool), k + fuel = n → DepOn 0 n g →
      Qfrom trig d fuel k g = if k ≤ x then qv d x g else g := by
    intro fuel
    induction fuel with
    | zero =>
      intro k g hk _
      have : ¬ k ≤ x := by omega
      simp only [Qfrom, this, if_false]
    | succ fuel ih =>
      intro k g hk hg
      simp only [Qfrom]
      rw [ih (k+1) g (by omega) hg]
      by_cases hkx : k = x
      · subst hkx
        have h1 : trig k = true := (ht k).2 rfl
        have h2 : ¬ k + 1 ≤ k := by omega
        simp only [h1, if_true, h2, if_false, Nat.le_refl]
      · have h1 : ¬ trig k = true := fun h => hkx ((ht k).1 h)
        have h2 : k + 1 ≤ x ↔ k ≤ x := by omega
        simp only [h1, if_false, h2, Bool.false_eq_true]
  unfold Qn
  rw [key n 0 f (by omega) hf]
  simp [qv]

/-! ### `or` is existential, `and` universal quantification -/

theorem Qfrom_or_iff (trig : Nat → Bool) :
    ∀ fuel k (f : (Nat → Bool) → Bool) (v : Nat → Bool),
      Qfrom trig (fun a b => a || b) fuel k f v = true ↔
        ∃ w : Nat → Bool, (∀ i, ¬ (k ≤ i ∧ i < k + fuel ∧ trig i = true) → w i = v i) ∧ f w = true := by
  intro fuel
  induction fuel with
  | zero =>
    intro k f v
    simp only [Qfrom]
    constructor
    · intro h; exact ⟨v, fun _ _ => rfl, h⟩
    · rintro ⟨w, hw, hf⟩
      have : w = v := funext fun i => hw i (by omega)
      rw [← this]; exact hf
  | succ fuel ih =>
    intro k f v
    simp only [Qfrom]
    split
    · rename_i htk
      simp only [qv, Bool.or_eq_true, ih]
      constructor
      · rintro (⟨w, hw, hf⟩ | ⟨w, hw, hf⟩)
        · refine ⟨w, ?_, hf⟩
          intro i hi
          by_cases hik : i = k
          · subst hik; exfalso; exact hi ⟨Nat.le_refl _, by omega, htk⟩
          · rw [hw i (fun h => hi ⟨by omega, by omega, h.2.2⟩)]; simp [upd, hik]
        · refine ⟨w, ?_, hf⟩
          intro i hi
          by_cases hik : i = k
          · subst hik; exfalso; exact hi ⟨Nat.le_refl _, by omega, htk⟩
          · rw [hw i (fun h => hi ⟨by omega, by omega, h.2.2⟩)]; simp [upd, hik]
      · rintro ⟨w, hw, hf⟩
        have key : ∀ b, w k = b → ∀ i, ¬ (k + 1 ≤ i ∧ i < k + 1 + fuel ∧ trig i = true) → w i = upd v k b i := by
          intro b hb i hi
          by_cases hik : i = k
          · subst hik; simp [upd, hb]
          · simp only [upd, hik, if_false]
            exact hw i (fun h => hi ⟨by omega, by omega, h.2.2⟩)
        cases hwk : w k
        · left; exact ⟨w, key false hwk, hf⟩
        · right; exact ⟨w, key true hwk, hf⟩
    · rename_i htk
      rw [ih]
      constructor
      · rintro ⟨w, hw, hf⟩
        exact ⟨w, fun i hi => hw i (fun h => hi ⟨by omega, by omega, h.2.2⟩), hf⟩
      · rintro ⟨w, hw, hf⟩
        refine ⟨w, fun i hi => hw i (fun h => hi ⟨?_, by omega, h.2.2⟩), hf⟩
        rcases Nat.lt_or_ge k i with h' | h'
        · omega
        · have : i = k := by omega
          subst this; exact absurd h.2.2 htk

theorem Qfrom_and_iff (trig : Nat → Bool) :
    ∀ fuel k (f : (Nat → Bool) → Bool) (v : Nat → Bool),
      Qfrom trig (fun a b => a && b) fuel k f v = true ↔
        ∀ w : Nat → Bool, (∀ i, ¬ (k ≤ i ∧ i < k + fuel ∧ trig i = true) → w i = v i) → f w = true := by
  intro fuel
  induction fuel with
  | zero =>
    intro k f v
    simp only [Qfrom]
    constructor
    · intro h w hw
      have : w = v := funext fun i => hw i (by omega)
      rw [this]; exact h
    · intro h; exact h v (fun _ _ => rfl)
  | succ fuel ih =>
    intro k f v
    simp only [Qfrom]
    split
    · rename_i htk
      simp only [qv, Bool.and_eq_true, ih]
      constructor
      · rintro ⟨h0, h1⟩ w hw
        have key : ∀ b, w k = b → ∀ i, ¬ (k + 1 ≤ i ∧ i < k + 1 + fuel ∧ trig i = true) → w i = upd v k b i := by
          intro b hb i hi
          by_cases hik : i = k
          · subst hik; simp [upd, hb]
          · simp only [upd, hik, if_false]
            exact hw i (fun h => hi ⟨by omega, by omega, h.2.2⟩)
        cases hwk : w k
        · exact h0 w (key false hwk)
        · exact h1 w (key true hwk)
      · intro h
        constructor
        · intro w hw
          apply h w
          intro i hi
          by_cases hik : i = k
          · subst hik; exfalso; exact hi ⟨Nat.le_refl _, by omega, htk⟩
          · rw [hw i (fun h => hi ⟨by omega, by omega, h.2.2⟩)]; simp [upd, hik]
        · intro w hw
          apply h w
          intro i hi
          by_cases hik : i = k
          · subst hik; exfalso; exact hi ⟨Nat.le_refl _, by omega, htk⟩
          · rw [hw i (fun h => hi ⟨by omega, by omega, h.2.2⟩)]; simp [upd, hik]
    · rename_i htk
      rw [ih]
      constructor
      · intro h w hw
        apply h w
        intro i hi
        apply hw i
        intro h'
        apply hi
        refine ⟨?_, by omega, h'.2.2⟩
        rcases Nat.lt_or_ge k i with h'' | h''
        · omega
        · have : i = k := by omega
          subst this; exact absurd h'.2.2 htk
      · intro h w hw
        exact h w (fun i hi => hw i (fun h' => hi ⟨by omega, by omega, h'.2.2⟩))

/-- existential projection: the result holds at `v` iff the function holds at some re-assignment of the
    triggered variables below `n` -/
theorem Qn_or_iff (trig : Nat → Bool) (n : Nat) (f : (Nat → Bool) → Bool) (v : Nat → Bool) :
    Qn trig (fun a b => a || b) n f v = true ↔
      ∃ w : Nat → Bool, (∀ i, ¬ (i < n ∧ trig i = true) → w i = v i) ∧ f w = true := by
  unfold Qn
  rw [Qfrom_or_iff]
  constructor
  · rintro ⟨w, hw, hf⟩
    exact ⟨w, fun i hi => hw i (fun h => hi ⟨by omega, h.2.2⟩), hf⟩
  · rintro ⟨w, hw, hf⟩
    exact ⟨w, fun i hi => hw i (fun h => hi ⟨Nat.zero_le _, by omega, h.2⟩), hf⟩

/-- universal projection -/
theorem Qn_and_iff (trig : Nat → Bool) (n : Nat) (f : (Nat → Bool) → Bool) (v : Nat → Bool) :
    Qn trig (fun a b => a && b) n f v = true ↔
      ∀ w : Nat → Bool, (∀ i, ¬ (i < n ∧ trig i = true) → w i = v i) → f w = true := by
  unfold Qn
  rw [Qfrom_and_iff]
  constructor
  · intro h w hw
    exact h w (fun i hi => hw i (fun h' => hi ⟨Nat.zero_le _, by omega, h'.2⟩))
  · intro h w hw
    exact h w (fun i hi => hw i (fun h' => hi ⟨by omega, h'.2.2⟩))

end B
