import BddVerif.Lemmas.AlgoEq3DotText
/-!
# `String::from_utf8(s.as_bytes()) = Ok(s)` for the shim's strict UTF-8 decoder (`Gen/RustShimStr.lean`)

Needed for `bdd_to_dot_string`, which collects the text in a `Vec<u8>` and converts it back.
-/
namespace B.AlgoEq3Dot
open B B.Gen

theorem utf8Dec_enc (c : Char) (rest : List Nat) :
    Rust.utf8Dec (Rust.utf8EncChar c ++ rest) = (Rust.utf8Dec rest).map (c :: ·) := by
  have hv := char_valid c
  have hc : Char.ofNat c.toNat = c := Char.ofNat_toNat c
  unfold Rust.utf8EncChar
  simp only
  generalize hn : c.toNat = n at hv hc
  split
  · rename_i h1
    rw [List.singleton_append, Rust.utf8Dec.eq_def]
    simp [h1, hc]
  · split
    · rename_i h1 h2
      rw [List.cons_append, List.singleton_append, Rust.utf8Dec.eq_def]
      have a1 : ¬ (0xC0 + n / 64 < 0x80) := by omega
      have a2 : (decide (0xC2 ≤ 0xC0 + n / 64) && decide (0xC0 + n / 64 ≤ 0xDF)) = true := by
        simp only [Bool.and_eq_true, decide_eq_true_eq]; omega
      have a3 : Rust.isCont (0x80 + n % 64) = true := by simp [Rust.isCont]; omega
      have a4 : (0xC0 + n / 64 - 0xC0) * 64 + (0x80 + n % 64 - 0x80) = n := by omega
      simp only [a1, a2, a3, a4, if_false, if_true, hc]
    · split
      · rename_i h1 h2 h3
        rw [List.cons_append, List.cons_append, List.singleton_append, Rust.utf8Dec.eq_def]
        have a1 : ¬ (0xE0 + n / 4096 < 0x80) := by omega
        have a2 : (decide (0xC2 ≤ 0xE0 + n / 4096) && decide (0xE0 + n / 4096 ≤ 0xDF)) = false := by
          simp only [Bool.and_eq_false_iff, decide_eq_false_iff_not]; omega
        have a3 : (decide (0xE0 ≤ 0xE0 + n / 4096) && decide (0xE0 + n / 4096 ≤ 0xEF)) = true := by
          simp only [Bool.and_eq_true, decide_eq_true_eq]; omega
        have a5 : Rust.isCont (0x80 + n % 64) = true := by simp [Rust.isCont]; omega
        have a6 : (if (0xE0 + n / 4096 == 0xE0) = true then decide (0xA0 ≤ 0x80 + n / 64 % 64) && decide (0x80 + n / 64 % 64 ≤ 0xBF)
            else if (0xE0 + n / 4096 == 0xED) = true then decide (0x80 ≤ 0x80 + n / 64 % 64) && decide (0x80 + n / 64 % 64 ≤ 0x9F)
            else Rust.isCont (0x80 + n / 64 % 64)) = true := by
          simp only [beq_iff_eq, Rust.isCont]
          split
          · simp only [Bool.and_eq_true, decide_eq_true_eq]; omega
          · split
            · simp only [Bool.and_eq_true, decide_eq_true_eq]; omega
            · simp only [Bool.and_eq_true, decide_eq_true_eq]; omega
        have a8 : (0xE0 + n / 4096 - 0xE0) * 4096 + (0x80 + n / 64 % 64 - 0x80) * 64 + (0x80 + n % 64 - 0x80) = n := by
          omega
        simp only [a1, a2, a3, a5, a6, a8, if_false, if_true, Bool.false_eq_true, Bool.and_self, hc]
      · rename_i h1 h2 h3
        rw [List.cons_append, List.cons_append, List.cons_append, List.singleton_append, Rust.utf8Dec.eq_def]
        have a1 : ¬ (0xF0 + n / 262144 < 0x80) := by omega
        have a2 : (decide (0xC2 ≤ 0xF0 + n / 262144) && decide (0xF0 + n / 262144 ≤ 0xDF)) = false := by
          simp only [Bool.and_eq_false_iff, decide_eq_false_iff_not]; omega
        have a3 : (decide (0xE0 ≤ 0xF0 + n / 262144) && decide (0xF0 + n / 262144 ≤ 0xEF)) = false := by
          simp only [Bool.and_eq_false_iff, decide_eq_false_iff_not]; omega
        have a3' : (decide (0xF0 ≤ 0xF0 + n / 262144) && decide (0xF0 + n / 262144 ≤ 0xF4)) = true := by
          simp only [Bool.and_eq_true, decide_eq_true_eq]; omega
        have a5 : Rust.isCont (0x80 + n / 64 % 64) = true := by simp [Rust.isCont]; omega
        have a5' : Rust.isCont (0x80 + n % 64) = true := by simp [Rust.isCont]; omega
        have a6 : (if (0xF0 + n / 262144 == 0xF0) = true then decide (0x90 ≤ 0x80 + n / 4096 % 64) && decide (0x80 + n / 4096 % 64 ≤ 0xBF)
            else if (0xF0 + n / 262144 == 0xF4) = true then decide (0x80 ≤ 0x80 + n / 4096 % 64) && decide (0x80 + n / 4096 % 64 ≤ 0x8F)
            else Rust.isCont (0x80 + n / 4096 % 64)) = true := by
          simp only [beq_iff_eq, Rust.isCont]
          split
          · simp only [Bool.and_eq_true, decide_eq_true_eq]; omega
          · split
            · simp only [Bool.and_eq_true, decide_eq_true_eq]; omega
            · simp only [Bool.and_eq_true, decide_eq_true_eq]; omega
        have a8 : (0xF0 + n / 262144 - 0xF0) * 262144 + (0x80 + n / 4096 % 64 - 0x80) * 4096 +
            (0x80 + n / 64 % 64 - 0x80) * 64 + (0x80 + n % 64 - 0x80) = n := by omega
        simp only [a1, a2, a3, a3', a5, a5', a6, a8, if_false, if_true, Bool.false_eq_true, Bool.and_self, hc]

theorem utf8Dec_flatMap_enc (s : List Char) : Rust.utf8Dec (s.flatMap Rust.utf8EncChar) = some s := by
  induction s with
  | nil => simp [Rust.utf8Dec]
  | cons c s ih => simp [List.flatMap_cons, utf8Dec_enc, ih]

/-- `String::from_utf8(s.as_bytes().to_vec()) = Ok(s)` -/
theorem stringFromUtf8_utf8Bytes (s : String) : Rust.stringFromUtf8 (Rust.utf8Bytes s) = .ok s := by
  unfold Rust.stringFromUtf8 Rust.utf8Bytes
  simp only [utf8Dec_flatMap_enc, String.ofList_toList]

end B.AlgoEq3Dot
