import BddVerif.Lemmas.ExactWalkC07
/-!
# A rejecting exact walk of `Drive/C07.lean` is conclusive

`Drive.C07.compositionExact f g r x budget = some false` is answered only at a state whose four pointers are
terminals with `p ≠ (if q then a else c)`. Every state on the stack is reached from the roots along a path on
which the decision variables strictly increase, so the path is a consistent partial valuation `u`, and on every
valuation extending it the identity at the roots is equivalent to the identity at the state. Hence for `f`, `g`,
`r` ordered by level over `n ≤ 1 000 000` variables (`WFo`) the answer `some false` yields a valuation at which
`r(v) ≠ f(v[x := g v])`. (`none` — budget or iteration bound exceeded — is inconclusive and nothing is claimed.)
-/
namespace B.ExactWalk
open B B.Drive

section
variable (f g r : Arr) (n x : Nat)
/-- the composition identity at one state and one valuation -/
def Eat7 (t : T) (v : Nat → Bool) : Prop :=
  evW r n v t.1 = if evW g n v t.2.2.2 = true then evW f n (upd v x true) t.2.1
    else evW f n (upd v x false) t.2.2.1

/-- the state is reached along a consistent path `u` (variables below `k`), on whose extensions the identity at
    the roots and at the state are equivalent -/
def Reach7 (t : T) : Prop :=
  ∃ (u : Nat → Bool) (k : Nat), k ≤ lev f g r n t ∧
    ∀ v : Nat → Bool, (∀ i, i < k → v i = u i) →
      (Eat7 f g r n x (root r, root f, root f, root g) v ↔ Eat7 f g r n x t v)
end

theorem norm_at {f g r : Arr} {n : Nat} (x : Nat) (hf : WFo f n) {t : T} (ht : InB7 f g r t) (v : Nat → Bool) :
    Eat7 f g r n x (norm f x t) v ↔ Eat7 f g r n x t v := by
  obtain ⟨p, a0, c0, q⟩ := t
  obtain ⟨hp, ha, hc, hq⟩ := ht
  simp only at hp ha hc hq
  obtain ⟨_, _, _, a4⟩ := skipX_spec hf x ha true
  obtain ⟨_, _, _, c4⟩ := skipX_spec hf x hc false
  unfold norm Eat7
  simp only
  by_cases hq0 : (q == 0) = true
  · have hq0' : q = 0 := by simpa using hq0
    subst hq0'
    have e := c4 (upd v x false) (by simp [upd])
    simp [evW_zero, e]
  · by_cases hq1 : (q == 1) = true
    · have hq1' : q = 1 := by simpa using hq1
      subst hq1'
      have e := a4 (upd v x true) (by simp [upd])
      simp [evW_one, e]
    · simp only [hq0, hq1, if_false, Bool.false_eq_true]
      rw [a4 (upd v x true) (by simp [upd]), c4 (upd v x false) (by simp [upd])]

theorem kid_at {f g r : Arr} {n : Nat} (x : Nat) (hf : WFo f n) (hg : WFo g n) (hr : WFo r n)
    (hn : n ≤ 1000000) {z : T} (hz : InB7 f g r z) (hnrm : Nrm f x z)
    (hnt : ¬ (z.1 < 2 ∧ z.2.1 < 2 ∧ z.2.2.1 < 2 ∧ z.2.2.2 < 2)) :
    dOf f g r z = lev f g r n z ∧ lev f g r n z < n ∧
      ∀ v : Nat → Bool, Eat7 f g r n x z v ↔ Eat7 f g r n x (kid f g r z (v (dOf f g r z))) v := by
  obtain ⟨p, a, c, q⟩ := z
  obtain ⟨hp, ha, hc, hq⟩ := hz
  obtain ⟨na, nc⟩ := hnrm
  simp only at hp ha hc hq na nc hnt
  have fp := comp_facts hr hn hp
  have fa := comp_facts hf hn ha
  have fc := comp_facts hf hn hc
  have fq := comp_facts hg hn hq
  have hd : dOf f g r (p, a, c, q) < n ∧ dOf f g r (p, a, c, q) = lev f g r n (p, a, c, q) := by
    simp only [dOf, lev]; omega
  obtain ⟨hdn, hdl⟩ := hd
  refine ⟨hdl, hdl ▸ hdn, ?_⟩
  generalize hdd : dOf f g r (p, a, c, q) = d at hdn hdl
  have hle : d ≤ varOf r n p ∧ d ≤ varOf f n a ∧ d ≤ varOf f n c ∧ d ≤ varOf g n q := by
    simp only [lev] at hdl; omega
  have sp := stepP_spec hr hp d hdn hle.1
  have sq := stepP_spec hg hq d hdn hle.2.2.2
  intro v
  have hkid : kid f g r (p, a, c, q) (v d) =
      (stepP r p d (v d), stepP f a d (v d), stepP f c d (v d), stepP g q d (v d)) := by
    simp only [kid, hdd]
  rw [hkid]
  have fstep : ∀ (k : Nat), k < f.size → d ≤ varOf f n k → (k < 2 ∨ (f[k]?.getD default).var ≠ x) →
      ∀ b, evW f n (upd v x b) k = evW f n (upd v x b) (stepP f k d (v d)) := by
    intro k hk hkl hkn b
    by_cases hdx : d = x
    · rw [stepP_id (v d) (hdx ▸ hkn)]
    · exact (stepP_spec hf hk d hdn hkl (v d)).2.2 _ (by simp [upd, hdx])
  have e1 := (sp (v d)).2.2 v rfl
  have e4 := (sq (v d)).2.2 v rfl
  have e2 := fstep a ha hle.2.1 na true
  have e3 := fstep c hc hle.2.2.1 nc false
  unfold Eat7
  simp only
  rw [e1, e4, e2, e3]

theorem term_not_E {f g r : Arr} (n x : Nat) {z : T}
    (h1 : z.1 < 2) (h2 : z.2.1 < 2) (h3 : z.2.2.1 < 2) (h4 : z.2.2.2 < 2)
    (he : z.1 ≠ if (z.2.2.2 == 1) = true then z.2.1 else z.2.2.1) (v : Nat → Bool) : ¬ Eat7 f g r n x z v := by
  obtain ⟨p, a, c, q⟩ := z
  simp only at h1 h2 h3 h4 he
  unfold Eat7
  simp only
  rw [evW_term r n v h1, evW_term g n v h4, evW_term f n _ h2, evW_term f n _ h3]
  have : q = 0 ∨ q = 1 := by omega
  rcases this with rfl | rfl
  · simp at he ⊢; omega
  · simp at he ⊢; omega

/-- **A rejecting `Drive.C07.compositionExact` is conclusive.** -/
theorem compositionExact_reject {f g r : Arr} {n : Nat} (x budget : Nat) (hf : WFo f n) (hg : WFo g n)
    (hr : WFo r n) (hn : n ≤ 1000000)
    (h : C07.compositionExact f g r x budget = some false) :
    ∃ v, evalArr r v ≠ evalArr f (upd v x (evalArr g v)) := by
  -- a violation at the roots, in terms of `evalArr`
  have hfinal : ∀ u, ¬ Eat7 f g r n x (root r, root f, root f, root g) u →
      ∃ v, evalArr r v ≠ evalArr f (upd v x (evalArr g v)) := by
    intro u hu
    refine ⟨u, ?_⟩
    have e1 : evalArr r u = evW r n u (root r) := by unfold evalArr evW; rw [numVars_of_wf hr]
    have e2 : evalArr g u = evW g n u (root g) := by unfold evalArr evW; rw [numVars_of_wf hg]
    have e3 : ∀ w, evalArr f w = evW f n w (root f) := by intro w; unfold evalArr evW; rw [numVars_of_wf hf]
    rw [e1, e2, e3]
    intro heq
    apply hu
    unfold Eat7
    simp only
    rw [heq]
    cases evW g n u (root g) <;> simp
  unfold C07.compositionExact at h
  dsimp only [Id.run, bind, pure] at h
  rw [Std.Legacy.Range.forIn_eq_forIn_range'] at h
  generalize hfin : forIn (m := Id) (List.range' _ _ _) _ _ = fin at h
  refine forIn_inv_eq hfin
    (fun s : St7 => s.1 = none ∧ ∀ t, t ∈ s.2.1 → InB7 f g r t ∧ Reach7 f g r n x t)
    (fun s : St7 => s.1 = some (some false) → ∃ v, evalArr r v ≠ evalArr f (upd v x (evalArr g v)))
    ?_ ?_ ?_ (by
      obtain ⟨o, st, se⟩ := fin
      cases o with
      | none =>
        simp only at h
        cases hemp : st.isEmpty <;> simp [hemp] at h
      | some y => simpa using h)
  · -- initially
    refine ⟨rfl, ?_⟩
    intro t ht
    have : t = (root r, root f, root f, root g) := by simpa using ht
    subst this
    exact ⟨⟨root_lt hr, root_lt hf, root_lt hf, root_lt hg⟩, fun _ => false, 0, Nat.zero_le _, fun v _ => Iff.rfl⟩
  · -- one iteration
    rintro _ ⟨o, stack, seen⟩ ⟨ho, hinv⟩
    simp only at ho hinv
    subst ho
    cases hback : stack.back? with
    | none => exact ⟨fun s' h' => (by cases h'; intro h; simp at h), fun s' h' => (by cases h')⟩
    | some t =>
      obtain ⟨p, a0, c0, q⟩ := t
      show (∀ s', wbody f g r x budget stack.pop seen (p, a0, c0, q) = ForInStep.done s' →
          s'.1 = some (some false) → ∃ v, evalArr r v ≠ evalArr f (upd v x (evalArr g v))) ∧
        (∀ s', wbody f g r x budget stack.pop seen (p, a0, c0, q) = ForInStep.yield s' →
          s'.1 = none ∧ ∀ t, t ∈ s'.2.1 → InB7 f g r t ∧ Reach7 f g r n x t)
      obtain ⟨st', hst⟩ := Array.back?_eq_some_iff.1 hback
      subst hst
      rw [Array.pop_push]
      generalize ht0 : ((p, a0, c0, q) : T) = t at *
      have hold : ∀ t', t' ∈ st' → InB7 f g r t' ∧ Reach7 f g r n x t' :=
        fun t' ht' => hinv t' (Array.mem_push.2 (Or.inl ht'))
      obtain ⟨ht, u, k, hk, hreach⟩ := hinv t (by simp)
      obtain ⟨zin, znrm, zlev, _⟩ := norm_spec (g := g) (r := r) x hf ht
      have zat := norm_at (g := g) (r := r) x hf ht
      unfold wbody
      generalize hz : norm f x t = z at *
      by_cases hseen : seen.contains z = true
      · rw [if_pos hseen]
        exact ⟨fun s' h' => (by cases h'), fun s' h' => (by cases h'; exact ⟨rfl, hold⟩)⟩
      · rw [if_neg hseen]
        by_cases hbud : (seen.insert z).size > budget
        · rw [if_pos hbud]
          exact ⟨fun s' h' => (by cases h'; intro h; simp at h), fun s' h' => (by cases h')⟩
        · rw [if_neg hbud]
          by_cases hterm : (decide (z.1 < 2) && decide (z.2.1 < 2) && decide (z.2.2.1 < 2) &&
              decide (z.2.2.2 < 2)) = true
          · rw [if_pos hterm]
            by_cases hne : (z.1 != (if (z.2.2.2 == 1) = true then z.2.1 else z.2.2.1)) = true
            · rw [if_pos hne]
              refine ⟨?_, fun s' h' => (by cases h')⟩
              intro s' h' _
              simp only [Bool.and_eq_true, decide_eq_true_eq] at hterm
              have hnot := term_not_E (f := f) (g := g) (r := r) n x hterm.1.1.1 hterm.1.1.2 hterm.1.2 hterm.2
                (by simpa using hne) u
              exact hfinal u (fun hroot => hnot ((zat u).2 ((hreach u (fun _ _ => rfl)).1 hroot)))
            · rw [if_neg hne]
              exact ⟨fun s' h' => (by cases h'), fun s' h' => (by cases h'; exact ⟨rfl, hold⟩)⟩
          · rw [if_neg hterm]
            refine ⟨fun s' h' => (by cases h'), ?_⟩
            intro s' h'
            cases h'
            have hnt : ¬ (z.1 < 2 ∧ z.2.1 < 2 ∧ z.2.2.1 < 2 ∧ z.2.2.2 < 2) := by
              simpa [Bool.and_eq_true, decide_eq_true_eq, and_assoc] using hterm
            obtain ⟨kin, _⟩ := kid_spec x hf hg hr hn zin znrm hnt
            obtain ⟨hdl, hdn, kat⟩ := kid_at x hf hg hr hn zin znrm hnt
            have hkid : ∀ β, InB7 f g r (kid f g r z β) ∧ Reach7 f g r n x (kid f g r z β) := by
              intro β
              refine ⟨(kin β).1, upd u (lev f g r n z) β, lev f g r n z + 1, ?_, ?_⟩
              · have := (kin β).2; simp only [mu7] at this; omega
              · intro v hv
                have hvd : v (dOf f g r z) = β := by
                  rw [hdl, hv _ (Nat.lt_succ_self _)]; simp [upd]
                have hvu : ∀ i, i < k → v i = u i := by
                  intro i hi
                  rw [hv i (by omega)]
                  have : i ≠ lev f g r n z := by omega
                  simp [upd, this]
                rw [hreach v hvu, ← zat v, kat v, hvd]
            refine ⟨rfl, ?_⟩
            intro t' ht'
            rcases Array.mem_push.1 ht' with ht' | rfl
            · rcases Array.mem_push.1 ht' with ht' | rfl
              · exact hold t' ht'
              · exact hkid false
            · exact hkid true
  · -- the range is exhausted: the answer is not `some false`
    rintro ⟨o, stack, seen⟩ ⟨ho, _⟩ hres
    simp only at ho hres
    rw [ho] at hres; cases hres

/-- with the driver's executable validity test -/
theorem compositionExact_reject_wfoB {f g r : Arr} {n : Nat} (x budget : Nat)
    (hf : wfoB f n = true) (hg : wfoB g n = true) (hr : wfoB r n = true) (hn : n ≤ 1000000)
    (h : C07.compositionExact f g r x budget = some false) :
    ∃ v, evalArr r v ≠ evalArr f (upd v x (evalArr g v)) :=
  compositionExact_reject x budget (wfoB_sound hf) (wfoB_sound hg) (wfoB_sound hr) hn h

end B.ExactWalk
