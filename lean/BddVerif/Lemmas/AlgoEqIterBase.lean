import BddVerif.Gen.Algo
import BddVerif.Model.Iter
/-!
Equivalence "translated Rust = hand-written model", common part for the iterators and `to_dnf`/`to_cnf`:

* the `Outcome` monad as used by the generated code (`Rust.monadOutcomeInline`): `bind`/`pure` computation rules;
* `loopI`: the explicit iteration of a step function, and `forIn_range'_eq_loopI`: every generated
  `for _ in [a:b] do …` is `loopI body a (b - a) init` (generic in the body — nothing of the generated text is copied);
* `OSim`: two outcomes agree up to a relation on the returned values and up to the panic *message*;
* the generated accessors (`Bdd_low_link_of`, …) in terms of `A[p]?`;
* representation of a Rust `Vec` used as a stack (`stkArr`: model list, head = top ↦ array, last = top) and of
  `BddPartialValuation` (`Array (Option Bool)` ↦ `.toList`).
-/
namespace B.AlgoEqIt
open B B.Gen B.Gen.Algo
attribute [local instance 10000] Rust.monadOutcomeInline

/-! ### the monad of the generated code -/

@[simp] theorem ok_bind {α β} (a : α) (f : α → Outcome β) : (Outcome.ok a >>= f) = f a := rfl
@[simp] theorem panic_bind {α β} (m : String) (f : α → Outcome β) : (Outcome.panic m >>= f) = .panic m := rfl
@[simp] theorem err_bind {α β} (m : String) (f : α → Outcome β) : (Outcome.err m >>= f) = .err m := rfl
@[simp] theorem pure_eq {α} (a : α) : (pure a : Outcome α) = .ok a := rfl
theorem bind_eq_match {α β} (x : Outcome α) (f : α → Outcome β) :
    (x >>= f) = match x with | .ok a => f a | .err m => .err m | .panic m => .panic m := by
  cases x <;> rfl
@[simp] theorem bind_ok_right {α} (x : Outcome α) : (x >>= fun a => Outcome.ok a) = x := by cases x <;> rfl
theorem bind_assoc {α β γ} (x : Outcome α) (f : α → Outcome β) (g : β → Outcome γ) :
    (x >>= f >>= g) = x >>= fun a => f a >>= g := by cases x <;> rfl

theorem bind_congr {α β} (x : Outcome α) (f g : α → Outcome β) (h : ∀ a, f a = g a) : (x >>= f) = (x >>= g) := by
  have : f = g := funext h
  rw [this]

/-! ### loops -/

/-- `count` iterations of `step` with the indices `a, a+1, …`; `done` leaves the loop -/
def loopI {σ : Type} (step : Nat → σ → Outcome (ForInStep σ)) : Nat → Nat → σ → Outcome σ
  | _, 0, s => .ok s
  | a, n + 1, s =>
    match step a s with
    | .ok (.done s') => .ok s'
    | .ok (.yield s') => loopI step (a + 1) n s'
    | .err m => .err m
    | .panic m => .panic m

theorem forIn_range'_eq_loopI {σ : Type} (body : Nat → σ → Outcome (ForInStep σ)) (n a : Nat) (s : σ) :
    forIn (List.range' a n) s body = loopI body a n s := by
  induction n generalizing a s with
  | zero => rfl
  | succ n ih =>
    rw [List.range'_succ, List.forIn_cons, loopI]
    cases h : body a s with
    | ok r => cases r with
      | done s' => rfl
      | yield s' => simp only [ok_bind]; exact ih (a + 1) s'
    | err m => rfl
    | panic m => rfl

/-- a generated `for x in [a:b]` loop -/
theorem forIn_range_eq_loopI {σ : Type} (body : Nat → σ → Outcome (ForInStep σ)) (a b : Nat) (s : σ) :
    forIn (Std.Legacy.Range.mk a b 1 (by decide)) s body = loopI body a (b - a) s := by
  rw [Std.Legacy.Range.forIn_eq_forIn_range', forIn_range'_eq_loopI]
  simp [Std.Legacy.Range.size]

theorem loopI_congr {σ : Type} (body body' : Nat → σ → Outcome (ForInStep σ)) (h : ∀ i s, body i s = body' i s)
    (a n : Nat) (s : σ) : loopI body a n s = loopI body' a n s := by
  have : body = body' := funext fun i => funext fun s => h i s
  rw [this]

theorem loopI_zero {σ : Type} (step : Nat → σ → Outcome (ForInStep σ)) (a : Nat) (s : σ) :
    loopI step a 0 s = .ok s := rfl

theorem loopI_succ {σ : Type} (step : Nat → σ → Outcome (ForInStep σ)) (a n : Nat) (s : σ) :
    loopI step a (n + 1) s =
      match step a s with
      | .ok (.done s') => .ok s'
      | .ok (.yield s') => loopI step (a + 1) n s'
      | .err m => .err m
      | .panic m => .panic m := rfl

/-- a loop whose body does not look at the index may start anywhere -/
theorem loopI_shift {σ : Type} (step : σ → Outcome (ForInStep σ)) (a b n : Nat) (s : σ) :
    loopI (fun _ s => step s) a n s = loopI (fun _ s => step s) b n s := by
  induction n generalizing a b s with
  | zero => rfl
  | succ n ih =>
    rw [loopI_succ, loopI_succ]
    cases step s with
    | ok r => cases r with
      | done s' => rfl
      | yield s' => exact ih _ _ _
    | err m => rfl
    | panic m => rfl

/-- a loop without `break`: the last iteration split off -/
theorem loopI_yield_snoc {σ : Type} (step : Nat → σ → Outcome σ) (a n : Nat) (s : σ) :
    loopI (fun i s => step i s >>= fun s' => .ok (.yield s')) a (n + 1) s =
      loopI (fun i s => step i s >>= fun s' => .ok (.yield s')) a n s >>= step (a + n) := by
  induction n generalizing a s with
  | zero =>
    rw [loopI_succ, loopI_zero, ok_bind]
    cases step a s <;> rfl
  | succ n ih =>
    rw [loopI_succ]
    conv => rhs; rw [loopI_succ]
    cases h : step a s with
    | ok s' =>
      simp only [ok_bind]
      rw [ih (a + 1) s']
      have : a + 1 + n = a + (n + 1) := by omega
      rw [this]
    | err m => rfl
    | panic m => rfl

/-! ### agreement of outcomes up to the panic message -/

/-- both `ok` with related values, or both `err`, or both `panic` (messages are not compared) -/
def OSim {α β : Type} (R : α → β → Prop) : Outcome α → Outcome β → Prop
  | .ok a, .ok b => R a b
  | .panic _, .panic _ => True
  | .err _, .err _ => True
  | _, _ => False

theorem OSim.ok_right {α β} {R : α → β → Prop} {x : Outcome α} {b : β} (h : OSim R x (.ok b)) :
    ∃ a, x = .ok a ∧ R a b := by
  cases x with
  | ok a => exact ⟨a, rfl, h⟩
  | err m => exact h.elim
  | panic m => exact h.elim

theorem OSim.ok_left {α β} {R : α → β → Prop} {a : α} {y : Outcome β} (h : OSim R (.ok a) y) :
    ∃ b, y = .ok b ∧ R a b := by
  cases y with
  | ok b => exact ⟨b, rfl, h⟩
  | err m => exact h.elim
  | panic m => exact h.elim

theorem OSim.panic_right {α β} {R : α → β → Prop} {x : Outcome α} {m : String} (h : OSim R x (.panic m)) :
    ∃ m', x = .panic m' := by
  cases x with
  | ok a => exact h.elim
  | err m => exact h.elim
  | panic m' => exact ⟨m', rfl⟩

theorem OSim.isPanic {α β} {R : α → β → Prop} {x : Outcome α} {y : Outcome β} (h : OSim R x y) :
    x.isPanic = y.isPanic := by
  cases x <;> cases y <;> first | rfl | exact h.elim

theorem OSim.mono {α β} {R R' : α → β → Prop} {x : Outcome α} {y : Outcome β} (h : OSim R x y)
    (hR : ∀ a b, R a b → R' a b) : OSim R' x y := by
  cases x <;> cases y <;> first | exact hR _ _ h | exact h

/-- functional form: `x` is `y` with the value mapped, up to the message -/
theorem OSim.eq_of_ok {α β} {f : β → α} {x : Outcome α} {y : Outcome β} {b : β}
    (h : OSim (fun a b => a = f b) x y) (hy : y = .ok b) : x = .ok (f b) := by
  subst hy
  obtain ⟨a, rfl, rfl⟩ := h.ok_right
  rfl

/-! ### the generated accessors -/

theorem idx_eq {α} (a : Array α) (i : Nat) :
    Rust.idx a i = match a[i]? with | some x => .ok x | none => .panic "index out of bounds" := by
  unfold Rust.idx
  by_cases h : i < a.size
  · simp [h]
  · simp [h]

theorem idx_of_lt {α} (a : Array α) (i : Nat) (h : i < a.size) : Rust.idx a i = .ok a[i] := by
  simp [Rust.idx, h]

theorem low_link_of_eq (A : Arr) (p : Nat) :
    Bdd_low_link_of A p = match A[p]? with | some nd => .ok nd.low | none => .panic "index out of bounds" := by
  unfold Bdd_low_link_of BddPointer_to_index
  rw [idx_eq]; cases A[p]? <;> rfl

theorem high_link_of_eq (A : Arr) (p : Nat) :
    Bdd_high_link_of A p = match A[p]? with | some nd => .ok nd.high | none => .panic "index out of bounds" := by
  unfold Bdd_high_link_of BddPointer_to_index
  rw [idx_eq]; cases A[p]? <;> rfl

theorem var_of_eq (A : Arr) (p : Nat) :
    Bdd_var_of A p = match A[p]? with | some nd => .ok nd.var | none => .panic "index out of bounds" := by
  unfold Bdd_var_of BddPointer_to_index
  rw [idx_eq]; cases A[p]? <;> rfl

theorem low_link_of_some (A : Arr) (p : Nat) (nd : Node) (h : A[p]? = some nd) : Bdd_low_link_of A p = .ok nd.low := by
  rw [low_link_of_eq, h]
theorem high_link_of_some (A : Arr) (p : Nat) (nd : Node) (h : A[p]? = some nd) : Bdd_high_link_of A p = .ok nd.high := by
  rw [high_link_of_eq, h]
theorem var_of_some (A : Arr) (p : Nat) (nd : Node) (h : A[p]? = some nd) : Bdd_var_of A p = .ok nd.var := by
  rw [var_of_eq, h]
theorem low_link_of_none (A : Arr) (p : Nat) (h : A[p]? = none) : Bdd_low_link_of A p = .panic "index out of bounds" := by
  rw [low_link_of_eq, h]
theorem high_link_of_none (A : Arr) (p : Nat) (h : A[p]? = none) : Bdd_high_link_of A p = .panic "index out of bounds" := by
  rw [high_link_of_eq, h]
theorem var_of_none (A : Arr) (p : Nat) (h : A[p]? = none) : Bdd_var_of A p = .panic "index out of bounds" := by
  rw [var_of_eq, h]

@[simp] theorem is_one_eq (p : Nat) : BddPointer_is_one p = decide (p = 1) := by
  unfold BddPointer_is_one; by_cases h : p = 1 <;> simp [h]
@[simp] theorem is_zero_eq (p : Nat) : BddPointer_is_zero p = decide (p = 0) := by
  unfold BddPointer_is_zero; by_cases h : p = 0 <;> simp [h]
@[simp] theorem is_terminal_eq (p : Nat) : BddPointer_is_terminal p = decide (p < 2) := rfl

/-- `root_pointer` truncates to `u32`: the arrays of the library have at most `2^32` nodes -/
theorem root_pointer_eq (A : Arr) (h1 : 1 ≤ A.size) (h32 : A.size ≤ 4294967296) :
    Bdd_root_pointer A = .ok (root A) := by
  unfold Bdd_root_pointer BddPointer_from_index Rust.sub Rust.asU32 root
  have : (A.size - 1) % 4294967296 = A.size - 1 := Nat.mod_eq_of_lt (by omega)
  simp [h1, this]

theorem root_pointer_empty (A : Arr) (h : A.size = 0) : ∃ m, Bdd_root_pointer A = .panic m := by
  unfold Bdd_root_pointer Rust.sub
  simp [h]

/-! ### stacks: model list (head = top) ↦ array (last = top) -/

def stkArr {α} (S : List α) : Array α := S.reverse.toArray

@[simp] theorem stkArr_nil {α} : stkArr ([] : List α) = #[] := rfl
theorem stkArr_back? {α} (S : List α) : (stkArr S).back? = S.head? := by
  unfold stkArr
  cases S with
  | nil => rfl
  | cons x S => simp [Array.back?]
theorem stkArr_push {α} (S : List α) (x : α) : (stkArr S).push x = stkArr (x :: S) := by
  unfold stkArr; simp
theorem stkArr_pop {α} (S : List α) : (stkArr S).pop = stkArr S.tail := by
  unfold stkArr
  cases S with
  | nil => simp
  | cons x S => simp
@[simp] theorem stkArr_size {α} (S : List α) : (stkArr S).size = S.length := by unfold stkArr; simp
theorem stkArr_isEmpty {α} (S : List α) : (stkArr S).isEmpty = S.isEmpty := by
  cases S <;> simp [stkArr]
theorem stkArr_toList {α} (S : List α) : (stkArr S).toList = S.reverse := by simp [stkArr]
theorem stkArr_of_toList {α} (a : Array α) : stkArr a.toList.reverse = a := by simp [stkArr]
theorem stkArr_getElem? {α} (S : List α) (i : Nat) : (stkArr S)[i]? = S.reverse[i]? := by simp [stkArr]
theorem stkArr_inj {α} {S T : List α} (h : stkArr S = stkArr T) : S = T := by
  have := congrArg Array.toList h
  simpa [stkArr] using this

/-! ### partial valuations: `Array (Option Bool)` ↦ `.toList` -/

theorem pvalSet_toList (p : Array (Option Bool)) (i : Nat) (x : Option Bool) :
    (Rust.pvalSet p i x).toList = Iter.pvSet p.toList i x := by
  unfold Rust.pvalSet Rust.pvalGrow Iter.pvSet Iter.pvCell
  by_cases h : p.size ≤ i
  · simp [h]
  · have : i + 1 - p.size = 0 := by omega
    simp [h, this]

theorem pvalSetValue_toList (p : Array (Option Bool)) (i : Nat) (b : Bool) :
    (Rust.pvalSetValue p i b).toList = Iter.pvSet p.toList i (some b) := pvalSet_toList p i (some b)

theorem pvalUnsetValue_toList (p : Array (Option Bool)) (i : Nat) :
    (Rust.pvalUnsetValue p i).toList = Iter.pvSet p.toList i none := pvalSet_toList p i none

theorem pvalSet_toArray (c : Iter.PV) (i : Nat) (x : Option Bool) :
    Rust.pvalSet c.toArray i x = (Iter.pvSet c i x).toArray := by
  apply Array.toList_inj.mp
  rw [pvalSet_toList]

theorem get_value_eq (c : Array (Option Bool)) (i : Nat) :
    BddPartialValuation_get_value c i = .ok (Iter.pvGet c.toList i) := by
  unfold BddPartialValuation_get_value Iter.pvGet
  by_cases h : i < c.size
  · simp [h, idx_of_lt]
  · simp [h]

theorem has_value_eq (c : Array (Option Bool)) (i : Nat) :
    BddPartialValuation_has_value c i = .ok (Iter.pvGet c.toList i).isSome := by
  unfold BddPartialValuation_has_value
  rw [get_value_eq]; rfl

end B.AlgoEqIt
