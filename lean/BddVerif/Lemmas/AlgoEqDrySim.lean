import BddVerif.Lemmas.AlgoEqDryBase
import BddVerif.Lemmas.DryFlag
/-!
`estimated_apply_complexity`: the explicit task stack of the Rust loop against the recursion of `Lim.dryRecLim`.

`dryStep` is one iteration of the loop written as a pure function of the loop state (the tuple of the `let mut`
variables of the generated code); `DryStepSpec` says that a loop body agrees with it whenever the task on top of
the stack consists of valid pointers. `dry_sim`: from a state whose stack is `rest.push (l, r)`, the loop needs
exactly `1 + 2·(number of newly expanded tasks)` iterations to pop `(l, r)` and everything it pushed, and then its
`is_not_empty` flag and `finished` set are those computed by the recursive model — or, if the model refuses
(`none`), the loop exits with `return None` after at most `2·N + 1` iterations.
-/
namespace B.AlgoDL
open B B.Gen B.Lim Std

/-- loop state of `estimated_apply_complexity`: (early-return slot, `is_not_empty`, `stack`, `finished`) -/
abbrev DS := Option (Option (Bool × Nat)) × Bool × Array (Nat × Nat) × HashSet (Nat × Nat)

/-- one iteration of the `while let Some(on_stack) = stack.pop()` loop (lines 436-497) -/
def dryStep (Γ : Ctx) (lim : Nat) (σ : DS) : ForInStep DS :=
  match σ.2.2.1.back? with
  | none => .done (none, σ.2.1, σ.2.2.1, σ.2.2.2)
  | some t =>
    match Γ.op (asBool t.1) (asBool t.2) with
    | some c => .yield (none, σ.2.1 || c, σ.2.2.1.pop, σ.2.2.2)
    | none =>
      if σ.2.2.2.contains t then .yield (none, σ.2.1, σ.2.2.1.pop, σ.2.2.2)
      else if (σ.2.2.2.insert t).size > lim then .done (some none, σ.2.1, σ.2.2.1.pop, σ.2.2.2.insert t)
      else
        let d := min (nodeAt Γ.L t.1).var (nodeAt Γ.R t.2).var
        let kl := kids Γ.L t.1 d Γ.fl
        let kr := kids Γ.R t.2 d Γ.fr
        if Γ.fo = some d then
          .yield (none, σ.2.1, (σ.2.2.1.pop.push (kl.2, kr.2)).push (kl.1, kr.1), σ.2.2.2.insert t)
        else
          .yield (none, σ.2.1, (σ.2.2.1.pop.push (kl.1, kr.1)).push (kl.2, kr.2), σ.2.2.2.insert t)

/-- a loop body that behaves like `dryStep` as long as the top of the stack is a pair of valid pointers -/
def DryStepSpec (Γ : Ctx) (lim : Nat) (step : DS → Outcome (ForInStep DS)) : Prop :=
  ∀ σ : DS, (∀ t, σ.2.2.1.back? = some t → t.1 < Γ.L.size ∧ t.2 < Γ.R.size) → step σ = .ok (dryStep Γ lim σ)

/-- the loop state that corresponds to model state `s` with stack `st` -/
def mkD (s : DSt) (st : Array (Nat × Nat)) : DS := (none, s.nonEmpty, st, s.visited)

/-- every recorded task is a pair of valid pointers -/
def InR (Γ : Ctx) (V : HashSet (Nat × Nat)) : Prop := ∀ p, V.contains p = true → p.1 < Γ.L.size ∧ p.2 < Γ.R.size

structure DOk (Γ : Ctx) : Prop where
  wfL : WFo Γ.L Γ.n
  wfR : WFo Γ.R Γ.n
  total : ∀ a b, (Γ.op (some a) (some b)).isSome = true

theorem inR_insert {Γ : Ctx} {V : HashSet (Nat × Nat)} (h : InR Γ V) (l r : Nat) (hl : l < Γ.L.size) (hr : r < Γ.R.size) :
    InR Γ (V.insert (l, r)) := by
  intro p hp
  rw [HashSet.contains_insert] at hp
  by_cases e : ((l, r) == p) = true
  · have : (l, r) = p := by simpa using e
    subst this; exact ⟨hl, hr⟩
  · simp only [e, Bool.false_or] at hp
    exact h p hp

theorem dryStep_push (Γ : Ctx) (lim : Nat) (s : DSt) (rest : Array (Nat × Nat)) (l r : Nat) :
    dryStep Γ lim (mkD s (rest.push (l, r))) =
      match Γ.op (asBool l) (asBool r) with
      | some c => .yield (mkD { s with nonEmpty := s.nonEmpty || c } rest)
      | none =>
        if s.visited.contains (l, r) then .yield (mkD s rest)
        else if (s.visited.insert (l, r)).size > lim then .done (some none, s.nonEmpty, rest, s.visited.insert (l, r))
        else
          let d := min (nodeAt Γ.L l).var (nodeAt Γ.R r).var
          let kl := kids Γ.L l d Γ.fl
          let kr := kids Γ.R r d Γ.fr
          if Γ.fo = some d then
            .yield (mkD { s with visited := s.visited.insert (l, r) } ((rest.push (kl.2, kr.2)).push (kl.1, kr.1)))
          else
            .yield (mkD { s with visited := s.visited.insert (l, r) } ((rest.push (kl.1, kr.1)).push (kl.2, kr.2))) := by
  simp only [dryStep, mkD, Array.back?_push, Array.pop_push]

/-- what the loop does while the model computes `res` from `s`: `c` counts the tasks initially on top of `st1` -/
def DRes (Γ : Ctx) (N : Nat) (step : DS → Outcome (ForInStep DS)) (res : Option DSt) (s : DSt)
    (st0 st1 : Array (Nat × Nat)) (c : Nat) : Prop :=
  match res with
  | some s' => InR Γ s'.visited ∧ ∃ k, k + 2 * s.visited.size = c + 2 * s'.visited.size ∧
      ∀ m, loopN step (m + k) (mkD s st0) = loopN step m (mkD s' st1)
  | none => ∃ k σ', σ'.1 = some none ∧ k + 2 * s.visited.size ≤ 2 * N + c ∧
      ∀ m, loopN step (m + k) (mkD s st0) = .ok σ'

def DSimAt (Γ : Ctx) (lim N : Nat) (step : DS → Outcome (ForInStep DS)) (f : Nat) : Prop :=
  ∀ l r (s : DSt) (rest : Array (Nat × Nat)), l < Γ.L.size → r < Γ.R.size → Γ.n < f + lvl Γ l r → InR Γ s.visited →
    DRes Γ N step (dryRecLim Γ lim f l r s) s (rest.push (l, r)) rest 1

/-- two tasks on top of the stack, `(a1, b1)` above `(a2, b2)` -/
theorem dry_two (Γ : Ctx) (lim N : Nat) (step : DS → Outcome (ForInStep DS)) (f : Nat) (ih : DSimAt Γ lim N step f)
    (a1 b1 a2 b2 : Nat) (s1 : DSt) (rest : Array (Nat × Nat))
    (ha1 : a1 < Γ.L.size) (hb1 : b1 < Γ.R.size) (hv1 : Γ.n < f + lvl Γ a1 b1)
    (ha2 : a2 < Γ.L.size) (hb2 : b2 < Γ.R.size) (hv2 : Γ.n < f + lvl Γ a2 b2) (hin : InR Γ s1.visited) :
    (dryRecLim Γ lim f a1 b1 s1 = none → DRes Γ N step none s1 ((rest.push (a2, b2)).push (a1, b1)) rest 2) ∧
    (∀ s2, dryRecLim Γ lim f a1 b1 s1 = some s2 →
      DRes Γ N step (dryRecLim Γ lim f a2 b2 s2) s1 ((rest.push (a2, b2)).push (a1, b1)) rest 2) := by
  have h1 := ih a1 b1 s1 (rest.push (a2, b2)) ha1 hb1 hv1 hin
  constructor
  · intro e1
    rw [e1] at h1
    obtain ⟨k, σ', hσ, hk, hrun⟩ := h1
    exact ⟨k, σ', hσ, by omega, hrun⟩
  · intro s2 e1
    rw [e1] at h1
    obtain ⟨hin2, k1, hk1, hrun1⟩ := h1
    have h2 := ih a2 b2 s2 rest ha2 hb2 hv2 hin2
    cases e2 : dryRecLim Γ lim f a2 b2 s2 with
    | none =>
      rw [e2] at h2
      obtain ⟨k2, σ', hσ, hk2, hrun2⟩ := h2
      refine ⟨k2 + k1, σ', hσ, by omega, fun m => ?_⟩
      rw [← Nat.add_assoc, hrun1, hrun2]
    | some s3 =>
      rw [e2] at h2
      obtain ⟨hin3, k2, hk2, hrun2⟩ := h2
      refine ⟨hin3, k2 + k1, by omega, fun m => ?_⟩
      rw [← Nat.add_assoc, hrun1, hrun2]

/-- the expanding iteration in front of the two children -/
theorem dres_lift (Γ : Ctx) (N : Nat) (step : DS → Outcome (ForInStep DS)) (res : Option DSt) (s s1 : DSt)
    (st0 st' rest : Array (Nat × Nat)) (hsz : s1.visited.size = s.visited.size + 1)
    (hs0 : step (mkD s st0) = .ok (.yield (mkD s1 st'))) (h : DRes Γ N step res s1 st' rest 2) :
    DRes Γ N step res s st0 rest 1 := by
  cases res with
  | none =>
    obtain ⟨k, σ', hσ, hk, hrun⟩ := h
    refine ⟨k + 1, σ', hσ, by omega, fun m => ?_⟩
    rw [← Nat.add_assoc, loopN_yield hs0, hrun]
  | some s' =>
    obtain ⟨hin', k, hk, hrun⟩ := h
    refine ⟨hin', k + 1, by omega, fun m => ?_⟩
    rw [← Nat.add_assoc, loopN_yield hs0, hrun]

theorem lvl_le {Γ : Ctx} (ok : DOk Γ) (l r : Nat) : lvl Γ l r ≤ Γ.n := by
  unfold lvl
  have := ok.wfL.varOf_le l
  omega

/-- a task whose terminal look-up fails is above the terminal level -/
theorem lvl_lt_of_none {Γ : Ctx} (ok : DOk Γ) (l r : Nat) (hl : l < Γ.L.size) (hr : r < Γ.R.size)
    (hop : Γ.op (asBool l) (asBool r) = none) : lvl Γ l r < Γ.n := by
  have h1 := ok.wfL.varOf_le l
  have h2 := ok.wfR.varOf_le r
  rcases Nat.lt_or_ge (lvl Γ l r) Γ.n with h | h
  · exact h
  · exfalso
    unfold lvl at h
    have hl2 := ok.wfL.terminal_of_varOf l hl (by omega)
    have hr2 := ok.wfR.terminal_of_varOf r hr (by omega)
    obtain ⟨x, hx, _⟩ := asBool_terminal l hl2
    obtain ⟨y, hy, _⟩ := asBool_terminal r hr2
    have := ok.total x y
    rw [hx, hy] at hop
    rw [hop] at this
    simp at this

theorem dry_sim (Γ : Ctx) (ok : DOk Γ) (lim N : Nat) (hN : ∀ V, InR Γ V → V.size ≤ N)
    (step : DS → Outcome (ForInStep DS)) (hstep : DryStepSpec Γ lim step) : ∀ f, DSimAt Γ lim N step f := by
  intro f
  induction f with
  | zero =>
    intro l r s rest hl hr hlev _
    have := lvl_le ok l r
    omega
  | succ f ih =>
    intro l r s rest hl hr hlev hin
    have hs0 := hstep (mkD s (rest.push (l, r))) (by
      intro t ht
      simp only [mkD, Array.back?_push, Option.some.injEq] at ht
      subst ht; exact ⟨hl, hr⟩)
    rw [dryStep_push] at hs0
    show DRes Γ N step (dryVisitLim Γ lim (dryRecLim Γ lim f) l r s) s _ rest 1
    unfold dryVisitLim
    cases hop : Γ.op (asBool l) (asBool r) with
    | some c =>
      simp only [hop] at hs0 ⊢
      exact ⟨hin, 1, by simp, fun m => loopN_yield hs0 m⟩
    | none =>
      simp only [hop] at hs0 ⊢
      have hlt := lvl_lt_of_none ok l r hl hr hop
      cases hc : s.visited.contains (l, r) with
      | true =>
        simp only [hc, if_true] at hs0 ⊢
        exact ⟨hin, 1, by simp, fun m => loopN_yield hs0 m⟩
      | false =>
        simp only [hc, Bool.false_eq_true, if_false] at hs0 ⊢
        have hin1 : InR Γ (s.visited.insert (l, r)) := inR_insert hin l r hl hr
        have hsz : (s.visited.insert (l, r)).size = s.visited.size + 1 := by
          simp [HashSet.size_insert, HashSet.mem_iff_contains, hc]
        by_cases hlim : (s.visited.insert (l, r)).size > lim
        · simp only [hlim, if_true] at hs0 ⊢
          have := hN _ hin1
          exact ⟨1, _, rfl, by omega, fun m => loopN_done hs0 m⟩
        · simp only [hlim, if_false] at hs0 ⊢
          have hdl : (nodeAt Γ.L l).var = varOf Γ.L Γ.n l := nodeAt_var ok.wfL l hl
          have hdr : (nodeAt Γ.R r).var = varOf Γ.R Γ.n r := nodeAt_var ok.wfR r hr
          have hd : min (nodeAt Γ.L l).var (nodeAt Γ.R r).var = lvl Γ l r := by rw [hdl, hdr]; rfl
          rw [hd] at hs0 ⊢
          obtain ⟨kl1, kl2, kl3, kl4⟩ := kids_spec ok.wfL l hl (lvl Γ l r) (by unfold lvl; omega) hlt Γ.fl
          obtain ⟨kr1, kr2, kr3, kr4⟩ := kids_spec ok.wfR r hr (lvl Γ l r) (by unfold lvl; omega) hlt Γ.fr
          generalize kids Γ.L l (lvl Γ l r) Γ.fl = kl at *
          generalize kids Γ.R r (lvl Γ l r) Γ.fr = kr at *
          have hv1 : Γ.n < f + lvl Γ kl.1 kr.1 := by unfold lvl at *; omega
          have hv2 : Γ.n < f + lvl Γ kl.2 kr.2 := by unfold lvl at *; omega
          by_cases hfo : Γ.fo = some (lvl Γ l r)
          · simp only [hfo, if_true] at hs0 ⊢
            obtain ⟨hA, hB⟩ := dry_two Γ lim N step f ih kl.1 kr.1 kl.2 kr.2
              { s with visited := s.visited.insert (l, r) } rest kl1 kr1 hv1 kl2 kr2 hv2 hin1
            cases e1 : dryRecLim Γ lim f kl.1 kr.1 { s with visited := s.visited.insert (l, r) } with
            | none => exact dres_lift Γ N step _ s _ _ _ rest hsz hs0 (hA e1)
            | some s2 => exact dres_lift Γ N step _ s _ _ _ rest hsz hs0 (hB s2 e1)
          · simp only [hfo, if_false] at hs0 ⊢
            obtain ⟨hA, hB⟩ := dry_two Γ lim N step f ih kl.2 kr.2 kl.1 kr.1
              { s with visited := s.visited.insert (l, r) } rest kl2 kr2 hv2 kl1 kr1 hv1 hin1
            cases e1 : dryRecLim Γ lim f kl.2 kr.2 { s with visited := s.visited.insert (l, r) } with
            | none => exact dres_lift Γ N step _ s _ _ _ rest hsz hs0 (hA e1)
            | some s2 => exact dres_lift Γ N step _ s _ _ _ rest hsz hs0 (hB s2 e1)

/-! ### the model does not depend on the capacity of the initial hash set -/

def DEq (s t : DSt) : Prop := s.visited.Equiv t.visited ∧ s.nonEmpty = t.nonEmpty

def DEqO : Option DSt → Option DSt → Prop
  | some s, some t => DEq s t
  | none, none => True
  | _, _ => False

theorem dryRecLim_congr (Γ : Ctx) (lim : Nat) : ∀ f l r s t, DEq s t →
    DEqO (dryRecLim Γ lim f l r s) (dryRecLim Γ lim f l r t) := by
  intro f
  induction f with
  | zero => intro l r s t h; exact h
  | succ f ih =>
    intro l r s t h
    show DEqO (dryVisitLim Γ lim (dryRecLim Γ lim f) l r s) (dryVisitLim Γ lim (dryRecLim Γ lim f) l r t)
    unfold dryVisitLim
    cases hop : Γ.op (asBool l) (asBool r) with
    | some c => exact ⟨h.1, by simp [h.2]⟩
    | none =>
      simp only []
      rw [← h.1.contains_eq (k := (l, r))]
      cases hc : s.visited.contains (l, r) with
      | true => simp only [if_true]; exact h
      | false =>
        simp only [Bool.false_eq_true, if_false]
        have hi : (s.visited.insert (l, r)).Equiv (t.visited.insert (l, r)) := h.1.insert (l, r)
        rw [← hi.size_eq]
        by_cases hlim : (s.visited.insert (l, r)).size > lim
        · simp only [hlim, if_true]; trivial
        · simp only [hlim, if_false]
          have h1 : DEq { s with visited := s.visited.insert (l, r) } { t with visited := t.visited.insert (l, r) } :=
            ⟨hi, h.2⟩
          split
          · have q1 := ih (kids Γ.L l (min (nodeAt Γ.L l).var (nodeAt Γ.R r).var) Γ.fl).1
              (kids Γ.R r (min (nodeAt Γ.L l).var (nodeAt Γ.R r).var) Γ.fr).1 _ _ h1
            revert q1
            cases dryRecLim Γ lim f _ _ { s with visited := s.visited.insert (l, r) } <;>
              cases dryRecLim Γ lim f _ _ { t with visited := t.visited.insert (l, r) } <;> intro q1
            · trivial
            · exact q1.elim
            · exact q1.elim
            · exact ih _ _ _ _ q1
          · have q1 := ih (kids Γ.L l (min (nodeAt Γ.L l).var (nodeAt Γ.R r).var) Γ.fl).2
              (kids Γ.R r (min (nodeAt Γ.L l).var (nodeAt Γ.R r).var) Γ.fr).2 _ _ h1
            revert q1
            cases dryRecLim Γ lim f _ _ { s with visited := s.visited.insert (l, r) } <;>
              cases dryRecLim Γ lim f _ _ { t with visited := t.visited.insert (l, r) } <;> intro q1
            · trivial
            · exact q1.elim
            · exact q1.elim
            · exact ih _ _ _ _ q1

theorem empty_equiv (a b : Nat) :
    (HashSet.emptyWithCapacity a : HashSet (Nat × Nat)).Equiv (HashSet.emptyWithCapacity b) :=
  HashSet.Equiv.of_forall_contains_eq (fun k => by simp)

end B.AlgoDL
