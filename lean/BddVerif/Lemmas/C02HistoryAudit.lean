import BddVerif.Lemmas.C02History
/-! Axiom audit of the C02 history development (allowed: `propext`, `Classical.choice`, `Quot.sound`). -/
#print axioms B.C02H.built_canonical
#print axioms B.C02H.built_unique
#print axioms B.C02H.built_same_observables
#print axioms B.C02H.built_isCanon
#print axioms B.C02H.kept_canonical
#print axioms B.C02H.canonical_of_sameLinks
#print axioms B.C02H.canonical_postOrder
#print axioms B.C02H.canonical_of_postOrder_fuel
#print axioms B.C02H.substitute_canonical
#print axioms B.C02H.den_not
#print axioms B.C02H.den_binary
