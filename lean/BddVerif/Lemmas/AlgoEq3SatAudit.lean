import BddVerif.Lemmas.AlgoEq3SatDriver
/-! Axiom audit of the theorems "translated `sat_valuations` iterator (`Gen/Algo3.lean`) = hand model (`Model/Iter.lean`)". -/
open B.AlgoEq3Sat

#print axioms satBack_satOf
#print axioms cv_next_eq_model
#print axioms cv_new_eq_model
#print axioms sat_next_eq_model
#print axioms Bdd_sat_valuations_eq_model
#print axioms Bdd_sat_clauses_eq_model
#print axioms ValuationsOfClauseIterator_empty_eq_model
#print axioms ValuationsOfClauseIterator_empty_next
#print axioms clauseOf_length
#print axioms sat_next_step
#print axioms satInv_init
#print axioms sat_iter_translated
#print axioms sat_clauses_translated
#print axioms sat_next_exhausted
#print axioms sat_iter_translated_false
#print axioms genSatVals_eq_collect
#print axioms sat_iter_translated_driver
#print axioms Bdd_sat_valuations_driver
#print axioms BddSatisfyingValuations_next_driver
#print axioms Bdd_sat_clauses_driver
#print axioms sat_iter_translated_false_driver
