import BddVerif.Model.Dot
/-!
Statement-level round trip of the `.dot` text: `parseLine (renderStmt s) = some s` for every statement whose
label contains no double quote. Decimal numbers: `parseNat (digits n) = n`.
-/
namespace B.Dot

/-! ### decimal digits -/

theorem digitChar_isDigit : ∀ d, d < 10 → (digitChar d).isDigit = true := by decide
theorem digitChar_val : ∀ d, d < 10 → (digitChar d).toNat - 48 = d := by decide

theorem digits_lt (n : Nat) (h : n < 10) : digits n = [digitChar n] := by
  rw [digits]; simp [h]

theorem digits_ge (n : Nat) (h : ¬ n < 10) : digits n = digits (n / 10) ++ [digitChar (n % 10)] := by
  rw [digits]; simp [h]

theorem digits_zero : digits 0 = ['0'] := by rw [digits_lt 0 (by omega)]; rfl
theorem digits_one : digits 1 = ['1'] := by rw [digits_lt 1 (by omega)]; rfl

theorem digits_all (n : Nat) : ∀ c ∈ digits n, c.isDigit = true := by
  induction n using Nat.strongRecOn with
  | _ n ih =>
    by_cases h : n < 10
    · rw [digits_lt n h]; intro c hc; simp at hc; subst hc; exact digitChar_isDigit n h
    · rw [digits_ge n h]
      intro c hc
      rcases List.mem_append.1 hc with hc | hc
      · exact ih (n / 10) (by omega) c hc
      · simp at hc; subst hc; exact digitChar_isDigit _ (by omega)

theorem digits_ne_nil (n : Nat) : digits n ≠ [] := by
  by_cases h : n < 10
  · rw [digits_lt n h]; simp
  · rw [digits_ge n h]; simp

theorem parseNat_snoc (l : List Char) (c : Char) : parseNat (l ++ [c]) = 10 * parseNat l + (c.toNat - 48) := by
  simp [parseNat, List.foldl_append]

theorem parseNat_digits (n : Nat) : parseNat (digits n) = n := by
  induction n using Nat.strongRecOn with
  | _ n ih =>
    by_cases h : n < 10
    · rw [digits_lt n h]
      have := digitChar_val n h
      simp [parseNat, this]
    · rw [digits_ge n h, parseNat_snoc, ih (n / 10) (by omega), digitChar_val _ (by omega)]
      omega

/-- a run of digits followed by something that does not start with a digit is split exactly there -/
theorem takeWhile_digits (n : Nat) (r : List Char) (hr : ∀ c t, r = c :: t → c.isDigit = false) :
    (digits n ++ r).takeWhile Char.isDigit = digits n ∧ (digits n ++ r).dropWhile Char.isDigit = r := by
  rw [List.takeWhile_append_of_pos (digits_all n), List.dropWhile_append_of_pos (digits_all n)]
  cases r with
  | nil => simp
  | cons c t =>
    have := hr c t rfl
    simp [this]

theorem stripPrefix_append : ∀ (p r : List Char), stripPrefix p (p ++ r) = some r
  | [], r => by simp [stripPrefix]
  | c :: p, r => by simp [stripPrefix, stripPrefix_append p r]

theorem parseLine_digits (n : Nat) (r : List Char) :
    parseLine (digits n ++ r) = parseDigitLed (digits n ++ r) := by
  obtain ⟨c, t, hc⟩ := List.exists_cons_of_ne_nil (digits_ne_nil n)
  have hd : c.isDigit = true := digits_all n c (by rw [hc]; simp)
  rw [hc]
  simp [parseLine, hd]

/-! ### the round trip -/

/-- labels that survive the round trip: no double quote -/
def SafeLabel (l : String) : Prop := '"' ∉ l.toList

def SafeStmt : Stmt → Prop
  | .vertex _ l => SafeLabel l
  | _ => True

theorem parse_edge (p q : Nat) (s : Style) : parseLine (renderStmt (.edge p q s)) = some (.edge p q s) := by
  simp only [renderStmt]
  rw [parseLine_digits]
  have h1 := takeWhile_digits p (tArrow ++ (digits q ++ styleText s)) (by
    intro c t h; simp [tArrow] at h; rw [← h.1]; decide)
  have h2 := takeWhile_digits q (styleText s) (by
    intro c t h; cases s <;> simp [styleText, tFilled, tDotted] at h <;> (rw [← h.1]; decide))
  simp only [parseDigitLed, h1.1, h1.2, stripPrefix_append, h2.1, h2.2, parseNat_digits]
  have hne := digits_ne_nil q
  cases s
  · simp [styleText, hne]
  · have : tDotted ≠ tFilled := by decide
    simp [styleText, hne, this]

theorem parse_vertex (p : Nat) (l : String) (hl : SafeLabel l) :
    parseLine (renderStmt (.vertex p l)) = some (.vertex p l) := by
  simp only [renderStmt]
  rw [parseLine_digits]
  have h1 := takeWhile_digits p (tLabelA ++ (l.toList ++ tLabelB)) (by
    intro c t h; simp [tLabelA] at h; rw [← h.1]; decide)
  have hall : ∀ a ∈ l.toList, (a != '"') = true := by
    intro a ha
    simp only [bne_iff_ne, ne_eq]
    intro e; subst e; exact hl ha
  have ht : (l.toList ++ tLabelB).takeWhile (fun c => c != '"') = l.toList := by
    rw [List.takeWhile_append_of_pos hall]; simp [tLabelB]
  have hd : (l.toList ++ tLabelB).dropWhile (fun c => c != '"') = tLabelB := by
    rw [List.dropWhile_append_of_pos hall]; simp [tLabelB]
  have hno : stripPrefix tArrow (tLabelA ++ (l.toList ++ tLabelB)) = none := by
    simp [stripPrefix, tArrow, tLabelA]
  simp only [parseDigitLed, h1.1, h1.2, hno, stripPrefix_append, ht, hd, parseNat_digits, if_true,
    String.ofList_toList]

theorem parse_terminal (b : Bool) : parseLine (renderStmt (.terminal b)) = some (.terminal b) := by
  simp only [renderStmt]
  rw [parseLine_digits]
  have h1 := takeWhile_digits (boolNat b) (tTermA ++ (digits (boolNat b) ++ tTermB)) (by
    intro c t h; simp [tTermA] at h; rw [← h.1]; decide)
  have h2 := takeWhile_digits (boolNat b) tTermB (by
    intro c t h; simp [tTermB] at h; rw [← h.1]; decide)
  have hno1 : stripPrefix tArrow (tTermA ++ (digits (boolNat b) ++ tTermB)) = none := by
    simp [stripPrefix, tArrow, tTermA]
  have hno2 : stripPrefix tLabelA (tTermA ++ (digits (boolNat b) ++ tTermB)) = none := by
    simp [stripPrefix, tLabelA, tTermA]
  simp only [parseDigitLed, h1.1, h1.2, hno1, hno2, stripPrefix_append, h2.1, h2.2, and_self, if_true]
  cases b
  · simp [boolNat, digits_zero]
  · simp [boolNat, digits_one]

theorem parse_initEdge (p : Nat) : parseLine (renderStmt (.initEdge p)) = some (.initEdge p) := by
  simp only [renderStmt]
  have h1 := takeWhile_digits p [';'] (by intro c t h; simp at h; rw [← h.1]; decide)
  have hk : parseLine (tInitEdge ++ (digits p ++ [';'])) = parseKeyword (tInitEdge ++ (digits p ++ [';'])) := by
    simp [parseLine, tInitEdge]
  rw [hk]
  have n1 : tInitEdge ++ (digits p ++ [';']) ≠ tHeader := by simp [tInitEdge, tHeader]
  have n2 : tInitEdge ++ (digits p ++ [';']) ≠ tFooter := by simp [tInitEdge, tFooter]
  have n3 : tInitEdge ++ (digits p ++ [';']) ≠ tInitNode := by simp [tInitEdge, tInitNode]
  simp only [parseKeyword, n1, n2, n3, if_false, stripPrefix_append, h1.1, h1.2, parseNat_digits]
  simp [digits_ne_nil p]

/-- `parse_render` at the statement level -/
theorem parse_render_stmt (s : Stmt) (hs : SafeStmt s) : parseLine (renderStmt s) = some s := by
  cases s with
  | header => decide
  | initNode => decide
  | footer => decide
  | initEdge p => exact parse_initEdge p
  | terminal b => exact parse_terminal b
  | vertex p l => exact parse_vertex p l hs
  | edge p q st => exact parse_edge p q st

end B.Dot
