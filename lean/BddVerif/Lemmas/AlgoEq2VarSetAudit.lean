import BddVerif.Lemmas.AlgoEq2VarSetDriver
/-! Axiom audit of the `AlgoEq2VarSet*` family (translated `BddVariableSet` constructors, clauses, `Bdd::from`,
    threshold constructors = hand models). Expected: propext, Classical.choice, Quot.sound only. -/
open B.AlgoEq2VS
#print axioms new_anonymous_ok
#print axioms new_anonymous_panic
#print axioms new_anonymous_eq_model
#print axioms new_anonymous_faithful
#print axioms var_by_name_eq
#print axioms name_of_rel
#print axioms mk_true_eq
#print axioms mk_false_eq
#print axioms mk_var_eq
#print axioms mk_not_var_eq
#print axioms mk_literal_eq
#print axioms mk_var_by_name_rel
#print axioms mk_not_var_by_name_rel
#print axioms mk_literal_translated_spec
#print axioms mk_conjunctive_clause_rel
#print axioms mk_conjunctive_clause_rel_vs
#print axioms mk_disjunctive_clause_rel
#print axioms Bdd_from_eq_model
#print axioms Bdd_from_spec
#print axioms mk_sat_exactly_k_eq_model
#print axioms mk_sat_up_to_k_eq_model
#print axioms mk_sat_k_panics
#print axioms mk_sat_exactly_k_canon
#print axioms mk_sat_up_to_k_canon
#print axioms mk_sat_exactly_k_eq_model_driver
#print axioms mk_sat_up_to_k_eq_model_driver
#print axioms mk_clause_rel_driver
#print axioms ex_exactly_ok
#print axioms mk_sat_exactly_k_eq_model_small
#print axioms mk_sat_up_to_k_eq_model_small
#print axioms mk_sat_k_eq_model_driver_small
