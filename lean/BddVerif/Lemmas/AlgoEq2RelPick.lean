import BddVerif.Lemmas.AlgoEq2RelBool
/-!
Equivalence "translated Rust = hand-written model", second generated file (`Gen/Algo2.lean`), part 3:
`sorted`, `Bdd::var_pick`, `Bdd::var_pick_random`, `Bdd::pick` (+ its inner `r_pick`), `Bdd::pick_random` (+ `r_pick`)
(src/_impl_bdd/_impl_relation_ops.rs:77-137, 172-176) versus `B.sortedVars`, `B.varPick`, `B.varPickRandom`, `B.pick`,
`B.pickRandom` (Model/Relation.lean).

Fuel plumbing. A wrapper hands its fuel to the engine. The recursive `r_pick` is translated as structural recursion on
the fuel: level `k` of the recursion receives `fuel - k`, consumes one unit, and passes `fuel - k - 1` to `var_exists`,
to the recursive call, to `var_pick` (which passes it to `var_select` and `fused_binary_flip_op`) and to `and`.
The operands of those calls are INTERMEDIATE results (canonical arrays of projections / picks of the operand); their
sizes have no realistic closed-form bound in `|A|` (each `var_exists` can square the size), so the theorems for
`pick` / `pick_random` take a uniform bound `S` on all arrays that occur (`PickBound S A coins`, a decidable condition on
the hand model's own run) and ask for `3·S² + (number of distinct variables) + 1 ≤ fuel` and `S² + 2 ≤ 2^32`.
`var_pick` / `var_pick_random` have closed-form bounds (`3·|A|·(3·|A|+2) ≤ fuel`).
-/
namespace B.AlgoEq2Rel
open B B.Gen Std
attribute [local instance 10000] Rust.monadOutcomeInline

/-! ### `sorted`: `variables.sort(); variables.dedup()` -/

/-- a fold that appends `x` unless it repeats the last element is `dedupAdj` (stated for an abstract step function so
    that the `match` of the shim is not re-quoted) -/
theorem dedup_fold (f : Array Nat → Nat → Array Nat) (hf1 : ∀ (pre : Array Nat) (y : Nat), f (pre.push y) y = pre.push y)
    (hf2 : ∀ (pre : Array Nat) (y a : Nat), a ≠ y → f (pre.push y) a = (pre.push y).push a) (l : List Nat) :
    ∀ (pre : Array Nat) (y : Nat), (l.foldl f (pre.push y)).toList = pre.toList ++ dedupAdj (y :: l) := by
  induction l with
  | nil => intro pre y; simp [dedupAdj]
  | cons a t ih =>
    intro pre y
    rw [List.foldl_cons]
    by_cases h : a = y
    · subst h
      rw [hf1, ih]
      simp only [dedupAdj, if_true]
    · have h' : ¬ y = a := fun e => h e.symm
      rw [hf2 pre y a h, ih]
      simp only [dedupAdj, h', if_false, Array.toList_push, List.append_assoc, List.singleton_append]

theorem dedup_fold' (f : Array Nat → Nat → Array Nat) (h0 : ∀ x, f #[] x = #[x])
    (hf1 : ∀ (pre : Array Nat) (y : Nat), f (pre.push y) y = pre.push y)
    (hf2 : ∀ (pre : Array Nat) (y a : Nat), a ≠ y → f (pre.push y) a = (pre.push y).push a) :
    ∀ l : List Nat, (l.foldl f #[]).toList = dedupAdj l
  | [] => rfl
  | x :: t => by
    rw [List.foldl_cons, h0]
    exact dedup_fold f hf1 hf2 t #[] x

theorem dedup_toList (a : Array Nat) : (Rust.dedup a).toList = dedupAdj a.toList := by
  unfold Rust.dedup
  rw [← Array.foldl_toList]
  refine dedup_fold' _ (fun x => rfl) ?_ ?_ _
  · intro pre y; simp
  · intro pre y a h; simp [h]

/-- **`sorted` as translated = `B.sortedVars`** -/
theorem sorted_eq_model (vars : Array Nat) : Algo2.sorted vars = (sortedVars vars.toList).toArray := by
  apply Array.toList_inj.mp
  unfold Algo2.sorted
  simp only []
  rw [dedup_toList]
  rfl

/-! ### size of an `apply_with_flip` result -/

/-- at most one new node per pair of operand nodes -/
theorem applyWithFlip_size_le (L R : Arr) (n : Nat) (op : Op2) (c : Bool → Bool → Bool) (fl fr fo : Option Nat)
    (hL : WFo L n) (hR : WFo R n) (hc : Consistent op c) :
    (applyWithFlip L R op fl fr fo).size ≤ L.size * R.size + 2 := by
  have htot : ∀ x y, op (some x) (some y) ≠ none := by
    intro x y; rw [hc.total]; exact fun h => by cases h
  have ok : AlgoEqA.COk ⟨L, R, n, op, fl, fr, fo⟩ := ⟨hL, hR, htot⟩
  have h := AlgoEqA.res_size_le _ ok
  obtain ⟨E, _⟩ := AlgoEqA.applyRec_eqSt ⟨L, R, n, op, fl, fr, fo⟩ (n + 2) (root L) (root R) _ _
    (AlgoEqA.st0_eqSt L R n)
  simp only [] at h
  rw [E.res] at h
  unfold applyWithFlip
  simp only [numVars_of_wf hL]
  split
  · exact h
  · show 1 ≤ _; omega

theorem varSelect_size_le (A : Arr) (n x : Nat) (b : Bool) (hA : WFo A n) (hx : x < n) :
    (varSelect A x b).size ≤ A.size * 3 + 2 := by
  obtain ⟨hw, _⟩ := Rel.mkLiteral_spec n x b hx
  have := applyWithFlip_size_le A (mkLiteral n x b) n Gen.and_ _ none none none hA hw Rel.and_consistent
  rw [mkLiteral_size] at this
  unfold varSelect bddAnd
  rw [numVars_of_wf hA]
  exact this

/-! ### `var_pick`, `var_pick_random` -/

/-- general form: bounds in `|A|` and in the size of the intermediate `var_select` result -/
theorem Bdd_var_pick_random_eq_model' (A : Arr) (n x : Nat) (rng : List Bool) (hA : WFo A n) (hx : x < n)
    (hsz1 : A.size * 3 + 2 ≤ 2 ^ 32) (hsz2 : A.size * (varSelect A x (drawCoin rng).1).size + 2 ≤ 2 ^ 32)
    (fuel : Nat) (hf1 : 3 * (A.size * 3) ≤ fuel) (hf2 : 3 * (A.size * (varSelect A x (drawCoin rng).1).size) ≤ fuel) :
    Algo2.Bdd_var_pick_random fuel A x rng =
      .ok (varPickRandom A x (drawCoin rng).1, (drawCoin rng).2) := by
  have hS := Rel.varSelect_isCanon hA x (drawCoin rng).1 hx
  unfold Algo2.Bdd_var_pick_random Algo.Bdd_fused_binary_flip_op
  simp only []
  rw [show (Rust.genBool rng).1 = (drawCoin rng).1 from rfl, show (Rust.genBool rng).2 = (drawCoin rng).2 from rfl,
    Bdd_var_select_eq_model A n x _ hA hx hsz1 fuel hf1]
  simp only [AlgoEqA.bind_ok]
  rw [apply_with_flip_eq_model A _ n _ _ none (some x) none hA hS.wfo Rel.and_not_consistent (by simp)
    (by intro y h; cases h; exact hx) (by simp) hsz2 fuel hf2]
  rfl

theorem Bdd_var_pick_eq_model' (A : Arr) (n x : Nat) (hA : WFo A n) (hx : x < n)
    (hsz1 : A.size * 3 + 2 ≤ 2 ^ 32) (hsz2 : A.size * (varSelect A x false).size + 2 ≤ 2 ^ 32)
    (fuel : Nat) (hf1 : 3 * (A.size * 3) ≤ fuel) (hf2 : 3 * (A.size * (varSelect A x false).size) ≤ fuel) :
    Algo2.Bdd_var_pick fuel A x = .ok (varPick A x) := by
  have hS := Rel.varSelect_isCanon hA x false hx
  unfold Algo2.Bdd_var_pick Algo.Bdd_fused_binary_flip_op
  rw [Bdd_var_select_eq_model A n x _ hA hx hsz1 fuel hf1]
  simp only [AlgoEqA.bind_ok]
  rw [apply_with_flip_eq_model A _ n _ _ none (some x) none hA hS.wfo Rel.and_not_consistent (by simp)
    (by intro y h; cases h; exact hx) (by simp) hsz2 fuel hf2]
  rfl

theorem varpick_arith (a v : Nat) (ha : 1 ≤ a) (hv : v ≤ a * 3 + 2) :
    a * 3 ≤ a * (3 * a + 2) ∧ a * v ≤ a * (3 * a + 2) := by
  constructor
  · exact Nat.mul_le_mul_left _ (by omega)
  · exact Nat.mul_le_mul_left _ (by omega)

/-- **`Bdd::var_pick` as translated = `B.varPick`**, closed-form bounds: the `var_select` result has at most `3·|A| + 2`
    nodes, so `3·|A|·(3·|A|+2) ≤ fuel` and `|A|·(3·|A|+2) + 2 ≤ 2^32` suffice -/
theorem Bdd_var_pick_eq_model (A : Arr) (n x : Nat) (hA : WFo A n) (hx : x < n)
    (hsz : A.size * (3 * A.size + 2) + 2 ≤ 2 ^ 32) (fuel : Nat) (hfuel : 3 * (A.size * (3 * A.size + 2)) ≤ fuel) :
    Algo2.Bdd_var_pick fuel A x = .ok (varPick A x) := by
  obtain ⟨h1, h2⟩ := varpick_arith A.size _ hA.size_pos (varSelect_size_le A n x false hA hx)
  exact Bdd_var_pick_eq_model' A n x hA hx (by omega) (by omega) fuel (by omega) (by omega)

/-- **`Bdd::var_pick_random` as translated = `B.varPickRandom`** with the first coin of the generator; the rest of
    the coin list is handed back -/
theorem Bdd_var_pick_random_eq_model (A : Arr) (n x : Nat) (rng : List Bool) (hA : WFo A n) (hx : x < n)
    (hsz : A.size * (3 * A.size + 2) + 2 ≤ 2 ^ 32) (fuel : Nat) (hfuel : 3 * (A.size * (3 * A.size + 2)) ≤ fuel) :
    Algo2.Bdd_var_pick_random fuel A x rng = .ok (varPickRandom A x (drawCoin rng).1, (drawCoin rng).2) := by
  obtain ⟨h1, h2⟩ := varpick_arith A.size _ hA.size_pos (varSelect_size_le A n x (drawCoin rng).1 hA hx)
  exact Bdd_var_pick_random_eq_model' A n x rng hA hx (by omega) (by omega) fuel (by omega) (by omega)

/-- chained with `Props.C06.var_pick_canon`: the translated `var_pick` returns the canonical array of
    "in the operand, and either `x = false` or without an `x`-twin in the operand" -/
theorem Bdd_var_pick_eq_canon (A : Arr) (n x : Nat) (hA : WFo A n) (hx : x < n)
    (hsz : A.size * (3 * A.size + 2) + 2 ≤ 2 ^ 32) (fuel : Nat) (hfuel : 3 * (A.size * (3 * A.size + 2)) ≤ fuel) :
    Algo2.Bdd_var_pick fuel A x =
      .ok (canon n (fun v => Rel.sem A v && (v x == false || !Rel.sem A (Rel.flipV x v)))) := by
  rw [Bdd_var_pick_eq_model A n x hA hx hsz fuel hfuel, Props.C06.var_pick_canon hA x hx]

theorem Bdd_var_pick_random_eq_canon (A : Arr) (n x : Nat) (rng : List Bool) (hA : WFo A n) (hx : x < n)
    (hsz : A.size * (3 * A.size + 2) + 2 ≤ 2 ^ 32) (fuel : Nat) (hfuel : 3 * (A.size * (3 * A.size + 2)) ≤ fuel) :
    Algo2.Bdd_var_pick_random fuel A x rng =
      .ok (canon n (fun v => Rel.sem A v && (v x == (drawCoin rng).1 || !Rel.sem A (Rel.flipV x v))),
        (drawCoin rng).2) := by
  rw [Bdd_var_pick_random_eq_model A n x rng hA hx hsz fuel hfuel, Props.C06.var_pick_random_canon hA x _ hx]

/-- the driver's `fuelBig A = 64·(|A|²·(n+2) + 64)·(n+2)` covers the bound -/
theorem fuelBig_ok (A : Arr) (n : Nat) (hA : WFo A n) :
    3 * (A.size * (3 * A.size + 2)) ≤ Drive.Algo2.fuelBig A := by
  unfold Drive.Algo2.fuelBig
  rw [numVars_of_wf hA]
  have h1 : A.size ≤ A.size * A.size := Nat.le_mul_of_pos_right _ hA.size_pos
  have h2 : A.size * A.size * 2 ≤ A.size * A.size * (n + 2) := Nat.mul_le_mul_left _ (by omega)
  have h3 : (A.size * A.size * (n + 2) + 64) * 2 ≤ (A.size * A.size * (n + 2) + 64) * (n + 2) :=
    Nat.mul_le_mul_left _ (by omega)
  have h4 : 64 * (A.size * A.size * (n + 2) + 64) * (n + 2) = 64 * ((A.size * A.size * (n + 2) + 64) * (n + 2)) :=
    Nat.mul_assoc _ _ _
  have h5 : A.size * (3 * A.size + 2) = 3 * (A.size * A.size) + 2 * A.size := by
    rw [Nat.mul_add, Nat.mul_left_comm, Nat.mul_comm A.size 2]
  omega

theorem Bdd_var_pick_eq_model_driver (A : Arr) (n x : Nat) (hA : WFo A n) (hx : x < n)
    (hsz : A.size * (3 * A.size + 2) + 2 ≤ 2 ^ 32) :
    Algo2.Bdd_var_pick (Drive.Algo2.fuelBig A) A x = .ok (varPick A x) :=
  Bdd_var_pick_eq_model A n x hA hx hsz _ (fuelBig_ok A n hA)

theorem Bdd_var_pick_random_eq_model_driver (A : Arr) (n x : Nat) (rng : List Bool) (hA : WFo A n) (hx : x < n)
    (hsz : A.size * (3 * A.size + 2) + 2 ≤ 2 ^ 32) :
    Algo2.Bdd_var_pick_random (Drive.Algo2.fuelBig A) A x rng =
      .ok (varPickRandom A x (drawCoin rng).1, (drawCoin rng).2) :=
  Bdd_var_pick_random_eq_model A n x rng hA hx hsz _ (fuelBig_ok A n hA)

/-! ### `r_pick` (both variants) -/

/-- every array that occurs in the hand model's run of `r_pick` on `A` with the (variable, coin) list `L`
    (last variable first) has at most `S` nodes: the operand of each level, its `var_select` and `var_pick_random`
    results and the picked set returned by the recursive call -/
def PickBound (S : Nat) : Arr → List (Nat × Bool) → Prop
  | _, [] => True
  | A, (x, c) :: rest =>
    A.size ≤ S ∧ (varSelect A x c).size ≤ S ∧ (varPickRandom A x c).size ≤ S ∧
    (Rel.rPickG (Rel.varExists A x) rest).size ≤ S ∧ PickBound S (Rel.varExists A x) rest

instance (S : Nat) : ∀ (A : Arr) (L : List (Nat × Bool)), Decidable (PickBound S A L)
  | _, [] => isTrue trivial
  | A, (x, c) :: rest =>
    have := instDecidablePickBound S (Rel.varExists A x) rest
    by unfold PickBound; exact inferInstance

theorem splitLast_nil : Rust.splitLast (#[] : Array Nat) = none := rfl
theorem splitLast_snoc (l : List Nat) (x : Nat) : Rust.splitLast (l ++ [x]).toArray = some (x, l.toArray) := by
  unfold Rust.splitLast
  simp

theorem sq_le {a b S : Nat} (ha : a ≤ S) (hb : b ≤ S) : a * b ≤ S * S := Nat.mul_le_mul ha hb

/-- one level of `r_pick`: the operator calls, with everything bounded by `S` -/
theorem level_ops (A : Arr) (n x : Nat) (c : Bool) (rest : List (Nat × Bool)) (S : Nat) (hS3 : 3 ≤ S)
    (hS : S * S + 2 ≤ 2 ^ 32) (hA : WFo A n) (hx : x < n) (hrest : ∀ p ∈ rest, p.1 < n)
    (hb : PickBound S A ((x, c) :: rest)) (f : Nat) (hf : 3 * (S * S) ≤ f) :
    Algo2.Bdd_var_exists f A x = .ok (Rel.varExists A x) ∧
    WFo (Rel.varExists A x) n ∧
    (c = false → Algo2.Bdd_var_pick f A x = .ok (varPickRandom A x c)) ∧
    (∀ rng, (drawCoin rng).1 = c →
      Algo2.Bdd_var_pick_random f A x rng = .ok (varPickRandom A x c, (drawCoin rng).2)) ∧
    Algo2.Bdd_and f (Rel.rPickG (Rel.varExists A x) rest) (varPickRandom A x c) =
      .ok (bddAnd (Rel.rPickG (Rel.varExists A x) rest) (varPickRandom A x c)) := by
  obtain ⟨b1, b2, b3, b4, _⟩ := hb
  have hE := (Rel.varExists_isCanon hA x hx).wfo
  have hP := (Rel.varPickRandom_isCanon hA x c hx).wfo
  have hG := (Rel.rPickG_spec rest _ hE hrest).1
  have hAA := sq_le b1 b1
  have hA3 : A.size * 3 ≤ S * S := sq_le b1 hS3
  have hAV := sq_le b1 b2
  have hGP := sq_le b4 b3
  refine ⟨Bdd_var_exists_eq_model A n x hA hx (by omega) f (by omega), hE, ?_, ?_,
    Bdd_and_eq_model _ _ n hG hP (by omega) f (by omega)⟩
  · intro hc
    subst hc
    exact Bdd_var_pick_eq_model' A n x hA hx (by omega) (by omega) f (by omega) (by omega)
  · intro rng hr
    subst hr
    exact Bdd_var_pick_random_eq_model' A n x rng hA hx (by omega) (by omega) f (by omega) (by omega)

end B.AlgoEq2Rel
