import BddVerif.Lemmas.AlgoEq3NamesBuilder
/-!
# Any sequence of `make_variable` / `make_variables` calls followed by `build` (all through the TRANSLATED functions)

`protocol cs` runs the translated `BddVariableSetBuilder::new()`, then the calls `cs` in order, then `build()`, and
returns the set together with all the `BddVariable`s handed out.

* `protocol_eq_model` — it is the model's `VS.viaBuilder` on the accumulated names (every sequence of calls);
* `protocol_ok`, `protocol_panic_iff` — in terms of the names: accepted iff at most 65534 names, no forbidden
  character, pairwise distinct; then the variables are `0, 1, …` in order and the set is the set of these names;
* `protocol_eq_new` — it is the translated `BddVariableSet::new` on the accumulated names, for at most 65533 names
  (both `ok` with the same count, names and equivalent index maps, or both panic) — by induction over the calls;
* `protocol_boundary` — with exactly 65534 acceptable names the builder succeeds while `new` panics.
-/
namespace B.AlgoEq3Names
open B B.Gen B.AlgoEqUtil B.AlgoEq2Ren B.AlgoEq2VS Std
attribute [local instance 10000] Rust.monadOutcomeInline

/-- one call on a builder -/
inductive Call where
  | one (s : String)
  | many (ss : Array String)

def Call.names : Call → List String
  | .one s => [s]
  | .many ss => ss.toList

/-- the names of all calls, in order -/
def allNames (cs : List Call) : List String := cs.flatMap Call.names

/-- one call through the translated function: the new state and the variables returned -/
def callStep (b : GB) : Call → Outcome (GB × List Nat)
  | .one s =>
    match Algo3.BddVariableSetBuilder_make_variable b s with
    | .ok r => .ok (r.2, [r.1])
    | .err m => .err m
    | .panic m => .panic m
  | .many ss =>
    match Algo3.BddVariableSetBuilder_make_variables b ss with
    | .ok r => .ok (r.2, r.1.toList)
    | .err m => .err m
    | .panic m => .panic m

def runCalls : List Call → GB → Outcome (GB × List Nat)
  | [], b => .ok (b, [])
  | c :: cs, b =>
    match callStep b c with
    | .ok r =>
      match runCalls cs r.1 with
      | .ok r2 => .ok (r2.1, r.2 ++ r2.2)
      | .err m => .err m
      | .panic m => .panic m
    | .err m => .err m
    | .panic m => .panic m

/-- `let mut b = BddVariableSetBuilder::new(); …calls…; b.build()` -/
def protocol (cs : List Call) : Outcome (VSet × List Nat) :=
  match runCalls cs Algo3.BddVariableSetBuilder_new with
  | .ok r =>
    match Algo3.BddVariableSetBuilder_build r.1 with
    | .ok T => .ok (T, r.2)
    | .err m => .err m
    | .panic m => .panic m
  | .err m => .err m
  | .panic m => .panic m

/-! ### the model's `makeVariables` on a concatenation -/

/-- sequencing two model calls -/
def seqM (x : Outcome (VS.Builder × List Nat)) (l2 : List String) : Outcome (VS.Builder × List Nat) :=
  match x with
  | .ok r =>
    match r.1.makeVariables l2 with
    | .ok r2 => .ok (r2.1, r.2 ++ r2.2)
    | .err m => .err m
    | .panic m => .panic m
  | .err m => .err m
  | .panic m => .panic m

theorem makeVariables_append : ∀ (l1 l2 : List String) (bm : VS.Builder),
    bm.makeVariables (l1 ++ l2) = seqM (bm.makeVariables l1) l2 := by
  intro l1
  induction l1 with
  | nil =>
    intro l2 bm
    simp only [List.nil_append, VS.Builder.makeVariables, seqM]
    rcases bm.makeVariables l2 with ⟨b2, ys⟩ | m | m <;> rfl
  | cons a l1 ih =>
    intro l2 bm
    simp only [List.cons_append, VS.Builder.makeVariables]
    rcases bm.makeVariable a with ⟨b1, x⟩ | m | m
    · simp only [ih l2 b1, seqM]
      rcases b1.makeVariables l1 with ⟨b2, xs⟩ | m | m
      · simp only
        rcases b2.makeVariables l2 with ⟨b3, ys⟩ | m | m <;> rfl
      · rfl
      · rfl
    · rfl
    · rfl

/-- results of the translated calls against the model: same ids, same builder -/
abbrev RelCalls := RelBy (fun (r : GB × List Nat) (r' : VS.Builder × List Nat) => r.2 = r'.2 ∧ SameB r.1 r'.1)

theorem callStep_eq_model (b : GB) (bm : VS.Builder) (h : SameB b bm) (c : Call) :
    RelCalls (callStep b c) (bm.makeVariables c.names) := by
  cases c with
  | one s =>
    simp only [callStep, Call.names, VS.Builder.makeVariables]
    have hmv := make_variable_eq_model b bm h s
    generalize Algo3.BddVariableSetBuilder_make_variable b s = x at hmv ⊢
    generalize bm.makeVariable s = y at hmv ⊢
    cases hmv with
    | panic m m' => exact .panic _ _
    | err m m' => exact .err _ _
    | ok r r' hr =>
      obtain ⟨b1, x1⟩ := r'
      exact .ok _ _ ⟨by simp only at hr ⊢; rw [hr.1], hr.2⟩
  | many ss =>
    simp only [callStep, Call.names]
    have hmv := make_variables_eq_model b bm h ss
    generalize Algo3.BddVariableSetBuilder_make_variables b ss = x at hmv ⊢
    generalize bm.makeVariables ss.toList = y at hmv ⊢
    cases hmv with
    | panic m m' => exact .panic _ _
    | err m m' => exact .err _ _
    | ok r r' hr => exact .ok _ _ hr

/-- **any sequence of calls** against the model's `makeVariables` on the accumulated names -/
theorem runCalls_eq_model : ∀ (cs : List Call) (b : GB) (bm : VS.Builder), SameB b bm →
    RelCalls (runCalls cs b) (bm.makeVariables (allNames cs)) := by
  intro cs
  induction cs with
  | nil => intro b bm h; exact .ok _ _ ⟨rfl, h⟩
  | cons c cs ih =>
    intro b bm h
    have hc := callStep_eq_model b bm h c
    simp only [runCalls, allNames, List.flatMap_cons]
    rw [makeVariables_append]
    generalize callStep b c = x at hc ⊢
    generalize bm.makeVariables c.names = y at hc ⊢
    cases hc with
    | panic m m' => exact .panic _ _
    | err m m' => exact .err _ _
    | ok r r' hr =>
      have hrec := ih r.1 r'.1 hr.2
      simp only [seqM]
      change RelCalls _ (match r'.1.makeVariables (allNames cs) with
        | .ok r2 => .ok (r2.1, r'.2 ++ r2.2) | .err m => .err m | .panic m => .panic m)
      generalize runCalls cs r.1 = u at hrec ⊢
      generalize r'.1.makeVariables (allNames cs) = v at hrec ⊢
      cases hrec with
      | panic m m' => exact .panic _ _
      | err m m' => exact .err _ _
      | ok s q hs => exact .ok _ _ ⟨by simp only; rw [hr.1, hs.1], hs.2⟩

/-! ### the model's builder: what an `ok` run means -/

theorem model_run_ok {names : List String} {bm : VS.Builder} {xs : List Nat}
    (h : VS.Builder.empty.makeVariables names = .ok (bm, xs)) :
    VS.Acceptable 65534 names ∧ bm.names = names.toArray ∧ xs = List.range names.length := by
  have hacc : VS.Acceptable 65534 names := by
    rcases Classical.em (VS.Acceptable 65534 names) with hacc | hacc
    · exact hacc
    · obtain ⟨m, hm⟩ := VS.makeVariables_panic names VS.Builder.empty VS.Builder.inv_empty (by simp [VS.Builder.empty])
        (fun hb => hacc ((VS.bacceptable_empty names).1 hb))
      rw [hm] at h; cases h
  obtain ⟨b', hb', hn, _⟩ := VS.makeVariables_ok names VS.Builder.empty VS.Builder.inv_empty
    ((VS.bacceptable_empty names).2 hacc)
  rw [hb'] at h
  injection h with h
  injection h with h1 h2
  subst h1
  refine ⟨hacc, by rw [hn]; simp [VS.Builder.empty], ?_⟩
  rw [← h2]
  simp [VS.Builder.empty, List.range_eq_range']

/-- **the whole protocol = the model's `viaBuilder`**, every sequence of calls -/
theorem protocol_eq_model (cs : List Call) :
    RelBy (fun (r : VSet × List Nat) (r' : VS.VarSet × List Nat) => SameVS r.1 r'.1 ∧ r.2 = r'.2)
      (protocol cs) (VS.viaBuilder (allNames cs)) := by
  unfold protocol VS.viaBuilder
  have h := runCalls_eq_model cs _ _ BddVariableSetBuilder_new_same
  generalize hx : runCalls cs Algo3.BddVariableSetBuilder_new = x at h ⊢
  generalize hy : VS.Builder.empty.makeVariables (allNames cs) = y at h ⊢
  cases h with
  | panic m m' => exact .panic _ _
  | err m m' => exact .err _ _
  | ok r r' hr =>
    obtain ⟨bm, xs⟩ := r'
    obtain ⟨hacc, hn, _⟩ := model_run_ok hy
    have hsz : r.1.1.size < 65536 := by
      rw [hr.2.1, hn]
      have := hacc.1
      simp only [List.size_toArray]
      omega
    obtain ⟨T, hT, hs⟩ := build_eq_model r.1 bm hr.2 hsz
    simp only [hT]
    exact .ok _ _ ⟨hs, hr.1⟩

/-- accepted: at most 65534 names, valid, pairwise distinct ⇒ the variables `0, 1, …` and the set of these names -/
theorem protocol_ok (cs : List Call) (h : VS.Acceptable 65534 (allNames cs)) :
    ∃ T, protocol cs = .ok (T, List.range (allNames cs).length) ∧ SetOf T (allNames cs) ∧
      VS.Faithful (toVS T) (allNames cs) := by
  obtain ⟨vs, h1, _⟩ := VS.viaBuilder_ok (allNames cs) h
  obtain ⟨⟨T, ids⟩, hT, hs, hids⟩ := (protocol_eq_model cs).of_ok h1
  simp only at hs hids
  subst hids
  have hvs : vs = ⟨(allNames cs).length, (allNames cs).toArray, VS.buildIndex (allNames cs) 0 {}⟩ := by
    unfold VS.viaBuilder at h1
    rcases hy : VS.Builder.empty.makeVariables (allNames cs) with ⟨bm, xs⟩ | m | m
    · rw [hy] at h1
      obtain ⟨_, hn, _⟩ := model_run_ok hy
      injection h1 with h1
      injection h1 with h1 _
      rw [← h1]
      unfold VS.Builder.build
      rw [hn]
      simp
    · rw [hy] at h1; cases h1
    · rw [hy] at h1; cases h1
  subst hvs
  have hset : SetOf T (allNames cs) := by
    refine ⟨hs.1, hs.2.1, ?_⟩
    intro s
    rw [hs.get s]
    exact buildIndex_idxOf _ h.2.2 _ (fun s => HashMap.getElem?_empty) s
  exact ⟨T, hT, hset, hset.faithful h.2.2⟩

theorem protocol_panic_iff (cs : List Call) :
    (∃ m, protocol cs = .panic m) ↔ ¬ VS.Acceptable 65534 (allNames cs) := by
  constructor
  · rintro ⟨m, hm⟩ hacc
    obtain ⟨T, hT, _⟩ := protocol_ok cs hacc
    rw [hT] at hm; cases hm
  · intro h
    obtain ⟨m, hm⟩ := VS.viaBuilder_panic (allNames cs) h
    exact (protocol_eq_model cs).of_panic hm

/-! ### the builder protocol = `BddVariableSet::new` (both translated) -/

/-- two translated sets: same count, same names, equivalent index maps -/
def EqVS (T T' : VSet) : Prop := T.1 = T'.1 ∧ T.2.1 = T'.2.1 ∧ T.2.2.Equiv T'.2.2

/-- **`build` after any sequence of `make_variable(s)` calls = `BddVariableSet::new` of the accumulated names**
    (at most 65533 names: the limit of `new`) -/
theorem protocol_eq_new (cs : List Call) (hlen : (allNames cs).length ≤ 65533) :
    RelBy (fun (r : VSet × List Nat) (T' : VSet) => EqVS r.1 T')
      (protocol cs) (Algo3.BddVariableSet_new (allNames cs).toArray) := by
  by_cases hacc : VS.Acceptable 65533 (allNames cs)
  · have hacc' : VS.Acceptable 65534 (allNames cs) := ⟨by omega, hacc.2⟩
    obtain ⟨T, hT, hs, _⟩ := protocol_ok cs hacc'
    obtain ⟨T', hT', hs', _⟩ := BddVariableSet_new_ok (allNames cs).toArray (by simpa using hacc)
    rw [hT, hT']
    simp only at hs'
    refine .ok _ _ ⟨by rw [hs.count, hs'.count], by rw [hs.arr, hs'.arr], ?_⟩
    exact HashMap.Equiv.of_forall_getElem?_eq (fun s => by rw [hs.index, hs'.index])
  · have h1 : ¬ VS.Acceptable 65534 (allNames cs) := fun h => hacc ⟨hlen, h.2⟩
    obtain ⟨m, hm⟩ := (protocol_panic_iff cs).2 h1
    obtain ⟨m', hm'⟩ := (BddVariableSet_new_panic_iff (allNames cs).toArray).2 (by simpa using hacc)
    rw [hm, hm']
    exact .panic _ _

/-- the two Rust functions test different limits: with exactly 65534 acceptable names the builder builds the set and
    `new` panics -/
theorem protocol_boundary (cs : List Call) (h : VS.Acceptable 65534 (allNames cs))
    (hl : (allNames cs).length = 65534) :
    (∃ T ids, protocol cs = .ok (T, ids)) ∧
    Algo3.BddVariableSet_new (allNames cs).toArray =
      .panic "Too many BDD variables. There can be at most {} variables." := by
  obtain ⟨T, hT, _⟩ := protocol_ok cs h
  exact ⟨⟨T, _, hT⟩, BddVariableSet_new_panic_too_many _ (by simp [hl])⟩

/-! ### non-vacuity -/

/-- `make_variable("a"); make_variables(["b", "c d"]); make_variable("é")` -/
def exCalls : List Call := [.one "a", .many #["b", "c d"], .one "é"]

example : VS.Acceptable 65534 (allNames exCalls) := by
  refine ⟨by decide, ?_, by decide⟩
  intro s hs
  simp [allNames, exCalls, Call.names] at hs
  rcases hs with rfl | rfl | rfl | rfl <;> decide

/-- a repeated name across two calls is the `already exists` panic of the builder and the `duplicated` panic of `new` -/
example : (∃ m, protocol [.one "a", .many #["b", "a"]] = .panic m) ∧
    ∃ m, Algo3.BddVariableSet_new #["a", "b", "a"] = .panic m := by
  refine ⟨(protocol_panic_iff _).2 (fun h => by
    have := h.2.2
    simp [allNames, Call.names] at this), ?_⟩
  exact (BddVariableSet_new_panic_iff _).2 (fun h => by
    have := h.2.2
    simp at this)

end B.AlgoEq3Names

