import BddVerif.Lemmas.AlgoEq3Parser
import BddVerif.Drive.Algo3
/-!
# The expression parser: corollaries for the fuel the driver passes, and non-vacuity

`Drive/Algo3.lean` replays the C14/C15 case files through `genParse cs`, i.e. the translated
`BooleanExpression::try_from(&str)` with `fuelParse cs = 8 * cs.length + 64` units of fuel, converted back with `toE`.
Here: that fuel is enough for every input, and `genParse` IS the hand model `Parser.parse` (up to the two abbreviated
`{:?}` messages) — so the differential replay of the generated parser and the hand model cannot disagree.
-/
namespace B.AlgoEq3Parser
open B B.Gen B.Gen.Algo3 B.AlgoEqUtil B.Parser

attribute [local instance 10000] Rust.monadOutcomeInline

theorem toE_eq_unconvE (e : GE) : Drive.Algo3.toE e = unconvE e := by
  induction e <;> simp_all [Drive.Algo3.toE, unconvE]

theorem ofE_eq_convE (e : Expr) : Drive.Algo3.ofE e = convE e := by
  induction e <;> simp_all [Drive.Algo3.ofE, convE]

/-- `BooleanExpression::try_from(&str)` is `parse_boolean_expression` -/
theorem try_from_eq_model (s : String) (fuel : Nat) (hf : 8 * s.length + 8 ≤ fuel) :
    BooleanExpression_try_from fuel s = convO (Parser.parse s.toList) :=
  parse_boolean_expression_eq_model s fuel hf

/-- the fuel of the driver suffices for every string -/
theorem parse_boolean_expression_eq_model_driver (cs : List Char) :
    parse_boolean_expression (Drive.Algo3.fuelParse cs) (String.ofList cs) = convO (Parser.parse cs) := by
  have := parse_boolean_expression_eq_model (String.ofList cs) (Drive.Algo3.fuelParse cs)
    (by rw [← String.length_toList, String.toList_ofList]; unfold Drive.Algo3.fuelParse; omega)
  rwa [String.toList_ofList] at this

/-- what the replay computes from the generated parser = the hand model, for every input -/
theorem genParse_eq_model (cs : List Char) :
    Drive.Algo3.genParse cs =
      match Parser.parse cs with
      | .ok e => .ok e
      | .err m => .err (msgConv m)
      | .panic m => .panic m := by
  unfold Drive.Algo3.genParse
  rw [show BooleanExpression_try_from (Drive.Algo3.fuelParse cs) (String.ofList cs) =
    parse_boolean_expression (Drive.Algo3.fuelParse cs) (String.ofList cs) from rfl,
    parse_boolean_expression_eq_model_driver]
  have hp := parse_no_panic cs
  cases h : Parser.parse cs with
  | ok e => simp only [convO]; rw [toE_eq_unconvE, unconvE_convE]
  | err m => rfl
  | panic m => rw [h] at hp; simp [Outcome.isPanic] at hp

/-- the replayed outcome kind (what `C14.showShort` prints) is the model's -/
theorem genParse_kind (cs : List Char) : (Drive.Algo3.genParse cs).kind = (Parser.parse cs).kind := by
  rw [genParse_eq_model]; cases Parser.parse cs <;> rfl

/-! ### chained with the hand theorems: the translated parser reads back what the model prints -/

/-- `parse_boolean_expression(format!("{}", e)) = Ok(e)` for the TRANSLATED parser (printer = hand model `display`) -/
theorem parse_boolean_expression_display (e : Expr) (h : SafeNames e) (fuel : Nat)
    (hf : 8 * (display e).length + 8 ≤ fuel) :
    parse_boolean_expression fuel (String.ofList (display e)) = .ok (.ok (convE e)) := by
  have := parse_boolean_expression_eq_model (String.ofList (display e)) fuel
    (by rw [← String.length_toList, String.toList_ofList]; exact hf)
  rw [String.toList_ofList, parse_display e h] at this
  exact this

/-! ### non-vacuity -/

def exA : Expr := .var ['a']
def exX0 : Expr := .var ['x', '_', '0']
/-- `(a ? !x_0 : (a <=> (x_0 ^ true)))` -/
def exTree : Expr := .cond exA (.not exX0) (.iff exA (.xor exX0 (.const true)))

theorem exTree_safe : SafeNames exTree := by
  simp only [exTree, exA, exX0, SafeNames, and_true]
  decide

example : parse_boolean_expression 1000 "(a ? !x_0 : (a <=> (x_0 ^ true)))" =
    .ok (.ok (.Cond (.Variable "a") (.Not (.Variable "x_0"))
      (.Iff (.Variable "a") (.Xor (.Variable "x_0") (.Const true))))) := by
  have := parse_boolean_expression_display exTree exTree_safe 1000 (by decide)
  rw [show String.ofList (display exTree) = "(a ? !x_0 : (a <=> (x_0 ^ true)))" from by decide] at this
  rw [this]
  rfl

/-- an `Err` of the tokenizer, character for character -/
example : parse_boolean_expression 100 "a > b" = .ok (.error "Unexpected '>'.") := by
  rw [parse_boolean_expression_eq_model _ _ (by decide)]
  rw [show "a > b".toList = ['a', ' ', '>', ' ', 'b'] from by decide]
  have h1 : tokGroup ['>', ' ', 'b'] true = .err "Unexpected '>'." := by
    rw [tokGroup_cons]; simp [show isWs '>' = false from by decide]
  have h2 : nameRest [' ', '>', ' ', 'b'] = ([], [' ', '>', ' ', 'b']) := by
    rw [nameRest, if_pos (by decide)]
  have h3 : tokGroup ['a', ' ', '>', ' ', 'b'] true = .err "Unexpected '>'." := by
    rw [tokGroup_cons]
    simp only [h2]
    rw [tokGroup_space, h1]
    simp [Parser.push]
  unfold Parser.parse
  rw [h3]
  rfl

/-- the tokenizer on `(a)!`: a nested `Tokens` array, then an operator; nothing left unread -/
theorem ex_tok : tokGroup ['(', 'a', ')', '!'] true = .ok ([.group [.id ['a']], .not], []) := by
  have h0 : tokGroup [] true = .ok ([], []) := by rw [tokGroup_nil]; rfl
  have h1 : tokGroup ['!'] true = .ok ([.not], []) := by rw [tokGroup_not, h0]; rfl
  have h2 : tokGroup [')', '!'] false = .ok ([], ['!']) := tokGroup_close _
  have h3 : tokGroup ['a', ')', '!'] false = .ok ([.id ['a']], ['!']) := by
    have := tokGroup_ident ['a'] [')', '!'] false (by simp) (by decide) (delim_close _)
    rw [show ['a'] ++ [')', '!'] = ['a', ')', '!'] from rfl, h2] at this
    exact this
  rw [tokGroup_open _ _ _ _ h3 (by simp), h1]; rfl

example : tokenize_group 5 ['(', 'a', ')', '!'] true = .ok (.ok #[.Tokens #[.Id "a"], .Not], []) := by
  rw [tokenize_group_ok ex_tok 5 (by decide)]
  rfl

/-- an unclosed group: `Err("Expected ')'.")`, character for character -/
example : ∃ rest, tokenize_group 3 ['(', '!'] true = .ok (.error "Expected ')'.", rest) := by
  refine tokenize_group_err ?_ 3 (by decide)
  have h0 : tokGroup [] false = .err "Expected ')'." := by rw [tokGroup_nil]; rfl
  have h1 : tokGroup ['!'] false = .err "Expected ')'." := by rw [tokGroup_not, h0]; rfl
  rw [tokGroup_cons]
  simp [show isWs '(' = false from by decide, h1]

/-- an `Err` of the parser with a `{:?}` message -/
example : parse_formula 100 #[.Id "a", .Id "b"] =
    .ok (.error "Expected variable name or (...), but found {:?}.") := by
  rw [parse_formula_eq_model _ _ (by decide)]
  rw [show unconvA #[.Id "a", .Id "b"] = [.id ['a'], .id ['b']] from by
    simp only [unconvA, unconvL, unconvT, show "a".toList = ['a'] from by decide, show "b".toList = ['b'] from by decide]]
  simp [parseFormula_eq, iffP_eq, impP_eq, condP_eq, orP_eq, andP_eq, xorP_eq, terminalP, isSingleGroup, indexOfFirst,
    Tok.eqK, Tok.tag, convO, msgConv]

/-- a nested token array -/
example : parse_formula 100 #[.Not, .Tokens #[.Id "a", .And, .Id "true"]] =
    .ok (.ok (.Not (.And (.Variable "a") (.Const true)))) := by
  rw [parse_formula_eq_model _ _ (by decide)]
  rw [show unconvA #[.Not, .Tokens #[.Id "a", .And, .Id "true"]] =
    [.not, .group [.id ['a'], .and, .id kwTrue]] from by
    simp only [unconvA, unconvL, unconvT, show "a".toList = ['a'] from by decide,
      show "true".toList = kwTrue from by decide]]
  simp [parseFormula_eq, iffP_eq, impP_eq, condP_eq, orP_eq, andP_eq, xorP_eq, terminalP, isSingleGroup, indexOfFirst,
    Tok.eqK, Tok.tag, convO, convE, Outcome.bind, kwTrue, kwFalse]

end B.AlgoEq3Parser
