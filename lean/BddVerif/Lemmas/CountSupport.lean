import BddVerif.Lemmas.Count
import BddVerif.Lemmas.CanonicalStruct
/-!
`support_set` / `size_per_variable` / paths: list lemmas about the sorted insertion, the exactness of
the support of a reduced diagram all of whose nodes are reachable (Bryant: the two children of a
reduced node denote different functions), and the path list whose length is the clause count.
-/
namespace B.Count

/-! ### sorted insertion -/

theorem mem_insSorted (z x : Nat) : ∀ l : List Nat, z ∈ insSorted x l ↔ z = x ∨ z ∈ l := by
  intro l
  induction l with
  | nil => simp [insSorted]
  | cons y ys ih =>
    unfold insSorted
    split
    · simp
    · split
      · rename_i h; subst h; simp
      · simp [ih]; constructor
        · rintro (h | h | h) <;> simp [h]
        · rintro (h | h | h) <;> simp [h]

theorem insSorted_sorted (x : Nat) : ∀ l : List Nat, l.Pairwise (· < ·) → (insSorted x l).Pairwise (· < ·) := by
  intro l
  induction l with
  | nil => intro _; simp [insSorted]
  | cons y ys ih =>
    intro h
    rw [List.pairwise_cons] at h
    unfold insSorted
    split
    · rename_i hxy
      rw [List.pairwise_cons]
      refine ⟨?_, List.pairwise_cons.2 h⟩
      intro z hz
      rcases List.mem_cons.1 hz with rfl | hz
      · exact hxy
      · exact Nat.lt_trans hxy (h.1 z hz)
    · split
      · exact List.pairwise_cons.2 h
      · rename_i h1 h2
        rw [List.pairwise_cons]
        refine ⟨?_, ih h.2⟩
        intro z hz
        rcases (mem_insSorted z x ys).1 hz with rfl | hz
        · omega
        · exact h.1 z hz

theorem mem_foldl_ins (z : Nat) : ∀ (xs acc : List Nat),
    z ∈ xs.foldl (fun acc x => insSorted x acc) acc ↔ z ∈ acc ∨ z ∈ xs := by
  intro xs
  induction xs with
  | nil => intro acc; simp
  | cons x xs ih =>
    intro acc
    simp only [List.foldl_cons, ih, mem_insSorted, List.mem_cons]
    constructor
    · rintro ((h | h) | h) <;> simp [h]
    · rintro (h | h | h) <;> simp [h]

theorem sorted_foldl_ins : ∀ (xs acc : List Nat), acc.Pairwise (· < ·) →
    (xs.foldl (fun acc x => insSorted x acc) acc).Pairwise (· < ·) := by
  intro xs
  induction xs with
  | nil => intro acc h; exact h
  | cons x xs ih => intro acc h; exact ih _ (insSorted_sorted x acc h)

theorem mem_decisionVars (A : Arr) (x : Nat) :
    x ∈ decisionVars A ↔ ∃ p nd, 2 ≤ p ∧ A[p]? = some nd ∧ nd.var = x := by
  unfold decisionVars
  simp only [List.mem_map]
  constructor
  · rintro ⟨nd, hnd, rfl⟩
    obtain ⟨i, hi⟩ := List.mem_iff_getElem?.1 hnd
    rw [List.getElem?_drop] at hi
    exact ⟨2 + i, nd, by omega, by simpa using hi, rfl⟩
  · rintro ⟨p, nd, hp, hnd, rfl⟩
    refine ⟨nd, ?_, rfl⟩
    apply List.mem_iff_getElem?.2
    refine ⟨p - 2, ?_⟩
    rw [List.getElem?_drop]
    have : 2 + (p - 2) = p := by omega
    rw [this]; simpa using hnd

/-- `support_set` = the variables stored in decision nodes (index ≥ 2) -/
theorem mem_supportSet (A : Arr) (x : Nat) :
    x ∈ supportSet A ↔ ∃ p nd, 2 ≤ p ∧ A[p]? = some nd ∧ nd.var = x := by
  unfold supportSet
  rw [mem_foldl_ins]; simp [mem_decisionVars]

/-- the model's list is strictly increasing (hence duplicate-free) -/
theorem supportSet_sorted (A : Arr) : (supportSet A).Pairwise (· < ·) :=
  sorted_foldl_ins _ [] List.Pairwise.nil

/-! ### size_per_variable -/

theorem bump_keys (x : Nat) : ∀ l : List (Nat × Nat), (bump x l).map (·.1) = insSorted x (l.map (·.1)) := by
  intro l
  induction l with
  | nil => simp [bump, insSorted]
  | cons yc ys ih =>
    obtain ⟨y, c⟩ := yc
    unfold bump
    simp only [List.map_cons]
    unfold insSorted
    split
    · simp
    · split
      · simp
      · simp [ih]

theorem foldl_bump_keys : ∀ (xs : List Nat) (acc : List (Nat × Nat)),
    (xs.foldl (fun acc x => bump x acc) acc).map (·.1) = xs.foldl (fun acc x => insSorted x acc) (acc.map (·.1)) := by
  intro xs
  induction xs with
  | nil => intro acc; rfl
  | cons x xs ih => intro acc; simp only [List.foldl_cons, ih, bump_keys]

/-- total of the counts stored under key `x` -/
def valOf (l : List (Nat × Nat)) (x : Nat) : Nat := ((l.filter (·.1 == x)).map (·.2)).sum

theorem valOf_bump (x y : Nat) : ∀ l : List (Nat × Nat), valOf (bump y l) x = valOf l x + if x = y then 1 else 0 := by
  intro l
  induction l with
  | nil =>
    by_cases h : x = y
    · subst h; simp [bump, valOf]
    · have : ¬ y = x := fun e => h e.symm
      simp [bump, valOf, h, this]
  | cons zc zs ih =>
    obtain ⟨z, c⟩ := zc
    unfold bump
    split
    · by_cases h : x = y
      · subst h; simp [valOf, List.filter_cons]; omega
      · have : ¬ y = x := fun e => h e.symm
        simp [valOf, List.filter_cons, h, this]
    · split
      · rename_i h1 h2
        subst h2
        by_cases h : x = y
        · subst h; simp [valOf, List.filter_cons]; omega
        · have : ¬ y = x := fun e => h e.symm
          simp [valOf, List.filter_cons, h, this]
      · have := ih
        unfold valOf at this ⊢
        by_cases hz : z = x
        · subst hz; simp [List.filter_cons, this]; omega
        · simp [List.filter_cons, hz, this]

theorem valOf_foldl (x : Nat) : ∀ (xs : List Nat) (acc : List (Nat × Nat)),
    valOf (xs.foldl (fun acc y => bump y acc) acc) x = valOf acc x + xs.count x := by
  intro xs
  induction xs with
  | nil => intro acc; simp
  | cons y ys ih =>
    intro acc
    simp only [List.foldl_cons, ih, valOf_bump, List.count_cons]
    by_cases h : x = y
    · subst h; simp; omega
    · have : ¬ y = x := fun e => h e.symm
      simp [h, this]

theorem sum_bump (y : Nat) : ∀ l : List (Nat × Nat), ((bump y l).map (·.2)).sum = (l.map (·.2)).sum + 1 := by
  intro l
  induction l with
  | nil => simp [bump]
  | cons zc zs ih =>
    obtain ⟨z, c⟩ := zc
    unfold bump
    split
    · simp; omega
    · split
      · simp; omega
      · simp [ih]; omega

theorem sum_foldl_bump : ∀ (xs : List Nat) (acc : List (Nat × Nat)),
    ((xs.foldl (fun acc y => bump y acc) acc).map (·.2)).sum = (acc.map (·.2)).sum + xs.length := by
  intro xs
  induction xs with
  | nil => intro acc; simp
  | cons y ys ih => intro acc; simp only [List.foldl_cons, ih, sum_bump, List.length_cons]; omega

/-- in a list with strictly increasing keys an entry is the only one under its key -/
theorem valOf_of_mem : ∀ (l : List (Nat × Nat)), (l.map (·.1)).Pairwise (· < ·) →
    ∀ x c, (x, c) ∈ l → valOf l x = c := by
  intro l
  induction l with
  | nil => intro _ x c h; cases h
  | cons zc zs ih =>
    obtain ⟨z, d⟩ := zc
    intro hs x c hm
    simp only [List.map_cons, List.pairwise_cons] at hs
    rcases List.mem_cons.1 hm with heq | hm
    · cases heq
      have : (zs.filter (·.1 == z)) = [] := by
        rw [List.filter_eq_nil_iff]
        intro e he
        have := hs.1 e.1 (List.mem_map.2 ⟨e, he, rfl⟩)
        simp; omega
      simp [valOf, List.filter_cons, this]
    · have hlt := hs.1 x (List.mem_map.2 ⟨(x, c), hm, rfl⟩)
      have hne : ¬ z = x := by omega
      have := ih hs.2 x c hm
      unfold valOf at this ⊢
      simp [List.filter_cons, hne, this]

theorem decisionVars_length (A : Arr) : (decisionVars A).length = A.size - 2 := by
  simp [decisionVars]

/-! ### independence of untested variables, and steering a valuation to a reachable node -/

theorem ev_indep_var {A : Arr} {n : Nat} (h : Red A n) (x : Nat)
    (hx : ∀ p nd, 2 ≤ p → A[p]? = some nd → nd.var ≠ x) :
    ∀ p, p < A.size → ∀ (v : Nat → Bool) (b : Bool), ev A (upd v x b) p = ev A v p := by
  intro p
  induction p using Nat.strongRecOn with
  | _ p ih =>
    intro hp v b
    by_cases h0 : p = 0
    · subst h0; simp [ev_zero]
    by_cases h1 : p = 1
    · subst h1; simp [ev_one]
    have hp2 : 2 ≤ p := by omega
    have hnd : A[p]? = some A[p] := by simp [hp]
    obtain ⟨_, hl, hh, _, _, _⟩ := h.inner p A[p] hp2 hnd
    have hne := hx p A[p] hp2 hnd
    rw [ev_node h _ p hp2 _ hnd, ev_node h v p hp2 _ hnd]
    have : upd v x b A[p].var = v A[p].var := by simp [upd, hne]
    rw [this]
    split
    · exact ih _ hh (by omega) v b
    · exact ih _ hl (by omega) v b

theorem reach_lt {A : Arr} {n : Nat} (h : Red A n) {r p : Nat} (hr : Reach A r p) (hrs : r < A.size) :
    p < A.size ∧ varOf A n r ≤ varOf A n p := by
  induction hr with
  | refl p => exact ⟨hrs, Nat.le_refl _⟩
  | low h2 hnd hre ih =>
    rename_i r q nd
    obtain ⟨_, hl, hh, _, hvl, hvh⟩ := h.inner r nd h2 hnd
    have := ih (by omega)
    rw [varOf_node r _ h2 hnd]
    exact ⟨this.1, by omega⟩
  | high h2 hnd hre ih =>
    rename_i r q nd
    obtain ⟨_, hl, hh, _, hvl, hvh⟩ := h.inner r nd h2 hnd
    have := ih (by omega)
    rw [varOf_node r _ h2 hnd]
    exact ⟨this.1, by omega⟩

/-- a valuation can be steered from `r` to any node `p` reachable from it by fixing variables in
    `[level r, level p)` only -/
theorem reach_steer {A : Arr} {n : Nat} (h : Red A n) {r p : Nat} (hr : Reach A r p) (hrs : r < A.size) :
    ∃ s : Nat → Bool, ∀ u : Nat → Bool,
      (∀ i, varOf A n r ≤ i → i < varOf A n p → u i = s i) → ev A u r = ev A u p := by
  induction hr with
  | refl p => exact ⟨fun _ => false, fun _ _ => rfl⟩
  | low h2 hnd hreach ih =>
    rename_i r q nd
    obtain ⟨_, hl, hh, _, hvl, hvh⟩ := h.inner r nd h2 hnd
    obtain ⟨s, hs⟩ := ih (by omega)
    have hle := (reach_lt h hreach (by omega)).2
    refine ⟨upd s nd.var false, ?_⟩
    intro u hu
    rw [varOf_node r _ h2 hnd] at hu
    have huk : u nd.var = false := by rw [hu nd.var (Nat.le_refl _) (by omega)]; simp [upd]
    rw [ev_node h u r h2 _ hnd, huk]
    simp only [Bool.false_eq_true, if_false]
    apply hs
    intro i h1 h2'
    rw [hu i (by omega) h2']
    have : i ≠ nd.var := by omega
    simp [upd, this]
  | high h2 hnd hreach ih =>
    rename_i r q nd
    obtain ⟨_, hl, hh, _, hvl, hvh⟩ := h.inner r nd h2 hnd
    obtain ⟨s, hs⟩ := ih (by omega)
    have hle := (reach_lt h hreach (by omega)).2
    refine ⟨upd s nd.var true, ?_⟩
    intro u hu
    rw [varOf_node r _ h2 hnd] at hu
    have huk : u nd.var = true := by rw [hu nd.var (Nat.le_refl _) (by omega)]; simp [upd]
    rw [ev_node h u r h2 _ hnd, huk]
    simp only [if_true]
    apply hs
    intro i h1 h2'
    rw [hu i (by omega) h2']
    have : i ≠ nd.var := by omega
    simp [upd, this]

/-- exactness of the support for a reduced array whose decision nodes are all reachable from the root -/
theorem support_exact_red {A : Arr} {n : Nat} (h : Red A n)
    (hreach : ∀ q, 2 ≤ q → q < A.size → Reach A (root A) q) (x : Nat) :
    x ∈ supportSet A ↔ ∃ v : Nat → Bool, den A (upd v x true) ≠ den A (upd v x false) := by
  have hrs : root A < A.size := by have := h.size2; unfold root; omega
  constructor
  · rw [mem_supportSet]
    rintro ⟨p, nd, hp2, hnd, hvar⟩
    have hps : p < A.size := by
      rcases Nat.lt_or_ge p A.size with h' | h'
      · exact h'
      · simp [Array.getElem?_eq_none h'] at hnd
    obtain ⟨_, hl, hh, hne, hvl, hvh⟩ := h.inner p nd hp2 hnd
    -- the children denote different functions (Bryant)
    have hdiff : ∃ v0 : Nat → Bool, ev A v0 nd.low ≠ ev A v0 nd.high := by
      apply Classical.byContradiction
      intro hno
      apply hne
      apply ev_inj h _ nd.low nd.high rfl (by omega) (by omega)
      intro v
      apply Classical.byContradiction
      intro hv
      exact hno ⟨v, hv⟩
    obtain ⟨v0, hv0⟩ := hdiff
    obtain ⟨s, hs⟩ := reach_steer h (hreach p hp2 hps) hrs
    have hvp : varOf A n p = x := by rw [varOf_node p _ hp2 hnd]; exact hvar
    -- steer to `p` below `x`, behave like `v0` above
    refine ⟨fun i => if i < x then s i else v0 i, ?_⟩
    have key : ∀ b : Bool, den A (upd (fun i => if i < x then s i else v0 i) x b) =
        ev A v0 (if b then nd.high else nd.low) := by
      intro b
      unfold den
      rw [hs _ (by
        intro i _ hi
        rw [hvp] at hi
        have : i ≠ x := by omega
        simp [upd, this, hi])]
      rw [ev_node h _ p hp2 _ hnd, hvar]
      have : upd (fun i => if i < x then s i else v0 i) x b x = b := by simp [upd]
      rw [this]
      cases b
      · simp only [Bool.false_eq_true, if_false]
        apply ev_indep h _ (by omega)
        intro i hi
        have : i ≠ x := by omega
        have : ¬ i < x := by omega
        simp [upd, *]
      · simp only [if_true]
        apply ev_indep h _ (by omega)
        intro i hi
        have : i ≠ x := by omega
        have : ¬ i < x := by omega
        simp [upd, *]
    rw [key true, key false]
    simp only [if_true, Bool.false_eq_true, if_false]
    exact fun e => hv0 e.symm
  · rintro ⟨v, hv⟩
    apply Classical.byContradiction
    intro hx
    apply hv
    have hno : ∀ p nd, 2 ≤ p → A[p]? = some nd → nd.var ≠ x := by
      intro p nd hp hnd hvar
      exact hx ((mem_supportSet A x).2 ⟨p, nd, hp, hnd, hvar⟩)
    unfold den
    rw [ev_indep_var h x hno _ hrs, ev_indep_var h x hno _ hrs]

/-! ### paths -/

/-- the root-to-one paths below pointer `p` as lists of literals, low branch first -/
def pathsF (A : Arr) : Nat → Nat → List (List (Nat × Bool))
  | _, 0 => []
  | _, 1 => [[]]
  | 0, _ => []
  | f + 1, p =>
    let nd := nodeAt A p
    (pathsF A f nd.low).map ((nd.var, false) :: ·) ++ (pathsF A f nd.high).map ((nd.var, true) :: ·)

theorem cardF_false_eq_paths (A : Arr) : ∀ f p, cardF A false f p = (pathsF A f p).length := by
  intro f
  induction f with
  | zero =>
    intro p
    match p with
    | 0 => simp [cardF, pathsF]
    | 1 => simp [cardF, pathsF]
    | p + 2 => simp [cardF, pathsF]
  | succ f ih =>
    intro p
    match p with
    | 0 => simp [cardF, pathsF]
    | 1 => simp [cardF, pathsF]
    | p + 2 => simp [cardF, pathsF, cardNode, ih]

end B.Count
