import BddVerif.Lemmas.AlgoEq2NFBase
namespace B.AlgoEq2NF
open B B.NF B.Gen B.Gen.Algo B.Gen.Algo2 B.AlgoEqUtil

attribute [local instance 10000] Rust.monadOutcomeInline

/-- `mk_dnf::_rec` -/
def dnfCfg (n : Nat) : Cfg where
  n := n
  empty := Bdd_mk_false n
  leaf := Bdd_mk_partial_valuation n
  comb := Bdd_or
  msg := "assertion failed: assert!(var < num_vars);"
  leafM := fun c => .ok (mkPartialValuation n c)
  combM := NF.bddOr

theorem bind_congr' {α β} (x : Outcome α) (f g : α → Outcome β) (h : ∀ a, f a = g a) : (x >>= f) = x.bind g := by
  cases x <;> simp [Outcome.bind, h]

theorem dnf_desugar (n : Nat) : ∀ (fuel var : Nat) (dnf : Cl),
    Bdd_mk_dnf___rec fuel var n dnf = tRec (dnfCfg n) fuel var dnf := by
  intro fuel
  induction fuel with
  | zero => intro var dnf; unfold Bdd_mk_dnf___rec; rfl
  | succ fuel ih =>
    intro var dnf
    have hrec : (fun v d => Bdd_mk_dnf___rec fuel v n d) = tRec (dnfCfg n) fuel := by
      funext v d; exact ih v d
    unfold Bdd_mk_dnf___rec
    simp only [forIn_range_eq_iter]
    rw [tRec, ← hrec]
    rw [iter_congr _ (nfStep (dnfCfg n) dnf (fun v d => Bdd_mk_dnf___rec fuel v n d) (Bdd_or fuel))]
    · apply bind_congr'
      intro st
      unfold nfPost
      cases st.1 <;> rfl
    · intro st
      rfl

/-! ### `BddVariableSet::mk_disjunctive_clause` (src/_impl_bdd_variable_set.rs:194) = `mkDisjClause` -/

def disjMsg : String := "assertion failed: assert!(index < self.num_vars as usize);"

/-- one round of the loop of `mk_disjunctive_clause` (state: `result`, `shadow_root`) -/
def disjStep (n : Nat) (x : Nat × Option Bool) (s : Arr × Nat) : Outcome (ForInStep (Arr × Nat)) :=
  match x.2 with
  | some value =>
    if (!decide (x.1 < n)) = true then .panic disjMsg
    else
      (Bdd_root_pointer (s.1.push (if value = true then ⟨Rust.asU16 x.1, s.2, 1⟩ else ⟨Rust.asU16 x.1, 1, s.2⟩))).bind
        fun r => .ok (.yield (s.1.push (if value = true then ⟨Rust.asU16 x.1, s.2, 1⟩ else ⟨Rust.asU16 x.1, 1, s.2⟩), r))
  | none => .ok (.yield s)

theorem disjStep_not_done (n : Nat) (x : Nat × Option Bool) (s s' : Arr × Nat) : disjStep n x s ≠ .ok (.done s') := by
  unfold disjStep
  rcases x with ⟨i, _ | b⟩
  · simp
  · simp only
    split
    · simp
    · cases Bdd_root_pointer _ <;> simp [Outcome.bind]

theorem iterL_append {α β} (g : α → β → Outcome (ForInStep β)) (hnd : ∀ a s s', g a s ≠ .ok (.done s')) :
    ∀ (xs ys : List α) (b : β), iterL g (xs ++ ys) b = (iterL g xs b).bind (iterL g ys) := by
  intro xs
  induction xs with
  | nil => intro ys b; rfl
  | cons x xs ih =>
    intro ys b
    rw [List.cons_append, iterL_cons, iterL_cons]
    rcases hg : g x b with st | m | m
    · cases st with
      | done b' => exact absurd hg (hnd _ _ _)
      | yield b' => exact ih ys b'
    · rfl
    · rfl

theorem disj_loop (n : Nat) : ∀ (l : List (Option Bool)) (i : Nat),
    (∀ j b, l[j]? = some (some b) → i + j < n) → i + l.length ≤ 65536 →
    ∃ A sh, disjFrom n i l = .ok (A, sh) ∧
      iterL (disjStep n) (l.mapIdx fun j x => (i + j, x)).reverse (mkTrue n, 0) = .ok (A, sh) ∧
      2 ≤ A.size ∧ A.size ≤ 2 + l.length := by
  intro l
  induction l with
  | nil => intro i _ _; exact ⟨mkTrue n, 0, rfl, rfl, by simp [mkTrue], by simp [mkTrue]⟩
  | cons x t ih =>
    intro i hr hlen
    simp only [List.length_cons] at hlen
    obtain ⟨A, sh, e1, e2, hA2, hAs⟩ := ih (i + 1) (by
      intro j b hj
      have := hr (j + 1) b (by simpa using hj)
      omega) (by omega)
    have hf : (fun (j : Nat) (x : Option Bool) => (i + (j + 1), x)) = (fun j x => (i + 1 + j, x)) := by
      funext j x; congr 1; omega
    rw [List.mapIdx_cons, hf, List.reverse_cons, iterL_append _ (disjStep_not_done n), e2]
    simp only [Outcome.bind, iterL_cons, iterL_nil, disjFrom, e1]
    cases x with
    | none => exact ⟨A, sh, rfl, rfl, hA2, by simp only [List.length_cons]; omega⟩
    | some b =>
      have hi : i < n := by have := hr 0 b (by simp); omega
      have hu : Rust.asU16 i = i := Nat.mod_eq_of_lt (by omega)
      simp only [disjStep, Nat.add_zero, hi, decide_true, Bool.not_true, Bool.false_eq_true, if_false, if_true, hu]
      rw [root_pointer_eq _ (by simp) (by simp only [Array.size_push]; omega)]
      simp only [Outcome.bind]
      refine ⟨_, _, rfl, ?_, by simp only [Array.size_push]; omega, by simp only [Array.size_push, List.length_cons]; omega⟩
      cases b <;> rfl

/-- **`BddVariableSet::mk_disjunctive_clause` as translated = `B.NF.mkDisjClause`**, for a clause over the variable set
    stored in a vector of at most `2^16` cells -/
theorem mk_disjunctive_clause_eq_model (ctx : Nat × Array String × Std.HashMap String Nat) (c : Array (Option Bool))
    (hr : InRange ctx.1 c.toList) (hlen : c.size ≤ 65536) :
    BddVariableSet_mk_disjunctive_clause ctx c = mkDisjClause ctx.1 c.toList := by
  unfold BddVariableSet_mk_disjunctive_clause mkDisjClause
  have hemp : BddPartialValuation_is_empty c = isEmptyClause c.toList := by
    unfold BddPartialValuation_is_empty isEmptyClause
    rw [Array.all_toList]
  rw [hemp]
  by_cases he : isEmptyClause c.toList = true
  · rw [if_pos he, if_pos he]; rfl
  · rw [if_neg he, if_neg he]
    simp only [forIn_array_eq_iterL]
    rw [iterL_congr _ (disjStep ctx.1) _ (by intro x _ s; rcases x with ⟨i, _ | b⟩ <;> rfl)]
    obtain ⟨A, sh, e1, e2, _, _⟩ := disj_loop ctx.1 c.toList 0 (by
      intro j b hj
      have : PVal.get c.toList j = some b := by simp [PVal.get, hj]
      have := hr j b this
      omega) (by simpa using hlen)
    have henum : (Rust.enumerate c).reverse.toList = (c.toList.mapIdx fun j x => (0 + j, x)).reverse := by
      unfold Rust.enumerate
      rw [Array.toList_reverse, Array.toList_mapIdx]
      simp
    rw [henum]
    show (iterL (disjStep ctx.1) _ (mkTrue ctx.1, 0)).bind _ = _
    rw [e2, e1]
    rfl

/-! ### `mk_cnf::_rec` -/

def cnfCfg (ctx : Nat × Array String × Std.HashMap String Nat) : Cfg where
  n := ctx.1
  empty := BddVariableSet_mk_true ctx
  leaf := BddVariableSet_mk_disjunctive_clause ctx
  comb := Bdd_and
  msg := "assertion failed: assert!(var < ctx.num_vars);"
  leafM := mkDisjClause ctx.1
  combM := NF.bddAnd

theorem cnf_desugar (ctx : Nat × Array String × Std.HashMap String Nat) : ∀ (fuel var : Nat) (cnf : Cl),
    Bdd_mk_cnf___rec fuel var ctx cnf = tRec (cnfCfg ctx) fuel var cnf := by
  intro fuel
  induction fuel with
  | zero => intro var cnf; unfold Bdd_mk_cnf___rec; rfl
  | succ fuel ih =>
    intro var cnf
    have hrec : (fun v d => Bdd_mk_cnf___rec fuel v ctx d) = tRec (cnfCfg ctx) fuel := by
      funext v d; exact ih v d
    unfold Bdd_mk_cnf___rec
    simp only [forIn_range_eq_iter]
    rw [tRec, ← hrec]
    rw [iter_congr _ (nfStep (cnfCfg ctx) cnf (fun v d => Bdd_mk_cnf___rec fuel v ctx d) (Bdd_and fuel))]
    · apply bind_congr'
      intro st
      unfold nfPost
      cases st.1 <;> rfl
    · intro st
      rfl


/-! ### the hand models have the common shape -/

@[simp] theorem dnfCfg_n (n : Nat) : (dnfCfg n).n = n := rfl
@[simp] theorem cnfCfg_n (ctx : Nat × Array String × Std.HashMap String Nat) : (cnfCfg ctx).n = ctx.1 := rfl

theorem mkDnfRec_eq_genRec (n : Nat) : ∀ (k : Nat) (cs : List PVal), mkDnfRec n k cs = genRec (dnfCfg n) k cs := by
  intro k
  induction k with
  | zero => intro cs; cases cs <;> rfl
  | succ k ih =>
    intro cs
    match cs with
    | [] => rfl
    | [c] => rfl
    | c1 :: c2 :: t => simp only [mkDnfRec, genRec, ih, dnfCfg_n]; rfl

theorem mkCnfRec_eq_genRec (ctx : Nat × Array String × Std.HashMap String Nat) :
    ∀ (k : Nat) (cs : List PVal), mkCnfRec ctx.1 k cs = genRec (cnfCfg ctx) k cs := by
  intro k
  induction k with
  | zero => intro cs; cases cs <;> rfl
  | succ k ih =>
    intro cs
    match cs with
    | [] => rfl
    | [c] => rfl
    | c1 :: c2 :: t => simp only [mkCnfRec, genRec, ih, cnfCfg_n]; rfl

/-! ### the translated connectives on bounded operands -/

/-- operands on which the translated `or` / `and` are known to agree with the model (`AlgoEqApply`) -/
def PairOK (n S : Nat) (A B : Arr) : Prop := WFo A n ∧ WFo B n ∧ A.size ≤ S ∧ B.size ≤ S

theorem pair_bounds {n S : Nat} {A B : Arr} (hP : PairOK n S A B) (h32 : S * S + 2 ≤ 2 ^ 32) {f : Nat}
    (hf : 3 * (S * S) ≤ f) : A.size * B.size + 2 ≤ 2 ^ 32 ∧ 3 * (A.size * B.size) ≤ f := by
  have : A.size * B.size ≤ S * S := Nat.mul_le_mul hP.2.2.1 hP.2.2.2
  omega

theorem Bdd_or_eq_model {n S : Nat} (h32 : S * S + 2 ≤ 2 ^ 32) (f : Nat) (A B : Arr) (hP : PairOK n S A B)
    (hf : 3 * (S * S) ≤ f) : Bdd_or f A B = .ok (NF.bddOr A B) := by
  obtain ⟨h1, h2⟩ := pair_bounds hP h32 hf
  unfold Bdd_or Gen.Algo.apply
  rw [apply_with_flip_eq_model A B n Gen.or_ _ none none none hP.1 hP.2.1 or_consistent (by simp) (by simp) (by simp)
    h1 f h2]
  rfl

theorem Bdd_and_eq_model {n S : Nat} (h32 : S * S + 2 ≤ 2 ^ 32) (f : Nat) (A B : Arr) (hP : PairOK n S A B)
    (hf : 3 * (S * S) ≤ f) : Bdd_and f A B = .ok (NF.bddAnd A B) := by
  obtain ⟨h1, h2⟩ := pair_bounds hP h32 hf
  unfold Bdd_and Gen.Algo.apply
  rw [apply_with_flip_eq_model A B n Gen.and_ _ none none none hP.1 hP.2.1 and_consistent (by simp) (by simp) (by simp)
    h1 f h2]
  rfl

/-! ### all intermediate results of the hand models are canonical arrays of sub-lists -/

theorem any_filter_or (cs : List PVal) (p1 p2 q : PVal → Bool) :
    ((cs.filter p1).any q || (cs.filter p2).any q) = (cs.filter fun c => p1 c || p2 c).any q := by
  induction cs with
  | nil => rfl
  | cons c t ih =>
    simp only [List.filter_cons]
    cases h1 : p1 c <;> cases h2 : p2 c <;>
      simp only [Bool.or_self, Bool.or_true, Bool.true_or, Bool.false_eq_true, if_false, if_true, List.any_cons,
        ← ih] <;>
      cases q c <;> cases (List.filter p1 t).any q <;> cases (List.filter p2 t).any q <;> rfl

theorem all_filter_or (cs : List PVal) (p1 p2 q : PVal → Bool) :
    ((cs.filter p1).all q && (cs.filter p2).all q) = (cs.filter fun c => p1 c || p2 c).all q := by
  induction cs with
  | nil => rfl
  | cons c t ih =>
    simp only [List.filter_cons]
    cases h1 : p1 c <;> cases h2 : p2 c <;>
      simp only [Bool.or_self, Bool.or_true, Bool.true_or, Bool.false_eq_true, if_false, if_true, List.all_cons,
        ← ih] <;>
      cases q c <;> cases (List.filter p1 t).all q <;> cases (List.filter p2 t).all q <;> rfl

theorem dnf_combOK (n S : Nat) (cs0 : List PVal) (hS : ∀ ds, ds.Sublist cs0 → (canon n (dnfFn ds)).size ≤ S) :
    ∀ (k : Nat) (cs : List PVal), k ≤ n → cs.Sublist cs0 → (∀ c ∈ cs, InRange n c) → Agree (n - k) cs →
      CombOK (dnfCfg n) (PairOK n S) k cs := by
  intro k
  induction k with
  | zero => intro cs _ _ _ _; trivial
  | succ k ih =>
    intro cs hk hsub hr ha
    match cs, hsub, hr, ha with
    | [], _, _, _ => trivial
    | [c], _, _, _ => trivial
    | c1 :: c2 :: t, hsub, hr, ha =>
      have hvar : n - (k + 1) + 1 = n - k := by omega
      simp only [CombOK]
      dsimp only [dnfCfg_n]
      rcases hno : ((c1 :: c2 :: t).any fun c => (c.get (n - (k + 1))).isSome) with _ | _
      · exact ih _ (by omega) hsub hr (by rw [← hvar]; exact ha.skip hno)
      · simp only []
        have hsubr : ∀ o, ∀ c ∈ (c1 :: c2 :: t).filter (fun c => c.get (n - (k + 1)) == o), InRange n c :=
          fun o c hc => hr c (List.mem_filter.1 hc).1
        have hfs : ∀ (p : PVal → Bool), ((c1 :: c2 :: t).filter p).Sublist cs0 :=
          fun p => (List.filter_sublist).trans hsub
        have hag : ∀ o, Agree (n - k) ((c1 :: c2 :: t).filter (fun c => c.get (n - (k + 1)) == o)) :=
          fun o => by rw [← hvar]; exact ha.filter o
        refine ⟨ih _ (by omega) (hfs _) (hsubr none) (hag none), ih _ (by omega) (hfs _) (hsubr (some true)) (hag _),
          ih _ (by omega) (hfs _) (hsubr (some false)) (hag _), ?_⟩
        intro dc ht hf e1 e2 e3
        rw [← mkDnfRec_eq_genRec] at e1 e2 e3
        obtain ⟨r1, e1', s1⟩ := mkDnfRec_spec n k _ (by omega) (hsubr none) (hag none)
        obtain ⟨r2, e2', s2⟩ := mkDnfRec_spec n k _ (by omega) (hsubr (some true)) (hag (some true))
        obtain ⟨r3, e3', s3⟩ := mkDnfRec_spec n k _ (by omega) (hsubr (some false)) (hag (some false))
        have h1 : r1 = dc := by
          have := e1'.symm.trans e1; exact Outcome.ok.inj this
        have h2 : r2 = ht := by
          have := e2'.symm.trans e2; exact Outcome.ok.inj this
        have h3 : r3 = hf := by
          have := e3'.symm.trans e3; exact Outcome.ok.inj this
        subst h1 h2 h3
        have s12 := s1.or s2
        have hz1 : r1.size ≤ S := by rw [s1.eq]; exact hS _ (hfs _)
        have hz2 : r2.size ≤ S := by rw [s2.eq]; exact hS _ (hfs _)
        have hz3 : r3.size ≤ S := by rw [s3.eq]; exact hS _ (hfs _)
        have hz12 : (NF.bddOr r1 r2).size ≤ S := by
          have hc : canon n (fun v => dnfFn ((c1 :: c2 :: t).filter fun c => c.get (n - (k + 1)) == none) v ||
                dnfFn ((c1 :: c2 :: t).filter fun c => c.get (n - (k + 1)) == some true) v) =
              canon n (dnfFn ((c1 :: c2 :: t).filter fun c =>
                (c.get (n - (k + 1)) == none) || (c.get (n - (k + 1)) == some true))) :=
            canon_congr (fun v => any_filter_or (c1 :: c2 :: t) _ _ (fun c => conjFn c v))
          rw [s12.eq, hc]
          exact hS _ (hfs _)
        exact ⟨⟨s1.wfo, s2.wfo, hz1, hz2⟩, ⟨s12.wfo, s3.wfo, hz12, hz3⟩⟩

theorem cnf_combOK (ctx : Nat × Array String × Std.HashMap String Nat) (S : Nat) (cs0 : List PVal)
    (hS : ∀ ds, ds.Sublist cs0 → (canon ctx.1 (cnfFn ds)).size ≤ S) :
    ∀ (k : Nat) (cs : List PVal), k ≤ ctx.1 → cs.Sublist cs0 → (∀ c ∈ cs, InRange ctx.1 c) → Agree (ctx.1 - k) cs →
      CombOK (cnfCfg ctx) (PairOK ctx.1 S) k cs := by
  intro k
  induction k with
  | zero => intro cs _ _ _ _; trivial
  | succ k ih =>
    intro cs hk hsub hr ha
    match cs, hsub, hr, ha with
    | [], _, _, _ => trivial
    | [c], _, _, _ => trivial
    | c1 :: c2 :: t, hsub, hr, ha =>
      have hvar : ctx.1 - (k + 1) + 1 = ctx.1 - k := by omega
      simp only [CombOK]
      dsimp only [cnfCfg_n]
      rcases hno : ((c1 :: c2 :: t).any fun c => (c.get (ctx.1 - (k + 1))).isSome) with _ | _
      · exact ih _ (by omega) hsub hr (by rw [← hvar]; exact ha.skip hno)
      · simp only []
        have hsubr : ∀ o, ∀ c ∈ (c1 :: c2 :: t).filter (fun c => c.get (ctx.1 - (k + 1)) == o), InRange ctx.1 c :=
          fun o c hc => hr c (List.mem_filter.1 hc).1
        have hfs : ∀ (p : PVal → Bool), ((c1 :: c2 :: t).filter p).Sublist cs0 :=
          fun p => (List.filter_sublist).trans hsub
        have hag : ∀ o, Agree (ctx.1 - k) ((c1 :: c2 :: t).filter (fun c => c.get (ctx.1 - (k + 1)) == o)) :=
          fun o => by rw [← hvar]; exact ha.filter o
        refine ⟨ih _ (by omega) (hfs _) (hsubr none) (hag none), ih _ (by omega) (hfs _) (hsubr (some true)) (hag _),
          ih _ (by omega) (hfs _) (hsubr (some false)) (hag _), ?_⟩
        intro dc ht hf e1 e2 e3
        rw [← mkCnfRec_eq_genRec] at e1 e2 e3
        obtain ⟨r1, e1', s1⟩ := mkCnfRec_spec ctx.1 k _ (by omega) (hsubr none) (hag none)
        obtain ⟨r2, e2', s2⟩ := mkCnfRec_spec ctx.1 k _ (by omega) (hsubr (some true)) (hag (some true))
        obtain ⟨r3, e3', s3⟩ := mkCnfRec_spec ctx.1 k _ (by omega) (hsubr (some false)) (hag (some false))
        have h1 : r1 = dc := by
          have := e1'.symm.trans e1; exact Outcome.ok.inj this
        have h2 : r2 = ht := by
          have := e2'.symm.trans e2; exact Outcome.ok.inj this
        have h3 : r3 = hf := by
          have := e3'.symm.trans e3; exact Outcome.ok.inj this
        subst h1 h2 h3
        have s12 := s1.and s2
        have hz1 : r1.size ≤ S := by rw [s1.eq]; exact hS _ (hfs _)
        have hz2 : r2.size ≤ S := by rw [s2.eq]; exact hS _ (hfs _)
        have hz3 : r3.size ≤ S := by rw [s3.eq]; exact hS _ (hfs _)
        have hz12 : (NF.bddAnd r1 r2).size ≤ S := by
          have hc : canon ctx.1 (fun v => cnfFn ((c1 :: c2 :: t).filter fun c => c.get (ctx.1 - (k + 1)) == none) v &&
                cnfFn ((c1 :: c2 :: t).filter fun c => c.get (ctx.1 - (k + 1)) == some true) v) =
              canon ctx.1 (cnfFn ((c1 :: c2 :: t).filter fun c =>
                (c.get (ctx.1 - (k + 1)) == none) || (c.get (ctx.1 - (k + 1)) == some true))) :=
            canon_congr (fun v => all_filter_or (c1 :: c2 :: t) _ _ (fun c => disjFn c v))
          rw [s12.eq, hc]
          exact hS _ (hfs _)
        exact ⟨⟨s1.wfo, s2.wfo, hz1, hz2⟩, ⟨s12.wfo, s3.wfo, hz12, hz3⟩⟩

end B.AlgoEq2NF
