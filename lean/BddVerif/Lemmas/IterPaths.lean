import BddVerif.Model.Iter
import BddVerif.Core.Inj
/-!
Lemmas for C08, part 1: partial valuations (`pvGet`/`pvSet`) and the recursive specification `paths`:
in a reduced array the clauses of `paths A p acc` are pairwise disjoint, a valuation satisfies one of
them iff it satisfies `acc` and the function of `p`, and there is at least one clause unless `p = 0`.
-/
namespace B.Iter
open B

/-! ### partial valuations -/

theorem pvGet_pvSet (c : PV) (i j : Nat) (x : Option Bool) :
    pvGet (pvSet c i x) j = if j = i then x else pvGet c j := by
  unfold pvGet pvSet pvCell
  rw [List.getElem?_set]
  by_cases h : i = j
  · subst h
    simp [List.length_append, List.length_replicate]
    have : i < c.length + (i + 1 - c.length) := by omega
    simp [this]
  · have h' : ¬ j = i := fun e => h e.symm
    simp only [h, h', if_false]
    rw [List.getElem?_append]
    split
    · rfl
    · rename_i hlt
      rw [List.getElem?_replicate]
      have : c[j]? = none := by simp; omega
      rw [this]
      split <;> rfl

theorem pvGet_pvSet_self (c : PV) (i : Nat) (x : Option Bool) : pvGet (pvSet c i x) i = x := by
  simp [pvGet_pvSet]

theorem pvGet_pvSet_ne (c : PV) (i j : Nat) (x : Option Bool) (h : j ≠ i) :
    pvGet (pvSet c i x) j = pvGet c j := by
  simp [pvGet_pvSet, h]

theorem pvGet_nil (i : Nat) : pvGet [] i = none := by simp [pvGet]

theorem pvGet_replicate (n i : Nat) : pvGet (List.replicate n none) i = none := by
  unfold pvGet
  rw [List.getElem?_replicate]
  split <;> rfl

theorem pvSet_length (c : PV) (i : Nat) (x : Option Bool) (h : i < c.length) :
    (pvSet c i x).length = c.length := by
  unfold pvSet pvCell
  simp
  omega

theorem pvNorm_length (n : Nat) (c : PV) : (pvNorm n c).length = n := by simp [pvNorm]

theorem pvGet_pvNorm (n : Nat) (c : PV) (i : Nat) :
    pvGet (pvNorm n c) i = if i < n then pvGet c i else none := by
  unfold pvNorm
  conv => lhs; unfold pvGet
  by_cases h : i < n
  · simp [h, pvGet]
  · simp [h]

/-- two partial valuations with the same `get_value` everywhere have the same normal form -/
theorem pvNorm_congr (n : Nat) (c d : PV) (h : ∀ i, pvGet c i = pvGet d i) : pvNorm n c = pvNorm n d := by
  unfold pvNorm
  apply List.map_congr_left
  intro i _
  exact h i

theorem pvNorm_pvSet (n : Nat) (c : PV) (i : Nat) (x : Option Bool) (hi : i < n) :
    pvNorm n (pvSet c i x) = pvSet (pvNorm n c) i x := by
  apply List.ext_getElem?
  intro j
  have hl : (pvSet (pvNorm n c) i x).length = n := by
    rw [pvSet_length _ _ _ (by simp [pvNorm_length]; exact hi), pvNorm_length]
  by_cases hj : j < n
  · have e1 : ∀ d : PV, d.length = n → d[j]? = some (pvGet d j) := by
      intro d hd
      have : j < d.length := by omega
      simp [pvGet, this]
    rw [e1 _ (pvNorm_length _ _), e1 _ hl, pvGet_pvNorm, pvGet_pvSet, pvGet_pvSet, pvGet_pvNorm]
    simp [hj]
  · have e1 : ∀ d : PV, d.length = n → d[j]? = none := by
      intro d hd
      simp; omega
    rw [e1 _ (pvNorm_length _ _), e1 _ hl]

/-- a list of length `n` is its own normal form -/
theorem pvNorm_self (n : Nat) (c : PV) (h : c.length = n) : pvNorm n c = c := by
  apply List.ext_getElem?
  intro j
  by_cases hj : j < n
  · have h1 : j < (pvNorm n c).length := by rw [pvNorm_length]; exact hj
    have h2 : j < c.length := by omega
    have := pvGet_pvNorm n c j
    simp [pvGet, h1, h2, hj] at this
    simp [h1, h2, this]
  · have h1 : (pvNorm n c)[j]? = none := by simp [pvNorm_length]; omega
    have h2 : c[j]? = none := by simp; omega
    rw [h1, h2]

theorem pvNorm_nil (n : Nat) : pvNorm n [] = List.replicate n none := by
  apply List.ext_getElem?
  intro j
  by_cases hj : j < n
  · simp [pvNorm, pvGet, hj]
  · simp [pvNorm, hj]

/-! ### satisfaction of clauses -/

/-- positions `≥ k` are unset -/
def Free (c : PV) (k : Nat) : Prop := ∀ i, k ≤ i → pvGet c i = none

theorem Free.mono {c : PV} {k k' : Nat} (h : Free c k) (hk : k ≤ k') : Free c k' :=
  fun i hi => h i (by omega)

theorem Free.pvSet {c : PV} {k k' : Nat} (h : Free c k) (i : Nat) (x : Option Bool) (hi : i < k') (hk : k ≤ k') :
    Free (pvSet c i x) k' := by
  intro j hj
  rw [pvGet_pvSet_ne _ _ _ _ (by omega)]
  exact h j (by omega)

theorem sat_pvSet (c : PV) (i : Nat) (b : Bool) (v : Nat → Bool) (h : pvGet c i = none) :
    Sat (pvSet c i (some b)) v ↔ Sat c v ∧ v i = b := by
  constructor
  · intro hs
    constructor
    · intro j b' hj
      have hne : j ≠ i := by
        intro e; subst e; rw [h] at hj; cases hj
      apply hs j b'
      rw [pvGet_pvSet_ne _ _ _ _ hne]; exact hj
    · apply hs i b
      exact pvGet_pvSet_self _ _ _
  · intro ⟨hs, hv⟩ j b' hj
    rw [pvGet_pvSet] at hj
    split at hj
    · rename_i e; subst e; cases hj; exact hv
    · exact hs j b' hj

theorem sat_congr (c d : PV) (v : Nat → Bool) (h : ∀ i, pvGet c i = pvGet d i) : Sat c v ↔ Sat d v := by
  unfold Sat
  constructor
  · intro hs i b hi; exact hs i b (by rw [h]; exact hi)
  · intro hs i b hi; exact hs i b (by rw [← h]; exact hi)

/-! ### the specification `paths` -/

theorem pathsF_zero (A : Arr) (f : Nat) (acc : PV) : pathsF A f 0 acc = [] := by
  cases f <;> simp [pathsF]

theorem pathsF_one (A : Arr) (f : Nat) (acc : PV) : pathsF A f 1 acc = [acc] := by
  cases f <;> simp [pathsF]

theorem pathsF_succ (A : Arr) (f p : Nat) (acc : PV) (hp : 2 ≤ p) (nd : Node) (h : A[p]? = some nd) :
    pathsF A (f + 1) p acc =
      pathsF A f nd.low (pvSet acc nd.var (some false)) ++ pathsF A f nd.high (pvSet acc nd.var (some true)) := by
  match p, hp with
  | p + 2, _ => simp [pathsF, h]

theorem paths_zero (A : Arr) (acc : PV) : paths A 0 acc = [] := pathsF_zero A 0 acc
theorem paths_one (A : Arr) (acc : PV) : paths A 1 acc = [acc] := pathsF_one A 1 acc

/-- fuel adequacy in post-order arrays -/
theorem pathsF_fuel {A : Arr} {n : Nat} (h : Red A n) :
    ∀ p f acc, p < A.size → p ≤ f → pathsF A f p acc = pathsF A p p acc := by
  intro p
  induction p using Nat.strongRecOn with
  | _ p ih =>
    intro f acc hp hf
    by_cases h0 : p = 0
    · subst h0; simp [pathsF_zero]
    by_cases h1 : p = 1
    · subst h1; simp [pathsF_one]
    have hp2 : 2 ≤ p := by omega
    have hnd : A[p]? = some A[p] := by simp [hp]
    obtain ⟨_, hl, hh, _, _, _⟩ := h.inner p A[p] hp2 hnd
    obtain ⟨f', rfl⟩ : ∃ f', f = f' + 1 := ⟨f - 1, by omega⟩
    obtain ⟨p', hp'⟩ : ∃ p', p = p' + 1 := ⟨p - 1, by omega⟩
    rw [pathsF_succ A f' p acc hp2 _ hnd]
    conv => rhs; rw [hp']
    rw [pathsF_succ A p' (p' + 1) acc (by omega) A[p] (by rw [← hp']; exact hnd)]
    rw [ih _ (by omega) f' _ (by omega) (by omega), ih _ (by omega) f' _ (by omega) (by omega),
      ih _ (by omega) p' _ (by omega) (by omega), ih _ (by omega) p' _ (by omega) (by omega)]

theorem paths_node {A : Arr} {n : Nat} (h : Red A n) (p : Nat) (acc : PV) (hp2 : 2 ≤ p) (nd : Node)
    (hnd : A[p]? = some nd) :
    paths A p acc =
      paths A nd.low (pvSet acc nd.var (some false)) ++ paths A nd.high (pvSet acc nd.var (some true)) := by
  have hps : p < A.size := by
    rcases Nat.lt_or_ge p A.size with h' | h'
    · exact h'
    · simp [Array.getElem?_eq_none h'] at hnd
  obtain ⟨_, hl, hh, _, _, _⟩ := h.inner p nd hp2 hnd
  obtain ⟨p', rfl⟩ : ∃ p', p = p' + 1 := ⟨p - 1, by omega⟩
  unfold paths
  rw [pathsF_succ A p' (p' + 1) acc hp2 nd hnd,
    pathsF_fuel h _ p' _ (by omega) (by omega), pathsF_fuel h _ p' _ (by omega) (by omega)]

theorem varOf_node (A : Arr) (n p : Nat) (hp2 : 2 ≤ p) (nd : Node) (hnd : A[p]? = some nd) :
    varOf A n p = nd.var := by
  have : ¬ p < 2 := by omega
  simp [varOf, hnd, this]

theorem varOf_le {A : Arr} {n : Nat} (h : Red A n) (p : Nat) : varOf A n p ≤ n := by
  unfold varOf
  split
  · exact Nat.le_refl _
  · split
    · rename_i nd hnd
      have := (h.inner p nd (by omega) hnd).1
      omega
    · exact Nat.le_refl _

/-- every clause below `p` keeps what `acc` says above the variable of `p` -/
theorem paths_frame {A : Arr} {n : Nat} (h : Red A n) :
    ∀ p, p < A.size → ∀ acc c, c ∈ paths A p acc → ∀ i, i < varOf A n p → pvGet c i = pvGet acc i := by
  intro p
  induction p using Nat.strongRecOn with
  | _ p ih =>
    intro hp acc c hc i hi
    by_cases h0 : p = 0
    · subst h0; simp [paths_zero] at hc
    by_cases h1 : p = 1
    · subst h1; simp [paths_one] at hc; rw [hc]
    have hp2 : 2 ≤ p := by omega
    have hnd : A[p]? = some A[p] := by simp [hp]
    obtain ⟨_, hl, hh, _, hvl, hvh⟩ := h.inner p A[p] hp2 hnd
    rw [varOf_node A n p hp2 _ hnd] at hi
    rw [paths_node h p acc hp2 _ hnd, List.mem_append] at hc
    rcases hc with hc | hc
    · rw [ih _ hl (by omega) _ _ hc i (by omega), pvGet_pvSet_ne _ _ _ _ (by omega)]
    · rw [ih _ hh (by omega) _ _ hc i (by omega), pvGet_pvSet_ne _ _ _ _ (by omega)]

/-- the clauses have the length of the accumulator when it covers all variables -/
theorem paths_length {A : Arr} {n : Nat} (h : Red A n) :
    ∀ p, p < A.size → ∀ acc c, acc.length = n → c ∈ paths A p acc → c.length = n := by
  intro p
  induction p using Nat.strongRecOn with
  | _ p ih =>
    intro hp acc c hacc hc
    by_cases h0 : p = 0
    · subst h0; simp [paths_zero] at hc
    by_cases h1 : p = 1
    · subst h1; simp [paths_one] at hc; rw [hc]; exact hacc
    have hp2 : 2 ≤ p := by omega
    have hnd : A[p]? = some A[p] := by simp [hp]
    obtain ⟨hv, hl, hh, _, _, _⟩ := h.inner p A[p] hp2 hnd
    rw [paths_node h p acc hp2 _ hnd, List.mem_append] at hc
    rcases hc with hc | hc
    · exact ih _ hl (by omega) _ _ (by rw [pvSet_length _ _ _ (by omega)]; exact hacc) hc
    · exact ih _ hh (by omega) _ _ (by rw [pvSet_length _ _ _ (by omega)]; exact hacc) hc

/-- coverage: a valuation satisfies some clause below `p` iff it satisfies `acc` and the function of `p` -/
theorem paths_cover {A : Arr} {n : Nat} (h : Red A n) :
    ∀ p, p < A.size → ∀ acc, Free acc (varOf A n p) → ∀ v,
      (∃ c, c ∈ paths A p acc ∧ Sat c v) ↔ (Sat acc v ∧ ev A v p = true) := by
  intro p
  induction p using Nat.strongRecOn with
  | _ p ih =>
    intro hp acc hfree v
    by_cases h0 : p = 0
    · subst h0; simp [paths_zero, ev_zero]
    by_cases h1 : p = 1
    · subst h1; simp [paths_one, ev_one]
    have hp2 : 2 ≤ p := by omega
    have hnd : A[p]? = some A[p] := by simp [hp]
    obtain ⟨hv, hl, hh, _, hvl, hvh⟩ := h.inner p A[p] hp2 hnd
    have hvar := varOf_node A n p hp2 _ hnd
    have hnone : pvGet acc A[p].var = none := hfree _ (by omega)
    have ihl := ih _ hl (by omega) (pvSet acc A[p].var (some false))
      (Free.pvSet hfree _ _ hvl (by omega)) v
    have ihh := ih _ hh (by omega) (pvSet acc A[p].var (some true))
      (Free.pvSet hfree _ _ hvh (by omega)) v
    rw [sat_pvSet _ _ _ _ hnone] at ihl ihh
    rw [paths_node h p acc hp2 _ hnd, ev_node h v p hp2 _ hnd]
    constructor
    · rintro ⟨c, hc, hs⟩
      rw [List.mem_append] at hc
      rcases hc with hc | hc
      · obtain ⟨⟨h1, h2⟩, h3⟩ := ihl.mp ⟨c, hc, hs⟩
        simp [h2, h1, h3]
      · obtain ⟨⟨h1, h2⟩, h3⟩ := ihh.mp ⟨c, hc, hs⟩
        simp [h2, h1, h3]
    · rintro ⟨hs, he⟩
      by_cases hb : v A[p].var = true
      · simp [hb] at he
        obtain ⟨c, hc, hsc⟩ := ihh.mpr ⟨⟨hs, hb⟩, he⟩
        exact ⟨c, List.mem_append_right _ hc, hsc⟩
      · have hb' : v A[p].var = false := by simpa using hb
        simp [hb'] at he
        obtain ⟨c, hc, hsc⟩ := ihl.mpr ⟨⟨hs, hb'⟩, he⟩
        exact ⟨c, List.mem_append_left _ hc, hsc⟩

/-- two clauses have no common valuation -/
def Disjoint (c d : PV) : Prop := ∀ v, ¬ (Sat c v ∧ Sat d v)

/-- disjointness: no valuation satisfies two clauses of the list (as positions, so also no clause twice) -/
theorem paths_disjoint {A : Arr} {n : Nat} (h : Red A n) :
    ∀ p, p < A.size → ∀ acc, List.Pairwise Disjoint (paths A p acc) := by
  intro p
  induction p using Nat.strongRecOn with
  | _ p ih =>
    intro hp acc
    by_cases h0 : p = 0
    · subst h0; simp [paths_zero]
    by_cases h1 : p = 1
    · subst h1; simp [paths_one]
    have hp2 : 2 ≤ p := by omega
    have hnd : A[p]? = some A[p] := by simp [hp]
    obtain ⟨hv, hl, hh, _, hvl, hvh⟩ := h.inner p A[p] hp2 hnd
    rw [paths_node h p acc hp2 _ hnd, List.pairwise_append]
    refine ⟨ih _ hl (by omega) _, ih _ hh (by omega) _, ?_⟩
    intro c hc d hd v ⟨hsc, hsd⟩
    have e1 := paths_frame h _ (by omega) _ _ hc A[p].var hvl
    have e2 := paths_frame h _ (by omega) _ _ hd A[p].var hvh
    rw [pvGet_pvSet_self] at e1 e2
    have := hsc _ _ e1
    have := hsd _ _ e2
    simp_all

/-- no dead end: below a non-zero pointer there is at least one clause -/
theorem paths_ne_nil {A : Arr} {n : Nat} (h : Red A n) :
    ∀ p, p < A.size → p ≠ 0 → ∀ acc, paths A p acc ≠ [] := by
  intro p
  induction p using Nat.strongRecOn with
  | _ p ih =>
    intro hp hp0 acc
    by_cases h1 : p = 1
    · subst h1; simp [paths_one]
    have hp2 : 2 ≤ p := by omega
    have hnd : A[p]? = some A[p] := by simp [hp]
    obtain ⟨hv, hl, hh, hne, _, _⟩ := h.inner p A[p] hp2 hnd
    rw [paths_node h p acc hp2 _ hnd]
    by_cases hl0 : A[p].low = 0
    · have := ih _ hh (by omega) (by omega) (pvSet acc A[p].var (some true))
      simp [this]
    · have := ih _ hl (by omega) hl0 (pvSet acc A[p].var (some false))
      simp [this]

/-- normalising commutes with the specification (all variables are below `n`) -/
theorem paths_norm {A : Arr} {n : Nat} (h : Red A n) :
    ∀ p, p < A.size → ∀ acc, (paths A p acc).map (pvNorm n) = paths A p (pvNorm n acc) := by
  intro p
  induction p using Nat.strongRecOn with
  | _ p ih =>
    intro hp acc
    by_cases h0 : p = 0
    · subst h0; simp [paths_zero]
    by_cases h1 : p = 1
    · subst h1; simp [paths_one]
    have hp2 : 2 ≤ p := by omega
    have hnd : A[p]? = some A[p] := by simp [hp]
    obtain ⟨hv, hl, hh, _, _, _⟩ := h.inner p A[p] hp2 hnd
    rw [paths_node h p acc hp2 _ hnd, paths_node h p _ hp2 _ hnd, List.map_append,
      ih _ hl (by omega), ih _ hh (by omega), pvNorm_pvSet _ _ _ _ hv, pvNorm_pvSet _ _ _ _ hv]

/-- the specification respects extensional equality of the accumulator, up to normalisation -/
theorem paths_congr {A : Arr} {n : Nat} (h : Red A n) (p : Nat) (hp : p < A.size) (acc acc' : PV)
    (he : ∀ i, pvGet acc i = pvGet acc' i) :
    (paths A p acc).map (pvNorm n) = (paths A p acc').map (pvNorm n) := by
  rw [paths_norm h p hp, paths_norm h p hp, pvNorm_congr n acc acc' he]

end B.Iter
