import BddVerif.Lemmas.C02HistoryKept
import BddVerif.Lemmas.C02HistorySubst
import BddVerif.Props.C03
import BddVerif.Props.C04
import BddVerif.Props.C05
import BddVerif.Props.C06
import BddVerif.Props.C07
import BddVerif.Props.C10
import BddVerif.Props.C12
import BddVerif.Props.C15
import BddVerif.Props.C16
import BddVerif.Props.C17
/-!
# C02 — the history theorem over ALL modelled public operations

`Built n a`: the array `a` (a Bdd over `n` variables) is obtained by a finite sequence of the modelled public
operations of the library, starting from constants / literals / clauses / oracle-built operands. One
constructor per operation; the side conditions of a constructor are exactly the hypotheses of the
canonical-form theorem of that operation (proved in the property file named beside it). For operations whose
model returns an `Outcome`/`Option`, the constructor takes the equation "the model returned `ok r` / `some r`".

`built_canonical`: whatever sequence of operations produced it, the Bdd is canonical and has the variable
count of its index. `built_unique`: two results of any two histories over the same variable count that
denote the same function are the same array.

The variable count is an INDEX of `Built` (not a parameter): `set_num_vars`, `transfer_from`, `Bdd::from(valuation)`
and `eval_expression` produce Bdds over another variable count than their operands.

/- NOT COVERED: nothing of the requested list is left out. Remarks on the precise scope:
   * `substitute`: all three paths are covered (`B.C02H.substitute_canonical`, Lemmas/C02HistorySubst.lean:
     the clash path, left open by C07, is closed by `kept_canonical`); the side condition `n + 1 < 65536`
     is the `u16` bound of `substitute_spec`.
   * `rename_variables`, `rename_variable`, `set_num_vars`, `transfer_from`: covered for every call on which
     the model returns `ok` (`transfer_from`: `Some`), also when the variable count changes
     (`kept_canonical`, Lemmas/C02HistoryKept.lean). `transfer_from` carries the hypothesis of
     `transfer_some_iff` that the operand is a Bdd of the source set (`n ≤ src.length`).
   * deserialisation: covered as the round trips C12 proves (`read(write(b))`, `from_nodes(to_nodes(b))`),
     with C12's hypothesis `Fits` (fields fit `u16`/`u32`) for text and bytes. Reading ARBITRARY text/bytes/
     node lists is not an operation that yields canonical Bdds (it yields whatever was written) and is
     deliberately not a constructor.
   * `to_optimized_dnf` is the model with `card = B.exactCard` (`opt_dnf_roundtrip_exactCard`).
   * operations that do not return a Bdd (`cmp_implies`, `check_binary_op`/dry run, cardinalities, witnesses,
     valuation iterators, `to_dnf` … themselves) have no constructor.
   * `fix_bdd_alignment` is private to the nested apply and has no constructor of its own. -/
-/
namespace B.C02H
open B B.Drive B.Ren B.C02

/-! ### small bridges between the workers' notions -/

theorem of_eq_canon {n : Nat} {r : Arr} {f : (Nat → Bool) → Bool} (h : r = canon n f) :
    Canonical r ∧ numVars r = n := h ▸ canon_ok n f

theorem ok_inj {α} {a b : α} (h : Outcome.ok a = Outcome.ok b) : a = b := by cases h; rfl

/-- a canonical array over `n` variables is a well-formed operand over `n` variables -/
theorem wfo_of {n : Nat} {a : Arr} (h : Canonical a ∧ numVars a = n) : WFo a n := by
  have := Canonical.wfo h.1; rw [h.2] at this; exact this

theorem wfo_of' {n : Nat} {a : Arr} (h : Canonical a ∧ numVars a = n) : WFo a (numVars a) :=
  Canonical.wfo h.1

/-- a canonical array over `n` variables is `canon n` of its own function, which looks at the first `n`
    variables only (`DepBelow` = `B.NF.Dep` = `B.Lim.Dep` = `B.VS.Dep`, definitionally) -/
theorem eq_canon_of {n : Nat} {a : Arr} (h : Canonical a ∧ numVars a = n) :
    a = canon n (den a) ∧ DepBelow n (den a) := by
  obtain ⟨hc, hn⟩ := h
  have hd := hc.depBelow
  rw [hn] at hd
  have : a = canon (numVars a) (den a) := hc
  rw [hn] at this
  exact ⟨this, hd⟩

/-- `not` maps canonical forms to canonical forms -/
theorem not_ok {n : Nat} {a : Arr} (h : Canonical a ∧ numVars a = n) :
    Canonical (bddNot a) ∧ numVars (bddNot a) = n := by
  obtain ⟨e, hd⟩ := eq_canon_of h
  have := bddNot_canon n (den a) hd
  rw [← e] at this
  exact of_eq_canon this

theorem pickRandom_nil (A : Arr) (flips : List Bool) : pickRandom A [] flips = A := by
  simp [pickRandom, sortedVars, dedupAdj, rPickRandom]

/-! ### the histories -/

/-- `Built n a`: `a` is a Bdd over `n` variables produced by some finite sequence of modelled public operations -/
inductive Built : Nat → Arr → Prop
  -- constructors of `BddVariableSet` (C16, C10)
  | mkFalse (n : Nat) : Built n (mkFalse n)
  | mkTrue (n : Nat) : Built n (mkTrue n)
  /-- any oracle-built operand -/
  | canonOf (n : Nat) (f : (Nat → Bool) → Bool) : Built n (canon n f)
  | mkVar (n x : Nat) : x < n → Built n (mkVar n x)
  | mkNotVar (n x : Nat) : x < n → Built n (mkNotVar n x)
  | mkLiteral (n x : Nat) (b : Bool) : x < n → Built n (mkLiteral n x b)
  /-- `Bdd::from(valuation)` -/
  | valuation (bs : List Bool) : Built bs.length (VS.valuationBdd bs)
  | conjClause (n : Nat) (c : PVal) {r : Arr} : NF.InRange n c → NF.mkConjClause n c = .ok r → Built n r
  | disjClause (n : Nat) (c : PVal) {r : Arr} : NF.InRange n c → NF.mkDisjClause n c = .ok r → Built n r
  | mkDnf (n : Nat) (cs : List PVal) {r : Arr} : (∀ c ∈ cs, NF.InRange n c) → NF.mkDnf n cs = .ok r → Built n r
  | mkCnf (n : Nat) (cs : List PVal) {r : Arr} : (∀ c ∈ cs, NF.InRange n c) → NF.mkCnf n cs = .ok r → Built n r
  | satExactlyK (n k : Nat) (vars : List Nat) {r : Arr} :
      (∀ x ∈ vars, x < n) → VS.mkSatExactlyK n k vars = .ok r → Built n r
  | satUpToK (n k : Nat) (vars : List Nat) {r : Arr} :
      (∀ x ∈ vars, x < n) → VS.mkSatUpToK n k vars = .ok r → Built n r
  -- `not`, binary / ternary operators with fused flips, size-limited binary operator (C01, C04, C05)
  | not {n a} : Built n a → Built n (bddNot a)
  | binary {n a b} (op : Op2) (c : Bool → Bool → Bool) (fl fr fo : Option Nat) :
      Built n a → Built n b → Consistent op c →
      (∀ x, fl = some x → x < n) → (∀ x, fr = some x → x < n) → (∀ x, fo = some x → x < n) →
      Built n (applyWithFlip a b op fl fr fo)
  | ternary {n a b d} (op : Op3) (c : Bool → Bool → Bool → Bool) (fa fb fc fo : Option Nat) :
      Built n a → Built n b → Built n d → Consistent3 op c →
      (∀ x, fa = some x → x < n) → (∀ x, fb = some x → x < n) → (∀ x, fc = some x → x < n) →
      Built n (ternaryApply a b d op fa fb fc fo)
  | binaryLimit {n a b r} (lim : Nat) (op : Op2) (c : Bool → Bool → Bool) (fl fr fo : Option Nat) :
      Built n a → Built n b → Consistent op c →
      (∀ x, fl = some x → x < n) → (∀ x, fr = some x → x < n) → (∀ x, fo = some x → x < n) →
      Lim.applyLimit lim a b op fl fr fo = some r → Built n r
  -- nested apply and quantification (C03)
  | nested {n a b} (trig : Nat → Bool) (outer inner : Op2) (c d : Bool → Bool → Bool) :
      Built n a → Built n b → Consistent outer c → Consistent inner d → (∀ x, d x x = x) →
      Built n (nestedApply a b trig outer inner)
  | binaryOpWithExists {n a b} (op : Op2) (c : Bool → Bool → Bool) (vars : List Nat) :
      Built n a → Built n b → Consistent op c → Built n (binaryOpWithExists a b op vars)
  | binaryOpWithForAll {n a b} (op : Op2) (c : Bool → Bool → Bool) (vars : List Nat) :
      Built n a → Built n b → Consistent op c → Built n (binaryOpWithForAll a b op vars)
  | exists {n a} (vars : List Nat) : Built n a → Built n (bddExists a vars)
  | forAll {n a} (vars : List Nat) : Built n a → Built n (bddForAll a vars)
  | varExists {n a} (x : Nat) : Built n a → x < n → Built n (varExists a x)
  | varForAll {n a} (x : Nat) : Built n a → x < n → Built n (varForAll a x)
  -- selection, restriction, picking (C06)
  | select {n a} (lits : List (Nat × Bool)) : Built n a → (∀ l ∈ lits, l.1 < n) → Built n (select a lits)
  | varSelect {n a} (x : Nat) (b : Bool) : Built n a → x < n → Built n (varSelect a x b)
  | restrict {n a} (lits : List (Nat × Bool)) : Built n a → Built n (restrict a lits)
  | varRestrict {n a} (x : Nat) (b : Bool) : Built n a → Built n (varRestrict a x b)
  | varPick {n a} (x : Nat) : Built n a → x < n → Built n (varPick a x)
  | varPickRandom {n a} (x : Nat) (coin : Bool) : Built n a → x < n → Built n (varPickRandom a x coin)
  | pick {n a} (vars : List Nat) : Built n a → (∀ x ∈ vars, x < n) → Built n (pick a vars)
  | pickRandom {n a} (vars : List Nat) (flips : List Bool) :
      Built n a → (∀ x ∈ vars, x < n) → Built n (pickRandom a vars flips)
  -- substitution (C07)
  | substitute {n f g r} (x : Nat) :
      Built n f → Built n g → n + 1 < 65536 → Subst.substitute f x g = .ok r → Built n r
  -- renaming, re-counting, transfer between variable sets (C17)
  | renameVariables {n a r} (π : VarMap) : Built n a → renameVariables a π = .ok r → Built n r
  | renameVariable {n a r} (old new : Nat) : Built n a → renameVariable a old new = .ok r → Built n r
  | setNumVars {n a r} (m : Nat) : Built n a → setNumVars a m = .ok r → Built m r
  | transferFrom {n a r} (tgt src : List String) :
      Built n a → n ≤ src.length → transferFrom tgt a src = .ok r → Built tgt.length r
  -- rebuilding from an extracted normal form (C10)
  | ofDnf {n a cs r} : Built n a → NF.toDnf a = .ok cs → NF.mkDnf n cs = .ok r → Built n r
  | ofCnf {n a cs r} : Built n a → NF.toCnf a = .ok cs → NF.mkCnf n cs = .ok r → Built n r
  | ofOptimizedDnf {n a cs r} : Built n a → NF.toOptimizedDnf a = .ok cs → NF.mkDnf n cs = .ok r → Built n r
  -- reading back the library's own serialisations (C12)
  | readText {n a r} : Built n a → B.Props.C12.Fits a →
      Serial.readText (Serial.asciiBytes (Serial.writeText a)) = .ok r → Built n r
  | readBytes {n a r} : Built n a → B.Props.C12.Fits a →
      Serial.readBytes (Serial.writeBytes a) = .ok r → Built n r
  | fromNodes {n a r} : Built n a → Serial.fromNodes (Serial.toNodes a) = .ok r → Built n r
  -- expressions (C15)
  | evalExpr (vars : List Name) (e : Expr) {r : Arr} :
      ExprM.evalExpr vars e = some r → Built vars.length r
  | evalString (vars : List Name) (s : List Char) {r : Arr} :
      ExprM.evalStringO vars s = .ok r → Built vars.length r
  /-- `eval_expression(b.to_boolean_expression(vars))` -/
  | evalOfExport {n a e r} (vars : List Name) : Built n a → vars.length = n → vars.Nodup →
      ExprM.toExpr vars a = .ok e → ExprM.evalExpr vars e = some r → Built n r

open B.Props in
/-- **Whatever sequence of operations produced it, the Bdd is canonical** (and over `n` variables). -/
theorem built_canonical {n : Nat} {a : Arr} (h : Built n a) : Canonical a ∧ numVars a = n := by
  induction h with
  | mkFalse n => exact ⟨canonical_mkFalse n, rfl⟩
  | mkTrue n => exact ⟨canonical_mkTrue n, rfl⟩
  | canonOf n f => exact canon_ok n f
  | mkVar n x hx => exact of_eq_canon (C16.literal_spec n x hx).1
  | mkNotVar n x hx => exact of_eq_canon (C16.literal_spec n x hx).2.2.1
  | mkLiteral n x b hx => exact of_eq_canon ((C16.literal_spec n x hx).2.2.2.2 b).1
  | valuation bs => exact of_eq_canon (C16.valuation_bdd_spec bs).2.1
  | conjClause n c hin hr =>
    obtain ⟨r', e, hc, _⟩ := ((C10.clause_ctor_spec n c).1 hin).1
    rw [hr] at e; rw [ok_inj e]; exact of_eq_canon hc
  | disjClause n c hin hr =>
    obtain ⟨r', e, hc, _⟩ := ((C10.clause_ctor_spec n c).1 hin).2
    rw [hr] at e; rw [ok_inj e]; exact of_eq_canon hc
  | mkDnf n cs hin hr =>
    obtain ⟨r', e, hc, _⟩ := C10.mk_dnf_spec n cs hin
    rw [hr] at e; rw [ok_inj e]; exact of_eq_canon hc
  | mkCnf n cs hin hr =>
    obtain ⟨r', e, hc, _⟩ := C10.mk_cnf_spec n cs hin
    rw [hr] at e; rw [ok_inj e]; exact of_eq_canon hc
  | satExactlyK n k vars hv hr =>
    have e := C16.sat_exactly_k_canon n k vars hv
    rw [hr] at e; exact of_eq_canon (ok_inj e)
  | satUpToK n k vars hv hr =>
    have e := C16.sat_up_to_k_canon n k vars hv
    rw [hr] at e; exact of_eq_canon (ok_inj e)
  | not _ ih => exact not_ok ih
  | binary op c fl fr fo _ _ hcons hfl hfr hfo iha ihb =>
    have hwa := wfo_of iha; have hwb := wfo_of ihb
    exact of_eq_canon (applyWithFlip_eq_canon _ _ _ op c fl fr fo hwa hwb (numVars_of_wf hwa) hcons hfl hfr hfo)
  | ternary op c fa fb fc fo _ _ _ hcons hfa hfb hfc iha ihb ihd =>
    exact of_eq_canon (ternaryApply_eq_canon _ _ _ _ op c fa fb fc fo (wfo_of iha) (wfo_of ihb) (wfo_of ihd)
      hcons hfa hfb hfc)
  | binaryLimit lim op c fl fr fo _ _ hcons hfl hfr hfo hr iha ihb =>
    have hwa := wfo_of iha; have hwb := wfo_of ihb
    rw [((C05.limit_some_iff lim _ _ op fl fr fo _).1 hr).1]
    exact of_eq_canon (applyWithFlip_eq_canon _ _ _ op c fl fr fo hwa hwb (numVars_of_wf hwa) hcons hfl hfr hfo)
  | nested trig outer inner c d _ _ hc hd hid iha ihb =>
    exact of_eq_canon (C03.nested_canon _ _ _ trig outer inner c d (wfo_of iha) (wfo_of ihb) hc hd hid)
  | binaryOpWithExists op c vars _ _ hc iha ihb =>
    exact of_eq_canon (C03.binary_op_with_exists_canon _ _ _ op c vars (wfo_of iha) (wfo_of ihb) hc)
  | binaryOpWithForAll op c vars _ _ hc iha ihb =>
    exact of_eq_canon (C03.binary_op_with_for_all_canon _ _ _ op c vars (wfo_of iha) (wfo_of ihb) hc)
  | «exists» vars _ ih => exact of_eq_canon (C03.exists_for_all_canon _ _ vars (wfo_of ih)).1
  | forAll vars _ ih => exact of_eq_canon (C03.exists_for_all_canon _ _ vars (wfo_of ih)).2
  | varExists x _ hx ih => exact of_eq_canon (C03.var_exists_canon _ _ x (wfo_of ih) hx)
  | varForAll x _ hx ih => exact of_eq_canon (C03.var_for_all_canon _ _ x (wfo_of ih) hx)
  | select lits _ hl ih => exact of_eq_canon (C06.select_canon (wfo_of ih) lits hl)
  | varSelect x b _ hx ih => exact of_eq_canon (C06.var_select_canon (wfo_of ih) x b hx)
  | restrict lits _ ih => exact of_eq_canon (C06.restrict_canon (wfo_of ih) lits)
  | varRestrict x b _ ih => exact of_eq_canon (C06.restrict_canon (wfo_of ih) [(x, b)])
  | varPick x _ hx ih => exact of_eq_canon (C06.var_pick_canon (wfo_of ih) x hx)
  | varPickRandom x coin _ hx ih => exact of_eq_canon (C06.var_pick_random_canon (wfo_of ih) x coin hx)
  | pick vars _ hv ih =>
    by_cases hne : vars = []
    · subst hne; rw [C06.pick_nil]; exact ih
    · exact of_eq_canon ((C06.pick_canon (wfo_of ih) vars hv).2 hne)
  | pickRandom vars flips _ hv ih =>
    by_cases hne : vars = []
    · subst hne; rw [pickRandom_nil]; exact ih
    · exact of_eq_canon ((C06.pick_random_canon (wfo_of ih) vars hv flips).2 hne)
  | substitute x _ _ hn hr ihf ihg =>
    obtain ⟨r', e, hc, hnr⟩ := substitute_canonical _ _ _ x ihf.1 ihf.2 (wfo_of ihg) hn
    rw [hr] at e; rw [ok_inj e]; exact ⟨hc, hnr⟩
  | @renameVariables n0 a0 r0 π _ hr ih =>
    by_cases hadm : C17.Admissible a0 (applyMap π)
    · obtain ⟨e, k⟩ := (C17.rename_variables_safe _ π (wfo_of' ih)).1 hadm
      rw [hr] at e; rw [ok_inj e]
      have := kept_canonical ih.1 k
      rwa [ih.2] at this
    · obtain ⟨msg, e⟩ := (C17.rename_variables_safe _ π (wfo_of' ih)).2 hadm
      rw [hr] at e; cases e
  | @renameVariable n0 a0 r0 old new _ hr ih =>
    by_cases hok : C17.RenameOk a0 old new
    · obtain ⟨e, k⟩ := (C17.rename_variable_safe _ old new (wfo_of' ih)).1 hok
      rw [hr] at e; rw [ok_inj e]
      have := kept_canonical ih.1 k
      rwa [ih.2] at this
    · obtain ⟨msg, e⟩ := (C17.rename_variable_safe _ old new (wfo_of' ih)).2 hok
      rw [hr] at e; cases e
  | @setNumVars n0 a0 r0 m _ hr ih =>
    by_cases hok : ∀ x ∈ Ren.supportSet a0, x < m
    · obtain ⟨e, k⟩ := (C17.set_num_vars_safe _ m (wfo_of' ih)).1 hok
      rw [hr] at e; rw [ok_inj e]
      exact kept_canonical ih.1 k
    · obtain ⟨msg, e⟩ := (C17.set_num_vars_safe _ m (wfo_of' ih)).2 hok
      rw [hr] at e; cases e
  | @transferFrom n0 a0 r0 tgt src _ hsrc hr ih =>
    have hsrc' : numVars a0 ≤ src.length := by rw [ih.2]; exact hsrc
    by_cases hok : C17.Transferable tgt src a0
    · obtain ⟨e, k⟩ := (C17.transfer_some_iff tgt src _ (wfo_of' ih) hsrc').1 hok
      rw [hr] at e; rw [ok_inj e]
      exact kept_canonical ih.1 k
    · obtain ⟨msg, e⟩ := (C17.transfer_some_iff tgt src _ (wfo_of' ih) hsrc').2 hok
      rw [hr] at e; cases e
  | ofDnf _ h1 h2 ih =>
    obtain ⟨hb, hd⟩ := eq_canon_of ih
    obtain ⟨cs', e1, e2⟩ := C10.dnf_roundtrip _ _ _ hb hd
    rw [h1] at e1; rw [← ok_inj e1, h2] at e2; rw [ok_inj e2]; exact ih
  | ofCnf _ h1 h2 ih =>
    obtain ⟨hb, hd⟩ := eq_canon_of ih
    obtain ⟨cs', e1, e2⟩ := C10.cnf_roundtrip _ _ _ hb hd
    rw [h1] at e1; rw [← ok_inj e1, h2] at e2; rw [ok_inj e2]; exact ih
  | ofOptimizedDnf _ h1 h2 ih =>
    obtain ⟨hb, hd⟩ := eq_canon_of ih
    obtain ⟨cs', e1, _, _, e2⟩ := C10.opt_dnf_roundtrip_exactCard _ _ _ hb hd
    rw [h1] at e1; rw [← ok_inj e1, h2] at e2; rw [ok_inj e2]; exact ih
  | readText _ hfit hr ih =>
    have e := C12.text_roundtrip _ hfit
    rw [hr] at e; rw [ok_inj e]; exact ih
  | readBytes _ hfit hr ih =>
    have e := C12.bytes_roundtrip _ hfit
    rw [hr] at e; rw [ok_inj e]; exact ih
  | fromNodes _ hr ih =>
    have e := C12.nodes_roundtrip _ _ (wfo_of ih)
    rw [hr] at e; rw [ok_inj e]; exact ih
  | evalExpr vars e hr =>
    obtain ⟨_, hn, hc, _⟩ := C15.eval_expr_spec vars e _ hr
    exact ⟨hc, hn⟩
  | evalString vars s hr =>
    obtain ⟨e, _, hc⟩ := C15.eval_string_spec vars s _ hr
    exact of_eq_canon hc
  | evalOfExport vars _ hlen hnd h1 h2 ih =>
    obtain ⟨e', e1, e2⟩ := C15.to_expr_roundtrip vars _ ih.1 (by rw [ih.2]; exact hlen) hnd
    rw [h1] at e1; rw [← ok_inj e1, h2] at e2
    rw [Option.some.inj e2]; exact ih

/-- **Any two results of any two histories over the same variable count that denote the same function are
    the same Bdd** (hence equal under `==`, with equal hashes, text and bytes). -/
theorem built_unique {n : Nat} {a b : Arr} (ha : Built n a) (hb : Built n b)
    (hf : ∀ v, den a v = den b v) : a = b := by
  obtain ⟨ca, na⟩ := built_canonical ha
  obtain ⟨cb, nb⟩ := built_canonical hb
  exact canonical_unique ca cb (by rw [na, nb]) hf

/-- every observable of the node vector agrees -/
theorem built_same_observables {α : Type} (obs : Arr → α) {n : Nat} {a b : Arr} (ha : Built n a)
    (hb : Built n b) (hf : ∀ v, den a v = den b v) : obs a = obs b :=
  congrArg obs (built_unique ha hb hf)

/-- every produced Bdd passes the executable canonicity test the drivers run on the implementation's outputs -/
theorem built_isCanon {n : Nat} {a : Arr} (h : Built n a) : Drive.isCanon a = true :=
  (isCanon_iff a).2 (built_canonical h).1

/-! ### denotation of the basic steps (used to discharge the hypothesis of `built_unique` in the examples) -/

theorem den_not {n : Nat} {a : Arr} (ha : Built n a) (v : Nat → Bool) : den (bddNot a) v = !den a v := by
  obtain ⟨e, hd⟩ := eq_canon_of (built_canonical ha)
  have h := bddNot_canon n (den a) hd
  rw [← e] at h
  rw [h]
  exact den_canon n _ (fun v w hvw => by simp only [hd v w hvw]) v

theorem den_binary {n : Nat} {a b : Arr} (ha : Built n a) (hb : Built n b) (op : Op2)
    (c : Bool → Bool → Bool) (hc : Consistent op c) (v : Nat → Bool) :
    den (applyWithFlip a b op none none none) v = c (den a v) (den b v) := by
  have ia := built_canonical ha; have ib := built_canonical hb
  have h := applyWithFlip_den a b n op c none none none (wfo_of ia) (wfo_of ib) hc
    (fun _ h => by cases h) (fun _ h => by cases h) (fun _ h => by cases h) v
  have ea := Canonical.evW_root ia.1 v; rw [ia.2] at ea
  have eb := Canonical.evW_root ib.1 v; rw [ib.2] at eb
  rw [h]
  show c (evW a n v (root a)) (evW b n v (root b)) = _
  rw [ea, eb]

/-! ### Non-vacuity -/

/-- a history mixing nine kinds of operation (literal, `not`, oracle operand, binary operator with a fused
    flip, nested apply, `var_exists`, `restrict`, `pick` with an unsorted list with a repetition, `select`) -/
example : Built 3
    (select (pick (restrict (varExists
      (nestedApply
        (applyWithFlip (bddNot (mkVar 3 0)) (canon 3 (fun v => v 0 && v 2)) Gen.or_ none (some 1) none)
        (mkLiteral 3 2 false) (fun x => x == 1) Gen.and_ Gen.or_) 0) [(2, true)]) [2, 1, 2]) [(1, true)]) :=
  .select _ (.pick _ (.restrict _ (.varExists 0
    (.nested _ Gen.and_ Gen.or_ (fun a b => a && b) (fun a b => a || b)
      (.binary Gen.or_ (fun a b => a || b) none (some 1) none (.not (.mkVar 3 0 (by omega))) (.canonOf 3 _)
        B.or_consistent (by simp) (by simp) (by simp))
      (.mkLiteral 3 2 false (by omega)) B.and_consistent B.or_consistent Bool.or_self)
    (by omega))) (by decide)) (by decide)

/-- operations that may refuse, on concrete operands: `set_num_vars` (3 → 5 variables), `transfer_from` into a
    6-name set, re-reading the text serialisation and the node list, export to an expression and re-evaluation,
    an operator with a fused flip, the size-limited operator (limit = the size of the result), `substitute`,
    a rebuilt DNF, `not` (the existence of the `ok` results is part of the cited theorems) -/
example : ∃ r, Built 6 r := by
  -- `x0 ∧ x2` over 3 variables, re-counted to 5 variables
  have h1 : Built 5 (setTerm 5 (canon 3 (fun v => v 0 && v 2))) :=
    .setNumVars 5 (.canonOf 3 (fun v => v 0 && v 2)) rfl
  -- transferred into a set where the two names keep their order (extra names around them)
  have h2 : Built 6 (#[⟨6, 0, 0⟩, ⟨6, 1, 1⟩, ⟨3, 0, 1⟩, ⟨1, 0, 2⟩] : Arr) :=
    .transferFrom ["q", "a", "z", "c", "y", "w"] ["a", "b", "c", "d", "e"] h1 (by decide) rfl
  -- written as text and read back; turned into a node list and back
  have h2a : Built 6 (#[⟨6, 0, 0⟩, ⟨6, 1, 1⟩, ⟨3, 0, 1⟩, ⟨1, 0, 2⟩] : Arr) :=
    .readText h2 (by decide) (B.Props.C12.text_roundtrip _ (by decide))
  have h2b : Built 6 (#[⟨6, 0, 0⟩, ⟨6, 1, 1⟩, ⟨3, 0, 1⟩, ⟨1, 0, 2⟩] : Arr) :=
    .fromNodes h2a (B.Props.C12.nodes_roundtrip _ 6 (wfo_of (built_canonical h2a)))
  -- exported as an expression over six distinct names and evaluated again
  obtain ⟨e, e1, e2⟩ := B.Props.C15.to_expr_roundtrip [['q'], ['a'], ['z'], ['c'], ['y'], ['w']] _
    (built_canonical h2b).1 rfl (by decide)
  have h2c : Built 6 (#[⟨6, 0, 0⟩, ⟨6, 1, 1⟩, ⟨3, 0, 1⟩, ⟨1, 0, 2⟩] : Arr) :=
    .evalOfExport _ h2b rfl (by decide) e1 e2
  -- an operator on top, with a fused flip of the left operand
  have h3 := Built.binary Gen.or_ (fun a b => a || b) (some 5) none none h2c (.mkNotVar 6 4 (by omega))
    B.or_consistent (by simp) (by simp) (by simp)
  -- the size-limited operator with a limit that is just large enough
  have h3l := Built.binaryLimit _ Gen.or_ (fun a b => a || b) (some 5) none none h2c (.mkNotVar 6 4 (by omega))
    B.or_consistent (by simp) (by simp) (by simp)
    ((B.Props.C05.limit_some_iff _ _ _ _ _ _ _ _).2 ⟨rfl, Nat.le_refl _⟩)
  -- `substitute`: never refuses below the `u16` bound
  obtain ⟨r4, e4, _, _⟩ := substitute_canonical _ _ 6 1 (built_canonical h3l).1 (built_canonical h3l).2
    (wfo_of (built_canonical h2)) (by omega)
  have h4 : Built 6 r4 := .substitute 1 h3l h2 (by omega) e4
  -- DNF round trip
  obtain ⟨hb, hd⟩ := eq_canon_of (built_canonical h4)
  obtain ⟨cs, e5, e5'⟩ := B.Props.C10.dnf_roundtrip 6 _ r4 hb hd
  have h5 : Built 6 r4 := .ofDnf h4 e5 e5'
  exact ⟨_, .not h5⟩

/-- `rename_variable` on a concrete operand (`x2 ↦ x1` in `x0 ∧ x2`; accepted: `RenameOk`) -/
example : Built 3 (mapVars (fun x => if x = 2 then 1 else x) (canon 3 (fun v => v 0 && v 2))) := by
  have hb : Built 3 (canon 3 (fun v => v 0 && v 2)) := .canonOf 3 _
  have hok : B.Props.C17.RenameOk (canon 3 (fun v => v 0 && v 2)) 2 1 := by
    have e : canon 3 (fun v => v 0 && v 2) = B.Props.C17.ex02 := by decide
    have : Ren.supportSet B.Props.C17.ex02 = [0, 2] := by decide
    rw [e]; unfold B.Props.C17.RenameOk; rw [this]; decide
  exact .renameVariable 2 1 hb
    ((B.Props.C17.rename_variable_safe _ 2 1 (wfo_of' (built_canonical hb))).1 hok).1

/-- an evaluated expression over two names, used as an operand -/
example : ∃ r, Built 2 (bddNot r) := by
  cases h : ExprM.evalExpr [['a'], ['b']] (.and (.var ['a']) (.not (.var ['b']))) with
  | none =>
    obtain ⟨s, hs, hn⟩ := (B.Props.C15.eval_expr_none_iff _ _).mp h
    simp [ExprM.names] at hs
    rcases hs with rfl | rfl <;> simp at hn
  | some r => exact ⟨r, .not (.evalExpr _ _ h)⟩

/-- **two different histories of the same function give the same array**: `x0 ∧ x1` as a binary `and` of two
    literals, and by De Morgan as `¬(¬x0 ∨ ¬x1)` — the hypothesis of `built_unique` is discharged semantically -/
example : applyWithFlip (mkVar 3 0) (mkVar 3 1) Gen.and_ none none none =
    bddNot (applyWithFlip (mkNotVar 3 0) (mkNotVar 3 1) Gen.or_ none none none) := by
  have a0 : Built 3 (mkVar 3 0) := .mkVar 3 0 (by omega)
  have a1 : Built 3 (mkVar 3 1) := .mkVar 3 1 (by omega)
  have b0 : Built 3 (mkNotVar 3 0) := .mkNotVar 3 0 (by omega)
  have b1 : Built 3 (mkNotVar 3 1) := .mkNotVar 3 1 (by omega)
  have hA : Built 3 (applyWithFlip (mkVar 3 0) (mkVar 3 1) Gen.and_ none none none) :=
    .binary _ _ none none none a0 a1 B.and_consistent (by simp) (by simp) (by simp)
  have hO : Built 3 (applyWithFlip (mkNotVar 3 0) (mkNotVar 3 1) Gen.or_ none none none) :=
    .binary _ _ none none none b0 b1 B.or_consistent (by simp) (by simp) (by simp)
  apply built_unique hA (.not hO)
  intro v
  rw [den_not hO, den_binary a0 a1 _ _ B.and_consistent, den_binary b0 b1 _ _ B.or_consistent,
    (B.Props.C16.literal_spec 3 0 (by omega)).2.1, (B.Props.C16.literal_spec 3 1 (by omega)).2.1,
    (B.Props.C16.literal_spec 3 0 (by omega)).2.2.2.1, (B.Props.C16.literal_spec 3 1 (by omega)).2.2.2.1]
  cases v 0 <;> cases v 1 <;> rfl

end B.C02H
