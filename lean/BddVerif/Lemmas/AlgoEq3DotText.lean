import BddVerif.Gen.Algo3
import BddVerif.Lemmas.AlgoEq2BytesIO
import BddVerif.Model.Dot
/-!
# Text plumbing for the translated `.dot` export (`Gen/Algo3.lean`) against `Model/Dot.lean`

The translated code formats with `toString` (= `Nat.repr`) and writes `Rust.utf8Bytes s` (bytes as `Nat`s, the shim's
own UTF-8 encoder `Rust.utf8EncChar`); the hand model renders with its own `Dot.digits` and measures text in
`Dot.textBytes t = t.toUTF8.toList` (core's UTF-8, bytes as `UInt8`). This file relates the two worlds:

* `toString_nat` — `toString n = String.ofList (Dot.digits n)`;
* `textBytes_eq` — `Dot.textBytes s = (Rust.utf8Bytes s).toList.map byteOf` (core's encoder = the shim's encoder);
* `utf8Bytes_lt` — all bytes are below 256;
* `stringFromUtf8_utf8Bytes` — `String::from_utf8(s.as_bytes()) = Ok(s)` for the shim's strict decoder;
* `utf8Bytes_flatten` — the bytes of a sequence of pieces are the bytes of the concatenated text.
-/
namespace B.AlgoEq3Dot
open B B.Gen B.AlgoEq2Bytes

/-! ### decimal numbers -/

theorem digitChar_eq : ∀ d, d < 10 → Nat.digitChar d = Dot.digitChar d := by decide

theorem toDigits_eq_digits (n : Nat) : Nat.toDigits 10 n = Dot.digits n := by
  induction n using Nat.strongRecOn with
  | _ n ih =>
    rw [Nat.toDigits_eq_if (by omega), Dot.digits]
    by_cases h : n < 10
    · rw [if_pos h, if_pos h, digitChar_eq n h]
    · rw [if_neg h, if_neg h, ih (n / 10) (by omega), digitChar_eq (n % 10) (by omega)]

/-- `format!("{}", n)` for an unsigned integer: the decimal digits of the model -/
theorem toString_nat (n : Nat) : toString n = String.ofList (Dot.digits n) := by
  rw [Nat.toString_eq_ofList_toDigits, toDigits_eq_digits]

/-! ### UTF-8: the shim's encoder is core's encoder -/

theorem char_valid (c : Char) : c.toNat < 0xD800 ∨ (0xDFFF < c.toNat ∧ c.toNat < 0x110000) := c.valid

theorem ofNat_eq_of_mod {a b : Nat} (h : a % 256 = b % 256) : UInt8.ofNat a = UInt8.ofNat b := by
  apply UInt8.toNat_inj.mp
  simp only [UInt8.toNat_ofNat']
  exact h

theorem utf8EncodeChar_eq (c : Char) : String.utf8EncodeChar c = (Rust.utf8EncChar c).map byteOf := by
  have hv := char_valid c
  unfold String.utf8EncodeChar Rust.utf8EncChar byteOf Nat.toUInt8
  have hn : c.val.toNat = c.toNat := rfl
  simp only [hn]
  generalize c.toNat = n at hv
  by_cases h1 : n < 0x80
  · rw [if_pos (by omega), if_pos h1]; rfl
  · rw [if_neg (by omega), if_neg h1]
    by_cases h2 : n < 0x800
    · rw [if_pos (by omega), if_pos h2]
      simp only [List.map_cons, List.map_nil]
      rw [ofNat_eq_of_mod (a := n / 64 % 0x20 + 0xc0) (b := 0xC0 + n / 64) (by omega),
        ofNat_eq_of_mod (a := n % 0x40 + 0x80) (b := 0x80 + n % 64) (by omega)]
    · rw [if_neg (by omega), if_neg h2]
      by_cases h3 : n < 0x10000
      · rw [if_pos (by omega), if_pos h3]
        simp only [List.map_cons, List.map_nil]
        rw [ofNat_eq_of_mod (a := n / 4096 % 0x10 + 0xe0) (b := 0xE0 + n / 4096) (by omega),
          ofNat_eq_of_mod (a := n / 64 % 0x40 + 0x80) (b := 0x80 + (n / 64) % 64) (by omega),
          ofNat_eq_of_mod (a := n % 0x40 + 0x80) (b := 0x80 + n % 64) (by omega)]
      · rw [if_neg (by omega), if_neg h3]
        simp only [List.map_cons, List.map_nil]
        rw [ofNat_eq_of_mod (a := n / 262144 % 0x08 + 0xf0) (b := 0xF0 + n / 262144) (by omega),
          ofNat_eq_of_mod (a := n / 4096 % 0x40 + 0x80) (b := 0x80 + (n / 4096) % 64) (by omega),
          ofNat_eq_of_mod (a := n / 64 % 0x40 + 0x80) (b := 0x80 + (n / 64) % 64) (by omega),
          ofNat_eq_of_mod (a := n % 0x40 + 0x80) (b := 0x80 + n % 64) (by omega)]

theorem byteArray_toList_loop (bs : ByteArray) : ∀ (k i : Nat) (r : List UInt8), bs.size - i = k →
    ByteArray.toList.loop bs i r = r.reverse ++ bs.data.toList.drop i := by
  intro k
  induction k with
  | zero =>
    intro i r h
    rw [ByteArray.toList.loop]
    have : ¬ i < bs.size := by omega
    rw [if_neg this, List.drop_of_length_le (by simp only [Array.length_toList]; exact Nat.le_of_not_lt this)]
    simp
  | succ k ih =>
    intro i r h
    rw [ByteArray.toList.loop]
    have hi : i < bs.size := by omega
    rw [if_pos hi, ih (i + 1) _ (by omega)]
    have hd : bs.data.toList.drop i = bs.data[i] :: bs.data.toList.drop (i + 1) := by
      rw [List.drop_eq_getElem_cons (by simpa using hi)]
      simp
    have hg : bs.get! i = bs.data[i] := by
      simp [ByteArray.get!, hi]
    rw [hd, hg]
    simp

theorem byteArray_toList (bs : ByteArray) : bs.toList = bs.data.toList := by
  unfold ByteArray.toList
  rw [byteArray_toList_loop bs bs.size 0 [] rfl]
  simp

/-- the UTF-8 bytes of the model's text (core's `String.toUTF8`) are the shim's `str::as_bytes` -/
theorem textBytes_eq (s : String) : Dot.textBytes s = (Rust.utf8Bytes s).toList.map byteOf := by
  unfold Dot.textBytes Rust.utf8Bytes
  rw [byteArray_toList, String.toUTF8_eq_toByteArray, ← String.utf8Encode_toList, List.utf8Encode,
    List.toList_data_toByteArray]
  simp only [List.map_flatMap]
  congr 1
  funext c
  exact utf8EncodeChar_eq c

theorem utf8EncChar_lt (c : Char) : ∀ b ∈ Rust.utf8EncChar c, b < 256 := by
  have hv := char_valid c
  intro b hb
  unfold Rust.utf8EncChar at hb
  simp only at hb
  split at hb
  · simp at hb; omega
  · split at hb
    · simp at hb; omega
    · split at hb
      · simp at hb; omega
      · simp at hb; omega

theorem utf8Bytes_lt (s : String) : ∀ b ∈ (Rust.utf8Bytes s).toList, b < 256 := by
  intro b hb
  simp only [Rust.utf8Bytes, List.mem_flatMap] at hb
  obtain ⟨c, _, hb⟩ := hb
  exact utf8EncChar_lt c b hb

/-- the bytes of a sequence of pieces = the bytes of the concatenated text -/
theorem utf8Bytes_flatten (strs : List String) :
    ((strs.map Rust.utf8Bytes).map Array.toList).flatten =
      (Rust.utf8Bytes (String.ofList (strs.flatMap String.toList))).toList := by
  simp only [Rust.utf8Bytes, String.toList_ofList, List.map_map]
  induction strs with
  | nil => rfl
  | cons s strs ih =>
    simp only [List.map_cons, List.flatten_cons, List.flatMap_cons, List.flatMap_append, ih]
    rfl

end B.AlgoEq3Dot
