import BddVerif.Drive.C17
/-!
# Soundness of the exact walk of `Drive/C17.lean`

`Drive.C17.sameFunctionUnder b r g` is a memoised simultaneous walk of the two arrays from their roots.
**Soundness of an accepting answer**: for `b`, `r` ordered by level (`WFo` — what the driver tests with
`wfoB` before the walk is consulted), all variables of `r` and all images `g x` of variables of `b` below the
walk's sentinel `1 000 000`, the answer `true` implies `r(v) = b(v ∘ g)` for EVERY valuation `v`.
Reducedness of the arrays is NOT needed for soundness (the driver asks for it because it is needed for
completeness: a rejecting answer by budget means "different" only for reduced diagrams).

Proof: the set of visited pairs is closed under the walk's successor rule when the stack is empty; a closed set of
pairs whose terminal pairs are equal consists of pairs of equal functions, by induction on the sum of the levels.
-/
namespace B.ExactWalk
open B B.Drive

/-! ### generic: invariants of `forIn` over a list in `Id` -/

theorem forIn_inv_eq {α β : Type} {l : List α} {f : α → β → Id (ForInStep β)} {init fin : β}
    (h : forIn l init f = fin) (Inv Post : β → Prop) (hinit : Inv init)
    (hstep : ∀ a s, Inv s →
      (∀ s', f a s = ForInStep.done s' → Post s') ∧ (∀ s', f a s = ForInStep.yield s' → Inv s'))
    (hend : ∀ s, Inv s → Post s) : Post fin := by
  subst h
  induction l generalizing init with
  | nil => exact hend _ hinit
  | cons a l ih =>
    rw [List.forIn_cons]
    obtain ⟨h1, h2⟩ := hstep a init hinit
    cases hf : f a init with
    | done s' => exact h1 s' hf
    | yield s' => exact ih (h2 s' hf)

/-! ### closed sets of pairs -/

/-- the valuation the operand `b` sees under the renaming `g` (`v ∘ g`; `false` where `g` is undefined) -/
def pull (g : Nat → Option Nat) (v : Nat → Bool) : Nat → Bool := fun x =>
  match g x with
  | some y => v y
  | none => false

section
variable (b r : Arr) (n m : Nat) (g : Nat → Option Nat)

/-- the pair denotes equal functions -/
def E (x : Nat × Nat) : Prop := ∀ v, evW r m v x.1 = evW b n (pull g v) x.2

def mu (x : Nat × Nat) : Nat := (m - varOf r m x.1) + (n - varOf b n x.2)

def InB (x : Nat × Nat) : Prop := x.1 < r.size ∧ x.2 < b.size

/-- local condition on a visited pair: equal terminals, or two pairs of `M` on deeper levels whose
    correctness implies the pair's -/
def Loc (M : Nat × Nat → Prop) (x : Nat × Nat) : Prop :=
  (x.1 < 2 ∧ x.2 < 2 ∧ x.1 = x.2) ∨
  ∃ y z, M y ∧ M z ∧ mu b r n m y < mu b r n m x ∧ mu b r n m z < mu b r n m x ∧
    (E b r n m g y → E b r n m g z → E b r n m g x)

theorem Loc.mono {M M' : Nat × Nat → Prop} (h : ∀ x, M x → M' x) {x} (hx : Loc b r n m g M x) :
    Loc b r n m g M' x := by
  rcases hx with hx | ⟨y, z, hy, hz, rest⟩
  · exact Or.inl hx
  · exact Or.inr ⟨y, z, h y hy, h z hz, rest⟩

theorem closed_sound (M : Nat × Nat → Prop) (hcl : ∀ x, M x → Loc b r n m g M x) :
    ∀ x, M x → E b r n m g x := by
  intro x
  induction hk : mu b r n m x using Nat.strongRecOn generalizing x with
  | _ k ih =>
    intro hx
    rcases hcl x hx with ⟨h1, h2, h3⟩ | ⟨y, z, hy, hz, hmy, hmz, himp⟩
    · obtain ⟨p, q⟩ := x
      simp only at h1 h2 h3
      subst h3
      intro v
      have : p = 0 ∨ p = 1 := by omega
      rcases this with rfl | rfl
      · simp [evW_zero]
      · simp [evW_one]
    · exact himp (ih _ (hk ▸ hmy) y rfl hy) (ih _ (hk ▸ hmz) z rfl hz)

end

/-! ### one step of the walk -/

@[reducible] def vrOf (r : Arr) (p : Nat) : Nat := if p < 2 then 1000000 else (r[p]?.getD default).var
@[reducible] def vbOf (b : Arr) (g : Nat → Option Nat) (q : Nat) : Nat :=
  if q < 2 then 1000000 else (g (b[q]?.getD default).var).getD (1000000 + 1)
@[reducible] def kidsP (b r : Arr) (g : Nat → Option Nat) (p q : Nat) : Nat × Nat :=
  if (vrOf r p == min (vrOf r p) (vbOf b g q)) = true then ((r[p]?.getD default).low, (r[p]?.getD default).high)
  else (p, p)
@[reducible] def kidsQ (b r : Arr) (g : Nat → Option Nat) (p q : Nat) : Nat × Nat :=
  if (vbOf b g q == min (vrOf r p) (vbOf b g q)) = true then ((b[q]?.getD default).low, (b[q]?.getD default).high)
  else (q, q)

theorem varOf_term {L : Arr} {k p : Nat} (hp : p < 2) : varOf L k p = k := by simp [varOf, hp]

theorem step_sound {b r : Arr} {n m : Nat} {g : Nat → Option Nat} (hb : WFo b n) (hr : WFo r m)
    (hm : m ≤ 1000000)
    (hg : ∀ q nd, 2 ≤ q → b[q]? = some nd → ∀ y, g nd.var = some y → y < 1000000)
    {p q : Nat} (hp : p < r.size) (hq : q < b.size) (hnt : ¬ (p < 2 ∧ q < 2))
    (hvb : vbOf b g q ≠ 1000000 + 1) :
    let y := ((kidsP b r g p q).1, (kidsQ b r g p q).1)
    let z := ((kidsP b r g p q).2, (kidsQ b r g p q).2)
    InB b r y ∧ InB b r z ∧ mu b r n m y < mu b r n m (p, q) ∧ mu b r n m z < mu b r n m (p, q) ∧
      (E b r n m g y → E b r n m g z → E b r n m g (p, q)) := by
  have hrp : r[p]? = some r[p] := by simp [hp]
  have hbq : b[q]? = some b[q] := by simp [hq]
  have hrd : r[p]?.getD default = r[p] := by simp [hp]
  have hbd : b[q]?.getD default = b[q] := by simp [hq]
  -- facts on a decision node of `r`
  have Hr : 2 ≤ p → r[p].var < m ∧ r[p].low < r.size ∧ r[p].high < r.size ∧
      varOf r m p = r[p].var ∧ r[p].var < varOf r m r[p].low ∧ r[p].var < varOf r m r[p].high ∧
      ∀ v, evW r m v p = if v r[p].var then evW r m v r[p].high else evW r m v r[p].low := by
    intro h2
    obtain ⟨a1, a2, a3, a4, a5⟩ := hr.inner p _ h2 hrp
    exact ⟨a1, a2, a3, varOf_node p _ h2 hrp, a4, a5, fun v => evW_node hr v p h2 _ hrp⟩
  have Hb : 2 ≤ q → b[q].var < n ∧ b[q].low < b.size ∧ b[q].high < b.size ∧
      varOf b n q = b[q].var ∧ b[q].var < varOf b n b[q].low ∧ b[q].var < varOf b n b[q].high ∧
      ∀ v, evW b n v q = if v b[q].var then evW b n v b[q].high else evW b n v b[q].low := by
    intro h2
    obtain ⟨a1, a2, a3, a4, a5⟩ := hb.inner q _ h2 hbq
    exact ⟨a1, a2, a3, varOf_node q _ h2 hbq, a4, a5, fun v => evW_node hb v q h2 _ hbq⟩
  simp only [kidsP, kidsQ, vrOf, vbOf, hrd, hbd] at hvb ⊢
  by_cases hp2 : p < 2
  · -- `p` terminal, `q` a decision node
    have hq2 : 2 ≤ q := by omega
    obtain ⟨b1, b2, b3, b4, b5, b6, b7⟩ := Hb hq2
    simp only [hp2, if_true, show ¬ q < 2 by omega, if_false] at hvb ⊢
    cases hgq : g b[q].var with
    | none => simp [hgq] at hvb
    | some y =>
      have hy := hg q _ hq2 hbq y hgq
      simp only [Option.getD_some]
      have e1 : (1000000 == min 1000000 y) = false := by
        have : min 1000000 y = y := by omega
        rw [this]; simp; omega
      have e2 : (y == min 1000000 y) = true := by
        have : min 1000000 y = y := by omega
        rw [this]; simp
      simp only [e1, e2, if_true, Bool.false_eq_true, if_false]
      refine ⟨⟨hp, b2⟩, ⟨hp, b3⟩, ?_, ?_, ?_⟩
      · simp only [mu]; omega
      · simp only [mu]; omega
      · intro h1 h2 v
        have := h1 v; have := h2 v
        simp only at *
        rw [b7 (pull g v)]
        have : pull g v b[q].var = v y := by simp [pull, hgq]
        rw [this]; split <;> assumption
  · have hp2' : 2 ≤ p := by omega
    obtain ⟨a1, a2, a3, a4, a5, a6, a7⟩ := Hr hp2'
    by_cases hq2 : q < 2
    · -- `q` terminal, `p` a decision node
      simp only [hp2, if_false, hq2, if_true] at hvb ⊢
      have e1 : (r[p].var == min r[p].var 1000000) = true := by
        have : min r[p].var 1000000 = r[p].var := by omega
        rw [this]; simp
      have e2 : (1000000 == min r[p].var 1000000) = false := by
        have : min r[p].var 1000000 = r[p].var := by omega
        rw [this]; simp; omega
      simp only [e1, e2, if_true, Bool.false_eq_true, if_false]
      refine ⟨⟨a2, hq⟩, ⟨a3, hq⟩, ?_, ?_, ?_⟩
      · simp only [mu]; omega
      · simp only [mu]; omega
      · intro h1 h2 v
        have := h1 v; have := h2 v
        simp only at *
        rw [a7 v]; split <;> assumption
    · have hq2' : 2 ≤ q := by omega
      obtain ⟨b1, b2, b3, b4, b5, b6, b7⟩ := Hb hq2'
      simp only [hp2, if_false, hq2] at hvb ⊢
      cases hgq : g b[q].var with
      | none => simp [hgq] at hvb
      | some y =>
        simp only [Option.getD_some]
        have hpull : ∀ v, pull g v b[q].var = v y := fun v => by simp [pull, hgq]
        rcases Nat.lt_trichotomy r[p].var y with hlt | heq | hgt
        · have e1 : (r[p].var == min r[p].var y) = true := by
            have : min r[p].var y = r[p].var := by omega
            rw [this]; simp
          have e2 : (y == min r[p].var y) = false := by
            have : min r[p].var y = r[p].var := by omega
            rw [this]; simp; omega
          simp only [e1, e2, if_true, Bool.false_eq_true, if_false]
          refine ⟨⟨a2, hq⟩, ⟨a3, hq⟩, ?_, ?_, ?_⟩
          · simp only [mu]; omega
          · simp only [mu]; omega
          · intro h1 h2 v
            have := h1 v; have := h2 v
            simp only at *
            rw [a7 v]; split <;> assumption
        · have e1 : (r[p].var == min r[p].var y) = true := by
            have : min r[p].var y = r[p].var := by omega
            rw [this]; simp
          have e2 : (y == min r[p].var y) = true := by
            have : min r[p].var y = y := by omega
            rw [this]; simp
          simp only [e1, e2, if_true]
          refine ⟨⟨a2, b2⟩, ⟨a3, b3⟩, ?_, ?_, ?_⟩
          · simp only [mu]; omega
          · simp only [mu]; omega
          · intro h1 h2 v
            have := h1 v; have := h2 v
            simp only at *
            rw [a7 v, b7 (pull g v), hpull v, heq]; split <;> assumption
        · have e1 : (r[p].var == min r[p].var y) = false := by
            have : min r[p].var y = y := by omega
            rw [this]; simp; omega
          have e2 : (y == min r[p].var y) = true := by
            have : min r[p].var y = y := by omega
            rw [this]; simp
          simp only [e1, e2, if_true, Bool.false_eq_true, if_false]
          refine ⟨⟨hp, b2⟩, ⟨hp, b3⟩, ?_, ?_, ?_⟩
          · simp only [mu]; omega
          · simp only [mu]; omega
          · intro h1 h2 v
            have := h1 v; have := h2 v
            simp only at *
            rw [b7 (pull g v), hpull v]; split <;> assumption

/-! ### the invariant of the loop -/

abbrev St := Option Bool × Array (Nat × Nat) × Std.HashSet (Nat × Nat)

/-- pairs seen or waiting -/
def Mem (seen : Std.HashSet (Nat × Nat)) (stack : Array (Nat × Nat)) (x : Nat × Nat) : Prop :=
  seen.contains x = true ∨ x ∈ stack

/-- the root pair is known, every known pair is in bounds, every seen pair satisfies the local condition -/
def Good (b r : Arr) (n m : Nat) (g : Nat → Option Nat) (seen : Std.HashSet (Nat × Nat))
    (stack : Array (Nat × Nat)) : Prop :=
  Mem seen stack (root r, root b) ∧ (∀ x, Mem seen stack x → InB b r x) ∧
    ∀ x, seen.contains x = true → Loc b r n m g (Mem seen stack) x

def Target (b r : Arr) (g : Nat → Option Nat) : Prop := ∀ v, evalArr r v = evalArr b (pull g v)

theorem good_final {b r : Arr} {n m : Nat} {g : Nat → Option Nat} (hb : WFo b n) (hr : WFo r m)
    {seen : Std.HashSet (Nat × Nat)} (h : Good b r n m g seen #[]) : Target b r g := by
  obtain ⟨h1, _, h3⟩ := h
  have hM : ∀ x, Mem seen #[] x → seen.contains x = true := by
    intro x hx; rcases hx with hx | hx
    · exact hx
    · simp at hx
  have := closed_sound b r n m g (Mem seen #[]) (fun x hx => h3 x (hM x hx)) _ h1
  intro v
  have e1 : evalArr r v = evW r m v (root r) := by unfold evalArr evW; rw [numVars_of_wf hr]
  have e2 : evalArr b (pull g v) = evW b n (pull g v) (root b) := by unfold evalArr evW; rw [numVars_of_wf hb]
  rw [e1, e2]; exact this v

/-- **Soundness of `Drive.C17.sameFunctionUnder`.** -/
theorem sameFunctionUnder_sound {b r : Arr} {n m : Nat} {g : Nat → Option Nat} (hb : WFo b n) (hr : WFo r m)
    (hm : m ≤ 1000000)
    (hg : ∀ q nd, 2 ≤ q → b[q]? = some nd → ∀ y, g nd.var = some y → y < 1000000)
    (h : C17.sameFunctionUnder b r g = true) :
    ∀ v, evalArr r v = evalArr b (pull g v) := by
  unfold C17.sameFunctionUnder at h
  simp only [Std.Legacy.Range.forIn_eq_forIn_range', Id.run, bind, pure] at h
  generalize hfin : forIn (m := Id) (List.range' _ _ _) _ _ = fin at h
  refine forIn_inv_eq hfin
    (fun s : St => s.1 = none ∧ Good b r n m g s.2.2 s.2.1)
    (fun s : St => (s.1 = some true ∨ (s.1 = none ∧ s.2.1.isEmpty = true)) → Target b r g)
    ?_ ?_ ?_ (by
      obtain ⟨o, st, se⟩ := fin
      cases o with
      | none => exact Or.inr ⟨rfl, by simpa using h⟩
      | some x => exact Or.inl (by simpa using h))
  · -- initially
    refine ⟨rfl, Or.inr (by simp), ?_, ?_⟩
    · intro x hx
      rcases hx with hx | hx
      · simp at hx
      · have : x = (root r, root b) := by simpa using hx
        subst this; exact ⟨root_lt hr, root_lt hb⟩
    · intro x hx; simp at hx
  · -- one iteration
    rintro _ ⟨o, stack, seen⟩ ⟨ho, hgood⟩
    simp only at ho hgood ⊢
    subst ho
    cases hback : stack.back? with
    | none =>
      simp only []
      have hst : stack = #[] := Array.back?_eq_none_iff.1 hback
      subst hst
      refine ⟨?_, fun s' h' => by cases h'⟩
      intro s' h' _
      exact good_final hb hr hgood
    | some x =>
      obtain ⟨p, q⟩ := x
      obtain ⟨st', hst⟩ := Array.back?_eq_some_iff.1 hback
      subst hst
      simp only [Array.pop_push]
      obtain ⟨g1, g2, g3⟩ := hgood
      have hpq : InB b r (p, q) := g2 _ (Or.inr (by simp))
      by_cases hseen : seen.contains (p, q) = true
      · simp only [hseen, if_true]
        refine ⟨fun s' h' => (by cases h'), ?_⟩
        intro s' h'
        cases h'
        have hsub : ∀ x, Mem seen (st'.push (p, q)) x → Mem seen st' x := by
          intro x hx
          rcases hx with hx | hx
          · exact Or.inl hx
          · rcases Array.mem_push.1 hx with hx | rfl
            · exact Or.inr hx
            · exact Or.inl hseen
        exact ⟨rfl, hsub _ g1, fun x hx => g2 x (by
            rcases hx with hx | hx
            · exact Or.inl hx
            · exact Or.inr (Array.mem_push.2 (Or.inl hx))),
          fun x hx => Loc.mono b r n m g hsub (g3 x hx)⟩
      · simp only [hseen, if_false, Bool.false_eq_true]
        split
        · exact ⟨fun s' h' => (by cases h'; intro h; simp at h), fun s' h' => (by cases h')⟩
        · -- membership after moving `(p, q)` from the stack to `seen`
          have hmove : ∀ st'' : Array (Nat × Nat), (∀ x, x ∈ st' → x ∈ st'') →
              ∀ x, Mem seen (st'.push (p, q)) x → Mem (seen.insert (p, q)) st'' x := by
            intro st'' hsub x hx
            rcases hx with hx | hx
            · exact Or.inl (by simp [Std.HashSet.contains_insert, hx])
            · rcases Array.mem_push.1 hx with hx | rfl
              · exact Or.inr (hsub x hx)
              · exact Or.inl (by simp [Std.HashSet.contains_insert])
          have hback' : ∀ st'' : Array (Nat × Nat), ∀ x, Mem (seen.insert (p, q)) st'' x →
              x = (p, q) ∨ seen.contains x = true ∨ x ∈ st'' := by
            intro st'' x hx
            rcases hx with hx | hx
            · rw [Std.HashSet.contains_insert] at hx
              rcases Bool.or_eq_true _ _ ▸ hx with hx | hx
              · exact Or.inl ((beq_iff_eq.1 hx).symm)
              · exact Or.inr (Or.inl hx)
            · exact Or.inr (Or.inr hx)
          split
          · -- both terminal
            rename_i hterm
            split
            · exact ⟨fun s' h' => (by cases h'; intro h; simp at h), fun s' h' => (by cases h')⟩
            · rename_i hne
              refine ⟨fun s' h' => (by cases h'), ?_⟩
              intro s' h'
              cases h'
              have hm1 := hmove st' (fun x hx => hx)
              refine ⟨rfl, hm1 _ g1, ?_, ?_⟩
              · intro x hx
                rcases hback' st' x hx with rfl | hx | hx
                · exact hpq
                · exact g2 x (Or.inl hx)
                · exact g2 x (Or.inr (Array.mem_push.2 (Or.inl hx)))
              · intro x hx
                rw [Std.HashSet.contains_insert] at hx
                by_cases hxe : x = (p, q)
                · subst hxe
                  left
                  simp only [Bool.and_eq_true, decide_eq_true_eq] at hterm
                  refine ⟨hterm.1, hterm.2, ?_⟩
                  simpa using hne
                · have : seen.contains x = true := by
                    rcases Bool.or_eq_true _ _ ▸ hx with hx | hx
                    · exact absurd ((beq_iff_eq.1 hx).symm) hxe
                    · exact hx
                  exact Loc.mono b r n m g hm1 (g3 x this)
          · rename_i hterm
            have main :
                (∀ s' : St, (if (vbOf b g q == 1000000 + 1) = true then
                    ForInStep.done ((some false, st', seen.insert (p, q)) : St)
                  else ForInStep.yield ((none, (st'.push ((kidsP b r g p q).1, (kidsQ b r g p q).1)).push
                    ((kidsP b r g p q).2, (kidsQ b r g p q).2), seen.insert (p, q)) : St)) = ForInStep.done s' →
                  (s'.1 = some true ∨ (s'.1 = none ∧ s'.2.1.isEmpty = true)) → Target b r g) ∧
                (∀ s' : St, (if (vbOf b g q == 1000000 + 1) = true then
                    ForInStep.done ((some false, st', seen.insert (p, q)) : St)
                  else ForInStep.yield ((none, (st'.push ((kidsP b r g p q).1, (kidsQ b r g p q).1)).push
                    ((kidsP b r g p q).2, (kidsQ b r g p q).2), seen.insert (p, q)) : St)) = ForInStep.yield s' →
                  s'.1 = none ∧ Good b r n m g s'.2.2 s'.2.1) := by
              by_cases hvb : (vbOf b g q == 1000000 + 1) = true
              · rw [if_pos hvb]
                exact ⟨fun s' h' => (by cases h'; intro h; simp at h), fun s' h' => (by cases h')⟩
              · rw [if_neg hvb]
                refine ⟨fun s' h' => (by cases h'), ?_⟩
                intro s' h'
                cases h'
                have hnt : ¬ (p < 2 ∧ q < 2) := by
                  simpa [Bool.and_eq_true, decide_eq_true_eq] using hterm
                have hvb' : vbOf b g q ≠ 1000000 + 1 := by simpa using hvb
                obtain ⟨k1, k2, k3, k4, k5⟩ := step_sound hb hr hm hg hpq.1 hpq.2 hnt hvb'
                have hm1 := hmove ((st'.push ((kidsP b r g p q).1, (kidsQ b r g p q).1)).push
                    ((kidsP b r g p q).2, (kidsQ b r g p q).2))
                  (fun x hx => Array.mem_push.2 (Or.inl (Array.mem_push.2 (Or.inl hx))))
                refine ⟨rfl, hm1 _ g1, ?_, ?_⟩
                · intro x hx
                  rcases hback' _ x hx with rfl | hx | hx
                  · exact hpq
                  · exact g2 x (Or.inl hx)
                  · rcases Array.mem_push.1 hx with hx | rfl
                    · rcases Array.mem_push.1 hx with hx | rfl
                      · exact g2 x (Or.inr (Array.mem_push.2 (Or.inl hx)))
                      · exact k1
                    · exact k2
                · intro x hx
                  rw [Std.HashSet.contains_insert] at hx
                  by_cases hxe : x = (p, q)
                  · subst hxe
                    right
                    exact ⟨_, _, Or.inr (Array.mem_push.2 (Or.inl (Array.mem_push.2 (Or.inr rfl)))),
                      Or.inr (Array.mem_push.2 (Or.inr rfl)), k3, k4, k5⟩
                  · have : seen.contains x = true := by
                      rcases Bool.or_eq_true _ _ ▸ hx with hx | hx
                      · exact absurd (beq_iff_eq.1 hx).symm hxe
                      · exact hx
                    exact Loc.mono b r n m g hm1 (g3 x this)
            cases hgq : g (b[q]?.getD default).var <;>
              simp only [vbOf, vrOf, kidsP, kidsQ, hgq, Option.getD_some, Option.getD_none] at main <;>
              exact main
  · -- the range is exhausted
    rintro ⟨o, stack, seen⟩ ⟨ho, hgood⟩ hres
    simp only at ho hgood hres
    subst ho
    have hres' : stack.isEmpty = true := by
      rcases hres with hres | hres
      · cases hres
      · exact hres.2
    have : stack = #[] := Array.isEmpty_iff.1 hres'
    subst this
    exact good_final hb hr hgood

/-- the same with the driver's executable validity test `wfoB` (what `checkResult` / `handle` evaluate before
    the walk's answer is used) -/
theorem sameFunctionUnder_sound_wfoB {b r : Arr} {n m : Nat} {g : Nat → Option Nat}
    (hb : wfoB b n = true) (hr : wfoB r m = true) (hm : m ≤ 1000000)
    (hg : ∀ x y, g x = some y → y < 1000000)
    (h : C17.sameFunctionUnder b r g = true) :
    ∀ v, evalArr r v = evalArr b (pull g v) :=
  sameFunctionUnder_sound (wfoB_sound hb) (wfoB_sound hr) hm (fun _ nd _ _ y hy => hg nd.var y hy) h

/-! ### non-vacuity, and the sentinel hypothesis -/

section Examples
/-- `x0 ∧ x2` over 3 variables -/
def exB : Arr := #[⟨3, 0, 0⟩, ⟨3, 1, 1⟩, ⟨2, 0, 1⟩, ⟨0, 0, 2⟩]
/-- `x1 ∧ x4` over 5 variables, with a duplicate node (not reduced) -/
def exR : Arr := #[⟨5, 0, 0⟩, ⟨5, 1, 1⟩, ⟨4, 0, 1⟩, ⟨4, 0, 1⟩, ⟨1, 0, 3⟩]
def exG : Nat → Option Nat := fun x => if x = 0 then some 1 else if x = 2 then some 4 else none

example : wfoB exB 3 = true ∧ wfoB exR 5 = true := by decide
example : ∀ x y, exG x = some y → y < 1000000 := by
  intro x y h; unfold exG at h; split at h
  · cases h; omega
  · split at h
    · cases h; omega
    · cases h

/-- without the bound on the images of `g` the walk is NOT sound: the sentinel `1000000` stands for "terminal",
    so a variable renamed to an index above `1000001` is never expanded. (`r` = false, `b` = `x0`, `g 0 = 2000000`:
    the walk visits the single pair (0, 2), pushes it again twice and accepts.) Indices are `u16` in the library, so
    the case cannot arise from the harness. -/
example : evalArr (#[⟨1, 0, 0⟩] : Arr) (fun _ => true) ≠
    evalArr (#[⟨1, 0, 0⟩, ⟨1, 1, 1⟩, ⟨0, 0, 1⟩] : Arr) (pull (fun _ => some 2000000) (fun _ => true)) := by decide
end Examples

end B.ExactWalk
