import BddVerif.Lemmas.ExactWalkC17
/-!
# What a rejecting `Drive.C17.sameFunctionUnder` means

The walk answers `false` (a) at a pair of different terminals, (b) when `g` is undefined on the variable of a
visited node of `b`, (c) when more than `|r| + |b| + 4` pairs have been visited, (d) when the iteration bound
`3·(|r| + |b| + 4)` is reached with a non-empty stack.

For `b`, `r` ordered by level (`WFo`), variables of `r` and images under `g` below the sentinel `1 000 000`,
`g` DEFINED and STRICTLY INCREASING on the variables of the decision nodes of `b`:
(b) and (d) cannot happen, (a) yields a valuation with `r(v) ≠ b(v ∘ g)`, and what remains is (c):
`sameFunctionUnder_reject` — `false` implies a violating valuation OR a set of more than `|r| + |b| + 4`
in-bounds pairs, each reached along a consistent path. Reducedness is not used here; it is what the counting
argument for (c) needs (not proved in this file).

The monotonicity hypothesis cannot be dropped: for a renaming that is not increasing on the support the decision
variables along a path repeat, the path is not a valuation, and the walk rejects equal functions (see the
`#eval`s in ExactWalkAudit.lean: `x0 ∧ x1` under the swap of the two variables).
-/
namespace B.ExactWalk
open B B.Drive

/-- invariants of `forIn` over `List.range'` that may mention the iteration number -/
theorem forIn_range'_inv {β : Type} (f : Nat → β → Id (ForInStep β)) (Inv : Nat → β → Prop) (Post : β → Prop)
    (hstep : ∀ a s, Inv a s →
      (∀ s', f a s = ForInStep.done s' → Post s') ∧ (∀ s', f a s = ForInStep.yield s' → Inv (a + 1) s')) :
    ∀ (len k : Nat) (init : β), Inv k init → (∀ s, Inv (k + len) s → Post s) →
      Post (forIn (m := Id) (List.range' k len) init f) := by
  intro len
  induction len with
  | zero => intro k init hi hend; show Post init; exact hend init hi
  | succ len ih =>
    intro k init hi hend
    rw [List.range'_succ, List.forIn_cons]
    obtain ⟨h1, h2⟩ := hstep k init hi
    cases hf : f k init with
    | done s' => exact h1 s' hf
    | yield s' =>
      exact ih (k + 1) s' (h2 s' hf) (fun s hs => hend s (by rw [show k + (len + 1) = k + 1 + len by omega]; exact hs))

section
variable (b r : Arr) (n m : Nat) (g : Nat → Option Nat)
/-- the identity at one pair and one valuation -/
def Eat17 (x : Nat × Nat) (v : Nat → Bool) : Prop := evW r m v x.1 = evW b n (pull g v) x.2

/-- least (renamed) variable the pair can still test; the walk's own `d` -/
def lev17 (x : Nat × Nat) : Nat := min (vrOf r x.1) (vbOf b g x.2)

def Reach17 (x : Nat × Nat) : Prop :=
  ∃ (u : Nat → Bool) (k : Nat), k ≤ lev17 b r g x ∧
    ∀ v : Nat → Bool, (∀ i, i < k → v i = u i) → (Eat17 b r n m g (root r, root b) v ↔ Eat17 b r n m g x v)
end

/-- hypotheses on the renaming: defined, below the sentinel and strictly increasing on the variables of `b` -/
structure GoodRen (b : Arr) (g : Nat → Option Nat) : Prop where
  defined : ∀ q nd, 2 ≤ q → b[q]? = some nd → ∃ y, g nd.var = some y ∧ y < 1000000
  mono : ∀ q nd q' nd', 2 ≤ q → b[q]? = some nd → 2 ≤ q' → b[q']? = some nd' → nd.var < nd'.var →
    ∀ y y', g nd.var = some y → g nd'.var = some y' → y < y'

/-- component `r`: one step on variable `d` -/
theorem rstep {r : Arr} {m : Nat} (hr : WFo r m) (hm : m ≤ 1000000) {p : Nat} (hp : p < r.size) (d : Nat)
    (hd : d < 1000000) (hle : d ≤ vrOf r p) (β : Bool) :
    let kp : Nat × Nat := if (vrOf r p == d) = true then ((r[p]?.getD default).low, (r[p]?.getD default).high) else (p, p)
    let p' := if β = true then kp.2 else kp.1
    p' < r.size ∧ d < vrOf r p' ∧ ∀ v : Nat → Bool, v d = β → evW r m v p = evW r m v p' := by
  have hterm : ∀ k, k < 2 → vrOf r k = 1000000 := by intro k hk; simp [vrOf, hk]
  have hnode : ∀ k (hk : k < r.size), ¬ k < 2 → vrOf r k = r[k].var ∧ r[k].var < 1000000 := by
    intro k hk h2
    have hnd : r[k]? = some r[k] := by simp [hk]
    have := (hr.inner k _ (by omega) hnd).1
    exact ⟨by simp [vrOf, h2, hk], by omega⟩
  -- every in-bounds pointer that is a child of a node on variable `d` lies strictly above `d`
  by_cases hvd : (vrOf r p == d) = true
  · have hvd' : vrOf r p = d := by simpa using hvd
    have h2 : ¬ p < 2 := fun h => by rw [hterm p h] at hvd'; omega
    have hnd : r[p]? = some r[p] := by simp [hp]
    have hgd : r[p]?.getD default = r[p] := by simp [hp]
    obtain ⟨i1, i2, i3, i4, i5⟩ := hr.inner p _ (by omega) hnd
    have hpv := (hnode p hp h2).1
    have above : ∀ k, k < r.size → r[p].var < varOf r m k → d < vrOf r k := by
      intro k hk hlt
      by_cases hk2 : k < 2
      · rw [hterm k hk2]; exact hd
      · have hndk : r[k]? = some r[k] := by simp [hk]
        rw [varOf_node (n := m) k _ (by omega) hndk] at hlt
        rw [(hnode k hk hk2).1]; omega
    simp only [hvd, if_true, hgd]
    cases β
    · refine ⟨i2, above _ i2 i4, ?_⟩
      intro v hv
      rw [evW_node hr v p (by omega) _ hnd, ← hpv, hvd', hv]; simp
    · refine ⟨i3, above _ i3 i5, ?_⟩
      intro v hv
      rw [evW_node hr v p (by omega) _ hnd, ← hpv, hvd', hv]; simp
  · have hvd' : vrOf r p ≠ d := by simpa using hvd
    simp only [hvd, if_false, Bool.false_eq_true, ite_self]
    exact ⟨hp, by omega, by simp⟩

/-- component `b`, through the renaming -/
theorem bstep {b : Arr} {n : Nat} {g : Nat → Option Nat} (hb : WFo b n) (hg : GoodRen b g) {q : Nat}
    (hq : q < b.size) (d : Nat) (hd : d < 1000000) (hle : d ≤ vbOf b g q) (β : Bool) :
    let kq : Nat × Nat := if (vbOf b g q == d) = true then ((b[q]?.getD default).low, (b[q]?.getD default).high) else (q, q)
    let q' := if β = true then kq.2 else kq.1
    q' < b.size ∧ d < vbOf b g q' ∧
      ∀ v : Nat → Bool, v d = β → evW b n (pull g v) q = evW b n (pull g v) q' := by
  have hterm : ∀ k, k < 2 → vbOf b g k = 1000000 := by intro k hk; simp [vbOf, hk]
  have hnode : ∀ k (hk : k < b.size), ¬ k < 2 → ∃ y, g b[k].var = some y ∧ vbOf b g k = y ∧ y < 1000000 := by
    intro k hk h2
    have hnd : b[k]? = some b[k] := by simp [hk]
    obtain ⟨y, hy, hlt⟩ := hg.defined k _ (by omega) hnd
    exact ⟨y, hy, by simp [vbOf, h2, hk, hy], hlt⟩
  by_cases hvd : (vbOf b g q == d) = true
  · have hvd' : vbOf b g q = d := by simpa using hvd
    have h2 : ¬ q < 2 := fun h => by rw [hterm q h] at hvd'; omega
    have hnd : b[q]? = some b[q] := by simp [hq]
    have hgd : b[q]?.getD default = b[q] := by simp [hq]
    obtain ⟨i1, i2, i3, i4, i5⟩ := hb.inner q _ (by omega) hnd
    obtain ⟨y, hy, hvy, _⟩ := hnode q hq h2
    have hyd : y = d := by omega
    have above : ∀ k, k < b.size → b[q].var < varOf b n k → d < vbOf b g k := by
      intro k hk hlt
      by_cases hk2 : k < 2
      · rw [hterm k hk2]; exact hd
      · have hndk : b[k]? = some b[k] := by simp [hk]
        rw [varOf_node (n := n) k _ (by omega) hndk] at hlt
        obtain ⟨y', hy', hvy', _⟩ := hnode k hk hk2
        have := hg.mono q _ k _ (by omega) hnd (by omega) hndk hlt y y' hy hy'
        omega
    have hpull : ∀ v : Nat → Bool, pull g v b[q].var = v d := fun v => by simp [pull, hy, hyd]
    simp only [hvd, if_true, hgd]
    cases β
    · refine ⟨i2, above _ i2 i4, ?_⟩
      intro v hv
      rw [evW_node hb (pull g v) q (by omega) _ hnd, hpull, hv]; simp
    · refine ⟨i3, above _ i3 i5, ?_⟩
      intro v hv
      rw [evW_node hb (pull g v) q (by omega) _ hnd, hpull, hv]; simp
  · have hvd' : vbOf b g q ≠ d := by simpa using hvd
    simp only [hvd, if_false, Bool.false_eq_true, ite_self]
    exact ⟨hq, by omega, by simp⟩

theorem forIn_range'_inv_eq {β : Type} {f : Nat → β → Id (ForInStep β)} {len k : Nat} {init fin : β}
    (h : forIn (m := Id) (List.range' k len) init f = fin) (Inv : Nat → β → Prop) (Post : β → Prop)
    (hinit : Inv k init)
    (hstep : ∀ a s, Inv a s →
      (∀ s', f a s = ForInStep.done s' → Post s') ∧ (∀ s', f a s = ForInStep.yield s' → Inv (a + 1) s'))
    (hend : ∀ s, Inv (k + len) s → Post s) : Post fin :=
  h ▸ forIn_range'_inv f Inv Post hstep len k init hinit hend

theorem vb_ne {b : Arr} {g : Nat → Option Nat} (hg : GoodRen b g) {q : Nat} (hq : q < b.size) :
    vbOf b g q ≠ 1000000 + 1 := by
  by_cases h2 : q < 2
  · simp [vbOf, h2]
  · have hnd : b[q]? = some b[q] := by simp [hq]
    obtain ⟨y, hy, hlt⟩ := hg.defined q _ (by omega) hnd
    simp [vbOf, h2, hq, hy]; omega

/-- what a rejecting answer guarantees -/
def RejectConcl (b r : Arr) (n m : Nat) (g : Nat → Option Nat) : Prop :=
  (∃ v, evalArr r v ≠ evalArr b (pull g v)) ∨
  ∃ S : Std.HashSet (Nat × Nat), S.size > r.size + b.size + 4 ∧
    ∀ x, S.contains x = true → InB b r x ∧ Reach17 b r n m g x

/-- **A rejecting `Drive.C17.sameFunctionUnder`**: a violating valuation, or more than `|r| + |b| + 4` distinct
    pairs each reached along a consistent path (the budget reject). -/
theorem sameFunctionUnder_reject {b r : Arr} {n m : Nat} {g : Nat → Option Nat} (hb : WFo b n) (hr : WFo r m)
    (hm : m ≤ 1000000) (hg : GoodRen b g)
    (h : C17.sameFunctionUnder b r g = false) : RejectConcl b r n m g := by
  have hfinal : ∀ u, ¬ Eat17 b r n m g (root r, root b) u → RejectConcl b r n m g := by
    intro u hu
    refine Or.inl ⟨u, ?_⟩
    have e1 : evalArr r u = evW r m u (root r) := by unfold evalArr evW; rw [numVars_of_wf hr]
    have e2 : evalArr b (pull g u) = evW b n (pull g u) (root b) := by unfold evalArr evW; rw [numVars_of_wf hb]
    rw [e1, e2]; exact hu
  unfold C17.sameFunctionUnder at h
  simp only [Std.Legacy.Range.forIn_eq_forIn_range', Id.run, bind, pure] at h
  generalize hfin : forIn (m := Id) (List.range' _ _ _) _ _ = fin at h
  have hsz : [:3 * (r.size + b.size + 4)].size = 3 * (r.size + b.size + 4) := by simp [Std.Legacy.Range.size]
  refine forIn_range'_inv_eq hfin
    (fun i (s : St) => s.1 = none ∧ (∀ x, x ∈ s.2.1 → InB b r x ∧ Reach17 b r n m g x) ∧
      (∀ x, s.2.2.contains x = true → InB b r x ∧ Reach17 b r n m g x) ∧
      s.2.2.size ≤ r.size + b.size + 4 ∧ i + s.2.1.size ≤ 1 + 2 * s.2.2.size)
    (fun s : St => (s.1 = some false ∨ (s.1 = none ∧ s.2.1.isEmpty = false)) → RejectConcl b r n m g)
    ?_ ?_ ?_ (by
      obtain ⟨o, st, se⟩ := fin
      cases o with
      | none => exact Or.inr ⟨rfl, by simpa using h⟩
      | some x => exact Or.inl (by simpa using h))
  · -- initially
    refine ⟨rfl, ?_, by intro x hx; simp at hx, by simp, by simp⟩
    intro x hx
    have : x = (root r, root b) := by simpa using hx
    subst this
    exact ⟨⟨root_lt hr, root_lt hb⟩, fun _ => false, 0, Nat.zero_le _, fun v _ => Iff.rfl⟩
  · -- one iteration
    rintro i ⟨o, stack, seen⟩ ⟨ho, hst, hse, hsz', hpot⟩
    simp only at ho hst hse hsz' hpot ⊢
    subst ho
    cases hback : stack.back? with
    | none => exact ⟨fun s' h' => (by cases h'; intro h; simp at h), fun s' h' => (by cases h')⟩
    | some x =>
      obtain ⟨p, q⟩ := x
      obtain ⟨st', hst'⟩ := Array.back?_eq_some_iff.1 hback
      subst hst'
      simp only [Array.pop_push]
      rw [Array.size_push] at hpot
      have hold : ∀ x, x ∈ st' → InB b r x ∧ Reach17 b r n m g x :=
        fun x hx => hst x (Array.mem_push.2 (Or.inl hx))
      obtain ⟨hpq, u, k, hk, hreach⟩ := hst (p, q) (by simp)
      have hp' : p < r.size := hpq.1
      have hq' : q < b.size := hpq.2
      by_cases hseen : seen.contains (p, q) = true
      · simp only [hseen, if_true]
        refine ⟨fun s' h' => (by cases h'), ?_⟩
        intro s' h'; cases h'
        exact ⟨rfl, hold, hse, hsz', by simp only; omega⟩
      · simp only [hseen, if_false, Bool.false_eq_true]
        have hnew : ∀ x, (seen.insert (p, q)).contains x = true → InB b r x ∧ Reach17 b r n m g x := by
          intro x hx
          rw [Std.HashSet.contains_insert] at hx
          rcases Bool.or_eq_true _ _ ▸ hx with hx | hx
          · have : x = (p, q) := (beq_iff_eq.1 hx).symm
            subst this; exact ⟨hpq, u, k, hk, hreach⟩
          · exact hse x hx
        have hsize : (seen.insert (p, q)).size = seen.size + 1 := by
          rw [Std.HashSet.size_insert, if_neg (by rw [Std.HashSet.mem_iff_contains]; exact hseen)]
        split
        · rename_i hbud
          refine ⟨?_, fun s' h' => (by cases h')⟩
          intro s' h' _; cases h'
          exact Or.inr ⟨seen.insert (p, q), hbud, hnew⟩
        · rename_i hbud
          have hbud' : (seen.insert (p, q)).size ≤ r.size + b.size + 4 := by omega
          split
          · rename_i hterm
            simp only [Bool.and_eq_true, decide_eq_true_eq] at hterm
            split
            · rename_i hne
              refine ⟨?_, fun s' h' => (by cases h')⟩
              intro s' h' _
              have hne' : p ≠ q := by simpa using hne
              apply hfinal u
              intro hroot
              have := (hreach u (fun _ _ => rfl)).1 hroot
              unfold Eat17 at this
              simp only at this
              have hp01 : p = 0 ∨ p = 1 := by omega
              have hq01 : q = 0 ∨ q = 1 := by omega
              rcases hp01 with rfl | rfl <;> rcases hq01 with rfl | rfl <;>
                simp [evW_zero, evW_one] at this hne'
            · refine ⟨fun s' h' => (by cases h'), ?_⟩
              intro s' h'; cases h'
              exact ⟨rfl, hold, hnew, hbud', by simp only; omega⟩
          · rename_i hterm
            have hnt : ¬ (p < 2 ∧ q < 2) := by
              simpa [Bool.and_eq_true, decide_eq_true_eq] using hterm
            -- the walk's variable `d`
            have hdlt : lev17 b r g (p, q) < 1000000 := by
              simp only [lev17]
              by_cases hp2 : p < 2
              · have hq2 : ¬ q < 2 := fun h => hnt ⟨hp2, h⟩
                have hnd : b[q]? = some b[q] := by simp [hpq.2]
                obtain ⟨y, hy, hlt⟩ := hg.defined q _ (by omega) hnd
                have : vbOf b g q = y := by simp [vbOf, hq2, hpq.2, hy]
                omega
              · have hnd : r[p]? = some r[p] := by simp [hpq.1]
                have := (hr.inner p _ (by omega) hnd).1
                have : vrOf r p = r[p].var := by simp [vrOf, hp2, hpq.1]
                omega
            have hkidR : ∀ β, InB b r
                ((if β = true then (kidsP b r g p q).2 else (kidsP b r g p q).1),
                  (if β = true then (kidsQ b r g p q).2 else (kidsQ b r g p q).1)) ∧
                Reach17 b r n m g
                ((if β = true then (kidsP b r g p q).2 else (kidsP b r g p q).1),
                  (if β = true then (kidsQ b r g p q).2 else (kidsQ b r g p q).1)) := by
              intro β
              obtain ⟨r1, r2, r3⟩ := rstep hr hm hpq.1 (lev17 b r g (p, q)) hdlt (by simp only [lev17]; omega) β
              obtain ⟨b1, b2, b3⟩ := bstep (n := n) hb hg hpq.2 (lev17 b r g (p, q)) hdlt (by simp only [lev17]; omega) β
              refine ⟨⟨r1, b1⟩, upd u (lev17 b r g (p, q)) β, lev17 b r g (p, q) + 1, ?_, ?_⟩
              · have e : lev17 b r g ((if β = true then (kidsP b r g p q).2 else (kidsP b r g p q).1),
                    (if β = true then (kidsQ b r g p q).2 else (kidsQ b r g p q).1)) =
                    min (vrOf r (if β = true then (kidsP b r g p q).2 else (kidsP b r g p q).1))
                      (vbOf b g (if β = true then (kidsQ b r g p q).2 else (kidsQ b r g p q).1)) := rfl
                rw [e]
                have r2' : lev17 b r g (p, q) <
                    vrOf r (if β = true then (kidsP b r g p q).2 else (kidsP b r g p q).1) := r2
                have b2' : lev17 b r g (p, q) <
                    vbOf b g (if β = true then (kidsQ b r g p q).2 else (kidsQ b r g p q).1) := b2
                omega
              · intro v hv
                have hvd : v (lev17 b r g (p, q)) = β := by
                  rw [hv _ (Nat.lt_succ_self _)]; simp [upd]
                have hvu : ∀ i, i < k → v i = u i := by
                  intro i hi
                  rw [hv i (by omega)]
                  have : i ≠ lev17 b r g (p, q) := by omega
                  simp [upd, this]
                rw [hreach v hvu]
                unfold Eat17
                simp only
                have e1 := r3 v hvd
                have e2 := b3 v hvd
                rw [e1, e2]
                exact Iff.rfl
            have main :
                (∀ s' : St, (if (vbOf b g q == 1000000 + 1) = true then
                    ForInStep.done ((some false, st', seen.insert (p, q)) : St)
                  else ForInStep.yield ((none, (st'.push ((kidsP b r g p q).1, (kidsQ b r g p q).1)).push
                    ((kidsP b r g p q).2, (kidsQ b r g p q).2), seen.insert (p, q)) : St)) = ForInStep.done s' →
                  (s'.1 = some false ∨ (s'.1 = none ∧ s'.2.1.isEmpty = false)) → RejectConcl b r n m g) ∧
                (∀ s' : St, (if (vbOf b g q == 1000000 + 1) = true then
                    ForInStep.done ((some false, st', seen.insert (p, q)) : St)
                  else ForInStep.yield ((none, (st'.push ((kidsP b r g p q).1, (kidsQ b r g p q).1)).push
                    ((kidsP b r g p q).2, (kidsQ b r g p q).2), seen.insert (p, q)) : St)) = ForInStep.yield s' →
                  s'.1 = none ∧ (∀ x, x ∈ s'.2.1 → InB b r x ∧ Reach17 b r n m g x) ∧
                    (∀ x, s'.2.2.contains x = true → InB b r x ∧ Reach17 b r n m g x) ∧
                    s'.2.2.size ≤ r.size + b.size + 4 ∧ i + 1 + s'.2.1.size ≤ 1 + 2 * s'.2.2.size) := by
              have hvb : ¬ (vbOf b g q == 1000000 + 1) = true := by
                simpa using vb_ne hg hpq.2
              rw [if_neg hvb]
              refine ⟨fun s' h' => (by cases h'), ?_⟩
              intro s' h'; cases h'
              refine ⟨rfl, ?_, hnew, hbud', by simp only [Array.size_push]; omega⟩
              intro x hx
              rcases Array.mem_push.1 hx with hx | rfl
              · rcases Array.mem_push.1 hx with hx | rfl
                · exact hold x hx
                · exact hkidR false
              · exact hkidR true
            cases hgq : g (b[q]?.getD default).var <;>
              simp only [vbOf, vrOf, kidsP, kidsQ, hgq, Option.getD_some, Option.getD_none] at main <;>
              exact main
  · -- the iteration bound cannot be reached with a non-empty stack
    rintro ⟨o, stack, seen⟩ ⟨ho, _, _, hsz', hpot⟩ hres
    simp only at ho hsz' hpot hres
    subst ho
    rcases hres with hres | ⟨_, hemp⟩
    · cases hres
    · exfalso
      have : stack.size ≠ 0 := by
        intro h0
        have := Array.eq_empty_of_size_eq_zero h0
        subst this; simp at hemp
      rw [hsz] at hpot
      omega

/-- with the driver's executable validity test -/
theorem sameFunctionUnder_reject_wfoB {b r : Arr} {n m : Nat} {g : Nat → Option Nat}
    (hb : wfoB b n = true) (hr : wfoB r m = true) (hm : m ≤ 1000000) (hg : GoodRen b g)
    (h : C17.sameFunctionUnder b r g = false) : RejectConcl b r n m g :=
  sameFunctionUnder_reject (wfoB_sound hb) (wfoB_sound hr) hm hg h

/-! ### the monotonicity hypothesis cannot be dropped (false alarms of the walk)

Both pairs below are valid, reduced, and denote EQUAL functions under the renaming, yet the walk answers `false`
(`#eval` in ExactWalkAudit.lean): along a path the renamed decision variables repeat. -/

section Examples
/-- `x0 ∧ x1` over 2 variables -/
def ex17B : Arr := #[⟨2, 0, 0⟩, ⟨2, 1, 1⟩, ⟨1, 0, 1⟩, ⟨0, 0, 2⟩]
/-- the swap of the two variables: injective, not increasing -/
def ex17Swap : Nat → Option Nat := fun x => if x = 0 then some 1 else if x = 1 then some 0 else none
/-- both variables renamed to 3: not injective -/
def ex17Merge : Nat → Option Nat := fun x => if x < 2 then some 3 else none
/-- `x3` over 4 variables -/
def ex17R3 : Arr := #[⟨4, 0, 0⟩, ⟨4, 1, 1⟩, ⟨3, 0, 1⟩]

example : wfoB ex17B 2 = true ∧ wfoB ex17R3 4 = true := by decide
/-- `x0 ∧ x1` IS `(x0 ∧ x1) ∘ swap` -/
example : ∀ i, i < 4 → evalArr ex17B (valOfIndex 2 i) = evalArr ex17B (pull ex17Swap (valOfIndex 2 i)) := by decide
/-- `x3` IS `(x0 ∧ x1)` with both variables renamed to `x3` -/
example : ∀ i, i < 16 → evalArr ex17R3 (valOfIndex 4 i) = evalArr ex17B (pull ex17Merge (valOfIndex 4 i)) := by decide
end Examples

end B.ExactWalk
