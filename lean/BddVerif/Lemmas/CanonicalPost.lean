import BddVerif.Lemmas.CanonicalReduced
import BddVerif.Core.Sim2
/-!
The executable post-order test `Drive.postOrder` simulates the reference builder `ins`:
on a `Red` array whose high-first DFS post-order numbering is the identity, the builder run on the
array's own function rebuilds the array prefix by prefix (`postOrder_sim`).
-/
namespace B
open Std B.Drive

/-- the prefix of length `m` -/
def pre (A : Arr) (m : Nat) : Arr := A.extract 0 m

theorem pre_size {A : Arr} {m : Nat} (h : m ≤ A.size) : (pre A m).size = m := by
  simp [pre, Array.size_extract]; omega

theorem pre_get {A : Arr} {m i : Nat} (h : m ≤ A.size) (hi : i < m) : (pre A m)[i]? = A[i]? := by
  simp [pre, Array.getElem?_extract]; omega

theorem pre_get_none {A : Arr} {m i : Nat} (h : m ≤ A.size) (hi : m ≤ i) : (pre A m)[i]? = none := by
  apply Array.getElem?_eq_none; rw [pre_size h]; exact hi

theorem pre_prefix {A : Arr} {m : Nat} (h : m ≤ A.size) : Prefix (pre A m) A :=
  ⟨by rw [pre_size h]; exact h, fun i hi => by rw [pre_size h] at hi; exact (pre_get h hi).symm⟩

theorem pre_full (A : Arr) : pre A A.size = A := by simp [pre]

theorem pre_push {A : Arr} {m : Nat} (h : m < A.size) : (pre A m).push A[m] = pre A (m + 1) := by
  apply Array.ext_getElem?
  intro i
  rcases Nat.lt_trichotomy i m with hlt | heq | hgt
  · rw [Array.getElem?_push, pre_size (by omega), if_neg (by omega), pre_get (by omega) hlt,
      pre_get (by omega) (by omega)]
  · subst heq
    rw [Array.getElem?_push, pre_size (by omega), if_pos rfl, pre_get (by omega) (by omega)]
    simp [h]
  · rw [pre_get_none (by omega) (by omega)]
    apply Array.getElem?_eq_none
    simp [pre_size (Nat.le_of_lt h)]; omega

theorem Red.pre {A : Arr} {n : Nat} (h : Red A n) {m : Nat} (hm2 : 2 ≤ m) (hm : m ≤ A.size) :
    Red (pre A m) n := by
  have hpre := pre_prefix hm
  refine ⟨by rw [pre_size hm]; exact hm2, ?_, ?_⟩
  · intro p nd hp2 hnd
    have hps : p < m := by have := lt_of_getElem?_some hnd; rwa [pre_size hm] at this
    rw [pre_get hm hps] at hnd
    obtain ⟨a, b, c, d, e, f⟩ := h.inner p nd hp2 hnd
    refine ⟨a, b, c, d, ?_, ?_⟩
    · have := varOf_prefix (n := n) hpre nd.low (by rw [pre_size hm]; omega); omega
    · have := varOf_prefix (n := n) hpre nd.high (by rw [pre_size hm]; omega); omega
  · intro p q nd hp2 hq2 hp hq
    have hps : p < m := by have := lt_of_getElem?_some hp; rwa [pre_size hm] at this
    have hqs : q < m := by have := lt_of_getElem?_some hq; rwa [pre_size hm] at this
    rw [pre_get hm hps] at hp; rw [pre_get hm hqs] at hq
    exact h.nodup p q nd hp2 hq2 hp hq

/-- in a `Red` array over `n` variables the value of a pointer depends only on variables in
    `[varOf p, n)` -/
theorem ev_indep_lt {A : Arr} {n : Nat} (h : Red A n) :
    ∀ p, p < A.size → ∀ v w : Nat → Bool, (∀ i, varOf A n p ≤ i → i < n → v i = w i) →
      ev A v p = ev A w p := by
  intro p
  induction p using Nat.strongRecOn with
  | _ p ih =>
    intro hp v w hvw
    by_cases h0 : p = 0
    · subst h0; simp [ev_zero]
    by_cases h1 : p = 1
    · subst h1; simp [ev_one]
    have hp2 : 2 ≤ p := by omega
    have hnd : A[p]? = some A[p] := by simp [hp]
    obtain ⟨hvn, hl, hh, _, hvl, hvh⟩ := h.inner p A[p] hp2 hnd
    have hvar : varOf A n p = A[p].var := varOf_node p _ hp2 hnd
    rw [ev_node h v p hp2 _ hnd, ev_node h w p hp2 _ hnd]
    have : v A[p].var = w A[p].var := hvw _ (by omega) hvn
    rw [this]
    split
    · exact ih _ hh (by omega) v w (fun i hi hin => hvw i (by omega) hin)
    · exact ih _ hl (by omega) v w (fun i hi hin => hvw i (by omega) hin)

/-- state invariant of the post-order test: exactly the decision nodes below `next` are marked -/
structure PInv (A : Arr) (vis : Array Bool) (next : Nat) : Prop where
  size : vis.size = A.size
  lo : 2 ≤ next
  hi : next ≤ A.size
  mark : ∀ q, 2 ≤ q → q < A.size → (vis.getD q true = true ↔ q < next)

/-- a pointer already present in a prefix is found by the builder -/
theorem ins_pre_found {A : Arr} {n : Nat} (h : Red A n) {m : Nat} (hm2 : 2 ≤ m) (hm : m ≤ A.size)
    (p : Nat) (hp : p < m) (k : Nat) (hk : k ≤ varOf A n p) :
    ins n (n - k) k (fun v => ev A v p) (pre A m) = (pre A m, p) := by
  have hred := h.pre hm2 hm
  have hpre := pre_prefix hm
  have hkn : k ≤ n := Nat.le_trans hk (varOf_le h p)
  apply ins_found hred (n - k) k _ p (by omega) (by rw [pre_size hm]; exact hp)
  · have := varOf_prefix (n := n) hpre p (by rw [pre_size hm]; exact hp); omega
  · intro v
    exact ev_prefix hred h hpre v p (by rw [pre_size hm]; exact hp)

/-- the post-order test simulates the reference builder on the array's own function -/
theorem postOrder_sim {A : Arr} {n : Nat} (h : Red A n) :
    ∀ fuel p vis next vis' next', PInv A vis next → p < A.size → n - varOf A n p < fuel →
      postOrder A fuel p (vis, next) = some (vis', next') →
      PInv A vis' next' ∧
      ∀ k, k ≤ varOf A n p → ins n (n - k) k (fun v => ev A v p) (pre A next) = (pre A next', p) := by
  intro fuel
  induction fuel with
  | zero => intro p vis next vis' next' _ _ hf; omega
  | succ fuel ih =>
    intro p vis next vis' next' hinv hp hfuel hpo
    rw [postOrder] at hpo
    by_cases hp2 : p < 2
    · rw [if_pos hp2] at hpo
      simp only [Option.some.injEq, Prod.mk.injEq] at hpo
      obtain ⟨rfl, rfl⟩ := hpo
      exact ⟨hinv, fun k hk => ins_pre_found h hinv.lo hinv.hi p (by have := hinv.lo; omega) k hk⟩
    rw [if_neg hp2] at hpo
    by_cases hvis : vis.getD p true = true
    · simp only [hvis, if_true, Option.some.injEq, Prod.mk.injEq] at hpo
      obtain ⟨rfl, rfl⟩ := hpo
      have hpn : p < next := (hinv.mark p (by omega) hp).1 hvis
      exact ⟨hinv, fun k hk => ins_pre_found h hinv.lo hinv.hi p hpn k hk⟩
    simp only [hvis, if_false, Bool.false_eq_true] at hpo
    have hp2' : 2 ≤ p := by omega
    have hnd : A[p]? = some A[p] := by simp [hp]
    have hgd : A[p]?.getD default = A[p] := by simp [hp]
    rw [hgd] at hpo
    obtain ⟨hvn, hl, hh, hne, hvl, hvh⟩ := h.inner p A[p] hp2' hnd
    have hvar : varOf A n p = A[p].var := varOf_node p _ hp2' hnd
    rcases h1 : postOrder A fuel A[p].high (vis, next) with _ | ⟨vis1, next1⟩
    · rw [h1] at hpo; cases hpo
    rw [h1] at hpo
    simp only at hpo
    rcases h2 : postOrder A fuel A[p].low (vis1, next1) with _ | ⟨vis2, next2⟩
    · rw [h2] at hpo; cases hpo
    rw [h2] at hpo
    simp only at hpo
    by_cases hpe : p = next2
    · rw [if_pos hpe] at hpo
      simp only [Option.some.injEq, Prod.mk.injEq] at hpo
      obtain ⟨rfl, rfl⟩ := hpo
      have hvlh := varOf_le h A[p].high
      have hvll := varOf_le h A[p].low
      obtain ⟨hinv1, hins1⟩ := ih A[p].high vis next vis1 next1 hinv (by omega) (by omega) h1
      obtain ⟨hinv2, hins2⟩ := ih A[p].low vis1 next1 vis2 next2 hinv1 (by omega) (by omega) h2
      refine ⟨⟨?_, ?_, ?_, ?_⟩, ?_⟩
      · rw [Array.size_setIfInBounds]; exact hinv2.size
      · have := hinv2.lo; omega
      · omega
      · intro q hq2 hqs
        rw [Array.getD_eq_getD_getElem?, Array.getElem?_setIfInBounds]
        by_cases hqp : p = q
        · subst hqp
          simp [hinv2.size, hp]; omega
        · rw [if_neg hqp, ← Array.getD_eq_getD_getElem?, hinv2.mark q hq2 hqs]; omega
      · intro k hk
        rw [hvar] at hk
        have hredP := h.pre hinv.lo hinv.hi
        -- skip the levels below the node's variable
        have hskip := ins_skip_many hredP (fun v => ev A v p) (A[p].var - k) k A[p].var (by omega) (by omega)
          (fun v w hvw => ev_indep_lt h p hp v w (fun i hi hin => hvw i (by omega) hin))
        rw [hskip]
        have hfuel' : n - A[p].var = (n - (A[p].var + 1)) + 1 := by omega
        rw [hfuel']
        have e1 : (fun v => (fun v => ev A v p) (upd v A[p].var true)) = fun v => ev A v A[p].high := by
          funext v
          simp only
          rw [ev_node h _ p hp2' _ hnd]
          simp only [upd, if_true]
          exact ev_upd h _ (by omega) v _ true hvh
        have e2 : (fun v => (fun v => ev A v p) (upd v A[p].var false)) = fun v => ev A v A[p].low := by
          funext v
          simp only
          rw [ev_node h _ p hp2' _ hnd]
          simp only [upd, if_true, Bool.false_eq_true, if_false]
          exact ev_upd h _ (by omega) v _ false hvl
        have i1 := hins1 (A[p].var + 1) (by omega)
        have i2 := hins2 (A[p].var + 1) (by omega)
        rw [← e1] at i1
        rw [← e2] at i2
        rw [ins_succ' i1 i2, if_neg hne]
        have hfn : findNode (pre A next2) ⟨A[p].var, A[p].low, A[p].high⟩ = none := by
          rcases hf : findNode (pre A next2) ⟨A[p].var, A[p].low, A[p].high⟩ with _ | i
          · rfl
          · exfalso
            obtain ⟨hi2, hi⟩ := findNode_some hf
            have his : i < next2 := by
              have := lt_of_getElem?_some hi; rwa [pre_size hinv2.hi] at this
            rw [pre_get hinv2.hi his] at hi
            have := h.nodup i p _ hi2 hp2' hi hnd
            omega
        rw [hfn]
        simp only
        rw [pre_size hinv2.hi]
        subst hpe
        have : (⟨A[p].var, A[p].low, A[p].high⟩ : Node) = A[p] := rfl
        rw [this, pre_push hp]
    · rw [if_neg hpe] at hpo; cases hpo

end B
