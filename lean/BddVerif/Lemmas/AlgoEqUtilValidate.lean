import BddVerif.Lemmas.AlgoEqUtilBase
import BddVerif.Lemmas.SerialValidate
/-!
# `Bdd::validate` (src/_impl_bdd/_impl_util.rs:710): translated code = hand model `B.Serial.validate`

Equal on ALL arrays of fewer than `2^32` nodes (the Rust code compares links with `self.0.len() as u32`), malformed
ones included, up to the text of the error message: for every fuel `≥ 2·len + 1` (`dfsFuel`, the hand model's own
bound) the translated code returns `Ok(())` / `Err(_)` exactly when the hand model does, and never panics.
The explicit DFS stack of the translated code is a `Vec` (top = last element); the hand model's is a list (top = head).
-/
namespace B.AlgoEqUtil
open B B.Gen B.Serial

attribute [local instance 10000] Rust.monadOutcomeInline

/-! ## the range-check loop -/

/-- hand-written body of `for node_pointer in self.pointers().skip(2)` -/
def rangeStep (A : Arr) (nv : Nat) (p : Nat) (_st : Option (Except String Unit) × Unit) :
    Outcome (ForInStep (Option (Except String Unit) × Unit)) :=
  match A[p]? with
  | none => .panic "index out of bounds"
  | some nd =>
    if nd.var ≥ nv then .ok (.done (some (.error "Found invalid variable: {:?}."), ())) else
    if nd.low ≥ A.size then .ok (.done (some (.error "Found invalid low-link: {:?}."), ())) else
    if nd.high ≥ A.size then .ok (.done (some (.error "Found invalid high-link: {:?}."), ())) else
    .ok (.yield (none, ()))

inductive RelR : Outcome (Option (Except String Unit) × Unit) → Outcome Unit → Prop
  | ok : RelR (.ok (none, ())) (.ok ())
  | err (m m' : String) : RelR (.ok (some (.error m), ())) (.err m')

theorem rangeLoop_rel (A : Arr) (nv : Nat) : ∀ (k s : Nat), s + k = A.size →
    RelR (iterL (rangeStep A nv) (List.range' s k) (none, ())) (rangeLoop A.size nv (A.toList.drop s)) := by
  intro k
  induction k with
  | zero =>
    intro s hs
    have : A.toList.drop s = [] := List.drop_eq_nil_of_le (by simp; omega)
    rw [this]
    exact RelR.ok
  | succ k ih =>
    intro s hs
    have hlt : s < A.size := by omega
    have hd : A.toList.drop s = A[s] :: A.toList.drop (s + 1) := by
      rw [List.drop_eq_getElem_cons (by simp; exact hlt)]; simp
    rw [hd, List.range'_succ, iterL_cons]
    unfold rangeLoop
    have hg : A[s]? = some A[s] := by simp [hlt]
    simp only [rangeStep, hg]
    by_cases h1 : A[s].var ≥ nv
    · simp only [h1, if_true]; exact RelR.err _ _
    by_cases h2 : A[s].low ≥ A.size
    · simp only [h1, h2, if_true, if_false]; exact RelR.err _ _
    by_cases h3 : A[s].high ≥ A.size
    · simp only [h1, h2, h3, if_true, if_false]; exact RelR.err _ _
    simp only [h1, h2, h3, if_false]
    exact ih (s + 1) (by omega)

/-! ## the depth-first search -/

abbrev DfsState := Option (Except String Unit) × Array Bool × Array Nat

/-- hand-written body of `while let Some(top) = stack.pop()`; state = (early return, `visited`, `stack`) -/
def dfsStep (A : Arr) (st : DfsState) : Outcome (ForInStep DfsState) :=
  match st.2.2.back? with
  | none => .ok (.done (none, st.2.1, st.2.2))
  | some top =>
    match st.2.1[top]? with
    | none => .panic "index out of bounds"
    | some true => .ok (.yield (none, st.2.1, st.2.2.pop))
    | some false =>
      match A[top]? with
      | none => .panic "index out of bounds"
      | some node =>
        match A[node.low]? with
        | none => .panic "index out of bounds"
        | some lc =>
          match A[node.high]? with
          | none => .panic "index out of bounds"
          | some hc =>
            if lc.var ≤ node.var || hc.var ≤ node.var then
              .ok (.done (some (.error "Found broken child ordering in node {:?}."),
                st.2.1.setIfInBounds top true, st.2.2.pop))
            else .ok (.yield (none, st.2.1.setIfInBounds top true, (st.2.2.pop.push node.low).push node.high))

/-- result of the translated DFS loop vs. result of the hand model's `dfs` -/
inductive RelD : Outcome DfsState → Outcome (Array Bool) → Prop
  | ok (vis : Array Bool) : RelD (.ok (none, vis, #[])) (.ok vis)
  | err (m m' : String) (vis : Array Bool) (st : Array Nat) : RelD (.ok (some (.error m), vis, st)) (.err m')
  | panic (m m' : String) : RelD (.panic m) (.panic m')

theorem stack_cons (top : Nat) (rest : List Nat) :
    (top :: rest).reverse.toArray = rest.reverse.toArray.push top := by
  simp

/-- simulation: whenever the hand model's DFS terminates within fuel `f`, the translated loop run for any `F ≥ f`
    iterations ends in the corresponding state (stack = the list reversed) -/
theorem dfs_sim (A : Arr) : ∀ (f F : Nat) (l : List Nat) (vis : Array Bool) (r : Outcome (Array Bool)),
    f ≤ F → dfs A f l vis = some r → RelD (iter (dfsStep A) F (none, vis, l.reverse.toArray)) r := by
  intro f
  induction f with
  | zero =>
    intro F l vis r _ h
    cases l with
    | nil =>
      rw [dfs_nil] at h
      cases h
      cases F with
      | zero => exact RelD.ok vis
      | succ F => rw [iter_succ]; exact RelD.ok vis
    | cons top rest => simp [dfs] at h
  | succ f ih =>
    intro F l vis r hF h
    cases l with
    | nil =>
      rw [dfs_nil] at h
      cases h
      cases F with
      | zero => exact RelD.ok vis
      | succ F => rw [iter_succ]; exact RelD.ok vis
    | cons top rest =>
      obtain ⟨F', rfl⟩ : ∃ k, F = k + 1 := ⟨F - 1, by omega⟩
      rw [iter_succ, stack_cons]
      unfold dfs at h
      simp only [aidx] at h
      simp only [dfsStep, Array.back?_push, Array.pop_push]
      cases hv : vis[top]? with
      | none => rw [hv] at h; cases h; exact RelD.panic _ _
      | some b =>
        rw [hv] at h
        cases b with
        | true => exact ih F' rest vis r (by omega) h
        | false =>
          simp only at h ⊢
          cases hA : A[top]? with
          | none => rw [hA] at h; cases h; exact RelD.panic _ _
          | some node =>
            rw [hA] at h
            simp only at h ⊢
            cases hl : A[node.low]? with
            | none => rw [hl] at h; cases h; exact RelD.panic _ _
            | some lc =>
              rw [hl] at h
              simp only at h ⊢
              cases hh : A[node.high]? with
              | none => rw [hh] at h; cases h; exact RelD.panic _ _
              | some hc =>
                rw [hh] at h
                simp only at h ⊢
                by_cases hord : (decide (lc.var ≤ node.var) || decide (hc.var ≤ node.var)) = true
                · rw [if_pos hord] at h ⊢
                  cases h
                  exact RelD.err _ _ _ _
                · rw [if_neg hord] at h ⊢
                  have := ih F' (node.high :: node.low :: rest) (vis.setIfInBounds top true) r (by omega) h
                  rw [stack_cons, stack_cons] at this
                  exact this

/-! ## the whole function -/

theorem mk_false_eq (n : Nat) : Algo.Bdd_mk_false n = #[⟨n, 0, 0⟩] := rfl
theorem mk_true_eq (n : Nat) : Algo.Bdd_mk_true n = #[⟨n, 0, 0⟩, ⟨n, 1, 1⟩] := rfl
theorem mk_zero_eq (n : Nat) : Algo.BddNode_mk_zero n = ⟨n, 0, 0⟩ := rfl
theorem mk_one_eq (n : Nat) : Algo.BddNode_mk_one n = ⟨n, 1, 1⟩ := rfl

theorem skip_pointers_toList (A : Arr) (hs : A.size ≤ 4294967296) :
    (Rust.skip (Algo.Bdd_pointers A) 2).toList = List.range' 2 (A.size - 2) := by
  rw [pointers_eq A hs]
  unfold Rust.skip
  rw [Array.toList_extract, List.extract_eq_take_drop, Array.toList_range, List.range_eq_range']
  simp [List.drop_range']

/-- the core: whatever the hand model answers, the translated code answers the same (up to the message) -/
theorem Bdd_validate_rel (A : Arr) (hs : A.size < 4294967296) (fuel : Nat) (hfuel : dfsFuel A ≤ fuel)
    (o : Outcome Unit) (ho : validate A = some o) : RelE (Algo.Bdd_validate fuel A) o := by
  unfold Algo.Bdd_validate
  unfold validate at ho
  by_cases h0 : A.size = 0
  · have : A.isEmpty = true := by simp [Array.isEmpty, h0]
    simp only [h0, if_true, Option.some.injEq] at ho
    subst ho
    simp only [this, if_true, pure_eq]
    exact RelE.err _ _
  have hne : A.isEmpty = false := by simp [Array.isEmpty, h0]
  have ha0 : aidx A 0 = .ok A[0] := aidx_of_lt (by omega)
  have hnv : numVars A = A[0].var := by simp [numVars, show 0 < A.size by omega]
  simp only [h0, if_false, ha0] at ho
  simp only [hne, Bool.false_eq_true, if_false, num_vars_eq A (by omega), bind_ok, hnv, mk_false_eq, mk_true_eq,
    mk_zero_eq, mk_one_eq, beq_iff_eq]
  by_cases h1 : A.size = 1
  · simp only [h1, if_true] at ho ⊢
    split at ho
    · rename_i hne'
      cases ho
      simp only [hne', if_true, pure_eq]
      exact RelE.err _ _
    · rename_i hne'
      cases ho
      simp only [hne', pure_eq]
      exact RelE.ok _
  by_cases h2 : A.size = 2
  · simp only [h2, if_true, show ¬ (2 = 1) by omega, if_false] at ho ⊢
    split at ho
    · rename_i hne'
      cases ho
      simp only [hne', if_true, pure_eq]
      exact RelE.err _ _
    · rename_i hne'
      cases ho
      simp only [hne', pure_eq]
      exact RelE.ok _
  simp only [h1, h2, if_false] at ho ⊢
  have hi0 : Rust.idx A 0 = .ok A[0] := idx_of_lt A 0 (by omega)
  have hi1 : Rust.idx A 1 = .ok A[1] := idx_of_lt A 1 (by omega)
  have ha1 : aidx A 1 = .ok A[1] := aidx_of_lt (by omega)
  simp only [hi0, hi1, ha1, bind_ok, pure_eq] at ho ⊢
  cases hz : (A[0] != ({ var := A[0].var, low := 0, high := 0 } : Node)) with
  | true =>
    simp only [hz, Bool.true_or, if_true, Option.some.injEq, Bool.not_true, Bool.false_eq_true, if_false] at ho ⊢
    subst ho
    exact RelE.err _ _
  | false =>
  simp only [hz, Bool.false_or, Bool.not_false, if_true] at ho ⊢
  cases ho1 : (A[1] != ({ var := A[0].var, low := 1, high := 1 } : Node)) with
  | true =>
    simp only [ho1, if_true, Option.some.injEq] at ho ⊢
    subst ho
    exact RelE.err _ _
  | false =>
  simp only [ho1, Bool.false_eq_true, if_false] at ho ⊢
  -- the range checks
  rw [forIn_array_eq_iterL, skip_pointers_toList A (by omega),
    iterL_congr _ (rangeStep A A[0].var) _ (by
      intro p _ st
      simp only [rangeStep, Algo.BddPointer_to_index, idx_eq, asU32_of_lt hs, decide_eq_true_eq]
      cases hp : A[p]? with
      | none => rfl
      | some nd =>
        simp only [bind_ok])]
  have hrange := rangeLoop_rel A A[0].var (A.size - 2) 2 (by omega)
  generalize iterL (rangeStep A A[0].var) (List.range' 2 (A.size - 2)) (none, ()) = x at hrange ⊢
  generalize rangeLoop A.size A[0].var (A.toList.drop 2) = y at hrange ho
  cases hrange with
  | err m m' =>
    simp only [Option.some.injEq] at ho
    subst ho
    exact RelE.err _ _
  | ok =>
  simp only [bind_ok, show ¬ A.size < 2 by omega, if_false] at ho ⊢
  -- the depth-first search
  rw [setIdx_eq, if_pos (by simp [Rust.vecRepeat]; omega)]
  simp only [bind_ok]
  rw [setIdx_eq, if_pos (by simp [Rust.vecRepeat]; omega)]
  simp only [bind_ok, root_pointer_eq A (by omega) (by omega), forIn_range_eq_iter]
  rw [iter_congr _ (dfsStep A) (by
    intro ⟨r, vis, stack⟩
    simp only [dfsStep, Algo.BddPointer_to_index, idx_eq, setIdx_eq]
    cases hb : stack.back? with
    | none => rfl
    | some top =>
      simp only
      cases hv : vis[top]? with
      | none => rfl
      | some b =>
        cases b with
        | true => rfl
        | false =>
          have hlt : top < vis.size := by
            rcases Nat.lt_or_ge top vis.size with h | h
            · exact h
            · rw [Array.getElem?_eq_none h] at hv; cases hv
          simp only [bind_ok, Bool.false_eq_true, if_false, hlt, if_true]
          cases hA : A[top]? with
          | none => rfl
          | some node =>
            simp only [bind_ok]
            cases hl : A[node.low]? with
            | none => rfl
            | some lc =>
              simp only [bind_ok]
              cases hh : A[node.high]? with
              | none => rfl
              | some hc => rfl)]
  cases hd : dfs A (dfsFuel A) [A.size - 1]
      (((Array.replicate A.size false).setIfInBounds 0 true).setIfInBounds 1 true) with
  | none => rw [hd] at ho; cases ho
  | some r =>
    rw [hd] at ho
    have hsim := dfs_sim A (dfsFuel A) fuel [A.size - 1] _ r hfuel hd
    have e1 : [A.size - 1].reverse.toArray = #[root A] := rfl
    rw [e1] at hsim
    have e2 : Rust.vecRepeat false A.size = Array.replicate A.size false := rfl
    rw [e2]
    generalize iter (dfsStep A) fuel
      (none, ((Array.replicate A.size false).setIfInBounds 0 true).setIfInBounds 1 true, #[root A]) = x at hsim ⊢
    cases hsim with
    | panic m m' =>
      simp only [Option.some.injEq] at ho
      subst ho
      exact RelE.panic _ _
    | err m m' vis st =>
      simp only [Option.some.injEq] at ho
      subst ho
      exact RelE.err _ _
    | ok vis =>
      simp only at ho
      have e3 : (vis.all fun it => it) = vis.all id := rfl
      cases hall : vis.all id with
      | true =>
        rw [hall] at ho
        simp only [if_true, Option.some.injEq] at ho
        subst ho
        simp only [bind_ok, e3, hall]
        exact RelE.ok _
      | false =>
        rw [hall] at ho
        simp only [Bool.false_eq_true, if_false, Option.some.injEq] at ho
        subst ho
        simp only [bind_ok, e3, hall]
        exact RelE.err _ _

/-- **validate, translated code = hand model**, for EVERY array of fewer than `2^32` nodes and every fuel
    `≥ dfsFuel A = 2·len + 1`: the hand model terminates with some outcome `o` that is not a panic, and the translated
    code returns the same verdict (`Ok(())` for `ok ()`, `Err(_)` for `err _`) -/
theorem Bdd_validate_eq_model (A : Arr) (hs : A.size < 4294967296) (fuel : Nat) (hfuel : 2 * A.size + 1 ≤ fuel) :
    ∃ o, validate A = some o ∧ o.isPanic = false ∧ RelE (Algo.Bdd_validate fuel A) o := by
  obtain ⟨o, ho, hp⟩ := validate_total A
  exact ⟨o, ho, hp, Bdd_validate_rel A hs fuel hfuel o ho⟩

theorem Bdd_validate_ok_iff (A : Arr) (hs : A.size < 4294967296) (fuel : Nat) (hfuel : 2 * A.size + 1 ≤ fuel) :
    Algo.Bdd_validate fuel A = .ok (.ok ()) ↔ validate A = some (.ok ()) := by
  obtain ⟨o, ho, _, hr⟩ := Bdd_validate_eq_model A hs fuel hfuel
  rw [hr.ok_iff (), ho]
  simp

theorem Bdd_validate_err_iff (A : Arr) (hs : A.size < 4294967296) (fuel : Nat) (hfuel : 2 * A.size + 1 ≤ fuel) :
    (∃ m, Algo.Bdd_validate fuel A = .ok (.error m)) ↔ ∃ m, validate A = some (.err m) := by
  obtain ⟨o, ho, _, hr⟩ := Bdd_validate_eq_model A hs fuel hfuel
  rw [hr.err_iff, ho]
  simp

/-- the translated `validate` never panics and never runs out of fuel -/
theorem Bdd_validate_total (A : Arr) (hs : A.size < 4294967296) (fuel : Nat) (hfuel : 2 * A.size + 1 ≤ fuel) :
    ∃ r, Algo.Bdd_validate fuel A = .ok r := by
  obtain ⟨o, ho, hp, hr⟩ := Bdd_validate_eq_model A hs fuel hfuel
  generalize Algo.Bdd_validate fuel A = x at hr ⊢
  cases hr with
  | ok a => exact ⟨_, rfl⟩
  | err m m' => exact ⟨_, rfl⟩
  | panic m m' => simp [Outcome.isPanic] at hp

end B.AlgoEqUtil
