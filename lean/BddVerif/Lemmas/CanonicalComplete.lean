import BddVerif.Lemmas.CanonicalSound
/-!
`isCanon_complete`: every canonical array passes the executable canonicity test, so `Drive.isCanon`
decides `Canonical` exactly (`isCanon_iff`).
-/
namespace B
open Std B.Drive

/-! ### the structural test accepts reduced arrays -/

theorem redLoop_complete (A : Arr) (n : Nat) : ∀ (len s : Nat) (seen : HashSet Node),
    (∀ nd, seen.contains nd = true → ∃ j, 2 ≤ j ∧ j < s ∧ A[j]! = nd) →
    (∀ i, s ≤ i → i < s + len → redBody A n i = true ∧ ∀ j, 2 ≤ j → j < i → A[j]! ≠ A[i]!) →
    2 ≤ s → redLoop A n (List.range' s len) seen = true := by
  intro len
  induction len with
  | zero => intro s seen _ _ _; simp [redLoop]
  | succ len ih =>
    intro s seen hseen hall hs2
    rw [List.range'_succ]
    simp only [redLoop, Bool.and_eq_true, Bool.not_eq_true']
    obtain ⟨hb, hnd⟩ := hall s (Nat.le_refl _) (by omega)
    refine ⟨⟨hb, ?_⟩, ?_⟩
    · cases hc : seen.contains A[s]!
      · rfl
      · exfalso
        obtain ⟨j, hj2, hjs, hje⟩ := hseen _ hc
        exact hnd j hj2 hjs hje
    · apply ih (s + 1) (seen.insert A[s]!) _ (fun i hi1 hi2 => hall i (by omega) (by omega)) (by omega)
      intro nd hc
      rw [HashSet.contains_insert, Bool.or_eq_true, beq_iff_eq] at hc
      rcases hc with hc | hc
      · exact ⟨s, hs2, by omega, hc⟩
      · obtain ⟨j, hj2, hjs, hje⟩ := hseen _ hc
        exact ⟨j, hj2, by omega, hje⟩

theorem isReduced_complete {A : Arr} (hred : Red A (numVars A))
    (h0 : A[0]? = some (zeroN (numVars A))) (h1 : A[1]? = some (oneN (numVars A))) :
    isReduced A = true := by
  rw [isReduced_eq]
  unfold isReducedR
  have hs2 := hred.size2
  have hvar : ∀ q, q < A.size → varOf A (numVars A) q = A[q]!.var := by
    intro q hq
    unfold varOf
    by_cases hq2 : q < 2
    · rw [if_pos hq2]
      have : q = 0 ∨ q = 1 := by omega
      rcases this with rfl | rfl
      · rw [getBang_of_some h0]; rfl
      · rw [getBang_of_some h1]; rfl
    · rw [if_neg hq2, Array.getElem?_eq_getElem hq]
      simp [hq]
  simp only [Bool.and_eq_true, Bool.or_eq_true, decide_eq_true_eq, beq_iff_eq]
  refine ⟨⟨by omega, by rw [getBang_of_some h0]; rfl⟩, Or.inr ⟨by rw [getBang_of_some h1]; rfl, ?_⟩⟩
  apply redLoop_complete A (numVars A) (A.size - 2) 2 ∅ (by intro nd hc; simp at hc) _ (Nat.le_refl _)
  intro i hi1 hi2
  have his : i < A.size := by omega
  have hnd : A[i]? = some A[i] := by simp [his]
  obtain ⟨a, b, c, d, e, f⟩ := hred.inner i A[i] hi1 hnd
  rw [hvar _ (by omega)] at e f
  refine ⟨?_, ?_⟩
  · unfold redBody
    rw [getBang_of_some hnd]
    simp only [Bool.and_eq_true, decide_eq_true_eq, bne_iff_ne, ne_eq]
    exact ⟨⟨⟨⟨a, b⟩, c⟩, d⟩, e, f⟩
  · intro j hj2 hji heq
    have hjs : j < A.size := by omega
    have hndj : A[j]? = some A[j] := by simp [hjs]
    rw [getBang_of_some hnd, getBang_of_some hndj] at heq
    have := hred.nodup j i A[j] hj2 hi1 hndj (by rw [heq]; exact hnd)
    omega

/-! ### the post-order test accepts the builder's output -/

theorem Prefix.size_eq {P Q : Arr} (h : Prefix P Q) (hs : Q.size ≤ P.size) : P = Q := by
  apply Array.ext_getElem?
  intro i
  by_cases hi : i < P.size
  · exact (h.2 i hi).symm
  · rw [Array.getElem?_eq_none (by omega), Array.getElem?_eq_none (by omega)]

theorem postOrder_done {A : Arr} {vis : Array Bool} {m : Nat} (hinv : PInv A vis m) (pfuel p : Nat)
    (hp : p < m) : postOrder A pfuel p (vis, m) = some (vis, m) := by
  cases pfuel with
  | zero => rfl
  | succ pf =>
    rw [postOrder]
    by_cases hp2 : p < 2
    · rw [if_pos hp2]
    · rw [if_neg hp2]
      have : vis.getD p true = true := (hinv.mark p (by omega) (by have := hinv.hi; omega)).2 hp
      simp [this]

/-- running the post-order test on the final array replays the builder: from the prefix the builder
    started with, the test ends exactly at the prefix the builder produced -/
theorem ins_postOrder {A : Arr} {n : Nat} :
    ∀ fuel k (f : (Nat → Bool) → Bool) (P : Arr), Red P n → fuel + k = n →
      (∀ v w : Nat → Bool, (∀ i, k ≤ i → i < n → v i = w i) → f v = f w) →
      Prefix (ins n fuel k f P).1 A →
      ∀ pfuel vis, PInv A vis P.size → n - k < pfuel →
        ∃ vis', postOrder A pfuel (ins n fuel k f P).2 (vis, P.size) = some (vis', (ins n fuel k f P).1.size) ∧
          PInv A vis' (ins n fuel k f P).1.size := by
  intro fuel
  induction fuel with
  | zero =>
    intro k f P hP _ _ hpre pfuel vis hinv _
    have hs := hP.size2
    refine ⟨vis, ?_, by simpa [ins] using hinv⟩
    simp only [ins]
    apply postOrder_done hinv
    split <;> omega
  | succ fuel ih =>
    intro k f P hP hk hdep hpre pfuel vis hinv hpf
    have dep1 : ∀ b, ∀ v w : Nat → Bool, (∀ i, k+1 ≤ i → i < n → v i = w i) →
        f (upd v k b) = f (upd w k b) := by
      intro b v w hvw
      apply hdep
      intro i h1 h2
      by_cases hik : i = k
      · simp [upd, hik]
      · simp [upd, hik]; exact hvw i (by omega) h2
    have l1 := ins_last fuel (k+1) (fun v => f (upd v k true)) P hP (by omega) (dep1 true)
    have ih1 := ih (k+1) (fun v => f (upd v k true)) P hP (by omega) (dep1 true)
    obtain ⟨r1red, r1pre, r1lt, r1var, r1ev⟩ := ins_spec fuel (k+1) (fun v => f (upd v k true)) P hP (by omega) (dep1 true)
    generalize hr1 : ins n fuel (k+1) (fun v => f (upd v k true)) P = r1 at l1 ih1 r1red r1pre r1lt r1var r1ev
    have l2 := ins_last fuel (k+1) (fun v => f (upd v k false)) r1.1 r1red (by omega) (dep1 false)
    have ih2 := ih (k+1) (fun v => f (upd v k false)) r1.1 r1red (by omega) (dep1 false)
    obtain ⟨r2red, r2pre, r2lt, r2var, r2ev⟩ := ins_spec fuel (k+1) (fun v => f (upd v k false)) r1.1 r1red (by omega) (dep1 false)
    generalize hr2 : ins n fuel (k+1) (fun v => f (upd v k false)) r1.1 = r2 at l2 ih2 r2red r2pre r2lt r2var r2ev
    obtain ⟨A1, p1⟩ := r1
    obtain ⟨A2, p2⟩ := r2
    simp only at l1 l2 ih1 ih2 r1red r1pre r1lt r1var r1ev r2red r2pre r2lt r2var r2ev
    rw [ins_succ' hr1 hr2] at hpre ⊢
    by_cases heq : p2 = p1
    · simp only [heq, if_true] at hpre ⊢
      subst heq
      -- the low cofactor equals the high cofactor: the second call pushes nothing
      have hsame : A2 = A1 := by
        have hfound := ins_found r1red fuel (k+1) (fun v => f (upd v k false)) p2 (by omega) r1lt r1var
          (fun v => by rw [← r2ev v]; exact ev_prefix r1red r2red r2pre v _ r1lt)
        rw [hfound] at hr2
        exact (congrArg Prod.fst hr2).symm
      subst hsame
      exact ih1 hpre pfuel vis hinv (by omega)
    · simp only [heq, if_false] at hpre ⊢
      rcases hfn : findNode A2 ⟨k, p2, p1⟩ with _ | i
      · simp only [hfn] at hpre ⊢
        -- a fresh node: the test descends into both children and then numbers this node
        have hpush := Prefix.push A2 ⟨k, p2, p1⟩
        have hA2pre : Prefix A2 A := hpush.trans hpre
        have hA1pre : Prefix A1 A := r2pre.trans hA2pre
        have hs2 := r2red.size2
        have hndA : A[A2.size]? = some ⟨k, p2, p1⟩ := by
          rw [hpre.2 A2.size (by simp)]; simp
        have hA2lt : A2.size < A.size := lt_of_getElem?_some hndA
        have hgd : A[A2.size]?.getD default = ⟨k, p2, p1⟩ := by rw [hndA]; rfl
        obtain ⟨pf, rfl⟩ : ∃ pf, pfuel = pf + 1 := ⟨pfuel - 1, by omega⟩
        obtain ⟨vis1, hpo1, hinv1⟩ := ih1 hA1pre pf vis hinv (by omega)
        obtain ⟨vis2, hpo2, hinv2⟩ := ih2 hA2pre pf vis1 hinv1 (by omega)
        have hnotvis : ¬ (vis.getD A2.size true = true) := by
          rw [hinv.mark A2.size (by omega) hA2lt]
          have := r1pre.1; have := r2pre.1; omega
        refine ⟨vis2.setIfInBounds A2.size true, ?_, ?_⟩
        · rw [postOrder, if_neg (by omega)]
          simp only [hnotvis, hgd, hpo1, hpo2, if_true]
          simp
        · refine ⟨?_, ?_, ?_, ?_⟩
          · rw [Array.size_setIfInBounds]; exact hinv2.size
          · simp; omega
          · simp; omega
          · intro q hq2 hqs
            rw [Array.getD_eq_getD_getElem?, Array.getElem?_setIfInBounds]
            by_cases hqp : A2.size = q
            · subst hqp
              simp [hinv2.size, hA2lt]
            · rw [if_neg hqp, ← Array.getD_eq_getD_getElem?, hinv2.mark q hq2 hqs]
              simp; omega
      · simp only [hfn] at hpre ⊢
        -- an existing node: nothing was pushed by either sub-call
        obtain ⟨hi2, hind⟩ := findNode_some hfn
        have his : i < A2.size := lt_of_getElem?_some hind
        obtain ⟨_, hlo, hhi, _, _, _⟩ := r2red.inner i _ hi2 hind
        simp only at hlo hhi
        have e2 : A2 = A1 := by
          rcases l2 with l2 | l2
          · exact l2
          · exfalso; omega
        subst e2
        have e1 : A2 = P := by
          rcases l1 with l1 | l1
          · exact l1
          · exfalso; omega
        subst e1
        exact ⟨vis, postOrder_done hinv pfuel i his, hinv⟩

/-- completeness of the executable canonicity test -/
theorem isCanon_complete {A : Arr} (h : Canonical A) : isCanon A = true := by
  rcases h.cases with ⟨e, _⟩ | ⟨hred, hpre, _⟩
  · have hr : isReduced A = true := by
      rw [isReduced_eq, e]
      simp [isReducedR, mkFalse, numVars, zeroN]
    unfold isCanon
    rw [hr, e]
    simp [mkFalse]
  · have h0 : A[0]? = some (zeroN (numVars A)) := hpre.2 0 (by rw [mkTrue_size]; omega)
    have h1 : A[1]? = some (oneN (numVars A)) := hpre.2 1 (by rw [mkTrue_size]; omega)
    have hr := isReduced_complete hred h0 h1
    unfold isCanon
    rw [hr, Bool.true_and, Bool.or_eq_true, decide_eq_true_eq]
    by_cases hs : A.size ≤ 2
    · exact Or.inl hs
    · right
      have hdep := h.depBelow
      have hdep' : ∀ v w : Nat → Bool, (∀ i, 0 ≤ i → i < numVars A → v i = w i) → den A v = den A w :=
        fun v w h => hdep v w (fun i hi => h i (Nat.zero_le _) hi)
      rcases canon_spec (numVars A) (den A) hdep with ⟨e, _⟩ | ⟨_, e, hroot, _⟩
      · rw [← h] at e; rw [e, mkFalse_size] at hs; omega
      · rw [← h] at e hroot
        have hinv : PInv A (Array.replicate A.size false) (mkTrue (numVars A)).size := by
          rw [mkTrue_size]
          refine ⟨by simp, by omega, by omega, ?_⟩
          intro q hq2 hqs
          rw [Array.getD_eq_getD_getElem?, Array.getElem?_replicate, if_pos hqs]
          simp; omega
        obtain ⟨vis', hpo, _⟩ := ins_postOrder (numVars A) 0 (den A) (mkTrue (numVars A))
          (red_mkTrue _) (by omega) hdep' (by rw [← e]; exact Prefix.refl A) (numVars A + 2) _ hinv (by omega)
        rw [← e, ← hroot, mkTrue_size] at hpo
        rw [hpo]
        simp

/-- the executable test decides the specification -/
theorem isCanon_iff (A : Arr) : isCanon A = true ↔ Canonical A :=
  ⟨isCanon_sound, isCanon_complete⟩

instance (A : Arr) : Decidable (Canonical A) := decidable_of_iff _ (isCanon_iff A)

end B

namespace B
open B.Drive

/-- non-vacuity: `x0 ∧ x2` over three variables (a level-skipping array) is canonical … -/
theorem exX0X2_canonical : Canonical exX0X2 := by
  have h := canon_canonical' 3 (fun v => v 0 && v 2)
  have e : canon 3 (fun v => v 0 && v 2) = exX0X2 := by decide
  rwa [e] at h

/-- … so the hypothesis of `isCanon_sound` is satisfiable on a non-trivial value, … -/
example : isCanon exX0X2 = true := isCanon_complete exX0X2_canonical

/-- … its three structural consequences hold, … -/
example : Red exX0X2 3 ∧ ∀ q, 2 ≤ q → q < 4 → Reach exX0X2 3 q :=
  exX0X2_canonical.reach (by decide)

/-- … and a reduced array with an unreachable decision node (index 2) is not canonical. -/
example : ¬ Canonical #[⟨2, 0, 0⟩, ⟨2, 1, 1⟩, ⟨1, 0, 1⟩, ⟨0, 0, 1⟩] := by
  intro h
  have := h.reach (by decide)
  have h2 := this.2 2 (by decide) (by decide)
  -- node 2 is not reachable from the root 3, whose children are the terminals
  have key : ∀ p q, Reach #[⟨2, 0, 0⟩, ⟨2, 1, 1⟩, ⟨1, 0, 1⟩, ⟨0, 0, 1⟩] p q → (p = 3 ∨ p < 2) → q ≠ 2 := by
    intro p q hr
    induction hr with
    | refl p => intro hp; omega
    | low h2 hnd _ ih =>
      intro hp
      rcases hp with rfl | hp
      · simp at hnd; subst hnd; exact ih (Or.inr (by decide))
      · omega
    | high h2 hnd _ ih =>
      intro hp
      rcases hp with rfl | hp
      · simp at hnd; subst hnd; exact ih (Or.inr (by decide))
      · omega
  exact key _ _ h2 (Or.inl rfl) rfl

end B
