import BddVerif.Lemmas.AlgoEq3Sat
/-!
# The translated `sat_valuations` iterator enumerates exactly `satSpec A`

On a reduced array `A` over `n < 2^16` variables with at most `2^32` nodes (the hypotheses of `AlgoEqIterChain`):

* `satInv_init`, `sat_next_step` — the state of the translated iterator is `satOf A s` for the model's state `s`
  at every moment: the translated constructor returns `satOf A (satInit A)`, and each call of the translated `next`
  returns the model's item and `satOf A` of the model's next state (invariant `SatInv`: the stack is a valid path
  ending in the one-terminal, the valuation held fits `u16`);
* `sat_iter_translated` — hence the list of all items produced by iterating the translated `next` until `None` is
  `satSpec A` = `(pathsOf A).flatMap extensions` (by `Props.C08.sat_valuations_spec`: every satisfying valuation
  exactly once and nothing else), for every fuel `≥ A.size + 2`;
* `sat_clauses_translated` — `sat_clauses()` followed by collecting = `paths A (root A) []`;
* `sat_iter_translated_false` — the one-node array (constant false): nothing is enumerated.
-/
namespace B.AlgoEq3Sat
open B B.Gen B.Gen.Algo B.Gen.Algo3 B.Iter B.AlgoEqIt
attribute [local instance 10000] Rust.monadOutcomeInline

/-! ### clauses of valid paths fit the variable count -/

theorem pvSet_length_le (c : PV) (i : Nat) (x : Option Bool) (n : Nat) (hc : c.length ≤ n) (hi : i < n) :
    (pvSet c i x).length ≤ n := by
  simp only [pvSet, pvCell, List.length_set, List.length_append, List.length_replicate]
  omega

theorem clauseOf_length {A : Arr} {n : Nat} (h : Red A n) : ∀ S, PathOK A S → (clauseOf A S).length ≤ n := by
  intro S
  induction S with
  | nil => intro _; simp [clauseOf]
  | cons c rest ih =>
    intro hok
    cases rest with
    | nil => simp [clauseOf]
    | cons t rest =>
      obtain ⟨⟨nd, hnd, ht2, _, _⟩, hrest⟩ := hok
      obtain ⟨hv, _⟩ := h.inner t nd ht2 hnd
      rw [clauseOf_cons A c t rest nd hnd]
      exact pvSet_length_le _ _ _ n (ih hrest) hv

/-! ### which stack the model's next state has -/

theorem satNext_stack (A : Arr) (s : SatSt) (r : Option Valn × SatSt) (h : satNext A s = .ok r) :
    r.2.stack = s.stack ∨ ∃ o, pathNext A s.stack = .ok (o, r.2.stack) := by
  unfold satNext at h
  cases hcv : cvNext s.vals with
  | err m => simp [hcv] at h
  | panic m => simp [hcv] at h
  | ok x =>
    obtain ⟨o, cv1⟩ := x
    cases o with
    | some v =>
      simp only [hcv, Outcome.ok.injEq] at h
      subst h; exact Or.inl rfl
    | none =>
      simp only [hcv] at h
      cases hp : pathNext A s.stack with
      | err m => simp [hp] at h
      | panic m => simp [hp] at h
      | ok y =>
        obtain ⟨op, st'⟩ := y
        cases op with
        | none =>
          simp only [hp, Outcome.ok.injEq] at h
          subst h; exact Or.inr ⟨none, rfl⟩
        | some p =>
          simp only [hp] at h
          cases hnew : cvNew p (numVars A) with
          | err m => simp [hnew] at h
          | panic m => simp [hnew] at h
          | ok cv2 =>
            simp only [hnew] at h
            cases hcv2 : cvNext cv2 with
            | err m => simp [hcv2] at h
            | panic m => simp [hcv2] at h
            | ok z =>
              obtain ⟨o2, cv3⟩ := z
              simp only [hcv2, Outcome.ok.injEq] at h
              subst h; exact Or.inr ⟨some p, rfl⟩

theorem satInit_stack (A : Arr) (s0 : SatSt) (h : satInit A = .ok s0) :
    ∃ S o, pathInit A = .ok S ∧ pathNext A S = .ok (o, s0.stack) := by
  unfold satInit at h
  cases hi : pathInit A with
  | err m => simp [hi] at h
  | panic m => simp [hi] at h
  | ok S =>
    simp only [hi] at h
    cases hp : pathNext A S with
    | err m => simp [hp] at h
    | panic m => simp [hp] at h
    | ok y =>
      obtain ⟨op, st'⟩ := y
      cases op with
      | none =>
        simp only [hp, Outcome.ok.injEq] at h
        subst h; exact ⟨S, none, rfl, hp⟩
      | some p =>
        simp only [hp] at h
        cases hnew : cvNew p (numVars A) with
        | err m => simp [hnew] at h
        | panic m => simp [hnew] at h
        | ok cv2 =>
          simp only [hnew, Outcome.ok.injEq] at h
          subst h; exact ⟨S, some p, rfl, hp⟩

/-! ### the invariant and the two simulation theorems on reduced arrays -/

/-- invariant of the model's iterator state between two calls of `next` -/
def SatInv (A : Arr) (s : SatSt) : Prop := Good A s.stack ∧ CvSmall s.vals

theorem good_pathNext_clause {A : Arr} {n : Nat} (h : Red A n) (S : List Nat) (hg : Good A S) (p : PV) (st' : List Nat)
    (hp : pathNext A S = .ok (some p, st')) : p.length ≤ n := by
  rcases hg.2 with rfl | ⟨r, rfl⟩
  · simp [pathNext] at hp
  · obtain ⟨S', hnx, _, _⟩ := pathNext_spec h r hg
    rw [hnx] at hp
    simp only [Outcome.ok.injEq, Prod.mk.injEq, Option.some.injEq] at hp
    rw [← hp.1]
    exact clauseOf_length h _ hg.1

theorem stepOK_of_inv {A : Arr} {n : Nat} (h : Red A n) (hn16 : n < 65536) (fuel : Nat) (hfuel : A.size + 2 ≤ fuel)
    (s : SatSt) (hi : SatInv A s) : StepOK A fuel s :=
  ⟨by have := good_length h s.stack hi.1; omega, hi.2,
    fun p st' hp => by have := good_pathNext_clause h s.stack hi.1 p st' hp; omega⟩

/-- **each `next` of the translated iterator yields the model's next valuation**: on a reduced array, from
    `satOf A s` with `s` satisfying the invariant, the translated `next` returns the model's item and `satOf A` of
    the model's next state, which satisfies the invariant again -/
theorem sat_next_step {A : Arr} {n : Nat} (h : Red A n) (hn : numVars A = n) (hn16 : n < 65536) (fuel : Nat)
    (hfuel : A.size + 2 ≤ fuel) (s : SatSt) (r : Option Valn × SatSt) (hi : SatInv A s)
    (hr : satNext A s = .ok r) :
    BddSatisfyingValuations_next fuel (satOf A s) = .ok (r.1.map List.toArray, satOf A r.2) ∧ SatInv A r.2 := by
  have h2 := h.size2
  obtain ⟨g, hs⟩ := sat_next_eq_model A (by omega) (by omega) s r hr fuel hfuel (stepOK_of_inv h hn16 fuel hfuel s hi)
  refine ⟨g, ?_, hs⟩
  rcases satNext_stack A s r hr with e | ⟨o, hp⟩
  · rw [e]; exact hi.1
  · exact (path_next_step h fuel hfuel s.stack _ hi.1 hp).2

/-- **the translated constructor returns the model's start state**, which satisfies the invariant -/
theorem satInv_init {A : Arr} {n : Nat} (h : Red A n) (hn : numVars A = n) (hn16 : n < 65536)
    (h32 : A.size ≤ 4294967296) (fuel : Nat) (hfuel : A.size + 2 ≤ fuel) (s0 : SatSt) (h0 : satInit A = .ok s0) :
    Bdd_sat_valuations fuel A = .ok (satOf A s0) ∧ SatInv A s0 := by
  have h2 := h.size2
  obtain ⟨S, hS, hg, _⟩ := pathInit_spec h
  have hlen : ∀ S', pathInit A = .ok S' → S'.length ≤ fuel := by
    intro S' hS'
    rw [hS] at hS'
    simp only [Outcome.ok.injEq] at hS'
    subst hS'
    have := good_length h S hg; omega
  have hcl : ∀ S' p st', pathInit A = .ok S' → pathNext A S' = .ok (some p, st') → p.length ≤ 65536 := by
    intro S' p st' hS' hp
    rw [hS] at hS'
    simp only [Outcome.ok.injEq] at hS'
    subst hS'
    have := good_pathNext_clause h S hg p st' hp; omega
  obtain ⟨g, hs⟩ := Bdd_sat_valuations_eq_model A (by omega) h32 (by omega) s0 h0 fuel hfuel hlen hcl
  refine ⟨g, ?_, hs⟩
  obtain ⟨S', o, hS', hp⟩ := satInit_stack A s0 h0
  rw [hS] at hS'
  simp only [Outcome.ok.injEq] at hS'
  subst hS'
  exact (path_next_step h fuel hfuel S _ hg hp).2

/-- **The translated `sat_valuations` iterator enumerates exactly `satSpec A`.** For a reduced array `A` over
    `n < 2^16` variables with at most `2^32` nodes, every `fuel ≥ A.size + 2` and every bound
    `k > |satSpec A|` on the number of calls of `next`: the translated `Bdd::sat_valuations` succeeds with the state
    `satOf A s0` of the model's start state, and collecting the translated `BddSatisfyingValuations::next` until
    `None` yields exactly the model's list `satSpec A` (as arrays), in order, without panic. -/
theorem sat_iter_translated {A : Arr} {n : Nat} (h : Red A n) (hn : numVars A = n) (hn16 : n < 65536)
    (h32 : A.size ≤ 4294967296) (fuel : Nat) (hfuel : A.size + 2 ≤ fuel) (k : Nat) (hk : (satSpec A).length < k) :
    ∃ s0, satInit A = .ok s0 ∧ Bdd_sat_valuations fuel A = .ok (satOf A s0) ∧
      collect (BddSatisfyingValuations_next fuel) k (satOf A s0) = .ok ((satSpec A).map List.toArray) := by
  have hlist := Props.C08.sat_iter_eq h hn k hk
  unfold satList at hlist
  cases h0 : satInit A with
  | err m => simp [h0] at hlist
  | panic m => simp [h0] at hlist
  | ok s0 =>
    simp only [h0] at hlist
    obtain ⟨g, hinv⟩ := satInv_init h hn hn16 h32 fuel hfuel s0 h0
    refine ⟨s0, rfl, g, ?_⟩
    exact collect_eq_model (BddSatisfyingValuations_next fuel) (satNext A) (satOf A) List.toArray (SatInv A)
      (fun s r hP hr => sat_next_step h hn hn16 fuel hfuel s r hP hr) k s0 _ hinv hlist

/-- `sat_clauses()` then collecting the path iterator = the clauses `paths A (root A) []` -/
theorem sat_clauses_translated {A : Arr} {n : Nat} (h : Red A n) (hn : numVars A = n) (h32 : A.size ≤ 4294967296)
    (fuel : Nat) (hfuel : A.size + 2 ≤ fuel) (k : Nat) (hk : (pathsOf A).length < k) :
    ∃ S, pathInit A = .ok S ∧ Bdd_sat_clauses fuel A = .ok (A, stkArr S) ∧
      collect (BddPathIterator_next fuel) k (A, stkArr S) = .ok ((paths A (root A) []).map List.toArray) ∧
      (paths A (root A) []).map (pvNorm n) = pathsOf A := by
  obtain ⟨S, hS, _, _⟩ := pathInit_spec h
  obtain ⟨st, hnew, hcol, hnorm⟩ := path_iter_translated h hn h32 fuel hfuel k hk
  have g := Bdd_sat_clauses_eq_model A h32 S hS fuel hfuel
  have e : st = (A, stkArr S) := by
    have := path_new_eq_model A h32 S hS fuel hfuel
    rw [hnew] at this
    simpa using this
  subst e
  exact ⟨S, hS, g, hcol, hnorm⟩

/-- after the last valuation the translated iterator answers `None` and stays put (any fuel) -/
theorem sat_next_exhausted (A : Arr) (fuel : Nat) (clause : Array (Option Bool)) :
    BddSatisfyingValuations_next fuel (A, (A, #[]), (none, clause)) = .ok (none, (A, (A, #[]), (none, clause))) := by
  unfold BddSatisfyingValuations_next
  simp only [ValuationsOfClauseIterator_next_none, ok_bind, Option.isSome_none, Bool.false_eq_true, if_false,
    path_next_exhausted]
  rfl

/-- the constant false (one-node array): the constructor gives the exhausted state, nothing is enumerated — as the
    model (`Props.C08.false_constant`) -/
theorem sat_iter_translated_false (A : Arr) (h1 : A.size = 1) (fuel k : Nat) :
    Bdd_sat_valuations fuel A = .ok (satOf A ⟨[], cvEmpty⟩) ∧ satInit A = .ok ⟨[], cvEmpty⟩ ∧
      collect (BddSatisfyingValuations_next fuel) (k + 1) (satOf A ⟨[], cvEmpty⟩) = .ok [] := by
  obtain ⟨hnew, _⟩ := path_iter_translated_false A h1 fuel 0
  refine ⟨?_, ?_, ?_⟩
  · unfold Bdd_sat_valuations
    simp only [hnew, ok_bind, path_next_exhausted, pure_eq]
    rfl
  · simp [satInit, pathInit, h1, pathNext]
  · unfold collect
    have : satOf A ⟨[], cvEmpty⟩ = (A, (A, #[]), (none, #[])) := rfl
    rw [this, sat_next_exhausted]

/-! ## Non-vacuity: `exA` of `Props/C08.lean` (`(x0 ∧ ¬x2) ∨ (¬x0 ∧ x1)`, 5 nodes, 4 variables, 2 paths, 8 valuations) -/

open B.Props.C08

/-- the hypotheses of the main theorem are satisfiable, and its conclusion is a concrete enumeration -/
example : ∃ s0, Bdd_sat_valuations 7 exA = .ok (satOf exA s0) ∧
    ∃ l, collect (BddSatisfyingValuations_next 7) 9 (satOf exA s0) = .ok l ∧ l.length = 8 := by
  have hlen : (satSpec exA).length = 8 := by decide
  obtain ⟨s0, _, h1, h2⟩ := sat_iter_translated exA_red rfl (by decide) (by decide) 7 (by decide) 9 (by omega)
  exact ⟨s0, h1, _, h2, by rw [List.length_map]; exact hlen⟩

/-- the start state, concretely: the first path `¬x0 ∧ x1` is consumed, its first valuation `0100` is held -/
example : Bdd_sat_valuations 7 exA =
    .ok (exA, (exA, #[4, 2, 1]), (some #[false, true, false, false], #[some false, some true])) :=
  (satInv_init exA_red rfl (by decide) (by decide) 7 (by decide)
    ⟨[1, 2, 4], ⟨some [false, true, false, false], [some false, some true]⟩⟩ rfl).1

end B.AlgoEq3Sat
