import BddVerif.Lemmas.AlgoEq2RenBase
import BddVerif.Props.C17
/-!
# `Bdd::set_num_vars`, `Bdd::rename_variables`, `Bdd::rename_variable` (src/_impl_bdd/_impl_util.rs:32-128):
# translated code = hand models of `Model/Rename.lean`

For EVERY node array (well formed or not, empty included) and every argument the translated function
(`B.Gen.Algo2.Bdd_*`, regenerated from the Rust text) and the hand model (`B.Ren.*`) have outcomes of the same kind
with the same value (`RelK`): `ok r` with the very same array, or both panic. No fuel (the loops are `for` loops
over the node array). Chained with `Props/C17.lean` at the end: the safety theorems, about the translated code.
-/
namespace B.AlgoEq2Ren
open B B.Gen B.AlgoEqUtil Std

attribute [local instance 10000] Rust.monadOutcomeInline

/-! ## `set_num_vars` -/

theorem set_num_vars_rel (A : Arr) (nv : Nat) : RelK (Algo2.Bdd_set_num_vars A nv) (Ren.setNumVars A nv) := by
  unfold Algo2.Bdd_set_num_vars
  simp only [forIn_array_eq_iterL, extract_toList]
  rw [iterL_congr _ (fun nd (_ : PUnit) => if decide (nv ≤ nd.var) = true then
      (Outcome.panic "BDD contains `{:?}`, which is invalid with variable count `{}`." : Outcome (ForInStep PUnit))
      else .ok (.yield PUnit.unit)) _ (by
        intro nd _ b
        by_cases h : nv ≤ nd.var <;> simp [h] <;> rfl)]
  rw [iterL_assert]
  unfold Ren.setNumVars
  by_cases h0 : A.size = 0
  · have hd : A.toList.drop 2 = [] := by
      apply List.drop_eq_nil_of_le; simp; omega
    rw [hd, if_pos h0]
    simp only [List.any_nil, Bool.false_eq_true, if_false, bind_ok]
    rw [idx_eq, Array.getElem?_eq_none (by omega)]
    exact .panic _ _
  · rw [if_neg h0]
    by_cases hany : (A.toList.drop 2).any (fun nd => decide (nv ≤ nd.var)) = true
    · rw [if_pos hany, if_pos hany]; exact .panic _ _
    · rw [if_neg hany, if_neg hany]
      have h0' : 0 < A.size := by omega
      simp only [bind_ok]
      rw [idx_of_lt A 0 h0', bind_ok, setIdx_of_lt A 0 _ h0', bind_ok]
      by_cases h1 : 1 < A.size
      · have h1' : 1 < (A.set 0 { var := nv, low := A[0].low, high := A[0].high }).size := by simpa using h1
        simp only [gt_iff_lt, h1', decide_true, if_true]
        rw [idx_of_lt _ 1 h1', bind_ok, setIdx_of_lt _ 1 _ h1', bind_ok, pure_eq]
        have : Ren.setTerm nv A = ((A.set 0 { var := nv, low := A[0].low, high := A[0].high }).set 1
            { var := nv, low := (A.set 0 { var := nv, low := A[0].low, high := A[0].high })[1].low,
              high := (A.set 0 { var := nv, low := A[0].low, high := A[0].high })[1].high }) := by
          apply Array.ext
          · simp [Ren.setTerm]
          · intro i hi1 hi2
            simp only [Ren.setTerm, Array.getElem_mapIdx, Array.getElem_set]
            match i with
            | 0 => simp
            | 1 => simp
            | k + 2 => simp; omega
        rw [this]; exact .ok _
      · have h1' : ¬ 1 < (A.set 0 { var := nv, low := A[0].low, high := A[0].high }).size := by simpa using h1
        simp only [gt_iff_lt, h1', decide_false, Bool.false_eq_true, if_false, pure_eq]
        have : Ren.setTerm nv A = (A.set 0 { var := nv, low := A[0].low, high := A[0].high }) := by
          apply Array.ext
          · simp [Ren.setTerm]
          · intro i hi1 hi2
            simp only [Ren.setTerm, Array.getElem_mapIdx, Array.getElem_set]
            have : i = 0 := by simp [Ren.setTerm] at hi1; omega
            subst this; simp
        rw [this]; exact .ok _

/-! ## `rename_variables` -/

/-- the chain assertion loop in closed form -/
theorem chain_loop (v : Array Nat) (m : String) :
    (forIn [0:v.size - 1] PUnit.unit (fun i (_ : PUnit) =>
      Rust.idx v i >>= fun a => Rust.idx v (i + 1) >>= fun b =>
        if (!decide (a < b)) = true then (Outcome.panic m >>= fun (_ : PUnit) => Outcome.ok (ForInStep.yield PUnit.unit))
        else Outcome.ok (ForInStep.yield PUnit.unit))) =
      if Ren.chainLt v.toList = true then .ok PUnit.unit else .panic m := by
  rw [forIn_range_eq_iterL]
  rw [iterL_congr _ (fun i (_ : PUnit) => if (!decide (v.toList.getD i 0 < v.toList.getD (i + 1) 0)) = true then
      (Outcome.panic m : Outcome (ForInStep PUnit)) else .ok (.yield PUnit.unit)) _ (by
    intro i hi b
    rw [List.mem_range'_1] at hi
    have h1 : i < v.size := by omega
    have h2 : i + 1 < v.size := by omega
    rw [idx_of_lt v i h1, bind_ok, idx_of_lt v (i + 1) h2, bind_ok]
    have e1 : v.toList.getD i 0 = v[i] := by simp [List.getD, h1]
    have e2 : v.toList.getD (i + 1) 0 = v[i + 1] := by simp [List.getD, h2]
    rw [e1, e2]
    by_cases c : v[i] < v[i + 1] <;> simp [c] <;> rfl)]
  rw [iterL_assert, chainLt_eq_all]
  simp only [Nat.sub_zero, Array.length_toList]
  have key := @List.not_all_eq_any_not _ (List.range' 0 (v.size - 1)) (fun i => decide (v.toList.getD i 0 < v.toList.getD (i + 1) 0))
  simp only [← key]
  cases ((List.range' 0 (v.size - 1)).all fun i => decide (v.toList.getD i 0 < v.toList.getD (i + 1) 0)) <;> simp

/-- the node update of the last loop of `rename_variables` -/
def renNode (pm : HashMap Nat Nat) (nd : Node) : Node :=
  match pm[nd.var]? with
  | some new => { nd with var := new }
  | none => nd

theorem rename_variables_rel (A : Arr) (pm : HashMap Nat Nat) : RelK (Algo2.Bdd_rename_variables A pm) (Ren.renameVariables A (fun x => pm[x]?)) := by
  unfold Algo2.Bdd_rename_variables
  simp only [support_set_desugar, bind_ok, sort_support, supportFold_isEmpty]
  unfold Ren.renameVariables
  simp only []
  by_cases hemp : (Ren.supportSet A).isEmpty = true
  · rw [if_pos hemp, if_pos hemp]; exact .ok _
  rw [if_neg hemp, if_neg hemp]
  have hsz : 2 < A.size := by
    rcases Nat.lt_or_ge 2 A.size with h | h
    · exact h
    · exact absurd (List.isEmpty_iff.mpr ((Ren.supportSet_eq_nil A).mpr h)) hemp
  rw [num_vars_eq A (by omega)]
  simp only [bind_ok, forIn_array_eq_iterL]
  simp only [pure_eq]
  rw [iterL_all (fun it => decide (it < numVars A))]
  simp only [bind_ok, List.map_toArray]
  have hmap : (fun it => pm[it]?.getD it) = Ren.applyMap (fun x => pm[x]?) := rfl
  rw [hmap]
  generalize hafter : List.map (Ren.applyMap fun x => pm[x]?) (Ren.supportSet A) = after
  have hlen : 1 ≤ after.toArray.size := by
    rw [← hafter]
    simp only [List.size_toArray, List.length_map]
    cases hs : Ren.supportSet A with
    | nil => rw [hs] at hemp; exact absurd rfl hemp
    | cons a t => simp
  by_cases hall : (after.all fun it => decide (it < numVars A)) = true
  · simp only [hall, Bool.not_true, Bool.false_eq_true, if_false]
    rw [sub_of_le _ _ hlen, bind_ok, chain_loop]
    by_cases hch : Ren.chainLt after = true
    · simp only [hch, if_true, bind_ok, Bool.not_true, Bool.false_eq_true, if_false]
      rw [forIn_range_eq_iterL]
      rw [iterL_congr _ (fun i (s : Arr) => (Rust.idx s i >>= fun nd => Rust.setIdx s i (renNode pm nd) >>= fun s' =>
        Outcome.ok (ForInStep.yield s'))) _ (by
          intro i _ s
          cases Rust.idx s i with
          | ok nd =>
            simp only [bind_ok, renNode]
            cases pm[nd.var]? <;> rfl
          | err m => rfl
          | panic m => rfl)]
      rw [iterL_update _ _ _ _ (by omega), bind_ok]
      have : Ren.mapVars (Ren.applyMap fun x => pm[x]?) A =
          Array.mapIdx (fun j nd => if 2 ≤ j ∧ j < 2 + (A.size - 2) then renNode pm nd else nd) A := by
        apply Array.ext
        · simp [Ren.mapVars]
        · intro i h1 h2
          simp only [Ren.mapVars, Array.size_mapIdx] at h1
          simp only [Ren.mapVars, Array.getElem_mapIdx]
          by_cases c : i < 2
          · rw [if_pos c, if_neg (by omega)]
          · rw [if_neg c, if_pos (by omega)]
            unfold renNode Ren.applyMap
            simp only []
            cases pm[A[i].var]? <;> rfl
      rw [this]
      exact .ok _
    · have hch' : Ren.chainLt after = false := by simpa using hch
      simp only [hch', Bool.false_eq_true, if_false, bind_panic, Bool.not_false, if_true]
      exact .panic _ _
  · have : (!after.all fun it => decide (it < numVars A)) = true := by simpa using hall
    rw [if_pos this, if_pos this, bind_panic]
    exact .panic _ _

/-! ## `rename_variable` -/

theorem rename_variable_rel (A : Arr) (o nw : Nat) : RelK (Algo2.Bdd_rename_variable A o nw) (Ren.renameVariable A o nw) := by
  unfold Algo2.Bdd_rename_variable
  simp only [support_set_desugar, bind_ok, contains_supportFold]
  unfold Ren.renameVariable
  simp only []
  by_cases h0 : A.size = 0
  · rw [num_vars_empty A h0, bind_panic]
    have : numVars A = 0 := by
      unfold numVars; rw [Array.getElem?_eq_none (by omega)]; rfl
    rw [this, if_pos (by omega)]
    exact .panic _ _
  rw [num_vars_eq A (by omega)]
  simp only [bind_ok]
  by_cases ho : o < numVars A
  · simp only [ho, decide_true, Bool.not_true, Bool.false_eq_true, if_false, not_true_eq_false]
    by_cases hn : nw < numVars A
    · simp only [hn, decide_true, Bool.not_true, Bool.false_eq_true, if_false, not_true_eq_false]
      by_cases heq : o = nw
      · simp only [heq, beq_self_eq_true, if_true, pure_eq]; exact .ok _
      · have hb : (o == nw) = false := by simpa using heq
        simp only [hb, Bool.false_eq_true, if_false, heq]
        rw [forIn_range_eq_iterL]
        rw [iterL_congr _ (fun i (_ : PUnit) => if (Ren.supportSet A).contains i = true then
          (Outcome.panic "Cannot rename {} to {} due to the presence of {}." : Outcome (ForInStep PUnit))
          else .ok (.yield PUnit.unit)) _ (by
            intro i _ b
            by_cases c : (Ren.supportSet A).contains i = true
            · rw [if_pos c, if_pos c]; rfl
            · rw [if_neg c, if_neg c]; rfl)]
        rw [iterL_assert]
        have hany : (List.range' (min o nw + 1) (max o nw - (min o nw + 1))).any (Ren.supportSet A).contains =
            (Ren.supportSet A).any (fun i => decide (min o nw < i) && decide (i < max o nw)) := by
          rw [Bool.eq_iff_iff, List.any_eq_true, List.any_eq_true]
          constructor
          · rintro ⟨i, hi, hc⟩
            rw [List.mem_range'_1] at hi
            exact ⟨i, by simpa using hc, by simp; omega⟩
          · rintro ⟨i, hi, hc⟩
            simp only [Bool.and_eq_true, decide_eq_true_eq] at hc
            exact ⟨i, by rw [List.mem_range'_1]; omega, by simpa using hi⟩
        rw [hany]
        by_cases hbt : (Ren.supportSet A).any (fun i => decide (min o nw < i) && decide (i < max o nw)) = true
        · rw [if_pos hbt, if_pos hbt, bind_panic]; exact .panic _ _
        · rw [if_neg hbt, if_neg hbt, bind_ok]
          by_cases hc : (Ren.supportSet A).contains nw = true
          · rw [if_pos hc, if_pos hc, bind_panic]; exact .panic _ _
          · rw [if_neg hc, if_neg hc]
            rw [forIn_range_eq_iterL]
            rw [iterL_congr _ (fun i (s : Arr) => (Rust.idx s i >>= fun nd =>
              Rust.setIdx s i (if nd.var = o then { nd with var := nw } else nd) >>= fun s' =>
              Outcome.ok (ForInStep.yield s'))) _ (by
                intro i _ s
                cases Rust.idx s i with
                | ok nd =>
                  simp only [bind_ok]
                  by_cases c : nd.var = o
                  · simp only [c, beq_self_eq_true, if_true]; rfl
                  · have : (nd.var == o) = false := by simpa using c
                    simp only [this, c, Bool.false_eq_true, if_false]; rfl
                | err m => rfl
                | panic m => rfl)]
            rw [iterL_update _ _ _ _ (by omega), bind_ok, pure_eq]
            have : (A.map fun nd => if nd.var = o then { nd with var := nw } else nd) =
                Array.mapIdx (fun j nd => if 0 ≤ j ∧ j < 0 + (A.size - 0) then
                  (if nd.var = o then { nd with var := nw } else nd) else nd) A := by
              apply Array.ext
              · simp
              · intro i h1 h2
                simp only [Array.size_map] at h1
                simp only [Array.getElem_map, Array.getElem_mapIdx]
                have hc : 0 ≤ i ∧ i < 0 + (A.size - 0) := by omega
                rw [if_pos hc]
            rw [this]
            exact .ok _
    · simp only [hn, decide_false, Bool.not_false, if_true, bind_panic, not_false_eq_true]
      exact .panic _ _
  · simp only [ho, decide_false, Bool.not_false, if_true, bind_panic, not_false_eq_true]
    exact .panic _ _

/-! ## as the driver calls them (`Drive/Algo2.lean`, streams `C17.setnv`, `C17.renvars`, `C17.renvar`) -/

/-- `C17.renvars`: the harness' pair list `kv` becomes `hashMapFromArr kv.toArray` on the generated side and
    `varMapOfList kv` on the model side -/
theorem rename_variables_rel_driver (A : Arr) (kv : List (Nat × Nat)) :
    RelK (Algo2.Bdd_rename_variables A (Rust.hashMapFromArr kv.toArray))
      (Ren.renameVariables A (Ren.varMapOfList kv)) := by
  rw [← varMapOfList_eq]; exact rename_variables_rel A _

/-! ## chained with `Props/C17.lean`: the safety theorems are about the TRANSLATED code -/

open B.Props.C17 B.Ren in
/-- `set_num_vars(m)` as translated, on a valid diagram: succeeds exactly when every used variable is below `m`,
    the result is valid over `m` variables and denotes the same function; otherwise it panics -/
theorem Bdd_set_num_vars_safe (b : Arr) (m : Nat) (hb : WFo b (numVars b)) :
    ((∀ x ∈ Ren.supportSet b, x < m) →
      Algo2.Bdd_set_num_vars b m = .ok (setTerm m b) ∧ Kept b (setTerm m b) m (fun x => x)) ∧
    (¬ (∀ x ∈ Ren.supportSet b, x < m) → ∃ msg, Algo2.Bdd_set_num_vars b m = .panic msg) := by
  have h := set_num_vars_safe b m hb
  refine ⟨fun hx => ⟨(set_num_vars_rel b m).of_ok (h.1 hx).1, (h.1 hx).2⟩, fun hx => ?_⟩
  obtain ⟨msg, hm⟩ := h.2 hx
  exact (set_num_vars_rel b m).of_panic hm

open B.Props.C17 B.Ren in
/-- `rename_variables(π)` as translated (`π` a `HashMap`, the identity outside its keys): `ok r` with `r` valid
    and `r(v) = b(v ∘ π)` exactly when `π` is admissible on the support; otherwise a panic — never `ok` with an
    invalid diagram -/
theorem Bdd_rename_variables_safe (b : Arr) (pm : HashMap Nat Nat) (hb : WFo b (numVars b)) :
    (Admissible b (applyMap fun x => pm[x]?) →
      Algo2.Bdd_rename_variables b pm = .ok (mapVars (applyMap fun x => pm[x]?) b) ∧
      Kept b (mapVars (applyMap fun x => pm[x]?) b) (numVars b) (applyMap fun x => pm[x]?)) ∧
    (¬ Admissible b (applyMap fun x => pm[x]?) → ∃ msg, Algo2.Bdd_rename_variables b pm = .panic msg) := by
  have h := rename_variables_safe b (fun x => pm[x]?) hb
  refine ⟨fun hx => ⟨(rename_variables_rel b pm).of_ok (h.1 hx).1, (h.1 hx).2⟩, fun hx => ?_⟩
  obtain ⟨msg, hm⟩ := h.2 hx
  exact (rename_variables_rel b pm).of_panic hm

open B.Props.C17 B.Ren in
/-- `rename_variable(old, new)` as translated: accepted exactly when `RenameOk`, and then the function is kept -/
theorem Bdd_rename_variable_safe (b : Arr) (old new : Nat) (hb : WFo b (numVars b)) :
    (RenameOk b old new →
      Algo2.Bdd_rename_variable b old new = .ok (mapVars (fun x => if x = old then new else x) b) ∧
      Kept b (mapVars (fun x => if x = old then new else x) b) (numVars b) (fun x => if x = old then new else x)) ∧
    (¬ RenameOk b old new → ∃ msg, Algo2.Bdd_rename_variable b old new = .panic msg) := by
  have h := rename_variable_safe b old new hb
  refine ⟨fun hx => ⟨(rename_variable_rel b old new).of_ok (h.1 hx).1, (h.1 hx).2⟩, fun hx => ?_⟩
  obtain ⟨msg, hm⟩ := h.2 hx
  exact (rename_variable_rel b old new).of_panic hm

/-! ## non-vacuity: concrete runs of the GENERATED functions (pinned through the theorems; the model side is
    evaluated by `decide`) -/

/-- `x0 ∧ x2` over 3 variables: the variable count can be raised … -/
example : Algo2.Bdd_set_num_vars B.Props.C17.ex02 5 =
    .ok #[⟨5, 0, 0⟩, ⟨5, 1, 1⟩, ⟨2, 0, 1⟩, ⟨0, 0, 2⟩] :=
  (set_num_vars_rel _ _).of_ok rfl
/-- … but not lowered below a used variable (panic), and the empty vector panics too -/
example : ∃ m, Algo2.Bdd_set_num_vars B.Props.C17.ex02 2 = .panic m :=
  (set_num_vars_rel _ _).of_panic (m := "BDD contains a variable which is invalid with the new variable count") rfl
example : ∃ m, Algo2.Bdd_set_num_vars #[] 2 = .panic m :=
  (set_num_vars_rel _ _).of_panic (m := "index out of bounds: the Bdd has no node") rfl
/-- renaming `x2 ↦ x1` through the harness' pair list (a key outside the support is irrelevant) -/
example : Algo2.Bdd_rename_variables B.Props.C17.ex02 (Rust.hashMapFromArr #[(2, 1), (3, 0)]) =
    .ok #[⟨3, 0, 0⟩, ⟨3, 1, 1⟩, ⟨1, 0, 1⟩, ⟨0, 0, 2⟩] :=
  (rename_variables_rel_driver _ [(2, 1), (3, 0)]).of_ok rfl
/-- an order-violating map panics -/
example : ∃ m, Algo2.Bdd_rename_variables B.Props.C17.ex02 (Rust.hashMapFromArr #[(2, 0), (0, 2)]) = .panic m :=
  (rename_variables_rel_driver _ [(2, 0), (0, 2)]).of_panic
    (m := "assert: variables still sorted after the permutation") rfl
/-- `rename_variable`: `x2 → x1` is accepted, `x0 → x2` is refused -/
example : Algo2.Bdd_rename_variable B.Props.C17.ex02 2 1 = .ok #[⟨3, 0, 0⟩, ⟨3, 1, 1⟩, ⟨1, 0, 1⟩, ⟨0, 0, 2⟩] := by
  have hok : B.Props.C17.RenameOk B.Props.C17.ex02 2 1 := by
    have : Ren.supportSet B.Props.C17.ex02 = [0, 2] := by decide
    unfold B.Props.C17.RenameOk; rw [this]; decide
  rw [((Bdd_rename_variable_safe _ 2 1 B.Props.C17.ex02_wf).1 hok).1]
  exact congrArg Outcome.ok (by decide)
example : ∃ m, Algo2.Bdd_rename_variable B.Props.C17.ex02 0 2 = .panic m :=
  (rename_variable_rel _ _ _).of_panic (m := "cannot rename: the new variable is present") rfl

end B.AlgoEq2Ren
