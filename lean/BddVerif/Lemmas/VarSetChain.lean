import BddVerif.Lemmas.VarSetSem
/-!
Chain diagrams: `clauseArr n lits` (one node per literal, the other link to 0) is the canonical array of the
conjunction of its literals, when the literals are listed by strictly increasing variable below `n`.
Literals, single valuations and the all-false clause of the threshold constructors are instances.
-/
namespace B.VS
open B

/-- the conjunction of the literals -/
def litsFn (lits : List (Nat × Bool)) (v : Nat → Bool) : Bool := lits.all fun l => v l.1 == l.2

/-- variables strictly increasing, at least `k`, below `n` -/
def SortedFrom (n : Nat) : Nat → List (Nat × Bool) → Prop
  | k, [] => k ≤ n
  | k, l :: t => k ≤ l.1 ∧ l.1 < n ∧ SortedFrom n (l.1 + 1) t

theorem SortedFrom.le {n : Nat} : ∀ {lits k}, SortedFrom n k lits → k ≤ n
  | [], _, h => h
  | _ :: _, _, h => by have := h.1; have := h.2.1; omega

theorem SortedFrom.mono {n : Nat} : ∀ {lits k k'}, SortedFrom n k lits → k' ≤ k → SortedFrom n k' lits
  | [], _, _, h, hk => Nat.le_trans hk h
  | _ :: _, _, _, h, hk => ⟨Nat.le_trans hk h.1, h.2.1, h.2.2⟩

theorem litsFn_dep {n : Nat} : ∀ lits k, SortedFrom n k lits → ∀ v w : Nat → Bool,
    (∀ i, k ≤ i → i < n → v i = w i) → litsFn lits v = litsFn lits w := by
  intro lits
  induction lits with
  | nil => intro k _ v w _; rfl
  | cons l t ih =>
    intro k h v w hvw
    have e1 : v l.1 = w l.1 := hvw _ h.1 h.2.1
    have e2 := ih (l.1 + 1) h.2.2 v w (fun i hi hin => hvw i (by have := h.1; omega) hin)
    simp only [litsFn, List.all_cons] at e2 ⊢
    rw [e1, e2]

theorem findNode_eq_none {A : Arr} {nd : Node} (h : ∀ p, 2 ≤ p → A[p]? ≠ some nd) : findNode A nd = none := by
  unfold findNode
  rw [List.find?_eq_none]
  intro p _
  simp only [Bool.and_eq_true, decide_eq_true_eq, beq_iff_eq, not_and]
  intro hp
  exact h p hp

theorem root_push (A : Arr) (nd : Node) : root (A.push nd) = A.size := by simp [root]

theorem clauseArr_cons (n : Nat) (x : Nat) (b : Bool) (t : List (Nat × Bool)) :
    clauseArr n ((x, b) :: t) =
      (clauseArr n t).push (if b then ⟨x, 0, root (clauseArr n t)⟩ else ⟨x, root (clauseArr n t), 0⟩) := rfl

/-- the reference builder, started at any level `k` below the first literal, produces exactly `clauseArr` -/
theorem clause_ins (n : Nat) : ∀ lits k, SortedFrom n k lits →
    ins n (n - k) k (litsFn lits) (mkTrue n) = (clauseArr n lits, root (clauseArr n lits)) ∧
    Red (clauseArr n lits) n ∧ Prefix (mkTrue n) (clauseArr n lits) ∧
    (∀ p nd, 2 ≤ p → (clauseArr n lits)[p]? = some nd → k ≤ nd.var) := by
  intro lits
  induction lits with
  | nil =>
    intro k hk
    have hk' : k ≤ n := hk
    refine ⟨?_, red_mkTrue n, Prefix.refl _, ?_⟩
    · show ins n (n - k) k (litsFn []) (mkTrue n) = (mkTrue n, 1)
      apply ins_found (red_mkTrue n) (n - k) k _ 1 (by omega) (by simp [mkTrue])
      · simp [varOf]; omega
      · intro v; rw [ev_one]; rfl
    · intro p nd hp hnd
      have : (mkTrue n)[p]? = none := Array.getElem?_eq_none (by simp [mkTrue]; omega)
      show k ≤ nd.var
      change (mkTrue n)[p]? = some nd at hnd
      rw [this] at hnd; cases hnd
  | cons l t ih =>
    intro k h
    obtain ⟨x, b⟩ := l
    obtain ⟨hkx, hxn, ht⟩ := h
    simp only at hkx hxn ht
    obtain ⟨ihe, ihred, ihpre, ihvar⟩ := ih (x + 1) ht
    have hsorted : SortedFrom n k ((x, b) :: t) := ⟨hkx, hxn, ht⟩
    have hdepx : ∀ v w : Nat → Bool, (∀ i, x ≤ i → i < n → v i = w i) →
        litsFn ((x, b) :: t) v = litsFn ((x, b) :: t) w :=
      litsFn_dep _ x ⟨Nat.le_refl _, hxn, ht⟩
    have hdepk : ∀ v w : Nat → Bool, (∀ i, k ≤ i → i < n → v i = w i) →
        litsFn ((x, b) :: t) v = litsFn ((x, b) :: t) w := litsFn_dep _ k hsorted
    -- cofactors
    have hcof : ∀ (c : Bool) v, litsFn ((x, b) :: t) (upd v x c) = ((c == b) && litsFn t v) := by
      intro c v
      have : litsFn t (upd v x c) = litsFn t v := by
        apply litsFn_dep t (x + 1) ht
        intro i hi _
        have : i ≠ x := by omega
        simp [upd, this]
      simp only [litsFn, List.all_cons] at this ⊢
      rw [this]; simp [upd]
    have hsize : 2 ≤ (clauseArr n t).size := by have := ihpre.1; simpa [mkTrue] using this
    have hroot : root (clauseArr n t) ≠ 0 := by unfold root; omega
    have hfuel : n - x = (n - (x + 1)) + 1 := by omega
    -- skip the levels k … x-1
    have hskip : ins n (n - k) k (litsFn ((x, b) :: t)) (mkTrue n) =
        ins n (n - x) x (litsFn ((x, b) :: t)) (mkTrue n) :=
      ins_skip_many (red_mkTrue n) _ (x - k) k x (by omega) (by omega) hdepx
    have hnone : ∀ lo hi, findNode (clauseArr n t) ⟨x, lo, hi⟩ = none := by
      intro lo hi
      apply findNode_eq_none
      intro p hp hnd
      have := ihvar p _ hp hnd
      simp only at this
      omega
    have hmain : ins n (n - x) x (litsFn ((x, b) :: t)) (mkTrue n) =
        (clauseArr n ((x, b) :: t), root (clauseArr n ((x, b) :: t))) := by
      rw [hfuel, clauseArr_cons, root_push]
      cases b with
      | true =>
        have h1 : ins n (n - (x + 1)) (x + 1) (fun v => litsFn ((x, true) :: t) (upd v x true)) (mkTrue n) =
            (clauseArr n t, root (clauseArr n t)) := by
          have : (fun v => litsFn ((x, true) :: t) (upd v x true)) = litsFn t := by
            funext v; rw [hcof]; simp
          rw [this]; exact ihe
        have h2 : ins n (n - (x + 1)) (x + 1) (fun v => litsFn ((x, true) :: t) (upd v x false)) (clauseArr n t) =
            (clauseArr n t, 0) :=
          ins_false ihred _ _ _ (by omega) (fun v => by rw [hcof]; simp)
        rw [ins_succ' h1 h2]
        rw [if_neg (fun e => hroot e.symm), hnone]
        rfl
      | false =>
        have h1 : ins n (n - (x + 1)) (x + 1) (fun v => litsFn ((x, false) :: t) (upd v x true)) (mkTrue n) =
            (mkTrue n, 0) :=
          ins_false (red_mkTrue n) _ _ _ (by omega) (fun v => by rw [hcof]; simp)
        have h2 : ins n (n - (x + 1)) (x + 1) (fun v => litsFn ((x, false) :: t) (upd v x false)) (mkTrue n) =
            (clauseArr n t, root (clauseArr n t)) := by
          have : (fun v => litsFn ((x, false) :: t) (upd v x false)) = litsFn t := by
            funext v; rw [hcof]; simp
          rw [this]; exact ihe
        rw [ins_succ' h1 h2]
        rw [if_neg hroot, hnone]
        rfl
    have hall := hskip.trans hmain
    have hk : k ≤ n := by omega
    obtain ⟨sred, spre, _, _, _⟩ := ins_spec (n - k) k (litsFn ((x, b) :: t)) (mkTrue n) (red_mkTrue n)
      (by omega) hdepk
    rw [hall] at sred spre
    refine ⟨hall, sred, spre, ?_⟩
    intro p nd hp hnd
    rw [clauseArr_cons] at hnd
    rw [Array.getElem?_push] at hnd
    split at hnd
    · cases hnd
      cases b <;> simp <;> omega
    · have := ihvar p nd hp hnd
      omega

/-- chain diagrams are canonical -/
theorem sem_clauseArr (n : Nat) (lits : List (Nat × Bool)) (h : SortedFrom n 0 lits) :
    Sem n (clauseArr n lits) (litsFn lits) := by
  obtain ⟨he, _, hpre, _⟩ := clause_ins n lits 0 h
  refine ⟨?_, fun v w hvw => litsFn_dep lits 0 h v w (fun i _ hi => hvw i hi)⟩
  unfold canon
  simp only [Nat.sub_zero] at he
  rw [he]
  have hsize : 2 ≤ (clauseArr n lits).size := by have := hpre.1; simpa [mkTrue] using this
  have : root (clauseArr n lits) ≠ 0 := by unfold root; omega
  simp [this]

end B.VS
