import BddVerif.Lemmas.AlgoEq3ParserConv
/-!
# `tokenize_group` (translated) — desugaring

The generated `B.Gen.Algo3.tokenize_group (fuel+1) data top` is a `for _ in [0:fuel]` loop over the state
`(early return value, remaining characters, output)` whose body contains the recursive call `tokenize_group fuel` (for `(`)
and the nested identifier loop. `tokenize_group_desugar` proves — by unfolding the GENERATED definition, `rfl` against a
hand-written step function — that it equals `iter (tokStep fuel top) fuel (none, data, #[])` followed by `tokPost top`.
The lemmas below evaluate `tokStep` on every class of first character.
-/
namespace B.AlgoEq3Parser
open B B.Gen B.Gen.Algo3 B.AlgoEqUtil B.Parser

attribute [local instance 10000] Rust.monadOutcomeInline

/-- what `tokenize_group` returns: the `Result` and the updated iterator -/
abbrev TRes := Except String (Array GT) × List Char
/-- state of the main loop: pending `return` value, the iterator, `output` -/
abbrev TSt := Option TRes × List Char × Array GT
/-- state of the identifier loop: the iterator, `name`, "left through `break`" -/
abbrev NSt := List Char × Array Char × Bool

/-- body of `while let Some(c) = data.peek()` -/
def nameStep (st : NSt) : Outcome (ForInStep NSt) :=
  match st.1.head? with
  | some c =>
    if (Rust.charIsWhitespace c || NOT_IN_VAR_NAME.contains c) then .ok (.done (st.1, st.2.1, true))
    else .ok (.yield (st.1.tail, st.2.1.push c, st.2.2))
  | _ => .ok (.done (st.1, st.2.1, true))

/-- after the recursive call for `(` -/
def groupK (out : Array GT) (r : TRes) : Outcome (ForInStep TSt) :=
  match r.1 with
  | .ok v => .ok (.yield (none, r.2, out.push (.Tokens v)))
  | .error e => .ok (.done (some (.error e, r.2), r.2, out))

def groupBranch (fuel : Nat) (tl : List Char) (out : Array GT) : Outcome (ForInStep TSt) :=
  tokenize_group fuel tl false >>= groupK out

/-- after the identifier loop -/
def nameK (out : Array GT) (s1 : NSt) : Outcome (ForInStep TSt) :=
  if !s1.2.2 then
    Outcome.panic "fuel" >>= fun (_ : PUnit) => .ok (.yield (none, s1.1, out.push (.Id (String.ofList s1.2.1.toList))))
  else .ok (.yield (none, s1.1, out.push (.Id (String.ofList s1.2.1.toList))))

def nameBranch (fuel : Nat) (c : Char) (tl : List Char) (out : Array GT) : Outcome (ForInStep TSt) :=
  iter nameStep fuel (tl, #[c], false) >>= nameK out

/-- `match c { … }` for a non-whitespace character `c`; `tl` = the iterator after `data.next()` -/
def tokChar (fuel : Nat) (top : Bool) (c : Char) (tl : List Char) (out : Array GT) : Outcome (ForInStep TSt) :=
  match c with
  | '!' => .ok (.yield (none, tl, out.push .Not))
  | '&' => .ok (.yield (none, tl, out.push .And))
  | '|' => .ok (.yield (none, tl, out.push .Or))
  | '^' => .ok (.yield (none, tl, out.push .Xor))
  | ':' => .ok (.yield (none, tl, out.push .Colon))
  | '?' => .ok (.yield (none, tl, out.push .QuestionMark))
  | '=' =>
      (if (some '>' == tl.head?) then .ok (.yield (none, tl.tail, out.push .Imp))
       else .ok (.done (some (.error "Expected '>' after '='.", tl.tail), tl.tail, out)))
  | '<' =>
      (if (some '=' == tl.head?) then
        (if (some '>' == tl.tail.head?) then .ok (.yield (none, tl.tail.tail, out.push .Iff))
         else .ok (.done (some (.error "Expected '>' after '='.", tl.tail.tail), tl.tail.tail, out)))
       else .ok (.done (some (.error "Expected '=' after '<'.", tl.tail), tl.tail, out)))
  | '>' => .ok (.done (some (.error "Unexpected '>'.", tl), tl, out))
  | ')' =>
      (if !top then .ok (.done (some (.ok out, tl), tl, out))
       else .ok (.done (some (.error "Unexpected ')'.", tl), tl, out)))
  | '(' => groupBranch fuel tl out
  | _ => nameBranch fuel c tl out

/-- body of `while let Some(c) = data.next()` -/
def tokStep (fuel : Nat) (top : Bool) (st : TSt) : Outcome (ForInStep TSt) :=
  match st.2.1.head? with
  | some c =>
    if Rust.charIsWhitespace c then .ok (.yield (none, st.2.1.tail, st.2.2))
    else tokChar fuel top c st.2.1.tail st.2.2
  | _ => .ok (.done (none, st.2.1, st.2.2))

/-- the code after the loop (early return, fuel check, `if top_level { Ok(output) } else { Err(…) }`) -/
def tokPost (top : Bool) (st : TSt) : Outcome TRes :=
  match st.1 with
  | some r => .ok r
  | none =>
    match st.2.1.head? with
    | some _ => .panic "fuel"
    | _ => if top then .ok (.ok st.2.2, st.2.1) else .ok (.error "Expected ')'.", st.2.1)

/-- DESUGARING of the generated `tokenize_group` -/
theorem tokenize_group_desugar (fuel : Nat) (data : List Char) (top : Bool) :
    tokenize_group (fuel + 1) data top = (iter (tokStep fuel top) fuel (none, data, #[])).bind (tokPost top) := by
  rw [tokenize_group]
  simp only [forIn_range_eq_iter]
  rw [bind_eq]
  have hstep : ∀ g : TSt → Outcome (ForInStep TSt), g = tokStep fuel top →
      ∀ k : TSt → Outcome TRes, k = tokPost top →
      (iter g fuel (none, data, #[])).bind k = (iter (tokStep fuel top) fuel (none, data, #[])).bind (tokPost top) := by
    intro g hg k hk; rw [hg, hk]
  refine hstep _ ?_ _ ?_
  · funext st
    unfold tokStep tokChar groupBranch nameBranch
    rfl
  · funext st
    rcases st with ⟨_ | r, _ | ⟨c, tl⟩, out⟩ <;> rfl

theorem tokenize_group_zero (data : List Char) (top : Bool) : tokenize_group 0 data top = .panic "fuel" := by
  rw [tokenize_group]

/-! ### evaluating the step function -/

theorem tokStep_nil (fuel : Nat) (top : Bool) (r : Option TRes) (out : Array GT) :
    tokStep fuel top (r, [], out) = .ok (.done (none, [], out)) := rfl

theorem tokStep_cons (fuel : Nat) (top : Bool) (r : Option TRes) (c : Char) (tl : List Char) (out : Array GT) :
    tokStep fuel top (r, c :: tl, out) =
      if isWs c then .ok (.yield (none, tl, out)) else tokChar fuel top c tl out := by
  rw [← charIsWhitespace_eq]; rfl

theorem tokChar_default (fuel : Nat) (top : Bool) (c : Char) (tl : List Char) (out : Array GT)
    (h1 : c ≠ '!') (h2 : c ≠ '&') (h3 : c ≠ '|') (h4 : c ≠ '^') (h5 : c ≠ ':') (h6 : c ≠ '?') (h7 : c ≠ '=')
    (h8 : c ≠ '<') (h9 : c ≠ '>') (h10 : c ≠ ')') (h11 : c ≠ '(') :
    tokChar fuel top c tl out = nameBranch fuel c tl out := by
  unfold tokChar
  split <;> first | contradiction | rfl

/-- the identifier loop computes the model's `nameRest` -/
theorem iter_nameStep (l : List Char) (acc : Array Char) (b : Bool) (n : Nat) (hn : (nameRest l).1.length + 1 ≤ n) :
    iter nameStep n (l, acc, b) = .ok ((nameRest l).2, acc ++ (nameRest l).1.toArray, true) := by
  induction l generalizing acc n with
  | nil =>
    obtain ⟨n, rfl⟩ : ∃ k, n = k + 1 := ⟨n - 1, by omega⟩
    rw [iter_succ]
    simp [nameStep, nameRest]
  | cons c tl ih =>
    obtain ⟨n, rfl⟩ : ∃ k, n = k + 1 := ⟨n - 1, by omega⟩
    rw [iter_succ]
    have hs : nameStep (c :: tl, acc, b) =
        if stopsName c then .ok (.done (c :: tl, acc, true)) else .ok (.yield (tl, acc.push c, b)) := by
      rw [← stops_eq]; rfl
    rw [hs]
    unfold nameRest at hn ⊢
    by_cases h : stopsName c = true
    · simp [h]
    · simp only [h] at hn ⊢
      simp only [Bool.false_eq_true, if_false, List.length_cons] at hn ⊢
      rw [ih (acc.push c) n (by omega)]
      simp

theorem nameRest_fst_le (l : List Char) : (nameRest l).1.length ≤ l.length := by
  induction l with
  | nil => simp [nameRest]
  | cons c tl ih =>
    unfold nameRest
    split
    · simp
    · simp only [List.length_cons]; omega

theorem nameBranch_eq (fuel : Nat) (c : Char) (tl : List Char) (out : Array GT) (hf : tl.length + 1 ≤ fuel) :
    nameBranch fuel c tl out =
      .ok (.yield (none, (nameRest tl).2, out.push (convT (.id (c :: (nameRest tl).1))))) := by
  unfold nameBranch
  rw [iter_nameStep tl #[c] false fuel (by have := nameRest_fst_le tl; omega)]
  simp [nameK, convT]

end B.AlgoEq3Parser
