import BddVerif.Lemmas.AlgoEq2VarSet
import BddVerif.Props.C17
/-!
# `BddVariableSet::transfer_from` (src/_impl_bdd_variable_set.rs:317) as translated = `Ren.transferFrom`

The translated function takes the two variable sets as `(num_vars, var_names, var_index_mapping)` triples, the hand
model as lists of names. `transfer_from_rel`: for EVERY node array, every source set and every target set that is the
set of the (pairwise distinct) names `tgt` (`SetOf`), the outcomes agree in kind and value
(`Some r` ↔ `ok r`, `None` ↔ `err`, panic ↔ panic). No fuel. Chained with `Props/C17.lean: transfer_some_iff`.
-/
namespace B.AlgoEq2Ren
open B B.Gen B.AlgoEqUtil B.AlgoEq2VS Std

attribute [local instance 10000] Rust.monadOutcomeInline

/-- generated `Outcome (Option α)` (Rust `Option` inside the panic monad) against the hand models' `Outcome α`
    (`err` = `None`) -/
inductive RelOpt {α : Type} : Outcome (Option α) → Outcome α → Prop
  | isSome (a : α) : RelOpt (.ok (some a)) (.ok a)
  | isNone (m : String) : RelOpt (.ok none) (.err m)
  | panic (m m' : String) : RelOpt (.panic m) (.panic m')

theorem RelOpt.ok_iff {α} {x : Outcome (Option α)} {y : Outcome α} (h : RelOpt x y) (a : α) :
    x = .ok (some a) ↔ y = .ok a := by cases h <;> simp
theorem RelOpt.none_iff {α} {x : Outcome (Option α)} {y : Outcome α} (h : RelOpt x y) :
    x = .ok none ↔ ∃ m, y = .err m := by cases h <;> simp
theorem RelOpt.panic_iff {α} {x : Outcome (Option α)} {y : Outcome α} (h : RelOpt x y) :
    (∃ m, x = .panic m) ↔ ∃ m, y = .panic m := by cases h <;> simp

/-- `let mut r = init; for x in xs { if p(x) { return d } }` -/
theorem iterL_find {α σ} (p : α → Bool) (d s0 : σ) (xs : List α) :
    iterL (fun x (_ : σ) => if p x = true then Outcome.ok (ForInStep.done d) else .ok (.yield s0)) xs s0 =
      .ok (if xs.any p = true then d else s0) := by
  induction xs with
  | nil => rfl
  | cons x xs ih =>
    rw [iterL_cons, List.any_cons]
    by_cases hp : p x = true
    · simp [hp]
    · simp only [hp, Bool.false_or]; exact ih

/-- hand-written body of the name translation loop of `transfer_from` -/
def tstep (T S : VSet) (var : Nat) (s : Option (Option Arr) × Array Nat) :
    Outcome (ForInStep (Option (Option Arr) × Array Nat)) :=
  match S.2.1[var]? with
  | none => .panic "index out of bounds"
  | some nm =>
    match T.2.2[nm]? with
    | some id => .ok (.yield (none, s.2.push id))
    | none => .ok (.done (some none, s.2))

theorem translate_loop (T S : VSet) (tgt : List String) (hT : ∀ s, T.2.2[s]? = tgt.idxOf? s) :
    ∀ (xs : List Nat) (acc : Array Nat),
      match Ren.translateSupport tgt S.2.1.toList xs with
      | .ok new => iterL (tstep T S) xs (none, acc) = .ok (none, acc ++ new.toArray)
      | .err _ => ∃ acc', iterL (tstep T S) xs (none, acc) = .ok (some none, acc')
      | .panic _ => ∃ m, iterL (tstep T S) xs (none, acc) = .panic m := by
  intro xs
  induction xs with
  | nil => intro acc; simp [Ren.translateSupport, iterL_nil]
  | cons x xs ih =>
    intro acc
    rw [Ren.translateSupport, iterL_cons, Array.getElem?_toList]
    cases hx : S.2.1[x]? with
    | none =>
      have hs : tstep T S x (none, acc) = .panic "index out of bounds" := by unfold tstep; rw [hx]
      rw [hs]; exact ⟨_, rfl⟩
    | some nm =>
      simp only []
      cases hid : tgt.idxOf? nm with
      | none =>
        have hs : tstep T S x (none, acc) = .ok (.done (some none, acc)) := by
          unfold tstep; rw [hx]; simp only []; rw [hT, hid]
        rw [hs]; exact ⟨_, rfl⟩
      | some id =>
        have hs : tstep T S x (none, acc) = .ok (.yield (none, acc.push id)) := by
          unfold tstep; rw [hx]; simp only []; rw [hT, hid]
        rw [hs]
        simp only []
        have := ih (acc.push id)
        cases hr : Ren.translateSupport tgt S.2.1.toList xs with
        | ok new =>
          rw [hr] at this
          simp only [Outcome.map]
          rw [this]
          simp
        | err m => rw [hr] at this; exact this
        | panic m => rw [hr] at this; exact this

/-- hand-written body of the copying loop -/
def cstep (map : HashMap Nat Nat) (nd : Node) (acc : Arr) : Outcome (ForInStep Arr) :=
  match map[nd.var]? with
  | some nv => .ok (.yield (acc.push ⟨nv, nd.low, nd.high⟩))
  | none => .panic "unreachable"

theorem copy_loop (map : HashMap Nat Nat) (l : List (Nat × Nat)) (hmap : ∀ k, map[k]? = l.lookup k) :
    ∀ (nodes : List Node) (acc : Arr),
      iterL (cstep map) nodes acc =
        match Ren.copyNodes l nodes with
        | some ns => .ok (acc ++ ns.toArray)
        | none => .panic "unreachable" := by
  intro nodes
  induction nodes with
  | nil => intro acc; simp [Ren.copyNodes, iterL_nil]
  | cons nd t ih =>
    intro acc
    rw [iterL_cons, Ren.copyNodes]
    cases hk : l.lookup nd.var with
    | none =>
      have : cstep map nd acc = .panic "unreachable" := by unfold cstep; rw [hmap, hk]
      rw [this]
    | some nv =>
      have : cstep map nd acc = .ok (.yield (acc.push ⟨nv, nd.low, nd.high⟩)) := by unfold cstep; rw [hmap, hk]
      rw [this]
      simp only []
      rw [ih]
      cases Ren.copyNodes l t with
      | none => rfl
      | some ns => simp

/-- with pairwise distinct keys the last binding is the first binding -/
theorem lookup_reverse_of_nodup (k : Nat) : ∀ (l : List (Nat × Nat)), (l.map (·.1)).Nodup →
    l.reverse.lookup k = l.lookup k := by
  intro l
  induction l with
  | nil => intro _; rfl
  | cons ab t ih =>
    intro hnd
    obtain ⟨a, b⟩ := ab
    rw [List.map_cons, List.nodup_cons] at hnd
    simp only [List.reverse_cons, List.lookup_append, ih hnd.2, List.lookup_cons, List.lookup_nil]
    by_cases e : k = a
    · subst e
      have : t.lookup k = none := by
        rw [List.lookup_eq_none_iff]
        intro p hp
        simp only [bne_iff_ne, ne_eq]
        intro hpk
        apply hnd.1
        rw [List.mem_map]
        exact ⟨p, hp, hpk.symm⟩
      simp [this]
    · have : (k == a) = false := by simpa using e
      simp [this]

theorem any_range'_shift (p : Nat → Bool) (n : Nat) : ∀ s, (List.range' (s + 1) n).any p = (List.range' s n).any (fun i => p (i + 1)) := by
  induction n with
  | zero => intro s; rfl
  | succ n ih => intro s; rw [List.range'_succ, List.range'_succ, List.any_cons, List.any_cons, ih]

/-- the order test of `transfer_from` (with early `return None`) in closed form -/
theorem chain_loop_ret (v : Array Nat) :
    iterL (fun i (_ : Option (Option Arr) × Unit) =>
        if decide (v.toList.getD i 0 ≤ v.toList.getD (i - 1) 0) = true then
          Outcome.ok (ForInStep.done ((some none : Option (Option Arr)), ()))
        else .ok (.yield (none, ())))
      (List.range' 1 (v.size - 1)) (none, ()) =
    .ok (if Ren.chainLt v.toList = true then (none, ()) else (some none, ())) := by
  rw [iterL_find (fun i => decide (v.toList.getD i 0 ≤ v.toList.getD (i - 1) 0))]
  rw [chainLt_eq_all, any_range'_shift]
  have hf : (fun i => decide (v.toList.getD (i + 1) 0 ≤ v.toList.getD (i + 1 - 1) 0)) =
      (fun i => !decide (v.toList.getD i 0 < v.toList.getD (i + 1) 0)) := by
    funext i
    simp only [Nat.add_sub_cancel]
    generalize v.toList.getD (i + 1) 0 = b
    generalize v.toList.getD i 0 = a
    by_cases c : a < b
    · simp [c]
    · simp [c]; omega
  rw [hf, ← List.not_all_eq_any_not, Array.length_toList]
  cases ((List.range' 0 (v.size - 1)).all fun i => decide (v.toList.getD i 0 < v.toList.getD (i + 1) 0)) <;> rfl

theorem translateSupport_length (tgt src : List String) : ∀ (xs new : List Nat),
    Ren.translateSupport tgt src xs = .ok new → new.length = xs.length := by
  intro xs
  induction xs with
  | nil => intro new h; simp [Ren.translateSupport] at h; rw [← h]
  | cons x xs ih =>
    intro new h
    rw [Ren.translateSupport] at h
    cases hx : src[x]? with
    | none => rw [hx] at h; cases h
    | some nm =>
      rw [hx] at h; simp only [] at h
      cases hid : tgt.idxOf? nm with
      | none => rw [hid] at h; cases h
      | some id =>
        rw [hid] at h; simp only [] at h
        cases hr : Ren.translateSupport tgt src xs with
        | ok new' =>
          rw [hr] at h
          simp only [Outcome.map, Outcome.ok.injEq] at h
          rw [← h, List.length_cons, ih new' hr, List.length_cons]
        | err m => rw [hr] at h; cases h
        | panic m => rw [hr] at h; cases h

theorem transfer_from_rel (T S : VSet) (A : Arr) (tgt : List String)
    (hn : T.1 = tgt.length) (hT : ∀ s, T.2.2[s]? = tgt.idxOf? s) :
    RelOpt (Algo2.BddVariableSet_transfer_from T A S) (Ren.transferFrom tgt A S.2.1.toList) := by
  unfold Algo2.BddVariableSet_transfer_from
  simp only [support_set_desugar, bind_ok, sort_support]
  unfold Ren.transferFrom
  simp only [Algo.Bdd_is_false, Algo.Bdd_is_true, beq_iff_eq]
  by_cases s1 : A.size = 1
  · rw [if_pos s1, if_pos s1, pure_eq, Algo2.BddVariableSet_mk_false, hn]; exact .isSome _
  rw [if_neg s1, if_neg s1]
  by_cases s2 : A.size = 2
  · rw [if_pos s2, if_pos s2, pure_eq, Algo2.BddVariableSet_mk_true, hn]; exact .isSome _
  rw [if_neg s2, if_neg s2]
  simp only [forIn_array_eq_iterL]
  rw [iterL_congr _ (tstep T S) _ (by
    intro x _ st
    unfold tstep Algo2.BddVariableSet_name_of Algo2.BddVariableSet_var_by_name
    rw [idx_eq]
    cases S.2.1[x]? with
    | none => rfl
    | some nm =>
      simp only [bind_ok, pure_eq, Option.map_id']
      cases T.2.2[nm]? <;> rfl)]
  have hl := translate_loop T S tgt hT (Ren.supportSet A) #[]
  cases hr : Ren.translateSupport tgt S.2.1.toList (Ren.supportSet A) with
  | panic m =>
    rw [hr] at hl
    obtain ⟨m', hm'⟩ := hl
    rw [hm', bind_panic]; exact .panic _ _
  | err m =>
    rw [hr] at hl
    obtain ⟨acc', ha⟩ := hl
    rw [ha, bind_ok]
    exact .isNone _
  | ok new =>
    rw [hr] at hl
    simp only [] at hl
    rw [hl, bind_ok]
    simp only [Array.empty_append]
    rw [forIn_range_eq_iterL]
    rw [iterL_congr _ (fun i (_ : Option (Option Arr) × Unit) =>
        if decide (new.toArray.toList.getD i 0 ≤ new.toArray.toList.getD (i - 1) 0) = true then
          Outcome.ok (ForInStep.done ((some none : Option (Option Arr)), ()))
        else .ok (.yield (none, ()))) _ (by
      intro i hi st
      rw [List.mem_range'_1] at hi
      have h1 : i < new.toArray.size := by omega
      have h2 : i - 1 < new.toArray.size := by omega
      rw [idx_of_lt _ i h1, bind_ok, sub_of_le i 1 (by omega), bind_ok, idx_of_lt _ (i - 1) h2, bind_ok]
      have h1' : i < new.length := by simpa using h1
      have h2' : i - 1 < new.length := by simpa using h2
      have e1 : new.toArray.toList.getD i 0 = new.toArray[i] := by simp [List.getD, h1']
      have e2 : new.toArray.toList.getD (i - 1) 0 = new.toArray[i - 1] := by simp [List.getD, h2']
      rw [e1, e2]; rfl)]
    rw [chain_loop_ret, bind_ok, List.toList_toArray]
    by_cases hch : Ren.chainLt new = true
    · simp only [hch, if_true, Bool.not_true, Bool.false_eq_true, if_false]
      rw [iterL_congr _ (cstep (Rust.hashMapFromArr ((Ren.supportSet A).toArray.zip new.toArray))) _ (by
        intro nd _ acc
        unfold cstep
        cases (Rust.hashMapFromArr ((Ren.supportSet A).toArray.zip new.toArray))[nd.var]? <;> rfl)]
      rw [extract_toList, copy_loop _ ((Ren.supportSet A).zip new) (by
        intro k
        rw [hashMapFromArr_getElem?]
        simp only [List.zip_toArray, List.toList_toArray] 
        apply lookup_reverse_of_nodup
        have hlen := translateSupport_length _ _ _ _ hr
        have : List.map (fun x => x.1) ((Ren.supportSet A).zip new) = Ren.supportSet A :=
          List.map_fst_zip (by omega)
        rw [this]
        exact (Ren.sorted_supportSet A).imp (fun h => Nat.ne_of_lt h))]
      cases Ren.copyNodes ((Ren.supportSet A).zip new) (List.drop 2 A.toList) with
      | none => exact .panic _ _
      | some nodes =>
        simp only [bind_ok, pure_eq]
        rw [hn]
        exact .isSome _
    · have hch' : Ren.chainLt new = false := by simpa using hch
      simp only [hch', Bool.false_eq_true, if_false, Bool.not_false, if_true, pure_eq]
      exact .isNone _

/-- in terms of `SetOf` -/
theorem transfer_from_rel_setOf (T S : VSet) (A : Arr) (tgt src : List String) (hT : SetOf T tgt) (hS : S.2.1 = src.toArray) :
    RelOpt (Algo2.BddVariableSet_transfer_from T A S) (Ren.transferFrom tgt A src) := by
  have := transfer_from_rel T S A tgt hT.count hT.index
  rw [hS] at this
  exact this

/-! ## chained with `Props/C17.lean` -/

open B.Props.C17 B.Ren in
/-- `target.transfer_from(b, source)` as translated, for a diagram valid in the source set: `Some r` exactly when
    `Transferable`, and then `r` is valid in the target set and denotes the same function under the name
    correspondence; otherwise `None` — never a panic -/
theorem transfer_from_some_iff (T S : VSet) (tgt src : List String) (hT : SetOf T tgt) (hS : S.2.1 = src.toArray)
    (b : Arr) (hb : WFo b (numVars b)) (hsrc : numVars b ≤ src.length) :
    (Transferable tgt src b →
      Algo2.BddVariableSet_transfer_from T b S =
        .ok (some (mapVars (fun x => (nameMap tgt src x).getD 0) (setTerm tgt.length b))) ∧
      Kept b (mapVars (fun x => (nameMap tgt src x).getD 0) (setTerm tgt.length b)) tgt.length
        (fun x => (nameMap tgt src x).getD 0)) ∧
    (¬ Transferable tgt src b → Algo2.BddVariableSet_transfer_from T b S = .ok none) := by
  have h := transfer_some_iff tgt src b hb hsrc
  have r := transfer_from_rel_setOf T S b tgt src hT hS
  refine ⟨fun hx => ⟨(r.ok_iff _).2 (h.1 hx).1, (h.1 hx).2⟩, fun hx => r.none_iff.2 (h.2 hx)⟩

end B.AlgoEq2Ren
