import BddVerif.Gen.Algo
import BddVerif.Model.Limit
import BddVerif.Core.Sim6
/-!
Equivalence "translated Rust = hand-written model", shared infrastructure for `estimated_apply_complexity`
(`AlgoEqDry*.lean`) and `apply_with_flip_and_limit` (`AlgoEqLimit*.lean`):

* `loopN step fuel s` — the explicit iteration that a generated `for _ in [0:fuel] do …` loop in the `Outcome`
  monad is equal to (`forIn_range_eq_loopN`);
* the generated accessors (`Bdd_num_vars`, `Bdd_root_pointer`, `Bdd_var_of`, …, `check_flip_bounds`) as closed forms;
* a pigeonhole bound for hash sets / maps whose keys are pairs in `[0,a) × [0,b)`;
* level facts about `kids` for `WFo` operands.
-/
namespace B.AlgoDL
open B B.Gen Std

/-- `fuel` iterations of a loop body with early exit (`ForInStep.done`); errors and panics propagate -/
def loopN {σ : Type} (step : σ → Outcome (ForInStep σ)) : Nat → σ → Outcome σ
  | 0, s => .ok s
  | k + 1, s =>
    match step s with
    | .ok (.done s') => .ok s'
    | .ok (.yield s') => loopN step k s'
    | .err m => .err m
    | .panic m => .panic m

theorem loopN_zero {σ : Type} (step : σ → Outcome (ForInStep σ)) (s : σ) : loopN step 0 s = .ok s := rfl

theorem loopN_yield {σ : Type} {step : σ → Outcome (ForInStep σ)} {s s' : σ} (h : step s = .ok (.yield s')) (k : Nat) :
    loopN step (k + 1) s = loopN step k s' := by
  simp only [loopN, h]

theorem loopN_done {σ : Type} {step : σ → Outcome (ForInStep σ)} {s s' : σ} (h : step s = .ok (.done s')) (k : Nat) :
    loopN step (k + 1) s = .ok s' := by
  simp only [loopN, h]

section
attribute [local instance 10000] Rust.monadOutcomeInline

theorem forIn_list_eq_loopN {σ : Type} (step : σ → Outcome (ForInStep σ)) :
    ∀ (k a : Nat) (init : σ),
      forIn (m := Outcome) (List.range' a k 1) init (fun _ s => step s) = loopN step k init := by
  intro k
  induction k with
  | zero => intro a init; rfl
  | succ k ih =>
    intro a init
    rw [List.range'_succ, List.forIn_cons]
    unfold loopN
    cases h : step init with
    | ok x =>
      cases x with
      | done s' => rfl
      | yield s' => exact ih (a + 1) s'
    | err m => rfl
    | panic m => rfl

/-- the shape every generated `while` loop has after translation -/
theorem forIn_range_eq_loopN {σ : Type} (step : σ → Outcome (ForInStep σ)) (fuel : Nat) (init : σ) :
    forIn (m := Outcome) [0:fuel] init (fun _ s => step s) = loopN step fuel init := by
  rw [Std.Legacy.Range.forIn_eq_forIn_range']
  have : ([0:fuel] : Std.Legacy.Range).size = fuel := by simp [Std.Legacy.Range.size]
  rw [this]
  exact forIn_list_eq_loopN step fuel 0 init

theorem bind_ok {α β : Type} (a : α) (f : α → Outcome β) : (Outcome.ok a >>= f) = f a := rfl
theorem bind_panic {α β : Type} (m : String) (f : α → Outcome β) : (Outcome.panic m >>= f) = Outcome.panic m := rfl
theorem bind_err {α β : Type} (m : String) (f : α → Outcome β) : (Outcome.err m >>= f) = Outcome.err m := rfl
theorem pure_eq {α : Type} (a : α) : (pure a : Outcome α) = Outcome.ok a := rfl
end

/-! ### pigeonhole -/

theorem nat_nodup_length : ∀ (N : Nat) (l : List Nat), l.Nodup → (∀ x ∈ l, x < N) → l.length ≤ N := by
  intro N
  induction N with
  | zero => intro l _ h; cases l with
    | nil => simp
    | cons x t => exact absurd (h x (by simp)) (by omega)
  | succ N ih =>
    intro l hd hr
    by_cases hm : N ∈ l
    · have h1 : (l.erase N).length = l.length - 1 := List.length_erase_of_mem hm
      have h2 : (l.erase N).Nodup := hd.erase N
      have h3 : ∀ x ∈ l.erase N, x < N := by
        intro x hx
        have hm' := (List.Nodup.mem_erase_iff hd).1 hx
        have := hr x hm'.2
        have := hm'.1
        omega
      have := ih _ h2 h3
      omega
    · have : ∀ x ∈ l, x < N := by
        intro x hx
        have := hr x hx
        have : x ≠ N := fun e => hm (e ▸ hx)
        omega
      have := ih l hd this
      omega

theorem pair_nodup_length (a b : Nat) (l : List (Nat × Nat)) (hd : l.Pairwise (fun x y => (x == y) = false))
    (hr : ∀ p ∈ l, p.1 < a ∧ p.2 < b) : l.length ≤ a * b := by
  have h1 : (l.map fun p => p.1 * b + p.2).Nodup := by
    rw [List.Nodup, List.pairwise_map]
    refine hd.imp_of_mem ?_
    intro x y hx hy hxy e
    have hxr := hr x hx
    have hyr := hr y hy
    have hb : 0 < b := by omega
    have e1 : (x.1 * b + x.2) / b = (y.1 * b + y.2) / b := by rw [e]
    have e2 : (x.1 * b + x.2) % b = (y.1 * b + y.2) % b := by rw [e]
    rw [Nat.mul_comm x.1, Nat.mul_comm y.1, Nat.mul_add_div hb, Nat.mul_add_div hb, Nat.div_eq_of_lt hxr.2,
      Nat.div_eq_of_lt hyr.2] at e1
    rw [Nat.mul_comm x.1, Nat.mul_comm y.1, Nat.mul_add_mod, Nat.mul_add_mod, Nat.mod_eq_of_lt hxr.2,
      Nat.mod_eq_of_lt hyr.2] at e2
    have : x = y := Prod.ext (by omega) e2
    simp [this] at hxy
  have h2 : ∀ x ∈ (l.map fun p => p.1 * b + p.2), x < a * b := by
    intro x hx
    rw [List.mem_map] at hx
    obtain ⟨p, hp, rfl⟩ := hx
    have := hr p hp
    calc p.1 * b + p.2 < p.1 * b + b := by omega
      _ = (p.1 + 1) * b := by rw [Nat.add_mul]; omega
      _ ≤ a * b := Nat.mul_le_mul_right b (by omega)
  have := nat_nodup_length _ _ h1 h2
  simpa using this

/-- a set of tasks all of whose members are pairs of valid pointers has at most `|L|·|R|` elements -/
theorem hashSet_size_le (a b : Nat) (V : HashSet (Nat × Nat)) (h : ∀ p, V.contains p = true → p.1 < a ∧ p.2 < b) :
    V.size ≤ a * b := by
  rw [← HashSet.length_toList]
  apply pair_nodup_length a b _ HashSet.distinct_toList
  intro p hp
  exact h p (by rw [HashSet.mem_toList] at hp; exact HashSet.mem_iff_contains.1 hp)

theorem hashMap_size_le {β : Type} (a b : Nat) (V : HashMap (Nat × Nat) β)
    (h : ∀ p, V.contains p = true → p.1 < a ∧ p.2 < b) : V.size ≤ a * b := by
  rw [← HashMap.length_keys]
  apply pair_nodup_length a b _ HashMap.distinct_keys
  intro p hp
  exact h p (by rw [HashMap.mem_keys] at hp; exact HashMap.mem_iff_contains.1 hp)

/-! ### generated accessors in closed form -/

/-- `u32::MAX + 1`: `BddPointer::from_index` truncates to 32 bits -/
def u32Range : Nat := 4294967296

theorem as_bool_eq (p : Nat) : Algo.BddPointer_as_bool p = asBool p := by
  unfold Algo.BddPointer_as_bool asBool
  match p with
  | 0 => rfl
  | 1 => rfl
  | p + 2 => simp

theorem from_bool_eq (b : Bool) : Algo.BddPointer_from_bool b = ofBool b := by
  cases b <;> rfl

theorem nodeAt_eq_get {A : Arr} {p : Nat} (hp : p < A.size) : nodeAt A p = A[p] := by
  simp [nodeAt, hp]

theorem num_vars_eq (L : Arr) (h : 0 < L.size) : Algo.Bdd_num_vars L = .ok (numVars L) := by
  simp [Algo.Bdd_num_vars, Rust.idx, h, numVars, bind_ok, pure_eq]

theorem num_vars_panic (L : Arr) (h : L.size = 0) : ∃ m, Algo.Bdd_num_vars L = .panic m := by
  refine ⟨"index out of bounds", ?_⟩
  simp [Algo.Bdd_num_vars, Rust.idx, h, bind_panic]

theorem root_pointer_eq (L : Arr) (h : 0 < L.size) (h32 : L.size ≤ u32Range) : Algo.Bdd_root_pointer L = .ok (root L) := by
  have e : (L.size - 1) % 4294967296 = L.size - 1 := Nat.mod_eq_of_lt (by unfold u32Range at h32; omega)
  have h1 : 1 ≤ L.size := h
  simp only [Algo.Bdd_root_pointer, Rust.sub, h1, if_true, Algo.BddPointer_from_index, Rust.asU32, root, bind_ok, pure_eq, e]

theorem var_of_eq (L : Arr) (l : Nat) (h : l < L.size) : Algo.Bdd_var_of L l = .ok (nodeAt L l).var := by
  simp [Algo.Bdd_var_of, Algo.BddPointer_to_index, Rust.idx, h, nodeAt, bind_ok, pure_eq]

theorem low_link_of_eq (L : Arr) (l : Nat) (h : l < L.size) : Algo.Bdd_low_link_of L l = .ok (nodeAt L l).low := by
  simp [Algo.Bdd_low_link_of, Algo.BddPointer_to_index, Rust.idx, h, nodeAt, bind_ok, pure_eq]

theorem high_link_of_eq (L : Arr) (l : Nat) (h : l < L.size) : Algo.Bdd_high_link_of L l = .ok (nodeAt L l).high := by
  simp [Algo.Bdd_high_link_of, Algo.BddPointer_to_index, Rust.idx, h, nodeAt, bind_ok, pure_eq]

theorem check_flip_ok (n : Nat) (f : Option Nat) (h : Lim.flipOk n f = true) : Algo.check_flip_bounds n f = .ok () := by
  cases f with
  | none => rfl
  | some x =>
    have : x < n := by simpa [Lim.flipOk] using h
    simp [Algo.check_flip_bounds, pure_eq]
    omega

theorem check_flip_panic (n : Nat) (f : Option Nat) (h : Lim.flipOk n f = false) :
    ∃ m, Algo.check_flip_bounds n f = .panic m := by
  cases f with
  | none => simp [Lim.flipOk] at h
  | some x =>
    have : n ≤ x := by simpa [Lim.flipOk] using h
    refine ⟨"Cannot flip variable {} in Bdd with {} variables.", ?_⟩
    simp [Algo.check_flip_bounds, this]

theorem flipOk_iff (n : Nat) (f : Option Nat) : Lim.flipOk n f = true ↔ ∀ x, f = some x → x < n := by
  cases f with
  | none => simp [Lim.flipOk]
  | some y => simp [Lim.flipOk]

/-! ### levels of the children of a task -/

theorem WFo.size_pos {L : Arr} {n : Nat} (h : WFo L n) : 0 < L.size := by
  have := h.zero
  rcases Nat.eq_zero_or_pos L.size with h0 | h0
  · simp [Array.size_eq_zero_iff.1 h0] at this
  · exact h0

theorem WFo.numVars_eq {L : Arr} {n : Nat} (h : WFo L n) : numVars L = n := by
  simp [numVars, h.zero]

/-- both children of `p` on decision variable `d ≤ var p`, `d < n`, are valid pointers on a strictly deeper level -/
theorem kids_spec {L : Arr} {n : Nat} (h : WFo L n) (p : Nat) (hp : p < L.size) (d : Nat) (hd : d ≤ varOf L n p)
    (hdn : d < n) (fl : Option Nat) :
    (kids L p d fl).1 < L.size ∧ (kids L p d fl).2 < L.size ∧
      d < varOf L n (kids L p d fl).1 ∧ d < varOf L n (kids L p d fl).2 := by
  have hv := nodeAt_var h p hp
  unfold kids
  by_cases hne : (nodeAt L p).var ≠ d
  · rw [if_pos hne]
    refine ⟨hp, hp, ?_, ?_⟩ <;> dsimp only <;> omega
  · have heq : (nodeAt L p).var = d := by omega
    have hp2 : 2 ≤ p := by
      rcases Nat.lt_or_ge p 2 with h2 | h2
      · have := nodeAt_var_terminal h p hp h2; omega
      · exact h2
    have hnd : L[p]? = some L[p] := by simp [hp]
    have hn : nodeAt L p = L[p] := nodeAt_eq_get hp
    obtain ⟨_, hl, hh, hvl, hvh⟩ := h.inner p L[p] hp2 hnd
    rw [← hn] at hl hh hvl hvh
    rw [if_neg hne]
    split
    · exact ⟨hh, hl, by dsimp only; omega, by dsimp only; omega⟩
    · exact ⟨hl, hh, by dsimp only; omega, by dsimp only; omega⟩

end B.AlgoDL
