import BddVerif.Lemmas.AlgoEqRestrictSim
import BddVerif.Props.C06
import BddVerif.Drive.Algo
/-!
Equivalence "translated Rust = hand-written model" for `restriction()` and its wrappers, part 3: the theorems.
-/
namespace B.AlgoEqR
open B B.Gen Std B.Rel

/-- **`restriction()` as translated from the Rust text computes the hand-written model `B.restriction`**, for every
    well-formed operand with at most `2^32` nodes (the range of `BddPointer`), every partial valuation and every
    fuel `≥ 3·|A| − 8`. -/
theorem restriction_eq_model {A : Arr} {n : Nat} (hA : WFo A n) (h32 : A.size ≤ 4294967296)
    (pv : Array (Option Bool)) (fuel : Nat) (hfuel : 3 * A.size ≤ fuel + 8) :
    Gen.Algo.restriction fuel A pv = .ok (B.restriction A pv.toList) := by
  by_cases hsz : A.size = 2 ∨ A.size = 1
  · rw [restriction_const fuel A pv hsz]
    unfold B.restriction
    simp only [hsz, if_true]
  · have hpos := hA.size_pos
    have hsz2 : 2 < A.size := by omega
    rw [restriction_desugar fuel A pv hsz2]
    unfold B.restriction
    simp only [hsz, if_false]
    rw [numVars_of_wf hA]
    obtain ⟨hR0, hc0⟩ := init_rel hA hsz2
    have hroot : u32 (A.size - 1) = root A := Nat.mod_eq_of_lt (by omega)
    have hS := sim_all hA h32 pv (n + 2) (root A) (initRSt n) (initSt A).1 (initSt A).2.1 (initSt A).2.2.1 #[]
      hR0 (root_lt hA) (by omega)
      (by
        have h2 : 2 ≤ root A := by unfold root; omega
        show (((HashMap.emptyWithCapacity 16 : HashMap Nat Nat).insert 0 0).insert 1 1)[root A]? = none
        have e1 : (1 == root A) = false := by simp; omega
        have e0 : (0 == root A) = false := by simp; omega
        simp only [HashMap.getElem?_insert, e1, e0, Bool.false_eq_true, if_false, HashMap.getElem?_emptyWithCapacity])
    obtain ⟨k, nid', out', cache', hr, hR, hq, -, -, hk⟩ := hS
    generalize restrictRec A pv.toList (n + 2) (root A) (initRSt n) = r at hR hq ⊢
    have hinit : ((initSt A).1, (initSt A).2.1, (initSt A).2.2.1, (#[] : Array Nat).push (root A)) = initSt A := by
      show _ = ((initSt A).1, (initSt A).2.1, (initSt A).2.2.1, #[u32 (A.size - 1)])
      rw [hroot]; rfl
    rw [hinit] at hr
    have hle : cnt nid' ≤ A.size := by
      have : cnt nid' ≤ nid'.size := Array.countP_le_size
      rw [hR.size] at this; exact this
    obtain ⟨m, hm⟩ : ∃ m, fuel = k + m := ⟨fuel - k, by omega⟩
    rw [hm, loopN_runs m hr, loopN_done (by rfl) m]
    show post A (nid', out', cache', #[]) = _
    have hcell : nid'[u32 (A.size - 1)]? = some (some r.2) := by
      rw [hroot, hR.hnid _ (root_lt hA), hq]
    simp only [post, hcell, hR.hout, numVars_of_wf hA, Array.back?_empty]
    split <;> rfl

attribute [local instance 10000] Rust.monadOutcomeInline

/-! ### `BddPartialValuation::from_values`, `Bdd::restrict`, `Bdd::var_restrict` -/

theorem forIn_list_foldl {α σ : Type} (f : α → σ → Outcome (ForInStep σ)) (g : σ → α → σ)
    (h : ∀ a s, f a s = .ok (.yield (g s a))) : ∀ (l : List α) (init : σ), forIn l init f = .ok (l.foldl g init) := by
  intro l
  induction l with
  | nil => intro init; rfl
  | cons a t ih =>
    intro init
    rw [List.forIn_cons, h]
    exact ih (g init a)

theorem pvalSet_toList (p : Array (Option Bool)) (x : Nat) (b : Bool) :
    (Rust.pvalSetValue p x b).toList = PVal.set p.toList x b := by
  unfold Rust.pvalSetValue Rust.pvalSet Rust.pvalGrow PVal.set
  by_cases h : p.size ≤ x
  · simp [h]
  · have : x + 1 - p.size = 0 := by omega
    simp [h, this]

theorem from_values_eq_model (lits : Array (Nat × Bool)) :
    Gen.Algo.BddPartialValuation_from_values lits = .ok (fromValues lits.toList).toArray := by
  unfold Gen.Algo.BddPartialValuation_from_values
  simp only []
  rw [← Array.forIn_toList, forIn_list_foldl (fun (x : Nat × Bool) (s : Array (Option Bool)) => pure (ForInStep.yield (Rust.pvalSetValue s x.1 x.2)))
    (fun r (x : Nat × Bool) => Rust.pvalSetValue r x.1 x.2) (fun a s => rfl)]
  show Outcome.ok _ = _
  congr 1
  apply Array.toList_inj.mp
  unfold fromValues
  generalize lits.toList = l
  have : ∀ (l : List (Nat × Bool)) (r : Array (Option Bool)),
      (l.foldl (fun r (x : Nat × Bool) => Rust.pvalSetValue r x.1 x.2) r).toList =
        l.foldl (fun pv l => PVal.set pv l.1 l.2) r.toList := by
    intro l
    induction l with
    | nil => intro r; rfl
    | cons a t ih => intro r; simp only [List.foldl_cons]; rw [ih, pvalSet_toList]
  exact this l _

/-- **`Bdd::restrict` as translated = `B.restrict`** -/
theorem Bdd_restrict_eq_model {A : Arr} {n : Nat} (hA : WFo A n) (h32 : A.size ≤ 4294967296)
    (lits : Array (Nat × Bool)) (fuel : Nat) (hfuel : 3 * A.size ≤ fuel + 8) :
    Gen.Algo.Bdd_restrict fuel A lits = .ok (B.restrict A lits.toList) := by
  unfold Gen.Algo.Bdd_restrict
  rw [from_values_eq_model]
  show Gen.Algo.restriction fuel A (fromValues lits.toList).toArray = _
  rw [restriction_eq_model hA h32 _ fuel hfuel]
  rfl

/-- **`Bdd::var_restrict` as translated = `B.varRestrict`** -/
theorem Bdd_var_restrict_eq_model {A : Arr} {n : Nat} (hA : WFo A n) (h32 : A.size ≤ 4294967296)
    (x : Nat) (b : Bool) (fuel : Nat) (hfuel : 3 * A.size ≤ fuel + 8) :
    Gen.Algo.Bdd_var_restrict fuel A x b = .ok (B.varRestrict A x b) := by
  unfold Gen.Algo.Bdd_var_restrict
  rw [Bdd_restrict_eq_model hA h32 _ fuel hfuel]
  rfl

/-- outside the domain (`restriction()` has no intentional panic): the empty node array — never a `Bdd` — makes
    line 190 `new_id[0] = …` panic -/
theorem restriction_empty_panics (fuel : Nat) (pv : Array (Option Bool)) :
    Gen.Algo.restriction fuel #[] pv = .panic "index out of bounds" := by
  unfold Gen.Algo.restriction
  rfl

/-! ### with the fuel the driver passes (`Drive/Algo.lean`: `fuel1 A = 8 * (A.size + numVars A + 8)`) -/

theorem fuel1_ok (A : Arr) : 3 * A.size ≤ Drive.Algo.fuel1 A + 8 := by
  unfold Drive.Algo.fuel1; omega

theorem restriction_eq_model_driver {A : Arr} {n : Nat} (hA : WFo A n) (h32 : A.size ≤ 4294967296)
    (pv : Array (Option Bool)) :
    Gen.Algo.restriction (Drive.Algo.fuel1 A) A pv = .ok (B.restriction A pv.toList) :=
  restriction_eq_model hA h32 pv _ (fuel1_ok A)

theorem Bdd_restrict_eq_model_driver {A : Arr} {n : Nat} (hA : WFo A n) (h32 : A.size ≤ 4294967296)
    (lits : List (Nat × Bool)) :
    Gen.Algo.Bdd_restrict (Drive.Algo.fuel1 A) A lits.toArray = .ok (B.restrict A lits) :=
  Bdd_restrict_eq_model hA h32 lits.toArray _ (fuel1_ok A)

theorem Bdd_var_restrict_eq_model_driver {A : Arr} {n : Nat} (hA : WFo A n) (h32 : A.size ≤ 4294967296)
    (x : Nat) (b : Bool) :
    Gen.Algo.Bdd_var_restrict (Drive.Algo.fuel1 A) A x b = .ok (B.varRestrict A x b) :=
  Bdd_var_restrict_eq_model hA h32 x b _ (fuel1_ok A)

/-! ### chained with the property theorem `restrict_canon` (Props/C06.lean): what the TRANSLATED code returns -/

/-- the translated `restriction()` returns the canonical array of "operand at the overridden valuation" -/
theorem restriction_translated_canon {A : Arr} {n : Nat} (hA : WFo A n) (h32 : A.size ≤ 4294967296)
    (pv : Array (Option Bool)) (fuel : Nat) (hfuel : 3 * A.size ≤ fuel + 8) :
    Gen.Algo.restriction fuel A pv = .ok (canon n (fun v => sem A (ovr pv.toList v))) := by
  rw [restriction_eq_model hA h32 pv fuel hfuel, restriction_eq_canon hA]

theorem Bdd_restrict_translated_canon {A : Arr} {n : Nat} (hA : WFo A n) (h32 : A.size ≤ 4294967296)
    (lits : Array (Nat × Bool)) (fuel : Nat) (hfuel : 3 * A.size ≤ fuel + 8) :
    Gen.Algo.Bdd_restrict fuel A lits = .ok (canon n (fun v => sem A (ovr (fromValues lits.toList) v))) := by
  rw [Bdd_restrict_eq_model hA h32 lits fuel hfuel, Props.C06.restrict_canon hA]

theorem Bdd_var_restrict_translated_canon {A : Arr} {n : Nat} (hA : WFo A n) (h32 : A.size ≤ 4294967296)
    (x : Nat) (b : Bool) (fuel : Nat) (hfuel : 3 * A.size ≤ fuel + 8) :
    Gen.Algo.Bdd_var_restrict fuel A x b = .ok (canon n (fun v => sem A (ovr (fromValues [(x, b)]) v))) := by
  rw [Bdd_var_restrict_eq_model hA h32 x b fuel hfuel]
  exact congrArg Outcome.ok (Props.C06.restrict_canon hA [(x, b)])

/-! ### `BddPartialValuation::to_values`, `Bdd::mk_partial_valuation` -/

theorem toValues_list : ∀ (l : List (Option Bool)) (i : Nat), i + l.length ≤ 65536 →
    (l.mapIdx (fun j x => (i + j, x))).filterMap
      (fun (x : Nat × Option Bool) => x.2.map (fun value => (Rust.asU16 x.1, value))) = PVal.toValuesFrom i l := by
  intro l
  induction l with
  | nil => intro i _; rfl
  | cons a t ih =>
    intro i hi
    simp only [List.length_cons] at hi
    rw [List.mapIdx_cons]
    have hf : (fun (j : Nat) (x : Option Bool) => (i + (j + 1), x)) = (fun j x => (i + 1 + j, x)) := by
      funext j x; congr 1; omega
    rw [hf]
    cases a with
    | none =>
      simp only [List.filterMap_cons, Option.map_none]
      rw [ih (i + 1) (by omega)]; rfl
    | some b =>
      simp only [List.filterMap_cons, Option.map_some]
      rw [ih (i + 1) (by omega)]
      have : Rust.asU16 (i + 0) = i := Nat.mod_eq_of_lt (by omega)
      rw [this]; rfl

theorem to_values_eq_model (pv : Array (Option Bool)) (h : pv.size ≤ 65536) :
    (Gen.Algo.BddPartialValuation_to_values pv).toList = PVal.toValues pv.toList := by
  unfold Gen.Algo.BddPartialValuation_to_values Rust.enumerate PVal.toValues
  rw [Array.toList_filterMap, Array.toList_mapIdx]
  have := toValues_list pv.toList 0 (by simpa using h)
  simp only [Nat.zero_add] at this
  exact this

theorem to_values_size_le (pv : Array (Option Bool)) :
    (Gen.Algo.BddPartialValuation_to_values pv).size ≤ pv.size := by
  unfold Gen.Algo.BddPartialValuation_to_values Rust.enumerate
  refine Nat.le_trans Array.size_filterMap_le ?_
  simp

/-- a `for x in list` loop without `break` whose body is total under a counted invariant is a `foldl` -/
theorem forIn_list_foldl_inv {α σ : Type} (f : α → σ → Outcome (ForInStep σ)) (g : σ → α → σ) (P : Nat → σ → Prop)
    (hP : ∀ k a s, P (k + 1) s → P k (g s a)) (h : ∀ k a s, P (k + 1) s → f a s = .ok (.yield (g s a))) :
    ∀ (l : List α) (init : σ), P l.length init → forIn l init f = .ok (l.foldl g init) := by
  intro l
  induction l with
  | nil => intro init _; rfl
  | cons a t ih =>
    intro init hi
    rw [List.forIn_cons, h t.length a init hi]
    exact ih (g init a) (hP _ _ _ hi)

/-- one round of the loop of `mk_partial_valuation` (lines 434-439) -/
def clauseStep (A : Arr) (p : Nat × Bool) : Arr :=
  A.push (if p.2 then ⟨p.1, 0, root A⟩ else ⟨p.1, root A, 0⟩)

/-- **`Bdd::mk_partial_valuation` as translated = `B.mkPartialValuation`**, for valuations over at most `2^16`
    variables (the range of `BddVariable`) -/
theorem mk_partial_valuation_eq_model (n : Nat) (pv : Array (Option Bool)) (h : pv.size ≤ 65536) :
    Gen.Algo.Bdd_mk_partial_valuation n pv = .ok (mkPartialValuation n pv.toList) := by
  unfold Gen.Algo.Bdd_mk_partial_valuation
  simp only []
  have hlen : (Gen.Algo.BddPartialValuation_to_values pv).reverse.toList.length ≤ 65536 := by
    have := to_values_size_le pv
    simp only [Array.toList_reverse, List.length_reverse, Array.length_toList]
    omega
  rw [← Array.forIn_toList]
  rw [forIn_list_foldl_inv _ clauseStep (fun k s => 1 ≤ s.size ∧ s.size + k ≤ 4294967296)
    (by
      intro k a s ⟨h1, h2⟩
      simp only [clauseStep, Array.size_push]
      omega)
    (by
      intro k a s ⟨h1, h2⟩
      obtain ⟨x, b⟩ := a
      have hr : Gen.Algo.Bdd_root_pointer s = .ok (root s) := by
        rw [root_ptr s (by omega)]
        exact congrArg Outcome.ok (Nat.mod_eq_of_lt (by omega))
      simp only [hr]
      cases b <;> rfl)
    _ _ ⟨by show 1 ≤ 2; omega, by show 2 + _ ≤ _; omega⟩]
  unfold mkPartialValuation
  rw [clauseArr_eq_foldl, Array.toList_reverse, to_values_eq_model pv h]
  rfl

/-! ### non-vacuity: concrete runs of the GENERATED functions through the theorems -/

/-- a well-formed but NOT canonical operand over 3 variables (node 3 duplicates node 2, node 5 is redundant) -/
def exNC : Arr := #[⟨3, 0, 0⟩, ⟨3, 1, 1⟩, ⟨2, 0, 1⟩, ⟨2, 0, 1⟩, ⟨1, 2, 3⟩, ⟨0, 4, 4⟩]
theorem exNC_wf : WFo exNC 3 := wfoB_sound (by decide)

/-- the generated `Bdd::restrict`, with the driver's fuel, on `x0 ∧ x2` with `x0 := true` -/
example : Gen.Algo.Bdd_restrict (Drive.Algo.fuel1 exX0X2) exX0X2 #[(0, true)] =
    .ok #[⟨3, 0, 0⟩, ⟨3, 1, 1⟩, ⟨2, 0, 1⟩] :=
  (Bdd_restrict_translated_canon exX0X2_wf (by decide) _ _ (fuel1_ok _)).trans (congrArg Outcome.ok (by decide))

/-- last literal wins: `x2 := true, x2 := false` gives the one-node `false` -/
example : Gen.Algo.Bdd_restrict (Drive.Algo.fuel1 exX0X2) exX0X2 #[(0, true), (2, true), (2, false)] =
    .ok #[⟨3, 0, 0⟩] :=
  (Bdd_restrict_translated_canon exX0X2_wf (by decide) _ _ (fuel1_ok _)).trans (congrArg Outcome.ok (by decide))

/-- the generated `restriction()` on the non-canonical operand with the empty valuation: the canonical `x2` -/
example : Gen.Algo.restriction 10 exNC #[] = .ok #[⟨3, 0, 0⟩, ⟨3, 1, 1⟩, ⟨2, 0, 1⟩] :=
  (restriction_translated_canon exNC_wf (by decide) _ 10 (by decide)).trans (congrArg Outcome.ok (by decide))

example : Gen.Algo.Bdd_var_restrict 10 exNC 2 false = .ok #[⟨3, 0, 0⟩] :=
  (Bdd_var_restrict_translated_canon exNC_wf (by decide) 2 false 10 (by decide)).trans (congrArg Outcome.ok (by decide))

/-- constants come back unchanged, with no fuel at all -/
example : Gen.Algo.restriction 0 (mkTrue 3) #[some true] = .ok (mkTrue 3) :=
  restriction_eq_model (wfo_mkTrue 3) (by decide) _ 0 (by decide)

/-- the fuel bound `3·|A| − 8` is attained: the one-variable operand `x0` (3 nodes) needs 1 iteration, and with
    fuel 0 the translated function reports fuel exhaustion -/
example : Gen.Algo.restriction 0 (mkVar 1 0) #[] = .panic "fuel" := by
  rw [restriction_desugar 0 _ _ (by decide)]
  rfl
example : Gen.Algo.restriction 1 (mkVar 1 0) #[] = .ok (B.restriction (mkVar 1 0) []) :=
  restriction_eq_model (n := 1) (wfoB_sound (by decide)) (by decide) #[] 1 (by decide)

/-- the generated `mk_partial_valuation` for `x0 ∧ ¬x2` over 3 variables -/
example : Gen.Algo.Bdd_mk_partial_valuation 3 #[some true, none, some false] =
    .ok #[⟨3, 0, 0⟩, ⟨3, 1, 1⟩, ⟨2, 1, 0⟩, ⟨0, 0, 2⟩] :=
  (mk_partial_valuation_eq_model 3 _ (by decide)).trans (congrArg Outcome.ok (by decide))

end B.AlgoEqR
