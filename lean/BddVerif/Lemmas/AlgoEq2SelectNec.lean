import BddVerif.Lemmas.AlgoEq2SelectTable
/-!
# `necessary_clause`: translated code = hand model

`B.Gen.Algo2.Bdd_necessary_clause` (no fuel: only `for` loops) against `B.Select.necessaryClause`.
The translated function is a sequence of six loops (the slice loop of L393, pass one L398, pass two L411 with its
nested `for … { …; for var in range {…}; break }`, pass three L443, the final `match` loop L458); each loop body is
shown to simulate one step of the corresponding `foldlM` / recursion of the hand model (`StepRel`, `RelO`), the
`break` of the inner loop of pass two through `foldBrk`. Hypotheses: `0 < len ≤ 2^32` and `num_vars ≤ 2^16`
(`BddVariable(i as u16)` truncates).
-/
namespace B.AlgoEq2Sel
open B B.Gen B.Select B.AlgoEqUtil

attribute [local instance 10000] Rust.monadOutcomeInline

/-! ### generic: loops with `break` -/

/-- model-side loop with `break` -/
def foldBrk {α γ : Type} (f : γ → α → Option (ForInStep γ)) : List α → γ → Option γ
  | [], s => some s
  | x :: xs, s =>
    match f s x with
    | none => none
    | some (.done s') => some s'
    | some (.yield s') => foldBrk f xs s'

theorem iterL_relB {α β : Type} (g : α → β → Outcome (ForInStep β)) (f : β → α → Option (ForInStep β))
    (xs : List α) (h : ∀ x, x ∈ xs → ∀ b, RelO (g x b) (f b x)) :
    ∀ b, RelO (iterL g xs b) (foldBrk f xs b) := by
  induction xs with
  | nil => intro b; exact RelO.ok _
  | cons x xs ih =>
    intro b
    rw [iterL_cons]
    unfold foldBrk
    have hx := h x List.mem_cons_self b
    generalize g x b = r at hx
    generalize f b x = o at hx
    cases hx with
    | ok st =>
      cases st with
      | done b' => exact RelO.ok _
      | yield b' => exact ih (fun y hy => h y (List.mem_cons_of_mem _ hy)) b'
    | panic m => exact RelO.panic _

theorem relO_bind' {α β} {x : Outcome α} {y : Option α} (h : RelO x y) {f : α → Outcome β} {g : α → Option β}
    (hf : ∀ a, RelO (f a) (g a)) : RelO (x >>= f) (y.bind g) := by
  cases h with
  | ok a => exact hf a
  | panic m => exact RelO.panic m

theorem stepRel_of_relO {β : Type} {r : Outcome β} {o : Option β} (h : RelO r o) :
    StepRel id (r >>= fun s => Outcome.ok (ForInStep.yield s)) o := by
  cases h with
  | ok a => exact Or.inl ⟨a, rfl, rfl⟩
  | panic m => exact Or.inr ⟨⟨m, rfl⟩, rfl⟩

theorem relO_of_map_id {β : Type} {r : Outcome β} {o : Option β} (h : RelO (r.map id) o) : RelO r o := by
  cases r with
  | ok a => exact h
  | err m => cases h
  | panic m => exact h

/-! ### `for v in lo..hi { a[v] = true }` -/

theorem setTrue_rel (s : Array Bool) (i : Nat) : RelO (Rust.setIdx s i true) (setTrue s i) := by
  rw [setIdx_eq]
  unfold setTrue
  by_cases h : i < s.size
  · simp only [h, if_true]; exact RelO.ok _
  · simp only [h, if_false]; exact RelO.panic _

theorem setTrue_size {s s' : Array Bool} {i : Nat} (h : setTrue s i = some s') : s'.size = s.size := by
  unfold setTrue at h
  by_cases hi : i < s.size
  · simp only [hi, if_true, Option.some.injEq] at h; rw [← h]; simp
  · simp [hi] at h

theorem foldlM_setTrue_none : ∀ (xs : List Nat) (a : Array Bool) (x : Nat), x ∈ xs → a.size ≤ x →
    xs.foldlM setTrue a = none := by
  intro xs
  induction xs with
  | nil => intro a x hx; cases hx
  | cons y ys ih =>
    intro a x hx hle
    rw [List.foldlM_cons]
    cases hs : setTrue a y with
    | none => rfl
    | some a' =>
      have hsz := setTrue_size hs
      rcases List.mem_cons.mp hx with rfl | hx'
      · unfold setTrue at hs
        have : ¬ x < a.size := by omega
        simp [this] at hs
      · exact ih a' x hx' (by omega)

theorem rangeArr_toList (lo hi : Nat) : (Rust.rangeArr lo hi).toList = List.range' lo (hi - lo) := by
  unfold Rust.rangeArr
  apply List.ext_getElem
  · simp
  · intro i h1 h2
    simp at h1 h2 ⊢
    omega

theorem rangeArr_contains (lo hi x : Nat) : (Rust.rangeArr lo hi).contains x = decide (lo ≤ x ∧ x < hi) := by
  rw [← Array.contains_toList, rangeArr_toList]
  by_cases h : lo ≤ x ∧ x < hi
  · have : x ∈ List.range' lo (hi - lo) := by rw [List.mem_range'_1]; omega
    simp [h, this]
  · have : ¬ x ∈ List.range' lo (hi - lo) := by rw [List.mem_range'_1]; omega
    simp only [h, decide_false]
    simpa using this

/-- the loop `for var in range { seen_any[var] = true }` is `markRange` -/
theorem mark_loop (g : Nat → Array Bool → Outcome (ForInStep (Array Bool)))
    (hg : ∀ v s, g v s = (Rust.setIdx s v true >>= fun s' => Outcome.ok (ForInStep.yield s')))
    (lo hi : Nat) (s : Array Bool) :
    RelO (iterL g (List.range' lo (hi - lo)) s) (markRange s lo hi) := by
  unfold markRange
  apply relO_of_map_id
  refine iterL_rel g setTrue id _ (fun v _ b => ?_) s
  rw [hg]
  exact stepRel_of_relO (setTrue_rel b v)

/-! ### the steps of the hand model, named -/

def p1Step (A : Arr) (s : Array Bool) (id : Nat) : Option (Array Bool) :=
  (A[id]?).bind fun nd => if !(nd.low == 0 || nd.high == 0) then setTrue s nd.var else some s

theorem pass1_eq (A : Arr) (any : Array Bool) : pass1 A any = (ids A).foldlM (p1Step A) any := rfl

/-- one iteration of the inner loop of pass two: fail, `break` with a value, or continue -/
def p2Inner (A : Arr) (x : Nat) (s : Array Bool) (id : Nat) : Option (ForInStep (Array Bool)) :=
  match A[id]? with
  | none => none
  | some nd =>
    match A[nd.high]?, A[nd.low]? with
    | some hn, some ln =>
      if nd.high = 0 then
        if nd.var + 1 ≤ x ∧ x < ln.var then (markRange s (nd.var + 1) ln.var).map ForInStep.done
        else some (.yield s)
      else if nd.low = 0 then
        if nd.var + 1 ≤ x ∧ x < hn.var then (markRange s (nd.var + 1) hn.var).map ForInStep.done
        else some (.yield s)
      else
        match setTrue s nd.var with
        | none => none
        | some s1 =>
          if nd.var ≤ x ∧ x < max hn.var ln.var then (markRange s1 nd.var (max hn.var ln.var)).map ForInStep.done
          else some (.yield s1)
    | _, _ => none

theorem pass2Inner_eq (A : Arr) (x : Nat) : ∀ (xs : List Nat) (s : Array Bool),
    pass2Inner A x xs s = foldBrk (p2Inner A x) xs s := by
  intro xs
  induction xs with
  | nil => intro s; rfl
  | cons id rest ih =>
    intro s
    unfold pass2Inner foldBrk p2Inner
    cases hA : A[id]? with
    | none => rfl
    | some nd =>
      simp only
      cases hh : A[nd.high]? with
      | none => rfl
      | some hn =>
        cases hl : A[nd.low]? with
        | none => rfl
        | some ln =>
          simp only
          by_cases h0 : nd.high = 0
          · simp only [h0, if_true]
            by_cases hc : nd.var + 1 ≤ x ∧ x < ln.var
            · simp only [hc, and_self, if_true]
              cases markRange s (nd.var + 1) ln.var <;> rfl
            · simp only [hc, if_false]; exact ih s
          · simp only [h0, if_false]
            by_cases h1 : nd.low = 0
            · simp only [h1, if_true]
              by_cases hc : nd.var + 1 ≤ x ∧ x < hn.var
              · simp only [hc, and_self, if_true]
                cases markRange s (nd.var + 1) hn.var <;> rfl
              · simp only [hc, if_false]; exact ih s
            · simp only [h1, if_false]
              cases hs : setTrue s nd.var with
              | none => rfl
              | some s1 =>
                simp only
                by_cases hc : nd.var ≤ x ∧ x < max hn.var ln.var
                · simp only [hc, and_self, if_true]
                  cases markRange s1 nd.var (max hn.var ln.var) <;> rfl
                · simp only [hc, if_false]; exact ih s1

def p2Step (A : Arr) (s : Array Bool) (x : Nat) : Option (Array Bool) :=
  match s[x]? with
  | none => none
  | some true => some s
  | some false => pass2Inner A x (ids A) s

theorem pass2_eq (A : Arr) (n : Nat) (any : Array Bool) : pass2 A n any = (List.range n).foldlM (p2Step A) any := rfl

def p3Step (A : Arr) (any : Array Bool) (st : Array Bool × Array Bool) (id : Nat) :
    Option (Array Bool × Array Bool) :=
  (A[id]?).bind fun nd =>
    match any[nd.var]? with
    | none => none
    | some true => some st
    | some false =>
      if nd.high = 0 then (setTrue st.1 nd.var).map fun z' => (z', st.2)
      else if nd.low = 0 then (setTrue st.2 nd.var).map fun o' => (st.1, o')
      else some st

theorem pass3_eq (A : Arr) (any z o : Array Bool) : pass3 A any z o = (ids A).foldlM (p3Step A any) (z, o) := rfl

def asmStep (any z o : Array Bool) (c : Clause) (i : Nat) : Option Clause :=
  match z[i]?, o[i]?, any[i]? with
  | some zi, some oi, some ai =>
    if ai || (zi && oi) then some c
    else if zi then some (setC c i false)
    else if oi then some (setC c i true)
    else none
  | _, _, _ => none

theorem assemble_eq (any z o : Array Bool) (n : Nat) :
    assemble any z o n = (List.range n).foldlM (asmStep any z o) [] := rfl

/-! ### the six loops in sequence -/

/-- the translated function after unfolding, with its loop bodies abstracted, is the hand model as soon as every
    body simulates the corresponding step of the hand model -/
theorem nec_split (A : Arr) (h1 : A.size ≠ 1) (h2 : A.size ≠ 2) (hv : numVars A ≤ 65536)
    (b0 b1 b2 : Nat → Array Bool → Outcome (ForInStep (Array Bool)))
    (b3 : Array Bool → Nat → Array Bool × Array Bool → Outcome (ForInStep (Array Bool × Array Bool)))
    (b4 : Array Bool → Array Bool × Array Bool → Nat → Array (Option Bool) →
      Outcome (ForInStep (Array (Option Bool))))
    (H0 : ∀ i s, StepRel id (b0 i s) (setTrue s i))
    (H1 : ∀ i s, StepRel id (b1 i s) (p1Step A s i))
    (H2 : ∀ x s, StepRel id (b2 x s) (p2Step A s x))
    (H3 : ∀ any i st, StepRel Prod.swap (b3 any i st) (p3Step A any st.swap i))
    (H4 : ∀ any zo i c, i < 65536 → StepRel Array.toList (b4 any zo i c) (asmStep any zo.2 zo.1 c.toList i)) :
    selC (Algo.Bdd_var_of A (root A) >>= fun top =>
      if (decide (0 > top) || decide (top > (Rust.vecRepeat false (numVars A) : Array Bool).size)) = true
      then Outcome.panic "slice index out of range"
      else
        iterL b0 (List.range' 0 (top - 0)) (Rust.vecRepeat false (numVars A)) >>= fun s0 =>
        iterL b1 (List.range' 2 (A.size - 2)) s0 >>= fun s1 =>
        iterL b2 (List.range' 0 (numVars A - 0)) s1 >>= fun s2 =>
        iterL (b3 s2) (List.range' 2 (A.size - 2))
          (Rust.vecRepeat false (numVars A), Rust.vecRepeat false (numVars A)) >>= fun zo =>
        iterL (b4 s2 zo) (List.range' 0 (numVars A - 0)) Algo.BddPartialValuation_empty >>= fun r =>
        pure (some r)) = necessaryClause A := by
  unfold necessaryClause Select.isFalse Select.isTrue
  simp only [beq_iff_eq, h1, h2, if_false]
  rw [var_of_eq]
  cases hrt : A[root A]? with
  | none => rfl
  | some rt =>
    simp only [bind_ok, Option.bind_some, Rust.vecRepeat, Array.size_replicate, Nat.sub_zero]
    by_cases htop : rt.var > numVars A
    · have hnone : markRange (Array.replicate (numVars A) false) 0 rt.var = none := by
        unfold markRange
        refine foldlM_setTrue_none _ _ (numVars A) ?_ (by simp)
        rw [List.mem_range'_1]; omega
      rw [hnone]
      simp [htop, selC, ofOpt]
    · have hc : (decide (0 > rt.var) || decide (rt.var > numVars A)) = false := by simp [htop]
      rw [hc]
      simp only [Bool.false_eq_true, if_false]
      -- the six loops
      have R0 : RelO (iterL b0 (List.range' 0 rt.var) (Array.replicate (numVars A) false))
          (markRange (Array.replicate (numVars A) false) 0 rt.var) := by
        unfold markRange
        rw [Nat.sub_zero]
        exact relO_of_map_id (iterL_rel b0 setTrue id _ (fun i _ s => H0 i s) _)
      have R1 : ∀ s, RelO (iterL b1 (List.range' 2 (A.size - 2)) s) (pass1 A s) := fun s =>
        relO_of_map_id (iterL_rel b1 (p1Step A) id _ (fun i _ s => H1 i s) s)
      have R2 : ∀ s, RelO (iterL b2 (List.range' 0 (numVars A)) s) (pass2 A (numVars A) s) := fun s => by
        rw [pass2_eq, List.range_eq_range']
        exact relO_of_map_id (iterL_rel b2 (p2Step A) id _ (fun i _ s => H2 i s) s)
      have R3 : ∀ any, RelO ((iterL (b3 any) (List.range' 2 (A.size - 2))
            (Array.replicate (numVars A) false, Array.replicate (numVars A) false)).map Prod.swap)
          (pass3 A any (Array.replicate (numVars A) false) (Array.replicate (numVars A) false)) := fun any => by
        rw [pass3_eq]
        exact iterL_rel (b3 any) (p3Step A any) Prod.swap _ (fun i _ st => H3 any i st)
          (Array.replicate (numVars A) false, Array.replicate (numVars A) false)
      have R4 : ∀ any zo, RelO ((iterL (b4 any zo) (List.range' 0 (numVars A)) Algo.BddPartialValuation_empty).map
            Array.toList) (assemble any zo.2 zo.1 (numVars A)) := fun any zo => by
        rw [assemble_eq, List.range_eq_range']
        refine iterL_rel (b4 any zo) (asmStep any zo.2 zo.1) Array.toList _ (fun i hi c => H4 any zo i c ?_)
          Algo.BddPartialValuation_empty
        rw [List.mem_range'_1] at hi; omega
      generalize iterL b0 (List.range' 0 rt.var) (Array.replicate (numVars A) false) = x0 at R0
      generalize markRange (Array.replicate (numVars A) false) 0 rt.var = y0 at R0
      cases R0 with
      | panic m => rfl
      | ok s0 =>
        simp only [bind_ok, Option.bind_some]
        have r1 := R1 s0
        generalize iterL b1 (List.range' 2 (A.size - 2)) s0 = x1 at r1
        generalize pass1 A s0 = y1 at r1
        cases r1 with
        | panic m => rfl
        | ok s1 =>
          simp only [bind_ok, Option.bind_some]
          have r2 := R2 s1
          generalize iterL b2 (List.range' 0 (numVars A)) s1 = x2 at r2
          generalize pass2 A (numVars A) s1 = y2 at r2
          cases r2 with
          | panic m => rfl
          | ok s2 =>
            simp only [bind_ok, Option.bind_some]
            rcases relO_map_inv (R3 s2) with ⟨zo, e1, e2⟩ | ⟨⟨m, e1⟩, e2⟩
            · rw [e1, e2]
              simp only [bind_ok, Option.bind_some]
              rcases relO_map_inv (R4 s2 zo) with ⟨r, e3, e4⟩ | ⟨⟨m, e3⟩, e4⟩
              · rw [e3]
                have : assemble s2 zo.swap.1 zo.swap.2 (numVars A) = some r.toList := e4
                rw [this]; rfl
              · rw [e3]
                have : assemble s2 zo.swap.1 zo.swap.2 (numVars A) = none := e4
                rw [this]; rfl
            · rw [e1, e2]; rfl

/-! ### the loop bodies of the translated function -/

theorem setIdx_true_cases (s : Array Bool) (i : Nat) :
    (∃ s', Rust.setIdx s i true = .ok s' ∧ setTrue s i = some s') ∨
    ((∃ m, Rust.setIdx s i true = .panic m) ∧ setTrue s i = none) := by
  have := setTrue_rel s i
  generalize Rust.setIdx s i true = r at this
  generalize setTrue s i = o at this
  cases this with
  | ok a => exact Or.inl ⟨a, rfl, rfl⟩
  | panic m => exact Or.inr ⟨⟨m, rfl⟩, rfl⟩

theorem mark_branch (g : Nat → Array Bool → Outcome (ForInStep (Array Bool)))
    (hg : ∀ v s, g v s = (Rust.setIdx s v true >>= fun s' => Outcome.ok (ForInStep.yield s')))
    (lo hi x : Nat) (s : Array Bool) :
    RelO (if (Rust.rangeArr lo hi).contains x = true
        then (iterL g (Rust.rangeArr lo hi).toList s >>= fun s' => Outcome.ok (ForInStep.done s'))
        else Outcome.ok (ForInStep.yield s))
      (if lo ≤ x ∧ x < hi then Option.map ForInStep.done (markRange s lo hi) else some (ForInStep.yield s)) := by
  rw [rangeArr_contains, rangeArr_toList]
  by_cases h : lo ≤ x ∧ x < hi
  · simp only [h, and_self, decide_true, if_true]
    have := mark_loop g hg lo hi s
    generalize iterL g (List.range' lo (hi - lo)) s = r at this
    generalize markRange s lo hi = o at this
    cases this with
    | ok a => exact RelO.ok _
    | panic m => exact RelO.panic _
  · simp only [h, decide_false, Bool.false_eq_true, if_false]
    exact RelO.ok _

/-- **necessary_clause: translated code = hand model**, for every non-empty array of at most `2^32` nodes over at
    most `2^16` variables (also the malformed ones: the index / slice / `unreachable!()` panics of the translated
    code are exactly the `Sel.panic` of the hand model) -/
theorem Bdd_necessary_clause_eq_model (A : Arr) (h0 : 0 < A.size) (hs : A.size ≤ 4294967296)
    (hv : numVars A ≤ 65536) :
    selC (Algo2.Bdd_necessary_clause A) = necessaryClause A := by
  by_cases h1 : A.size = 1
  · unfold Algo2.Bdd_necessary_clause Algo.Bdd_is_false necessaryClause Select.isFalse
    simp [h1, selC]
  by_cases h2 : A.size = 2
  · unfold Algo2.Bdd_necessary_clause Algo.Bdd_is_false Algo.Bdd_is_true necessaryClause Select.isFalse Select.isTrue
    simp [h2, selC, Algo.BddPartialValuation_empty]
  unfold Algo2.Bdd_necessary_clause Algo.Bdd_is_false Algo.Bdd_is_true
  simp only [forIn_range_eq_iterL, forIn_array_eq_iterL, skip_pointers_toList A hs, root_pointer_eq A h0 hs,
    num_vars_eq A h0, bind_ok, bind_panic, beq_iff_eq, h1, h2, if_false]
  refine nec_split A h1 h2 hv _ _ _ _ _ ?_ ?_ ?_ ?_ ?_
  · intro i s
    rcases setIdx_true_cases s i with ⟨s', e1, e2⟩ | ⟨⟨m, e1⟩, e2⟩
    · have hi : i < s.size := by
        unfold setTrue at e2; by_cases h : i < s.size; exact h; simp [h] at e2
      rw [e1, e2, idx_of_lt s i hi]
      exact Or.inl ⟨_, rfl, rfl⟩
    · have hi : ¬ i < s.size := by
        unfold setTrue at e2; intro h; simp [h] at e2
      rw [e2, idx_eq, Array.getElem?_eq_none (by omega)]
      exact Or.inr ⟨⟨_, rfl⟩, rfl⟩
  · intro i s
    simp only [var_of_eq, low_link_eq, high_link_eq, is_zero_eq, pure_eq, p1Step]
    cases hA : A[i]? with
    | none => exact Or.inr ⟨⟨_, rfl⟩, rfl⟩
    | some nd =>
      simp only [bind_ok, Option.bind_some]
      by_cases hc : nd.low = 0 ∨ nd.high = 0
      · have : (!(decide (nd.low = 0) || decide (nd.high = 0))) = false := by rcases hc with h | h <;> simp [h]
        have h' : (!(nd.low == 0 || nd.high == 0)) = false := by rcases hc with h | h <;> simp [h]
        simp only [this, h', Bool.false_eq_true, if_false]
        exact Or.inl ⟨_, rfl, rfl⟩
      · have hc' := not_or.mp hc
        have : (!(decide (nd.low = 0) || decide (nd.high = 0))) = true := by simp [hc'.1, hc'.2]
        have h' : (!(nd.low == 0 || nd.high == 0)) = true := by simp [hc'.1, hc'.2]
        simp only [this, h', if_true]
        rcases setIdx_true_cases s nd.var with ⟨s', e1, e2⟩ | ⟨⟨m, e1⟩, e2⟩
        · rw [e1, e2]; exact Or.inl ⟨_, rfl, rfl⟩
        · rw [e1, e2]; exact Or.inr ⟨⟨_, rfl⟩, rfl⟩
  · intro x s
    simp only [idx_eq, p2Step]
    cases hx : s[x]? with
    | none => exact Or.inr ⟨⟨_, rfl⟩, rfl⟩
    | some b =>
      cases b with
      | true => exact Or.inl ⟨_, rfl, rfl⟩
      | false =>
        simp only [bind_ok, Bool.false_eq_true, if_false, pure_eq]
        refine stepRel_of_relO ?_
        rw [pass2Inner_eq]
        refine iterL_relB _ _ _ (fun i _ s => ?_) s
        simp only [var_of_eq, low_link_eq, high_link_eq, is_zero_eq, p2Inner]
        cases hA : A[i]? with
        | none => exact RelO.panic _
        | some nd =>
          simp only [bind_ok]
          cases hh : A[nd.high]? with
          | none => exact RelO.panic _
          | some hn =>
            cases hl : A[nd.low]? with
            | none => exact RelO.panic _
            | some ln =>
              simp only [bind_ok]
              by_cases hh0 : nd.high = 0
              · simp only [hh0, decide_true, if_true]
                exact mark_branch _ (fun _ _ => rfl) _ _ _ _
              · simp only [hh0, decide_false, Bool.false_eq_true, if_false]
                by_cases hl0 : nd.low = 0
                · simp only [hl0, decide_true, if_true]
                  exact mark_branch _ (fun _ _ => rfl) _ _ _ _
                · simp only [hl0, decide_false, Bool.false_eq_true, if_false]
                  rcases setIdx_true_cases s nd.var with ⟨s', e1, e2⟩ | ⟨⟨m, e1⟩, e2⟩
                  · rw [e1, e2]
                    exact mark_branch _ (fun _ _ => rfl) _ _ _ _
                  · rw [e1, e2]; exact RelO.panic _
  · intro any i st
    obtain ⟨o, z⟩ := st
    simp only [var_of_eq, low_link_eq, high_link_eq, is_zero_eq, pure_eq, p3Step, idx_eq, Prod.swap]
    cases hA : A[i]? with
    | none => exact Or.inr ⟨⟨_, rfl⟩, rfl⟩
    | some nd =>
      simp only [bind_ok, Option.bind_some]
      cases ha : any[nd.var]? with
      | none => exact Or.inr ⟨⟨_, rfl⟩, rfl⟩
      | some b =>
        cases b with
        | true => exact Or.inl ⟨_, rfl, rfl⟩
        | false =>
          simp only [bind_ok, Bool.not_false, if_true]
          by_cases hh0 : nd.high = 0
          · simp only [hh0, decide_true, if_true]
            rcases setIdx_true_cases z nd.var with ⟨s', e1, e2⟩ | ⟨⟨m, e1⟩, e2⟩
            · rw [e1, e2]; exact Or.inl ⟨_, rfl, rfl⟩
            · rw [e1, e2]; exact Or.inr ⟨⟨_, rfl⟩, rfl⟩
          · simp only [hh0, decide_false, Bool.false_eq_true, if_false]
            by_cases hl0 : nd.low = 0
            · simp only [hl0, decide_true, if_true]
              rcases setIdx_true_cases o nd.var with ⟨s', e1, e2⟩ | ⟨⟨m, e1⟩, e2⟩
              · rw [e1, e2]; exact Or.inl ⟨_, rfl, rfl⟩
              · rw [e1, e2]; exact Or.inr ⟨⟨_, rfl⟩, rfl⟩
            · simp only [hl0, decide_false, Bool.false_eq_true, if_false]
              exact Or.inl ⟨_, rfl, rfl⟩
  · intro any zo i c hi
    have hu : Rust.asU16 i = i := Nat.mod_eq_of_lt hi
    simp only [idx_eq, pure_eq, asmStep, hu]
    cases hz : zo.2[i]? with
    | none => exact Or.inr ⟨⟨_, rfl⟩, rfl⟩
    | some zi =>
      cases ho : zo.1[i]? with
      | none => exact Or.inr ⟨⟨_, rfl⟩, rfl⟩
      | some oi =>
        cases ha : any[i]? with
        | none => exact Or.inr ⟨⟨_, rfl⟩, rfl⟩
        | some ai =>
          cases zi <;> cases oi <;> cases ai
          all_goals first
            | exact Or.inl ⟨_, rfl, rfl⟩
            | exact Or.inl ⟨_, rfl, by simp [pvalSetValue_toList]⟩
            | exact Or.inr ⟨⟨_, rfl⟩, rfl⟩

/-- whenever the hand model returns a clause, so does the translated code -/
theorem Bdd_necessary_clause_some (A : Arr) (c : Clause) (h : necessaryClause A = Sel.some c) (h0 : 0 < A.size)
    (hs : A.size ≤ 4294967296) (hv : numVars A ≤ 65536) :
    Algo2.Bdd_necessary_clause A = .ok (some c.toArray) :=
  selC_some ((Bdd_necessary_clause_eq_model A h0 hs hv).trans h)

theorem Bdd_necessary_clause_none (A : Arr) (h1 : A.size = 1) : Algo2.Bdd_necessary_clause A = .ok none := by
  unfold Algo2.Bdd_necessary_clause Algo.Bdd_is_false
  simp [h1]

/-- the empty vector is outside the hand model's domain: the Rust code panics in `num_vars()` -/
theorem Bdd_necessary_clause_empty : ∃ m, Algo2.Bdd_necessary_clause #[] = .panic m := by
  refine ⟨"index out of bounds", ?_⟩
  unfold Algo2.Bdd_necessary_clause
  rw [num_vars_empty #[] rfl]; rfl

end B.AlgoEq2Sel
