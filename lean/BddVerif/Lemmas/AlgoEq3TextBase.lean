import BddVerif.Gen.Algo3
import BddVerif.Lemmas.AlgoEq2Bytes
import BddVerif.Lemmas.SerialDecimal
import BddVerif.Lemmas.SerialUtf8
import BddVerif.Lemmas.SerialText
/-!
# Characters, strings and numbers of `Gen/RustShimStr.lean` are those of `Model/Serial.lean`

The translated text serialisation (`Gen/Algo3.lean`: `Bdd_write_as_string`, `Bdd_read_as_string`, `Bdd_from_string`,
`Bdd_fmt`) runs on the hand-written shim `Gen/RustShimStr.lean` (Lean `String`s, `toString : Nat → String`,
`Rust.parseU16/U32`, `Rust.splitChars`, `Rust.utf8Dec`, `Rust.charIsWhitespace`). The property theorems C12/C13 are about
`Model/Serial.lean` (lists of characters, `showNat`, `parseUInt`, `splitOn`, `utf8DecNat`, `isWhitespace`). The two
were written independently; this file relates them, on ALL inputs:

* `toString_nat_toList` — `Display for u16/u32`: `(toString n).toList = Serial.showNat n`;
* `parseUnsigned_eq` — `str::parse::<uN>`: the shim's `Except ParseIntError Nat` forgets to `Serial.parseUInt`'s `Option`;
* `splitChars_eq`, `strSplit_toList`, `ws_eq` — `str::split(char)`, `char::is_whitespace`;
* `utf8Dec_eq` — the two strict UTF-8 decoders (differently phrased range tests) agree on every list of numbers;
  `utf8Bytes_toList`, `utf8Bytes_ascii` — `str::as_bytes`.
-/
namespace B.AlgoEq3Text
open B B.Gen B.AlgoEqUtil B.AlgoEq2Bytes

/-! ### `Display` of unsigned integers -/

theorem digitChar_eq : ∀ d, d < 10 → Nat.digitChar d = Serial.digitChar d := by decide

theorem toDigits_eq_showNat : ∀ n, Nat.toDigits 10 n = Serial.showNat n := by
  intro n
  induction n using Nat.strongRecOn with
  | _ n ih =>
    by_cases h : n < 10
    · rw [Serial.showNat_lt h, Nat.toDigits_of_lt_base h, digitChar_eq n h]
    · have h' : 10 ≤ n := by omega
      rw [Serial.showNat_ge h', ← ih (n / 10) (by omega), ← digitChar_eq _ (Nat.mod_lt n (by omega)),
        ← Nat.toDigits_of_lt_base (b := 10) (Nat.mod_lt n (by omega)),
        Nat.toDigits_append_toDigits (by omega) (by omega) (Nat.mod_lt n (by omega))]
      congr 1; omega

/-- **`format!("{}", n)` for an unsigned integer is the decimal printer of the model** -/
theorem toString_nat_toList (n : Nat) : (toString n).toList = Serial.showNat n := by
  show (Nat.repr n).toList = _
  rw [Nat.repr, String.toList_ofList, toDigits_eq_showNat]

theorem toString_nat_eq (n : Nat) : toString n = String.ofList (Serial.showNat n) := by
  rw [← toString_nat_toList, String.ofList_toList]

/-! ### whitespace, `split` -/

theorem ws_eq (c : Char) : Rust.charIsWhitespace c = Serial.isWhitespace c := rfl

theorem splitChars_eq (sep : Char) : ∀ s, Rust.splitChars sep s = Serial.splitOn sep s := by
  intro s
  induction s with
  | nil => rfl
  | cons c cs ih =>
    simp only [Rust.splitChars, Serial.splitOn, ih]
    by_cases h : c = sep <;> simp [h]
    cases Serial.splitOn sep cs <;> rfl

/-- `s.split(sep)` as lists of characters -/
theorem strSplit_toList (s : String) (sep : Char) :
    (Rust.strSplit s sep).toList.map String.toList = Serial.splitOn sep s.toList := by
  unfold Rust.strSplit
  rw [splitChars_eq]
  simp [Function.comp_def, String.toList_ofList]

theorem strSplit_size (s : String) (sep : Char) : (Rust.strSplit s sep).size = (Serial.splitOn sep s.toList).length := by
  rw [← strSplit_toList]; simp

theorem strRetain_toList (s : String) (f : Char → Bool) : (Rust.strRetain s f).toList = s.toList.filter f := by
  unfold Rust.strRetain; rw [String.toList_ofList]

theorem isEmpty_eq (s : String) : s.isEmpty = s.toList.isEmpty := by
  rw [Bool.eq_iff_iff, String.isEmpty_iff, List.isEmpty_iff, String.toList_eq_nil_iff]

/-! ### `str::parse::<u16/u32>` -/

/-- forget the error kind -/
def exOpt {ε α} : Except ε α → Option α
  | .ok a => some a
  | .error _ => none

theorem isDigit_iff (c : Char) : c.isDigit = true ↔ 48 ≤ c.toNat ∧ c.toNat ≤ 57 := by
  simp only [Char.isDigit, Bool.and_eq_true, decide_eq_true_eq, ge_iff_le]
  rfl

theorem parseDigits_eq (max : Nat) : ∀ (cs : List Char) (acc : Nat),
    exOpt (Rust.parseDigits max acc cs) = Serial.parseDigits max acc cs := by
  intro cs
  induction cs with
  | nil => intro acc; rfl
  | cons c cs ih =>
    intro acc
    simp only [Rust.parseDigits, Serial.parseDigits, Serial.digitVal?]
    by_cases h : c.isDigit = true
    · have h' := (isDigit_iff c).1 h
      simp only [h, h', and_self, if_true]
      by_cases hv : acc * 10 + (c.toNat - 48) > max
      · have : ¬ acc * 10 + (c.toNat - 48) ≤ max := by omega
        simp only [hv, this, if_true, if_false]; rfl
      · have : acc * 10 + (c.toNat - 48) ≤ max := by omega
        simp only [hv, this, if_true, if_false]; exact ih _
    · have h' : ¬ (48 ≤ c.toNat ∧ c.toNat ≤ 57) := fun hc => h ((isDigit_iff c).2 hc)
      simp only [h, h', if_false, Bool.false_eq_true]; rfl

/-- **`str::parse::<uN>()` of the shim = the decimal grammar of the model**, every string, every bound -/
theorem parseUnsigned_eq (max : Nat) (s : String) :
    exOpt (Rust.parseUnsigned max s) = Serial.parseUInt max s.toList := by
  unfold Rust.parseUnsigned Serial.parseUInt
  generalize s.toList = cs
  split
  · rfl
  · simp [exOpt]
  · simp [exOpt]
  · rename_i cs' hne
    cases cs' with
    | nil => exact absurd rfl hne
    | cons d ds => simp only [if_true]; exact parseDigits_eq max _ 0
  · rename_i h1 h2 h3 h4
    match cs, h1, h2, h3, h4 with
    | [], h1, _, _, _ => exact absurd rfl h1
    | [c], _, h2, h3, _ =>
      have hp : c ≠ '+' := fun e => h2 (by rw [e])
      have hm : c ≠ '-' := fun e => h3 (by rw [e])
      simp only [hp, hm, or_self, if_false]; exact parseDigits_eq max _ 0
    | c :: d :: ds, _, _, _, h4 =>
      have hp : c ≠ '+' := fun e => h4 (d :: ds) (by rw [e])
      simp only [hp, if_false]; exact parseDigits_eq max _ 0

theorem parseU16_eq (s : String) : exOpt (Rust.parseU16 s) = Serial.parseUInt Serial.u16Max s.toList :=
  parseUnsigned_eq 65535 s

theorem parseU32_eq (s : String) : exOpt (Rust.parseU32 s) = Serial.parseUInt Serial.u32Max s.toList :=
  parseUnsigned_eq 4294967295 s

/-! ### UTF-8 -/

theorem encChar_eq (c : Char) : Rust.utf8EncChar c = Serial.utf8EncChar c := rfl

theorem cond3 (b0 b1 b2 : Nat) :
    ((if b0 == 0xE0 then decide (0xA0 ≤ b1) && decide (b1 ≤ 0xBF) else if b0 == 0xED then decide (0x80 ≤ b1) && decide (b1 ≤ 0x9F)
        else Rust.isCont b1) && Rust.isCont b2) =
    (Serial.isCont b1 && Serial.isCont b2 && (b0 != 0xE0 || decide (0xA0 ≤ b1)) && (b0 != 0xED || decide (b1 ≤ 0x9F))) := by
  rw [Bool.eq_iff_iff]
  by_cases h1 : b0 = 0xE0
  · subst h1; simp [Rust.isCont, Serial.isCont]; omega
  · by_cases h2 : b0 = 0xED
    · subst h2; simp [Rust.isCont, Serial.isCont]; omega
    · simp [Rust.isCont, Serial.isCont, h1, h2]

theorem cond4 (b0 b1 b2 b3 : Nat) :
    ((if b0 == 0xF0 then decide (0x90 ≤ b1) && decide (b1 ≤ 0xBF) else if b0 == 0xF4 then decide (0x80 ≤ b1) && decide (b1 ≤ 0x8F)
        else Rust.isCont b1) && Rust.isCont b2 && Rust.isCont b3) =
    (Serial.isCont b1 && Serial.isCont b2 && Serial.isCont b3 && (b0 != 0xF0 || decide (0x90 ≤ b1)) &&
      (b0 != 0xF4 || decide (b1 ≤ 0x8F))) := by
  rw [Bool.eq_iff_iff]
  by_cases h1 : b0 = 0xF0
  · subst h1; simp [Rust.isCont, Serial.isCont]; omega
  · by_cases h2 : b0 = 0xF4
    · subst h2; simp [Rust.isCont, Serial.isCont]; omega
    · simp [Rust.isCont, Serial.isCont, h1, h2]

theorem and_dec (p q : Prop) [Decidable p] [Decidable q] : (decide p && decide q) = decide (p ∧ q) := by simp

theorem utf8Dec_eq_aux : ∀ (n : Nat) (bs : List Nat), bs.length ≤ n → Rust.utf8Dec bs = Serial.utf8DecNat bs := by
  intro n
  induction n with
  | zero => intro bs h; cases bs with
    | nil => rw [Rust.utf8Dec.eq_def, Serial.utf8DecNat.eq_def]
    | cons b bs => simp at h
  | succ n ih =>
    intro bs h
    cases bs with
    | nil => rw [Rust.utf8Dec.eq_def, Serial.utf8DecNat.eq_def]
    | cons b0 rest =>
      simp only [List.length_cons] at h
      rw [Rust.utf8Dec.eq_def, Serial.utf8DecNat.eq_def]
      simp only [and_dec]
      by_cases h1 : b0 < 0x80
      · simp only [h1, if_true]; rw [ih rest (by omega)]
      · simp only [h1, if_false]
        by_cases h2 : 0xC2 ≤ b0 ∧ b0 ≤ 0xDF
        · simp only [h2, and_self, if_true, decide_true]
          cases rest with
          | nil => rfl
          | cons b1 r => simp only; rw [ih r (by simp at h; omega)]; rfl
        · simp only [h2, if_false, decide_false, Bool.false_eq_true]
          by_cases h3 : 0xE0 ≤ b0 ∧ b0 ≤ 0xEF
          · simp only [h3, and_self, if_true, decide_true]
            match rest, h with
            | [], _ => rfl
            | [_], _ => rfl
            | b1 :: b2 :: r, h =>
              simp only [← and_dec, cond3]
              rw [ih r (by simp at h; omega)]
          · simp only [h3, if_false, decide_false, Bool.false_eq_true]
            by_cases h4 : 0xF0 ≤ b0 ∧ b0 ≤ 0xF4
            · simp only [h4, and_self, if_true, decide_true]
              match rest, h with
              | [], _ => rfl
              | [_], _ => rfl
              | [_, _], _ => rfl
              | b1 :: b2 :: b3 :: r, h =>
                simp only [← and_dec, cond4]
                rw [ih r (by simp at h; omega)]
            · simp only [h4, if_false, decide_false, Bool.false_eq_true]

/-- **the strict UTF-8 decoder of the shim = the decoder of the model**, on every list of numbers -/
theorem utf8Dec_eq (bs : List Nat) : Rust.utf8Dec bs = Serial.utf8DecNat bs := utf8Dec_eq_aux _ bs (Nat.le_refl _)

/-- bytes of the shim that are bytes (`< 256`) survive the passage through `UInt8` -/
theorem map_byteOf_toNat' (l : List Nat) (h : ∀ b ∈ l, b < 256) : (l.map byteOf).map (·.toNat) = l :=
  map_toNat_byteOf l h

/-- decoding the shim's bytes = `Serial.utf8Decode` of the model's bytes -/
theorem utf8Dec_repr (bs : List Nat) (h : ∀ b ∈ bs, b < 256) : Rust.utf8Dec bs = Serial.utf8Decode (bs.map byteOf) := by
  unfold Serial.utf8Decode
  rw [map_byteOf_toNat' bs h, utf8Dec_eq]

/-- `str::as_bytes` -/
theorem utf8Bytes_toList (s : String) : (Rust.utf8Bytes s).toList = s.toList.flatMap Serial.utf8EncChar := by
  unfold Rust.utf8Bytes
  simp only
  rfl

theorem utf8Bytes_lt (s : String) : ∀ b ∈ (Rust.utf8Bytes s).toList, b < 256 := by
  intro b hb
  rw [utf8Bytes_toList, List.mem_flatMap] at hb
  obtain ⟨c, _, hc⟩ := hb
  exact Serial.utf8EncChar_lt c b hc

theorem utf8Bytes_model (s : String) : (Rust.utf8Bytes s).toList.map byteOf = Serial.utf8Encode s.toList := by
  rw [utf8Bytes_toList]; rfl

/-- the bytes of an ASCII string, as the model writes them -/
theorem utf8Bytes_ascii (cs : List Char) (h : ∀ c ∈ cs, c.toNat < 0x80) :
    (Rust.utf8Bytes (String.ofList cs)).toList.map byteOf = Serial.asciiBytes cs := by
  rw [utf8Bytes_model, String.toList_ofList, Serial.utf8Encode_ascii cs h]

/-- `String::from_utf8(s.as_bytes())` gives the string back -/
theorem stringFromUtf8_utf8 (cs : List Char) :
    Rust.stringFromUtf8 (cs.flatMap Serial.utf8EncChar).toArray = .ok (String.ofList cs) := by
  unfold Rust.stringFromUtf8
  simp only
  rw [utf8Dec_eq, Serial.utf8DecNat_flatMap_enc]

end B.AlgoEq3Text
