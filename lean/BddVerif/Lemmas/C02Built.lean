import BddVerif.Lemmas.CanonicalComplete
import BddVerif.Lemmas.TernaryCanon
import BddVerif.Lemmas.Ternary5
/-!
Helper lemmas for C02: a canonical array is a well-formed operand, its level-fuelled and
index-fuelled denotations agree, and the canonical-form theorems of the operators restated for
`Canonical` operands/results.
-/
namespace B.C02
open B

theorem wfo_mkFalse (n : Nat) : WFo (mkFalse n) n := by
  refine ⟨rfl, ?_, ?_⟩
  · intro h; simp [mkFalse] at h
  · intro p nd hp h
    have : (mkFalse n)[p]? = none := Array.getElem?_eq_none (by simp [mkFalse]; omega)
    rw [this] at h; cases h

theorem wfo_of_red {A : Arr} {n : Nat} (h : Red A n) (hp : Prefix (mkTrue n) A) : WFo A n := by
  refine ⟨?_, ?_, ?_⟩
  · rw [hp.2 0 (by simp [mkTrue])]; rfl
  · intro _; rw [hp.2 1 (by simp [mkTrue])]; rfl
  · intro p nd hp2 hnd
    have hps : p < A.size := by
      rcases Nat.lt_or_ge p A.size with h' | h'
      · exact h'
      · simp [Array.getElem?_eq_none h'] at hnd
    obtain ⟨a, b, c, _, d, e⟩ := h.inner p nd hp2 hnd
    exact ⟨a, by omega, by omega, d, e⟩

/-- every canonical array is a well-formed operand over its own variable count -/
theorem Canonical.wfo {A : Arr} (h : Canonical A) : WFo A (numVars A) := by
  rcases h.cases with ⟨e, _⟩ | ⟨hred, hpre, _⟩
  · have := wfo_mkFalse (numVars A); rw [← e] at this; exact this
  · exact wfo_of_red hred hpre

theorem evW_eq_ev {A : Arr} {n : Nat} (hr : Red A n) (hw : WFo A n) (v : Nat → Bool) :
    ∀ m p, p < A.size → p ≤ m → evW A n v p = ev A v p := by
  intro m
  induction m with
  | zero =>
    intro p _ hp0
    have : p = 0 := by omega
    subst this; rw [evW_zero, ev_zero]
  | succ m ih =>
    intro p hp hpm
    by_cases h0 : p = 0
    · subst h0; rw [evW_zero, ev_zero]
    by_cases h1 : p = 1
    · subst h1; rw [evW_one, ev_one]
    have hp2 : 2 ≤ p := by omega
    have hnd : A[p]? = some A[p] := by simp [hp]
    obtain ⟨_, hl, hh, _, _, _⟩ := hr.inner p A[p] hp2 hnd
    rw [evW_node hw v p hp2 _ hnd, ev_node hr v p hp2 _ hnd]
    split
    · exact ih _ (by omega) (by omega)
    · exact ih _ (by omega) (by omega)

/-- for a canonical array the operand denotation used by the operator theorems is `den` -/
theorem Canonical.evW_root {A : Arr} (h : Canonical A) (v : Nat → Bool) :
    evW A (numVars A) v (root A) = den A v := by
  rcases h.cases with ⟨e, hf⟩ | ⟨hred, hpre, _⟩
  · rw [hf v]
    have : root A = 0 := by rw [e]; rfl
    rw [this, evW_zero]
  · have hs := hred.size2
    exact evW_eq_ev hred (wfo_of_red hred hpre) v (root A) (root A) (by unfold root; omega) (Nat.le_refl _)

end B.C02
