import BddVerif.Lemmas.AlgoEq2RelPickRec
/-!
Equivalence "translated Rust = hand-written model", second generated file (`Gen/Algo2.lean`), part 5:
the panic cases of `var_pick`, `var_pick_random`, `pick`, `pick_random` (a variable `≥ num_vars`), the combined
statements against the hand models with explicit panics (`varPickO`, `pickO`, …), and non-vacuity examples for the
picking theorems.

In the Rust code `var_pick(x)` evaluates `self.var_select(x, false)` BEFORE `fused_binary_flip_op` checks the flip bounds;
for `x ≥ num_vars` that inner `and` runs on an ill-formed literal (it may not even terminate in Rust). The translated
code is fuel-bounded, and whatever the inner call yields the outer call panics: `apply_with_flip` never returns `Err`
(`awf_noErr`), so the result is a panic (`"fuel"`, an index panic, or `check_flip_bounds`' message) for EVERY fuel.
`pick` / `pick_random` call `var_exists(last)` first, where `last` is the LARGEST listed variable, and panic in
`check_flip_bounds` (or with `"fuel"` when called with fuel 0).
-/
namespace B.AlgoEq2Rel
open B B.Gen Std
attribute [local instance 10000] Rust.monadOutcomeInline

/-! ### `apply_with_flip` never returns `Err` -/

theorem cstep_noErr (Γ : Ctx) (σ : AlgoEqA.LS) (m : String) : AlgoEqA.cstep Γ σ ≠ .err m := by
  obtain ⟨res, ne, ex, stk, fin⟩ := σ
  unfold AlgoEqA.cstep
  simp only []
  repeat' split
  all_goals (intro h; cases h)

theorem loopN_noErr {σ : Type} (step : σ → Outcome (ForInStep σ)) (h : ∀ s m, step s ≠ .err m) :
    ∀ (k : Nat) (s : σ) (m : String), AlgoEqA.loopN step k s ≠ .err m := by
  intro k
  induction k with
  | zero => intro s m e; cases e
  | succ k ih =>
    intro s m
    simp only [AlgoEqA.loopN]
    cases hs : step s with
    | ok r =>
      cases r with
      | done s' => intro e; cases e
      | yield s' => exact ih s' m
    | err m' => exact absurd hs (h s m')
    | panic m' => intro e; cases e

theorem flip_cases (n : Nat) (f : Option Nat) : (∀ x, f = some x → x < n) ∨ (∃ x, f = some x ∧ n ≤ x) := by
  cases f with
  | none => exact Or.inl (fun x h => by cases h)
  | some y =>
    by_cases h : y < n
    · exact Or.inl (fun x hx => by cases hx; exact h)
    · exact Or.inr ⟨y, rfl, by omega⟩

/-- the translated `apply_with_flip` has only two kinds of outcome: a value or a panic -/
theorem awf_noErr (fuel : Nat) (L R : Arr) (fl fr fo : Option Nat) (op : Op2) (m : String) :
    Algo.apply_with_flip fuel L R fl fr fo op ≠ .err m := by
  cases hL : L[0]? with
  | none =>
    rw [AlgoEqA.desugar fuel L R 0]
    unfold AlgoEqA.skel
    simp only [AlgoEqA.num_vars_eq, hL]
    intro h; cases h
  | some zl =>
    cases hR : R[0]? with
    | none =>
      rw [AlgoEqA.desugar fuel L R 0]
      unfold AlgoEqA.skel
      simp only [AlgoEqA.num_vars_eq, hL, hR, AlgoEqA.bind_ok]
      intro h; cases h
    | some zr =>
      by_cases hv : zr.var = zl.var
      · rcases flip_cases zl.var fl with h1 | ⟨x, hx, hn⟩
        · rcases flip_cases zl.var fr with h2 | ⟨x, hx, hn⟩
          · rcases flip_cases zl.var fo with h3 | ⟨x, hx, hn⟩
            · rw [AlgoEqA.desugar_ok fuel L R fl fr fo op zl zr hL hR hv h1 h2 h3]
              cases hl : AlgoEqA.loopN (AlgoEqA.cstep ⟨L, R, zl.var, op, fl, fr, fo⟩) fuel
                  (AlgoEqA.initLS L R zl.var) with
              | ok σ =>
                show AlgoEqA.post zl.var σ ≠ _
                unfold AlgoEqA.post
                split
                · intro h; cases h
                · split <;> (intro h; cases h)
              | err m' => exact absurd hl (loopN_noErr _ (cstep_noErr _) _ _ _)
              | panic m' => intro h; cases h
            · rw [AlgoEqA.desugar_flip_panic fuel L R fl fr fo op zl zr hL hR hv ⟨x, Or.inr (Or.inr hx), hn⟩]
              intro h; cases h
          · rw [AlgoEqA.desugar_flip_panic fuel L R fl fr fo op zl zr hL hR hv ⟨x, Or.inr (Or.inl hx), hn⟩]
            intro h; cases h
        · rw [AlgoEqA.desugar_flip_panic fuel L R fl fr fo op zl zr hL hR hv ⟨x, Or.inl hx, hn⟩]
          intro h; cases h
      · rw [AlgoEqA.desugar_mismatch fuel L R fl fr fo op zl zr hL hR hv]
        intro h; cases h

/-- `var_select` never returns `Err` (any variable, any fuel) -/
theorem var_select_noErr (A : Arr) (n x : Nat) (b : Bool) (hA : WFo A n) (fuel : Nat) (m : String) :
    Algo2.Bdd_var_select fuel A x b ≠ .err m := by
  unfold Algo2.Bdd_var_select Algo2.Bdd_and Algo.apply
  rw [num_vars_ok hA]
  simp only [AlgoEqA.bind_ok]
  cases h : Algo.apply_with_flip fuel A (Algo.Bdd_mk_literal n x b) none none none and_ with
  | ok r => intro e; cases e
  | err m' => exact absurd h (awf_noErr _ _ _ _ _ _ _ _)
  | panic m' => intro e; cases e

/-! ### `var_pick`, `var_pick_random` on a variable `≥ num_vars` -/

/-- **panic case** of `var_pick`: for every fuel the translated code panics, and so does the hand model `varPickO` -/
theorem Bdd_var_pick_panics (A : Arr) (n x : Nat) (hA : WFo A n) (hx : n ≤ x) (fuel : Nat) :
    (∃ m, Algo2.Bdd_var_pick fuel A x = .panic m) ∧ (varPickO A x).isPanic = true := by
  constructor
  · unfold Algo2.Bdd_var_pick Algo.Bdd_fused_binary_flip_op
    cases hsel : Algo2.Bdd_var_select fuel A x false with
    | ok V =>
      simp only [AlgoEqA.bind_ok]
      obtain ⟨m, hm⟩ := awf_right_flip_panics A V ⟨n, 0, 0⟩ hA.zero x hx none none Gen.and_not_ fuel
      exact ⟨m, by first | (rw [hm]; done) | (rw [hm]; rfl)⟩
    | err m => exact absurd hsel (var_select_noErr A n x false hA fuel m)
    | panic m => exact ⟨m, rfl⟩
  · have hn : ¬ x < numVars A := by rw [numVars_of_wf hA]; omega
    simp [varPickO, hn, Outcome.isPanic]

theorem Bdd_var_pick_random_panics (A : Arr) (n x : Nat) (rng : List Bool) (hA : WFo A n) (hx : n ≤ x) (fuel : Nat) :
    (∃ m, Algo2.Bdd_var_pick_random fuel A x rng = .panic m) ∧
    (varPickRandomO A x (drawCoin rng).1).isPanic = true := by
  constructor
  · unfold Algo2.Bdd_var_pick_random Algo.Bdd_fused_binary_flip_op
    simp only []
    cases hsel : Algo2.Bdd_var_select fuel A x (Rust.genBool rng).1 with
    | ok V =>
      simp only [AlgoEqA.bind_ok]
      obtain ⟨m, hm⟩ := awf_right_flip_panics A V ⟨n, 0, 0⟩ hA.zero x hx none none Gen.and_not_ fuel
      exact ⟨m, by first | (rw [hm]; done) | (rw [hm]; rfl)⟩
    | err m => exact absurd hsel (var_select_noErr A n x _ hA fuel m)
    | panic m => exact ⟨m, rfl⟩
  · have hn : ¬ x < numVars A := by rw [numVars_of_wf hA]; omega
    simp [varPickRandomO, hn, Outcome.isPanic]

/-- both cases at once: the translated `var_pick` and `varPickO` agree as partial functions -/
theorem Bdd_var_pick_eq_modelO (A : Arr) (n x : Nat) (hA : WFo A n)
    (hsz : A.size * (3 * A.size + 2) + 2 ≤ 2 ^ 32) (fuel : Nat) (hfuel : 3 * (A.size * (3 * A.size + 2)) ≤ fuel) :
    (Algo2.Bdd_var_pick fuel A x).toOption = (varPickO A x).toOption := by
  by_cases hx : x < n
  · rw [Bdd_var_pick_eq_model A n x hA hx hsz fuel hfuel]
    simp [varPickO, numVars_of_wf hA, hx, Outcome.toOption]
  · obtain ⟨⟨m, hm⟩, _⟩ := Bdd_var_pick_panics A n x hA (by omega) fuel
    have hn : ¬ x < numVars A := by rw [numVars_of_wf hA]; exact hx
    rw [hm]
    simp [varPickO, hn, Outcome.toOption]

/-! ### `pick`, `pick_random` with a variable `≥ num_vars` -/

/-- the last element of `sorted(vars)` is the largest listed variable -/
theorem sorted_rev_head_max (vars : List Nat) (x : Nat) (hx : x ∈ vars) :
    ∃ (y : Nat) (rest : List Nat), sortedVars vars = rest.reverse ++ [y] ∧ x ≤ y := by
  have hp : (sortedVars vars).reverse.Pairwise (fun a b => b < a) :=
    List.pairwise_reverse.mpr (Rel.sortedVars_strict vars)
  have hm : x ∈ (sortedVars vars).reverse := by rw [List.mem_reverse, Rel.mem_sortedVars]; exact hx
  cases hl : (sortedVars vars).reverse with
  | nil => rw [hl] at hm; cases hm
  | cons y rest =>
    rw [hl] at hp hm
    refine ⟨y, rest, ?_, ?_⟩
    · have := congrArg List.reverse hl
      rw [List.reverse_reverse, List.reverse_cons] at this
      exact this
    · rcases List.mem_cons.mp hm with h | h
      · omega
      · have := (List.pairwise_cons.mp hp).1 x h
        omega

theorem pickO_panics (A : Arr) (n : Nat) (vars : List Nat) (flips : List Bool) (hA : WFo A n)
    (hbad : ∃ x ∈ vars, n ≤ x) :
    (pickO A vars).isPanic = true ∧ (pickRandomO A vars flips).isPanic = true := by
  obtain ⟨x, hx, hn⟩ := hbad
  have : vars.all (· < numVars A) = false := by
    rw [numVars_of_wf hA, List.all_eq_false]
    exact ⟨x, hx, by simp; omega⟩
  simp [pickO, pickRandomO, this, Outcome.isPanic]

/-- **panic case** of `pick`: some listed variable is `≥ num_vars` — the translated code panics for every fuel -/
theorem Bdd_pick_panics (A : Arr) (n : Nat) (vars : Array Nat) (hA : WFo A n) (hbad : ∃ x ∈ vars.toList, n ≤ x)
    (fuel : Nat) :
    (∃ m, Algo2.Bdd_pick fuel A vars = .panic m) ∧ (pickO A vars.toList).isPanic = true := by
  refine ⟨?_, (pickO_panics A n vars.toList [] hA hbad).1⟩
  obtain ⟨x, hx, hn⟩ := hbad
  obtain ⟨y, rest, hs, hy⟩ := sorted_rev_head_max vars.toList x hx
  unfold Algo2.Bdd_pick
  rw [sorted_eq_model, hs]
  cases fuel with
  | zero => rw [Algo2.Bdd_pick__r_pick]; exact ⟨_, rfl⟩
  | succ f =>
    rw [Algo2.Bdd_pick__r_pick]
    simp only [splitLast_snoc]
    rw [(Bdd_var_exists_panics A n y hA (by omega) f).1]
    exact ⟨_, rfl⟩

/-- **panic case** of `pick_random` -/
theorem Bdd_pick_random_panics (A : Arr) (n : Nat) (vars : Array Nat) (flips : List Bool) (hA : WFo A n)
    (hbad : ∃ x ∈ vars.toList, n ≤ x) (fuel : Nat) :
    (∃ m, Algo2.Bdd_pick_random fuel A vars flips = .panic m) ∧ (pickRandomO A vars.toList flips).isPanic = true := by
  refine ⟨?_, (pickO_panics A n vars.toList flips hA hbad).2⟩
  obtain ⟨x, hx, hn⟩ := hbad
  obtain ⟨y, rest, hs, hy⟩ := sorted_rev_head_max vars.toList x hx
  unfold Algo2.Bdd_pick_random
  simp only []
  rw [sorted_eq_model, hs]
  cases fuel with
  | zero => rw [Algo2.Bdd_pick_random__r_pick]; exact ⟨_, rfl⟩
  | succ f =>
    rw [Algo2.Bdd_pick_random__r_pick]
    simp only [splitLast_snoc]
    rw [(Bdd_var_exists_panics A n y hA (by omega) f).1]
    exact ⟨_, rfl⟩

/-! ### non-vacuity -/

/-- `sorted` on an unsorted slice with a repetition -/
example : Algo2.sorted #[2, 1, 2] = #[1, 2] := by
  rw [sorted_eq_model]
  simp [sortedVars, dedupAdj, List.mergeSort]

/-- the GENERATED `var_pick` with the driver's fuel on variable 1 of `x0 ∧ x2`: keeps the `x1 = false` half -/
example : Algo2.Bdd_var_pick (Drive.Algo2.fuelBig exX0X2) exX0X2 1 =
    .ok #[⟨3, 0, 0⟩, ⟨3, 1, 1⟩, ⟨2, 0, 1⟩, ⟨1, 2, 0⟩, ⟨0, 0, 3⟩] :=
  (Bdd_var_pick_eq_canon exX0X2 3 1 exX0X2_wf (by decide) (by decide) _ (fuelBig_ok _ 3 exX0X2_wf)).trans
    (congrArg Outcome.ok (by decide))

/-- `var_pick_random` with coins `[true, false]`: prefers `x1 = true`, hands `[false]` back;
    minimal admissible fuel `3·4·14 = 168` -/
example : Algo2.Bdd_var_pick_random 168 exX0X2 1 [true, false] =
    .ok (#[⟨3, 0, 0⟩, ⟨3, 1, 1⟩, ⟨2, 0, 1⟩, ⟨1, 0, 2⟩, ⟨0, 0, 3⟩], [false]) :=
  (Bdd_var_pick_random_eq_canon exX0X2 3 1 [true, false] exX0X2_wf (by decide) (by decide) 168 (by decide)).trans
    (congrArg Outcome.ok (Prod.ext (by decide) rfl))

/-- variable 3 of a 3-variable Bdd -/
example (fuel : Nat) : ∃ m, Algo2.Bdd_var_pick fuel exX0X2 3 = .panic m :=
  (Bdd_var_pick_panics exX0X2 3 3 exX0X2_wf (Nat.le_refl _) fuel).1
example (fuel : Nat) : ∃ m, Algo2.Bdd_pick fuel exX0X2 #[1, 5, 0] = .panic m :=
  (Bdd_pick_panics exX0X2 3 #[1, 5, 0] exX0X2_wf ⟨5, by simp, by omega⟩ fuel).1

theorem ex_sorted11 : sortedVars [1, 1] = [1] := by simp [sortedVars, dedupAdj, List.mergeSort]

/-- `PickBound` holds with `S = 8` for `pick(&[x1, x1])` on `x0 ∧ x2` (sizes read off the canonical forms) -/
theorem ex_bound (c : Bool) : PickBound 8 exX0X2 [(1, c)] := by
  refine ⟨by decide, ?_, ?_, ?_, trivial⟩
  · rw [Props.C06.var_select_canon exX0X2_wf 1 c (by decide)]; cases c <;> decide
  · rw [Props.C06.var_pick_random_canon exX0X2_wf 1 c (by decide)]; cases c <;> decide
  · show (Rel.varExists exX0X2 1).size ≤ 8
    rw [(Rel.varExists_isCanon exX0X2_wf 1 (by decide)).eq]; decide

/-- the GENERATED `pick`, with the driver's fuel, on `x0 ∧ x2` and the slice `[x1, x1]` -/
example : Algo2.Bdd_pick (Drive.Algo2.fuelBig exX0X2) exX0X2 #[1, 1] =
    .ok #[⟨3, 0, 0⟩, ⟨3, 1, 1⟩, ⟨2, 0, 1⟩, ⟨1, 2, 0⟩, ⟨0, 0, 3⟩] := by
  have hb : PickBound 8 exX0X2 ((sortedVars #[1, 1].toList).reverse.map fun x => (x, false)) := by
    show PickBound 8 exX0X2 ((sortedVars [1, 1]).reverse.map fun x => (x, false))
    rw [ex_sorted11]; exact ex_bound false
  have hlen : (sortedVars #[1, 1].toList).length = 1 := by
    show (sortedVars [1, 1]).length = 1
    rw [ex_sorted11]; rfl
  rw [Bdd_pick_eq_model_driver exX0X2 3 #[1, 1] 8 exX0X2_wf (by decide) (by decide) (by decide) hb
    (by rw [hlen]; decide)]
  refine congrArg Outcome.ok ?_
  show pick exX0X2 [1, 1] = _
  rw [Rel.pick_eq_rPickG, ex_sorted11]
  exact ((Rel.rPickG_spec (n := 3) [(1, false)] exX0X2 exX0X2_wf (by decide)).2.2 (by simp)).trans (by decide)

/-- the GENERATED `pick_random` on `[x1]` with coins `[true, false]`: prefers `x1 = true`, one coin consumed;
    minimal admissible fuel `3·8² + 1 + 1 = 194` -/
example : Algo2.Bdd_pick_random 194 exX0X2 #[1] [true, false] =
    .ok (#[⟨3, 0, 0⟩, ⟨3, 1, 1⟩, ⟨2, 0, 1⟩, ⟨1, 0, 2⟩, ⟨0, 0, 3⟩], [false]) := by
  have hs : sortedVars [1] = [1] := by simp [sortedVars, dedupAdj]
  have hb : PickBound 8 exX0X2 (Rel.assignCoins (sortedVars #[1].toList).reverse [true, false]).1 := by
    show PickBound 8 exX0X2 (Rel.assignCoins (sortedVars [1]).reverse [true, false]).1
    rw [hs]; exact ex_bound true
  have hlen : (sortedVars #[1].toList).length = 1 := by
    show (sortedVars [1]).length = 1
    rw [hs]; rfl
  rw [Bdd_pick_random_eq_model exX0X2 3 #[1] 8 exX0X2_wf (by decide) (by decide) (by decide) [true, false] hb 194
    (by rw [hlen]; decide)]
  refine congrArg Outcome.ok (Prod.ext ?_ ?_)
  · show pickRandom exX0X2 [1] [true, false] = _
    rw [Rel.pickRandom_eq_rPickG, hs]
    exact ((Rel.rPickG_spec (n := 3) [(1, true)] exX0X2 exX0X2_wf (by decide)).2.2 (by simp)).trans (by decide)
  · show List.drop (pickRandomDraws [1]) [true, false] = [false]
    unfold pickRandomDraws
    rw [hs]; rfl

/-! a run with two levels of recursion: `pick(&[x2, x1, x2])` on `x0 ∧ x2` -/

/-- `∃ x2. (x0 ∧ x2)` = `x0` -/
def exE : Arr := #[⟨3, 0, 0⟩, ⟨3, 1, 1⟩, ⟨0, 0, 1⟩]
theorem exE_wf : WFo exE 3 := wfoB_sound (by decide)
theorem exE_eq : Rel.varExists exX0X2 2 = exE :=
  (Rel.varExists_isCanon exX0X2_wf 2 (by decide)).eq.trans (by decide)

theorem ex_sorted212 : sortedVars [2, 1, 2] = [1, 2] := by simp [sortedVars, dedupAdj, List.mergeSort]

theorem ex_bound2 : PickBound 8 exX0X2 [(2, false), (1, false)] := by
  refine ⟨by decide, ?_, ?_, ?_, ?_⟩
  · rw [Props.C06.var_select_canon exX0X2_wf 2 false (by decide)]; decide
  · rw [Props.C06.var_pick_random_canon exX0X2_wf 2 false (by decide)]; decide
  · rw [exE_eq, (Rel.rPickG_spec (n := 3) [(1, false)] exE exE_wf (by decide)).2.2 (by simp)]; decide
  · rw [exE_eq]
    refine ⟨by decide, ?_, ?_, ?_, trivial⟩
    · rw [Props.C06.var_select_canon exE_wf 1 false (by decide)]; decide
    · rw [Props.C06.var_pick_random_canon exE_wf 1 false (by decide)]; decide
    · show (Rel.varExists exE 1).size ≤ 8
      rw [(Rel.varExists_isCanon exE_wf 1 (by decide)).eq]; decide

/-- the GENERATED `pick` (two recursive levels of the translated `r_pick`, each with `var_exists`, `var_pick` =
    `var_select` + `fused_binary_flip_op`, and `and`), with the driver's fuel: one valuation of `{x1, x2}` per class -/
example : Algo2.Bdd_pick (Drive.Algo2.fuelBig exX0X2) exX0X2 #[2, 1, 2] =
    .ok #[⟨3, 0, 0⟩, ⟨3, 1, 1⟩, ⟨2, 0, 1⟩, ⟨1, 2, 0⟩, ⟨0, 0, 3⟩] := by
  have hb : PickBound 8 exX0X2 ((sortedVars #[2, 1, 2].toList).reverse.map fun x => (x, false)) := by
    show PickBound 8 exX0X2 ((sortedVars [2, 1, 2]).reverse.map fun x => (x, false))
    rw [ex_sorted212]; exact ex_bound2
  have hlen : (sortedVars #[2, 1, 2].toList).length = 2 := by
    show (sortedVars [2, 1, 2]).length = 2
    rw [ex_sorted212]; rfl
  rw [Bdd_pick_eq_model_driver exX0X2 3 #[2, 1, 2] 8 exX0X2_wf (by decide) (by decide) (by decide) hb
    (by rw [hlen]; decide)]
  refine congrArg Outcome.ok ?_
  show pick exX0X2 [2, 1, 2] = _
  rw [Rel.pick_eq_rPickG, ex_sorted212]
  exact ((Rel.rPickG_spec (n := 3) [(2, false), (1, false)] exX0X2 exX0X2_wf (by decide)).2.2 (by simp)).trans
    (by decide)

end B.AlgoEq2Rel
