import BddVerif.Core.Inj
/-!
Counting satisfying assignments, independently of any diagram: `cntV f m k v` is the number of
assignments to the `m` variables `k, …, k+m-1` (all other variables as in `v`) that satisfy `f`;
`cnt n f` counts over the variables `0 … n-1`. Pure arithmetic over `Nat` — no bound on `n`.
-/
namespace B.Count

/-- number of assignments of the variables `k … k+m-1` (others as in `v`) satisfying `f` -/
def cntV (f : (Nat → Bool) → Bool) : Nat → Nat → (Nat → Bool) → Nat
  | 0, _, v => if f v then 1 else 0
  | m + 1, k, v => cntV f m (k + 1) (upd v k false) + cntV f m (k + 1) (upd v k true)

/-- number of satisfying assignments of the variables `0 … n-1` -/
def cnt (n : Nat) (f : (Nat → Bool) → Bool) : Nat := cntV f n 0 (fun _ => false)

/-- all assignments of the variables `k … k+m-1` over the base valuation `v`, in the order of `cntV` -/
def allValsFrom : Nat → Nat → (Nat → Bool) → List (Nat → Bool)
  | 0, _, v => [v]
  | m + 1, k, v => allValsFrom m (k + 1) (upd v k false) ++ allValsFrom m (k + 1) (upd v k true)

/-- the `2ⁿ` valuations of the variables `0 … n-1` (every other variable `false`) -/
def allVals (n : Nat) : List (Nat → Bool) := allValsFrom n 0 (fun _ => false)

theorem cntV_eq_filter_length (f : (Nat → Bool) → Bool) :
    ∀ m k v, cntV f m k v = ((allValsFrom m k v).filter f).length := by
  intro m
  induction m with
  | zero => intro k v; by_cases h : f v <;> simp [cntV, allValsFrom, h]
  | succ m ih => intro k v; simp [cntV, allValsFrom, ih, List.filter_append]

/-- `cnt n f` is the length of the list of all `2ⁿ` valuations filtered by `f` -/
theorem cnt_eq_filter_length (n : Nat) (f : (Nat → Bool) → Bool) :
    cnt n f = ((allVals n).filter f).length := cntV_eq_filter_length f n 0 _

theorem allValsFrom_length : ∀ m k v, (allValsFrom m k v).length = 2 ^ m := by
  intro m
  induction m with
  | zero => intro k v; simp [allValsFrom]
  | succ m ih => intro k v; simp [allValsFrom, ih, Nat.pow_succ]; omega

theorem allVals_length (n : Nat) : (allVals n).length = 2 ^ n := allValsFrom_length n 0 _

/-- members of `allValsFrom m k v` agree with `v` outside `k … k+m-1` -/
theorem allValsFrom_outside : ∀ m k v u, u ∈ allValsFrom m k v → ∀ i, (i < k ∨ k + m ≤ i) → u i = v i := by
  intro m
  induction m with
  | zero => intro k v u hu i _; simp [allValsFrom] at hu; rw [hu]
  | succ m ih =>
    intro k v u hu i hi
    simp only [allValsFrom, List.mem_append] at hu
    rcases hu with hu | hu
    · rw [ih (k + 1) _ u hu i (by omega)]; simp [upd]; omega
    · rw [ih (k + 1) _ u hu i (by omega)]; simp [upd]; omega

/-- every assignment has a representative in the list -/
theorem allValsFrom_complete : ∀ m k v (w : Nat → Bool), (∀ i, (i < k ∨ k + m ≤ i) → w i = v i) →
    ∃ u ∈ allValsFrom m k v, ∀ i, u i = w i := by
  intro m
  induction m with
  | zero =>
    intro k v w hw
    exact ⟨v, by simp [allValsFrom], fun i => (hw i (by omega)).symm⟩
  | succ m ih =>
    intro k v w hw
    have := ih (k + 1) (upd v k (w k)) w (by
      intro i hi
      by_cases hik : i = k
      · simp [upd, hik]
      · simp [upd, hik]; exact hw i (by omega))
    obtain ⟨u, hu, hue⟩ := this
    refine ⟨u, ?_, hue⟩
    simp only [allValsFrom, List.mem_append]
    cases hwk : w k
    · left; rw [hwk] at hu; exact hu
    · right; rw [hwk] at hu; exact hu

/-- every valuation of the first `n` variables occurs in `allVals n` (up to the irrelevant variables) -/
theorem allVals_complete (n : Nat) (w : Nat → Bool) : ∃ u ∈ allVals n, ∀ i, i < n → u i = w i := by
  obtain ⟨u, hu, hue⟩ := allValsFrom_complete n 0 (fun _ => false) (fun i => if i < n then w i else false)
    (by intro i hi; have : ¬ i < n := by omega
        simp [this])
  exact ⟨u, hu, fun i hi => by rw [hue i]; simp [hi]⟩

/-- members of `allValsFrom m (k+1) (upd v k b)` have value `b` at `k` -/
theorem allValsFrom_at : ∀ m k v b u, u ∈ allValsFrom m (k + 1) (upd v k b) → u k = b := by
  intro m k v b u hu
  rw [allValsFrom_outside m (k + 1) _ u hu k (by omega)]; simp [upd]

/-- the list has no repetition: two different positions differ on one of the enumerated variables -/
theorem allValsFrom_pairwise : ∀ m k v,
    (allValsFrom m k v).Pairwise (fun u w => ∃ i, k ≤ i ∧ i < k + m ∧ u i ≠ w i) := by
  intro m
  induction m with
  | zero => intro k v; simp [allValsFrom]
  | succ m ih =>
    intro k v
    simp only [allValsFrom]
    rw [List.pairwise_append]
    refine ⟨?_, ?_, ?_⟩
    · exact (ih (k + 1) _).imp (fun ⟨i, h1, h2, h3⟩ => ⟨i, by omega, by omega, h3⟩)
    · exact (ih (k + 1) _).imp (fun ⟨i, h1, h2, h3⟩ => ⟨i, by omega, by omega, h3⟩)
    · intro u hu w hw
      refine ⟨k, Nat.le_refl _, by omega, ?_⟩
      rw [allValsFrom_at m k v false u hu, allValsFrom_at m k v true w hw]; simp

theorem allVals_pairwise (n : Nat) : (allVals n).Pairwise (fun u w => ∃ i, i < n ∧ u i ≠ w i) :=
  (allValsFrom_pairwise n 0 _).imp (fun ⟨i, _, h2, h3⟩ => ⟨i, by omega, h3⟩)

/-- extensionality of the count, also across base valuations -/
theorem cntV_ext (f g : (Nat → Bool) → Bool) :
    ∀ m k v v', (∀ w w' : Nat → Bool, (∀ i, k ≤ i → i < k + m → w i = w' i) →
        (∀ i, (i < k ∨ k + m ≤ i) → w i = v i) → (∀ i, (i < k ∨ k + m ≤ i) → w' i = v' i) → f w = g w') →
      cntV f m k v = cntV g m k v' := by
  intro m
  induction m with
  | zero =>
    intro k v v' H
    have := H v v' (fun i h1 h2 => by omega) (fun _ _ => rfl) (fun _ _ => rfl)
    simp [cntV, this]
  | succ m ih =>
    intro k v v' H
    have step : ∀ b, cntV f m (k + 1) (upd v k b) = cntV g m (k + 1) (upd v' k b) := by
      intro b
      apply ih
      intro w w' hww hw hw'
      apply H w w'
      · intro i h1 h2
        by_cases hik : i = k
        · subst hik
          rw [hw i (by omega), hw' i (by omega)]; simp [upd]
        · exact hww i (by omega) (by omega)
      · intro i hi
        rw [hw i (by omega)]; simp [upd]; omega
      · intro i hi
        rw [hw' i (by omega)]; simp [upd]; omega
    simp only [cntV, step]

theorem cntV_congr (f g : (Nat → Bool) → Bool) (m k : Nat) (v : Nat → Bool)
    (h : ∀ w, (∀ i, (i < k ∨ k + m ≤ i) → w i = v i) → f w = g w) : cntV f m k v = cntV g m k v := by
  apply cntV_ext
  intro w w' hww hw hw'
  have : w = w' := by
    funext i
    by_cases hi : k ≤ i ∧ i < k + m
    · exact hww i hi.1 hi.2
    · rw [hw i (by omega), hw' i (by omega)]
  rw [← this]; exact h w hw

theorem cnt_congr (n : Nat) (f g : (Nat → Bool) → Bool) (h : ∀ v, f v = g v) : cnt n f = cnt n g :=
  cntV_congr f g n 0 _ (fun w _ => h w)

theorem cntV_false (m k : Nat) (v : Nat → Bool) : cntV (fun _ => false) m k v = 0 := by
  induction m generalizing k v with
  | zero => simp [cntV]
  | succ m ih => simp [cntV, ih]

theorem cntV_true (m k : Nat) (v : Nat → Bool) : cntV (fun _ => true) m k v = 2 ^ m := by
  induction m generalizing k v with
  | zero => simp [cntV]
  | succ m ih => simp [cntV, ih, Nat.pow_succ]; omega

/-- a function that ignores variable `k` counts twice over one more variable -/
theorem cntV_skip (f : (Nat → Bool) → Bool) (m k : Nat) (v : Nat → Bool)
    (h : ∀ w (b : Bool), f (upd w k b) = f w) : cntV f (m + 1) k v = 2 * cntV f m (k + 1) v := by
  have step : ∀ b, cntV f m (k + 1) (upd v k b) = cntV f m (k + 1) v := by
    intro b
    apply cntV_ext
    intro w w' hww hw hw'
    have : w = upd w' k b := by
      funext i
      by_cases hik : i = k
      · subst hik; rw [hw i (by omega)]; simp [upd]
      · by_cases hi : k + 1 ≤ i ∧ i < k + 1 + m
        · simp [upd, hik]; exact hww i hi.1 hi.2
        · rw [hw i (by omega)]; simp [upd, hik]; exact (hw' i (by omega)).symm
    rw [this, h]
  simp only [cntV, step]; omega

/-- `|f ∨ g| + |f ∧ g| = |f| + |g|` -/
theorem cntV_or_and (f g : (Nat → Bool) → Bool) (m k : Nat) (v : Nat → Bool) :
    cntV (fun w => f w || g w) m k v + cntV (fun w => f w && g w) m k v = cntV f m k v + cntV g m k v := by
  induction m generalizing k v with
  | zero => simp only [cntV]; by_cases hf : f v = true <;> by_cases hg : g v = true <;> simp [hf, hg]
  | succ m ih =>
    simp only [cntV]
    have a := ih (k + 1) (upd v k false)
    have b := ih (k + 1) (upd v k true)
    omega

/-- `|¬f| + |f| = 2^m` -/
theorem cntV_not (f : (Nat → Bool) → Bool) (m k : Nat) (v : Nat → Bool) :
    cntV (fun w => !f w) m k v + cntV f m k v = 2 ^ m := by
  induction m generalizing k v with
  | zero => simp only [cntV]; by_cases hf : f v = true <;> simp [hf]
  | succ m ih =>
    simp only [cntV]
    have a := ih (k + 1) (upd v k false)
    have b := ih (k + 1) (upd v k true)
    rw [Nat.pow_succ]; omega

theorem cntV_le (f : (Nat → Bool) → Bool) (m k : Nat) (v : Nat → Bool) : cntV f m k v ≤ 2 ^ m := by
  have := cntV_not f m k v; omega

/-- monotonicity: a stronger function has a smaller count -/
theorem cntV_mono (f g : (Nat → Bool) → Bool) (h : ∀ w, f w = true → g w = true) (m k : Nat) (v : Nat → Bool) :
    cntV f m k v ≤ cntV g m k v := by
  induction m generalizing k v with
  | zero =>
    simp only [cntV]
    by_cases hf : f v
    · simp [hf, h v hf]
    · simp [hf]
  | succ m ih =>
    simp only [cntV]
    have a := ih (k + 1) (upd v k false)
    have b := ih (k + 1) (upd v k true)
    omega

/-- counting over the variables `k … k+m-1` a function satisfied by exactly one assignment `t` -/
theorem cntV_single (f : (Nat → Bool) → Bool) (t : Nat → Bool) (n : Nat)
    (hf : ∀ w, f w = true ↔ ∀ i, i < n → w i = t i) :
    ∀ m k (v : Nat → Bool), k + m = n → (∀ i, i < k → v i = t i) → cntV f m k v = 1 := by
  have zero : ∀ m k (v : Nat → Bool), k + m = n → (∃ i, i < k ∧ v i ≠ t i) → cntV f m k v = 0 := by
    intro m
    induction m with
    | zero =>
      intro k v hk ⟨i, hi, hne⟩
      have : ¬ f v = true := fun h => hne ((hf v).1 h i (by omega))
      simp [cntV, this]
    | succ m ih =>
      intro k v hk ⟨i, hi, hne⟩
      have hik : i ≠ k := by omega
      simp only [cntV]
      rw [ih (k + 1) _ (by omega) ⟨i, by omega, by simpa [upd, hik] using hne⟩,
        ih (k + 1) _ (by omega) ⟨i, by omega, by simpa [upd, hik] using hne⟩]
  intro m
  induction m with
  | zero =>
    intro k v hk hv
    have : f v = true := (hf v).2 (fun i hi => hv i (by omega))
    simp [cntV, this]
  | succ m ih =>
    intro k v hk hv
    simp only [cntV]
    have agree : ∀ b, ∀ i, i < k → upd v k b i = t i := by
      intro b i hi
      have : i ≠ k := by omega
      simp [upd, this]; exact hv i hi
    cases htk : t k
    · rw [ih (k + 1) (upd v k false) (by omega) (by
          intro i hi
          by_cases hik : i = k
          · subst hik; simp [upd, htk]
          · exact agree false i (by omega)),
        zero m (k + 1) (upd v k true) (by omega) ⟨k, by omega, by simp [upd, htk]⟩]
    · rw [zero m (k + 1) (upd v k false) (by omega) ⟨k, by omega, by simp [upd, htk]⟩,
        ih (k + 1) (upd v k true) (by omega) (by
          intro i hi
          by_cases hik : i = k
          · subst hik; simp [upd, htk]
          · exact agree true i (by omega))]

end B.Count
