import BddVerif.Lemmas.IterPaths
/-!
Lemmas for C08, part 3: the path iterator. Invariant: the stack is a root-to-one path (`PathOK`, top = 1);
`remaining A stack` is what the iterator still has to yield: the clause of the stack itself, then, going
down the stack, the clauses below the high sibling of every low edge (`after`). `continue_path` from a
pointer `q` reaches a stack whose `remaining` is `paths q` followed by what was pending before.
-/
namespace B.Iter
open B

/-- consecutive stack entries are linked by a low or high edge, no entry except the bottom is zero -/
def PathOK (A : Arr) : List Nat → Prop
  | [] => True
  | [_] => True
  | c :: t :: rest =>
    (∃ nd, A[t]? = some nd ∧ 2 ≤ t ∧ (nd.low = c ∨ nd.high = c) ∧ c ≠ 0) ∧ PathOK A (t :: rest)

/-- the clause of a stack (what `make_clause` computes on a valid path) -/
def clauseOf (A : Arr) : List Nat → PV
  | [] => []
  | [_] => []
  | next :: this :: rest =>
    match A[this]? with
    | none => []
    | some nd => pvSet (clauseOf A (this :: rest)) nd.var (some (if nd.low = next then false else true))

/-- clauses still to come once the sub-diagram `child` (whose parent is the head of the list) is done -/
def after (A : Arr) : Nat → List Nat → List PV
  | _, [] => []
  | child, t :: rest =>
    match A[t]? with
    | none => []
    | some nd =>
      (if nd.low = child then paths A nd.high (clauseOf A (nd.high :: t :: rest)) else []) ++ after A t rest

/-- everything the iterator will yield from this stack on -/
def remaining (A : Arr) : List Nat → List PV
  | [] => []
  | top :: rest => clauseOf A (top :: rest) :: after A top rest

theorem clauseOf_cons (A : Arr) (c t : Nat) (rest : List Nat) (nd : Node) (h : A[t]? = some nd) :
    clauseOf A (c :: t :: rest) =
      pvSet (clauseOf A (t :: rest)) nd.var (some (if nd.low = c then false else true)) := by
  simp [clauseOf, h]

theorem after_cons (A : Arr) (child t : Nat) (rest : List Nat) (nd : Node) (h : A[t]? = some nd) :
    after A child (t :: rest) =
      (if nd.low = child then paths A nd.high (clauseOf A (nd.high :: t :: rest)) else []) ++ after A t rest := by
  simp [after, h]

/-- on a valid path in a reduced array `make_clause` does not panic and yields `clauseOf` -/
theorem makeClause_ok {A : Arr} {n : Nat} (h : Red A n) :
    ∀ S, S ≠ [] → PathOK A S → makeClause A S = .ok (clauseOf A S) := by
  intro S
  induction S with
  | nil => intro h; exact absurd rfl h
  | cons c S ih =>
    intro _ hok
    cases S with
    | nil => simp [makeClause, clauseOf]
    | cons t rest =>
      obtain ⟨⟨nd, hnd, ht2, hlink, hc0⟩, hrest⟩ := hok
      have := ih (by simp) hrest
      obtain ⟨_, _, _, hne, _, _⟩ := h.inner t nd ht2 hnd
      rw [clauseOf_cons A c t rest nd hnd]
      simp only [makeClause, this, hnd]
      by_cases hl : nd.low = c
      · simp [hl]
      · have hh : nd.high = c := hlink.resolve_left hl
        simp [hl, hh]

/-- `continue_path` from a non-zero pointer `q`: no panic, a valid path ending in one, and the clauses to
    come are those below `q` followed by what was pending -/
theorem continuePath_spec {A : Arr} {n : Nat} (h : Red A n) :
    ∀ q, q < A.size → q ≠ 0 → ∀ rest, PathOK A (q :: rest) → ∀ fuel, q ≤ fuel →
      ∃ S, continuePath A fuel (q :: rest) = .ok S ∧ PathOK A S ∧ (∃ r, S = 1 :: r) ∧
        remaining A S = paths A q (clauseOf A (q :: rest)) ++ after A q rest := by
  intro q
  induction q using Nat.strongRecOn with
  | _ q ih =>
    intro hq hq0 rest hok fuel hf
    by_cases h1 : q = 1
    · subst h1
      refine ⟨1 :: rest, by unfold continuePath; simp, hok, ⟨rest, rfl⟩, ?_⟩
      rw [paths_one]; rfl
    have hq2 : 2 ≤ q := by omega
    have hnd : A[q]? = some A[q] := by simp [hq]
    obtain ⟨_, hl, hh, hne, _, _⟩ := h.inner q A[q] hq2 hnd
    obtain ⟨f, rfl⟩ : ∃ f, fuel = f + 1 := ⟨fuel - 1, by omega⟩
    have hpn := paths_node h q (clauseOf A (q :: rest)) hq2 _ hnd
    by_cases hl0 : A[q].low = 0
    · -- low link is zero: take the high link
      have hh0 : A[q].high ≠ 0 := by omega
      have hok' : PathOK A (A[q].high :: q :: rest) :=
        ⟨⟨A[q], hnd, hq2, Or.inr rfl, hh0⟩, hok⟩
      obtain ⟨S, hS, hSok, hS1, hrem⟩ := ih _ hh (by omega) hh0 (q :: rest) hok' f (by omega)
      refine ⟨S, ?_, hSok, hS1, ?_⟩
      · rw [continuePath]
        simp [h1, hnd, hl0, hh0, hS]
      · rw [hrem, hpn, after_cons A _ q rest _ hnd, clauseOf_cons A _ q rest _ hnd]
        have e0 : ∀ acc, paths A A[q].low acc = [] := by intro acc; rw [hl0]; exact paths_zero A acc
        simp [hne, e0]
    · -- low link is not zero: take it; the high sibling stays pending
      have hok' : PathOK A (A[q].low :: q :: rest) :=
        ⟨⟨A[q], hnd, hq2, Or.inl rfl, hl0⟩, hok⟩
      obtain ⟨S, hS, hSok, hS1, hrem⟩ := ih _ hl (by omega) hl0 (q :: rest) hok' f (by omega)
      refine ⟨S, ?_, hSok, hS1, ?_⟩
      · rw [continuePath]
        simp [h1, hnd, hl0, hS]
      · rw [hrem, hpn, after_cons A _ q rest _ hnd, clauseOf_cons A _ q rest _ hnd,
          clauseOf_cons A _ q rest _ hnd]
        have : ¬ A[q].low = A[q].high := hne
        simp [this]

/-- the pop loop of `next`: no panic, and the new stack has exactly the pending clauses left -/
theorem popLoop_spec {A : Arr} {n : Nat} (h : Red A n) :
    ∀ rest child, PathOK A (child :: rest) →
      ∃ S, popLoop A child rest = .ok S ∧ PathOK A S ∧ (S = [] ∨ ∃ r, S = 1 :: r) ∧
        remaining A S = after A child rest := by
  intro rest
  induction rest with
  | nil => intro child _; exact ⟨[], by simp [popLoop], trivial, Or.inl rfl, by simp [remaining, after]⟩
  | cons t rest ih =>
    intro child hok
    obtain ⟨⟨nd, hnd, ht2, hlink, hc0⟩, hrest⟩ := hok
    have hts : t < A.size := by
      rcases Nat.lt_or_ge t A.size with h' | h'
      · exact h'
      · simp [Array.getElem?_eq_none h'] at hnd
    obtain ⟨_, hl, hh, hne, _, _⟩ := h.inner t nd ht2 hnd
    rw [after_cons A child t rest nd hnd]
    by_cases hlc : nd.low = child
    · by_cases hh0 : nd.high = 0
      · obtain ⟨S, hS, hSok, hS1, hrem⟩ := ih t hrest
        refine ⟨S, ?_, hSok, hS1, ?_⟩
        · rw [popLoop]; simp [hnd, hlc, hh0, hS]
        · rw [hrem]; simp [hlc, hh0, paths_zero]
      · have hok' : PathOK A (nd.high :: t :: rest) := ⟨⟨nd, hnd, ht2, Or.inr rfl, hh0⟩, hrest⟩
        obtain ⟨S, hS, hSok, hS1, hrem⟩ :=
          continuePath_spec h nd.high (by omega) hh0 (t :: rest) hok' (cpFuel A) (by unfold cpFuel; omega)
        refine ⟨S, ?_, hSok, Or.inr hS1, ?_⟩
        · rw [popLoop]
          have : ¬ child = nd.high := by rw [← hlc]; exact hne
          simp [hnd, hlc, hh0, this, hS]
        · rw [hrem, after_cons A _ t rest nd hnd]
          have : ¬ child = nd.high := by rw [← hlc]; exact hne
          simp [hlc, this]
    · have hhc : nd.high = child := hlink.resolve_left hlc
      obtain ⟨S, hS, hSok, hS1, hrem⟩ := ih t hrest
      refine ⟨S, ?_, hSok, hS1, ?_⟩
      · rw [popLoop]; simp [hnd, hlc, hhc, hS]
      · rw [hrem]; simp [hlc]

/-- state of the iterator between two calls of `next` -/
def Good (A : Arr) (S : List Nat) : Prop := PathOK A S ∧ (S = [] ∨ ∃ r, S = 1 :: r)

/-- one call of `next` on a good non-empty stack yields the head of `remaining` and a good stack -/
theorem pathNext_spec {A : Arr} {n : Nat} (h : Red A n) (r : List Nat) (hg : Good A (1 :: r)) :
    ∃ S, pathNext A (1 :: r) = .ok (some (clauseOf A (1 :: r)), S) ∧ Good A S ∧
      remaining A (1 :: r) = clauseOf A (1 :: r) :: remaining A S := by
  obtain ⟨S, hS, hSok, hS1, hrem⟩ := popLoop_spec h r 1 hg.1
  refine ⟨S, ?_, ⟨hSok, hS1⟩, ?_⟩
  · simp [pathNext, makeClause_ok h (1 :: r) (by simp) hg.1, hS]
  · rw [hrem]; rfl

theorem pathNext_nil (A : Arr) : pathNext A [] = .ok (none, []) := rfl

/-- collecting the iterator from a good state yields `remaining`, with fuel for one more call -/
theorem collect_pathNext {A : Arr} {n : Nat} (h : Red A n) :
    ∀ fuel S, Good A S → (remaining A S).length < fuel →
      collect (pathNext A) fuel S = .ok (remaining A S) := by
  intro fuel
  induction fuel with
  | zero => intro S _ hf; omega
  | succ f ih =>
    intro S hg hf
    rcases hg.2 with rfl | ⟨r, rfl⟩
    · simp [collect, pathNext_nil, remaining]
    · obtain ⟨S', hn, hg', hrem⟩ := pathNext_spec h r hg
      rw [hrem] at hf ⊢
      have := ih S' hg' (by simp at hf; omega)
      simp [collect, hn, this]

/-- `BddPathIterator::new` on a reduced array -/
theorem pathInit_spec {A : Arr} {n : Nat} (h : Red A n) :
    ∃ S, pathInit A = .ok S ∧ Good A S ∧ remaining A S = paths A (root A) [] := by
  have h2 := h.size2
  have hr : root A < A.size := by unfold root; omega
  have hr0 : root A ≠ 0 := by unfold root; omega
  obtain ⟨S, hS, hSok, hS1, hrem⟩ :=
    continuePath_spec h (root A) hr hr0 [] trivial (cpFuel A) (by unfold cpFuel; omega)
  refine ⟨S, ?_, ⟨hSok, Or.inr hS1⟩, ?_⟩
  · unfold pathInit
    have : ¬ A.size = 1 := by omega
    simp [this, hS]
  · rw [hrem]; simp [clauseOf, after]

end B.Iter
