import BddVerif.Model.F64
/-!
Arithmetic of the binary64 model `Model/F64.lean`: the rounding function `round53` (error at most half a
unit in the last place, hence relative error at most `2^-53`; fixed points = values with at most 53
significant bits; monotone overflow threshold), the operations `add`, `mulPow2`, `scale`, and the
conversion to and from bit patterns. All statements are about naturals ("scaled values", units of
`2^-1074`), cross-multiplied.
-/
set_option exponentiation.threshold 2200
namespace B.F64

/-! ### anatomy of one rounding step -/

/-- what `round53` does to an `s ≥ 2^53`: with `k = log2 s - 52 ≥ 1`, `s = q·2^k + r`, `2^52 ≤ q < 2^53`,
    the result is `q·2^k` (when `r ≤ 2^(k-1)`) or `(q+1)·2^k` (when `r ≥ 2^(k-1)`); at `r = 2^(k-1)`
    the even one of the two -/
theorem round53_anatomy (s : Nat) (hs : 2 ^ 53 ≤ s) :
    ∃ k q r h, k = s.log2 - 52 ∧ 1 ≤ k ∧ 53 ≤ s.log2 ∧ s = q * 2 ^ k + r ∧ r < 2 ^ k ∧ 2 ^ k = 2 * h ∧
      h = 2 ^ (k - 1) ∧ 2 ^ 52 ≤ q ∧ q < 2 ^ 53 ∧ q = s / 2 ^ k ∧ r = s % 2 ^ k ∧
      ((round53 s = q * 2 ^ k ∧ (r < h ∨ (r = h ∧ q % 2 = 0))) ∨
       (round53 s = (q + 1) * 2 ^ k ∧ (h < r ∨ (r = h ∧ q % 2 = 1)))) := by
  have hs0 : s ≠ 0 := by
    intro h0; rw [h0] at hs; exact absurd hs (by decide)
  have hlog : 53 ≤ s.log2 := (Nat.le_log2 hs0).2 hs
  refine ⟨s.log2 - 52, s / 2 ^ (s.log2 - 52), s % 2 ^ (s.log2 - 52), 2 ^ (s.log2 - 52 - 1), rfl, by omega, hlog,
    ?_, ?_, ?_, rfl, ?_, ?_, rfl, rfl, ?_⟩
  · have := Nat.div_add_mod s (2 ^ (s.log2 - 52))
    rw [Nat.mul_comm] at this; exact this.symm
  · exact Nat.mod_lt _ (Nat.two_pow_pos _)
  · have : s.log2 - 52 = (s.log2 - 52 - 1) + 1 := by omega
    conv => lhs; rw [this, Nat.pow_succ]
    omega
  · -- 2^52 ≤ q
    rw [Nat.le_div_iff_mul_le (Nat.two_pow_pos _), ← Nat.pow_add]
    have : 52 + (s.log2 - 52) = s.log2 := by omega
    rw [this]; exact Nat.log2_self_le hs0
  · -- q < 2^53
    rw [Nat.div_lt_iff_lt_mul (Nat.two_pow_pos _), ← Nat.pow_add]
    have : 53 + (s.log2 - 52) = s.log2 + 1 := by omega
    rw [this]; exact Nat.lt_log2_self
  · unfold round53
    rw [if_neg (by omega)]
    simp only
    split
    · left; rename_i hc; exact ⟨rfl, hc⟩
    · right; rename_i hc
      refine ⟨rfl, ?_⟩
      have hm : s / 2 ^ (s.log2 - 52) % 2 = 0 ∨ s / 2 ^ (s.log2 - 52) % 2 = 1 := by omega
      omega

theorem round53_small (s : Nat) (hs : s < 2 ^ 53) : round53 s = s := by
  unfold round53; rw [if_pos hs]

/-- the rounding error is at most half a unit in the last place: `|round53 s - s| ≤ 2^(log2 s - 53)` -/
theorem round53_ulp (s : Nat) (hs : 2 ^ 53 ≤ s) :
    round53 s ≤ s + 2 ^ (s.log2 - 53) ∧ s ≤ round53 s + 2 ^ (s.log2 - 53) := by
  obtain ⟨k, q, r, h, hk, hk1, hlog, hsq, hr, hX, hh, hq1, hq2, -, -, hres⟩ := round53_anatomy s hs
  have hk' : k - 1 = s.log2 - 53 := by omega
  rw [← hk', ← hh]
  rcases hres with ⟨e, c⟩ | ⟨e, c⟩
  · rw [e]; generalize q * 2 ^ k = Y at *; omega
  · rw [e, Nat.add_mul, Nat.one_mul]; generalize q * 2 ^ k = Y at *; omega

/-- **rounding lemma**: the relative error of `round53` is at most `2^-53`, for every `s`
    (`2^53 · |round53 s − s| ≤ s`) -/
theorem round53_rel (s : Nat) : 2 ^ 53 * (round53 s - s) ≤ s ∧ 2 ^ 53 * (s - round53 s) ≤ s := by
  by_cases hs : s < 2 ^ 53
  · rw [round53_small s hs]; simp
  · have hs' : 2 ^ 53 ≤ s := by omega
    have hs0 : s ≠ 0 := by intro h0; rw [h0] at hs'; exact absurd hs' (by decide)
    obtain ⟨h1, h2⟩ := round53_ulp s hs'
    have hlog : 53 ≤ s.log2 := (Nat.le_log2 hs0).2 hs'
    have hp : 2 ^ 53 * 2 ^ (s.log2 - 53) ≤ s := by
      rw [← Nat.pow_add]
      have : 53 + (s.log2 - 53) = s.log2 := by omega
      rw [this]; exact Nat.log2_self_le hs0
    constructor
    · exact Nat.le_trans (Nat.mul_le_mul_left _ (by omega)) hp
    · exact Nat.le_trans (Nat.mul_le_mul_left _ (by omega)) hp

/-- the same, multiplicatively: `s·(2^53 − 1) ≤ round53 s · 2^53 ≤ s·(2^53 + 1)` -/
theorem round53_mul (s : Nat) :
    s * (2 ^ 53 - 1) ≤ round53 s * 2 ^ 53 ∧ round53 s * 2 ^ 53 ≤ s * (2 ^ 53 + 1) := by
  obtain ⟨h1, h2⟩ := round53_rel s
  generalize round53 s = r at *
  have e1 : s * (2 ^ 53 - 1) = 2 ^ 53 * s - s := by
    rw [Nat.mul_sub, Nat.mul_one, Nat.mul_comm]
  have e2 : s * (2 ^ 53 + 1) = 2 ^ 53 * s + s := by rw [Nat.mul_add, Nat.mul_one, Nat.mul_comm]
  rw [e1, e2, Nat.mul_comm r]
  rw [Nat.mul_sub] at h1 h2
  omega

theorem round53_pos (s : Nat) (hs : 0 < s) : 0 < round53 s := by
  have := (round53_mul s).1
  rcases Nat.eq_zero_or_pos (round53 s) with h | h
  · rw [h, Nat.zero_mul] at this
    have : s * (2 ^ 53 - 1) = 0 := by omega
    rcases Nat.mul_eq_zero.1 this with h' | h'
    · omega
    · exact absurd h' (by decide)
  · exact h

theorem round53_zero : round53 0 = 0 := by decide

/-! ### values with at most 53 significant bits -/

/-- `m·2^e` with `m < 2^53` is divisible by `2^(log2 − 52)` -/
theorem mod_of_mul_pow (m e : Nat) (hm : m < 2 ^ 53) : (m * 2 ^ e) % 2 ^ ((m * 2 ^ e).log2 - 52) = 0 := by
  rcases Nat.eq_zero_or_pos m with h0 | hpos
  · subst h0; simp
  · have hne : m * 2 ^ e ≠ 0 := Nat.mul_ne_zero (by omega) (Nat.ne_of_gt (Nat.two_pow_pos _))
    have hlt : (m * 2 ^ e).log2 < 53 + e := by
      rw [Nat.log2_lt hne, Nat.pow_add]
      exact (Nat.mul_lt_mul_right (Nat.two_pow_pos _)).2 hm
    have hd : 2 ^ ((m * 2 ^ e).log2 - 52) ∣ 2 ^ e := Nat.pow_dvd_pow 2 (by omega)
    exact Nat.mod_eq_zero_of_dvd (Nat.dvd_trans hd (Nat.dvd_mul_left _ _))

/-- conversely a value divisible by `2^(log2 − 52)` is `m·2^e` with `m < 2^53` -/
theorem mul_pow_of_mod (s : Nat) (h : s % 2 ^ (s.log2 - 52) = 0) :
    ∃ m e, m < 2 ^ 53 ∧ s = m * 2 ^ e := by
  by_cases hs : s < 2 ^ 53
  · exact ⟨s, 0, hs, by simp⟩
  · obtain ⟨k, q, r, _, hk, _, _, hsq, _, _, _, _, hq2, _, hr, _⟩ := round53_anatomy s (by omega)
    refine ⟨q, k, hq2, ?_⟩
    rw [hk] at hr; rw [h] at hr; omega

/-- values with at most 53 significant bits are fixed points of the rounding -/
theorem round53_fix (s : Nat) (h : s % 2 ^ (s.log2 - 52) = 0) : round53 s = s := by
  by_cases hs : s < 2 ^ 53
  · exact round53_small s hs
  · obtain ⟨k, q, r, hh, hk, hk1, _, hsq, _, hX, _, _, _, _, hr, hres⟩ := round53_anatomy s (by omega)
    rw [hk] at hr; rw [h] at hr
    have hpos : 0 < hh := by
      rcases Nat.eq_zero_or_pos hh with h0 | h0
      · have := Nat.two_pow_pos k; omega
      · exact h0
    rcases hres with ⟨e, _⟩ | ⟨_, c⟩
    · rw [e]; omega
    · omega

/-- the result of the rounding has at most 53 significant bits -/
theorem round53_sig (s : Nat) : (round53 s) % 2 ^ ((round53 s).log2 - 52) = 0 := by
  by_cases hs : s < 2 ^ 53
  · rw [round53_small s hs]
    have := mod_of_mul_pow s 0 hs
    simpa using this
  · obtain ⟨k, q, r, _, _, _, _, _, _, _, _, hq1, hq2, _, _, hres⟩ := round53_anatomy s (by omega)
    rcases hres with ⟨e, _⟩ | ⟨e, _⟩
    · rw [e]; exact mod_of_mul_pow q k hq2
    · rw [e]
      by_cases hq : q + 1 < 2 ^ 53
      · exact mod_of_mul_pow (q + 1) k hq
      · have hq' : q + 1 = 2 ^ 53 := by omega
        rw [hq', ← Nat.pow_add]
        have := mod_of_mul_pow 1 (53 + k) (by decide)
        simpa using this

theorem round53_idem (s : Nat) : round53 (round53 s) = round53 s := round53_fix _ (round53_sig s)

/-- scaling by a power of two keeps the number of significant bits -/
theorem sig_mul_pow (s k : Nat) (h : s % 2 ^ (s.log2 - 52) = 0) :
    (s * 2 ^ k) % 2 ^ ((s * 2 ^ k).log2 - 52) = 0 := by
  obtain ⟨m, e, hm, rfl⟩ := mul_pow_of_mod s h
  rw [Nat.mul_assoc, ← Nat.pow_add]
  exact mod_of_mul_pow m (e + k) hm

/-- an integer below `2^53` (times any power of two) is not changed by the rounding -/
theorem round53_int (c k : Nat) (hc : c < 2 ^ 53) : round53 (c * 2 ^ k) = c * 2 ^ k :=
  round53_fix _ (mod_of_mul_pow c k hc)

/-- a multiple of `2^j` rounds to a multiple of `2^j` -/
theorem round53_dvd (s j : Nat) (h : 2 ^ j ∣ s) : 2 ^ j ∣ round53 s := by
  by_cases hs : s < 2 ^ 53
  · rw [round53_small s hs]; exact h
  · obtain ⟨k, q, r, _, hk, _, _, hsq, hr, _, _, _, _, hq, hrr, hres⟩ := round53_anatomy s (by omega)
    by_cases hjk : j ≤ k
    · have hd : 2 ^ j ∣ 2 ^ k := Nat.pow_dvd_pow 2 hjk
      rcases hres with ⟨e, _⟩ | ⟨e, _⟩ <;> rw [e] <;> exact Nat.dvd_trans hd (Nat.dvd_mul_left _ _)
    · -- `k < j`: the dropped bits are all zero, nothing is rounded
      have hd : 2 ^ k ∣ s := Nat.dvd_trans (Nat.pow_dvd_pow 2 (by omega)) h
      have : s % 2 ^ (s.log2 - 52) = 0 := by rw [← hk]; exact Nat.mod_eq_zero_of_dvd hd
      rw [round53_fix s this]; exact h

/-! ### the overflow threshold -/

theorem Thr_lt_Top : Thr < Top := by unfold Thr Top; have := Nat.two_pow_pos 2044; omega

theorem Thr_eq : Thr = (2 ^ 54 - 1) * 2 ^ 2044 := by
  unfold Thr
  rw [Nat.sub_mul, ← Nat.pow_add, Nat.one_mul]

theorem Thr_split : Thr = (2 ^ 53 - 1) * 2 ^ 2045 + 2 ^ 2044 := by decide

/-- an exact result below the threshold `2^1024 − 2^970` rounds to a finite value -/
theorem round53_lt_Top (s : Nat) (h : s < Thr) : round53 s < Top := by
  by_cases hs : s < 2 ^ 53
  · rw [round53_small s hs]; exact Nat.lt_trans h Thr_lt_Top
  · obtain ⟨k, q, r, hh, hk, hk1, hlog, hsq, hr, hX, hhh, hq1, hq2, _, _, hres⟩ := round53_anatomy s (by omega)
    have hs0 : s ≠ 0 := by omega
    have hsT : s < Top := Nat.lt_trans h Thr_lt_Top
    have hl : s.log2 < 2098 := (Nat.log2_lt hs0).2 hsT
    -- k ≤ 2045; if k < 2045 the result is at most 2^53·2^2044; at k = 2045, q·2^k + r < Thr forces no round-up to 2^53
    by_cases hk2 : k < 2045
    · have hle : round53 s ≤ 2 ^ 53 * 2 ^ k := by
        rcases hres with ⟨e, _⟩ | ⟨e, _⟩ <;> rw [e] <;> exact Nat.mul_le_mul_right _ (by omega)
      have : 2 ^ 53 * 2 ^ k < Top := by
        unfold Top; rw [← Nat.pow_add]
        exact Nat.pow_lt_pow_right (by decide) (by omega)
      omega
    · have hk3 : k = 2045 := by omega
      subst hk3
      have hX' : (2 : Nat) ^ 2045 = 2 * 2 ^ 2044 := by rw [← Nat.pow_succ']
      have hh' : hh = 2 ^ 2044 := by omega
      have hT : Top = 2 ^ 53 * 2 ^ 2045 := by unfold Top; rw [← Nat.pow_add]
      have hThr := Thr_split
      rw [hT]
      -- q ≤ 2^53 - 1; if q < 2^53 - 1 even a round-up stays below; if q = 2^53-1 then r < 2^2044 = h: rounds down
      by_cases hq3 : q + 1 < 2 ^ 53
      · have : round53 s ≤ (q + 1) * 2 ^ 2045 := by
          rcases hres with ⟨e, _⟩ | ⟨e, _⟩ <;> rw [e]
          exact Nat.mul_le_mul_right _ (by omega)
          exact Nat.le_refl _
        exact Nat.lt_of_le_of_lt this ((Nat.mul_lt_mul_right (Nat.two_pow_pos _)).2 hq3)
      · have hq4 : q = 2 ^ 53 - 1 := by omega
        have hrh : r < hh := by
          rw [hsq, hThr, hq4] at h; omega
        rcases hres with ⟨e, _⟩ | ⟨_, c⟩
        · rw [e]; exact (Nat.mul_lt_mul_right (Nat.two_pow_pos _)).2 hq2
        · omega

/-- an exact result from the threshold on rounds to `2^1024` or more (`+inf`) -/
theorem round53_ge_Top (s : Nat) (h : Thr ≤ s) : Top ≤ round53 s := by
  have hs53 : 2 ^ 53 ≤ s := by
    have : (2 : Nat) ^ 53 ≤ Thr := by
      rw [Thr_eq]
      calc (2 : Nat) ^ 53 = 2 ^ 53 * 1 := by omega
        _ ≤ (2 ^ 54 - 1) * 2 ^ 2044 := Nat.mul_le_mul (by decide) (Nat.two_pow_pos _)
    omega
  by_cases hsT : Top ≤ s
  · -- already beyond: the rounding loses at most half an ulp but the result is a multiple of 2^k ≥ ...
    obtain ⟨k, q, r, hh, hk, hk1, hlog, hsq, hr, hX, hhh, hq1, hq2, _, _, hres⟩ := round53_anatomy s hs53
    have hs0 : s ≠ 0 := by omega
    have hl : 2098 ≤ s.log2 := (Nat.le_log2 hs0).2 hsT
    have hle : 2 ^ 52 * 2 ^ k ≤ round53 s := by
      rcases hres with ⟨e, _⟩ | ⟨e, _⟩ <;> rw [e] <;> exact Nat.mul_le_mul_right _ (by omega)
    have : Top ≤ 2 ^ 52 * 2 ^ k := by
      unfold Top; rw [← Nat.pow_add]; exact Nat.pow_le_pow_right (by decide) (by omega)
    omega
  · obtain ⟨k, q, r, hh, hk, hk1, hlog, hsq, hr, hX, hhh, hq1, hq2, _, _, hres⟩ := round53_anatomy s hs53
    have hs0 : s ≠ 0 := by omega
    have hl1 : s.log2 < 2098 := (Nat.log2_lt hs0).2 (by unfold Top at hsT; omega)
    have hl2 : 2097 ≤ s.log2 := by
      rw [Nat.le_log2 hs0]
      have : (2 : Nat) ^ 2097 ≤ Thr := by
        unfold Thr
        have e1 : (2 : Nat) ^ 2098 = 2 * 2 ^ 2097 := by rw [← Nat.pow_succ']
        have e2 : (2 : Nat) ^ 2044 ≤ 2 ^ 2097 := Nat.pow_le_pow_right (by decide) (by decide)
        omega
      omega
    have hk3 : k = 2045 := by omega
    subst hk3
    have hX' : (2 : Nat) ^ 2045 = 2 * 2 ^ 2044 := by rw [← Nat.pow_succ']
    have hh' : hh = 2 ^ 2044 := by omega
    have hT : Top = 2 ^ 53 * 2 ^ 2045 := by unfold Top; rw [← Nat.pow_add]
    have hThr := Thr_split
    -- q = 2^53 - 1 and r ≥ h: rounds up (at r = h, q is odd)
    have hq4 : q = 2 ^ 53 - 1 := by
      rcases Nat.lt_or_ge q (2 ^ 53 - 1) with hlt | hge
      · exfalso
        have : q * 2 ^ 2045 + 2 ^ 2045 ≤ (2 ^ 53 - 1) * 2 ^ 2045 := by
          have := Nat.mul_le_mul_right (2 ^ 2045) (show q + 1 ≤ 2 ^ 53 - 1 by omega)
          rw [Nat.add_mul, Nat.one_mul] at this; exact this
        rw [hsq, hThr] at h; omega
      · omega
    have hrh : hh ≤ r := by rw [hsq, hThr, hq4] at h; omega
    rcases hres with ⟨_, c⟩ | ⟨e, _⟩
    · exfalso
      rcases c with c | ⟨_, c⟩
      · omega
      · rw [hq4] at c; exact absurd c (by decide)
    · rw [e, hT, hq4, show (2 : Nat) ^ 53 - 1 + 1 = 2 ^ 53 from by decide]; exact Nat.le_refl _

/-! ### the operations -/

/-- **rounding lemma for the addition** of two finite values: the result is `+inf` exactly when the exact
    sum reaches `2^1024 − 2^970`; otherwise it is a binary64 value `r` with `2^53·|r − (a+b)| ≤ a+b` -/
theorem add_fin (a b : Nat) :
    (a + b < Thr → ∃ r, add (fin a) (fin b) = fin r ∧ Rep r ∧
        2 ^ 53 * (r - (a + b)) ≤ a + b ∧ 2 ^ 53 * ((a + b) - r) ≤ a + b) ∧
    (Thr ≤ a + b → add (fin a) (fin b) = inf) := by
  constructor
  · intro h
    refine ⟨round53 (a + b), ?_, ⟨round53_lt_Top _ h, round53_sig _⟩, (round53_rel _).1, (round53_rel _).2⟩
    show ofExact (a + b) = _
    unfold ofExact; simp only; rw [if_pos (round53_lt_Top _ h)]
  · intro h
    show ofExact (a + b) = _
    unfold ofExact; simp only; rw [if_neg (by have := round53_ge_Top _ h; omega)]

theorem add_inf_left (x : F64) (hx : x ≠ nan) : add inf x = inf := by
  cases x <;> simp_all [add]
theorem add_inf_right (x : F64) (hx : x ≠ nan) : add x inf = inf := by
  cases x <;> simp_all [add]

/-- the addition is commutative (so the order `low + high` of the Rust code is immaterial) -/
theorem add_comm (x y : F64) : add x y = add y x := by
  cases x <;> cases y <;> simp [add, Nat.add_comm]

/-- **`mulPow2` is exact** on binary64 values: `x·2^k` without any rounding when `k ≤ 1023` and the
    product is below `2^1024`; `+inf` when `x ≠ 0` and the product (or the power alone) reaches `2^1024`;
    NaN only for `0·2^k`, `k ≥ 1024` -/
theorem mulPow2_fin (s k : Nat) :
    (k < 1024 → s * 2 ^ k < Top → mulPow2 (fin s) k = fin (s * 2 ^ k)) ∧
    (k < 1024 → Top ≤ s * 2 ^ k → mulPow2 (fin s) k = inf) ∧
    (1024 ≤ k → s ≠ 0 → mulPow2 (fin s) k = inf) ∧
    (1024 ≤ k → mulPow2 (fin 0) k = nan) := by
  refine ⟨?_, ?_, ?_, ?_⟩
  · intro hk h; unfold mulPow2 pow2i; rw [if_pos hk]; simp only; rw [if_pos h]
  · intro hk h; unfold mulPow2 pow2i; rw [if_pos hk]; simp only; rw [if_neg (by omega)]
  · intro hk h; unfold mulPow2 pow2i; rw [if_neg (by omega)]
    cases s with
    | zero => exact absurd rfl h
    | succ s => rfl
  · intro hk; unfold mulPow2 pow2i; rw [if_neg (show ¬ k < 1024 by omega)]; rfl

theorem mulPow2_rep (s k : Nat) (h : Rep s) (hlt : s * 2 ^ k < Top) : Rep (s * 2 ^ k) :=
  ⟨hlt, sig_mul_pow s k h.2⟩

theorem mulPow2_inf (k : Nat) : mulPow2 inf k = inf := by
  unfold mulPow2; cases pow2i k <;> rfl

theorem scale_zero (k : Nat) : scale zero k = zero := rfl
theorem scale_fin_pos (s k : Nat) (hs : s ≠ 0) : scale (fin s) k = mulPow2 (fin s) k := by
  unfold scale isZero
  cases s with
  | zero => exact absurd rfl hs
  | succ s => rfl
theorem scale_inf (k : Nat) : scale inf k = inf := by
  unfold scale; simp [isZero, mulPow2_inf]

theorem rep_zero : Rep 0 := ⟨Nat.two_pow_pos _, Nat.zero_mod _⟩
theorem rep_U : Rep U := by
  refine ⟨Nat.pow_lt_pow_right (by decide) (by decide), ?_⟩
  have := mod_of_mul_pow 1 1074 (by decide)
  rw [Nat.one_mul] at this
  unfold U; exact this

/-! ### bit patterns -/

/-- `from_bits(to_bits(x)) = x` for every binary64 value of the model -/
theorem ofBits_toBits (x : F64) (hx : Valid x) : ofBits (toBits x) = x := by
  cases x with
  | inf => decide
  | nan => decide
  | fin s =>
    obtain ⟨hT, hsig⟩ := hx
    show ofBits (if s < 2 ^ 52 then s else (s.log2 - 52) * 2 ^ 52 + s / 2 ^ (s.log2 - 52)) = fin s
    by_cases hs : s < 2 ^ 52
    · rw [if_pos hs]
      unfold ofBits
      simp only
      rw [Nat.div_eq_of_lt hs, Nat.mod_eq_of_lt hs]; simp
    · rw [if_neg hs]
      have hs0 : s ≠ 0 := by
        intro h0; rw [h0] at hs; exact hs (by decide)
      have hlog : 52 ≤ s.log2 := (Nat.le_log2 hs0).2 (by omega)
      have hl : s.log2 < 2098 := (Nat.log2_lt hs0).2 hT
      generalize hk : s.log2 - 52 = k at *
      have hq1 : 2 ^ 52 ≤ s / 2 ^ k := by
        rw [Nat.le_div_iff_mul_le (Nat.two_pow_pos _), ← Nat.pow_add]
        have : 52 + k = s.log2 := by omega
        rw [this]; exact Nat.log2_self_le hs0
      have hq2 : s / 2 ^ k < 2 ^ 53 := by
        rw [Nat.div_lt_iff_lt_mul (Nat.two_pow_pos _), ← Nat.pow_add]
        have : 53 + k = s.log2 + 1 := by omega
        rw [this]; exact Nat.lt_log2_self
      generalize hq : s / 2 ^ k = q at *
      have hb : k * 2 ^ 52 + q = (k + 1) * 2 ^ 52 + (q - 2 ^ 52) := by
        rw [Nat.add_mul, Nat.one_mul]; omega
      have hm : q - 2 ^ 52 < 2 ^ 52 := by omega
      unfold ofBits
      simp only
      rw [hb]
      have e1 : ((k + 1) * 2 ^ 52 + (q - 2 ^ 52)) / 2 ^ 52 = k + 1 := by
        rw [Nat.mul_comm, Nat.mul_add_div (Nat.two_pow_pos _), Nat.div_eq_of_lt hm]
      have e2 : ((k + 1) * 2 ^ 52 + (q - 2 ^ 52)) % 2 ^ 52 = q - 2 ^ 52 := by
        rw [Nat.mul_comm, Nat.mul_add_mod, Nat.mod_eq_of_lt hm]
      have n1 : ¬ (k + 1 = 0) := by omega
      have n2 : ¬ (k + 1 ≥ 2047) := by omega
      rw [e1, e2, if_neg n1, if_neg n2]
      have e3 : 2 ^ 52 + (q - 2 ^ 52) = q := by omega
      rw [e3, Nat.add_sub_cancel]
      apply congrArg fin
      have := Nat.div_add_mod s (2 ^ k)
      rw [hsig, hq] at this
      rw [Nat.mul_comm]; omega

/-- the bit pattern has sign bit 0 -/
theorem toBits_lt (x : F64) (hx : Valid x) : toBits x < 2 ^ 63 := by
  cases x with
  | inf => decide
  | nan => decide
  | fin s =>
    obtain ⟨hT, hsig⟩ := hx
    show (if s < 2 ^ 52 then s else (s.log2 - 52) * 2 ^ 52 + s / 2 ^ (s.log2 - 52)) < 2 ^ 63
    by_cases hs : s < 2 ^ 52
    · rw [if_pos hs]; exact Nat.lt_trans hs (by decide)
    · rw [if_neg hs]
      have hs0 : s ≠ 0 := by
        intro h0; rw [h0] at hs; exact hs (by decide)
      have hlog : 52 ≤ s.log2 := (Nat.le_log2 hs0).2 (by omega)
      have hl : s.log2 < 2098 := (Nat.log2_lt hs0).2 hT
      generalize hk : s.log2 - 52 = k at *
      have hq2 : s / 2 ^ k < 2 ^ 53 := by
        rw [Nat.div_lt_iff_lt_mul (Nat.two_pow_pos _), ← Nat.pow_add]
        have : 53 + k = s.log2 + 1 := by omega
        rw [this]; exact Nat.lt_log2_self
      have : k * 2 ^ 52 ≤ 2045 * 2 ^ 52 := Nat.mul_le_mul_right _ (by omega)
      omega

/-- distinct binary64 values have distinct bit patterns -/
theorem toBits_inj (x y : F64) (hx : Valid x) (hy : Valid y) (h : toBits x = toBits y) : x = y := by
  rw [← ofBits_toBits x hx, ← ofBits_toBits y hy, h]

end B.F64
