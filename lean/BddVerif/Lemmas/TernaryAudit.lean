import BddVerif.Lemmas.Ternary5
/-! Axiom audit of the ternary / `not` development: every line must list a subset of
    {propext, Classical.choice, Quot.sound}. -/
#print axioms B.ternaryApply_eq_canon
#print axioms B.ternaryApply_den
#print axioms B.ternary_eager_lazy
#print axioms B.ternaryApply_red
#print axioms B.ternaryApply_canonical
#print axioms B.consistent3_of_check
#print axioms B.consistent2_of_check
#print axioms B.ite_consistent3
#print axioms B.ite_eq_canon
#print axioms B.ite_den
#print axioms B.iteEager_consistent3
#print axioms B.applyRec3_spec
#print axioms B.inv_initSt3
#print axioms B.ins_neg
#print axioms B.red_negArr
#print axioms B.ev_negArr
#print axioms B.bddNot_red
#print axioms B.bddNot_ev
#print axioms B.bddNot_den
#print axioms B.bddNot_canon
#print axioms B.bddNot_canonical
#print axioms B.bddNot_bddNot_canon
