import BddVerif.Lemmas.AlgoEq2NFMk
import BddVerif.Drive.Algo2
/-!
# Equivalence "translated Rust = hand-written model" for `mk_dnf` / `mk_cnf`: the theorems

About the GENERATED definitions `B.Gen.Algo2.Bdd_mk_dnf___rec`, `Bdd_mk_dnf`, `BddVariableSet_mk_dnf`,
`Bdd_mk_cnf___rec`, `Bdd_mk_cnf`, `BddVariableSet_mk_cnf` (regenerated from src/_impl_bdd/_impl_dnf.rs:10-57,
src/_impl_bdd/_impl_cnf.rs:9-56, src/_impl_bdd_variable_set.rs:228-237 on every run).

Domain: clause lists over the variable set (`InRange n c` for every clause — the domain of `Props.C10.mk_dnf_spec` /
`mk_cnf_spec`), every clause a vector of at most `2^16` cells (`BddVariable` is a `u16`).

Sizes: the recursion combines intermediate results with the translated `or` / `and` (`apply_with_flip`), whose
equivalence theorem needs `|L|·|R| + 2 ≤ 2^32` and fuel `3·|L|·|R|`. Every intermediate result is the canonical array of
the disjunction (conjunction) of a SUB-LIST of the input, so the hypothesis is
  `hS : ∀ ds, ds.Sublist cs → (canon n (dnfFn ds)).size ≤ S`   with   `S·S + 2 ≤ 2^32`
(an assumption "all intermediate results have at most `S` nodes"), and the sufficient fuel is `n + 2 + 3·S·S`:
one unit per recursion level / loop round (`≤ n + 2` in total along a branch) plus the fuel of one `apply`.
The closed form `S = 2^n + 1` (`canon_size_le`) removes the assumption for `n ≤ 15`; the driver's fuel `10^9` suffices for
`n ≤ 14` in closed form, and in general as soon as `n + 2 + 3·S·S ≤ 10^9`.

* `Bdd_mk_dnf___rec_eq_model`, `Bdd_mk_dnf_eq_model`, `Bdd_mk_dnf_eq_canon`, `Bdd_mk_dnf_eq_canon_closed`,
  `BddVariableSet_mk_dnf_eq_model`, `BddVariableSet_mk_dnf_eq_canon_driver`, `BddVariableSet_mk_dnf_eq_canon_driver_closed`
* the same for `cnf`, plus `mk_disjunctive_clause_eq_model` (AlgoEq2NFMk.lean).
-/
namespace B.AlgoEq2NF
open B B.NF B.Gen B.Gen.Algo B.Gen.Algo2 B.AlgoEqUtil

attribute [local instance 10000] Rust.monadOutcomeInline

abbrev VarSet := Nat × Array String × Std.HashMap String Nat

theorem toL_inRange {n : Nat} {cl : Cl} (hr : ∀ c, c ∈ cl.toList → InRange n c.toList) : ∀ c ∈ toL cl, InRange n c := by
  intro c hc
  unfold toL at hc
  rw [List.mem_map] at hc
  obtain ⟨a, ha, rfl⟩ := hc
  exact hr a ha

/-! ## `mk_dnf` -/

/-- **`Bdd::mk_dnf::_rec` as translated = `mkDnfRec`** at any level `var = n - k` (clauses agreeing below `var`, as
    they do in every recursive call that starts from `var = 0`). -/
theorem Bdd_mk_dnf___rec_eq_model (n S k var : Nat) (dnf : Cl) (hvk : var + k = n)
    (hr : ∀ c, c ∈ dnf.toList → InRange n c.toList) (hlen : ∀ c, c ∈ dnf.toList → c.size ≤ 65536)
    (hag : Agree var (toL dnf))
    (hS : ∀ ds, ds.Sublist (toL dnf) → (canon n (dnfFn ds)).size ≤ S) (h32 : S * S + 2 ≤ 2 ^ 32)
    (fuel : Nat) (hfuel : k + 2 + 3 * (S * S) ≤ fuel) :
    Bdd_mk_dnf___rec fuel var n dnf = mkDnfRec n k (toL dnf) := by
  have hv : n - k = var := by omega
  obtain ⟨r, e, _⟩ := mkDnfRec_spec n k (toL dnf) (by omega) (toL_inRange hr) (by rw [hv]; exact hag)
  rw [dnf_desugar, e]
  rw [mkDnfRec_eq_genRec] at e
  exact tRec_eq_genRec (dnfCfg n) (PairOK n S) (3 * (S * S)) (fun f A B hP hf => Bdd_or_eq_model h32 f A B hP hf)
    k fuel var dnf r hvk hfuel
    (fun x hx r h => (AlgoEqR.mk_partial_valuation_eq_model n x (hlen x hx)).trans h)
    (dnf_combOK n S (toL dnf) hS k (toL dnf) (by omega) (List.Sublist.refl _) (toL_inRange hr) (by rw [hv]; exact hag)) e

/-- **`Bdd::mk_dnf` as translated = `mkDnf`** -/
theorem Bdd_mk_dnf_eq_model (n S : Nat) (dnf : Cl)
    (hr : ∀ c, c ∈ dnf.toList → InRange n c.toList) (hlen : ∀ c, c ∈ dnf.toList → c.size ≤ 65536)
    (hS : ∀ ds, ds.Sublist (toL dnf) → (canon n (dnfFn ds)).size ≤ S) (h32 : S * S + 2 ≤ 2 ^ 32)
    (fuel : Nat) (hfuel : n + 2 + 3 * (S * S) ≤ fuel) :
    Bdd_mk_dnf fuel n dnf = mkDnf n (toL dnf) := by
  unfold Bdd_mk_dnf mkDnf
  show Bdd_mk_dnf___rec fuel 0 n dnf = _
  rw [Bdd_mk_dnf___rec_eq_model n S n 0 dnf (by omega) hr hlen (by intro c _ d _ i hi; omega) hS h32 fuel hfuel]

/-- chained with `Props.C10.mk_dnf_spec`: THE TRANSLATED `mk_dnf` returns the canonical array of the disjunction of the
    conjunctive clauses -/
theorem Bdd_mk_dnf_eq_canon (n S : Nat) (dnf : Cl)
    (hr : ∀ c, c ∈ dnf.toList → InRange n c.toList) (hlen : ∀ c, c ∈ dnf.toList → c.size ≤ 65536)
    (hS : ∀ ds, ds.Sublist (toL dnf) → (canon n (dnfFn ds)).size ≤ S) (h32 : S * S + 2 ≤ 2 ^ 32)
    (fuel : Nat) (hfuel : n + 2 + 3 * (S * S) ≤ fuel) :
    Bdd_mk_dnf fuel n dnf = .ok (canon n (dnfFn (toL dnf))) := by
  rw [Bdd_mk_dnf_eq_model n S dnf hr hlen hS h32 fuel hfuel]
  obtain ⟨r, e, hc, _⟩ := Props.C10.mk_dnf_spec n (toL dnf) (toL_inRange hr)
  rw [e, hc]

theorem closed_bounds {n : Nat} (hn : n ≤ 15) : (2 ^ n + 1) * (2 ^ n + 1) + 2 ≤ 2 ^ 32 := by
  have h : 2 ^ n ≤ 2 ^ 15 := Nat.pow_le_pow_right (by omega) hn
  have h2 : (2 ^ n + 1) * (2 ^ n + 1) ≤ (2 ^ 15 + 1) * (2 ^ 15 + 1) := Nat.mul_le_mul (by omega) (by omega)
  omega

/-- closed form (no size assumption): at most 15 variables, fuel `n + 2 + 3·(2^n + 1)²` -/
theorem Bdd_mk_dnf_eq_canon_closed (n : Nat) (dnf : Cl) (hn : n ≤ 15)
    (hr : ∀ c, c ∈ dnf.toList → InRange n c.toList) (hlen : ∀ c, c ∈ dnf.toList → c.size ≤ 65536)
    (fuel : Nat) (hfuel : n + 2 + 3 * ((2 ^ n + 1) * (2 ^ n + 1)) ≤ fuel) :
    Bdd_mk_dnf fuel n dnf = .ok (canon n (dnfFn (toL dnf))) :=
  Bdd_mk_dnf_eq_canon n (2 ^ n + 1) dnf hr hlen (fun _ _ => canon_size_le n _) (closed_bounds hn) fuel hfuel

/-- **`BddVariableSet::mk_dnf` as translated = `mkDnf`** -/
theorem BddVariableSet_mk_dnf_eq_model (set : VarSet) (S : Nat) (dnf : Cl)
    (hr : ∀ c, c ∈ dnf.toList → InRange set.1 c.toList) (hlen : ∀ c, c ∈ dnf.toList → c.size ≤ 65536)
    (hS : ∀ ds, ds.Sublist (toL dnf) → (canon set.1 (dnfFn ds)).size ≤ S) (h32 : S * S + 2 ≤ 2 ^ 32)
    (fuel : Nat) (hfuel : set.1 + 2 + 3 * (S * S) ≤ fuel) :
    BddVariableSet_mk_dnf fuel set dnf = mkDnf set.1 (toL dnf) := by
  unfold BddVariableSet_mk_dnf
  rw [Bdd_mk_dnf_eq_model set.1 S dnf hr hlen hS h32 fuel hfuel]

/-- with the fuel the driver passes (`Drive/Algo2.lean`: `fuelHuge = 10^9`) -/
theorem BddVariableSet_mk_dnf_eq_canon_driver (set : VarSet) (S : Nat) (dnf : Cl)
    (hr : ∀ c, c ∈ dnf.toList → InRange set.1 c.toList) (hlen : ∀ c, c ∈ dnf.toList → c.size ≤ 65536)
    (hS : ∀ ds, ds.Sublist (toL dnf) → (canon set.1 (dnfFn ds)).size ≤ S) (h32 : S * S + 2 ≤ 2 ^ 32)
    (hfuel : set.1 + 2 + 3 * (S * S) ≤ 1000000000) :
    BddVariableSet_mk_dnf Drive.Algo2.fuelHuge set dnf = .ok (canon set.1 (dnfFn (toL dnf))) := by
  unfold Drive.Algo2.fuelHuge
  rw [BddVariableSet_mk_dnf_eq_model set S dnf hr hlen hS h32 _ hfuel]
  obtain ⟨r, e, hc, _⟩ := Props.C10.mk_dnf_spec set.1 (toL dnf) (toL_inRange hr)
  rw [e, hc]

theorem closed_fuel {n : Nat} (hn : n ≤ 14) : n + 2 + 3 * ((2 ^ n + 1) * (2 ^ n + 1)) ≤ 1000000000 := by
  have h : 2 ^ n ≤ 2 ^ 14 := Nat.pow_le_pow_right (by omega) hn
  have h2 : (2 ^ n + 1) * (2 ^ n + 1) ≤ (2 ^ 14 + 1) * (2 ^ 14 + 1) := Nat.mul_le_mul (by omega) (by omega)
  omega

/-- the driver's call, closed form: any clause list over at most 14 variables -/
theorem BddVariableSet_mk_dnf_eq_canon_driver_closed (set : VarSet) (dnf : Cl) (hn : set.1 ≤ 14)
    (hr : ∀ c, c ∈ dnf.toList → InRange set.1 c.toList) (hlen : ∀ c, c ∈ dnf.toList → c.size ≤ 65536) :
    BddVariableSet_mk_dnf Drive.Algo2.fuelHuge set dnf = .ok (canon set.1 (dnfFn (toL dnf))) :=
  BddVariableSet_mk_dnf_eq_canon_driver set (2 ^ set.1 + 1) dnf hr hlen (fun _ _ => canon_size_le _ _)
    (closed_bounds (by omega)) (closed_fuel hn)

/-! ## `mk_cnf` -/

/-- **`Bdd::mk_cnf::_rec` as translated = `mkCnfRec`** -/
theorem Bdd_mk_cnf___rec_eq_model (ctx : VarSet) (S k var : Nat) (cnf : Cl) (hvk : var + k = ctx.1)
    (hr : ∀ c, c ∈ cnf.toList → InRange ctx.1 c.toList) (hlen : ∀ c, c ∈ cnf.toList → c.size ≤ 65536)
    (hag : Agree var (toL cnf))
    (hS : ∀ ds, ds.Sublist (toL cnf) → (canon ctx.1 (cnfFn ds)).size ≤ S) (h32 : S * S + 2 ≤ 2 ^ 32)
    (fuel : Nat) (hfuel : k + 2 + 3 * (S * S) ≤ fuel) :
    Bdd_mk_cnf___rec fuel var ctx cnf = mkCnfRec ctx.1 k (toL cnf) := by
  have hv : ctx.1 - k = var := by omega
  obtain ⟨r, e, _⟩ := mkCnfRec_spec ctx.1 k (toL cnf) (by omega) (toL_inRange hr) (by rw [hv]; exact hag)
  rw [cnf_desugar, e]
  rw [mkCnfRec_eq_genRec] at e
  exact tRec_eq_genRec (cnfCfg ctx) (PairOK ctx.1 S) (3 * (S * S))
    (fun f A B hP hf => Bdd_and_eq_model h32 f A B hP hf)
    k fuel var cnf r hvk hfuel
    (fun x hx r h => (mk_disjunctive_clause_eq_model ctx x (hr x hx) (hlen x hx)).trans h)
    (cnf_combOK ctx S (toL cnf) hS k (toL cnf) (by omega) (List.Sublist.refl _) (toL_inRange hr)
      (by rw [hv]; exact hag)) e

/-- **`Bdd::mk_cnf` as translated = `mkCnf`** -/
theorem Bdd_mk_cnf_eq_model (ctx : VarSet) (S : Nat) (cnf : Cl)
    (hr : ∀ c, c ∈ cnf.toList → InRange ctx.1 c.toList) (hlen : ∀ c, c ∈ cnf.toList → c.size ≤ 65536)
    (hS : ∀ ds, ds.Sublist (toL cnf) → (canon ctx.1 (cnfFn ds)).size ≤ S) (h32 : S * S + 2 ≤ 2 ^ 32)
    (fuel : Nat) (hfuel : ctx.1 + 2 + 3 * (S * S) ≤ fuel) :
    Bdd_mk_cnf fuel ctx cnf = mkCnf ctx.1 (toL cnf) := by
  unfold Bdd_mk_cnf mkCnf
  show Bdd_mk_cnf___rec fuel 0 ctx cnf = _
  rw [Bdd_mk_cnf___rec_eq_model ctx S ctx.1 0 cnf (by omega) hr hlen (by intro c _ d _ i hi; omega) hS h32 fuel hfuel]

/-- chained with `Props.C10.mk_cnf_spec`: THE TRANSLATED `mk_cnf` returns the canonical array of the conjunction of the
    disjunctive clauses -/
theorem Bdd_mk_cnf_eq_canon (ctx : VarSet) (S : Nat) (cnf : Cl)
    (hr : ∀ c, c ∈ cnf.toList → InRange ctx.1 c.toList) (hlen : ∀ c, c ∈ cnf.toList → c.size ≤ 65536)
    (hS : ∀ ds, ds.Sublist (toL cnf) → (canon ctx.1 (cnfFn ds)).size ≤ S) (h32 : S * S + 2 ≤ 2 ^ 32)
    (fuel : Nat) (hfuel : ctx.1 + 2 + 3 * (S * S) ≤ fuel) :
    Bdd_mk_cnf fuel ctx cnf = .ok (canon ctx.1 (cnfFn (toL cnf))) := by
  rw [Bdd_mk_cnf_eq_model ctx S cnf hr hlen hS h32 fuel hfuel]
  obtain ⟨r, e, hc, _⟩ := Props.C10.mk_cnf_spec ctx.1 (toL cnf) (toL_inRange hr)
  rw [e, hc]

theorem Bdd_mk_cnf_eq_canon_closed (ctx : VarSet) (cnf : Cl) (hn : ctx.1 ≤ 15)
    (hr : ∀ c, c ∈ cnf.toList → InRange ctx.1 c.toList) (hlen : ∀ c, c ∈ cnf.toList → c.size ≤ 65536)
    (fuel : Nat) (hfuel : ctx.1 + 2 + 3 * ((2 ^ ctx.1 + 1) * (2 ^ ctx.1 + 1)) ≤ fuel) :
    Bdd_mk_cnf fuel ctx cnf = .ok (canon ctx.1 (cnfFn (toL cnf))) :=
  Bdd_mk_cnf_eq_canon ctx (2 ^ ctx.1 + 1) cnf hr hlen (fun _ _ => canon_size_le _ _) (closed_bounds hn) fuel hfuel

/-- **`BddVariableSet::mk_cnf` as translated = `mkCnf`** -/
theorem BddVariableSet_mk_cnf_eq_model (set : VarSet) (S : Nat) (cnf : Cl)
    (hr : ∀ c, c ∈ cnf.toList → InRange set.1 c.toList) (hlen : ∀ c, c ∈ cnf.toList → c.size ≤ 65536)
    (hS : ∀ ds, ds.Sublist (toL cnf) → (canon set.1 (cnfFn ds)).size ≤ S) (h32 : S * S + 2 ≤ 2 ^ 32)
    (fuel : Nat) (hfuel : set.1 + 2 + 3 * (S * S) ≤ fuel) :
    BddVariableSet_mk_cnf fuel set cnf = mkCnf set.1 (toL cnf) := by
  unfold BddVariableSet_mk_cnf
  rw [Bdd_mk_cnf_eq_model set S cnf hr hlen hS h32 fuel hfuel]

theorem BddVariableSet_mk_cnf_eq_canon_driver (set : VarSet) (S : Nat) (cnf : Cl)
    (hr : ∀ c, c ∈ cnf.toList → InRange set.1 c.toList) (hlen : ∀ c, c ∈ cnf.toList → c.size ≤ 65536)
    (hS : ∀ ds, ds.Sublist (toL cnf) → (canon set.1 (cnfFn ds)).size ≤ S) (h32 : S * S + 2 ≤ 2 ^ 32)
    (hfuel : set.1 + 2 + 3 * (S * S) ≤ 1000000000) :
    BddVariableSet_mk_cnf Drive.Algo2.fuelHuge set cnf = .ok (canon set.1 (cnfFn (toL cnf))) := by
  unfold Drive.Algo2.fuelHuge
  rw [BddVariableSet_mk_cnf_eq_model set S cnf hr hlen hS h32 _ hfuel]
  obtain ⟨r, e, hc, _⟩ := Props.C10.mk_cnf_spec set.1 (toL cnf) (toL_inRange hr)
  rw [e, hc]

theorem BddVariableSet_mk_cnf_eq_canon_driver_closed (set : VarSet) (cnf : Cl) (hn : set.1 ≤ 14)
    (hr : ∀ c, c ∈ cnf.toList → InRange set.1 c.toList) (hlen : ∀ c, c ∈ cnf.toList → c.size ≤ 65536) :
    BddVariableSet_mk_cnf Drive.Algo2.fuelHuge set cnf = .ok (canon set.1 (cnfFn (toL cnf))) :=
  BddVariableSet_mk_cnf_eq_canon_driver set (2 ^ set.1 + 1) cnf hr hlen (fun _ _ => canon_size_le _ _)
    (closed_bounds (by omega)) (closed_fuel hn)

/-! ## non-vacuity: concrete inputs satisfying all hypotheses

`Std.HashMap` does not reduce in the kernel, so the runs of the GENERATED functions are pinned through the theorems; the
specification side (`canon …`) is evaluated by `decide`. -/

/-- `x0 ∧ ¬x2` (3 cells), `¬x1` (2 cells: shorter than `num_vars`) and `¬x1` again with a trailing `None` (3 cells):
    two of the three vectors are equal under `PartialEq` but different as vectors -/
def exCl : Cl := #[#[some true, none, some false], #[none, some false], #[none, some false, none]]

theorem exCl_toL : toL exCl = [Props.C10.exC1, Props.C10.exC2, Props.C10.exC2'] := rfl

theorem exCl_inRange : ∀ c, c ∈ exCl.toList → InRange 3 c.toList := by
  intro c hc
  simp only [exCl, List.mem_cons, List.not_mem_nil, or_false] at hc
  rcases hc with rfl | rfl | rfl
  · exact Props.C10.exC1_inRange
  · exact Props.C10.exC2_inRange
  · exact Props.C10.exC2'_inRange

theorem exCl_len : ∀ c, c ∈ exCl.toList → c.size ≤ 65536 := by decide

/-- all sub-lists (as `List.Sublist`) of a list -/
def subs {α} : List α → List (List α)
  | [] => [[]]
  | a :: t => subs t ++ (subs t).map (a :: ·)

theorem mem_subs {α} {ds l : List α} (h : ds.Sublist l) : ds ∈ subs l := by
  induction h with
  | slnil => simp [subs]
  | cons a _ ih => simp only [subs, List.mem_append]; exact Or.inl ih
  | cons_cons a _ ih =>
    simp only [subs, List.mem_append, List.mem_map]
    exact Or.inr ⟨_, ih, rfl⟩

/-- the generated `mk_dnf`, closed-form fuel `3 + 2 + 3·9·9 = 248`: the canonical array of `¬x1 ∨ (x0 ∧ ¬x2)` -/
example : Bdd_mk_dnf 248 3 exCl = .ok #[⟨3, 0, 0⟩, ⟨3, 1, 1⟩, ⟨2, 1, 0⟩, ⟨1, 1, 2⟩, ⟨1, 1, 0⟩, ⟨0, 4, 3⟩] :=
  (Bdd_mk_dnf_eq_canon_closed 3 exCl (by decide) exCl_inRange exCl_len 248 (by decide)).trans
    (congrArg Outcome.ok (by decide))

/-- the size hypothesis `hS` checked on the eight sub-lists (`S = 6`): fuel `3 + 2 + 3·6·6 = 113` suffices -/
example : Bdd_mk_dnf 113 3 exCl = .ok #[⟨3, 0, 0⟩, ⟨3, 1, 1⟩, ⟨2, 1, 0⟩, ⟨1, 1, 2⟩, ⟨1, 1, 0⟩, ⟨0, 4, 3⟩] :=
  (Bdd_mk_dnf_eq_canon 3 6 exCl exCl_inRange exCl_len
    (fun ds h => (by decide : ∀ ds ∈ subs [Props.C10.exC1, Props.C10.exC2, Props.C10.exC2'],
      (canon 3 (dnfFn ds)).size ≤ 6) ds (mem_subs h))
    (by decide) 113 (by decide)).trans (congrArg Outcome.ok (by decide))

/-- the driver's call (`fuelHuge`) on a variable set with three variables -/
example : BddVariableSet_mk_dnf Drive.Algo2.fuelHuge (3, #["a", "b", "c"], {}) exCl =
    .ok #[⟨3, 0, 0⟩, ⟨3, 1, 1⟩, ⟨2, 1, 0⟩, ⟨1, 1, 2⟩, ⟨1, 1, 0⟩, ⟨0, 4, 3⟩] :=
  (BddVariableSet_mk_dnf_eq_canon_driver_closed (3, #["a", "b", "c"], {}) exCl (by decide) exCl_inRange exCl_len).trans
    (congrArg Outcome.ok (by decide))

/-- the generated `mk_cnf` on the same vectors read as disjunctive clauses: `(x0 ∨ ¬x2) ∧ ¬x1` -/
example : Bdd_mk_cnf 248 (3, #["a", "b", "c"], {}) exCl =
    .ok #[⟨3, 0, 0⟩, ⟨3, 1, 1⟩, ⟨1, 1, 0⟩, ⟨2, 1, 0⟩, ⟨1, 3, 0⟩, ⟨0, 4, 2⟩] :=
  (Bdd_mk_cnf_eq_canon_closed (3, #["a", "b", "c"], {}) exCl (by decide) exCl_inRange exCl_len 248 (by decide)).trans
    (congrArg Outcome.ok (by decide))

example : BddVariableSet_mk_cnf Drive.Algo2.fuelHuge (3, #["a", "b", "c"], {}) exCl =
    .ok #[⟨3, 0, 0⟩, ⟨3, 1, 1⟩, ⟨1, 1, 0⟩, ⟨2, 1, 0⟩, ⟨1, 3, 0⟩, ⟨0, 4, 2⟩] :=
  (BddVariableSet_mk_cnf_eq_canon_driver_closed (3, #["a", "b", "c"], {}) exCl (by decide) exCl_inRange exCl_len).trans
    (congrArg Outcome.ok (by decide))

/-- the empty lists: `false` / `true` -/
example : Bdd_mk_dnf 248 3 #[] = .ok #[⟨3, 0, 0⟩] :=
  (Bdd_mk_dnf_eq_canon_closed 3 #[] (by decide) (by intro c hc; cases hc) (by decide) 248 (by decide)).trans
    (congrArg Outcome.ok (by decide))
example : Bdd_mk_cnf 248 (3, #[], {}) #[] = .ok #[⟨3, 0, 0⟩, ⟨3, 1, 1⟩] :=
  (Bdd_mk_cnf_eq_canon_closed (3, #[], {}) #[] (by decide) (by intro c hc; cases hc) (by decide) 248 (by decide)).trans
    (congrArg Outcome.ok (by decide))
/-- fuel exhaustion is a panic, not a wrong answer -/
example : Bdd_mk_dnf 0 3 exCl = .panic "fuel" := rfl

end B.AlgoEq2NF
