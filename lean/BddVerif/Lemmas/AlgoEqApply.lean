import BddVerif.Lemmas.AlgoEqApplySim
import BddVerif.Drive.Algo
/-!
Equivalence "translated Rust = hand-written model" for `apply_with_flip`
(src/_impl_bdd/_impl_boolean_ops.rs:234, explicit task stack with `finished`/`existing` hash maps), part 4:
the top-level theorems

* `apply_with_flip_eq_model`  : `Gen.Algo.apply_with_flip fuel L R fl fr fo op = .ok (applyWithFlip L R op fl fr fo)`
  for operands well formed by level, a table total on terminal pairs, flips in range, `3 · |L| · |R| ≤ fuel`,
  and `|L| · |R| + 2 ≤ 2^32` (pointers are `u32` in the Rust code — the generated code casts `as u32`);
* `apply_with_flip_eq_canon`  : … `= .ok (canon n (specFn L R n c fl fr fo))` — THE TRANSLATED RUST CODE returns the
  canonical form of the pointwise connective;
* `apply_with_flip_panics_mismatch`, `apply_with_flip_panics_flip` : the two deliberate panics;
* `apply_with_flip_eq_model_driver` : the fuel `Drive.Algo.fuel2 L R` passed by the driver suffices.

`B.Gen.Algo.apply_with_flip` is referred to by name only (Lemmas/AlgoEqApplyDesugar.lean obtains the loop body by
unification from the unfolded definition), so a change of the Rust source breaks these proofs.
-/
namespace B.AlgoEqA
open B B.Gen Std

/-! ### counting the keys of `finished` -/

theorem nodup_bound : ∀ (N : Nat) (l : List Nat), l.Nodup → (∀ x ∈ l, x < N) → l.length ≤ N := by
  intro N
  induction N with
  | zero =>
    intro l _ h
    cases l with
    | nil => simp
    | cons a t => exact absurd (h a (by simp)) (by omega)
  | succ N ih =>
    intro l hnd h
    have h1 : (l.erase N).Nodup := hnd.erase N
    have h2 : ∀ x ∈ l.erase N, x < N := by
      intro x hx
      rw [hnd.mem_erase_iff] at hx
      have := h x hx.2
      omega
    have := ih (l.erase N) h1 h2
    rw [List.length_erase] at this
    split at this <;> omega

def enc (b : Nat) (p : Nat × Nat) : Nat := p.2 + p.1 * b

theorem enc_inj (b : Nat) (p q : Nat × Nat) (hp : p.2 < b) (hq : q.2 < b) (h : enc b p = enc b q) : p = q := by
  unfold enc at h
  have hb : 0 < b := by omega
  have h1 : (p.2 + p.1 * b) / b = p.1 := by
    rw [Nat.add_mul_div_right _ _ hb, Nat.div_eq_of_lt hp]; simp
  have h2 : (q.2 + q.1 * b) / b = q.1 := by
    rw [Nat.add_mul_div_right _ _ hb, Nat.div_eq_of_lt hq]; simp
  have h3 : (p.2 + p.1 * b) % b = p.2 := by
    rw [Nat.add_mul_mod_self_right, Nat.mod_eq_of_lt hp]
  have h4 : (q.2 + q.1 * b) % b = q.2 := by
    rw [Nat.add_mul_mod_self_right, Nat.mod_eq_of_lt hq]
  have e1 : p.1 = q.1 := by rw [← h1, ← h2, h]
  have e2 : p.2 = q.2 := by rw [← h3, ← h4, h]
  exact Prod.ext e1 e2

/-- a hash map whose keys all lie in `[0,a) × [0,b)` has at most `a · b` entries -/
theorem size_le_of_keys (m : HashMap (Nat × Nat) Nat) (a b : Nat)
    (h : ∀ x y : Nat, m[(x, y)]? ≠ none → x < a ∧ y < b) : m.size ≤ a * b := by
  rw [← HashMap.length_keys]
  have hmem : ∀ p ∈ m.keys, p.1 < a ∧ p.2 < b := by
    intro p hp
    rw [HashMap.mem_keys, HashMap.mem_iff_isSome_getElem?] at hp
    apply h p.1 p.2
    intro e
    have : m[p]? = none := e
    rw [this] at hp; cases hp
  have hd : (m.keys.map (enc b)).Nodup := by
    rw [List.nodup_iff_pairwise_ne, List.pairwise_map]
    refine List.Pairwise.imp_of_mem ?_ (HashMap.distinct_keys (m := m))
    intro p q hp hq hne e
    have := enc_inj b p q (hmem p hp).2 (hmem q hq).2 e
    subst this
    simp at hne
  have hb : ∀ x ∈ m.keys.map (enc b), x < a * b := by
    intro x hx
    rw [List.mem_map] at hx
    obtain ⟨p, hp, rfl⟩ := hx
    obtain ⟨h1, h2⟩ := hmem p hp
    unfold enc
    have : (p.1 + 1) * b ≤ a * b := Nat.mul_le_mul_right b h1
    rw [Nat.add_mul] at this
    omega
  have := nodup_bound (a * b) _ hd hb
  rw [List.length_map] at this
  exact this

/-! ### the run from the initial state -/

/-- the model state made of the loop variables at loop entry (hash maps allocated with the capacity the Rust
    code asks for) -/
def st0 (L R : Arr) (n : Nat) : St :=
  { res := mkTrue n,
    existing := ((HashMap.emptyWithCapacity (max L.size R.size)).insert (zeroN n) 0).insert (oneN n) 1,
    finished := HashMap.emptyWithCapacity (max L.size R.size),
    nonEmpty := false }

theorem st0_eqSt (L R : Arr) (n : Nat) : EqSt (st0 L R n) (initSt n) := by
  refine ⟨rfl, rfl, ?_, ?_⟩
  · intro k
    simp only [st0, initSt, HashMap.getElem?_insert, HashMap.getElem?_emptyWithCapacity]
  · intro k
    simp only [st0, initSt, HashMap.getElem?_emptyWithCapacity]

theorem u32_root {A : Arr} (h : A.size ≤ U32) (h1 : 1 ≤ A.size) : u32 (A.size - 1) = root A := by
  unfold u32 root
  exact Nat.mod_eq_of_lt (by unfold U32 at h; omega)

theorem initLS_eq (L R : Arr) (n : Nat) (hL : L.size ≤ U32) (hR : R.size ≤ U32) (hL1 : 1 ≤ L.size)
    (hR1 : 1 ≤ R.size) : initLS L R n = ofSt (st0 L R n) ((#[] : Array (Nat × Nat)).push (root L, root R)) := by
  unfold initLS ofSt st0
  rw [u32_root hL hL1, u32_root hR hR1]
  rfl

/-- the complete run of the loop: it ends on the empty stack with the variables the model computes -/
theorem run_loop (Γ : Ctx) (ok : COk Γ)
    (hsz : (applyRec Γ (Γ.n + 2) (root Γ.L) (root Γ.R) (st0 Γ.L Γ.R Γ.n)).1.res.size ≤ U32)
    (fuel : Nat) (hfuel : 3 * (Γ.L.size * Γ.R.size) ≤ fuel) :
    loopN (cstep Γ) fuel (ofSt (st0 Γ.L Γ.R Γ.n) ((#[] : Array (Nat × Nat)).push (root Γ.L, root Γ.R))) =
      .ok (ofSt (applyRec Γ (Γ.n + 2) (root Γ.L) (root Γ.R) (st0 Γ.L Γ.R Γ.n)).1 #[]) := by
  have hl := root_lt ok.wfL
  have hr := root_lt ok.wfR
  have hf : Γ.n - lv Γ (root Γ.L) (root Γ.R) < Γ.n + 2 := by omega
  have h0 : (st0 Γ.L Γ.R Γ.n).finished[(root Γ.L, root Γ.R)]? = none := HashMap.getElem?_emptyWithCapacity
  obtain ⟨k, hk, hcost⟩ := sim Γ ok (Γ.n + 2) (root Γ.L) (root Γ.R) (st0 Γ.L Γ.R Γ.n) #[] hl hr hf h0 hsz
  have P := applyRec_post Γ ok (Γ.n + 2) (root Γ.L) (root Γ.R) (st0 Γ.L Γ.R Γ.n) hl hr hf
  have hkeys : (applyRec Γ (Γ.n + 2) (root Γ.L) (root Γ.R) (st0 Γ.L Γ.R Γ.n)).1.finished.size ≤
      Γ.L.size * Γ.R.size := by
    apply size_le_of_keys
    intro x y hne
    rcases P.frame x y with h | ⟨_, h2, h3, _⟩
    · rw [h] at hne
      exact absurd HashMap.getElem?_emptyWithCapacity hne
    · exact ⟨h2, h3⟩
  exact loopN_of_runs hk (cstep_done Γ _) fuel (by omega)

/-- number of result nodes: at most one per finished task -/
theorem res_size_le (Γ : Ctx) (ok : COk Γ) :
    (applyRec Γ (Γ.n + 2) (root Γ.L) (root Γ.R) (st0 Γ.L Γ.R Γ.n)).1.res.size ≤ Γ.L.size * Γ.R.size + 2 := by
  have hl := root_lt ok.wfL
  have hr := root_lt ok.wfR
  have hf : Γ.n - lv Γ (root Γ.L) (root Γ.R) < Γ.n + 2 := by omega
  have P := applyRec_post Γ ok (Γ.n + 2) (root Γ.L) (root Γ.R) (st0 Γ.L Γ.R Γ.n) hl hr hf
  have hkeys : (applyRec Γ (Γ.n + 2) (root Γ.L) (root Γ.R) (st0 Γ.L Γ.R Γ.n)).1.finished.size ≤
      Γ.L.size * Γ.R.size := by
    apply size_le_of_keys
    intro x y hne
    rcases P.frame x y with h | ⟨_, h2, h3, _⟩
    · rw [h] at hne
      exact absurd HashMap.getElem?_emptyWithCapacity hne
    · exact ⟨h2, h3⟩
  have hb := P.grow.bal
  have h0 : (st0 Γ.L Γ.R Γ.n).finished.size = 0 := HashMap.size_emptyWithCapacity
  have h2 : (st0 Γ.L Γ.R Γ.n).res.size = 2 := rfl
  omega


theorem post_ofSt (n : Nat) (s : St) :
    post n (ofSt s #[]) = .ok (if s.nonEmpty then s.res else mkFalse n) := by
  unfold post ofSt
  simp only [Array.back?_empty]
  split <;> rfl

theorem awf_core (L R : Arr) (n : Nat) (op : Op2) (fl fr fo : Option Nat)
    (hL : WFo L n) (hR : WFo R n) (htot : ∀ x y, op (some x) (some y) ≠ none)
    (hfl : ∀ x, fl = some x → x < n) (hfr : ∀ x, fr = some x → x < n) (hfo : ∀ x, fo = some x → x < n)
    (hLs : L.size ≤ U32) (hRs : R.size ≤ U32)
    (hres : (applyRec ⟨L, R, n, op, fl, fr, fo⟩ (n + 2) (root L) (root R) (st0 L R n)).1.res.size ≤ U32)
    (fuel : Nat) (hfuel : 3 * (L.size * R.size) ≤ fuel) :
    Gen.Algo.apply_with_flip fuel L R fl fr fo op = .ok (applyWithFlip L R op fl fr fo) := by
  have ok : COk ⟨L, R, n, op, fl, fr, fo⟩ := ⟨hL, hR, htot⟩
  rw [desugar_ok fuel L R fl fr fo op ⟨n, 0, 0⟩ ⟨n, 0, 0⟩ hL.zero hR.zero rfl hfl hfr hfo]
  simp only
  rw [initLS_eq L R n hLs hRs hL.size_pos hR.size_pos,
    run_loop ⟨L, R, n, op, fl, fr, fo⟩ ok hres fuel hfuel]
  rw [show ∀ (a : LS), (Outcome.ok a).bind (post n) = post n a from fun _ => rfl, post_ofSt]
  unfold applyWithFlip
  simp only [numVars_of_wf hL]
  obtain ⟨E, _⟩ := applyRec_eqSt ⟨L, R, n, op, fl, fr, fo⟩ (n + 2) (root L) (root R) _ _ (st0_eqSt L R n)
  rw [E.res, E.ne]

end B.AlgoEqA

namespace B
open B.AlgoEqA

theorem U32_eq : AlgoEqA.U32 = 2 ^ 32 := rfl

/-- MAIN THEOREM, sharpest form: the table only needs to answer on pairs of terminals, and the size restriction
    is on the operands and on the array the model builds (every pointer must fit `u32`). -/
theorem apply_with_flip_eq_model' (L R : Arr) (n : Nat) (op : Op2) (fl fr fo : Option Nat)
    (hL : WFo L n) (hR : WFo R n) (htot : ∀ x y, op (some x) (some y) ≠ none)
    (hfl : ∀ x, fl = some x → x < n) (hfr : ∀ x, fr = some x → x < n) (hfo : ∀ x, fo = some x → x < n)
    (hLs : L.size ≤ 2 ^ 32) (hRs : R.size ≤ 2 ^ 32)
    (hres : (applyRec ⟨L, R, n, op, fl, fr, fo⟩ (n + 2) (root L) (root R) (initSt n)).1.res.size ≤ 2 ^ 32)
    (fuel : Nat) (hfuel : 3 * (L.size * R.size) ≤ fuel) :
    Gen.Algo.apply_with_flip fuel L R fl fr fo op = .ok (applyWithFlip L R op fl fr fo) := by
  rw [← U32_eq] at hLs hRs hres
  refine awf_core L R n op fl fr fo hL hR htot hfl hfr hfo hLs hRs ?_ fuel hfuel
  obtain ⟨E, _⟩ := applyRec_eqSt ⟨L, R, n, op, fl, fr, fo⟩ (n + 2) (root L) (root R) _ _ (st0_eqSt L R n)
  rw [E.res]; exact hres

/-- MAIN THEOREM: on operands well formed by level (same variable count `n`), a table consistent with a
    connective, flips in range and `|L|·|R| + 2 ≤ 2^32`, the function TRANSLATED FROM THE RUST SOURCE returns,
    for every fuel `≥ 3·|L|·|R|`, exactly what the hand-written recursive model returns. -/
theorem apply_with_flip_eq_model (L R : Arr) (n : Nat) (op : Op2) (c : Bool → Bool → Bool) (fl fr fo : Option Nat)
    (hL : WFo L n) (hR : WFo R n) (hc : Consistent op c)
    (hfl : ∀ x, fl = some x → x < n) (hfr : ∀ x, fr = some x → x < n) (hfo : ∀ x, fo = some x → x < n)
    (hsz : L.size * R.size + 2 ≤ 2 ^ 32)
    (fuel : Nat) (hfuel : 3 * (L.size * R.size) ≤ fuel) :
    Gen.Algo.apply_with_flip fuel L R fl fr fo op = .ok (applyWithFlip L R op fl fr fo) := by
  rw [← U32_eq] at hsz
  have htot : ∀ x y, op (some x) (some y) ≠ none := by
    intro x y; rw [hc.total]; exact fun h => by cases h
  have ok : COk ⟨L, R, n, op, fl, fr, fo⟩ := ⟨hL, hR, htot⟩
  have hL1 := hL.size_pos
  have hR1 := hR.size_pos
  have hLR1 : L.size ≤ L.size * R.size := Nat.le_mul_of_pos_right _ hR1
  have hLR2 : R.size ≤ L.size * R.size := Nat.le_mul_of_pos_left _ hL1
  have hres : _ ≤ L.size * R.size + 2 := res_size_le ⟨L, R, n, op, fl, fr, fo⟩ ok
  exact awf_core L R n op fl fr fo hL hR htot hfl hfr hfo (by omega) (by omega)
    (Nat.le_trans hres hsz) fuel hfuel

/-- COROLLARY (chained with Core/ApplyCanon.lean): the translated Rust code returns the canonical form of the
    pointwise connective of the operand functions (with the input / output flips applied). -/
theorem apply_with_flip_eq_canon (L R : Arr) (n : Nat) (op : Op2) (c : Bool → Bool → Bool) (fl fr fo : Option Nat)
    (hL : WFo L n) (hR : WFo R n) (hc : Consistent op c)
    (hfl : ∀ x, fl = some x → x < n) (hfr : ∀ x, fr = some x → x < n) (hfo : ∀ x, fo = some x → x < n)
    (hsz : L.size * R.size + 2 ≤ 2 ^ 32)
    (fuel : Nat) (hfuel : 3 * (L.size * R.size) ≤ fuel) :
    Gen.Algo.apply_with_flip fuel L R fl fr fo op = .ok (canon n (specFn L R n c fl fr fo)) := by
  rw [apply_with_flip_eq_model L R n op c fl fr fo hL hR hc hfl hfr hfo hsz fuel hfuel,
    applyWithFlip_eq_canon L R n op c fl fr fo hL hR (numVars_of_wf hL) hc hfl hfr hfo]
  rfl

/-- the fuel passed by the driver (`Drive/Algo.lean`: `fuel2 L R = 8·(|L|·|R| + numVars L + 8)`) suffices -/
theorem apply_with_flip_eq_model_driver (L R : Arr) (n : Nat) (op : Op2) (c : Bool → Bool → Bool)
    (fl fr fo : Option Nat)
    (hL : WFo L n) (hR : WFo R n) (hc : Consistent op c)
    (hfl : ∀ x, fl = some x → x < n) (hfr : ∀ x, fr = some x → x < n) (hfo : ∀ x, fo = some x → x < n)
    (hsz : L.size * R.size + 2 ≤ 2 ^ 32) :
    Gen.Algo.apply_with_flip (Drive.Algo.fuel2 L R) L R fl fr fo op = .ok (applyWithFlip L R op fl fr fo) :=
  apply_with_flip_eq_model L R n op c fl fr fo hL hR hc hfl hfr hfo hsz _
    (by unfold Drive.Algo.fuel2; omega)

/-- `Bdd::binary_op` / `apply` exactly as the driver calls them -/
theorem Bdd_binary_op_eq_model_driver (L R : Arr) (n : Nat) (op : Op2) (c : Bool → Bool → Bool)
    (hL : WFo L n) (hR : WFo R n) (hc : Consistent op c) (hsz : L.size * R.size + 2 ≤ 2 ^ 32) :
    Gen.Algo.Bdd_binary_op (Drive.Algo.fuel2 L R) L R op = .ok (applyWithFlip L R op none none none) := by
  unfold Gen.Algo.Bdd_binary_op Gen.Algo.apply
  rw [apply_with_flip_eq_model_driver L R n op c none none none hL hR hc (by simp) (by simp) (by simp) hsz]

/-- `Bdd::fused_binary_flip_op` with the driver's fuel -/
theorem Bdd_fused_binary_flip_op_eq_model_driver (L R : Arr) (n : Nat) (op : Op2) (c : Bool → Bool → Bool)
    (fl fr fo : Option Nat)
    (hL : WFo L n) (hR : WFo R n) (hc : Consistent op c)
    (hfl : ∀ x, fl = some x → x < n) (hfr : ∀ x, fr = some x → x < n) (hfo : ∀ x, fo = some x → x < n)
    (hsz : L.size * R.size + 2 ≤ 2 ^ 32) :
    Gen.Algo.Bdd_fused_binary_flip_op (Drive.Algo.fuel2 L R) (L, fl) (R, fr) fo op =
      .ok (applyWithFlip L R op fl fr fo) := by
  unfold Gen.Algo.Bdd_fused_binary_flip_op
  simp only
  rw [apply_with_flip_eq_model_driver L R n op c fl fr fo hL hR hc hfl hfr hfo hsz]

/-- line 246: operands over different variable counts — the translated code panics (for every fuel) -/
theorem apply_with_flip_panics_mismatch (L R : Arr) (n m : Nat) (op : Op2) (fl fr fo : Option Nat)
    (hL : WFo L n) (hR : WFo R m) (hnm : m ≠ n) (fuel : Nat) :
    Gen.Algo.apply_with_flip fuel L R fl fr fo op =
      .panic "Var count mismatch: BDDs are not compatible. {} != {}" :=
  desugar_mismatch fuel L R fl fr fo op ⟨n, 0, 0⟩ ⟨m, 0, 0⟩ hL.zero hR.zero hnm

/-- lines 253-255 (`check_flip_bounds`): some flip variable `≥ n` — the translated code panics (for every fuel) -/
theorem apply_with_flip_panics_flip (L R : Arr) (n : Nat) (op : Op2) (fl fr fo : Option Nat)
    (hL : WFo L n) (hR : WFo R n) (x : Nat) (hx : fl = some x ∨ fr = some x ∨ fo = some x) (hn : n ≤ x)
    (fuel : Nat) :
    Gen.Algo.apply_with_flip fuel L R fl fr fo op =
      .panic "Cannot flip variable {} in Bdd with {} variables." :=
  desugar_flip_panic fuel L R fl fr fo op ⟨n, 0, 0⟩ ⟨n, 0, 0⟩ hL.zero hR.zero rfl ⟨x, hx, hn⟩

/-! ### non-vacuity: concrete inputs satisfying all hypotheses

`Std.HashMap` does not reduce in the kernel, so the runs of the GENERATED function are pinned through the theorems
(the specification side `canon …` is evaluated by `decide`). -/

/-- the generated function, run with the driver's fuel on `x0 ∧ x2` and `x1` (3 variables, level-skipping left
    operand, lazy `and` table), returns the canonical array of `x0 ∧ x1 ∧ x2` -/
example : Gen.Algo.apply_with_flip (Drive.Algo.fuel2 exX0X2 exX1) exX0X2 exX1 none none none andLazy =
    .ok #[⟨3, 0, 0⟩, ⟨3, 1, 1⟩, ⟨2, 0, 1⟩, ⟨1, 0, 2⟩, ⟨0, 0, 3⟩] :=
  (apply_with_flip_eq_canon exX0X2 exX1 3 andLazy (fun x y => x && y) none none none
    exX0X2_wf exX1_wf andLazy_consistent (by simp) (by simp) (by simp) (by decide) _ (by decide)).trans
    (congrArg Outcome.ok (by decide))

/-- all three flips present, minimal admissible fuel `3·|L|·|R| = 36` -/
example : Gen.Algo.apply_with_flip 36 exX0X2 exX1 (some 2) (some 1) (some 0) andLazy =
    .ok #[⟨3, 0, 0⟩, ⟨3, 1, 1⟩, ⟨2, 1, 0⟩, ⟨1, 2, 0⟩, ⟨0, 3, 0⟩] :=
  (apply_with_flip_eq_canon exX0X2 exX1 3 andLazy (fun x y => x && y) (some 2) (some 1) (some 0)
    exX0X2_wf exX1_wf andLazy_consistent (by simp) (by simp) (by simp) (by decide) 36 (by decide)).trans
    (congrArg Outcome.ok (by decide))

/-- a contradiction: the generated function returns the one-node `false` array (the `is_not_empty` path) -/
example : Gen.Algo.apply_with_flip 1000 exX1 exX1 none (some 1) none andLazy = .ok #[⟨3, 0, 0⟩] :=
  (apply_with_flip_eq_canon exX1 exX1 3 andLazy (fun x y => x && y) none (some 1) none
    exX1_wf exX1_wf andLazy_consistent (by simp) (by simp) (by simp) (by decide) 1000 (by decide)).trans
    (congrArg Outcome.ok (by decide))

/-- the eager table (answers only on two terminals) is covered by the same theorem -/
example : Gen.Algo.apply_with_flip 36 exX0X2 exX1 none none none andEager =
    .ok (applyWithFlip exX0X2 exX1 andEager none none none) :=
  apply_with_flip_eq_model exX0X2 exX1 3 andEager (fun x y => x && y) none none none
    exX0X2_wf exX1_wf andEager_consistent (by simp) (by simp) (by simp) (by decide) 36 (by decide)

/-- `x0` over 2 variables -/
def exY0 : Arr := #[⟨2, 0, 0⟩, ⟨2, 1, 1⟩, ⟨0, 0, 1⟩]
theorem exY0_wf : WFo exY0 2 := wfoB_sound (by decide)

/-- variable-count mismatch (3 vs 2): panic, whatever the fuel -/
example (fuel : Nat) : Gen.Algo.apply_with_flip fuel exX0 exY0 none none none andLazy =
    .panic "Var count mismatch: BDDs are not compatible. {} != {}" :=
  apply_with_flip_panics_mismatch exX0 exY0 3 2 andLazy none none none exX0_wf exY0_wf (by decide) fuel

/-- a flip on variable 3 of 3-variable operands: panic, whatever the fuel -/
example (fuel : Nat) : Gen.Algo.apply_with_flip fuel exX0 exX1 none (some 3) none andLazy =
    .panic "Cannot flip variable {} in Bdd with {} variables." :=
  apply_with_flip_panics_flip exX0 exX1 3 andLazy none (some 3) none exX0_wf exX1_wf 3 (Or.inr (Or.inl rfl))
    (Nat.le_refl _) fuel

end B
