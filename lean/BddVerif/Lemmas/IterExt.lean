import BddVerif.Lemmas.IterPaths
/-!
Lemmas for C08, part 2: the specification `extensions` (membership, order, count) and the step
function `valNext` / `cvNext`: unfolding it from the first valuation yields exactly `extensions`.
-/
namespace B.Iter
open B

/-! ### `extensions` -/

/-- `w` is a total valuation of the same length that agrees with the clause where it is set -/
def extendsB : PV → Valn → Bool
  | [], [] => true
  | some b :: cs, x :: t => x == b && extendsB cs t
  | none :: cs, _ :: t => extendsB cs t
  | _, _ => false

theorem mem_extensions (c : PV) : ∀ w, w ∈ extensions c ↔ extendsB c w = true := by
  induction c with
  | nil => intro w; cases w <;> simp [extensions, extendsB]
  | cons x cs ih =>
    intro w
    cases x with
    | some b =>
      simp only [extensions, List.mem_map]
      constructor
      · rintro ⟨t, ht, rfl⟩
        simp [extendsB, (ih t).mp ht]
      · intro hw
        cases w with
        | nil => simp [extendsB] at hw
        | cons y t =>
          simp [extendsB] at hw
          exact ⟨t, (ih t).mpr hw.2, by rw [hw.1]⟩
    | none =>
      simp only [extensions, List.mem_flatMap]
      constructor
      · rintro ⟨t, ht, hw⟩
        simp at hw
        rcases hw with rfl | rfl <;> simp [extendsB, (ih t).mp ht]
      · intro hw
        cases w with
        | nil => simp [extendsB] at hw
        | cons y t =>
          simp [extendsB] at hw
          refine ⟨t, (ih t).mpr hw, ?_⟩
          cases y <;> simp

theorem pvGet_cons_zero (x : Option Bool) (cs : PV) : pvGet (x :: cs) 0 = x := by simp [pvGet]
theorem pvGet_cons_succ (x : Option Bool) (cs : PV) (i : Nat) : pvGet (x :: cs) (i + 1) = pvGet cs i := by
  simp [pvGet]
theorem valOf_cons_zero (y : Bool) (t : Valn) : valOf (y :: t) 0 = y := by simp [valOf]
theorem valOf_cons_succ (y : Bool) (t : Valn) (i : Nat) : valOf (y :: t) (i + 1) = valOf t i := by
  simp [valOf]

theorem sat_cons (x : Option Bool) (cs : PV) (y : Bool) (t : Valn) :
    Sat (x :: cs) (valOf (y :: t)) ↔ (∀ b, x = some b → y = b) ∧ Sat cs (valOf t) := by
  unfold Sat
  constructor
  · intro h
    constructor
    · intro b hb
      have := h 0 b (by rw [pvGet_cons_zero]; exact hb)
      rwa [valOf_cons_zero] at this
    · intro i b hi
      have := h (i + 1) b (by rw [pvGet_cons_succ]; exact hi)
      rwa [valOf_cons_succ] at this
  · rintro ⟨h0, hs⟩ i b hi
    cases i with
    | zero => rw [pvGet_cons_zero] at hi; rw [valOf_cons_zero]; exact h0 b hi
    | succ i => rw [pvGet_cons_succ] at hi; rw [valOf_cons_succ]; exact hs i b hi

/-- `extendsB` is "same length and satisfies the clause" -/
theorem extendsB_iff (c : PV) : ∀ w, extendsB c w = true ↔ (w.length = c.length ∧ Sat c (valOf w)) := by
  induction c with
  | nil =>
    intro w
    cases w with
    | nil => simp [extendsB, Sat, pvGet_nil]
    | cons y t => simp [extendsB]
  | cons x cs ih =>
    intro w
    cases w with
    | nil => cases x <;> simp [extendsB]
    | cons y t =>
      rw [sat_cons]
      cases x with
      | none => simp [extendsB, ih t]
      | some b =>
        simp [extendsB, ih t]
        constructor
        · rintro ⟨rfl, h1, h2⟩; exact ⟨h1, rfl, h2⟩
        · rintro ⟨h1, rfl, h2⟩; exact ⟨rfl, h1, h2⟩

theorem leNum_cons (b : Bool) (t : Valn) : leNum (b :: t) = (if b then 1 else 0) + 2 * leNum t := rfl

/-- `extensions` is strictly increasing (variable 0 least significant) -/
theorem extensions_sorted (c : PV) : List.Pairwise (fun a b => leNum a < leNum b) (extensions c) := by
  induction c with
  | nil => simp [extensions]
  | cons x cs ih =>
    cases x with
    | some b =>
      simp only [extensions]
      rw [List.pairwise_map]
      exact ih.imp (fun {a b'} hab => by simp only [leNum_cons]; omega)
    | none =>
      simp only [extensions]
      rw [List.pairwise_flatMap]
      constructor
      · intro a _
        simp [leNum_cons]
      · exact ih.imp (fun {a b'} hab => by
          intro x hx y hy
          simp at hx hy
          rcases hx with rfl | rfl <;> rcases hy with rfl | rfl <;> simp [leNum_cons] <;> omega)

theorem extensions_nodup (c : PV) : (extensions c).Nodup := by
  have := extensions_sorted c
  exact this.imp (fun {a b} hab e => by subst e; omega)

theorem freeCount_none (cs : PV) : freeCount (none :: cs) = freeCount cs + 1 := by
  simp [freeCount]
theorem freeCount_some (b : Bool) (cs : PV) : freeCount (some b :: cs) = freeCount cs := by
  simp [freeCount]

theorem length_flatMap_pair (l : List Valn) :
    (l.flatMap fun t => [false :: t, true :: t]).length = 2 * l.length := by
  induction l with
  | nil => simp
  | cons a l ih => simp [List.flatMap_cons, ih]; omega

theorem extensions_length (c : PV) : (extensions c).length = 2 ^ freeCount c := by
  induction c with
  | nil => simp [extensions, freeCount]
  | cons x cs ih =>
    cases x with
    | some b => simp [extensions, freeCount_some, ih]
    | none => simp only [extensions]; rw [length_flatMap_pair, ih, freeCount_none, Nat.pow_succ]; omega

/-! ### `valNext` -/

theorem valNextGo_nil (g : Nat → Option Bool) (i : Nat) : valNextGo g i [] = .ok none := by
  simp [valNextGo]

theorem valNextGo_fixed (g : Nat → Option Bool) (i : Nat) (b : Bool) (t : Valn) (r : Option Valn)
    (hg : g i = some b) (h : valNextGo g (i + 1) t = .ok r) :
    valNextGo g i (b :: t) = .ok (r.map (b :: ·)) := by
  simp [valNextGo, hg, h]

theorem valNextGo_free_false (g : Nat → Option Bool) (i : Nat) (t : Valn) (hg : g i = none) :
    valNextGo g i (false :: t) = .ok (some (true :: t)) := by
  simp [valNextGo, hg]

theorem valNextGo_free_true (g : Nat → Option Bool) (i : Nat) (t : Valn) (r : Option Valn)
    (hg : g i = none) (h : valNextGo g (i + 1) t = .ok r) :
    valNextGo g i (true :: t) = .ok (r.map (false :: ·)) := by
  simp [valNextGo, hg, h]

/-- `l` is what repeated application of `next` yields from `v` on (including `v`), ending with `None` -/
inductive Chain (g : Nat → Option Bool) (i : Nat) : Valn → List Valn → Prop where
  | last (v : Valn) : valNextGo g i v = .ok none → Chain g i v [v]
  | step (v w : Valn) (l : List Valn) : valNextGo g i v = .ok (some w) → Chain g i w l → Chain g i v (v :: l)

theorem Chain.head {g i v l} (h : Chain g i v l) : l.head? = some v := by
  cases h <;> rfl

theorem chain_fixed (g : Nat → Option Bool) (i : Nat) (b : Bool) (hg : g i = some b) :
    ∀ t l, Chain g (i + 1) t l → Chain g i (b :: t) (l.map (b :: ·)) := by
  intro t l h
  induction h with
  | last v hv => exact .last _ (by rw [valNextGo_fixed g i b v none hg hv]; rfl)
  | step v w l hv _ ih => exact .step _ (b :: w) _ (by rw [valNextGo_fixed g i b v _ hg hv]; rfl) ih

theorem chain_free (g : Nat → Option Bool) (i : Nat) (hg : g i = none) :
    ∀ t l, Chain g (i + 1) t l → Chain g i (false :: t) (l.flatMap fun t => [false :: t, true :: t]) := by
  intro t l h
  induction h with
  | last v hv =>
    refine .step _ (true :: v) _ (valNextGo_free_false g i v hg) ?_
    exact .last _ (by rw [valNextGo_free_true g i v none hg hv]; rfl)
  | step v w l hv _ ih =>
    rw [List.flatMap_cons]
    refine .step _ (true :: v) _ (valNextGo_free_false g i v hg) ?_
    exact .step _ (false :: w) _ (by rw [valNextGo_free_true g i v _ hg hv]; rfl) ih

/-- the first valuation of `new`: fixed positions as in the clause, free positions `false` -/
def firstOf (g : Nat → Option Bool) (i k : Nat) : Valn := (List.range' i k).map fun j => (g j).getD false

/-- unfolding `next` from the first valuation enumerates exactly `extensions` of the clause -/
theorem chain_extensions (g : Nat → Option Bool) :
    ∀ k i, Chain g i (firstOf g i k) (extensions ((List.range' i k).map g)) := by
  intro k
  induction k with
  | zero => intro i; exact .last _ (valNextGo_nil g i)
  | succ k ih =>
    intro i
    have e : firstOf g i (k + 1) = (g i).getD false :: firstOf g (i + 1) k := by
      simp [firstOf, List.range'_succ]
    rw [List.range'_succ, List.map_cons, e]
    cases hg : g i with
    | some b =>
      simp only [extensions, Option.getD_some]
      exact chain_fixed g i b hg _ _ (ih (i + 1))
    | none =>
      simp only [extensions, Option.getD_none]
      exact chain_free g i hg _ _ (ih (i + 1))

/-- along a chain, `next` of every element is its successor in the list -/
theorem Chain.succ {g i v l} (h : Chain g i v l) :
    ∀ u, u ∈ l → ∃ pre rest, l = pre ++ u :: rest ∧ valNextGo g i u = .ok rest.head? := by
  induction h with
  | last v hv =>
    intro u hu
    simp at hu; subst hu
    exact ⟨[], [], rfl, hv⟩
  | step v w l hv hc ih =>
    intro u hu
    rw [List.mem_cons] at hu
    by_cases e : u = v
    · subst e
      exact ⟨[], l, rfl, by rw [hv, hc.head]⟩
    · obtain ⟨pre, rest, hl, hn⟩ := ih u (hu.resolve_left e)
      exact ⟨v :: pre, rest, by rw [hl]; rfl, hn⟩

theorem pvNorm_eq_range' (n : Nat) (c : PV) : pvNorm n c = (List.range' 0 n).map (pvGet c) := by
  rw [pvNorm, List.range_eq_range']

/-! ### the iterator `cvNext` -/

/-- collecting the clause iterator from a state whose pending valuation starts a chain -/
theorem collect_chain (clause : PV) {v : Valn} {l : List Valn} (h : Chain (pvGet clause) 0 v l) :
    ∀ fuel, l.length < fuel → collect cvNext fuel ⟨some v, clause⟩ = .ok l := by
  induction h with
  | last v hv =>
    intro fuel hf
    obtain ⟨f, rfl⟩ : ∃ f, fuel = f + 2 := ⟨fuel - 2, by simp at hf; omega⟩
    simp [collect, cvNext, valNext, hv]
  | step v w l hv _ ih =>
    intro fuel hf
    obtain ⟨f, rfl⟩ : ∃ f, fuel = f + 1 := ⟨fuel - 1, by omega⟩
    have := ih f (by simp at hf; omega)
    simp [collect, cvNext, valNext, hv, this]

/-- after the last item the iterator answers `None` and stays where it is -/
theorem cvNext_done (clause : PV) : cvNext ⟨none, clause⟩ = .ok (none, ⟨none, clause⟩) := rfl

end B.Iter
