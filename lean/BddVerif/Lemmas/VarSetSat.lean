import BddVerif.Lemmas.VarSetChain
/-!
Literals, single valuations, the all-false clause and the threshold loops of `mk_sat_exactly_k` /
`mk_sat_up_to_k`, all through the calculus `Sem`.
-/
namespace B.VS
open B

theorem and_consistent : Consistent Gen.and_ (fun a b => a && b) := by constructor <;> decide
theorem or_consistent : Consistent Gen.or_ (fun a b => a || b) := by constructor <;> decide

/-! ### literals -/

theorem mkVar_eq (n x : Nat) : mkVar n x = clauseArr n [(x, true)] := rfl
theorem mkNotVar_eq (n x : Nat) : mkNotVar n x = clauseArr n [(x, false)] := rfl

theorem sem_mkVar (n x : Nat) (hx : x < n) : Sem n (mkVar n x) (fun v => v x) := by
  rw [mkVar_eq]
  refine (sem_clauseArr n [(x, true)] ⟨Nat.zero_le _, hx, (by show x + 1 ≤ n; omega)⟩).congr ?_
  intro v; simp [litsFn]

theorem sem_mkNotVar (n x : Nat) (hx : x < n) : Sem n (mkNotVar n x) (fun v => !v x) := by
  rw [mkNotVar_eq]
  refine (sem_clauseArr n [(x, false)] ⟨Nat.zero_le _, hx, (by show x + 1 ≤ n; omega)⟩).congr ?_
  intro v; simp [litsFn]

theorem sem_mkLiteral (n x : Nat) (b : Bool) (hx : x < n) : Sem n (mkLiteral n x b) (fun v => v x == b) := by
  cases b
  · exact (sem_mkNotVar n x hx).congr (fun v => by simp)
  · exact (sem_mkVar n x hx).congr (fun v => by simp)

/-! ### single valuations -/

theorem sorted_litsFrom : ∀ (bs : List Bool) (i : Nat), SortedFrom (i + bs.length) i (litsFrom i bs)
  | [], i => by simp [litsFrom, SortedFrom]
  | b :: t, i => by
    refine ⟨Nat.le_refl _, by simp, ?_⟩
    have := sorted_litsFrom t (i + 1)
    simp only [List.length_cons]
    have e : i + (t.length + 1) = i + 1 + t.length := by omega
    rw [e]; exact this

theorem litsFn_litsFrom (v : Nat → Bool) : ∀ (bs : List Bool) (i : Nat),
    litsFn (litsFrom i bs) v = true ↔ ∀ j (h : j < bs.length), v (i + j) = bs[j]
  | [], i => by simp [litsFrom, litsFn]
  | b :: t, i => by
    have ih := litsFn_litsFrom v t (i + 1)
    simp only [litsFn, litsFrom, List.all_cons, Bool.and_eq_true, beq_iff_eq] at ih ⊢
    rw [ih]
    constructor
    · rintro ⟨h0, h⟩ j hj
      cases j with
      | zero => simpa using h0
      | succ j =>
        have := h j (by simpa using hj)
        simp only [List.getElem_cons_succ]
        rw [← this]; congr 1; omega
    · intro h
      refine ⟨by have := h 0 (by simp); simp only [List.getElem_cons_zero, Nat.add_zero] at this; exact this, ?_⟩
      intro j hj
      have := h (j + 1) (by simpa using hj)
      simp only [List.getElem_cons_succ] at this
      rw [← this]; congr 1; omega

theorem sem_valuationBdd (bs : List Bool) : Sem bs.length (valuationBdd bs) (litsFn (litsFrom 0 bs)) := by
  have := sorted_litsFrom bs 0
  simp only [Nat.zero_add] at this
  exact sem_clauseArr bs.length _ this

/-! ### counting the listed variables that are true -/

/-- number of variables below `n` that are listed in `vars` and true in `v` -/
def cnt (n : Nat) (vars : List Nat) (v : Nat → Bool) : Nat :=
  ((List.range n).filter fun x => vars.contains x && v x).length

theorem filter_flip_length : ∀ (r : List Nat), r.Nodup → ∀ (x : Nat), x ∈ r → ∀ (p q : Nat → Bool),
    (∀ y, y ≠ x → p y = q y) → p x = false → q x = true → (r.filter p).length + 1 = (r.filter q).length := by
  intro r
  induction r with
  | nil => intro _ x hx; cases hx
  | cons a r ih =>
    intro hnd x hx p q hpq hp hq
    rw [List.nodup_cons] at hnd
    by_cases hax : a = x
    · subst hax
      have : r.filter p = r.filter q := by
        apply List.filter_congr
        intro y hy
        exact hpq y (fun e => hnd.1 (e ▸ hy))
      simp [hp, hq, this]
    · have hxr : x ∈ r := by
        rcases List.mem_cons.1 hx with e | e
        · exact absurd e.symm hax
        · exact e
      have := ih hnd.2 x hxr p q hpq hp hq
      have hpa : p a = q a := hpq a hax
      simp only [List.filter_cons, hpa]
      split
      · simp only [List.length_cons]; omega
      · exact this

theorem cnt_flip (n : Nat) (vars : List Nat) (v : Nat → Bool) (x : Nat) (hx : x ∈ vars) (hxn : x < n)
    (hvx : v x = true) : cnt n vars (inv (some x) v) + 1 = cnt n vars v := by
  unfold cnt
  apply filter_flip_length (List.range n) List.nodup_range x (List.mem_range.2 hxn)
  · intro y hy; simp [inv, hy]
  · simp [inv, hvx]
  · simp [hvx, hx]

theorem cnt_pos_exists (n : Nat) (vars : List Nat) (v : Nat → Bool) (h : 0 < cnt n vars v) :
    ∃ x, x ∈ vars ∧ x < n ∧ v x = true := by
  unfold cnt at h
  obtain ⟨x, hx⟩ := List.exists_mem_of_length_pos h
  rw [List.mem_filter] at hx
  simp only [Bool.and_eq_true, List.contains_iff_mem, List.mem_range] at hx
  exact ⟨x, hx.2.1, hx.1, hx.2.2⟩

theorem cnt_zero_iff (n : Nat) (vars : List Nat) (hv : ∀ x ∈ vars, x < n) (v : Nat → Bool) :
    cnt n vars v = 0 ↔ ∀ x ∈ vars, v x = false := by
  constructor
  · intro h x hx
    cases hvx : v x with
    | false => rfl
    | true =>
      have := cnt_flip n vars v x hx (hv x hx) hvx
      omega
  · intro h
    rcases Nat.eq_zero_or_pos (cnt n vars v) with e | e
    · exact e
    · obtain ⟨x, hx, _, hvx⟩ := cnt_pos_exists n vars v e
      rw [h x hx] at hvx; cases hvx

theorem any_flip_exact (n : Nat) (vars : List Nat) (hv : ∀ x ∈ vars, x < n) (j : Nat) (v : Nat → Bool) :
    (vars.any fun x => decide (cnt n vars (inv (some x) v) = j) && v x) = decide (cnt n vars v = j + 1) := by
  rw [Bool.eq_iff_iff]
  simp only [List.any_eq_true, Bool.and_eq_true, decide_eq_true_eq]
  constructor
  · rintro ⟨x, hx, hc, hvx⟩
    have := cnt_flip n vars v x hx (hv x hx) hvx
    omega
  · intro h
    obtain ⟨x, hx, hxn, hvx⟩ := cnt_pos_exists n vars v (by omega)
    have := cnt_flip n vars v x hx hxn hvx
    exact ⟨x, hx, by omega, hvx⟩

theorem any_flip_upto (n : Nat) (vars : List Nat) (hv : ∀ x ∈ vars, x < n) (j : Nat) (v : Nat → Bool) :
    (decide (cnt n vars v ≤ j) || vars.any fun x => decide (cnt n vars (inv (some x) v) ≤ j) && v x) =
      decide (cnt n vars v ≤ j + 1) := by
  rw [Bool.eq_iff_iff]
  simp only [Bool.or_eq_true, List.any_eq_true, Bool.and_eq_true, decide_eq_true_eq]
  constructor
  · rintro (h | ⟨x, hx, hc, hvx⟩)
    · omega
    · have := cnt_flip n vars v x hx (hv x hx) hvx
      omega
  · intro h
    by_cases hle : cnt n vars v ≤ j
    · exact Or.inl hle
    · obtain ⟨x, hx, hxn, hvx⟩ := cnt_pos_exists n vars v (by omega)
      have := cnt_flip n vars v x hx hxn hvx
      exact Or.inr ⟨x, hx, by omega, hvx⟩

/-- for a duplicate-free list of variables below `n`, `cnt` is the number of listed variables that are true -/
theorem cnt_eq_filter_length (n : Nat) (vars : List Nat) (hv : ∀ x ∈ vars, x < n) (hnd : vars.Nodup)
    (v : Nat → Bool) : cnt n vars v = (vars.filter v).length := by
  unfold cnt
  have hperm : ((List.range n).filter fun x => vars.contains x).Perm vars := by
    rw [List.perm_ext_iff_of_nodup (List.nodup_range.sublist List.filter_sublist) hnd]
    intro a
    simp only [List.mem_filter, List.mem_range, List.contains_iff_mem]
    exact ⟨fun h => h.2, fun h => ⟨hv a h, h⟩⟩
  have e : ((List.range n).filter fun x => vars.contains x && v x) =
      ((List.range n).filter fun x => vars.contains x).filter v := by
    rw [List.filter_filter]
    apply List.filter_congr
    intro x _; exact Bool.and_comm _ _
  rw [e]
  exact (hperm.filter v).length_eq

theorem filter_change_one : ∀ (r : List Nat), r.Nodup → ∀ (a : Nat) (p q : Nat → Bool),
    (∀ x, x ≠ a → p x = q x) → (r.filter p).length ≤ (r.filter q).length + 1 := by
  intro r
  induction r with
  | nil => intro _ a p q _; exact Nat.zero_le _
  | cons y r ih =>
    intro hnd a p q hpq
    rw [List.nodup_cons] at hnd
    by_cases hya : y = a
    · subst hya
      have : r.filter p = r.filter q := by
        apply List.filter_congr
        intro x hx
        exact hpq x (fun e => hnd.1 (e ▸ hx))
      simp only [List.filter_cons, this]
      split <;> split <;> (try simp only [List.length_cons]) <;> omega
    · have := ih hnd.2 a p q hpq
      simp only [List.filter_cons, hpq y hya]
      split
      · simp only [List.length_cons]; omega
      · exact this

/-- at most as many listed variables are true as the list is long -/
theorem cnt_le_length (n : Nat) (v : Nat → Bool) : ∀ (vars : List Nat), cnt n vars v ≤ vars.length
  | [] => by simp [cnt]
  | a :: t => by
    have ih := cnt_le_length n v t
    have := filter_change_one (List.range n) List.nodup_range a
      (fun x => (a :: t).contains x && v x) (fun x => t.contains x && v x) (by
        intro x hx
        simp [hx])
    unfold cnt at ih ⊢
    simp only [List.length_cons]
    omega

/-! ### the all-false clause -/

theorem sorted_toValuesFrom : ∀ (pv : PVal) (i : Nat), SortedFrom (i + pv.length) i (PVal.toValuesFrom i pv)
  | [], i => by simp [PVal.toValuesFrom, SortedFrom]
  | none :: t, i => by
    have := sorted_toValuesFrom t (i + 1)
    simp only [PVal.toValuesFrom, List.length_cons]
    have e : i + (t.length + 1) = i + 1 + t.length := by omega
    rw [e]; exact this.mono (by omega)
  | some b :: t, i => by
    have := sorted_toValuesFrom t (i + 1)
    simp only [PVal.toValuesFrom, List.length_cons]
    have e : i + (t.length + 1) = i + 1 + t.length := by omega
    rw [e]; exact ⟨Nat.le_refl _, by show i < i + 1 + t.length; omega, this⟩

theorem mem_toValuesFrom : ∀ (pv : PVal) (i x : Nat) (b : Bool),
    (x, b) ∈ PVal.toValuesFrom i pv ↔ ∃ j, x = i + j ∧ pv[j]? = some (some b)
  | [], i, x, b => by simp [PVal.toValuesFrom]
  | c :: t, i, x, b => by
    have ih := mem_toValuesFrom t (i + 1) x b
    have step : (∃ j, x = i + j ∧ (c :: t)[j]? = some (some b)) ↔
        ((x = i ∧ c = some b) ∨ ∃ j, x = i + 1 + j ∧ t[j]? = some (some b)) := by
      constructor
      · rintro ⟨j, hj, hg⟩
        cases j with
        | zero => left; simp at hg; exact ⟨by omega, hg⟩
        | succ j => right; simp at hg; exact ⟨j, by omega, hg⟩
      · rintro (⟨h1, h2⟩ | ⟨j, h1, h2⟩)
        · exact ⟨0, by omega, by simp [h2]⟩
        · exact ⟨j + 1, by omega, by simpa using h2⟩
    rw [step]
    cases c with
    | none =>
      simp only [PVal.toValuesFrom]
      rw [ih]; simp
    | some c =>
      simp only [PVal.toValuesFrom, List.mem_cons, Prod.mk.injEq]
      rw [ih]
      constructor
      · rintro (⟨h1, h2⟩ | h)
        · left; exact ⟨h1, by rw [h2]⟩
        · right; exact h
      · rintro (⟨h1, h2⟩ | h)
        · left; exact ⟨h1, by simpa using h2.symm⟩
        · right; exact h

theorem getElem?_set (pv : PVal) (x : Nat) (b : Bool) (j : Nat) (c : Bool) :
    (pv.set x b)[j]? = some (some c) ↔ (if j = x then c = b else pv[j]? = some (some c)) := by
  unfold PVal.set
  rw [List.getElem?_set]
  by_cases hjx : j = x
  · subst hjx
    have : j < (pv ++ List.replicate (j + 1 - pv.length) none).length := by
      simp only [List.length_append, List.length_replicate]; omega
    simp
    exact ⟨fun h => h.2.symm, fun h => ⟨by omega, h.symm⟩⟩
  · have hne : ¬ x = j := fun e => hjx e.symm
    simp only [hne, hjx, if_false]
    rw [List.getElem?_append]
    split
    · rfl
    · rename_i hlt
      have : pv[j]? = none := List.getElem?_eq_none (by omega)
      rw [this]
      simp [List.getElem?_replicate]

theorem allFalse_get (vars : List Nat) : ∀ (pv : PVal) (j : Nat) (c : Bool),
    (vars.foldl (fun pv x => pv.set x false) pv)[j]? = some (some c) ↔
      ((j ∈ vars ∧ c = false) ∨ (j ∉ vars ∧ pv[j]? = some (some c))) := by
  induction vars with
  | nil => intro pv j c; simp
  | cons x t ih =>
    intro pv j c
    simp only [List.foldl_cons]
    rw [ih, getElem?_set]
    by_cases hjx : j = x
    · subst hjx
      by_cases hjt : j ∈ t <;> simp [hjt]
    · simp [hjx]

theorem allFalse_mem (vars : List Nat) (x : Nat) (b : Bool) :
    (x, b) ∈ (allFalse vars).toValues ↔ (x ∈ vars ∧ b = false) := by
  unfold PVal.toValues allFalse
  rw [mem_toValuesFrom]
  constructor
  · rintro ⟨j, hj, hg⟩
    rw [allFalse_get] at hg
    simp only [Nat.zero_add] at hj
    subst hj
    rcases hg with h | ⟨_, h⟩
    · exact h
    · simp at h
  · rintro ⟨h1, h2⟩
    exact ⟨x, by omega, by rw [allFalse_get]; exact Or.inl ⟨h1, h2⟩⟩

theorem SortedFrom.bound {n m : Nat} : ∀ {lits k}, SortedFrom n k lits → (∀ l ∈ lits, l.1 < m) → k ≤ m →
    SortedFrom m k lits
  | [], _, _, _, hk => hk
  | l :: t, _, h, hm, _ =>
    ⟨h.1, hm l (by simp), SortedFrom.bound h.2.2 (fun l' hl' => hm l' (by simp [hl']))
      (by have := hm l (by simp); omega)⟩

theorem litsFn_allFalse (vars : List Nat) (v : Nat → Bool) :
    litsFn (allFalse vars).toValues v = true ↔ ∀ x ∈ vars, v x = false := by
  unfold litsFn
  rw [List.all_eq_true]
  constructor
  · intro h x hx
    have := h (x, false) ((allFalse_mem vars x false).2 ⟨hx, rfl⟩)
    simpa using this
  · intro h l hl
    obtain ⟨x, b⟩ := l
    obtain ⟨hx, hb⟩ := (allFalse_mem vars x b).1 hl
    subst hb
    simpa using h x hx

theorem clause_ok (n : Nat) (vars : List Nat) (hv : ∀ x ∈ vars, x < n) :
    mkConjunctiveClause n (allFalse vars) = .ok (clauseArr n (allFalse vars).toValues) := by
  unfold mkConjunctiveClause
  rw [if_pos]
  rw [List.all_eq_true]
  intro l hl
  obtain ⟨x, b⟩ := l
  have := ((allFalse_mem vars x b).1 hl).1
  simpa using hv x this

theorem clause_panic (n : Nat) (vars : List Nat) (x : Nat) (hx : x ∈ vars) (hxn : n ≤ x) :
    ∃ m, mkConjunctiveClause n (allFalse vars) = .panic m := by
  unfold mkConjunctiveClause
  rw [if_neg]
  · exact ⟨_, rfl⟩
  · rw [List.all_eq_true]
    intro h
    have := h (x, false) ((allFalse_mem vars x false).2 ⟨hx, rfl⟩)
    simp at this
    omega

theorem sem_allFalse (n : Nat) (vars : List Nat) (hv : ∀ x ∈ vars, x < n) :
    Sem n (clauseArr n (allFalse vars).toValues) (fun v => decide (cnt n vars v = 0)) := by
  have hs := sorted_toValuesFrom (allFalse vars) 0
  have hs' : SortedFrom n 0 (allFalse vars).toValues := by
    apply SortedFrom.bound hs _ (Nat.zero_le _)
    intro l hl
    obtain ⟨x, b⟩ := l
    exact hv x ((allFalse_mem vars x b).1 hl).1
  refine (sem_clauseArr n _ hs').congr ?_
  intro v
  rw [Bool.eq_iff_iff, litsFn_allFalse, decide_eq_true_eq, cnt_zero_iff n vars hv]

/-! ### the loops -/

theorem sem_propagate {n : Nat} {R : Arr} {f : (Nat → Bool) → Bool} (hR : Sem n R f) (x : Nat) (hx : x < n) :
    Sem n (propagate n R x) (fun v => f (inv (some x) v) && v x) := by
  unfold propagate
  refine (hR.apply (sem_mkNotVar n x hx) Gen.and_ _ and_consistent (some x) (by intro y hy; cases hy; exact hx)).congr ?_
  intro v
  simp [inv]

theorem sem_satRound {n : Nat} {R : Arr} {f : (Nat → Bool) → Bool} (hR : Sem n R f) :
    ∀ (vars : List Nat), (∀ x ∈ vars, x < n) → ∀ (init : Arr) (g : (Nat → Bool) → Bool), Sem n init g →
      Sem n (satRound n vars R init) (fun v => g v || vars.any fun x => f (inv (some x) v) && v x) := by
  intro vars
  induction vars with
  | nil => intro _ init g hg; exact hg.congr (fun v => by simp)
  | cons x t ih =>
    intro hv init g hg
    have hx : x < n := hv x (by simp)
    have hstep := hg.apply (sem_propagate hR x hx) Gen.or_ _ or_consistent none (by simp)
    have := ih (fun y hy => hv y (by simp [hy])) _ _ hstep
    unfold satRound at this ⊢
    simp only [List.foldl_cons]
    refine this.congr ?_
    intro v
    simp [inv, Bool.or_assoc]

theorem sem_exactlyRounds (n : Nat) (vars : List Nat) (hv : ∀ x ∈ vars, x < n) :
    ∀ (k j : Nat) (R : Arr), Sem n R (fun v => decide (cnt n vars v = j)) →
      Sem n (exactlyRounds n vars k R) (fun v => decide (cnt n vars v = j + k)) := by
  intro k
  induction k with
  | zero => intro j R h; exact h
  | succ k ih =>
    intro j R h
    have hround := sem_satRound h vars hv (mkFalse n) _ (sem_mkFalse n)
    have hround' : Sem n (satRound n vars R (mkFalse n)) (fun v => decide (cnt n vars v = j + 1)) :=
      hround.congr (fun v => by simp only [Bool.false_or]; exact any_flip_exact n vars hv j v)
    have := ih (j + 1) _ hround'
    show Sem n (exactlyRounds n vars k (satRound n vars R (mkFalse n))) _
    refine this.congr ?_
    intro v
    have : j + 1 + k = j + (k + 1) := by omega
    rw [this]

theorem sem_upToRounds (n : Nat) (vars : List Nat) (hv : ∀ x ∈ vars, x < n) :
    ∀ (k j : Nat) (R : Arr), Sem n R (fun v => decide (cnt n vars v ≤ j)) →
      Sem n (upToRounds n vars k R) (fun v => decide (cnt n vars v ≤ j + k)) := by
  intro k
  induction k with
  | zero => intro j R h; exact h
  | succ k ih =>
    intro j R h
    have hround := sem_satRound h vars hv R _ h
    have hround' : Sem n (satRound n vars R R) (fun v => decide (cnt n vars v ≤ j + 1)) :=
      hround.congr (fun v => any_flip_upto n vars hv j v)
    have := ih (j + 1) _ hround'
    show Sem n (upToRounds n vars k (satRound n vars R R)) _
    refine this.congr ?_
    intro v
    have : j + 1 + k = j + (k + 1) := by omega
    rw [this]

theorem sem_mkSatExactlyK (n k : Nat) (vars : List Nat) (hv : ∀ x ∈ vars, x < n) :
    ∃ r, mkSatExactlyK n k vars = .ok r ∧ Sem n r (fun v => decide (cnt n vars v = k)) := by
  unfold mkSatExactlyK
  rw [clause_ok n vars hv]
  refine ⟨_, rfl, ?_⟩
  have := sem_exactlyRounds n vars hv k 0 _ (sem_allFalse n vars hv)
  exact this.congr (fun v => by simp)

theorem sem_mkSatUpToK (n k : Nat) (vars : List Nat) (hv : ∀ x ∈ vars, x < n) :
    ∃ r, mkSatUpToK n k vars = .ok r ∧ Sem n r (fun v => decide (cnt n vars v ≤ k)) := by
  unfold mkSatUpToK
  rw [clause_ok n vars hv]
  refine ⟨_, rfl, ?_⟩
  have h0 : Sem n (clauseArr n (allFalse vars).toValues) (fun v => decide (cnt n vars v ≤ 0)) :=
    (sem_allFalse n vars hv).congr (fun v => by simp)
  have := sem_upToRounds n vars hv k 0 _ h0
  exact this.congr (fun v => by simp)

/-- more rounds than the list is long change nothing any more: every `k` beyond the length gives the same arrays
    (the constant false for "exactly", the constant true for "at most") -/
theorem sat_beyond_length (n k k' : Nat) (vars : List Nat) (hk : vars.length < k) (hk' : vars.length < k') :
    mkSatExactlyK n k vars = mkSatExactlyK n k' vars ∧
    (vars.length ≤ k → vars.length ≤ k' → mkSatUpToK n k vars = mkSatUpToK n k' vars) := by
  by_cases hv : ∀ x ∈ vars, x < n
  · obtain ⟨r, hr, hs⟩ := sem_mkSatExactlyK n k vars hv
    obtain ⟨r', hr', hs'⟩ := sem_mkSatExactlyK n k' vars hv
    obtain ⟨u, hu, ht⟩ := sem_mkSatUpToK n k vars hv
    obtain ⟨u', hu', ht'⟩ := sem_mkSatUpToK n k' vars hv
    refine ⟨?_, fun _ _ => ?_⟩
    · rw [hr, hr', hs.unique hs' (fun v => by
        have := cnt_le_length n v vars
        have e1 : decide (cnt n vars v = k) = false := by simp; omega
        have e2 : decide (cnt n vars v = k') = false := by simp; omega
        rw [e1, e2])]
    · rw [hu, hu', ht.unique ht' (fun v => by
        have := cnt_le_length n v vars
        have e1 : decide (cnt n vars v ≤ k) = true := by simp; omega
        have e2 : decide (cnt n vars v ≤ k') = true := by simp; omega
        rw [e1, e2])]
  · have : ∃ x ∈ vars, n ≤ x := by
      apply Classical.byContradiction
      intro hne
      apply hv
      intro x hx
      rcases Nat.lt_or_ge x n with h | h
      · exact h
      · exact absurd ⟨x, hx, h⟩ hne
    obtain ⟨x, hx, hxn⟩ := this
    obtain ⟨m, hm⟩ := clause_panic n vars x hx hxn
    simp [mkSatExactlyK, mkSatUpToK, hm]

end B.VS
