import BddVerif.Lemmas.AlgoEq3TextBase
import BddVerif.Lemmas.SerialIO
/-!
# `read_to_string` of `Gen/RustShimStr.lean` is `readToEnd` + `utf8Decode` of `Model/Serial.lean`

The translated `read_as_string` calls the shim's `Rust.readToString` (std's default `read_to_end` with an explicit bound
`|data| + |script| + 2` on the number of `read` calls, buffer sizes from the environment parameter `plan`, then the
UTF-8 check). The model (`Serial.readTextIO`) uses `Serial.readToEnd` (well-founded recursion) and
`Serial.utf8Decode`. This file relates them for EVERY reader whose data are bytes (`< 256`; the shim represents bytes
by `Nat`s, the model by `UInt8` — on a "byte" `≥ 256` the shim's decoder fails while the model's reader would see
it modulo 256, see `nat_byte_artifact` in `AlgoEq3TextRead.lean`):

* `readToEndGo_repr` — the bound is never exhausted (`|data| + |script| + 1` calls suffice), same result, same
  reader afterwards, the bytes read are a prefix of the data;
* `readToString_repr` — result, reader and string after `input.read_to_string(&mut data)`.
-/
namespace B.AlgoEq3Text
open B B.Gen B.AlgoEqUtil B.AlgoEq2Bytes

/-! ### equation of the model's `readToEnd` (defined by well-founded recursion) -/

open Serial in
theorem sReadToEnd_eq (r : Serial.Reader) (wants : List Nat) (acc : List UInt8) :
    Serial.readToEnd r wants acc =
      match r.read (wants.headD 32) with
      | (.bytes bs, r') => if bs.length = 0 then (some acc, r') else Serial.readToEnd r' wants.tail (acc ++ bs)
      | (.interrupted, r') => Serial.readToEnd r' wants.tail acc
      | (.failed, r') => (none, r') := by
  rw [Serial.readToEnd]
  split <;> rename_i heq <;> simp only [heq]
  split <;> rfl

/-- what one `read` call does to the data: the delivered bytes are taken from the front -/
theorem read_data (r : Rust.Reader) (want : Nat) :
    match (r.read want).1 with
    | .ok bs => bs ++ (r.read want).2.data = r.data
    | .error _ => (r.read want).2.data = r.data := by
  unfold Rust.Reader.read
  cases hs : r.script with
  | nil => simp only [List.take_append_drop]
  | cons e s =>
    cases e with
    | give k => simp only [List.take_append_drop]
    | interrupted => simp only
    | fail => simp only

theorem read_plan (r : Rust.Reader) (want : Nat) : (r.read want).2.plan = r.plan := by
  unfold Rust.Reader.read
  cases hs : r.script with
  | nil => rfl
  | cons e s => cases e <;> rfl

/-! ### `read_to_end` -/

inductive RelEnd : Except Rust.IoError (List Nat) → Option (List UInt8) → Prop
  | ok (bs : List Nat) : RelEnd (.ok bs) (some (bs.map byteOf))
  | failed : RelEnd (.error ⟨.other⟩) none

/-- **representation lemma, `read_to_end`**: std's default `read_to_end` over the shim's device (bounded recursion
    `readToEndGo`) is `Serial.readToEnd`, as soon as the bound is at least `|data| + |script| + 1` -/
theorem readToEndGo_repr : ∀ (fuel : Nat) (r : Rust.Reader) (plan : List Nat) (acc : List Nat),
    r.data.length + r.script.length + 1 ≤ fuel →
    RelEnd (Rust.readToEndGo fuel r plan acc).1 (Serial.readToEnd (rdOf r) plan (acc.map byteOf)).1 ∧
    rdOf (Rust.readToEndGo fuel r plan acc).2 = (Serial.readToEnd (rdOf r) plan (acc.map byteOf)).2 ∧
    (Rust.readToEndGo fuel r plan acc).2.sp + (Rust.readToEndGo fuel r plan acc).2.script.length =
      r.sp + r.script.length ∧
    (∀ bs, (Rust.readToEndGo fuel r plan acc).1 = .ok bs → ∃ d, bs = acc ++ d ∧ d <+: r.data) := by
  intro fuel
  induction fuel with
  | zero => intro r plan acc h; omega
  | succ fuel ih =>
    intro r plan acc hf
    obtain ⟨hrel, hrd, hsp, _⟩ := read_repr r (plan.headD 32)
    have hdat := read_data r (plan.headD 32)
    rw [sReadToEnd_eq]
    simp only [Rust.readToEndGo]
    rcases h1 : r.read (plan.headD 32) with ⟨res, r1⟩
    rcases h2 : (rdOf r).read (plan.headD 32) with ⟨sres, sr1⟩
    rw [h1, h2] at hrel hrd
    rw [h1] at hsp hdat
    simp only at hrel hrd hsp hdat ⊢
    subst hrd
    cases hrel with
    | bytes bs =>
      have hb := Serial.Reader.read_bytes h2
      rw [rdOf_script_length, rdOf_script_length, List.length_map, rdOf_data_length, rdOf_data_length] at hb
      simp only at hdat
      simp only [List.length_map]
      cases bs with
      | nil =>
        simp only [List.isEmpty_nil, if_true, List.length_nil]
        exact ⟨.ok _, by trivial, hsp, fun bs h => by
          injection h with h; exact ⟨[], by rw [← h]; simp, List.nil_prefix⟩⟩
      | cons b bs =>
        simp only [List.isEmpty_cons, Bool.false_eq_true, if_false, List.length_cons, Nat.add_one_ne_zero]
        simp only [List.length_cons] at hb
        obtain ⟨i1, i2, i3, i4⟩ := ih r1 plan.tail (acc ++ b :: bs) (by omega)
        rw [List.map_append] at i1 i2
        refine ⟨i1, i2, by omega, ?_⟩
        intro bs' h
        obtain ⟨d, hd, hp⟩ := i4 bs' h
        refine ⟨(b :: bs) ++ d, by rw [hd, List.append_assoc], ?_⟩
        rw [← hdat]
        exact (List.prefix_append_right_inj _).mpr hp
    | interrupted =>
      have hb := Serial.Reader.read_interrupted h2
      rw [rdOf_script_length, rdOf_script_length] at hb
      simp only [if_true]
      simp only at hdat
      have hdl : r1.data.length = r.data.length := by rw [hdat]
      obtain ⟨i1, i2, i3, i4⟩ := ih r1 plan.tail acc (by omega)
      refine ⟨i1, i2, by omega, ?_⟩
      intro bs' h
      obtain ⟨d, hd, hp⟩ := i4 bs' h
      exact ⟨d, hd, hdat ▸ hp⟩
    | failed =>
      simp only [reduceCtorEq, if_false]
      exact ⟨.failed, by trivial, hsp, fun bs h => by cases h⟩

/-! ### `read_to_string` -/

/-- **representation lemma, `input.read_to_string(&mut data)`** for every reader whose data are bytes: the reader
    afterwards is the model's; an I/O failure or invalid UTF-8 is `Err` (kind `Other`) and leaves the string alone;
    otherwise the decoded characters are appended -/
theorem readToString_repr (r : Rust.Reader) (data : String) (hb : ∀ b ∈ r.data, b < 256) :
    rdOf (Rust.readToString r data).2.1 = (Serial.readToEnd (rdOf r) r.plan []).2 ∧
    (Rust.readToString r data).2.1.sp + (Rust.readToString r data).2.1.script.length = r.sp + r.script.length ∧
    match (Serial.readToEnd (rdOf r) r.plan []).1 with
    | none => (Rust.readToString r data).1 = .error ⟨.other⟩ ∧ (Rust.readToString r data).2.2 = data
    | some bytes =>
      match Serial.utf8Decode bytes with
      | none => (Rust.readToString r data).1 = .error ⟨.other⟩ ∧ (Rust.readToString r data).2.2 = data
      | some cs => (Rust.readToString r data).1 = .ok bytes.length ∧
          (Rust.readToString r data).2.2 = data ++ String.ofList cs := by
  obtain ⟨h1, h2, h3, h4⟩ := readToEndGo_repr (r.data.length + r.script.length + 2) r r.plan [] (by omega)
  unfold Rust.readToString
  rcases hx : Rust.readToEndGo (r.data.length + r.script.length + 2) r r.plan [] with ⟨res, r'⟩
  rcases hy : Serial.readToEnd (rdOf r) r.plan [] with ⟨sres, sr⟩
  rw [hx] at h1 h2 h3 h4
  simp only [List.map_nil, hy] at h1 h2
  simp only at h1 h2 h3 h4 ⊢
  cases h1 with
  | failed => exact ⟨h2, h3, rfl, rfl⟩
  | ok bs =>
    obtain ⟨d, hd, hp⟩ := h4 bs rfl
    simp only [List.nil_append] at hd
    subst hd
    have hlt : ∀ b ∈ bs, b < 256 := fun b hb' => hb b (hp.subset hb')
    simp only
    rw [utf8Dec_repr bs hlt]
    cases Serial.utf8Decode (bs.map byteOf) with
    | none => exact ⟨h2, h3, rfl, rfl⟩
    | some cs => exact ⟨h2, h3, by simp, rfl⟩

end B.AlgoEq3Text
