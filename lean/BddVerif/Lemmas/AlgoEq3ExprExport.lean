import BddVerif.Lemmas.AlgoEq3ExprFmt
import BddVerif.Lemmas.ExprExport
/-!
# Equivalence "translated Rust = hand-written model", third generated file: `Bdd::to_boolean_expression`

`src/_impl_bdd/_impl_util.rs:304-376` as translated (`B.Gen.Algo3.Bdd_to_boolean_expression`: two early returns, a
`for node in 2..len` loop over a vector of already built expressions, `results.last().unwrap()`) against the hand model
`B.ExprM.toExpr` (Model/Expr.lean: a fold over the list of nodes).

* `to_boolean_expression_desugar`: the generated `for` loop is `iterL` of the hand-written step function `gStep`
  (proved by unfolding the generated definition; `gStep`/`gExpr` work on the GENERATED expression type);
* `gStep_rel`, `fold_rel`: one round / the whole loop against `toExprNode` / `toExprFold`, the vector of results being
  related by `Array.map toE`;
* `to_boolean_expression_rel`: **for EVERY array `A` (no well-formedness hypothesis; the empty array, the one- and
  two-node constants and malformed arrays included) and every variable set `T`** the translated function returns
  `Ok` exactly when the model does, with the same expression (through `toE`), and panics exactly when the model does
  (the messages differ: the model names the failing index, the translated `panic!` keeps its format string).
  Only the vector of names `T.2.1` matters; no fuel (the loop is a `for` over a range).
* chained with `ExprM.toExpr_sem`: on a reduced array over distinct names the translated export does not panic and
  its tree denotes the function of the array.
-/
set_option linter.unusedSimpArgs false
namespace B.AlgoEq3Expr
open B B.Gen B.Gen.Algo3 B.Parser B.AlgoEqUtil B.ExprM
attribute [local instance 10000] Rust.monadOutcomeInline

private def oob {α} : Outcome α := .panic "index out of bounds"

/-- the expression `to_boolean_expression` builds for one node (lines 322-371), on the generated type -/
def gExpr (name : String) (nd : Node) (res : Array GE) : Outcome GE :=
  if nd.low < 2 ∧ nd.high < 2 then
    if nd.high = 1 ∧ nd.low = 0 then .ok (.Variable name)
    else if nd.high = 0 ∧ nd.low = 1 then .ok (.Not (.Variable name))
    else .panic "Invalid node {:?} in bdd {:?}."
  else if nd.low < 2 then
    match res[nd.high]? with
    | none => oob
    | some h => if nd.low = 0 then .ok (.And (.Variable name) h) else .ok (.Or (.Not (.Variable name)) h)
  else if nd.high < 2 then
    match res[nd.low]? with
    | none => oob
    | some l => if nd.high = 0 then .ok (.And (.Not (.Variable name)) l) else .ok (.Or (.Variable name) l)
  else
    match res[nd.high]?, res[nd.low]? with
    | some h, some l => .ok (.Or (.And (.Variable name) h) (.And (.Not (.Variable name)) l))
    | _, _ => oob

/-- one round of the loop `for node in 2..self.0.len()` -/
def gStep (A : Arr) (names : Array String) (node : Nat) (res : Array GE) : Outcome (ForInStep (Array GE)) :=
  match A[node]? with
  | none => oob
  | some nd =>
    match names[nd.var]? with
    | none => oob
    | some name =>
      match gExpr name nd res with
      | .ok e => .ok (.yield (res.push e))
      | .err m => .err m
      | .panic m => .panic m

/-- DESUGARING: the generated function is the two constant tests, `iterL gStep` over the node indices `2 … len-1`
    from the two fake terminal entries, and `results.last().unwrap()` -/
theorem to_boolean_expression_desugar (A : Arr) (T : Nat × Array String × Std.HashMap String Nat) :
    Bdd_to_boolean_expression A T =
      if A.size = 1 then .ok (.Const false) else if A.size = 2 then .ok (.Const true) else
        match iterL (gStep A T.2.1) (List.range' 2 (A.size - 2)) #[.Const false, .Const true] with
        | .ok res => Rust.unwrap res.back?
        | .err m => .err m
        | .panic m => .panic m := by
  unfold Bdd_to_boolean_expression
  simp only [forIn_range_eq_iterL]
  rw [iterL_congr _ (gStep A T.2.1) _ (by
    intro node _ res
    unfold gStep gExpr oob
    simp only [idx_eq, Algo.BddPointer_is_terminal, Algo.BddPointer_is_one, Algo.BddPointer_is_zero]
    cases A[node]? with
    | none => rfl
    | some nd =>
      simp only [bind_ok]
      cases T.2.1[nd.var]? with
      | none => rfl
      | some name =>
        simp only [bind_ok, Bool.and_eq_true, decide_eq_true_eq, beq_iff_eq]
        cases res[nd.high]? <;> cases res[nd.low]? <;> simp only [bind_ok, bind_panic, pure_eq] <;>
          (by_cases c1 : nd.low < 2 <;> by_cases c2 : nd.high < 2 <;>
            simp only [c1, c2, and_self, and_true, and_false, true_and, false_and, if_true, if_false] <;>
            (try (by_cases c3 : nd.low = 0 <;> simp only [c3, and_true, and_false, if_true, if_false])) <;>
            (try (by_cases c4 : nd.high = 0 <;>
              simp only [c4, and_true, and_false, true_and, false_and, if_true, if_false])) <;>
            (try (by_cases c5 : nd.high = 1 <;>
              simp only [c5, and_true, and_false, true_and, false_and, if_true, if_false])) <;>
            (try (by_cases c6 : nd.low = 1 <;>
              simp only [c6, and_true, and_false, true_and, false_and, if_true, if_false])) <;>
            (try rfl)))]
  have e0 : ((Rust.vecWithCapacity A.size : Array GE).push (.Const false)).push (.Const true) =
      #[.Const false, .Const true] := rfl
  rw [e0]
  unfold Algo.Bdd_is_false Algo.Bdd_is_true
  by_cases h1 : A.size = 1
  · simp [h1]
  · by_cases h2 : A.size = 2
    · simp [h2]
    · simp only [beq_iff_eq, h1, h2, if_false]
      cases iterL (gStep A T.2.1) (List.range' 2 (A.size - 2)) #[.Const false, .Const true] <;> rfl

/-! ## the loop against the model's fold -/

/-- outcome of one round: the same expression pushed, or a panic on both sides -/
inductive StepRel (res : Array GE) : Outcome (ForInStep (Array GE)) → Outcome Expr → Prop
  | ok (g : GE) : StepRel res (.ok (.yield (res.push g))) (.ok (toE g))
  | panic (m m' : String) : StepRel res (.panic m) (.panic m')

/-- outcome of the loop: vectors (of at least `n0` entries) related by `map toE`, or a panic on both sides -/
inductive FoldRel (n0 : Nat) : Outcome (Array GE) → Outcome (Array Expr) → Prop
  | ok (res : Array GE) (h : n0 ≤ res.size) : FoldRel n0 (.ok res) (.ok (res.map toE))
  | panic (m m' : String) : FoldRel n0 (.panic m) (.panic m')

theorem FoldRel.mono {n m : Nat} (h : n ≤ m) {x y} (r : FoldRel m x y) : FoldRel n x y := by
  cases r with
  | ok res h' => exact .ok res (Nat.le_trans h h')
  | panic a b => exact .panic a b

/-- outcome of the function: the same expression (through `toE`), or a panic on both sides -/
inductive ExportRel : Outcome GE → Outcome Expr → Prop
  | ok (g : GE) : ExportRel (.ok g) (.ok (toE g))
  | panic (m m' : String) : ExportRel (.panic m) (.panic m')

/-- the model's variable names: the translated vector of `String`s as a list of `List Char`s -/
def namesOf (names : Array String) : List Name := names.toList.map String.toList

theorem namesOf_get (names : Array String) (i : Nat) : (namesOf names)[i]? = names[i]?.map String.toList := by
  simp [namesOf]

/-- one round of the loop on the node `nd = A[node]` -/
theorem gStep_rel (A : Arr) (names : Array String) (node : Nat) (nd : Node) (hnd : A[node]? = some nd)
    (res : Array GE) :
    StepRel res (gStep A names node res) (toExprNode (namesOf names) (res.map toE) nd) := by
  unfold gStep toExprNode
  rw [hnd, namesOf_get]
  simp only
  cases names[nd.var]? with
  | none => exact .panic _ _
  | some name =>
    simp only [Option.map, gExpr, isTerminal, Array.getElem?_map, Bool.and_eq_true, decide_eq_true_eq, oob]
    by_cases c1 : nd.low < 2 <;> by_cases c2 : nd.high < 2 <;>
      simp only [c1, c2, and_self, and_true, and_false, true_and, false_and, if_true, if_false]
    · have d1 : nd.low = 0 ∨ nd.low = 1 := by omega
      have d2 : nd.high = 0 ∨ nd.high = 1 := by omega
      rcases d1 with d1 | d1 <;> rcases d2 with d2 | d2 <;>
        simp only [d1, d2, and_self, and_true, and_false, true_and, false_and, if_true, if_false,
          Nat.zero_ne_one, Nat.one_ne_zero, Nat.succ_ne_self] <;>
        first
          | exact .ok (.Variable name)
          | exact .ok (.Not (.Variable name))
          | exact .panic _ _
    · cases res[nd.high]? with
      | none => exact .panic _ _
      | some h =>
        simp only [Option.map]
        by_cases c3 : nd.low = 0 <;> simp only [c3, if_true, if_false]
        · exact .ok (.And (.Variable name) h)
        · exact .ok (.Or (.Not (.Variable name)) h)
    · cases res[nd.low]? with
      | none => exact .panic _ _
      | some l =>
        simp only [Option.map]
        by_cases c4 : nd.high = 0 <;> simp only [c4, if_true, if_false]
        · exact .ok (.And (.Not (.Variable name)) l)
        · exact .ok (.Or (.Variable name) l)
    · cases res[nd.high]? with
      | none => cases res[nd.low]? <;> exact .panic _ _
      | some h =>
        cases res[nd.low]? with
        | none => exact .panic _ _
        | some l => exact .ok (.Or (.And (.Variable name) h) (.And (.Not (.Variable name)) l))

/-- the whole loop from index `s`: `iterL gStep` over `s … len-1` against `toExprFold` over the remaining nodes -/
theorem fold_rel (A : Arr) (names : Array String) : ∀ (k s : Nat) (res : Array GE), s + k = A.size →
    FoldRel res.size (iterL (gStep A names) (List.range' s k) res) (toExprFold (namesOf names) (A.toList.drop s) (res.map toE)) := by
  intro k
  induction k with
  | zero =>
    intro s res h
    have : A.toList.drop s = [] := List.drop_eq_nil_of_le (by simp; omega)
    rw [this]
    exact .ok res (Nat.le_refl _)
  | succ k ih =>
    intro s res h
    have hs : s < A.size := by omega
    have hd : A.toList.drop s = A[s] :: A.toList.drop (s + 1) := by
      rw [← Array.getElem_toList (h := by simpa using hs)]
      exact List.drop_eq_getElem_cons (by simpa using hs)
    rw [hd, List.range'_succ, iterL_cons, toExprFold]
    have hstep := gStep_rel A names s A[s] (by simp [hs]) res
    generalize gStep A names s res = x at hstep ⊢
    generalize toExprNode (namesOf names) (res.map toE) A[s] = y at hstep ⊢
    cases hstep with
    | ok g =>
      simp only
      have := (ih (s + 1) (res.push g) (by omega)).mono (n := res.size) (by rw [Array.size_push]; omega)
      rwa [Array.map_push] at this
    | panic m m' => exact .panic _ _

/-- **`Bdd::to_boolean_expression` as translated ~ `ExprM.toExpr`, for every array and every variable set** -/
theorem to_boolean_expression_rel (A : Arr) (T : Nat × Array String × Std.HashMap String Nat) :
    ExportRel (Bdd_to_boolean_expression A T) (toExpr (namesOf T.2.1) A) := by
  rw [to_boolean_expression_desugar]
  unfold toExpr
  by_cases h1 : A.size = 1
  · simp only [h1, if_true]; exact .ok (.Const false)
  · by_cases h2 : A.size = 2
    · simp only [h2, if_true]
      exact .ok (.Const true)
    · simp only [h1, h2, if_false]
      by_cases h0 : A.size = 0
      · -- the empty array: no round, `last()` of the two fake entries
        have e1 : A.size - 2 = 0 := by omega
        have e2 : A.toList.drop 2 = [] := List.drop_eq_nil_of_le (by simp; omega)
        rw [e1, e2]
        exact .ok (.Const true)
      · have hf := fold_rel A T.2.1 (A.size - 2) 2 #[.Const false, .Const true] (by omega)
        have e3 : (#[.Const false, .Const true] : Array GE).map toE = #[.const false, .const true] := by
          simp [toE]
        rw [e3] at hf
        generalize iterL (gStep A T.2.1) (List.range' 2 (A.size - 2)) #[.Const false, .Const true] = x at hf ⊢
        generalize toExprFold (namesOf T.2.1) (A.toList.drop 2) #[.const false, .const true] = y at hf ⊢
        cases hf with
        | panic m m' => exact .panic _ _
        | ok res hsz =>
          have hsz' : 2 ≤ res.size := hsz
          have hb : res[res.size - 1]? = some res[res.size - 1] := Array.getElem?_eq_getElem (by omega)
          simp only [Array.back?_eq_getElem?, Array.size_map, Array.getElem?_map, hb]
          exact .ok _

/-! ## corollaries -/

/-- the translated export returns `Ok(g)` exactly when the model returns the same expression -/
theorem to_boolean_expression_ok_iff (A : Arr) (T : Nat × Array String × Std.HashMap String Nat) (g : GE) :
    Bdd_to_boolean_expression A T = .ok g ↔ toExpr (namesOf T.2.1) A = .ok (toE g) := by
  have h := to_boolean_expression_rel A T
  generalize Bdd_to_boolean_expression A T = x at h ⊢
  generalize toExpr (namesOf T.2.1) A = y at h ⊢
  cases h with
  | ok g' =>
    constructor
    · intro h; injection h with h; rw [h]
    · intro h; injection h with h; rw [toE_injective h]
  | panic m m' => constructor <;> (intro h; cases h)

/-- in terms of the model's expressions: `= .ok (ofE e)` whenever the model returns `e` -/
theorem to_boolean_expression_eq_model (A : Arr) (T : Nat × Array String × Std.HashMap String Nat) (e : Expr)
    (h : toExpr (namesOf T.2.1) A = .ok e) : Bdd_to_boolean_expression A T = .ok (ofE e) :=
  (to_boolean_expression_ok_iff A T (ofE e)).2 (by rw [toE_ofE]; exact h)

/-- the translated export panics exactly when the model panics (the `panic!("Invalid node …")` arm, a variable index
    beyond the names, a link beyond the results built so far) -/
theorem to_boolean_expression_panic_iff (A : Arr) (T : Nat × Array String × Std.HashMap String Nat) :
    (∃ m, Bdd_to_boolean_expression A T = .panic m) ↔ ∃ m, toExpr (namesOf T.2.1) A = .panic m := by
  have h := to_boolean_expression_rel A T
  generalize Bdd_to_boolean_expression A T = x at h ⊢
  generalize toExpr (namesOf T.2.1) A = y at h ⊢
  cases h with
  | ok g' => constructor <;> (rintro ⟨m, h⟩; cases h)
  | panic m m' => exact ⟨fun _ => ⟨_, rfl⟩, fun _ => ⟨_, rfl⟩⟩

/-- the one-node array (`false`) and the two-node array (`true`) -/
theorem to_boolean_expression_const (A : Arr) (T : Nat × Array String × Std.HashMap String Nat) :
    (A.size = 1 → Bdd_to_boolean_expression A T = .ok (.Const false)) ∧
    (A.size = 2 → Bdd_to_boolean_expression A T = .ok (.Const true)) := by
  rw [to_boolean_expression_desugar]
  constructor
  · intro h; rw [if_pos h]
  · intro h; rw [if_neg (by omega), if_pos h]

/-- **chained with `ExprM.toExpr_sem` (Props.C15.to_expr_sem)**: on a reduced array over `n` variables and a set of
    `n` pairwise distinct names THE TRANSLATED CODE reaches none of its panics, the tree it returns denotes the function
    of the array and mentions only names of the set. -/
theorem to_boolean_expression_sem (A : Arr) (T : Nat × Array String × Std.HashMap String Nat) (n : Nat)
    (hred : Red A n) (hn : T.2.1.size = n) (hnd : T.2.1.toList.Nodup) :
    ∃ g, Bdd_to_boolean_expression A T = .ok g ∧
      (∀ v, evalBool (toE g) (envOf (namesOf T.2.1) v) = den A v) ∧
      ∀ s ∈ ExprM.names (toE g), s ∈ namesOf T.2.1 := by
  have hnd' : (namesOf T.2.1).Nodup := by
    unfold namesOf
    rw [List.Nodup, List.pairwise_map]   -- `String.toList` is injective
    exact hnd.imp (fun hab hc => hab (String.toList_inj.mp hc))
  obtain ⟨e, he, h1, h2⟩ := toExpr_sem (vars := namesOf T.2.1) hred (by simp [namesOf, hn]) hnd'
  refine ⟨ofE e, to_boolean_expression_eq_model A T e he, ?_, ?_⟩
  · rw [toE_ofE]; exact h1
  · rw [toE_ofE]; exact h2

end B.AlgoEq3Expr
