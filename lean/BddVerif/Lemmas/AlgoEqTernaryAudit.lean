import BddVerif.Lemmas.AlgoEqTernary
/-!
Audit of the equivalence "translated Rust `ternary_apply` = hand-written model `ternaryApply`":
axioms of every public theorem (allowed: propext, Classical.choice, Quot.sound).
-/
open B

#print axioms B.AlgoEqT.desugar_body3
#print axioms B.AlgoEqT.desugar3
#print axioms B.AlgoEqT.desugar_ok3
#print axioms B.AlgoEqT.applyRec3_post
#print axioms B.AlgoEqT.applyRec3_eqSt
#print axioms B.AlgoEqT.sim3
#print axioms B.AlgoEqT.run_loop3
#print axioms B.ternary_apply_eq_model'
#print axioms B.ternary_apply_eq_model
#print axioms B.ternary_apply_eq_canon
#print axioms B.ternary_apply_eq_model_driver
#print axioms B.Bdd_ternary_op_eq_model_driver
#print axioms B.Bdd_fused_ternary_flip_op_eq_model_driver
#print axioms B.ternary_apply_panics_mismatch
#print axioms B.ternary_apply_panics_flip

/-- the statements, restated: a change of their shape breaks this file -/
example (A B C : Arr) (n : Nat) (op : Op3) (c : Bool → Bool → Bool → Bool) (fa fb fc fo : Option Nat)
    (hA : WFo A n) (hB : WFo B n) (hC : WFo C n) (hc : Consistent3 op c)
    (hfa : ∀ x, fa = some x → x < n) (hfb : ∀ x, fb = some x → x < n) (hfc : ∀ x, fc = some x → x < n)
    (hfo : ∀ x, fo = some x → x < n)
    (hsz : A.size * B.size * C.size + 2 ≤ 2 ^ 32) (fuel : Nat) (hfuel : 3 * (A.size * B.size * C.size) ≤ fuel) :
    Gen.Algo.ternary_apply fuel (A, B, C) (fa, fb, fc) fo op = .ok (ternaryApply A B C op fa fb fc fo) :=
  ternary_apply_eq_model A B C n op c fa fb fc fo hA hB hC hc hfa hfb hfc hfo hsz fuel hfuel

example (A B C : Arr) (n : Nat) (op : Op3) (c : Bool → Bool → Bool → Bool) (fa fb fc fo : Option Nat)
    (hA : WFo A n) (hB : WFo B n) (hC : WFo C n) (hc : Consistent3 op c)
    (hfa : ∀ x, fa = some x → x < n) (hfb : ∀ x, fb = some x → x < n) (hfc : ∀ x, fc = some x → x < n)
    (hfo : ∀ x, fo = some x → x < n)
    (hsz : A.size * B.size * C.size + 2 ≤ 2 ^ 32) (fuel : Nat) (hfuel : 3 * (A.size * B.size * C.size) ≤ fuel) :
    Gen.Algo.ternary_apply fuel (A, B, C) (fa, fb, fc) fo op = .ok (canon n (specFn3 A B C n c fa fb fc fo)) :=
  ternary_apply_eq_canon A B C n op c fa fb fc fo hA hB hC hc hfa hfb hfc hfo hsz fuel hfuel
