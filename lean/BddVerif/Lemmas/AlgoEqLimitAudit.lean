import BddVerif.Lemmas.AlgoEqLimit
/-! axiom audit of the equivalence `Gen.Algo.apply_with_flip_and_limit` = `Lim.applyLimit` -/
#print axioms B.AlgoDL.limStep_finish
#print axioms B.AlgoDL.limStep_push
#print axioms B.AlgoDL.child_sim
#print axioms B.AlgoDL.parent_core
#print axioms B.AlgoDL.lim_sim
#print axioms B.AlgoDL.applyRecLim_congr
#print axioms B.AlgoDL.lim_loop
#print axioms B.AlgoDL.apply_with_flip_and_limit_eq_model
#print axioms B.AlgoDL.apply_with_flip_and_limit_eq_model_driver
#print axioms B.AlgoDL.apply_with_flip_and_limit_spec
#print axioms B.AlgoDL.apply_with_flip_and_limit_panic_vars
#print axioms B.AlgoDL.apply_with_flip_and_limit_panic_flip
#print axioms B.AlgoDL.Bdd_fused_binary_flip_op_with_limit_eq_model
#print axioms B.AlgoDL.Bdd_binary_op_with_limit_eq_model
#print axioms B.AlgoDL.Bdd_fused_binary_flip_op_with_limit_panic
