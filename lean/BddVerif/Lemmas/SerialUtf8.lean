import BddVerif.Model.Serial
/-! UTF-8: the decoder of the model inverts the encoder (needed to state whitespace tolerance and the round
trip at the level of bytes). -/
namespace B.Serial

theorem char_valid (c : Char) : c.toNat < 0xD800 ∨ (0xDFFF < c.toNat ∧ c.toNat < 0x110000) := c.valid

theorem utf8DecNat_enc (c : Char) (rest : List Nat) :
    utf8DecNat (utf8EncChar c ++ rest) = (utf8DecNat rest).map (c :: ·) := by
  have hv := char_valid c
  have hc : Char.ofNat c.toNat = c := Char.ofNat_toNat c
  unfold utf8EncChar
  simp only
  generalize hn : c.toNat = n at hv hc
  split
  · rename_i h1
    rw [List.singleton_append]; rw [utf8DecNat.eq_def]
    simp [h1, hc]
  · split
    · rename_i h1 h2
      rw [List.cons_append, List.singleton_append]; rw [utf8DecNat.eq_def]
      have a1 : ¬ (0xC0 + n / 64 < 0x80) := by omega
      have a2 : 0xC2 ≤ 0xC0 + n / 64 ∧ 0xC0 + n / 64 ≤ 0xDF := by omega
      have a3 : isCont (0x80 + n % 64) = true := by simp [isCont]; omega
      have a4 : (0xC0 + n / 64 - 0xC0) * 64 + (0x80 + n % 64 - 0x80) = n := by omega
      simp only [a1, a2, a3, a4, if_false, if_true, and_self, hc]
    · split
      · rename_i h1 h2 h3
        rw [List.cons_append, List.cons_append, List.singleton_append]; rw [utf8DecNat.eq_def]
        have a1 : ¬ (0xE0 + n / 4096 < 0x80) := by omega
        have a2 : ¬ (0xC2 ≤ 0xE0 + n / 4096 ∧ 0xE0 + n / 4096 ≤ 0xDF) := by omega
        have a3 : 0xE0 ≤ 0xE0 + n / 4096 ∧ 0xE0 + n / 4096 ≤ 0xEF := by omega
        have a4 : isCont (0x80 + n / 64 % 64) = true := by simp [isCont]; omega
        have a5 : isCont (0x80 + n % 64) = true := by simp [isCont]; omega
        have a6 : ((0xE0 + n / 4096 != 0xE0) || decide (0xA0 ≤ 0x80 + n / 64 % 64)) = true := by
          simp only [Bool.or_eq_true, bne_iff_ne, decide_eq_true_eq]; omega
        have a7 : ((0xE0 + n / 4096 != 0xED) || decide (0x80 + n / 64 % 64 ≤ 0x9F)) = true := by
          simp only [Bool.or_eq_true, bne_iff_ne, decide_eq_true_eq]; omega
        have a8 : (0xE0 + n / 4096 - 0xE0) * 4096 + (0x80 + n / 64 % 64 - 0x80) * 64 + (0x80 + n % 64 - 0x80) = n := by
          omega
        simp only [a1, a2, a3, a4, a5, a6, a7, a8, if_false, if_true, and_self, Bool.and_self, hc]
      · rename_i h1 h2 h3
        rw [List.cons_append, List.cons_append, List.cons_append, List.singleton_append]; rw [utf8DecNat.eq_def]
        have a1 : ¬ (0xF0 + n / 262144 < 0x80) := by omega
        have a2 : ¬ (0xC2 ≤ 0xF0 + n / 262144 ∧ 0xF0 + n / 262144 ≤ 0xDF) := by omega
        have a3 : ¬ (0xE0 ≤ 0xF0 + n / 262144 ∧ 0xF0 + n / 262144 ≤ 0xEF) := by omega
        have a3' : 0xF0 ≤ 0xF0 + n / 262144 ∧ 0xF0 + n / 262144 ≤ 0xF4 := by omega
        have a4 : isCont (0x80 + n / 4096 % 64) = true := by simp [isCont]; omega
        have a5 : isCont (0x80 + n / 64 % 64) = true := by simp [isCont]; omega
        have a5' : isCont (0x80 + n % 64) = true := by simp [isCont]; omega
        have a6 : ((0xF0 + n / 262144 != 0xF0) || decide (0x90 ≤ 0x80 + n / 4096 % 64)) = true := by
          simp only [Bool.or_eq_true, bne_iff_ne, decide_eq_true_eq]; omega
        have a7 : ((0xF0 + n / 262144 != 0xF4) || decide (0x80 + n / 4096 % 64 ≤ 0x8F)) = true := by
          simp only [Bool.or_eq_true, bne_iff_ne, decide_eq_true_eq]; omega
        have a8 : (0xF0 + n / 262144 - 0xF0) * 262144 + (0x80 + n / 4096 % 64 - 0x80) * 4096 +
            (0x80 + n / 64 % 64 - 0x80) * 64 + (0x80 + n % 64 - 0x80) = n := by omega
        simp only [a1, a2, a3, a3', a4, a5, a5', a6, a7, a8, if_false, if_true, and_self, Bool.and_self, hc]

theorem utf8DecNat_flatMap_enc (s : List Char) : utf8DecNat (s.flatMap utf8EncChar) = some s := by
  induction s with
  | nil => simp [utf8DecNat]
  | cons c s ih => simp [List.flatMap_cons, utf8DecNat_enc, ih]

theorem utf8EncChar_lt (c : Char) : ∀ b ∈ utf8EncChar c, b < 256 := by
  have hv := char_valid c
  intro b hb
  unfold utf8EncChar at hb
  simp only at hb
  split at hb
  · simp at hb; omega
  · split at hb
    · simp at hb; omega
    · split at hb
      · simp at hb; omega
      · simp at hb; omega

theorem map_toUInt8_toNat (l : List Nat) (h : ∀ b ∈ l, b < 256) : (l.map (·.toUInt8)).map (·.toNat) = l := by
  induction l with
  | nil => rfl
  | cons b l ih =>
    simp only [List.map_cons, List.cons.injEq]
    refine ⟨?_, ih (fun x hx => h x (by simp [hx]))⟩
    have := h b (by simp)
    simp [Nat.toUInt8, UInt8.toNat_ofNat', Nat.mod_eq_of_lt this]

/-- decoding inverts encoding -/
theorem utf8Decode_encode (s : List Char) : utf8Decode (utf8Encode s) = some s := by
  unfold utf8Decode utf8Encode
  rw [map_toUInt8_toNat _ (by
    intro b hb; simp only [List.mem_flatMap] at hb; obtain ⟨c, _, hb⟩ := hb; exact utf8EncChar_lt c b hb)]
  exact utf8DecNat_flatMap_enc s

/-- ASCII text: one byte per character -/
theorem utf8Encode_ascii (s : List Char) (h : ∀ c ∈ s, c.toNat < 0x80) : utf8Encode s = asciiBytes s := by
  unfold utf8Encode asciiBytes
  induction s with
  | nil => rfl
  | cons c s ih =>
    have hc := h c (by simp)
    simp only [List.flatMap_cons, List.map_append, List.map_cons]
    rw [ih (fun x hx => h x (by simp [hx]))]
    simp [utf8EncChar, hc]

end B.Serial
