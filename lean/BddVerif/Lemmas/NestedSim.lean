import BddVerif.Lemmas.NestedRealign
import BddVerif.Lemmas.NestedQ
/-!
L6 `nested_sim`: invariants of the model of `nested_apply` + `inner_apply`.

The result array of `nested_apply` contains garbage (the two children of every triggered decision are
built and then merged), so it is not described by the reference builder directly. Instead:
every state is a reduced post-order array with exact terminals (`RedT`), `node_cache` is exact, every
entry of the shared `inner_cache` denotes `d (left) (right)` of its two pointers, every entry of
`outer_cache` denotes the projection `Qn trig d n` of the task function. The final
`fix_bdd_alignment` then yields the canonical array by L5 (`realign_sim`).
-/
namespace B
open Std

/-- hypotheses on one `nested_apply` call: operands well-formed by level, both tables consistent with
    a connective, the inner connective idempotent (`or`, `and`) -/
structure NOk (Γ : NCtx) (n : Nat) (c dop : Bool → Bool → Bool) : Prop where
  wfL : WFo Γ.L n
  wfR : WFo Γ.R n
  consO : Consistent Γ.outer c
  consI : Consistent Γ.inner dop
  idem : ∀ a, dop a a = a

def NCtx.toCtx (Γ : NCtx) (n : Nat) : Ctx := ⟨Γ.L, Γ.R, n, Γ.outer, none, none, none⟩

theorem NOk.ctx {Γ : NCtx} {n : Nat} {c dop} (ok : NOk Γ n c dop) : (Γ.toCtx n).Ok c :=
  ⟨ok.wfL, ok.wfR, ok.consO, fun _ h => (by cases h), fun _ h => (by cases h)⟩

/-- task function of the outer pass: the outer connective of the two operand sub-diagrams -/
def NCtx.T (Γ : NCtx) (n : Nat) (c : Bool → Bool → Bool) (l r : Nat) : (Nat → Bool) → Bool :=
  (Γ.toCtx n).G c l r

/-- what an outer task must denote: the projection of its task function -/
def NCtx.QT (Γ : NCtx) (n : Nat) (c dop : Bool → Bool → Bool) (l r : Nat) : (Nat → Bool) → Bool :=
  Qn Γ.trigger dop n (Γ.T n c l r)

theorem NCtx.T_eq (Γ : NCtx) (n : Nat) (c : Bool → Bool → Bool) (l r : Nat) (v : Nat → Bool) :
    Γ.T n c l r v = c (evW Γ.L n v l) (evW Γ.R n v r) := rfl

section
variable {Γ : NCtx} {n : Nat} {c dop : Bool → Bool → Bool}

theorem T_dep (ok : NOk Γ n c dop) (l r : Nat) (hl : l < Γ.L.size) (hr : r < Γ.R.size) (k : Nat)
    (hkl : k ≤ varOf Γ.L n l) (hkr : k ≤ varOf Γ.R n r) : DepOn k n (Γ.T n c l r) :=
  fun v w hvw => (Γ.toCtx n).G_indep c ok.ctx l r hl hr k hkl hkr v w hvw

theorem T_split (ok : NOk Γ n c dop) (l r : Nat) (hl : l < Γ.L.size) (hr : r < Γ.R.size) (d : Nat)
    (hdl : d ≤ varOf Γ.L n l) (hdr : d ≤ varOf Γ.R n r) (hdn : d < n) (b : Bool) :
    (fun w => Γ.T n c l r (upd w d b)) =
      Γ.T n c (sel b (kids Γ.L l d none)) (sel b (kids Γ.R r d none)) := by
  funext w
  have := (Γ.toCtx n).G_split c ok.ctx l r hl hr d hdl hdr hdn b w
  simpa [NCtx.T, NCtx.toCtx] using this

/-- Shannon step of the projected task function at the task's decision variable -/
theorem QT_shannon (ok : NOk Γ n c dop) (l r : Nat) (hl : l < Γ.L.size) (hr : r < Γ.R.size) (d : Nat)
    (hdl : d ≤ varOf Γ.L n l) (hdr : d ≤ varOf Γ.R n r) (hdn : d < n) (v : Nat → Bool) :
    Γ.QT n c dop l r v =
      if Γ.trigger d then
        dop (Γ.QT n c dop (kids Γ.L l d none).1 (kids Γ.R r d none).1 v)
            (Γ.QT n c dop (kids Γ.L l d none).2 (kids Γ.R r d none).2 v)
      else if v d then Γ.QT n c dop (kids Γ.L l d none).2 (kids Γ.R r d none).2 v
      else Γ.QT n c dop (kids Γ.L l d none).1 (kids Γ.R r d none).1 v := by
  unfold NCtx.QT
  rw [Qn_shannon Γ.trigger dop ok.idem n d hdn _ (T_dep ok l r hl hr d hdl hdr) v]
  have e0 := T_split ok l r hl hr d hdl hdr hdn false
  have e1 := T_split ok l r hl hr d hdl hdr hdn true
  simp only [sel_true, sel_false] at e0 e1
  split
  · rw [e0, e1]
  · cases hvd : v d
    · simp only [Bool.false_eq_true, if_false]; rw [e0]
    · simp only [if_true]; rw [e1]

/-- a constant task (both pointers terminal) -/
theorem QT_terminal (ok : NOk Γ n c dop) (l r : Nat) (x y : Bool)
    (hx : ∀ v, evW Γ.L n v l = x) (hy : ∀ v, evW Γ.R n v r = y) (v : Nat → Bool) :
    Γ.QT n c dop l r v = c x y := by
  unfold NCtx.QT
  have hT : Γ.T n c l r = fun _ => c x y := by
    funext w; rw [NCtx.T_eq, hx, hy]
  rw [hT, Qn_const Γ.trigger dop ok.idem n _ (fun _ _ _ => rfl)]

/-! ### the result array as an operand of the inner pass -/

theorem ev_kids {A : Arr} (h : RedT A n) (a : Nat) (ha : a < A.size) (d : Nat) (hd : d ≤ varOf A n a)
    (hdn : d < n) (b : Bool) (v : Nat → Bool) :
    ev A (upd v d b) a = ev A v (sel b (kids A a d none)) ∧
    sel b (kids A a d none) < A.size ∧ d + 1 ≤ varOf A n (sel b (kids A a d none)) := by
  obtain ⟨e, hlt, hlv⟩ := evW_kids h.wfo a ha d hd hdn none v b
  refine ⟨?_, hlt, hlv⟩
  rw [ev_eq_evW h _ _ ha, ev_eq_evW h _ _ hlt]
  exact e

theorem asBool_ev (A : Arr) (p : Nat) (x : Bool) (h : asBool p = some x) (v : Nat → Bool) : ev A v p = x := by
  unfold asBool at h
  split at h
  · rename_i h0; subst h0; cases h; exact ev_zero _ _
  · split at h
    · rename_i _ h1; subst h1; cases h; exact ev_one _ _
    · cases h

/-- a terminal look-up that answers determines the value, whatever the unknown arguments are -/
theorem table_const {op : Op2} {c : Bool → Bool → Bool} (hc : Consistent op c) (a b : Nat) (t : Bool)
    (h : op (asBool a) (asBool b) = some t) (x y : Bool)
    (hx : ∀ x', asBool a = some x' → x = x') (hy : ∀ y', asBool b = some y' → y = y') : c x y = t := by
  cases ha : asBool a with
  | some x' =>
    cases hb : asBool b with
    | some y' =>
      rw [ha, hb, hc.total] at h; cases h
      rw [hx x' ha, hy y' hb]
    | none =>
      rw [ha, hb] at h
      rw [hx x' ha]; exact hc.left x' t h _
  | none =>
    cases hb : asBool b with
    | some y' =>
      rw [ha, hb] at h
      rw [hy y' hb]; exact hc.right y' t h _
    | none =>
      rw [ha, hb] at h
      exact hc.none_ t h _ _

/-! ### invariants -/

/-- an entry `(a, b) ↦ p` of the inner cache is valid in array `A` -/
def InnerOK (A : Arr) (n : Nat) (dop : Bool → Bool → Bool) (a b p : Nat) : Prop :=
  a < A.size ∧ b < A.size ∧ p < A.size ∧ min (varOf A n a) (varOf A n b) ≤ varOf A n p ∧
  ∀ v, ev A v p = dop (ev A v a) (ev A v b)

/-- an entry `(l, r) ↦ p` of the outer cache is valid in array `A` -/
def OuterOK (Γ : NCtx) (n : Nat) (c dop : Bool → Bool → Bool) (A : Arr) (l r p : Nat) : Prop :=
  p < A.size ∧ min (varOf Γ.L n l) (varOf Γ.R n r) ≤ varOf A n p ∧ ∀ v, ev A v p = Γ.QT n c dop l r v

theorem InnerOK.mono {A A' : Arr} {a b p : Nat} (h : InnerOK A n dop a b p) (hA : Red A n) (hA' : Red A' n)
    (hp : Prefix A A') : InnerOK A' n dop a b p := by
  obtain ⟨ha, hb, hpp, hl, he⟩ := h
  have := hp.1
  refine ⟨by omega, by omega, by omega, ?_, ?_⟩
  · rw [varOf_prefix hp _ ha, varOf_prefix hp _ hb, varOf_prefix hp _ hpp]; exact hl
  · intro v
    rw [ev_prefix hA hA' hp v _ hpp, ev_prefix hA hA' hp v _ ha, ev_prefix hA hA' hp v _ hb]; exact he v

theorem OuterOK.mono {A A' : Arr} {l r p : Nat} (h : OuterOK Γ n c dop A l r p) (hA : Red A n) (hA' : Red A' n)
    (hp : Prefix A A') : OuterOK Γ n c dop A' l r p := by
  obtain ⟨hpp, hl, he⟩ := h
  have := hp.1
  refine ⟨by omega, ?_, ?_⟩
  · rw [varOf_prefix hp _ hpp]; exact hl
  · intro v; rw [ev_prefix hA hA' hp v _ hpp]; exact he v

variable (Γ n c dop) in
/-- invariant of the state of `nested_apply` -/
structure NInv (s : NSt) : Prop where
  rt : RedT s.res n
  ex : ∀ (nd : Node) (i : Nat), nd.var < n → (s.nodes[nd]? = some i ↔ 2 ≤ i ∧ s.res[i]? = some nd)
  inn : ∀ (a b p : Nat), s.inner[(a, b)]? = some p → InnerOK s.res n dop a b p
  out : ∀ (l r p : Nat), s.outer[(l, r)]? = some p → OuterOK Γ n c dop s.res l r p

theorem NInv.transfer {s o : NSt} (hs : NInv Γ n c dop s) (hrt : RedT o.res n) (hpre : Prefix s.res o.res)
    (hex : ∀ (nd : Node) (i : Nat), nd.var < n → (o.nodes[nd]? = some i ↔ 2 ≤ i ∧ o.res[i]? = some nd))
    (hinn : ∀ (a b p : Nat), o.inner[(a, b)]? = some p →
      s.inner[(a, b)]? = some p ∨ InnerOK o.res n dop a b p)
    (hout : ∀ (l r p : Nat), o.outer[(l, r)]? = some p →
      s.outer[(l, r)]? = some p ∨ OuterOK Γ n c dop o.res l r p) : NInv Γ n c dop o := by
  refine ⟨hrt, hex, ?_, ?_⟩
  · intro a b p h
    rcases hinn a b p h with h' | h'
    · exact (hs.inn a b p h').mono hs.rt.red hrt.red hpre
    · exact h'
  · intro l r p h
    rcases hout l r p h with h' | h'
    · exact (hs.out l r p h').mono hs.rt.red hrt.red hpre
    · exact h'

/-- find-or-push of a fresh decision node `⟨d, lo, hi⟩` -/
theorem mkNode_out {s : NSt} (hs : NInv Γ n c dop s) (d lo hi : Nat) (hd : d < n)
    (hlo : lo < s.res.size) (hhi : hi < s.res.size) (hne : lo ≠ hi)
    (hvl : d < varOf s.res n lo) (hvh : d < varOf s.res n hi) :
    RedT (nFindOrPush s ⟨d, lo, hi⟩).1.res n ∧ Prefix s.res (nFindOrPush s ⟨d, lo, hi⟩).1.res ∧
    (∀ (nd : Node) (i : Nat), nd.var < n →
      ((nFindOrPush s ⟨d, lo, hi⟩).1.nodes[nd]? = some i ↔
        2 ≤ i ∧ (nFindOrPush s ⟨d, lo, hi⟩).1.res[i]? = some nd)) ∧
    (nFindOrPush s ⟨d, lo, hi⟩).1.inner = s.inner ∧ (nFindOrPush s ⟨d, lo, hi⟩).1.outer = s.outer ∧
    (nFindOrPush s ⟨d, lo, hi⟩).2 < (nFindOrPush s ⟨d, lo, hi⟩).1.res.size ∧
    varOf (nFindOrPush s ⟨d, lo, hi⟩).1.res n (nFindOrPush s ⟨d, lo, hi⟩).2 = d ∧
    ∀ v, ev (nFindOrPush s ⟨d, lo, hi⟩).1.res v (nFindOrPush s ⟨d, lo, hi⟩).2 =
      if v d then ev s.res v hi else ev s.res v lo := by
  have hs2 := hs.rt.red.size2
  -- generic part: any array `A'` extending `s.res` in which pointer `p ≥ 2` holds the node
  have fin : ∀ (A' : Arr) (p : Nat), Red A' n → Prefix s.res A' → 2 ≤ p →
      A'[p]? = some ⟨d, lo, hi⟩ →
      p < A'.size ∧ varOf A' n p = d ∧ ∀ v, ev A' v p = if v d then ev s.res v hi else ev s.res v lo := by
    intro A' p hred hpre hp2 hnd
    have hps : p < A'.size := by
      rcases Nat.lt_or_ge p A'.size with h' | h'
      · exact h'
      · simp [Array.getElem?_eq_none h'] at hnd
    refine ⟨hps, varOf_node p _ hp2 hnd, ?_⟩
    intro v
    rw [ev_node hred v p hp2 _ hnd]
    simp only
    rw [ev_prefix hs.rt.red hred hpre v _ hhi, ev_prefix hs.rt.red hred hpre v _ hlo]
  unfold nFindOrPush
  cases hex : s.nodes[(⟨d, lo, hi⟩ : Node)]? with
  | some i =>
    simp only
    obtain ⟨hi2, hind⟩ := (hs.ex ⟨d, lo, hi⟩ i hd).1 hex
    obtain ⟨f1, f2, f3⟩ := fin s.res i hs.rt.red (Prefix.refl _) hi2 hind
    exact ⟨hs.rt, Prefix.refl _, hs.ex, trivial, trivial, f1, f2, f3⟩
  | none =>
    simp only
    have hfn : findNode s.res ⟨d, lo, hi⟩ = none := by
      cases hf : findNode s.res ⟨d, lo, hi⟩ with
      | none => rfl
      | some i =>
        obtain ⟨hi2, hind⟩ := findNode_some hf
        have := (hs.ex ⟨d, lo, hi⟩ i hd).2 ⟨hi2, hind⟩
        rw [hex] at this; cases this
    have hred : Red (s.res.push ⟨d, lo, hi⟩) n :=
      Red.push hs.rt.red ⟨d, lo, hi⟩ hd hlo hhi hne hvl hvh hfn
    have hpre := Prefix.push s.res ⟨d, lo, hi⟩
    have hnd : (s.res.push ⟨d, lo, hi⟩)[s.res.size]? = some ⟨d, lo, hi⟩ := by simp
    obtain ⟨f1, f2, f3⟩ := fin (s.res.push ⟨d, lo, hi⟩) s.res.size hred hpre hs2 hnd
    refine ⟨hs.rt.prefix hred hpre, hpre, ?_, trivial, trivial, f1, f2, f3⟩
    intro nd' i hv'
    simp only [HashMap.getElem?_insert]
    by_cases hnn : (⟨d, lo, hi⟩ : Node) = nd'
    · subst hnn
      simp only [beq_self_eq_true, if_true, Option.some.injEq]
      constructor
      · intro h; subst h; exact ⟨hs2, hnd⟩
      · intro ⟨hi2, hind⟩
        rcases Nat.lt_or_ge i s.res.size with hlt | hge
        · have : s.res[i]? = some ⟨d, lo, hi⟩ := by rw [← hpre.2 i hlt]; exact hind
          have := (hs.ex _ i hd).2 ⟨hi2, this⟩
          rw [hex] at this; cases this
        · rcases Nat.lt_or_ge i (s.res.push ⟨d, lo, hi⟩).size with hlt' | hge'
          · simp at hlt'; omega
          · simp [Array.getElem?_eq_none hge'] at hind
    · have hbeq : ((⟨d, lo, hi⟩ : Node) == nd') = false := by simpa using hnn
      simp only [hbeq, Bool.false_eq_true, if_false]
      rw [hs.ex nd' i hv']
      constructor
      · intro ⟨hi2, hind⟩
        have hlt : i < s.res.size := by
          rcases Nat.lt_or_ge i s.res.size with h' | h'
          · exact h'
          · simp [Array.getElem?_eq_none h'] at hind
        exact ⟨hi2, by rw [hpre.2 i hlt]; exact hind⟩
      · intro ⟨hi2, hind⟩
        rcases Nat.lt_or_ge i s.res.size with hlt | hge
        · exact ⟨hi2, by rw [← hpre.2 i hlt]; exact hind⟩
        · exfalso
          have : i = s.res.size := by
            rcases Nat.lt_or_ge i (s.res.push ⟨d, lo, hi⟩).size with hlt' | hge'
            · simp at hlt'; omega
            · simp [Array.getElem?_eq_none hge'] at hind
          subst this
          rw [hnd] at hind
          exact hnn (Option.some.inj hind)

/-! ### the inner pass -/

variable (Γ n c dop) in
/-- what an inner (sub-)computation on pointers `(a, b)`, entered at level `k` from state `s`, delivers -/
structure IOut (s : NSt) (a b k : Nat) (o : NSt × Nat) : Prop where
  inv : NInv Γ n c dop o.1
  pre : Prefix s.res o.1.res
  outer : o.1.outer = s.outer
  lt : o.2 < o.1.res.size
  lvl : k ≤ varOf o.1.res n o.2
  ev : ∀ v, ev o.1.res v o.2 = dop (ev s.res v a) (ev s.res v b)

variable (Γ n c dop) in
def ISpec (rec : Nat → Nat → NSt → NSt × Nat) (k : Nat) : Prop :=
  ∀ a b s, NInv Γ n c dop s → a < s.res.size → b < s.res.size →
    k ≤ varOf s.res n a → k ≤ varOf s.res n b → IOut Γ n c dop s a b k (rec a b s)

theorem varOf_ofBool (A : Arr) (t : Bool) : varOf A n (ofBool t) = n := by
  cases t <;> simp [varOf, ofBool]

theorem nSolve_inner_out (ok : NOk Γ n c dop) (rec : Nat → Nat → NSt → NSt × Nat) (k : Nat)
    (hrec : ISpec Γ n c dop rec k) (a b : Nat) (s : NSt) (hs : NInv Γ n c dop s)
    (ha : a < s.res.size) (hb : b < s.res.size) (hka : k ≤ varOf s.res n a) (hkb : k ≤ varOf s.res n b) :
    IOut Γ n c dop s a b k (nSolve Γ.inner rec a b s) := by
  unfold nSolve
  cases hop : Γ.inner (asBool a) (asBool b) with
  | none => exact hrec a b s hs ha hb hka hkb
  | some t =>
    simp only
    have hkn : k ≤ n := by have := varOf_le hs.rt.red a; omega
    refine ⟨hs, Prefix.refl _, rfl, ofBool_lt hs.rt.red t, by rw [varOf_ofBool]; exact hkn, ?_⟩
    intro v
    rw [ev_ofBool]
    exact (table_const ok.consI a b t hop _ _ (fun x' h => asBool_ev _ _ _ h v)
      (fun y' h => asBool_ev _ _ _ h v)).symm

theorem NInv.insertInner {s : NSt} (hs : NInv Γ n c dop s) (a b p : Nat) (h : InnerOK s.res n dop a b p) :
    NInv Γ n c dop { s with inner := s.inner.insert (a, b) p } := by
  refine NInv.transfer hs hs.rt (Prefix.refl _) hs.ex ?_ ?_
  · intro a' b' p' h'
    simp only [HashMap.getElem?_insert] at h'
    split at h'
    · rename_i hk'
      have hk'' : (a, b) = (a', b') := by simpa using hk'
      cases hk''; cases h'
      exact Or.inr h
    · exact Or.inl h'
  · intro l r p' h'; exact Or.inl h'

theorem NInv.insertOuter {s : NSt} (hs : NInv Γ n c dop s) (l r p : Nat) (h : OuterOK Γ n c dop s.res l r p) :
    NInv Γ n c dop { s with outer := s.outer.insert (l, r) p } := by
  refine NInv.transfer hs hs.rt (Prefix.refl _) hs.ex ?_ ?_
  · intro a b p' h'; exact Or.inl h'
  · intro l' r' p' h'
    simp only [HashMap.getElem?_insert] at h'
    split at h'
    · rename_i hk'
      have hk'' : (l, r) = (l', r') := by simpa using hk'
      cases hk''; cases h'
      exact Or.inr h
    · exact Or.inl h'

/-- the state after find-or-push of a fresh decision node satisfies the invariant -/
theorem NInv.mkNode {s : NSt} (hs : NInv Γ n c dop s) (d lo hi : Nat) (hd : d < n)
    (hlo : lo < s.res.size) (hhi : hi < s.res.size) (hne : lo ≠ hi)
    (hvl : d < varOf s.res n lo) (hvh : d < varOf s.res n hi) :
    NInv Γ n c dop (nFindOrPush s ⟨d, lo, hi⟩).1 := by
  obtain ⟨m1, m2, m3, m4, m5, _, _, _⟩ := mkNode_out hs d lo hi hd hlo hhi hne hvl hvh
  refine NInv.transfer hs m1 m2 m3 ?_ ?_
  · intro a b p h; rw [m4] at h; exact Or.inl h
  · intro l r p h; rw [m5] at h; exact Or.inl h

/-- `innerFinish` from an intermediate state `s` (extending the entry state `s0`) -/
theorem innerFinish_out {s0 s : NSt} (hs0 : NInv Γ n c dop s0) (hs : NInv Γ n c dop s)
    (hpre : Prefix s0.res s.res) (houter : s.outer = s0.outer) (a b d lo hi k : Nat)
    (ha : a < s0.res.size) (hb : b < s0.res.size)
    (hd : d = min (varOf s0.res n a) (varOf s0.res n b)) (hk : k ≤ d)
    (hlo : lo < s.res.size) (hhi : hi < s.res.size)
    (hlv : lo ≠ hi → d < n ∧ d < varOf s.res n lo ∧ d < varOf s.res n hi)
    (hlv2 : d ≤ varOf s.res n lo)
    (hsem : ∀ v, dop (ev s0.res v a) (ev s0.res v b) = if v d then ev s.res v hi else ev s.res v lo) :
    IOut Γ n c dop s0 a b k (innerFinish s a b d lo hi) := by
  have hsz := hpre.1
  unfold innerFinish
  by_cases he : lo = hi
  · simp only [he, if_true]
    subst he
    have hev : ∀ v, ev s.res v lo = dop (ev s0.res v a) (ev s0.res v b) := by
      intro v; rw [hsem v]; split <;> rfl
    have hok : InnerOK s.res n dop a b lo := by
      refine ⟨by omega, by omega, hlo, ?_, ?_⟩
      · rw [varOf_prefix hpre _ ha, varOf_prefix hpre _ hb]; omega
      · intro v
        rw [hev v, ev_prefix hs0.rt.red hs.rt.red hpre v _ ha, ev_prefix hs0.rt.red hs.rt.red hpre v _ hb]
    have hlvl : k ≤ varOf s.res n lo := by omega
    exact ⟨hs.insertInner a b lo hok, hpre, houter, hlo, hlvl, hev⟩
  · simp only [he, if_false]
    obtain ⟨hdn, hvl, hvh⟩ := hlv he
    obtain ⟨m1, m2, _, _, m5, m6, m7, m8⟩ := mkNode_out hs d lo hi hdn hlo hhi he hvl hvh
    have hfp := hs.mkNode d lo hi hdn hlo hhi he hvl hvh
    generalize nFindOrPush s ⟨d, lo, hi⟩ = fp at *
    have hsz2 := m2.1
    have hev : ∀ v, ev fp.1.res v fp.2 = dop (ev s0.res v a) (ev s0.res v b) := by
      intro v; rw [m8 v, hsem v]
    have hok : InnerOK fp.1.res n dop a b fp.2 := by
      refine ⟨by omega, by omega, m6, ?_, ?_⟩
      · rw [varOf_prefix (hpre.trans m2) _ ha, varOf_prefix (hpre.trans m2) _ hb]; omega
      · intro v
        rw [hev v, ev_prefix hs0.rt.red m1.red (hpre.trans m2) v _ ha,
          ev_prefix hs0.rt.red m1.red (hpre.trans m2) v _ hb]
    have hlvl : k ≤ varOf fp.1.res n fp.2 := by omega
    have hout : fp.1.outer = s0.outer := by rw [m5, houter]
    exact ⟨hfp.insertInner a b fp.2 hok, hpre.trans m2, hout, m6, hlvl, hev⟩

/-- core of a non-cached inner step at decision level `d < n`: `(a1, b1)` is the HIGH sub-task (solved
    first), `(a2, b2)` the LOW one -/
theorem innerStep_core (ok : NOk Γ n c dop) (rec : Nat → Nat → NSt → NSt × Nat) (s : NSt)
    (a b d a1 b1 a2 b2 k : Nat) (hs : NInv Γ n c dop s) (ha : a < s.res.size) (hb : b < s.res.size)
    (hd : d = min (varOf s.res n a) (varOf s.res n b)) (hdn : d < n) (hk : k ≤ d)
    (hrec : ISpec Γ n c dop rec (d + 1))
    (ha1 : a1 < s.res.size) (hb1 : b1 < s.res.size)
    (hva1 : d + 1 ≤ varOf s.res n a1) (hvb1 : d + 1 ≤ varOf s.res n b1)
    (ha2 : a2 < s.res.size) (hb2 : b2 < s.res.size)
    (hva2 : d + 1 ≤ varOf s.res n a2) (hvb2 : d + 1 ≤ varOf s.res n b2)
    (hI1 : ∀ v, dop (ev s.res (upd v d true) a) (ev s.res (upd v d true) b) = dop (ev s.res v a1) (ev s.res v b1))
    (hI2 : ∀ v, dop (ev s.res (upd v d false) a) (ev s.res (upd v d false) b) = dop (ev s.res v a2) (ev s.res v b2)) :
    IOut Γ n c dop s a b k
      (innerFinish (nSolve Γ.inner rec a2 b2 (nSolve Γ.inner rec a1 b1 s).1).1 a b d
        (nSolve Γ.inner rec a2 b2 (nSolve Γ.inner rec a1 b1 s).1).2 (nSolve Γ.inner rec a1 b1 s).2) := by
  have O1 := nSolve_inner_out ok rec (d+1) hrec a1 b1 s hs ha1 hb1 hva1 hvb1
  generalize nSolve Γ.inner rec a1 b1 s = o1 at O1 ⊢
  have hsz1 := O1.pre.1
  have O2 := nSolve_inner_out ok rec (d+1) hrec a2 b2 o1.1 O1.inv (by omega) (by omega)
    (by rw [varOf_prefix O1.pre _ ha2]; exact hva2) (by rw [varOf_prefix O1.pre _ hb2]; exact hvb2)
  generalize nSolve Γ.inner rec a2 b2 o1.1 = o2 at O2 ⊢
  have hsz2 := O2.pre.1
  have hhi : ∀ v, ev o2.1.res v o1.2 = dop (ev s.res v a1) (ev s.res v b1) := by
    intro v; rw [ev_prefix O1.inv.rt.red O2.inv.rt.red O2.pre v _ O1.lt]; exact O1.ev v
  have hlo : ∀ v, ev o2.1.res v o2.2 = dop (ev s.res v a2) (ev s.res v b2) := by
    intro v
    rw [O2.ev v, ev_prefix hs.rt.red O1.inv.rt.red O1.pre v _ ha2,
      ev_prefix hs.rt.red O1.inv.rt.red O1.pre v _ hb2]
  have hlvhi : d + 1 ≤ varOf o2.1.res n o1.2 := by rw [varOf_prefix O2.pre _ O1.lt]; exact O1.lvl
  apply innerFinish_out hs O2.inv (O1.pre.trans O2.pre) (O2.outer.trans O1.outer) a b d o2.2 o1.2 k
    ha hb hd hk O2.lt (by have := O1.lt; omega) (fun _ => ⟨hdn, by have := O2.lvl; omega, by omega⟩)
    (by have := O2.lvl; omega)
  intro v
  cases hvd : v d
  · simp only [Bool.false_eq_true, if_false]
    rw [hlo v, ← hI2 v]
    have : upd v d false = v := by rw [← hvd, upd_same]
    rw [this]
  · simp only [if_true]
    rw [hhi v, ← hI1 v]
    have : upd v d true = v := by rw [← hvd, upd_same]
    rw [this]

theorem innerStep_out (ok : NOk Γ n c dop) (rec : Nat → Nat → NSt → NSt × Nat) (k : Nat)
    (hrec : ∀ k', k < k' → k' ≤ n → ISpec Γ n c dop rec k') : ISpec Γ n c dop (innerStep Γ.inner rec) k := by
  intro a b s hs ha hb hka hkb
  have hW := hs.rt.wfo
  unfold innerStep
  cases hfin : s.inner[(a, b)]? with
  | some p =>
    simp only
    obtain ⟨_, _, hp, hl, he⟩ := hs.inn a b p hfin
    have hlvl : k ≤ varOf s.res n p := by omega
    exact ⟨hs, Prefix.refl _, rfl, hp, hlvl, he⟩
  | none =>
    simp only
    rw [nodeAt_var hW a ha, nodeAt_var hW b hb]
    generalize hd : min (varOf s.res n a) (varOf s.res n b) = d
    by_cases hdn : d < n
    · have KA := fun bb v => ev_kids hs.rt a ha d (by omega) hdn bb v
      have KB := fun bb v => ev_kids hs.rt b hb d (by omega) hdn bb v
      have ka1 := fun v => KA true v; have ka2 := fun v => KA false v
      have kb1 := fun v => KB true v; have kb2 := fun v => KB false v
      simp only [sel_true, sel_false] at ka1 ka2 kb1 kb2
      have v0 : Nat → Bool := fun _ => false
      exact innerStep_core ok rec s a b d _ _ _ _ k hs ha hb hd.symm hdn (by omega)
        (hrec (d+1) (by omega) (by omega))
        (ka1 v0).2.1 (kb1 v0).2.1 (ka1 v0).2.2 (kb1 v0).2.2
        (ka2 v0).2.1 (kb2 v0).2.1 (ka2 v0).2.2 (kb2 v0).2.2
        (fun v => by rw [(ka1 v).1, (kb1 v).1]) (fun v => by rw [(ka2 v).1, (kb2 v).1])
    · have hva := varOf_le hs.rt.red a
      have hvb := varOf_le hs.rt.red b
      have hde : d = n := by omega
      subst hde
      have ha2 := hW.terminal_of_varOf a ha (by omega)
      have hb2 := hW.terminal_of_varOf b hb (by omega)
      rw [kids_terminal hW a ha ha2, kids_terminal hW b hb hb2]
      obtain ⟨x, hx, _⟩ := asBool_terminal a ha2
      obtain ⟨y, hy, _⟩ := asBool_terminal b hb2
      have ht : nSolve Γ.inner rec a b s = (s, ofBool (dop x y)) := by
        unfold nSolve; rw [hx, hy, ok.consI.total]
      simp only [ht]
      apply innerFinish_out hs hs (Prefix.refl _) rfl a b _ _ _ k ha hb hd.symm (by omega)
        (ofBool_lt hs.rt.red _) (ofBool_lt hs.rt.red _) (fun h => absurd rfl h)
        (by rw [varOf_ofBool]; omega)
      intro v
      rw [asBool_ev _ a x hx v, asBool_ev _ b y hy v, ev_ofBool]
      split <;> rfl

theorem innerRec_spec (ok : NOk Γ n c dop) :
    ∀ fuel k, n - k < fuel → ISpec Γ n c dop (innerRec Γ.inner fuel) k := by
  intro fuel
  induction fuel with
  | zero => intro k hk; omega
  | succ fuel ih =>
    intro k hk
    show ISpec Γ n c dop (innerStep Γ.inner (innerRec Γ.inner fuel)) k
    apply innerStep_out ok
    intro k' h1 h2
    exact ih k' (by omega)

/-- `inner_apply` on two pointers of the result array returns a pointer denoting `d (left) (right)` -/
theorem innerApply_out (ok : NOk Γ n c dop) (a b k : Nat) (s : NSt) (hs : NInv Γ n c dop s)
    (ha : a < s.res.size) (hb : b < s.res.size) (hka : k ≤ varOf s.res n a) (hkb : k ≤ varOf s.res n b) :
    IOut Γ n c dop s a b k (innerApply Γ.inner a b s) := by
  unfold innerApply
  rw [hs.rt.numVars]
  exact innerRec_spec ok (n + 2) k (by omega) a b s hs ha hb hka hkb

/-! ### the outer pass -/

variable (Γ n c dop) in
structure OOut (s : NSt) (l r k : Nat) (o : NSt × Nat) : Prop where
  inv : NInv Γ n c dop o.1
  pre : Prefix s.res o.1.res
  lt : o.2 < o.1.res.size
  lvl : k ≤ varOf o.1.res n o.2
  ev : ∀ v, ev o.1.res v o.2 = Γ.QT n c dop l r v

variable (Γ n c dop) in
def OSpec (rec : Nat → Nat → NSt → NSt × Nat) (k : Nat) : Prop :=
  ∀ l r s, NInv Γ n c dop s → l < Γ.L.size → r < Γ.R.size →
    k ≤ varOf Γ.L n l → k ≤ varOf Γ.R n r → OOut Γ n c dop s l r k (rec l r s)

theorem nSolve_outer_out (ok : NOk Γ n c dop) (rec : Nat → Nat → NSt → NSt × Nat) (k : Nat)
    (hrec : OSpec Γ n c dop rec k) (l r : Nat) (s : NSt) (hs : NInv Γ n c dop s)
    (hl : l < Γ.L.size) (hr : r < Γ.R.size) (hkl : k ≤ varOf Γ.L n l) (hkr : k ≤ varOf Γ.R n r) :
    OOut Γ n c dop s l r k (nSolve Γ.outer rec l r s) := by
  unfold nSolve
  cases hop : Γ.outer (asBool l) (asBool r) with
  | none => exact hrec l r s hs hl hr hkl hkr
  | some t =>
    simp only
    have hkn : k ≤ n := by have := ok.wfL.varOf_le l; omega
    refine ⟨hs, Prefix.refl _, ofBool_lt hs.rt.red t, by rw [varOf_ofBool]; exact hkn, ?_⟩
    intro v
    rw [ev_ofBool]
    have hT : Γ.T n c l r = fun _ => t := by
      funext w; exact (Γ.toCtx n).G_const c ok.ctx l r t hop w
    unfold NCtx.QT
    rw [hT, Qn_const Γ.trigger dop ok.idem n _ (fun _ _ _ => rfl)]

/-- `nestedFinish` from an intermediate state `s` (extending the entry state `s0`) -/
theorem nestedFinish_out (ok : NOk Γ n c dop) {s0 s : NSt} (hs : NInv Γ n c dop s)
    (hpre : Prefix s0.res s.res) (l r d lo hi k : Nat)
    (hd : d = min (varOf Γ.L n l) (varOf Γ.R n r)) (hk : k ≤ d)
    (hlo : lo < s.res.size) (hhi : hi < s.res.size)
    (hlv : lo ≠ hi → d < n ∧ d < varOf s.res n lo ∧ d < varOf s.res n hi)
    (hlv2 : d ≤ varOf s.res n lo)
    (hQ : ∀ v, Γ.QT n c dop l r v =
      if Γ.trigger d then dop (ev s.res v lo) (ev s.res v hi)
      else if v d then ev s.res v hi else ev s.res v lo) :
    OOut Γ n c dop s0 l r k (nestedFinish Γ s l r d lo hi) := by
  unfold nestedFinish
  by_cases he : lo = hi
  · simp only [he, if_true]
    subst he
    have hev : ∀ v, ev s.res v lo = Γ.QT n c dop l r v := by
      intro v; rw [hQ v]
      split
      · rw [ok.idem]
      · split <;> rfl
    have hlvl : k ≤ varOf s.res n lo := by omega
    have hok : OuterOK Γ n c dop s.res l r lo := ⟨hlo, by omega, hev⟩
    exact ⟨hs.insertOuter l r lo hok, hpre, hlo, hlvl, hev⟩
  · simp only [he, if_false]
    obtain ⟨hdn, hvl, hvh⟩ := hlv he
    by_cases htr : Γ.trigger d = true
    · simp only [htr, if_true]
      have IO := innerApply_out ok lo hi (d+1) s hs hlo hhi (by omega) (by omega)
      generalize innerApply Γ.inner lo hi s = ir at IO ⊢
      have hev : ∀ v, ev ir.1.res v ir.2 = Γ.QT n c dop l r v := by
        intro v; rw [IO.ev v, hQ v]; simp [htr]
      have hlvl : k ≤ varOf ir.1.res n ir.2 := by have := IO.lvl; omega
      have hok : OuterOK Γ n c dop ir.1.res l r ir.2 := ⟨IO.lt, by have := IO.lvl; omega, hev⟩
      exact ⟨IO.inv.insertOuter l r ir.2 hok, hpre.trans IO.pre, IO.lt, hlvl, hev⟩
    · simp only [htr, Bool.false_eq_true, if_false]
      have htr' : Γ.trigger d = false := by simpa using htr
      obtain ⟨m1, m2, _, _, _, m6, m7, m8⟩ := mkNode_out hs d lo hi hdn hlo hhi he hvl hvh
      have hfp := hs.mkNode d lo hi hdn hlo hhi he hvl hvh
      generalize nFindOrPush s ⟨d, lo, hi⟩ = fp at *
      have hev : ∀ v, ev fp.1.res v fp.2 = Γ.QT n c dop l r v := by
        intro v; rw [m8 v, hQ v]; simp [htr']
      have hlvl : k ≤ varOf fp.1.res n fp.2 := by omega
      have hok : OuterOK Γ n c dop fp.1.res l r fp.2 := ⟨m6, by omega, hev⟩
      exact ⟨hfp.insertOuter l r fp.2 hok, hpre.trans m2, m6, hlvl, hev⟩

theorem nestedStep_core (ok : NOk Γ n c dop) (rec : Nat → Nat → NSt → NSt × Nat) (s : NSt)
    (l r d l1 r1 l2 r2 k : Nat) (hs : NInv Γ n c dop s) (hd : d = min (varOf Γ.L n l) (varOf Γ.R n r))
    (hdn : d < n) (hk : k ≤ d) (hrec : OSpec Γ n c dop rec (d + 1))
    (hl1 : l1 < Γ.L.size) (hr1 : r1 < Γ.R.size)
    (hvl1 : d + 1 ≤ varOf Γ.L n l1) (hvr1 : d + 1 ≤ varOf Γ.R n r1)
    (hl2 : l2 < Γ.L.size) (hr2 : r2 < Γ.R.size)
    (hvl2 : d + 1 ≤ varOf Γ.L n l2) (hvr2 : d + 1 ≤ varOf Γ.R n r2)
    (hQ : ∀ v, Γ.QT n c dop l r v =
      if Γ.trigger d then dop (Γ.QT n c dop l2 r2 v) (Γ.QT n c dop l1 r1 v)
      else if v d then Γ.QT n c dop l1 r1 v else Γ.QT n c dop l2 r2 v) :
    OOut Γ n c dop s l r k
      (nestedFinish Γ (nSolve Γ.outer rec l2 r2 (nSolve Γ.outer rec l1 r1 s).1).1 l r d
        (nSolve Γ.outer rec l2 r2 (nSolve Γ.outer rec l1 r1 s).1).2 (nSolve Γ.outer rec l1 r1 s).2) := by
  have O1 := nSolve_outer_out ok rec (d+1) hrec l1 r1 s hs hl1 hr1 hvl1 hvr1
  generalize nSolve Γ.outer rec l1 r1 s = o1 at O1 ⊢
  have O2 := nSolve_outer_out ok rec (d+1) hrec l2 r2 o1.1 O1.inv hl2 hr2 hvl2 hvr2
  generalize nSolve Γ.outer rec l2 r2 o1.1 = o2 at O2 ⊢
  have hsz2 := O2.pre.1
  have hhi : ∀ v, ev o2.1.res v o1.2 = Γ.QT n c dop l1 r1 v := by
    intro v; rw [ev_prefix O1.inv.rt.red O2.inv.rt.red O2.pre v _ O1.lt]; exact O1.ev v
  have hlvhi : d + 1 ≤ varOf o2.1.res n o1.2 := by rw [varOf_prefix O2.pre _ O1.lt]; exact O1.lvl
  apply nestedFinish_out ok O2.inv (O1.pre.trans O2.pre) l r d o2.2 o1.2 k hd hk O2.lt
    (by have := O1.lt; omega) (fun _ => ⟨hdn, by have := O2.lvl; omega, by omega⟩)
    (by have := O2.lvl; omega)
  intro v
  rw [hQ v, hhi v, O2.ev v]

theorem nestedStep_out (ok : NOk Γ n c dop) (rec : Nat → Nat → NSt → NSt × Nat) (k : Nat)
    (hrec : ∀ k', k < k' → k' ≤ n → OSpec Γ n c dop rec k') : OSpec Γ n c dop (nestedStep Γ rec) k := by
  intro l r s hs hl hr hkl hkr
  unfold nestedStep
  cases hfin : s.outer[(l, r)]? with
  | some p =>
    simp only
    obtain ⟨hp, hlv, he⟩ := hs.out l r p hfin
    have hlvl : k ≤ varOf s.res n p := by omega
    exact ⟨hs, Prefix.refl _, hp, hlvl, he⟩
  | none =>
    simp only
    rw [nodeAt_var ok.wfL l hl, nodeAt_var ok.wfR r hr]
    generalize hd : min (varOf Γ.L n l) (varOf Γ.R n r) = d
    by_cases hdn : d < n
    · have hdl : d ≤ varOf Γ.L n l := by omega
      have hdr : d ≤ varOf Γ.R n r := by omega
      have KL := fun b => evW_kids ok.wfL l hl d hdl hdn none (fun _ => false) b
      have KR := fun b => evW_kids ok.wfR r hr d hdr hdn none (fun _ => false) b
      have kl1 := KL true; have kl2 := KL false; have kr1 := KR true; have kr2 := KR false
      simp only [sel_true, sel_false] at kl1 kl2 kr1 kr2
      exact nestedStep_core ok rec s l r d _ _ _ _ k hs hd.symm hdn (by omega)
        (hrec (d+1) (by omega) (by omega))
        kl1.2.1 kr1.2.1 kl1.2.2 kr1.2.2 kl2.2.1 kr2.2.1 kl2.2.2 kr2.2.2
        (QT_shannon ok l r hl hr d hdl hdr hdn)
    · have hvl := ok.wfL.varOf_le l
      have hvr := ok.wfR.varOf_le r
      have hde : d = n := by omega
      subst hde
      have hl2 := ok.wfL.terminal_of_varOf l hl (by omega)
      have hr2 := ok.wfR.terminal_of_varOf r hr (by omega)
      rw [kids_terminal ok.wfL l hl hl2, kids_terminal ok.wfR r hr hr2]
      obtain ⟨x, hx, hxe⟩ := asBool_terminal l hl2
      obtain ⟨y, hy, hye⟩ := asBool_terminal r hr2
      have ht : nSolve Γ.outer rec l r s = (s, ofBool (c x y)) := by
        unfold nSolve; rw [hx, hy, ok.consO.total]
      simp only [ht]
      apply nestedFinish_out ok hs (Prefix.refl _) l r _ _ _ k hd.symm (by omega)
        (ofBool_lt hs.rt.red _) (ofBool_lt hs.rt.red _) (fun h => absurd rfl h)
        (by rw [varOf_ofBool]; omega)
      intro v
      rw [QT_terminal ok l r x y (fun w => hxe Γ.L _ w) (fun w => hye Γ.R _ w) v, ev_ofBool]
      split
      · rw [ok.idem]
      · split <;> rfl

theorem nestedRec_spec (ok : NOk Γ n c dop) :
    ∀ fuel k, n - k < fuel → OSpec Γ n c dop (nestedRec Γ fuel) k := by
  intro fuel
  induction fuel with
  | zero => intro k hk; omega
  | succ fuel ih =>
    intro k hk
    show OSpec Γ n c dop (nestedStep Γ (nestedRec Γ fuel)) k
    apply nestedStep_out ok
    intro k' h1 h2
    exact ih k' (by omega)

theorem ninv_init (Γ : NCtx) (n : Nat) (c dop : Bool → Bool → Bool) : NInv Γ n c dop (nestedInit n) := by
  refine ⟨redT_mkTrue n, ?_, ?_, ?_⟩
  · intro nd i hv
    have h0 : (zeroN n == nd) = false := by
      simp only [beq_eq_false_iff_ne, ne_eq]; intro e; rw [← e] at hv; simp [zeroN] at hv
    have h1 : (oneN n == nd) = false := by
      simp only [beq_eq_false_iff_ne, ne_eq]; intro e; rw [← e] at hv; simp [oneN] at hv
    have hnone : (nestedInit n).nodes[nd]? = none := by
      simp only [nestedInit, HashMap.getElem?_insert, h0, h1, Bool.false_eq_true, if_false]
      exact HashMap.getElem?_emptyWithCapacity
    rw [hnone]
    constructor
    · intro h; cases h
    · intro ⟨hi, h⟩
      have : (nestedInit n).res[i]? = none := Array.getElem?_eq_none (by simp [nestedInit, mkTrue_size]; omega)
      rw [this] at h; cases h
  · intro a b p h
    have : (nestedInit n).inner[(a, b)]? = none := HashMap.getElem?_emptyWithCapacity
    rw [this] at h; cases h
  · intro l r p h
    have : (nestedInit n).outer[(l, r)]? = none := HashMap.getElem?_emptyWithCapacity
    rw [this] at h; cases h

end

/-- **L6**: the model of `nested_apply` returns exactly the canonical array of the projection (over the
    triggered variables, with the inner connective) of the outer connective of the operands -/
theorem nestedApply_eq_canon (L R : Arr) (n : Nat) (trig : Nat → Bool) (outer inner : Op2)
    (c dop : Bool → Bool → Bool) (hL : WFo L n) (hR : WFo R n)
    (hc : Consistent outer c) (hd : Consistent inner dop) (hid : ∀ a, dop a a = a) :
    nestedApply L R trig outer inner =
      canon n (Qn trig dop n (fun v => c (evW L n v (root L)) (evW R n v (root R)))) := by
  have ok : NOk ⟨L, R, trig, outer, inner⟩ n c dop := ⟨hL, hR, hc, hd, hid⟩
  have O := nestedRec_spec ok (n + 2) 0 (by omega) (root L) (root R) (nestedInit n)
    (ninv_init _ n c dop) (root_lt hL) (root_lt hR) (Nat.zero_le _) (Nat.zero_le _)
  unfold nestedApply nestedRun
  simp only [numVars_of_wf hL]
  generalize nestedRec ⟨L, R, trig, outer, inner⟩ (n + 2) (root L) (root R) (nestedInit n) = out at O
  rw [realign_sim O.inv.rt.red O.inv.rt.numVars out.2 O.lt]
  apply canon_congr
  intro v
  exact O.ev v

end B
