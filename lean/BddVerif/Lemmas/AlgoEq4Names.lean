import BddVerif.Gen.Algo4
import BddVerif.Lemmas.AlgoEq3NamesProtocol
/-!
# `FromIterator<String>` / `From<Vec<String>>` / `From<Vec<&str>>` for `BddVariableSet`, `variable_name_assignment`

* `BddVariableSet_from_iter_eq_protocol` — the translated `from_iter` IS the builder protocol of
  `AlgoEq3NamesProtocol.lean` with one `make_variable` call per name, on every name list; hence
* `BddVariableSet_from_iter_eq_new` — `= BddVariableSet::new(names)` (same set up to the layout of the hash map, same
  panics) for up to 65533 names, `BddVariableSet_from_iter_ok` / `_panic_iff` (`Acceptable 65534`: names distinct and
  free of the forbidden characters), and `from_iter_boundary`: with exactly 65534 names `from_iter` succeeds where
  `new` panics (the two Rust functions test different limits, already documented for the builder);
* `From<Vec<String>>`, `From<Vec<&str>>` are `from_iter`;
* `variable_name_assignment` maps variable `i` to `var_names[i]` for `i < min(num_vars, len)`, nothing else.
-/
namespace B.AlgoEq4
open B B.Gen B.Gen.Algo B.Gen.Algo2 B.Gen.Algo3 B.Gen.Algo4 B.AlgoEqUtil B.AlgoEq2Ren B.AlgoEq2VS B.AlgoEq3Names Std
attribute [local instance 10000] Rust.monadOutcomeInline

/-- the calls `from_iter` makes: one `make_variable` per name -/
def oneCalls (names : List String) : List Call := names.map Call.one

theorem allNames_oneCalls (names : List String) : allNames (oneCalls names) = names := by
  induction names with
  | nil => rfl
  | cons a l ih =>
    have : allNames (oneCalls (a :: l)) = a :: allNames (oneCalls l) := rfl
    rw [this, ih]

theorem from_iter_loop (names : List String) : ∀ b : GB,
    forIn names b (fun var_name (s : GB) => do
        let r ← BddVariableSetBuilder_make_variable s var_name
        Outcome.ok (ForInStep.yield r.2)) = (runCalls (oneCalls names) b).map (·.1) := by
  induction names with
  | nil => intro b; rfl
  | cons a l ih =>
    intro b
    rw [List.forIn_cons]
    have e : runCalls (oneCalls (a :: l)) b =
        match BddVariableSetBuilder_make_variable b a with
        | .ok r =>
          (match runCalls (oneCalls l) r.2 with
          | .ok r2 => .ok (r2.1, [r.1] ++ r2.2) | .err m => .err m | .panic m => .panic m)
        | .err m => .err m
        | .panic m => .panic m := by
      show runCalls (Call.one a :: oneCalls l) b = _
      rw [runCalls, callStep]
      cases BddVariableSetBuilder_make_variable b a <;> rfl
    rw [e]
    cases hm : BddVariableSetBuilder_make_variable b a with
    | err m => rfl
    | panic m => rfl
    | ok r =>
      simp only [bind_ok]
      rw [ih r.2]
      cases runCalls (oneCalls l) r.2 <;> rfl

/-- **`BddVariableSet::from_iter`, translated code = the builder protocol** (`new()`, one `make_variable` per name,
    `build()`), on every list of names -/
theorem BddVariableSet_from_iter_eq_protocol (names : Array String) :
    BddVariableSet_from_iter names = (protocol (oneCalls names.toList)).map (·.1) := by
  unfold BddVariableSet_from_iter
  obtain ⟨l, rfl⟩ : ∃ l, names = l.toArray := ⟨names.toList, by simp⟩
  simp only [List.forIn_toArray, pure_eq]
  rw [from_iter_loop l]
  unfold protocol
  cases runCalls (oneCalls l) BddVariableSetBuilder_new with
  | err m => rfl
  | panic m => rfl
  | ok r =>
    simp only [Outcome.map, bind_ok]
    cases BddVariableSetBuilder_build r.1 <;> rfl

/-- **`from_iter(names)` = `BddVariableSet::new(names)`** (both translated) up to 65533 names: the same set (equal
    counts and name vectors, equivalent index maps), the same panics -/
theorem BddVariableSet_from_iter_eq_new (names : Array String) (hlen : names.size ≤ 65533) :
    RelBy EqVS (BddVariableSet_from_iter names) (BddVariableSet_new names) := by
  have h := protocol_eq_new (oneCalls names.toList) (by rw [allNames_oneCalls]; simpa using hlen)
  rw [allNames_oneCalls, Array.toArray_toList] at h
  rw [BddVariableSet_from_iter_eq_protocol]
  revert h
  generalize protocol (oneCalls names.toList) = P
  generalize BddVariableSet_new names = N
  intro h
  cases h with
  | ok a b hab => exact .ok _ _ hab
  | err m m' => exact .err _ _
  | panic m m' => exact .panic _ _

/-- `from_iter` succeeds exactly on at most 65534 distinct names free of the forbidden characters, and then builds the
    set of these names (`SetOf`, faithful index) -/
theorem BddVariableSet_from_iter_ok (names : Array String) (h : VS.Acceptable 65534 names.toList) :
    ∃ T, BddVariableSet_from_iter names = .ok T ∧ SetOf T names.toList ∧ VS.Faithful (toVS T) names.toList := by
  obtain ⟨T, hT, hs, hf⟩ := protocol_ok (oneCalls names.toList) (by rw [allNames_oneCalls]; exact h)
  rw [allNames_oneCalls] at hs hf
  exact ⟨T, by rw [BddVariableSet_from_iter_eq_protocol, hT]; rfl, hs, hf⟩

theorem BddVariableSet_from_iter_panic_iff (names : Array String) :
    (∃ m, BddVariableSet_from_iter names = .panic m) ↔ ¬ VS.Acceptable 65534 names.toList := by
  have h := protocol_panic_iff (oneCalls names.toList)
  rw [allNames_oneCalls] at h
  rw [← h, BddVariableSet_from_iter_eq_protocol]
  constructor
  · rintro ⟨m, hm⟩
    cases hp : protocol (oneCalls names.toList) with
    | ok r => rw [hp] at hm; cases hm
    | err m' => rw [hp] at hm; cases hm
    | panic m' => exact ⟨m', rfl⟩
  · rintro ⟨m, hm⟩
    exact ⟨m, by rw [hm]; rfl⟩

/-- with exactly 65534 acceptable names `from_iter` builds the set and `new` panics -/
theorem from_iter_boundary (names : Array String) (h : VS.Acceptable 65534 names.toList) (hl : names.size = 65534) :
    (∃ T, BddVariableSet_from_iter names = .ok T) ∧
    BddVariableSet_new names = .panic "Too many BDD variables. There can be at most {} variables." := by
  obtain ⟨T, hT, _⟩ := BddVariableSet_from_iter_ok names h
  have hb := (protocol_boundary (oneCalls names.toList) (by rw [allNames_oneCalls]; exact h)
    (by rw [allNames_oneCalls]; simpa using hl)).2
  rw [allNames_oneCalls, Array.toArray_toList] at hb
  exact ⟨⟨T, hT⟩, hb⟩

/-- `impl From<Vec<String>> for BddVariableSet` -/
theorem BddVariableSet_from_eq (names : Array String) : BddVariableSet_from names = BddVariableSet_from_iter names := rfl

/-- `impl From<Vec<&str>> for BddVariableSet` (`it.to_string()` is the identity on the translated strings) -/
theorem bdd_variable_set__BddVariableSet_from_eq (names : Array String) :
    bdd_variable_set__BddVariableSet_from names = BddVariableSet_from_iter names := by
  unfold bdd_variable_set__BddVariableSet_from
  rw [Array.map_id']

/-! ### `variable_name_assignment` -/

theorem foldl_zip_range' : ∀ (l : List String) (a : Nat) (m : HashMap Nat String) (k : Nat),
    (((List.range' a l.length).zip l).foldl (fun m kv => m.insert kv.1 kv.2) m)[k]? =
      if a ≤ k ∧ k < a + l.length then l[k - a]? else m[k]? := by
  intro l
  induction l with
  | nil => intro a m k; simp; omega
  | cons x l ih =>
    intro a m k
    simp only [List.length_cons, List.range'_succ, List.zip_cons_cons, List.foldl_cons]
    rw [ih (a + 1) (m.insert a x) k, HashMap.getElem?_insert]
    by_cases h1 : a + 1 ≤ k ∧ k < a + 1 + l.length
    · have h2 : a ≤ k ∧ k < a + (l.length + 1) := by omega
      rw [if_pos h1, if_pos h2]
      obtain ⟨j, hj⟩ : ∃ j, k - a = j + 1 := ⟨k - a - 1, by omega⟩
      rw [hj, List.getElem?_cons_succ]
      congr 1; omega
    · rw [if_neg h1]
      by_cases h3 : a = k
      · subst h3
        simp
      · have h4 : ¬ (a ≤ k ∧ k < a + (l.length + 1)) := by omega
        rw [if_neg h4]
        simp [h3]

/-- **`BddVariableSet::variable_name_assignment`**: variable `i` is mapped to `var_names[i]` for `i < num_vars`
    (as far as names exist), and nothing else is in the map — on every `BddVariableSet` value -/
theorem variable_name_assignment_getElem? (vs : Nat × Array String × HashMap String Nat) (i : Nat) :
    (BddVariableSet_variable_name_assignment vs)[i]? = if i < vs.1 then vs.2.1[i]? else none := by
  obtain ⟨n, names, idx⟩ := vs
  unfold BddVariableSet_variable_name_assignment Rust.hashMapFromArr BddVariableSet_variables
    BddVariableSet_variable_names
  simp only [Array.map_id']
  rw [← Array.foldl_toList, Array.toList_zip, Array.toList_range]
  rw [List.zip_eq_zip_take_min]
  generalize hk : min (List.range n).length names.toList.length = k
  have hk1 : k ≤ n := by rw [← hk]; simp; omega
  have hk2 : k ≤ names.size := by rw [← hk]; simp; omega
  have e1 : (List.range n).take k = List.range' 0 (names.toList.take k).length := by
    rw [List.length_take, Array.length_toList, Nat.min_eq_left hk2, List.take_range, Nat.min_eq_left hk1,
      List.range_eq_range']
  rw [e1, foldl_zip_range']
  simp only [Nat.zero_le, true_and, Nat.zero_add, Nat.sub_zero, List.length_take, Array.length_toList,
    Nat.min_eq_left hk2]
  have hke : k = min n names.size := by rw [← hk]; simp
  by_cases h1 : i < k
  · rw [if_pos h1, if_pos (by omega), List.getElem?_take_of_lt h1, Array.getElem?_toList]
  · rw [if_neg h1]
    rw [HashMap.getElem?_emptyWithCapacity]
    by_cases h2 : i < n
    · rw [if_pos h2, Array.getElem?_eq_none (by omega)]
    · rw [if_neg h2]

/-! ### non-vacuity -/

example : ∃ T, BddVariableSet_from_iter #["a", "b", "x_1"] = .ok T ∧ T.1 = 3 ∧ T.2.1 = #["a", "b", "x_1"] := by
  obtain ⟨T, hT, hs, _⟩ := BddVariableSet_from_iter_ok #["a", "b", "x_1"] ⟨by decide, by decide, by decide⟩
  exact ⟨T, hT, hs.count, hs.arr⟩

example : ∃ m, BddVariableSet_from #["a", "a"] = .panic m :=
  (BddVariableSet_from_iter_panic_iff #["a", "a"]).2 (fun h => by have := h.2.2; revert this; decide)

example : (BddVariableSet_variable_name_assignment (3, #["a", "b", "x_1"], {}))[2]? = some "x_1" ∧
    (BddVariableSet_variable_name_assignment (3, #["a", "b", "x_1"], {}))[3]? = none := by
  rw [variable_name_assignment_getElem?, variable_name_assignment_getElem?]; decide

end B.AlgoEq4
