import BddVerif.Lemmas.AlgoEq2NFOptDesugar
/-!
# `to_optimized_dnf`: the translated building blocks on canonical arrays, and the three loops

`Can n A` — `A` is the canonical array of a function of the first `n` variables (`∃ f, Sem n A f`); every diagram that
`_to_optimized_dnf::_rec` touches is of this kind. `Bnd n S` — a bound `S` on the size of every canonical array over `n`
variables with `S·S + 2 ≤ 2^32` (closed form `S = 2^n + 1`, `bnd_closed`, for `n ≤ 15`); `M = 3·S·S + 1` units of fuel are
enough for each of `var_for_all`, `var_exists`, `and_not`, `or`, `var_restrict`, `exact_cardinality` on such arrays.
-/
namespace B.AlgoEq2NF
open B B.NF B.Gen B.Gen.Algo B.Gen.Algo2 B.AlgoEqUtil

attribute [local instance 10000] Rust.monadOutcomeInline

def Can (n : Nat) (A : Arr) : Prop := ∃ f, Sem n A f

structure Bnd (n S : Nat) : Prop where
  hS : ∀ f, (canon n f).size ≤ S
  h32 : S * S + 2 ≤ 2 ^ 32

theorem bnd_closed {n : Nat} (hn : n ≤ 15) : Bnd n (2 ^ n + 1) := ⟨canon_size_le n, closed_bounds hn⟩

theorem Can.wfo {n A} (h : Can n A) : WFo A n := by obtain ⟨f, hf⟩ := h; exact hf.wfo

theorem Can.size_le {n S A} (h : Can n A) (hB : Bnd n S) : A.size ≤ S := by
  obtain ⟨f, hf⟩ := h; rw [hf.eq]; exact hB.hS f

theorem Can.size_pos {n A} (h : Can n A) : 1 ≤ A.size := h.wfo.size_pos

theorem Can.pair {n S A B} (hA : Can n A) (hB' : Can n B) (hB : Bnd n S) : PairOK n S A B :=
  ⟨hA.wfo, hB'.wfo, hA.size_le hB, hB'.size_le hB⟩

/-- the fuel facts used below, from `M = 3·S·S + 1 ≤ F` -/
theorem Can.fuel {n S A} (h : Can n A) (hB : Bnd n S) {F : Nat} (hF : 3 * (S * S) + 1 ≤ F) :
    A.size ≤ 4294967296 ∧ 3 * A.size + 1 ≤ F ∧ 3 * A.size ≤ F + 8 := by
  have h1 := h.size_pos
  have h2 := h.size_le hB
  have h3 : A.size * 1 ≤ A.size * A.size := Nat.mul_le_mul_left _ h1
  have h4 : A.size * A.size ≤ S * S := Nat.mul_le_mul h2 h2
  have h5 := hB.h32
  omega

theorem can_varForAll {n A} (h : Can n A) {x : Nat} (hx : x < n) : Can n (NF.varForAll A x) := by
  obtain ⟨f, hf⟩ := h; exact ⟨_, sem_varForAll hf hx⟩
theorem can_varExists {n A} (h : Can n A) {x : Nat} (hx : x < n) : Can n (NF.varExists A x) := by
  obtain ⟨f, hf⟩ := h; exact ⟨_, sem_varExists hf hx⟩
theorem can_varRestrict {n A} (h : Can n A) (x : Nat) (b : Bool) : Can n (varRestrict A x b) := by
  obtain ⟨f, hf⟩ := h; exact ⟨_, sem_varRestrict hf x b⟩
theorem can_or {n A B} (hA : Can n A) (hB : Can n B) : Can n (NF.bddOr A B) := by
  obtain ⟨f, hf⟩ := hA; obtain ⟨g, hg⟩ := hB; exact ⟨_, hf.or hg⟩
theorem can_andNot {n A B} (hA : Can n A) (hB : Can n B) : Can n (NF.bddAndNot A B) := by
  obtain ⟨f, hf⟩ := hA; obtain ⟨g, hg⟩ := hB; exact ⟨_, hf.andNot hg⟩

theorem can_support_lt {n A} (h : Can n A) : ∀ y ∈ supportSorted A, y < n := by
  intro y hy
  obtain ⟨f, hf⟩ := h
  obtain ⟨p, nd, hp, hnd, hv⟩ := mem_supportSorted hy
  rw [← hv]; exact (hf.node_dep p nd hp hnd).2

/-! ### the translated operations -/

section ops
variable {n S : Nat} (hB : Bnd n S) {F : Nat} (hF : 3 * (S * S) + 1 ≤ F)
include hB hF

theorem var_for_all_eq {A : Arr} (hA : Can n A) {x : Nat} (hx : x < n) :
    Bdd_var_for_all F A x = .ok (NF.varForAll A x) := by
  obtain ⟨h1, h2⟩ := pair_bounds (hA.pair hA hB) hB.h32 (f := F) (by omega)
  unfold Bdd_var_for_all Gen.Algo.Bdd_fused_binary_flip_op
  simp only
  rw [apply_with_flip_eq_model A A n Gen.and_ _ none (some x) none hA.wfo hA.wfo and_consistent (by simp)
    (by intro y hy; cases hy; exact hx) (by simp) h1 F h2]
  rfl

theorem var_exists_eq {A : Arr} (hA : Can n A) {x : Nat} (hx : x < n) :
    Bdd_var_exists F A x = .ok (NF.varExists A x) := by
  obtain ⟨h1, h2⟩ := pair_bounds (hA.pair hA hB) hB.h32 (f := F) (by omega)
  unfold Bdd_var_exists Gen.Algo.Bdd_fused_binary_flip_op
  simp only
  rw [apply_with_flip_eq_model A A n Gen.or_ _ none (some x) none hA.wfo hA.wfo or_consistent (by simp)
    (by intro y hy; cases hy; exact hx) (by simp) h1 F h2]
  rfl

theorem and_not_eq {A B : Arr} (hA : Can n A) (hB' : Can n B) : Bdd_and_not F A B = .ok (NF.bddAndNot A B) := by
  obtain ⟨h1, h2⟩ := pair_bounds (hA.pair hB' hB) hB.h32 (f := F) (by omega)
  unfold Bdd_and_not Gen.Algo.apply
  rw [apply_with_flip_eq_model A B n Gen.and_not_ _ none none none hA.wfo hB'.wfo and_not_consistent (by simp)
    (by simp) (by simp) h1 F h2]
  rfl

theorem or_eq {A B : Arr} (hA : Can n A) (hB' : Can n B) : Bdd_or F A B = .ok (NF.bddOr A B) :=
  Bdd_or_eq_model hB.h32 F A B (hA.pair hB' hB) (by omega)

theorem var_restrict_eq {A : Arr} (hA : Can n A) (x : Nat) (b : Bool) :
    Bdd_var_restrict F A x b = .ok (varRestrict A x b) :=
  AlgoEqR.Bdd_var_restrict_eq_model hA.wfo (hA.fuel hB hF).1 x b F (hA.fuel hB hF).2.2

theorem exact_cardinality_eq {A : Arr} (hA : Can n A) : Bdd_exact_cardinality F A = .ok (exactCard A) := by
  rw [Bdd_exact_cardinality_eq_model hA.wfo (hA.fuel hB hF).1 F (hA.fuel hB hF).2.1]
  unfold exactCard
  rw [Count.exactCardO_wfo hA.wfo]

/-! ### the three loops -/

/-- lines 240-248 -/
theorem core_loop {bdd : Arr} (hb : Can n bdd) : ∀ (l : List Nat), (∀ x ∈ l, x < n) → ∀ (init : Nat × Nat),
    forIn l ((none, init) : BestSt) (coreBody F bdd) =
      .ok (none, l.foldl (fun best var =>
        let c := exactCard (NF.varForAll bdd var)
        if c > best.2 then (var, c) else best) init) := by
  intro l
  induction l with
  | nil => intro _ init; rfl
  | cons x t ih =>
    intro hl init
    have hx : x < n := hl x (List.mem_cons_self ..)
    rw [List.forIn_cons]
    unfold coreBody
    rw [var_for_all_eq hB hF hb hx]
    simp only [Outcome.bind]
    rw [exact_cardinality_eq hB hF (can_varForAll hb hx)]
    simp only [List.foldl_cons]
    by_cases hc : exactCard (NF.varForAll bdd x) > init.2
    · simp only [hc, decide_true, if_true]
      exact ih (fun y hy => hl y (List.mem_cons_of_mem _ hy)) _
    · simp only [hc, decide_false, Bool.false_eq_true, if_false]
      exact ih (fun y hy => hl y (List.mem_cons_of_mem _ hy)) _

/-- lines 265-270 -/
theorem prune_loop {bdd core : Arr} (hc : Can n core) : ∀ (l : List Nat), (∀ x ∈ l, x < n) → ∀ (rem : Arr), Can n rem →
    forIn l rem (pruneBody F bdd core) = .ok (pruneRemaining bdd core rem l) ∧
      Can n (pruneRemaining bdd core rem l) := by
  intro l
  induction l with
  | nil => intro _ rem hr; exact ⟨rfl, hr⟩
  | cons x t ih =>
    intro hl rem hr
    have hx : x < n := hl x (List.mem_cons_self ..)
    have step : pruneBody F bdd core x rem =
        .ok (.yield (if (NF.bddOr (NF.varExists rem x) core == bdd) = true then NF.varExists rem x else rem)) := by
      unfold pruneBody
      rw [var_exists_eq hB hF hr hx]
      simp only [Outcome.bind]
      rw [or_eq hB hF (can_varExists hr hx) hc]
      simp only []
      split <;> rfl
    have hp : pruneRemaining bdd core rem (x :: t) = pruneRemaining bdd core
        (if (NF.bddOr (NF.varExists rem x) core == bdd) = true then NF.varExists rem x else rem) t := rfl
    rw [List.forIn_cons, step, hp]
    refine ih (fun y hy => hl y (List.mem_cons_of_mem _ hy)) _ ?_
    split
    · exact can_varExists hr hx
    · exact hr

/-- lines 279-287 -/
theorem branch_loop {bdd : Arr} (hb : Can n bdd) : ∀ (l : List Nat) (init : Nat × Nat),
    forIn l ((none, init) : BestSt) (branchBody F bdd) =
      .ok (none, l.foldl (fun best var =>
        let size := (varRestrict bdd var true).size + (varRestrict bdd var false).size
        if size < best.2 then (var, size) else best) init) := by
  intro l
  induction l with
  | nil => intro init; rfl
  | cons x t ih =>
    intro init
    rw [List.forIn_cons]
    unfold branchBody
    rw [var_restrict_eq hB hF hb x true]
    simp only [Outcome.bind]
    rw [var_restrict_eq hB hF hb x false]
    simp only [List.foldl_cons, Bdd_size]
    by_cases hc : (varRestrict bdd x true).size + (varRestrict bdd x false).size < init.2
    · simp only [hc, decide_true, if_true]
      exact ih _
    · simp only [hc, decide_false, Bool.false_eq_true, if_false]
      exact ih _

end ops

/-! ### `support_set` followed by `sort` -/

theorem insSorted_eq (x : Nat) : ∀ l : List Nat, Count.insSorted x l = NF.insSorted x l := by
  intro l
  induction l with
  | nil => rfl
  | cons y t ih => simp only [Count.insSorted, NF.insSorted, ih]

theorem supportSet_eq_supportSorted (A : Arr) : supportSet A = supportSorted A := by
  unfold supportSet supportSorted Count.decisionVars
  rw [List.foldl_map]
  congr 1
  funext acc nd
  exact insSorted_eq _ _

theorem support_eq (A : Arr) :
    ∃ sset : Std.HashSet Nat, Bdd_support_set A = .ok sset ∧ Rust.sortNat sset.toArray = (supportSorted A).toArray := by
  obtain ⟨s, hs, _, hsort⟩ := Bdd_support_set_eq_model A
  refine ⟨s, hs, ?_⟩
  unfold Rust.sortNat
  rw [Std.HashSet.toList_toArray, hsort, supportSet_eq_supportSorted]

end B.AlgoEq2NF
