import BddVerif.Lemmas.AlgoEqApplyLoop
/-!
Equivalence "translated Rust = hand-written model" for `apply_with_flip`, part 1: DESUGARING of the generated
definition `B.Gen.Algo.apply_with_flip` (referred to by name; regenerated from the Rust text on every run).
-/
namespace B.AlgoEqA
open B B.Gen Std
attribute [local instance 10000] Rust.monadOutcomeInline

/-- the loop's `let mut` variables `(result, is_not_empty, existing, stack, finished)` -/
abbrev LS := Arr × Bool × HashMap Node Nat × Array (Nat × Nat) × HashMap (Nat × Nat) Nat

def oob {α : Type} : Outcome α := .panic "index out of bounds"

/-- `BddPointer::from_index(i)`: `i as u32` -/
def u32 (i : Nat) : Nat := i % 4294967296

def pushIf (o : Option Nat) (c : Nat × Nat) (stk : Array (Nat × Nat)) : Array (Nat × Nat) :=
  if o.isNone then stk.push c else stk

/-- lines 329-352 on the loop variables, the new pointer being `result.root_pointer()` (an `as u32` cast) -/
def fin32 (res : Arr) (ne : Bool) (ex : HashMap Node Nat) (fin : HashMap (Nat × Nat) Nat)
    (t : Nat × Nat) (d lo hi : Nat) (flipOut : Bool) : Arr × Bool × HashMap Node Nat × HashMap (Nat × Nat) Nat :=
  let ne' : Bool := if lo = 1 ∨ hi = 1 then true else ne
  if lo = hi then (res, ne', ex, fin.insert t lo)
  else
    let node : Node := if flipOut then ⟨d, hi, lo⟩ else ⟨d, lo, hi⟩
    match ex[node]? with
    | some i => (res, ne', ex, fin.insert t i)
    | none => (res.push node, ne', ex.insert node (u32 res.size), fin.insert t (u32 res.size))

/-- body of `while let Some(on_stack) = stack.last()` (lines 281-373) written out by hand -/
def cstep (Γ : Ctx) (σ : LS) : Outcome (ForInStep LS) :=
  match σ with
  | (res, ne, ex, stk, fin) =>
    match stk.back? with
    | none => .ok (.done (res, ne, ex, stk, fin))
    | some t =>
      if fin.contains t then .ok (.yield (res, ne, ex, stk.pop, fin))
      else
        match Γ.L[t.1]?, Γ.R[t.2]? with
        | some nl, some nr =>
          let d := min nl.var nr.var
          let kl := kids Γ.L t.1 d Γ.fl
          let kr := kids Γ.R t.2 d Γ.fr
          let lo := (kl.1, kr.1)
          let hi := (kl.2, kr.2)
          match look Γ.op fin lo, look Γ.op fin hi with
          | some a, some b =>
            let o := fin32 res ne ex fin t d a b (decide (Γ.fo = some d))
            .ok (.yield (o.1, o.2.1, o.2.2.1, stk.pop, o.2.2.2))
          | a, b =>
            if Γ.fo = some d then .ok (.yield (res, ne, ex, pushIf a lo (pushIf b hi stk), fin))
            else .ok (.yield (res, ne, ex, pushIf b hi (pushIf a lo stk), fin))
        | _, _ => oob

/-- lines 245-280 and 376-380 around a loop with body `body` -/
def skel (body : Nat → LS → Outcome (ForInStep LS)) (fuel : Nat) (L R : Arr) (fl fr fo : Option Nat) :
    Outcome Arr := do
  let num_vars := (← Algo.Bdd_num_vars L)
  if (← Algo.Bdd_num_vars R) != num_vars then
    Outcome.panic "Var count mismatch: BDDs are not compatible. {} != {}"
  Algo.check_flip_bounds num_vars fl
  Algo.check_flip_bounds num_vars fr
  Algo.check_flip_bounds num_vars fo
  let result : Arr := Algo.Bdd_mk_true num_vars
  let is_not_empty := false
  let existing : HashMap Node Nat := Rust.hashMapWithCapacity (max (Algo.Bdd_size L) (Algo.Bdd_size R))
  let existing := existing.insert (Algo.BddNode_mk_zero num_vars) Algo.BddPointer_zero
  let existing := existing.insert (Algo.BddNode_mk_one num_vars) Algo.BddPointer_one
  let stack : Array (Nat × Nat) := Rust.vecWithCapacity (max (Algo.Bdd_size L) (Algo.Bdd_size R))
  let stack := stack.push ((← Algo.Bdd_root_pointer L), (← Algo.Bdd_root_pointer R))
  let finished : HashMap (Nat × Nat) Nat := Rust.hashMapWithCapacity (max (Algo.Bdd_size L) (Algo.Bdd_size R))
  let __s ← forIn [:fuel] (result, is_not_empty, existing, stack, finished) body
  let result : Arr := __s.fst
  let is_not_empty : Bool := __s.snd.fst
  let stack : Array (Nat × Nat) := __s.snd.snd.snd.fst
  match stack.back? with
  | some _ => Outcome.panic "fuel"
  | _ => pure ()
  if is_not_empty then
    pure result
  else
    pure (Algo.Bdd_mk_false num_vars)

theorem idx_eq {α : Type} (a : Array α) (i : Nat) :
    Rust.idx a i = match a[i]? with | some x => .ok x | none => oob := by
  unfold Rust.idx
  by_cases h : i < a.size
  · simp [h]
  · simp [h, oob]

theorem asBool_eq (p : Nat) : Algo.BddPointer_as_bool p = asBool p := by
  unfold Algo.BddPointer_as_bool asBool
  split <;> simp_all

theorem ofBool_eq (b : Bool) : Algo.BddPointer_from_bool b = ofBool b := by
  cases b <;> rfl

theorem look_eq (op : Op2) (fin : HashMap (Nat × Nat) Nat) (a b : Nat) :
    ((op (Algo.BddPointer_as_bool a) (Algo.BddPointer_as_bool b)).map Algo.BddPointer_from_bool).orElse
      (fun _ => fin[(a, b)]?) = look op fin (a, b) := by
  unfold look
  simp only [asBool_eq]
  cases op (asBool a) (asBool b) with
  | none => rfl
  | some c => simp [ofBool_eq]

theorem kids_eq (A : Arr) (p d : Nat) (fl : Option Nat) (nd : Node) (h : A[p]? = some nd) :
    (if (nd.var != d) = true then (p, p)
      else if (some nd.var == fl) = true then (nd.high, nd.low) else (nd.low, nd.high)) = kids A p d fl := by
  unfold kids nodeAt
  simp only [h, Option.getD_some]
  by_cases h1 : nd.var = d
  · by_cases h2 : fl = some nd.var
    · simp [h1, h2]
    · have : ¬ (some d = fl) := fun e => h2 (h1 ▸ e.symm)
      have h2' : ¬ (fl = some d) := fun e => h2 (h1 ▸ e)
      simp [h1, h2', this]
  · simp [h1]

theorem var_of_eq (A : Arr) (p : Nat) :
    Algo.Bdd_var_of A p = match A[p]? with | some nd => .ok nd.var | none => oob := by
  unfold Algo.Bdd_var_of Algo.BddPointer_to_index
  rw [idx_eq]; cases A[p]? <;> rfl

theorem kids_jp {β : Type} (A : Arr) (p : Nat) (nd : Node) (h : A[p]? = some nd) (d : Nat) (fl : Option Nat)
    (jp : Nat × Nat → Outcome β) :
    (if (nd.var != d) = true then (do let v ← pure (p, p); jp v)
      else if (some nd.var == fl) = true then
        (do let a ← Algo.Bdd_high_link_of A p; let b ← Algo.Bdd_low_link_of A p; let v ← pure (a, b); jp v)
      else (do let a ← Algo.Bdd_low_link_of A p; let b ← Algo.Bdd_high_link_of A p; let v ← pure (a, b); jp v))
    = jp (kids A p d fl) := by
  rw [← kids_eq A p d fl nd h]
  unfold Algo.Bdd_high_link_of Algo.Bdd_low_link_of Algo.BddPointer_to_index
  simp only [idx_eq, h]
  split
  · rfl
  · split <;> rfl

theorem root_push (res : Arr) (nd : Node) :
    Algo.Bdd_root_pointer (Algo.Bdd_push_node res nd) = .ok (u32 res.size) := by
  unfold Algo.Bdd_root_pointer Algo.Bdd_push_node Algo.BddPointer_from_index Rust.sub Rust.asU32 u32
  simp [bind_ok, pure_eq]

theorem root_eq (A : Arr) :
    Algo.Bdd_root_pointer A = if 1 ≤ A.size then .ok (u32 (A.size - 1)) else .panic "attempt to subtract with overflow" := by
  unfold Algo.Bdd_root_pointer Algo.BddPointer_from_index Rust.sub Rust.asU32 u32
  split <;> rfl

theorem mk_node_flip (fo : Option Nat) (d a b : Nat) :
    (if (fo == some d) = true then Algo.BddNode_mk_node d b a else Algo.BddNode_mk_node d a b) =
      (if decide (fo = some d) = true then (⟨d, b, a⟩ : Node) else ⟨d, a, b⟩) := by
  by_cases h : fo = some d <;> simp [h, Algo.BddNode_mk_node]

/-- the generated definition is `skel` around a loop whose body is `cstep` (the body of the generated loop is
    obtained by unification from the unfolded definition, never restated) -/
theorem desugar_body (fuel : Nat) (L R : Arr) (fl fr fo : Option Nat) (op : Op2) :
    ∃ body, Algo.apply_with_flip fuel L R fl fr fo op = skel body fuel L R fl fr fo ∧
      ∀ i σ, body i σ = cstep ⟨L, R, 0, op, fl, fr, fo⟩ σ :=
  ⟨_, by unfold Algo.apply_with_flip skel; rfl, by
    intro i σ
    obtain ⟨res, ne, ex, stk, fin⟩ := σ
    unfold cstep
    simp only []
    cases hb : stk.back? with
    | none => rfl
    | some t =>
      obtain ⟨l, r⟩ := t
      simp only []
      by_cases hc : fin.contains (l, r) = true
      · simp only [hc, if_true]; rfl
      · simp only [hc, var_of_eq]
        cases hl : L[l]? with
        | none => rfl
        | some nl =>
          cases hr : R[r]? with
          | none => rfl
          | some nr => 
            simp only [bind_ok, kids_jp L l nl hl, kids_jp R r nr hr, look_eq]
            generalize min nl.var nr.var = d
            generalize kids L l d fl = kl
            generalize kids R r d fr = kr
            generalize look op fin (kl.fst, kr.fst) = a
            generalize look op fin (kl.snd, kr.snd) = b
            cases a with
            | none =>
              cases b <;> by_cases hfo : fo = some d <;> simp [pushIf, hfo, pure_eq]
            | some a =>
              cases b with
              | none => by_cases hfo : fo = some d <;> simp [pushIf, hfo, pure_eq]
              | some b =>
                simp only [root_push, bind_ok, mk_node_flip]
                unfold fin32
                generalize (if decide (fo = some d) = true then (⟨d, b, a⟩ : Node) else ⟨d, a, b⟩) = node
                have h1 : (Algo.BddPointer_is_one a || Algo.BddPointer_is_one b) = true ↔ (a = 1 ∨ b = 1) := by
                  simp [Algo.BddPointer_is_one]
                simp only [h1, beq_iff_eq, Algo.Bdd_push_node, Bool.false_eq_true, if_false]
                by_cases h : a = 1 ∨ b = 1
                · simp only [h, if_true]
                  by_cases hab : a = b
                  · simp only [hab, if_true]; rfl
                  · cases hex : ex[node]? <;> simp only [hab, if_false] <;> rfl
                · simp only [h, if_false]
                  by_cases hab : a = b
                  · simp only [hab, if_true]; rfl
                  · cases hex : ex[node]? <;> simp only [hab, if_false] <;> rfl⟩

theorem cstep_n (L R : Arr) (n m : Nat) (op : Op2) (fl fr fo : Option Nat) :
    cstep ⟨L, R, n, op, fl, fr, fo⟩ = cstep ⟨L, R, m, op, fl, fr, fo⟩ := by
  funext σ; rfl

/-- DESUGARING LEMMA: `apply_with_flip` = prologue; `loopN cstep fuel`; epilogue -/
theorem desugar (fuel : Nat) (L R : Arr) (n : Nat) (fl fr fo : Option Nat) (op : Op2) :
    Algo.apply_with_flip fuel L R fl fr fo op =
      skel (fun _ σ => cstep ⟨L, R, n, op, fl, fr, fo⟩ σ) fuel L R fl fr fo := by
  obtain ⟨body, h1, h2⟩ := desugar_body fuel L R fl fr fo op
  have : body = fun _ σ => cstep ⟨L, R, n, op, fl, fr, fo⟩ σ := by
    funext i σ; rw [h2, cstep_n L R 0 n]
  rw [h1, this]

/-- the loop variables at loop entry (lines 259-280) -/
def initLS (L R : Arr) (n : Nat) : LS :=
  (mkTrue n, false,
   ((HashMap.emptyWithCapacity (max L.size R.size)).insert (zeroN n) 0).insert (oneN n) 1,
   #[(u32 (L.size - 1), u32 (R.size - 1))],
   HashMap.emptyWithCapacity (max L.size R.size))

/-- the fuel check and lines 376-380 -/
def post (n : Nat) (σ : LS) : Outcome Arr :=
  match σ.2.2.2.1.back? with
  | some _ => .panic "fuel"
  | none => if σ.2.1 then .ok σ.1 else .ok (mkFalse n)

theorem num_vars_eq (A : Arr) :
    Algo.Bdd_num_vars A = match A[0]? with | some nd => .ok nd.var | none => oob := by
  unfold Algo.Bdd_num_vars
  rw [idx_eq]; cases A[0]? <;> rfl

theorem check_flip_ok (n : Nat) (f : Option Nat) (h : ∀ x, f = some x → x < n) :
    Algo.check_flip_bounds n f = .ok () := by
  unfold Algo.check_flip_bounds
  cases f with
  | none => rfl
  | some x =>
    have := h x rfl
    have h' : ¬ (x ≥ n) := by omega
    simp only [h', decide_false]; rfl

theorem check_flip_bad (n : Nat) (x : Nat) (h : n ≤ x) :
    Algo.check_flip_bounds n (some x) = .panic "Cannot flip variable {} in Bdd with {} variables." := by
  unfold Algo.check_flip_bounds
  have h' : x ≥ n := h
  simp only [h', decide_true]; rfl

theorem size_pos_of_get0 {A : Arr} {z : Node} (h : A[0]? = some z) : 1 ≤ A.size := by
  rcases Nat.lt_or_ge 0 A.size with h' | h'
  · exact h'
  · simp [Array.getElem?_eq_none h'] at h

/-- the generated function in the model's domain (compatible variable counts, flips in range): prologue and
    epilogue evaluated -/
theorem desugar_ok (fuel : Nat) (L R : Arr) (fl fr fo : Option Nat) (op : Op2) (zl zr : Node)
    (hL : L[0]? = some zl) (hR : R[0]? = some zr) (hv : zr.var = zl.var)
    (hfl : ∀ x, fl = some x → x < zl.var) (hfr : ∀ x, fr = some x → x < zl.var)
    (hfo : ∀ x, fo = some x → x < zl.var) :
    Algo.apply_with_flip fuel L R fl fr fo op =
      (loopN (cstep ⟨L, R, zl.var, op, fl, fr, fo⟩) fuel (initLS L R zl.var)).bind (post zl.var) := by
  rw [desugar fuel L R zl.var]
  unfold skel
  have hl1 := size_pos_of_get0 hL
  have hr1 := size_pos_of_get0 hR
  simp only [num_vars_eq, hL, hR, bind_ok, hv, bne_self_eq_false, Bool.false_eq_true, if_false, pure_eq,
    check_flip_ok _ _ hfl, check_flip_ok _ _ hfr, check_flip_ok _ _ hfo, root_eq, hl1, hr1, if_true,
    forIn_range_loopN (cstep ⟨L, R, zl.var, op, fl, fr, fo⟩) _ (fun _ _ => rfl)]
  show Rust.bindFast _ _ = _
  rw [Rust.bindFast_eq]
  congr 1
  funext σ
  unfold post
  cases σ.2.2.2.1.back? <;> rfl

/-- line 246: operands over different variable counts -/
theorem desugar_mismatch (fuel : Nat) (L R : Arr) (fl fr fo : Option Nat) (op : Op2) (zl zr : Node)
    (hL : L[0]? = some zl) (hR : R[0]? = some zr) (hv : zr.var ≠ zl.var) :
    Algo.apply_with_flip fuel L R fl fr fo op =
      .panic "Var count mismatch: BDDs are not compatible. {} != {}" := by
  rw [desugar fuel L R zl.var]
  unfold skel
  have : (zr.var != zl.var) = true := by simp [hv]
  simp only [num_vars_eq, hL, hR, bind_ok, this, if_true, bind_panic]


def flipMsg : String := "Cannot flip variable {} in Bdd with {} variables."

theorem check_flip_cases (n : Nat) (f : Option Nat) :
    ((∀ x, f = some x → x < n) ∧ Algo.check_flip_bounds n f = .ok ()) ∨
    ((∃ x, f = some x ∧ n ≤ x) ∧ Algo.check_flip_bounds n f = .panic flipMsg) := by
  by_cases h : ∀ x, f = some x → x < n
  · exact Or.inl ⟨h, check_flip_ok n f h⟩
  · right
    cases f with
    | none => exact absurd (fun x hx => by cases hx) h
    | some y =>
      have hy : n ≤ y := by
        rcases Nat.lt_or_ge y n with h' | h'
        · exact absurd (fun x hx => by cases hx; exact h') h
        · exact h'
      exact ⟨⟨y, rfl, hy⟩, check_flip_bad n y hy⟩

/-- lines 253-255 (`check_flip_bounds`): some flip variable is not a variable of the operands -/
theorem desugar_flip_panic (fuel : Nat) (L R : Arr) (fl fr fo : Option Nat) (op : Op2) (zl zr : Node)
    (hL : L[0]? = some zl) (hR : R[0]? = some zr) (hv : zr.var = zl.var)
    (hbad : ∃ x, (fl = some x ∨ fr = some x ∨ fo = some x) ∧ zl.var ≤ x) :
    Algo.apply_with_flip fuel L R fl fr fo op = .panic flipMsg := by
  rw [desugar fuel L R zl.var]
  unfold skel
  simp only [num_vars_eq, hL, hR, bind_ok, hv, bne_self_eq_false, Bool.false_eq_true, if_false, pure_eq]
  rcases check_flip_cases zl.var fl with ⟨ol, hl⟩ | ⟨_, hl⟩
  · rcases check_flip_cases zl.var fr with ⟨or_, hr⟩ | ⟨_, hr⟩
    · rcases check_flip_cases zl.var fo with ⟨oo, ho⟩ | ⟨_, ho⟩
      · obtain ⟨x, hx, hn⟩ := hbad
        rcases hx with hx | hx | hx
        · have := ol x hx; omega
        · have := or_ x hx; omega
        · have := oo x hx; omega
      · simp only [hl, hr, ho, bind_ok, bind_panic]
    · simp only [hl, hr, bind_ok, bind_panic]
  · simp only [hl, bind_panic]

end B.AlgoEqA
